(* Async/FrameProofs.v — proof of Async/FrameTargets.v: the transport log of a whole connection is framed (a prefix of a
   sequence of complete records) at every end of the run, and whole when the connection task returns.
   Part A: complete records ([recs], the fuel-free reading of [whole]) and the records the model writes.
   Part B: both parsers append only complete records to their output.
   Part C: the invariant threaded through every function of Async/Conn.v.
   Part D: the theorem and two runs. *)
From Coq Require Import ZArith.
From FV Require Import Base.Bytes Base.BytesLemmas Gen.Generated Codec.Varint Codec.NV Codec.Header Codec.Bodies Codec.Vars
  Codec.ProtoProofs Parser.ReqModel Parser.ReqWire Parser.ReqTargets Parser.ReqDrive Parser.ReqRecords
  Parser.StreamModel Parser.AbsStream Parser.StreamRefine Parser.StreamInv Parser.EnvCanon
  Async.Conn Async.ConnWrites Async.ConnTotal Async.ConnReads Async.PeerProofs Async.PeerProofs2 Async.LogProofs Async.ReadsWTargets
  Async.FrameTargets.
From Coq Require Import ZifyBool ZifyNat ZifyN.
Ltac Zify.zify_post_hook ::= Z.div_mod_to_equations.

(* ------------------------------------------------------------------------------------------ *)
(* Part A: complete records                                                                     *)
(* ------------------------------------------------------------------------------------------ *)

(* one complete record: a decodable header and exactly the announced content and padding *)
Definition one_rec (r : bytes) : Prop :=
  exists t id cl pl, 8 <= len r /\ hdr_decode (take 8 r) = HOk t id cl pl /\ len r = 8 + cl + pl.

Inductive recs : bytes -> Prop :=
| recs_nil : recs []
| recs_cons r L : one_rec r -> recs L -> recs (r ++ L).

Lemma recs_one r : one_rec r -> recs r.
Proof. intros H. rewrite <- (app_nil_r r). apply recs_cons; [exact H|apply recs_nil]. Qed.

Lemma recs_app a b : recs a -> recs b -> recs (a ++ b).
Proof.
  intros Ha Hb. induction Ha as [|r L Hr HL IH]; [exact Hb|]. rewrite <- app_assoc. apply recs_cons; assumption.
Qed.

Lemma one_rec_head r L r' L' : one_rec r -> one_rec r' -> r ++ L = r' ++ L' -> r = r' /\ L = L'.
Proof.
  intros (t & id & cl & pl & H8 & Hd & Hl) (t' & id' & cl' & pl' & H8' & Hd' & Hl') E.
  assert (T : take 8 r = take 8 r').
  { rewrite <- (take_app_le 8 r L) by lia. rewrite <- (take_app_le 8 r' L') by lia. rewrite E. reflexivity. }
  rewrite T, Hd' in Hd. injection Hd as <- <- <- <-.
  assert (Hlen : len r = len r') by lia.
  assert (R : r = r').
  { rewrite <- (take_len_app r L), <- (take_len_app r' L'), E, Hlen. reflexivity. }
  split; [exact R|]. subst r'. apply app_inv_head in E. exact E.
Qed.

Lemma one_rec_nonnil r : one_rec r -> r <> [].
Proof. intros (t & id & cl & pl & H8 & _) ->. rewrite len_nil in H8. lia. Qed.

Lemma recs_cancel a : recs a -> forall b, recs (a ++ b) -> recs b.
Proof.
  induction 1 as [|r L Hr HL IH]; intros b Hab; [exact Hab|].
  rewrite <- app_assoc in Hab. inversion Hab as [E|r' L' Hr' HL' E].
  - exfalso. symmetry in E. apply app_eq_nil in E. destruct E as [E _]. exact (one_rec_nonnil r Hr E).
  - destruct (one_rec_head r' L' r (L ++ b) Hr' Hr E) as [_ ->]. apply IH. exact HL'.
Qed.

Lemma parse_records_recs : forall f L, snd (parse_records f L) = [] -> recs L.
Proof.
  induction f as [|f IH]; intros L H.
  - cbn [parse_records snd] in H. subst L. apply recs_nil.
  - cbn [parse_records] in H. destruct (N.ltb_spec (len L) 8) as [H8|H8].
    { cbn [snd] in H. subst L. apply recs_nil. }
    destruct (hdr_decode (take 8 L)) as [t id cl pl|v|t] eqn:Ed; [|cbn [snd] in H; subst L; apply recs_nil..].
    destruct (N.ltb_spec (len L) (8 + cl + pl)) as [Hn|Hn].
    { cbn [snd] in H. subst L. apply recs_nil. }
    destruct (parse_records f (drop (8 + cl + pl) L)) as [rs rest] eqn:Ep. cbn [snd] in H. subst rest.
    rewrite <- (take_drop (8 + cl + pl) L). apply recs_cons.
    + exists t, id, cl, pl. rewrite len_take. split; [lia|]. split; [|lia].
      rewrite take_take. replace (N.min 8 (8 + cl + pl)) with 8 by lia. exact Ed.
    + apply IH. rewrite Ep. reflexivity.
Qed.

Lemma recs_parse_records L : recs L -> forall f, (length L <= f)%nat -> snd (parse_records f L) = [].
Proof.
  induction 1 as [|r L Hr HL IH]; intros f Hf.
  - destruct f; reflexivity.
  - destruct Hr as (t & id & cl & pl & H8 & Hd & Hl).
    assert (Hlr : (8 <= length r)%nat) by (unfold len in H8; lia).
    rewrite app_length in Hf. destruct f as [|f]; [lia|].
    cbn [parse_records]. rewrite len_app.
    destruct (N.ltb_spec (len r + len L) 8) as [H|_]; [lia|].
    rewrite take_app_le by lia. rewrite Hd.
    destruct (N.ltb_spec (len r + len L) (8 + cl + pl)) as [H|_]; [lia|].
    rewrite <- Hl, drop_len_app.
    specialize (IH f ltac:(lia)). destruct (parse_records f L) as [rs rest]. cbn [snd] in *. exact IH.
Qed.

Lemma whole_recs L : whole L <-> recs L.
Proof.
  unfold whole. split; [apply parse_records_recs|]. intros H. apply recs_parse_records; [exact H|lia].
Qed.

Lemma framed_recs L M : recs (L ++ M) -> framed L.
Proof. intros H. exists M. apply whole_recs. exact H. Qed.

Lemma framed_of_recs L : recs L -> framed L.
Proof. intros H. apply (framed_recs L []). rewrite app_nil_r. exact H. Qed.

(* -- the records of the model -- *)
Lemma take_app_exact {A} (a b : list A) n : n = len a -> take n (a ++ b) = a.
Proof. intros ->. apply take_len_app. Qed.

Lemma hdr_decode_8 a1 a2 a3 a4 a5 a6 a7 : known_type a1 = true ->
  hdr_decode [VERSION_V1; a1; a2; a3; a4; a5; a6; a7] = HOk a1 (be16 a2 a3) (be16 a4 a5) a6.
Proof.
  intros H. unfold hdr_decode. cbv zeta. set (h := [VERSION_V1; a1; a2; a3; a4; a5; a6; a7]).
  change (nthN h 0) with VERSION_V1. change (nthN h 1) with a1. change (nthN h 2) with a2. change (nthN h 3) with a3.
  change (nthN h 4) with a4. change (nthN h 5) with a5. change (nthN h 6) with a6.
  change (known_version VERSION_V1) with true. rewrite H. reflexivity.
Qed.

Lemma one_rec_enc t id cl pl body : known_type t = true -> cl < 65536 -> len body = cl + pl ->
  one_rec (hdr_encode t id cl pl ++ body).
Proof.
  intros Ht Hcl Hb. exists t, (be16 (id / 256 mod 256) (id mod 256)), cl, pl.
  assert (Hh : len (hdr_encode t id cl pl) = 8) by apply hdr_encode_len.
  rewrite len_app, Hh. split; [lia|]. split; [|lia].
  rewrite take_app_exact by (symmetry; exact Hh).
  unfold hdr_encode, to_be16. cbn [app]. rewrite (hdr_decode_8 _ _ _ _ _ _ _ Ht).
  rewrite (be16_to_be16 cl Hcl). reflexivity.
Qed.

Lemma unk_recs t id : recs (unk_record t id).
Proof.
  apply recs_one. unfold unk_record. apply one_rec_enc; [reflexivity|vm_compute; reflexivity|].
  unfold unk_encode. rewrite len_cons, len_zeros. reflexivity.
Qed.

Lemma end_recs app ps id : recs (end_record app ps id).
Proof.
  apply recs_one. unfold end_record. apply one_rec_enc; [reflexivity|vm_compute; reflexivity|].
  unfold end_encode, to_be32. rewrite !len_app, len_zeros. reflexivity.
Qed.

Lemma gv_recs vars maxc : recs (write_response vars maxc).
Proof.
  pose proof (response_body_len vars maxc) as Hl. apply recs_one. unfold write_response. cbv zeta.
  set (body := response_body vars maxc) in *.
  assert (Hm : len body mod 65536 = len body) by (apply N.mod_small; lia). rewrite Hm.
  apply one_rec_enc; [reflexivity|lia|]. rewrite len_app, len_zeros. reflexivity.
Qed.

Lemma hdr0_recs s id : known_type s = true -> recs (hdr_encode s id 0 0).
Proof.
  intros Hs. apply recs_one. rewrite <- (app_nil_r (hdr_encode s id 0 0)).
  apply one_rec_enc; [exact Hs|lia|reflexivity].
Qed.

Lemma rec_of_one stype id c : known_type stype = true -> len c <= 65535 -> one_rec (rec_of stype id c).
Proof.
  intros Ht Hc. unfold rec_of. apply one_rec_enc; [exact Ht|lia|]. rewrite len_app, len_zeros. reflexivity.
Qed.

Lemma stream_records_recs stype id data : known_type stype = true -> recs (stream_records stype id data).
Proof.
  intros Ht. unfold stream_records. pose proof (chunks_sizes data) as Hs.
  induction (chunks data) as [|c t IH]; [apply recs_nil|].
  apply Forall_cons_iff in Hs. destruct Hs as [Hc Hs]. cbn [map concat].
  apply recs_cons; [apply rec_of_one; [exact Ht|lia]|apply IH; exact Hs].
Qed.

Lemma epilogue_recs id disc code wr ep :
  epilogue id disc code (if wr : bool then ROLE_OUTPUT_STREAMS else []) = Some ep -> recs ep.
Proof.
  unfold epilogue. destruct (exit_to_end disc code) as [[app ps]|]; [|discriminate]. intros E. injection E as <-.
  apply recs_app; [|apply end_recs]. destruct wr; [|apply recs_nil].
  unfold ROLE_OUTPUT_STREAMS. cbn [flat_map]. rewrite app_nil_r.
  apply recs_app; apply hdr0_recs; reflexivity.
Qed.

(* ------------------------------------------------------------------------------------------ *)
(* Part B1: the request parser's output consists of complete records (no hypothesis)            *)
(* ------------------------------------------------------------------------------------------ *)

Lemma try_head_recs st sk d :
  match try_head st sk d with HeadOk _ _ _ _ => True | HeadRet _ o => recs o end.
Proof.
  destruct (N.ltb_spec (len d) 8) as [Hl|Hl].
  - rewrite try_head_short by exact Hl. apply recs_nil.
  - rewrite try_head_long by exact Hl.
    destruct (hdr_decode (take 8 d)) as [t id cl pl|v|t]; [exact I|apply recs_nil|apply unk_recs].
Qed.

Lemma header_drive_recs d : recs (snd (header_drive d)).
Proof.
  rewrite header_drive_eq. pose proof (try_head_recs Header header_skip_to d) as H.
  destruct (try_head Header header_skip_to d) as [t id cl pl|f o]; [|exact H].
  unfold header_body. destruct (t =? RT_BeginRequest).
  - destruct (negb (BeginRequest_LEN =? cl)); [cbn [snd]; apply recs_nil|].
    destruct (len d <? 16); [cbn [snd]; apply recs_nil|].
    destruct (begin_decode (slice 8 16 d)) as [role [[role' flags]|]].
    + destruct (id =? 0); cbn [snd]; apply recs_nil.
    + cbn [snd]. apply end_recs.
  - destruct ((t =? RT_GetValues) && hdr_is_management t id); cbn [snd]; apply recs_nil.
Qed.

Lemma values_finish_recs wrap nxt q vars d o : recs o -> recs (snd (values_finish wrap nxt q vars d o)).
Proof. intros H. unfold values_finish. destruct (len d <? q); exact H. Qed.

Lemma values_drive_recs maxc wrap nxt vars p q d : recs (snd (values_drive maxc wrap nxt vars p q d)).
Proof.
  rewrite values_drive_eq. destruct (0 <? p).
  - destruct (nv_run (take (N.min (len d) p) d)) as [ps rest].
    destruct (len d <? p); [cbn [snd]; apply recs_nil|]. apply values_finish_recs, gv_recs.
  - apply values_finish_recs, recs_nil.
Qed.

Lemma stage_head_recs i d : recs (snd (stage_head i d)).
Proof.
  unfold stage_head. pose proof (try_head_recs (Params i 0 0) (params_skip_to i) d) as H.
  destruct (try_head (Params i 0 0) (params_skip_to i) d) as [t id cl pl|f o]; [|exact H].
  cbn [snd]. unfold sh_out. cbv zeta.
  destruct ((t =? RT_Params) && (id =? r_id (ireq i))); [apply recs_nil|].
  destruct ((t =? RT_AbortRequest) && (id =? r_id (ireq i))); [apply end_recs|].
  destruct ((t =? RT_BeginRequest) && negb (id =? r_id (ireq i))); [apply end_recs|apply recs_nil].
Qed.

Lemma stage_pad_recs i q d : recs (snd (stage_pad i q d)).
Proof.
  unfold stage_pad. destruct (0 <? q); [|apply stage_head_recs].
  destruct (len d <=? q); [cbn [snd]; apply recs_nil|apply stage_head_recs].
Qed.

Lemma params_drive_recs norm i p q d : recs (snd (params_drive norm i p q d)).
Proof.
  rewrite ReqDrive.params_drive_eq. destruct (0 <? p); [|apply stage_pad_recs].
  destruct (len d <? p).
  - destruct (parse_stream norm i d false) as [[i' c]|]; [|cbn [snd]; apply recs_nil].
    destruct (p <? c); [cbn [snd]; apply recs_nil|]. destruct (len d <? c); cbn [snd]; apply recs_nil.
  - destruct (parse_stream norm i (take p d) true) as [[i' c]|]; [|cbn [snd]; apply recs_nil].
    destruct (negb (c =? p)); [cbn [snd]; apply recs_nil|apply stage_pad_recs].
Qed.

Lemma drive1_recs norm maxc s d : recs (snd (drive1 norm maxc s d)).
Proof.
  destruct s as [|p q|vars p q|i p q|i p q|i vars p q|r p q|r|e]; cbn [drive1 snd]; try apply recs_nil.
  - apply header_drive_recs.
  - apply values_drive_recs.
  - apply params_drive_recs.
  - apply values_drive_recs.
Qed.

Lemma drive_recs norm maxc : forall f s d out r s' o, recs out -> drive norm maxc f s d out = DOk r s' o -> recs o.
Proof.
  induction f as [|f IH]; intros s d out r s' o Ho E; [discriminate E|].
  rewrite drive_S in E. pose proof (drive1_recs norm maxc s d) as Hw.
  destruct (drive1 norm maxc s d) as [[r0 s0|r0 s0|n] o0]; cbn [snd] in Hw.
  - injection E as <- <- <-. apply recs_app; assumption.
  - destruct r0 as [|b r0'].
    + injection E as <- <- <-. apply recs_app; assumption.
    + apply (IH s0 (b :: r0') (out ++ o0) r s' o); [apply recs_app; assumption|exact E].
  - discriminate E.
Qed.

Lemma parse_out_recs norm maxc p new p' d out : parse norm maxc p new = POk p' d out -> recs out.
Proof.
  unfold parse. intros E. destruct (cap p - len (held p) <? len new); [discriminate E|].
  destruct (drive_all norm maxc (st p) (held p ++ new)) as [rest s' o|n|] eqn:ED; try discriminate E.
  assert (Ho : recs o) by (unfold drive_all in ED; apply (drive_recs norm maxc _ _ _ [] _ _ _ recs_nil ED)).
  destruct (len (held p ++ new) <? len rest); [discriminate E|].
  destruct (negb (is_final s') && (len rest =? cap p)); injection E as <- <- <-; exact Ho.
Qed.

(* ------------------------------------------------------------------------------------------ *)
(* Part B2: the stream parser appends only complete records to its output queue (no hypothesis) *)
(* ------------------------------------------------------------------------------------------ *)

Definition pext (p p' : sp) : Prop :=
  output_start p' = output_start p /\ exists o, output p' = output p ++ o /\ recs o.

Lemma pext_refl p : pext p p.
Proof. split; [reflexivity|]. exists []. split; [symmetry; apply app_nil_r|apply recs_nil]. Qed.

Lemma pext_trans a b c : pext a b -> pext b c -> pext a c.
Proof.
  intros (A1 & o1 & A2 & A3) (B1 & o2 & B2 & B3). split; [congruence|].
  exists (o1 ++ o2). split; [rewrite B2, A2, app_assoc; reflexivity|apply recs_app; assumption].
Qed.

Lemma pext_same p p' : output_start p' = output_start p -> output p' = output p -> pext p p'.
Proof. intros H1 H2. split; [exact H1|]. exists []. split; [rewrite H2; symmetry; apply app_nil_r|apply recs_nil]. Qed.

Lemma pext_add p p' o : output_start p' = output_start p -> output p' = output p ++ o -> recs o -> pext p p'.
Proof. intros H1 H2 H3. split; [exact H1|]. exists o. split; assumption. Qed.

Definition cf_ext (p : sp) (c : cflow) : Prop :=
  match c with CContinue l | CBreak l | CErr l _ => pext p (lp l) | CPanic _ => True end.

Lemma cf_ext_pre p p1 c : pext p p1 -> cf_ext p1 c -> cf_ext p c.
Proof. intros H. destruct c as [l|l|l e|n]; cbn [cf_ext]; try (apply pext_trans; exact H). exact (fun x => x). Qed.

Ltac pext_solve :=
  first [ exact I
        | apply pext_refl
        | apply pext_same; reflexivity
        | eapply pext_add; [reflexivity|reflexivity|first [apply gv_recs|apply unk_recs|apply end_recs]] ].

Lemma parse_payload_ext maxc l : cf_ext (lp l) (parse_payload maxc l).
Proof.
  unfold parse_payload. cbv beta zeta. split_goal_matches; cbn [cf_ext lp]; pext_solve.
Qed.

Lemma parse_head_ext l : cf_ext (lp l) (parse_head l).
Proof.
  unfold parse_head. cbv beta zeta. split_goal_matches; cbn [cf_ext lp]; pext_solve.
Qed.

Lemma after_pl_ext l : cf_ext (lp l) (after_pl l).
Proof.
  unfold after_pl. cbv zeta. destruct (0 <? padding_rem (lp l)); [|apply parse_head_ext].
  destruct (negb (payload_rem (lp l) =? 0)); [exact I|].
  destruct (free_start (lp l) - raw_start (lp l) <=? padding_rem (lp l)); [cbn [cf_ext lp]; pext_solve|].
  eapply cf_ext_pre; [|apply parse_head_ext]. cbn [lp]. pext_solve.
Qed.

Lemma parse_iter_ext maxc l : cf_ext (lp l) (parse_iter maxc l).
Proof.
  rewrite parse_iter_unfold. destruct (0 <? payload_rem (lp l)); [|apply after_pl_ext].
  pose proof (parse_payload_ext maxc l) as H. destruct (parse_payload maxc l) as [l'|l'|l' e|n]; try exact H.
  cbn [cf_ext] in H. eapply cf_ext_pre; [exact H|apply after_pl_ext].
Qed.

Lemma parse_loop_ext maxc fuel : forall l, cf_ext (lp l) (parse_loop maxc fuel l).
Proof.
  induction fuel as [|f IH]; intros l; [exact I|]. cbn [parse_loop].
  destruct (raw_start (lp l) <? free_start (lp l)); [|cbn [cf_ext]; apply pext_refl].
  pose proof (parse_iter_ext maxc l) as H. destruct (parse_iter maxc l) as [l'|l'|l' e|n]; try exact H.
  cbn [cf_ext] in H. eapply cf_ext_pre; [exact H|apply IH].
Qed.

Lemma sparse_ext maxc p new dest :
  match sparse maxc p new dest with StOk p' _ | StErr p' _ _ => pext p p' | StPanic _ => True end.
Proof.
  unfold sparse. destruct (match dest with Some _ => negb (parsed_start p =? gap_start p) | None => false end); [exact I|].
  destruct (len (buffer p) - free_start p <? len new); [exact I|]. cbv zeta.
  match goal with |- context [parse_loop maxc ?f ?l] => pose proof (parse_loop_ext maxc f l) as H; destruct (parse_loop maxc f l) as [l'|l'|l' e|n] end;
    cbn [cf_ext lp] in H; try exact I;
    try (destruct (invars_ok (lp l')); [|exact I]);
    (eapply pext_trans; [|exact H]); apply pext_same; reflexivity.
Qed.

Lemma set_stream_ext p s p' : set_stream p s = SetOk p' -> pext p p'.
Proof.
  unfold set_stream. intros E.
  repeat match type of E with
         | context [if ?c then _ else _] => destruct c
         | context [match ?x with _ => _ end] => destruct x
         end; try discriminate E; injection E as <-; apply pext_same; reflexivity.
Qed.

(* ------------------------------------------------------------------------------------------ *)
(* Part C1: the invariants                                                                      *)
(* ------------------------------------------------------------------------------------------ *)

(* the output cursor of the stream parser is inside its queue *)
Definition oinv (p : sp) : Prop := output_start p <= len (output p).

(* the transport: no write fault left; in mode [g = true] moreover no shutdown is ever requested *)
Definition WI (g : bool) (w : world) : Prop :=
  no_fault (wscript w) /\ (g = true -> stop_at w = 0 /\ stopped w = false).

(* the request: the unsent parser output completes the log to whole records; with the output lock free the log is whole *)
Definition FI (r : rstate) (w : world) : Prop :=
  oinv (rsp r) /\ recs (wlog w ++ output_buffer (rsp r)) /\ (rlock r = false -> recs (wlog w)).

(* wherever the task stops: the log is framed; in mode [g = true] it does not stop by returning *)
Definition HP (g : bool) (o : outcome) (w : world) : Prop := framed (wlog w) /\ (g = true -> o <> ORet).

Definition rpost {X} (g : bool) (x : res (X * rstate)) : Prop :=
  match x with Ok (_, r') w' => WI g w' /\ FI r' w' | Halt o w' => HP g o w' end.

Lemma pext_out p p' : oinv p -> pext p p' -> oinv p' /\ exists o, output_buffer p' = output_buffer p ++ o /\ recs o.
Proof.
  unfold oinv, output_buffer. intros H (E1 & o & E2 & Ho). rewrite E1, E2. split; [rewrite len_app; lia|].
  exists o. split; [apply drop_app_le; exact H|exact Ho].
Qed.

Lemma FI_pext r w p' wr ab : FI r w -> pext (rsp r) p' -> FI (mkR p' wr (rlock r) ab) w.
Proof.
  intros (O & A & B) X. destruct (pext_out _ _ O X) as (O' & o & E & Ho). unfold FI. cbn [rsp rlock].
  split; [exact O'|]. split; [rewrite E, app_assoc; apply recs_app; assumption|exact B].
Qed.

Lemma FI_framed r w : FI r w -> framed (wlog w).
Proof. intros (_ & A & _). eapply framed_recs. exact A. Qed.

Lemma FI_wlog r w w' : FI r w -> wlog w' = wlog w -> FI r w'.
Proof. intros (O & A & B) E. unfold FI. rewrite E. split; [exact O|]. split; [exact A|exact B]. Qed.

Lemma FI_HP g r w o : FI r w -> o <> ORet -> HP g o w.
Proof. intros F H. split; [eapply FI_framed; exact F|intros _; exact H]. Qed.

Lemma consume_output_oinv p n : oinv p -> oinv (consume_output p n).
Proof.
  unfold oinv, consume_output. intros H.
  destruct (N.leb_spec (len (output p) - output_start p) n) as [L|L]; cbn [output output_start]; [|lia].
  change (len (@nil N)) with 0. lia.
Qed.

Lemma no_fault_hd ws k : no_fault ws -> hd_error ws = Some k -> k <> W_ZERO /\ k <> W_ERR /\ k <> W_ERR_AB.
Proof.
  intros H E. destruct ws as [|x t]; [discriminate E|]. cbn [hd_error] in E. injection E as ->.
  unfold no_fault in H. apply Forall_cons_iff in H. exact (proj1 H).
Qed.

Lemma WI_bump g w : WI g w -> WI g (w_bump w).
Proof.
  intros [A B]. split; [exact A|]. intros Hg. destruct (B Hg) as [S1 S2]. split; [exact S1|].
  change (stopped (w_bump w)) with (stopped w || (epoch w + 1 =? stop_at w)). rewrite S1, S2. cbn [orb].
  apply N.eqb_neq. lia.
Qed.

Lemma WI_stop w : WI false w -> WI false (w_stop w).
Proof. intros [A _]. split; [exact A|discriminate]. Qed.

Lemma WI_weaken g w : WI g w -> WI false w.
Proof. intros [A _]. split; [exact A|discriminate]. Qed.

Lemma on_wake_fr {A} g sel w (retry : world -> res A) (Q : res A -> Prop) :
  WI g w -> (WI g (w_bump w) -> Q (retry (w_bump w))) -> (g = false -> Q (Halt ORet (w_bump w))) -> Q (on_wake sel w retry).
Proof.
  intros W H1 H2. unfold on_wake. pose proof (WI_bump g w W) as Wb.
  destruct (sel && stopped (w_bump w)) eqn:E; [|apply H1; exact Wb].
  destruct g; [|apply H2; reflexivity]. destruct Wb as [_ B]. destruct (B eq_refl) as [_ S].
  rewrite S, andb_false_r in E. discriminate E.
Qed.

Lemma on_block_fr {A} g sel w (retry : world -> res A) (Q : res A -> Prop) :
  WI g w -> (g = false -> WI false (w_stop w) -> Q (retry (w_stop w))) -> (g = false -> Q (Halt ORet (w_stop w))) ->
  Q (Halt ODeadlock w) -> Q (on_block sel w retry).
Proof.
  intros W H1 H2 H3. unfold on_block. destruct (negb (stop_at w =? 0) && negb (stopped w)) eqn:E; [|exact H3].
  destruct g.
  - destruct W as [_ B]. destruct (B eq_refl) as [S1 S2]. rewrite S1 in E. discriminate E.
  - destruct sel; [apply H2; reflexivity|apply H1; [reflexivity|apply WI_stop; exact W]].
Qed.

(* -- the transport -- *)
Lemma tpw_fr g offer w p w' : t_poll_write offer w = (p, w') -> WI g w ->
  WI g w' /\
  match p with
  | PReady (inl n) => wlog w' = wlog w ++ take n offer /\ n <= len offer /\ (n = 0 -> offer = [])
  | PReady (inr _) => False
  | PWake => wlog w' = wlog w
  | PBlock => False
  end.
Proof.
  intros E [Hnf Hs]. destruct (t_poll_write_cases offer w p w' E) as (Hio & _ & _ & Hst & Hnf' & Hp).
  split.
  { split; [apply Hnf'; exact Hnf|]. intros Hg. destruct (Hs Hg) as [S1 S2].
    destruct (io_rel_same _ _ _ Hio) as (_ & _ & _ & Hsa & _). split; [rewrite Hsa; exact S1|rewrite Hst; exact S2]. }
  pose proof (io_rel_wlog _ _ _ Hio) as Hl.
  destruct p as [[n|k]| |].
  - destruct Hp as [Hn Hn0]. split; [exact Hl|]. split; [exact Hn|]. intros Hz. destruct (Hn0 Hz) as [H|H]; [exact H|].
    exfalso. destruct (no_fault_hd _ _ Hnf H) as (X & _). apply X. reflexivity.
  - destruct Hp as [[_ H]|[_ H]]; destruct (no_fault_hd _ _ Hnf H) as (_ & X & Y); [apply X|apply Y]; reflexivity.
  - rewrite app_nil_r in Hl. exact Hl.
  - exact Hp.
Qed.

Lemma tpr_fr g L w p w' : t_poll_read L w = (p, w') -> WI g w -> WI g w' /\ wlog w' = wlog w.
Proof.
  unfold t_poll_read. intros E W.
  repeat match type of E with
  | (if ?c then _ else _) = _ => destruct c
  | (match ?x with _ => _ end) = _ => destruct x
  end; injection E as <- <-; (split; [exact W|reflexivity]).
Qed.

Lemma await_read_fr g : forall fuel sel L w, WI g w ->
  match await_read fuel sel L w with
  | Ok _ w' => WI g w' /\ wlog w' = wlog w
  | Halt o w' => wlog w' = wlog w /\ (g = true -> o <> ORet)
  end.
Proof.
  induction fuel as [|f IH]; intros sel L w W; [split; [reflexivity|discriminate]|].
  cbn [await_read]. destruct (t_poll_read L w) as [p w1] eqn:ET. destruct (tpr_fr g L w p w1 ET W) as [W1 L1].
  set (Q := fun x : res (bytes + N) =>
              match x with Ok _ w' => WI g w' /\ wlog w' = wlog w | Halt o w' => wlog w' = wlog w /\ (g = true -> o <> ORet) end).
  assert (RETRY : forall w2, WI g w2 -> wlog w2 = wlog w1 -> Q (await_read f sel L w2)).
  { intros w2 W2 L2. specialize (IH sel L w2 W2). unfold Q. rewrite <- L1, <- L2.
    destruct (await_read f sel L w2); exact IH. }
  destruct p as [a| |].
  - split; assumption.
  - apply (on_wake_fr g sel w1 _ Q W1).
    + intros Wb. apply RETRY; [exact Wb|reflexivity].
    + intros ->. split; [exact L1|discriminate].
  - apply (on_block_fr g sel w1 _ Q W1).
    + intros -> Ws. apply RETRY; [exact Ws|reflexivity].
    + intros ->. split; [exact L1|discriminate].
    + split; [exact L1|discriminate].
Qed.

(* -- write loops: the invariant of the world -- *)
Lemma awa_WI g : forall fuel sel b w, WI g w -> WI g (res_w (await_write_all fuel sel b w)).
Proof.
  induction fuel as [|f IH]; intros sel b w W; [exact W|]. cbn [await_write_all].
  destruct b as [|x b']; [exact W|].
  destruct (t_poll_write (x :: b') w) as [p w1] eqn:ET. destruct (tpw_fr g _ w p w1 ET W) as [W1 C].
  destruct p as [[n|k]| |]; try contradiction.
  - destruct (n =? 0); [exact W1|apply IH; exact W1].
  - apply (on_wake_fr g sel w1 _ (fun x => WI g (res_w x)) W1).
    + intros Wb. apply IH. exact Wb.
    + intros _. apply WI_bump. exact W1.
Qed.

Lemma write_slices_WI g : forall fuel slices w, WI g w -> WI g (res_w (write_slices fuel slices w)).
Proof.
  induction fuel as [|f IH]; intros slices w W; [exact W|]. rewrite ConnWrites.write_slices_S.
  destruct (filter nonempty slices) as [|s1 more]; [exact W|].
  match goal with |- context [t_poll_write ?o w] => destruct (t_poll_write o w) as [p w1] eqn:ET; destruct (tpw_fr g o w p w1 ET W) as [W1 C] end.
  destruct p as [[n|k]| |]; try contradiction.
  - destruct (n =? 0); [exact W1|apply IH; exact W1].
  - apply (on_wake_fr g false w1 _ (fun x => WI g (res_w x)) W1).
    + intros Wb. apply IH. exact Wb.
    + intros _. apply WI_bump. exact W1.
Qed.

Lemma writer_write_all_WI g stype id : forall fuel data w, WI g w -> WI g (res_w (writer_write_all fuel stype id data w)).
Proof.
  induction fuel as [|f IH]; intros data w W; [exact W|]. rewrite writer_write_all_S.
  destruct data as [|x d]; [exact W|]. cbv zeta.
  match goal with |- context [write_slices ?fu ?sl w] =>
    pose proof (write_slices_WI g fu sl w W) as H; destruct (write_slices fu sl w) as [[k|] w1|o w1] end;
    cbn [res_w] in H |- *; [exact H|apply IH; exact H|exact H].
Qed.

(* what a "write all of b" loop leaves behind on a fault-free transport *)
Definition wfr (g : bool) (b : bytes) (w : world) (x : res (option N)) : Prop :=
  match x with
  | Ok None w' => WI g w' /\ wlog w' = wlog w ++ b
  | Ok (Some _) _ => False
  | Halt o w' => HP g o w'
  end.

Lemma wpost_fr g sel b w x : wpost sel b w x -> WI g w -> WI g (res_w x) -> recs (wlog w ++ b) -> wfr g b w x.
Proof.
  destruct x as [[k|] w'|o w']; cbn [wpost res_w wfr].
  - intros H W _ _. exact (wpost_no_fault sel b w k w' (proj1 W) H).
  - intros Hio _ W' _. split; [exact W'|apply io_rel_wlog; exact Hio].
  - destruct o; try contradiction.
    + intros (_ & Hst & b1 & b2 & Hb & _ & Hio) _ W' R. split.
      * rewrite (io_rel_wlog _ _ _ Hio). apply (framed_recs _ b2). rewrite <- app_assoc, <- Hb. exact R.
      * intros ->. destruct W' as [_ B]. destruct (B eq_refl) as [_ S]. congruence.
    + intros (b1 & b2 & Hb & Hio) _ _ R. split; [|discriminate].
      rewrite (io_rel_wlog _ _ _ Hio). apply (framed_recs _ b2). rewrite <- app_assoc, <- Hb. exact R.
Qed.

Lemma awa_fr g fuel sel b w : WI g w -> recs (wlog w ++ b) -> wfr g b w (await_write_all fuel sel b w).
Proof.
  intros W R. apply (wpost_fr g sel); [apply await_write_all_post|exact W|apply awa_WI; exact W|exact R].
Qed.

Lemma wwa_fr g fuel stype id data w : WI g w -> recs (wlog w) -> known_type stype = true ->
  wfr g (stream_records stype id data) w (writer_write_all fuel stype id data w).
Proof.
  intros W R Ht. apply (wpost_fr g false); [apply writer_write_all_post|exact W|apply writer_write_all_WI; exact W|].
  apply recs_app; [exact R|apply stream_records_recs; exact Ht].
Qed.

(* ------------------------------------------------------------------------------------------ *)
(* Part C2: Request::poll_output / poll_input / writeable / record_boundary / close               *)
(* ------------------------------------------------------------------------------------------ *)

Lemma poll_output_fr g : forall fuel r w, WI g w -> FI r w ->
  match poll_output fuel r w with (_, r', w') => WI g w' /\ FI r' w' end.
Proof.
  induction fuel as [|f IH]; intros r w W F; [split; assumption|].
  cbn [poll_output]. destruct F as (O & A & B).
  destruct (output_buffer (rsp r)) as [|x o'] eqn:Eo.
  - split; [exact W|]. unfold FI. cbn [rsp rlock]. rewrite Eo. split; [exact O|]. split; [exact A|].
    intros _. rewrite app_nil_r in A. exact A.
  - destruct (t_poll_write (x :: o') w) as [p w1] eqn:ET. destruct (tpw_fr g _ w p w1 ET W) as [W1 C].
    destruct p as [[n|k]| |]; try contradiction.
    + destruct C as (L1 & Hn & Hn0). destruct (N.eqb_spec n 0) as [Hz|Hz]; [specialize (Hn0 Hz); discriminate Hn0|].
      apply IH; [exact W1|]. unfold FI. cbn [rsp rlock].
      split; [apply consume_output_oinv; exact O|]. split; [|discriminate].
      rewrite consume_output_buffer, Eo, L1, <- app_assoc, take_drop. exact A.
    + split; [exact W1|]. unfold FI. cbn [rsp rlock]. rewrite Eo, C. split; [exact O|]. split; [exact A|discriminate].
Qed.

Section FrameConn.
Variable maxc : N.

Lemma compress_pext p : pext p (compress p).
Proof. apply pext_same; reflexivity. Qed.

Lemma consume_stream_pext p n : pext p (consume_stream p n).
Proof. apply pext_same; reflexivity. Qed.

Lemma input_loop_fr g : forall fuel dest new r w, WI g w -> FI r w ->
  match input_loop maxc fuel dest new r w with (_, r', w') => WI g w' /\ FI r' w' end.
Proof.
  induction fuel as [|f IH]; intros dest new r w W F; [split; assumption|].
  cbn [input_loop]. pose proof (sparse_ext maxc (rsp r) new dest) as X.
  destruct (sparse maxc (rsp r) new dest) as [p1 s|p1 e s|n].
  - destruct (s_end s || (0 <? s_stream s)).
    + split; [exact W|].
      match goal with |- context [if ?c then _ else _] => destruct c end; apply FI_pext; assumption.
    + set (r2 := mkR (compress p1) (rwriteable r) (rlock r) (raborted r)).
      assert (F2 : FI r2 w) by (apply FI_pext; [exact F|eapply pext_trans; [exact X|apply compress_pext]]).
      pose proof (poll_output_fr g (S f) r2 w W F2) as PO.
      destruct (poll_output (S f) r2 w) as [[po r3] w0]. destruct PO as [W0 F0].
      destruct po as [[u|k]| |]; try (split; assumption).
      destruct (t_poll_read (sinput_space (rsp r3)) w0) as [pr w1] eqn:ET.
      destruct (tpr_fr g _ _ _ _ ET W0) as [W1 L1]. pose proof (FI_wlog _ _ _ F0 L1) as F1.
      destruct pr as [[b|k]| |]; try (split; assumption).
      destruct b as [|y b']; [split; assumption|]. apply IH; assumption.
  - split; [exact W|]. apply FI_pext; assumption.
  - split; assumption.
Qed.

Lemma poll_input_fr g fuel dest r w : WI g w -> FI r w ->
  match poll_input maxc fuel dest r w with (_, r', w') => WI g w' /\ FI r' w' end.
Proof.
  intros W F. unfold poll_input. cbv zeta.
  assert (POLL : match (match poll_output fuel r w with
                 | (PReady (inl _), r1, w1) => input_loop maxc fuel dest [] r1 w1
                 | (PReady (inr k), r1, w1) => (PReady (inr k), r1, w1)
                 | (PWake, r1, w1) => (PWake, r1, w1)
                 | (PBlock, r1, w1) => (PBlock, r1, w1)
                 end) with (_, r', w') => WI g w' /\ FI r' w' end).
  { pose proof (poll_output_fr g fuel r w W F) as PO. destruct (poll_output fuel r w) as [[po r1] w1].
    destruct PO as [W1 F1]. destruct po as [[u|k]| |]; try (split; assumption). apply input_loop_fr; assumption. }
  destruct dest as [c|].
  - destruct c as [|c'].
    + destruct (stream_buffer (rsp r)); split; assumption.
    + destruct (stream_buffer (rsp r)) as [|x sb']; [exact POLL|].
      split; [exact W|]. apply FI_pext; [exact F|apply consume_stream_pext].
  - destruct (stream_buffer (rsp r)) as [|x sb']; [exact POLL|split; assumption].
Qed.

Lemma await_input_fr g : forall fuel dest r w, WI g w -> FI r w -> rpost g (await_input maxc fuel dest r w).
Proof.
  induction fuel as [|f IH]; intros dest r w W F; [apply (FI_HP g r); [exact F|discriminate]|].
  cbn [await_input].
  pose proof (poll_input_fr g (io_fuel w (len (buffer (rsp r)))) dest r w W F) as PI.
  destruct (poll_input maxc (io_fuel w (len (buffer (rsp r)))) dest r w) as [[p r1] w1]. destruct PI as [W1 F1].
  destruct p as [x| |].
  - split; assumption.
  - apply (on_wake_fr g false w1 _ (rpost g) W1).
    + intros Wb. apply IH; [exact Wb|exact F1].
    + intros ->. split; [eapply FI_framed; exact F1|discriminate].
  - apply (on_block_fr g false w1 _ (rpost g) W1).
    + intros -> Ws. apply IH; [exact Ws|exact F1].
    + intros ->. split; [eapply FI_framed; exact F1|discriminate].
    + apply (FI_HP g r1); [exact F1|discriminate].
Qed.

Lemma do_writeable_fr g r w : WI g w -> FI r w -> rpost g (do_writeable maxc r w).
Proof.
  intros W F. unfold do_writeable. destruct (rwriteable r); [split; assumption|].
  match goal with |- context [set_stream ?p ?s] => destruct (set_stream p s) as [p'| |] eqn:ES end;
    [|apply (FI_HP g r); [exact F|discriminate]..].
  apply set_stream_ext in ES.
  match goal with |- context [await_input maxc ?fu ?d ?r0 w] =>
    pose proof (await_input_fr g fu d r0 w W (FI_pext r w p' _ _ F ES)) as H;
    destruct (await_input maxc fu d r0 w) as [[[v|k] r'] w'|o w'] end; exact H.
Qed.

Lemma boundary_loop_fr g : forall fuel new r w, WI g w -> FI r w -> rpost g (boundary_loop maxc fuel new r w).
Proof.
  induction fuel as [|f IH]; intros new r w W F; [apply (FI_HP g r); [exact F|discriminate]|].
  rewrite ConnTotal.boundary_loop_S.
  assert (AFTER : forall p', pext (rsp r) p' -> rpost g (ConnTotal.bl_after maxc f r w p')).
  { intros p' X. unfold ConnTotal.bl_after. cbv zeta. destruct (is_record_boundary p').
    { split; [exact W|apply FI_pext; assumption]. }
    assert (F2 : FI (mkR (compress p') (rwriteable r) (rlock r) (raborted r)) w).
    { apply FI_pext; [exact F|eapply pext_trans; [exact X|apply compress_pext]]. }
    pose proof (await_read_fr g (io_fuel w 0) false (sinput_space (compress p')) w W) as AR.
    destruct (await_read (io_fuel w 0) false (sinput_space (compress p')) w) as [[b|k] w1|o w1].
    - destruct AR as [W1 L1]. pose proof (FI_wlog _ _ _ F2 L1) as F1.
      destruct b as [|x b']; [split; assumption|]. apply IH; assumption.
    - destruct AR as [W1 L1]. split; [exact W1|apply (FI_wlog _ _ _ F2 L1)].
    - destruct AR as [L1 Ho]. split; [|exact Ho]. eapply FI_framed. apply (FI_wlog _ _ _ F2 L1). }
  pose proof (sparse_ext maxc (rsp r) new None) as X.
  destruct (sparse maxc (rsp r) new None) as [p' s|p' e s|n];
    [apply AFTER; exact X| |apply (FI_HP g r); [exact F|discriminate]].
  destruct e; try (apply AFTER; exact X); (split; [exact W|apply FI_pext; assumption]).
Qed.

Lemma record_boundary_fr g r w : WI g w -> FI r w -> rpost g (record_boundary maxc r w).
Proof.
  intros W F. unfold record_boundary. destruct (is_record_boundary (rsp r)); [split; assumption|apply boundary_loop_fr; assumption].
Qed.

(* Request::close after the record boundary: whatever comes back, the log consists of whole records *)
Lemma close_finish_fr g r3 d c w2 : WI g w2 -> FI r3 w2 ->
  match close_finish r3 d c w2 with
  | Ok _ w' => WI g w' /\ recs (wlog w')
  | Halt o w' => HP g o w'
  end.
Proof.
  intros W F. unfold close_finish.
  destruct (epilogue (r_id (sreq (rsp r3))) d c (if rwriteable r3 then ROLE_OUTPUT_STREAMS else [])) as [ep|] eqn:Eep;
    [|apply (FI_HP g r3); [exact F|discriminate]].
  apply epilogue_recs in Eep. cbv zeta. set (out := output_buffer (rsp r3)).
  assert (R : recs (wlog w2 ++ out)) by apply F.
  pose proof (awa_fr g (io_fuel w2 (len out)) false out w2 W R) as A1.
  destruct (await_write_all (io_fuel w2 (len out)) false out w2) as [[k3|] w3|o w3]; cbn [wfr] in A1; [contradiction| |exact A1].
  destruct A1 as [W3 L3].
  assert (R3 : recs (wlog w3 ++ ep)) by (rewrite L3; apply recs_app; assumption).
  pose proof (awa_fr g (io_fuel w3 (len ep)) false ep w3 W3 R3) as A2.
  destruct (await_write_all (io_fuel w3 (len ep)) false ep w3) as [[k4|] w4|o w4]; cbn [wfr] in A2; [contradiction| |exact A2].
  destruct A2 as [W4 L4]. rewrite <- L4 in R3.
  destruct (N.land (r_flags (sreq (close_p4 r3))) FLAG_KeepConn =? FLAG_KeepConn); [|split; assumption].
  destruct (into_request_parser (close_p4 r3)); [split; assumption|split; assumption|].
  split; [apply framed_of_recs; exact R3|discriminate].
Qed.

Lemma close_tail_fr g r1 d c w1 : WI g w1 -> FI r1 w1 ->
  match close_tail maxc r1 d c w1 with
  | Ok (inl _) w' => WI g w' /\ recs (wlog w')
  | Ok (inr _) w' => WI g w' /\ framed (wlog w') /\ (rlock r1 = false -> recs (wlog w'))
  | Halt o w' => HP g o w'
  end.
Proof.
  intros W F. rewrite close_tail_unfold.
  destruct (set_stream (rsp r1) None) as [p2| |] eqn:ES; [|apply (FI_HP g r1); [exact F|discriminate]..].
  apply set_stream_ext in ES. set (r2 := mkR p2 (rwriteable r1) (rlock r1) (raborted r1)).
  assert (F2 : FI r2 w1) by (apply FI_pext; assumption).
  pose proof (record_boundary_fr g r2 w1 W F2) as RB.
  destruct (record_boundary maxc r2 w1) as [[[k2|] r3] w2|o w2] eqn:ERB; cbn [rpost] in RB; [| |exact RB].
  - destruct RB as [W2 F3]. apply record_boundary_spec in ERB. destruct ERB as (_ & _ & _ & Hlk & _). cbn [r2 rlock] in Hlk.
    split; [exact W2|]. split; [eapply FI_framed; exact F3|]. intros Hl. apply F3. congruence.
  - destruct RB as [W2 F3]. pose proof (close_finish_fr g r3 d c w2 W2 F3) as CF.
    destruct (close_finish r3 d c w2) as [[rp|k] w'|o w']; [exact CF| |exact CF].
    destruct CF as [CW CR]. split; [exact CW|]. split; [apply framed_of_recs; exact CR|intros _; exact CR].
Qed.

Lemma do_close_fr g r d c w : WI g w -> FI r w ->
  (forall e r1 w1, do_writeable maxc r w = Ok (e, r1) w1 -> g = true -> rlock r1 = false) ->
  match do_close maxc r d c w with
  | Ok (inl _) w' => WI g w' /\ recs (wlog w')
  | Ok (inr _) w' => WI g w' /\ framed (wlog w') /\ (g = true -> recs (wlog w'))
  | Halt o w' => HP g o w'
  end.
Proof.
  intros W F LK. unfold do_close. pose proof (do_writeable_fr g r w W F) as DW.
  destruct (do_writeable maxc r w) as [[e r1] w1|o w1]; cbn [rpost] in DW; [|exact DW].
  destruct DW as [W1 F1]. specialize (LK e r1 w1 eq_refl).
  assert (CT : match close_tail maxc r1 d c w1 with
               | Ok (inl _) w' => WI g w' /\ recs (wlog w')
               | Ok (inr _) w' => WI g w' /\ framed (wlog w') /\ (g = true -> recs (wlog w'))
               | Halt o w' => HP g o w'
               end).
  { pose proof (close_tail_fr g r1 d c w1 W1 F1) as C.
    destruct (close_tail maxc r1 d c w1) as [[rp|k] w'|o w']; [exact C| |exact C].
    destruct C as (C1 & C2 & C3). split; [exact C1|]. split; [exact C2|]. intros Hg. apply C3, LK, Hg. }
  destruct e as [k|]; [|exact CT]. destruct ((k =? EK_Aborted) && raborted r1); [exact CT|].
  split; [exact W1|]. split; [eapply FI_framed; exact F1|]. intros Hg. apply F1, LK, Hg.
Qed.

(* ------------------------------------------------------------------------------------------ *)
(* Part C3: handlers.  From here on the invariants of Async/ConnTotal.v are threaded as well: the lock discipline *)
(* (an awaited read returns with Request.lock released, ConnTotal.await_input_lock) needs them                    *)
(* ------------------------------------------------------------------------------------------ *)
Variable norm : bytes -> bytes.

(* in mode [g = true] the output lock is free between the operations of the handler *)
Definition HI (g : bool) (r : rstate) (w : world) : Prop :=
  rgood r /\ world_ok w /\ WI g w /\ FI r w /\ (g = true -> rlock r = false).

Definition hpostF {X} (g : bool) (x : res (X * rstate)) : Prop :=
  match x with Ok (_, r') w' => HI g r' w' | Halt o w' => HP g o w' end.

Lemma HI_HP g r w o : HI g r w -> o <> ORet -> HP g o w.
Proof. intros (_ & _ & _ & F & _). apply (FI_HP g r). exact F. Qed.

Lemma await_input_HI g dest r w : HI g r w -> hpostF g (await_input maxc (io_fuel w 0) dest r w).
Proof.
  intros (G & Wok & W & F & LK).
  pose proof (await_input_io norm maxc dest r w G Wok) as AI.
  pose proof (await_input_fr g (io_fuel w 0) dest r w W F) as AF.
  pose proof (fun Hl : rlock r = false =>
                await_input_lock norm maxc (io_fuel w 0) dest r w (pgood_lgood _ (proj1 G)) Wok (or_introl Hl)) as AL.
  destruct (await_input maxc (io_fuel w 0) dest r w) as [[[[c b]|k] r1] w1|o w1]; cbn [rpost hpostF] in *.
  - destruct AI as (G1 & S1 & _). destruct AF as [W1 F1].
    split; [exact G1|]. split; [exact (ws_ok _ _ S1 Wok)|]. split; [exact W1|]. split; [exact F1|].
    intros Hg. specialize (AL (LK Hg)). unfold ai_lock in AL. apply AL.
  - destruct AI as [(G1 & S1 & _) _]. destruct AF as [W1 F1].
    split; [exact G1|]. split; [exact (ws_ok _ _ S1 Wok)|]. split; [exact W1|]. split; [exact F1|].
    intros Hg. specialize (AL (LK Hg)). unfold ai_lock in AL. destruct AL as (_ & _ & [L|L]); [exact L|].
    exfalso. apply L. apply W.
  - exact AF.
Qed.

Lemma read_all_HI g : forall fuel acc r w, HI g r w -> hpostF g (read_all maxc fuel acc r w).
Proof.
  induction fuel as [|f IH]; intros acc r w H; [apply (HI_HP g r); [exact H|discriminate]|].
  cbn [read_all]. pose proof (await_input_HI g (Some 64) r w H) as A.
  destruct (await_input maxc (io_fuel w 0) (Some 64) r w) as [[[[n b]|k] r'] w'|o w']; cbn [hpostF] in A |- *.
  - destruct (n =? 0); [exact A|apply IH; exact A].
  - exact A.
  - exact A.
Qed.

Lemma do_writeable_HI g r w : HI g r w -> hpostF g (do_writeable maxc r w).
Proof.
  intros (G & Wok & W & F & LK).
  pose proof (do_writeable_ok norm maxc r w G Wok) as DW. pose proof (do_writeable_fr g r w W F) as DF.
  destruct (do_writeable maxc r w) as [[e r1] w1|o w1]; cbn [rpost hpostF] in *; [|exact DF].
  destruct DW as ((G1 & S1 & _) & _ & _ & L). destruct DF as [W1 F1].
  split; [exact G1|]. split; [exact (ws_ok _ _ S1 Wok)|]. split; [exact W1|]. split; [exact F1|].
  intros Hg. specialize (L (LK Hg)). destruct e as [k|]; [|exact L]. destruct L as [L|L]; [exact L|].
  exfalso. apply L. apply W.
Qed.

Lemma HI_consume g r w c : HI g r w -> HI g (mkR (consume_stream (rsp r) c) (rwriteable r) (rlock r) (raborted r)) w.
Proof.
  intros (G & Wok & W & F & LK).
  destruct (consume_stream_views (rsp r) c (proj1 (proj1 G))) as (V1 & V2 & V3 & _).
  split; [apply (rgood_transfer r); [exact G|exact V1|exact V3|rewrite V2; apply G|reflexivity]|].
  split; [exact Wok|]. split; [exact W|]. split; [apply FI_pext; [exact F|apply consume_stream_pext]|exact LK].
Qed.

Lemma HI_set g r w s p' : HI g r w -> set_stream (rsp r) (Some s) = SetOk p' ->
  HI g (mkR p' (rwriteable r) (rlock r) (raborted r)) w.
Proof.
  intros (G & Wok & W & F & LK) E. pose proof (set_stream_ok_accepted _ _ _ E) as A.
  destruct (set_stream_views (rsp r) (Some s) p' (proj1 G) (accepts_input _ _ _ A) E) as (V1 & V2 & V3 & _).
  split.
  { split; [exact V1|]. pose proof (proj2 G) as Wr. unfold wr_inv, wr_inv_at in *. cbn [rsp rwriteable].
    rewrite V2, V3. destruct (accepts_some_inv _ _ _ A) as [I1 I2].
    destruct (rwriteable r); [apply I1; exact Wr|]. destruct Wr as (x & Ex & Hx). exists s. split; [reflexivity|].
    apply (I2 x Ex Hx). }
  split; [exact Wok|]. split; [exact W|]. split; [apply FI_pext; [exact F|apply set_stream_ext with (s := Some s); exact E]|exact LK].
Qed.

Lemma FI_write r w w' b : FI r w -> rlock r = false -> wlog w' = wlog w ++ b -> recs b -> FI r w'.
Proof.
  intros (O & A & B) Hl E Hb. specialize (B Hl). pose proof (recs_cancel _ B _ A) as Hob.
  unfold FI. rewrite E. split; [exact O|]. split; [apply recs_app; [apply recs_app; assumption|exact Hob]|].
  intros _. apply recs_app; assumption.
Qed.

(* the scripts of the statement: well-formed, writing only to known stream types; in mode [g = true] no abandoned read *)
Inductive fscript (g : bool) : list N -> Prop :=
| FS_nil : fscript g []
| FS_read n rest : fscript g rest -> fscript g (1 :: n :: rest)
| FS_all rest : fscript g rest -> fscript g (2 :: rest)
| FS_fill k rest : fscript g rest -> fscript g (3 :: k :: rest)
| FS_set s rest : fscript g rest -> fscript g (4 :: s :: rest)
| FS_wr rest : fscript g rest -> fscript g (5 :: rest)
| FS_write s n rest : known_type s = true -> fscript g (drop n rest) -> fscript g (6 :: s :: n :: rest)
| FS_flush s rest : fscript g rest -> fscript g (7 :: s :: rest)
| FS_exit d c rest : In d EXITSTATUS_VALUES -> fscript g (8 :: d :: c :: rest)
| FS_fail k rest : fscript g (9 :: k :: rest)
| FS_readq n rest : fscript g rest -> fscript g (10 :: n :: rest)
| FS_poll n rest : g = false -> fscript g rest -> fscript g (11 :: n :: rest).

Definition hres (g : bool) (x : res ((N * N + N) * rstate)) : Prop :=
  match x with
  | Ok (st, r') w' => HI g r' w' /\ match st with inl (d, _) => In d EXITSTATUS_VALUES | inr _ => True end
  | Halt o w' => HP g o w'
  end.

Lemma run_handler_HI g script : fscript g script -> forall f r w, HI g r w -> hres g (run_handler maxc f script r w).
Proof.
  induction 1 as [|n rest H IH|rest H IH|k rest H IH|s rest H IH|rest H IH|s n rest Hs H IH|s rest H IH|d c rest Hd|k rest
                  |n rest H IH|n rest Hg H IH];
    intros f r w HH; (destruct f as [|f]; [apply (HI_HP g r); [exact HH|discriminate]|]); cbn [run_handler].
  - (* end of script *) split; [exact HH|apply exit_complete_in].
  - (* 1 n *)
    pose proof (await_input_HI g (Some n) r w HH) as A.
    destruct (await_input maxc (io_fuel w 0) (Some n) r w) as [[[[c b]|k] r1] w1|o w1]; cbn [hpostF] in A;
      [apply IH; exact A|apply IH; exact A|exact A].
  - (* 2 *)
    match goal with |- context [read_all maxc ?fu [] r w] =>
      pose proof (read_all_HI g fu [] r w HH) as A; destruct (read_all maxc fu [] r w) as [[[k acc] r1] w1|o w1] end;
      cbn [hpostF] in A; [apply IH; exact A|exact A].
  - (* 3 k *)
    pose proof (await_input_HI g None r w HH) as A.
    destruct (await_input maxc (io_fuel w 0) None r w) as [[[[c b]|e] r1] w1|o w1]; cbn [hpostF] in A; [| |exact A].
    + apply IH. apply (HI_consume g r1 w1 _ A).
    + apply IH. exact A.
  - (* 4 s *)
    destruct (set_stream (rsp r) (Some s)) as [p'| |] eqn:E; [|apply (HI_HP g r); [exact HH|discriminate]..].
    apply IH. apply (HI_set g r w s p' HH E).
  - (* 5 *)
    pose proof (do_writeable_HI g r w HH) as A.
    destruct (do_writeable maxc r w) as [[e r1] w1|o w1]; cbn [hpostF] in A; [apply IH; exact A|exact A].
  - (* 6 s n data *)
    cbv zeta. destruct (negb (rwriteable r)); [apply IH; exact HH|].
    destruct HH as (G & Wok & W & F & LK).
    destruct (rlock r) eqn:Elk.
    + destruct (N.eqb_spec (len (take n rest)) 0) as [Hz|Hz]; cbn [negb andb].
      * apply len_zero_nil in Hz. rewrite Hz. rewrite writer_write_all_empty by lia.
        apply IH. split; [exact G|]. split; [exact Wok|]. split; [exact W|]. split; [exact F|]. intros Hg. specialize (LK Hg). discriminate LK.
      * apply (FI_HP g r); [exact F|discriminate].
    + cbn [andb].
      pose proof (wwa_fr g (N.to_nat (n / 65535) + 2) s (r_id (sreq (rsp r))) (take n rest) w W (proj2 (proj2 F) Elk) Hs) as WW.
      pose proof (ConnWrites.writer_write_all_ok (N.to_nat (n / 65535) + 2) s (r_id (sreq (rsp r))) (take n rest) w) as WS.
      destruct (writer_write_all (N.to_nat (n / 65535) + 2) s (r_id (sreq (rsp r))) (take n rest) w) as [[k|] w1|o w1];
        cbn [wfr] in WW; [contradiction| |exact WW].
      destruct WW as [W1 L1]. destruct (WS w1 eq_refl) as (_ & _ & Hsegs & _).
      apply IH. split; [exact G|]. split; [unfold world_ok; cbn [w_ev segs]; rewrite Hsegs; exact Wok|]. split; [exact W1|].
      split; [|intros _; exact Elk].
      apply (FI_write r w _ (stream_records s (r_id (sreq (rsp r))) (take n rest)) F Elk L1).
      apply stream_records_recs. exact Hs.
  - (* 7 s *)
    destruct (rwriteable r); [|apply IH; exact HH].
    destruct (rlock r) eqn:Elk; [apply (HI_HP g r); [exact HH|discriminate]|apply IH; exact HH].
  - (* 8 d c *) split; [exact HH|exact Hd].
  - (* 9 k *) split; [exact HH|exact I].
  - (* 10 n *)
    pose proof (await_input_HI g (Some n) r w HH) as A.
    destruct (await_input maxc (io_fuel w 0) (Some n) r w) as [[[[c b]|k] r1] w1|o w1]; cbn [hpostF] in A;
      [apply IH; exact A|split; [exact A|exact I]|exact A].
  - (* 11 n *)
    subst g. destruct HH as (G & Wok & W & F & LK).
    pose proof (poll_input_ok norm maxc (io_fuel w (len (buffer (rsp r)))) (Some n) r w G Wok ltac:(rewrite io_fuel_eq; lia)) as PI.
    pose proof (poll_input_fr false (io_fuel w (len (buffer (rsp r)))) (Some n) r w W F) as PF.
    assert (T : forall r1 w1 dd, ckeep r w 0 r1 w1 dd -> WI false w1 /\ FI r1 w1 -> HI false r1 w1).
    { intros r1 w1 dd (G1 & S1 & _) [W1 F1]. split; [exact G1|]. split; [exact (ws_ok _ _ S1 Wok)|].
      split; [exact W1|]. split; [exact F1|discriminate]. }
    destruct (poll_input maxc (io_fuel w (len (buffer (rsp r)))) (Some n) r w) as [[[[[c b]|k]| |] r1] w1];
      apply IH; change (HI false r1 w1); [eapply T; [exact PI|exact PF]|eapply T; [exact (proj1 PI)|exact PF]..].
Qed.

Lemma do_close_HI g r d c w : HI g r w -> In d EXITSTATUS_VALUES ->
  match do_close maxc r d c w with
  | Ok (inl rp) w' => parser_ok rp /\ world_ok w' /\ WI g w' /\ recs (wlog w')
  | Ok (inr _) w' => framed (wlog w') /\ (g = true -> recs (wlog w'))
  | Halt o w' => HP g o w'
  end.
Proof.
  intros (G & Wok & W & F & LK) Hd.
  pose proof (do_close_ok norm maxc r d c w G Wok Hd) as DC.
  assert (L : forall e r1 w1, do_writeable maxc r w = Ok (e, r1) w1 -> g = true -> rlock r1 = false).
  { intros e r1 w1 E Hg. pose proof (do_writeable_ok norm maxc r w G Wok) as DW. rewrite E in DW.
    destruct DW as (_ & _ & _ & L). specialize (L (LK Hg)). destruct e as [k|]; [|exact L].
    destruct L as [L|L]; [exact L|]. exfalso. apply L. apply W. }
  pose proof (do_close_fr g r d c w W F L) as DF.
  destruct (do_close maxc r d c w) as [[rp|k] w'|o w']; unfold close_post in DC.
  - destruct DC as (C1 & _ & C3 & _). destruct DF as [D1 D2].
    split; [exact C1|]. split; [exact (ws_ok _ _ C3 Wok)|]. split; assumption.
  - destruct DF as (_ & D2 & D3). split; assumption.
  - exact DF.
Qed.

(* ------------------------------------------------------------------------------------------ *)
(* Part C4: Token::parse_request and Token::run                                                 *)
(* ------------------------------------------------------------------------------------------ *)

Lemma into_stream_parser_out p s : into_stream_parser p = inl s -> output s = [] /\ output_start s = 0.
Proof.
  unfold into_stream_parser. destruct (st p); intros E; try discriminate E. injection E as <-. split; reflexivity.
Qed.

Lemma parse_request_fr g : forall fuel p new w, WI g w -> recs (wlog w) ->
  match parse_request norm maxc fuel p new w with
  | Ok x w' => WI g w' /\ recs (wlog w') /\ match x with inl s => output s = [] /\ output_start s = 0 | inr _ => True end
  | Halt o w' => HP g o w'
  end.
Proof.
  induction fuel as [|f IH]; intros p new w W R; [split; [apply framed_of_recs; exact R|discriminate]|].
  cbn [parse_request]. destruct (parse norm maxc p new) as [p' done out|n] eqn:EP;
    [|split; [apply framed_of_recs; exact R|discriminate]].
  apply parse_out_recs in EP.
  pose proof (awa_fr g (io_fuel w (len out)) true out w W (recs_app _ _ R EP)) as A1.
  destruct (await_write_all (io_fuel w (len out)) true out w) as [[k|] w1|o w1]; cbn [wfr] in A1; [contradiction| |exact A1].
  destruct A1 as [W1 L1]. assert (R1 : recs (wlog w1)) by (rewrite L1; apply recs_app; assumption).
  destruct done.
  - destruct (into_stream_parser p') as [s|e] eqn:EI.
    + split; [exact W1|]. split; [exact R1|]. apply (into_stream_parser_out p' s EI).
    + split; [exact W1|]. split; [exact R1|exact I].
  - pose proof (await_read_fr g (io_fuel w1 0) true (input_space p') w1 W1) as AR.
    destruct (await_read (io_fuel w1 0) true (input_space p') w1) as [[b|k] w2|o w2].
    + destruct AR as [W2 L2]. rewrite <- L2 in R1.
      destruct b as [|x b']; [split; [exact W2|]; split; [exact R1|exact I]|]. apply IH; assumption.
    + destruct AR as [W2 L2]. rewrite <- L2 in R1. split; [exact W2|]. split; [exact R1|exact I].
    + destruct AR as [L2 Ho]. split; [|exact Ho]. rewrite L2. apply framed_of_recs. exact R1.
Qed.

Lemma fold_ev_HI g r (env : list (bytes * bytes)) : forall w, HI g r w ->
  HI g r (fold_left (fun w p => w_ev (w_ev w (fst p)) (snd p)) env w).
Proof. induction env as [|e t IH]; intros w H; [exact H|]. cbn [fold_left]. apply IH. exact H. Qed.

Lemma run_loop_fr g scripts : Forall (fscript g) scripts ->
  forall fuel p served w, parser_ok p -> world_ok w -> WI g w -> recs (wlog w) ->
  match run_loop norm maxc fuel p scripts served w with
  | (o, w') => framed (wlog w') /\ (g = true -> o = ORet -> recs (wlog w'))
  end.
Proof.
  intros Hscripts. induction fuel as [|f IH]; intros p served w Hp Wok W R;
    [split; [apply framed_of_recs; exact R|intros _ X; discriminate X]|].
  cbn [run_loop].
  destruct (stopped w); [split; [apply framed_of_recs; exact R|intros _ _; exact R]|].
  pose proof (parse_request_ok norm maxc (io_fuel w 0) p [] w Hp Wok ltac:(apply Forall_nil) ltac:(rewrite len_nil; lia)
                ltac:(rewrite io_fuel_eq; lia)) as PR.
  pose proof (parse_request_fr g (io_fuel w 0) p [] w W R) as PF.
  unfold preq_post in PR.
  destruct (parse_request norm maxc (io_fuel w 0) p [] w) as [[s0|k] w1|o w1].
  2:{ destruct PF as (_ & R1 & _). split; [apply framed_of_recs; exact R1|intros _ _; exact R1]. }
  2:{ destruct PF as [P1 P2]. split; [exact P1|]. intros Hg X. exfalso. exact (P2 Hg X). }
  destruct PR as (G0 & S1 & _ & St0 & _). destruct PF as (W1 & R1 & Eo & Es).
  set (role := r_role (sreq s0)) in *.
  set (r0 := mkR s0 (len (role_input_streams role) <=? 1) false false).
  assert (GR0 : rgood r0).
  { split; [exact G0|]. unfold wr_inv. subst r0. cbn [rsp rwriteable]. fold role. rewrite St0. apply wr_inv_init. }
  assert (H0 : HI g r0 w1).
  { split; [exact GR0|]. split; [exact (ws_ok _ _ S1 Wok)|]. split; [exact W1|]. split; [|intros _; reflexivity].
    unfold FI, oinv, output_buffer. subst r0. cbn [rsp rlock]. rewrite Eo, Es. change (len (@nil N)) with 0.
    split; [lia|]. split; [|intros _; exact R1]. change (drop 0 (@nil N)) with (@nil N). rewrite app_nil_r. exact R1. }
  cbv zeta.
  match goal with |- context [fold_left ?fn ?env ?wi] =>
    pose proof (fold_ev_HI g r0 env wi H0) as H2; set (w2 := fold_left fn env wi) in * end.
  set (script := nth served scripts (last scripts [])).
  assert (Hscript : fscript g script).
  { subst script. apply Forall_nth_default; [exact Hscripts|]. apply Forall_last; [exact Hscripts|constructor]. }
  pose proof (run_handler_HI g script Hscript (length script + 2) r0 w2 H2) as RH.
  destruct (run_handler maxc (length script + 2) script r0 w2) as [[st r1] w3|o w3]; cbn [hres] in RH.
  2:{ destruct RH as [P1 P2]. split; [exact P1|]. intros Hg X. exfalso. exact (P2 Hg X). }
  destruct RH as [H3 Hst].
  assert (CLOSE : forall d c, In d EXITSTATUS_VALUES ->
    match (match do_close maxc r1 d c w3 with
           | Halt o w4 => (o, w4)
           | Ok (inl rp) w4 => run_loop norm maxc f rp scripts (S served) w4
           | Ok (inr _) w4 => (ORet, w4)
           end) with
    | (o, w') => framed (wlog w') /\ (g = true -> o = ORet -> recs (wlog w'))
    end).
  { intros d c Hd. pose proof (do_close_HI g r1 d c w3 H3 Hd) as DC.
    destruct (do_close maxc r1 d c w3) as [[rp|k] w4|o w4].
    - destruct DC as (C1 & C2 & C3 & C4). apply IH; assumption.
    - destruct DC as [C1 C2]. split; [exact C1|]. intros Hg _. exact (C2 Hg).
    - destruct DC as [P1 P2]. split; [exact P1|]. intros Hg X. exfalso. exact (P2 Hg X). }
  destruct st as [[d c]|k].
  - apply CLOSE. exact Hst.
  - destruct ((k =? EK_Aborted) && raborted r1); [apply CLOSE; apply exit_complete_in|].
    destruct H3 as (_ & _ & _ & F3 & LK3). split; [eapply FI_framed; exact F3|]. intros Hg _. apply F3, LK3, Hg.
Qed.

End FrameConn.

(* ------------------------------------------------------------------------------------------ *)
(* Part D: the theorem                                                                           *)
(* ------------------------------------------------------------------------------------------ *)

Lemma fscript_of g role : forall cur s, script_ok false role cur s -> writes_known s -> (g = true -> no_abandoned_read s) ->
  fscript g s.
Proof.
  induction 1 as [cur|cur n rest H IH|cur rest H IH|cur k rest H IH|cur s rest Hacc H IH|cur rest H IH
                  |cur s n rest H IH|cur s rest H IH|cur d c rest Hd|cur k rest|cur n rest H IH|cur n rest H IH];
    intros Hw Hna.
  - constructor.
  - constructor. apply IH; [inversion Hw; assumption|intros Hg; specialize (Hna Hg); inversion Hna; assumption].
  - constructor. apply IH; [inversion Hw; assumption|intros Hg; specialize (Hna Hg); inversion Hna; assumption].
  - constructor. apply IH; [inversion Hw; assumption|intros Hg; specialize (Hna Hg); inversion Hna; assumption].
  - constructor. apply IH; [inversion Hw; assumption|intros Hg; specialize (Hna Hg); inversion Hna; assumption].
  - constructor. apply IH; [inversion Hw; assumption|intros Hg; specialize (Hna Hg); inversion Hna; assumption].
  - constructor; [inversion Hw; assumption|]. apply IH; [inversion Hw; assumption|intros Hg; specialize (Hna Hg); inversion Hna; assumption].
  - constructor. apply IH; [inversion Hw; assumption|intros Hg; specialize (Hna Hg); inversion Hna; assumption].
  - constructor. exact Hd.
  - constructor.
  - constructor. apply IH; [inversion Hw; assumption|intros Hg; specialize (Hna Hg); inversion Hna; assumption].
  - destruct g.
    + specialize (Hna eq_refl). inversion Hna.
    + constructor; [reflexivity|]. apply IH; [inversion Hw; assumption|discriminate].
Qed.

Lemma fscripts_of g scripts : scripts_ok false scripts -> Forall writes_known scripts ->
  (g = true -> Forall no_abandoned_read scripts) -> Forall (fscript g) scripts.
Proof.
  intros Hs Hw Hna. unfold scripts_ok in Hs. rewrite Forall_forall in Hs, Hw. apply Forall_forall. intros s Hin.
  apply (fscript_of g 0 _ s (Hs s Hin 0) (Hw s Hin)). intros Hg. specialize (Hna Hg). rewrite Forall_forall in Hna.
  apply Hna, Hin.
Qed.

Theorem connection_framing : connection_framing_stmt.
Proof.
  intros norm maxc fuel B scripts w0 HB Wok Hlog Hnf Hs Hwk.
  assert (R0 : recs (wlog w0)) by (rewrite Hlog; apply recs_nil).
  assert (F1 : Forall (fscript false) scripts) by (apply fscripts_of; [exact Hs|exact Hwk|discriminate]).
  assert (W1 : WI false w0) by (split; [exact Hnf|discriminate]).
  pose proof (run_loop_fr maxc norm false scripts F1 fuel (new_parser B) 0%nat w0 (new_parser_ok B HB) Wok W1 R0) as H1.
  assert (H2 : Forall no_abandoned_read scripts -> stop_at w0 = 0 -> stopped w0 = false ->
     match run_loop norm maxc fuel (new_parser B) scripts 0 w0 with
     | (o, w') => framed (wlog w') /\ (true = true -> o = ORet -> recs (wlog w')) end).
  { intros Hna S1 S2.
    apply (run_loop_fr maxc norm true scripts);
      [apply fscripts_of; [exact Hs|exact Hwk|intros _; exact Hna]|apply new_parser_ok; exact HB|exact Wok| |exact R0].
    split; [exact Hnf|intros _; split; assumption]. }
  destruct (run_loop norm maxc fuel (new_parser B) scripts 0 w0) as [o w'].
  split; [apply H1|]. intros Ho S1 S2 Hna. apply whole_recs. apply (H2 Hna S1 S2); [reflexivity|exact Ho].
Qed.

(* ------------------------------------------------------------------------------------------ *)
(* Part E: the statement is about non-trivial runs                                              *)
(* ------------------------------------------------------------------------------------------ *)

(* (1) PeerProofs2.ex2: BeginRequest, Params, Stdin "abc", a GetValues query, then Stdin "de" and its end; the handler reads Stdin
   to the end and writes "hi" to Stdout.  Every hypothesis of the theorem holds (those of the second conjunct included) ... *)
Example exf_hyps :
  64 < SIZE_LIMIT - 8 /\ world_ok (ex2_w 1) /\ wlog (ex2_w 1) = [] /\ no_fault (wscript (ex2_w 1)) /\
  scripts_ok false ex2_scripts /\ Forall writes_known ex2_scripts /\
  stop_at (ex2_w 1) = 0 /\ stopped (ex2_w 1) = false /\ Forall no_abandoned_read ex2_scripts.
Proof.
  split; [vm_compute; reflexivity|]. split; [vm_compute; repeat constructor|]. split; [reflexivity|]. split; [constructor|].
  split.
  { constructor; [|constructor]. intros role. apply SO_read_all. apply (SO_write false role _ 6 2 [104; 105]). apply SO_nil. }
  split.
  { constructor; [|constructor]. apply WK_all. apply (WK_write 6 2 [104; 105]); [reflexivity|apply WK_nil]. }
  split; [reflexivity|]. split; [reflexivity|].
  constructor; [|constructor]. apply NA_read_all. apply (NA_write 6 2 [104; 105]). apply NA_nil.
Qed.

(* ... the connection task returns, and its log decodes completely into five records: the GetValuesResult reply (a management
   record, id 0), the Stdout record with "hi", the empty Stdout and Stderr records and the EndRequest of the epilogue *)
Example exf_returns_whole :
  let r := run_loop (fun b => b) 10 (nb (ex2_w 1) + 4) (new_parser 64) ex2_scripts 0 (ex2_w 1) in
  fst r = ORet /\ whole (wlog (snd r)) /\ len (wlog (snd r)) = 80 /\
  map (fun x => (fst (fst x), snd (fst x), len (snd x))) (fst (parse_records (length (wlog (snd r))) (wlog (snd r)))) =
    [(RT_GetValuesResult, 0, 18); (RT_Stdout, 1, 2); (RT_Stdout, 1, 0); (RT_Stderr, 1, 0); (RT_EndRequest, 1, 8)].
Proof. vm_compute. repeat split; reflexivity. Qed.

(* the same by the theorem, for every normalisation function, max_conns and fuel *)
Example exf_returns_whole_any norm maxc fuel :
  let '(o, w') := run_loop norm maxc fuel (new_parser 64) ex2_scripts 0 (ex2_w 1) in
  framed (wlog w') /\ (o = ORet -> whole (wlog w')).
Proof.
  destruct exf_hyps as (H1 & H2 & H3 & H4 & H5 & H6 & H7 & H8 & H9).
  pose proof (connection_framing norm maxc fuel 64 ex2_scripts (ex2_w 1) H1 H2 H3 H4 H5 H6) as T.
  destruct (run_loop norm maxc fuel (new_parser 64) ex2_scripts 0 (ex2_w 1)) as [o w'].
  destruct T as [T1 T2]. split; [exact T1|]. intros Ho. exact (T2 Ho H7 H8 H9).
Qed.

(* (2) PeerProofs2.ex2p, known finding F6: the handler polls a read once and abandons it while Request::poll_output has written
   3 bytes of the GetValuesResult reply, then writes through a StreamWriter.  The hypotheses of the first conjunct hold ... *)
Example exf6_hyps :
  64 < SIZE_LIMIT - 8 /\ world_ok ex2p_w /\ wlog ex2p_w = [] /\ no_fault (wscript ex2p_w) /\
  scripts_ok false (ex2p_scripts 11) /\ Forall writes_known (ex2p_scripts 11) /\
  stop_at ex2p_w = 0 /\ stopped ex2p_w = false /\ ~ Forall no_abandoned_read (ex2p_scripts 11).
Proof.
  split; [vm_compute; reflexivity|]. split; [vm_compute; repeat constructor|]. split; [reflexivity|].
  split; [repeat constructor; discriminate|].
  split.
  { constructor; [|constructor]. intros role. apply SO_read. apply SO_poll. apply (SO_write false role _ 6 2 [104; 105; 2]).
    apply SO_read_all. apply SO_nil. }
  split.
  { constructor; [|constructor]. apply WK_read. apply WK_poll. apply (WK_write 6 2 [104; 105; 2]); [reflexivity|].
    apply WK_all. apply WK_nil. }
  split; [reflexivity|]. split; [reflexivity|].
  intros H. inversion H as [|x l Hx Hl]; subst. inversion Hx as [|n rest Hr| | | | | | | | |]; subst. inversion Hr.
Qed.

(* ... the task ends waiting for its own output lock (ODeadlock) with the first 3 bytes of the reply in the log: framed - it is
   the beginning of a record, nothing of the handler's "hi" was written into the unfinished reply - but not whole *)
Example exf6_framed_not_whole :
  let r := run_loop (fun b => b) 10 (nb ex2p_w + 4) (new_parser 64) (ex2p_scripts 11) 0 ex2p_w in
  fst r = ODeadlock /\ wlog (snd r) = [1; 10; 0] /\ wlog (snd r) = take 3 (write_response 1 10) /\
  framed (wlog (snd r)) /\ ~ whole (wlog (snd r)).
Proof.
  cbv zeta. split; [vm_compute; reflexivity|]. split; [vm_compute; reflexivity|]. split; [vm_compute; reflexivity|]. split.
  - exists (drop 3 (write_response 1 10)). vm_compute. reflexivity.
  - vm_compute. discriminate.
Qed.

(* framed also by the theorem, for every normalisation function, max_conns and fuel *)
Example exf6_framed_any norm maxc fuel :
  framed (wlog (snd (run_loop norm maxc fuel (new_parser 64) (ex2p_scripts 11) 0 ex2p_w))).
Proof.
  destruct exf6_hyps as (H1 & H2 & H3 & H4 & H5 & H6 & _).
  pose proof (connection_framing norm maxc fuel 64 (ex2p_scripts 11) ex2p_w H1 H2 H3 H4 H5 H6) as T.
  destruct (run_loop norm maxc fuel (new_parser 64) (ex2p_scripts 11) 0 ex2p_w) as [o w']. apply T.
Qed.

Print Assumptions connection_framing.
Print Assumptions exf_returns_whole.
Print Assumptions exf_returns_whole_any.
Print Assumptions exf6_framed_not_whole.
Print Assumptions exf6_framed_any.
