(* Async/PeerTargets.v — statements for the "Hence" part of C08: what the log CONTAINS, counted the way the
   scripted peer counts (complete EndRequest records; complete GetValuesResult / UnknownType records), when the
   task suspends waiting for the client.  A peer whose gates ask only for replies owed for bytes it has already
   sent is therefore never waited for in vain.  Statements only; proofs go to Async/PeerProofs.v. *)
From FV Require Import Base.Bytes Gen.Generated Codec.Header Parser.ReqModel Parser.ReqWire Parser.ReqTargets
  Parser.StreamModel Parser.AbsStream Parser.StreamSpec Parser.StreamRefine Parser.StreamInv
  Async.Conn Async.ConnWrites Async.ConnTotal Async.ConnReads.

(* what the gated client of the world model counts in the bytes it has received: (EndRequest, management replies) *)
Definition counts (log : bytes) : N * N := count_records (length log) log 0 0.
Definition cadd (a b : N * N) : N * N := (fst a + fst b, snd a + snd b).

(* a byte string that is a sequence of complete records *)
Definition whole (l : bytes) : Prop := exists rs, Forall rcd_ok rs /\ l = enc_rcds rs.

(* the gate of the segment the client would deliver next, if any bytes are left *)
Definition next_gate (w : world) : option (N * N) :=
  match skip_empty_segs (segs w) with (ge, gm, _) :: _ => Some (ge, gm) | [] => None end.

(* (0) counting is additive over complete records; every reply a parser produces is a complete record *)
Definition counts_app_stmt : Prop := forall a b, whole a -> whole b -> counts (a ++ b) = cadd (counts a) (counts b).
Definition replies_whole_stmt : Prop := forall maxc a u, a_inv a -> whole (a_out a) -> whole (R maxc a u).
Definition parse_out_whole_stmt : Prop := forall (norm : bytes -> bytes) maxc p new p' d out,
  parser_ok p -> bytes_ok new -> len new <= input_space p -> parse norm maxc p new = POk p' d out -> whole out.

(* (1) a handler read (poll_fn(poll_input).await) on a fault-free transport: if it ends up waiting for the client,
   the log has grown by EXACTLY the replies the specification owes for the bytes received during the read
   (pending output included), all of them complete records, and still the client's gate is not met *)
Definition read_block_counts_stmt : Prop := forall maxc fuel dest r w w',
  pinv (rsp r) -> bytes_ok (remaining w) -> no_fault (wscript w) -> whole (wlog w) -> whole (output_buffer (rsp r)) ->
  await_input maxc fuel dest r w = Halt ODeadlock w' ->
  exists delivered,
    remaining w = delivered ++ remaining w' /\
    wlog w' = wlog w ++ R maxc (abs (rsp r)) delivered /\
    whole (R maxc (abs (rsp r)) delivered) /\
    counts (wlog w') = cadd (counts (wlog w)) (counts (R maxc (abs (rsp r)) delivered)) /\
    exists ge gm, next_gate w' = Some (ge, gm) /\ (fst (counts (wlog w')) < ge \/ snd (counts (wlog w')) < gm).

(* the peer of the property: every gate asks for no more than what was already in the log plus the replies owed
   (by the specification function R) for the bytes of the segments before it *)
Definition gates_owed_only (maxc : N) (a : ast) (base : N * N) (sg : list (N * N * bytes)) : Prop :=
  forall pre ge gm b post, sg = pre ++ (ge, gm, b) :: post -> b <> [] ->
    let owed := cadd base (counts (R maxc a (flat_map (fun s : N * N * bytes => snd s) pre))) in
    ge <= fst owed /\ gm <= snd owed.

(* ... for such a peer a handler read never waits in vain: it cannot end in the wait-for cycle *)
Definition peer_read_no_deadlock_stmt : Prop := forall maxc fuel dest r w w',
  pinv (rsp r) -> bytes_ok (remaining w) -> no_fault (wscript w) -> whole (wlog w) -> whole (output_buffer (rsp r)) ->
  gates_owed_only maxc (abs (rsp r)) (counts (wlog w)) (segs w) ->
  await_input maxc fuel dest r w <> Halt ODeadlock w'.

(* (2) between requests (Token::parse_request): if it ends up waiting for the client, the log has grown by exactly
   the outputs of the parse calls made (complete records), counted additively *)
Definition parse_request_block_counts_stmt : Prop := forall (norm : bytes -> bytes) maxc fuel p new w w',
  parser_ok p -> bytes_ok new -> len new <= input_space p -> world_ok w -> no_fault (wscript w) -> whole (wlog w) ->
  parse_request norm maxc fuel p new w = Halt ODeadlock w' ->
  exists outs, pr_chain norm maxc p new outs /\ wlog w' = wlog w ++ concat outs /\ whole (concat outs) /\
    counts (wlog w') = cadd (counts (wlog w)) (counts (concat outs)) /\
    exists ge gm, next_gate w' = Some (ge, gm) /\ (fst (counts (wlog w')) < ge \/ snd (counts (wlog w')) < gm).
