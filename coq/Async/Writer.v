(* Async/Writer.v — several StreamWriters and the request's own reply flushing sharing one
   connection (C10): StreamWriter::poll_write (src/async_io/mod.rs:63-116) with its per-record
   state, RepeatableLockFuture over the shared futures-util Mutex (modelled as an owner field: the
   lock is taken by whoever polls first while it is free, there is no hand-off), Request::poll_output
   / poll_input contending for the same lock.  Each step polls ONE participant once, in a scripted
   order.  No proofs here. *)
From FV Require Import Base.Bytes Gen.Generated Codec.Header Parser.ReqModel Parser.StreamModel Async.Conn.

Inductive holder := HNone | HWriter (i : N) | HRequest.

Record wr := mkWr {
  wr_type : N;
  wr_data : bytes;          (* data of write_all not yet put into a record *)
  wr_cur : list bytes;      (* slices of the record in progress still to be written; [] = none *)
  wr_started : bool;        (* a record is in progress (its lock future exists) *)
  wr_done : bool
}.

Record wsys := mkWS { ws_writers : list wr; ws_holder : holder; ws_req : rstate; ws_world : world }.

Definition upd_writer (i : N) (w : wr) (l : list wr) : list wr :=
  map (fun p => if fst p =? i then w else snd p) (combine (map N.of_nat (seq 0 (length l))) l).

Definition holder_is (h : holder) (i : N) : bool := match h with HWriter j => j =? i | _ => false end.
Definition holder_free (h : holder) : bool := match h with HNone => true | _ => false end.

Fixpoint cut_slices (n : N) (l : list bytes) : list bytes :=
  match l with
  | [] => []
  | s :: t => if len s <=? n then cut_slices (n - len s) t else drop n s :: t
  end.

(* one poll of writer i's write_all future: 0 = Pending, 1 = Ready(Ok), 2 = already done, 3 = Ready(Err) *)
Fixpoint poll_writer (fuel : nat) (id : N) (i : N) (w : wr) (h : holder) (wd : world) : N * wr * holder * world :=
  match fuel with
  | O => (0, w, h, wd)
  | S f =>
    if wr_done w then (2, w, h, wd)
    else if negb (wr_started w) then
      match wr_data w with
      | [] => (1, mkWr (wr_type w) [] [] false true, h, wd)
      | data =>
        let n := N.min (len data) 65535 in
        let pad := auto_padding n in
        poll_writer f id i (mkWr (wr_type w) (drop n data) [hdr_encode (wr_type w) id n pad; take n data; zeros pad] true false) h wd
      end
    else if negb (holder_is h i) && negb (holder_free h) then (0, w, h, wd)         (* waits for the mutex *)
    else
      let h' := HWriter i in
      match filter (fun s => negb (len s =? 0)) (wr_cur w) with
      | [] => poll_writer f id i (mkWr (wr_type w) (wr_data w) [] false false) HNone wd    (* record complete: unlock *)
      | s1 :: more =>
        let offer := if vectored wd then s1 ++ concat more else s1 in
        match t_poll_write offer wd with
        | (PReady (inl n), wd') =>
          if n =? 0 then (3, mkWr (wr_type w) (wr_data w) (s1 :: more) true true, h', wd')
          else poll_writer f id i (mkWr (wr_type w) (wr_data w) (cut_slices n (s1 :: more)) true false) h' wd'
        | (PReady (inr _), wd') => (3, mkWr (wr_type w) (wr_data w) (s1 :: more) true true, h', wd')
        | (_, wd') => (0, mkWr (wr_type w) (wr_data w) (s1 :: more) true false, h', wd')
        end
      end
  end.

Section W.
Variable maxc : N.

(* Request::poll_output with lock contention *)
Fixpoint poll_output_l (fuel : nat) (r : rstate) (h : holder) (w : world) : pres (unit + N) * rstate * holder * world :=
  match fuel with
  | O => (PReady (inr 99), r, h, w)
  | S f =>
    match output_buffer (rsp r) with
    | [] => (PReady (inl tt), mkR (rsp r) (rwriteable r) false (raborted r), (match h with HRequest => HNone | x => x end), w)
    | out =>
      match h with
      | HWriter _ => (PWake, r, h, w)                     (* mutex held by a writer: Pending *)
      | _ =>
        match t_poll_write out w with
        | (PReady (inl n), w') =>
          if n =? 0 then (PReady (inr EK_WriteZero), mkR (rsp r) (rwriteable r) true (raborted r), HRequest, w')
          else poll_output_l f (mkR (consume_output (rsp r) n) (rwriteable r) true (raborted r)) HRequest w'
        | (PReady (inr k), w') => (PReady (inr k), mkR (rsp r) (rwriteable r) true (raborted r), HRequest, w')
        | (PWake, w') => (PWake, mkR (rsp r) (rwriteable r) true (raborted r), HRequest, w')
        | (PBlock, w') => (PBlock, r, HRequest, w')
        end
      end
    end
  end.

Fixpoint input_loop_l (fuel : nat) (dest : option N) (new : bytes) (r : rstate) (h : holder) (w : world)
  : pres (N * bytes + N) * rstate * holder * world :=
  match fuel with
  | O => (PReady (inr 99), r, h, w)
  | S f =>
    match sparse maxc (rsp r) new dest with
    | StPanic n => (PReady (inr (1000 + n)), r, h, w)
    | StErr p' e _ => (PReady (inr (perr_kind e)), mkR p' (rwriteable r) (rlock r) (raborted r || is_abort e), h, w)
    | StOk p' s =>
      let r1 := mkR p' (rwriteable r) (rlock r) (raborted r) in
      if s_end s || (0 <? s_stream s) then
        let r2 := if negb (rwriteable r1) && is_final_stream r1 then mkR p' true (rlock r) (raborted r) else r1 in
        (PReady (inl (s_stream s, s_dest s)), r2, h, w)
      else
        let r2 := mkR (compress p') (rwriteable r) (rlock r) (raborted r) in
        match poll_output_l fuel r2 h w with
        | (PReady (inl _), r3, h3, w0) =>
          match t_poll_read (sinput_space (rsp r3)) w0 with
          | (PReady (inl b), w') =>
            match b with
            | [] => (PReady (inr EK_UnexpectedEof), r3, h3, w')
            | _ => input_loop_l f dest b r3 h3 w'
            end
          | (PReady (inr k), w') => (PReady (inr k), r3, h3, w')
          | (PWake, w') => (PWake, r3, h3, w')
          | (PBlock, w') => (PBlock, r3, h3, w')
          end
        | (PReady (inr k), r3, h3, w0) => (PReady (inr k), r3, h3, w0)
        | (PWake, r3, h3, w0) => (PWake, r3, h3, w0)
        | (PBlock, r3, h3, w0) => (PBlock, r3, h3, w0)
        end
    end
  end.

Definition poll_input_l (fuel : nat) (dest : option N) (r : rstate) (h : holder) (w : world)
  : pres (N * bytes + N) * rstate * holder * world :=
  let sb := stream_buffer (rsp r) in
  match dest, sb with
  | Some 0, _ => (PReady (inl (0, [])), r, h, w)
  | None, _ :: _ => (PReady (inl (0, [])), r, h, w)
  | Some c, _ :: _ =>
    let n := N.min c (len sb) in
    (PReady (inl (n, take n sb)), mkR (consume_stream (rsp r) n) (rwriteable r) (rlock r) (raborted r), h, w)
  | _, [] =>
    match poll_output_l fuel r h w with
    | (PReady (inl _), r', h', w') => input_loop_l fuel dest [] r' h' w'
    | (PReady (inr k), r', h', w') => (PReady (inr k), r', h', w')
    | (PWake, r', h', w') => (PWake, r', h', w')
    | (PBlock, r', h', w') => (PBlock, r', h', w')
    end
  end.

(* the scripted handler: one participant per step; after the order is exhausted, round-robin;
   ends when every writer is done (round-robin over the writers and the request's read side) *)
Fixpoint wsteps (fuel : nat) (order : list N) (rr : N) (idle : N) (s : wsys) (errd : bool) (acc : list (list N))
  : wsys * bool * list (list N) :=
  match fuel with
  | O => (s, errd, acc)
  | S f =>
    let n := len (ws_writers s) in
    if forallb wr_done (ws_writers s) then (s, errd, acc)
    else
      let '(idx, order', rr') := match order with
                                 | i :: t => (i, t, rr)
                                 | [] => ((if rr mod (n + 1) =? n then 99 else rr mod (n + 1)), [], rr + 1)
                                 end in
      let '(code, s') :=
        if idx =? 99 then
          match poll_input_l (io_fuel (ws_world s) (len (buffer (rsp (ws_req s))))) (Some 4) (ws_req s) (ws_holder s) (ws_world s) with
          | (PReady (inl _), r', h', w') => (1, mkWS (ws_writers s) h' r' w')
          | (PReady (inr _), r', h', w') => (3, mkWS (ws_writers s) h' r' w')
          | (_, r', h', w') => (0, mkWS (ws_writers s) h' r' w')
          end
        else if idx <? n then
          let w := nth (N.to_nat idx) (ws_writers s) (mkWr 0 [] [] false true) in
          let '(c, w', h', wd') := poll_writer (Nat.add (length (wscript (ws_world s))) (Nat.add (Nat.mul 3 (Nat.add (N.to_nat (len (wr_data w) / 65535)) 4)) 16))
                                                (r_id (sreq (rsp (ws_req s)))) idx w (ws_holder s) (ws_world s) in
          (c, mkWS (upd_writer idx w' (ws_writers s)) h' (ws_req s) wd')
        else (2, s) in
      let idle' := match order' with [] => if (code =? 0) || (code =? 2) then idle + 1 else 0 | _ => idle end in
      let s'' := mkWS (ws_writers s') (ws_holder s') (ws_req s') (w_bump (ws_world s')) in
      wsteps f order' rr' idle' s'' (errd || (code =? 3) && negb (idx =? 99)) ([idx; code] :: acc)
  end.
End W.
