(* Async/ConnWrites.v — write-path facts of the connection model (Async/Conn.v):
   t_poll_write, await_write_all, write_slices / writer_write_all (StreamWriter::poll_write under
   write_all), Request::poll_output, the tail of Request::close.  Feeds C07 / C10 / C12.
   Everything here holds for EVERY write script unless a hypothesis says otherwise. *)
From Coq Require Import ZArith.
From FV Require Import Base.Bytes Base.BytesLemmas Gen.Generated Codec.Varint Codec.NV Codec.Header Codec.Bodies Codec.Vars
  Codec.ProtoProofs Parser.ReqModel Parser.ReqWire Parser.StreamModel Parser.AbsStream Parser.ReqDrive Parser.StreamRefine Async.Conn.
From Coq Require Import ZifyBool ZifyNat ZifyN.
Ltac Zify.zify_post_hook ::= Z.div_mod_to_equations.

(* ------------------------------------------------------------------------------------------ *)
(* Part 0: vocabulary                                                                          *)
(* ------------------------------------------------------------------------------------------ *)

(* the write script never answers Ok(0) and never fails *)
Definition no_fault (ws : list N) : Prop := Forall (fun k => k <> W_ZERO /\ k <> W_ERR /\ k <> W_ERR_AB) ws.

(* all world fields other than wscript, wlog, epoch, stopped are unchanged *)
Definition same_but_io (w w' : world) : Prop :=
  rscript w' = rscript w /\ segs w' = segs w /\ consumed w' = consumed w /\
  stop_at w' = stop_at w /\ vectored w' = vectored w /\ events w' = events w.

Definition wlog_ext (w w' : world) (b : bytes) : Prop := wlog w' = wlog w ++ b.

(* what any amount of write-side activity does to the world: exactly [b] is appended to the
   transport log, a prefix of the write script is consumed, polls are counted, shutdown is sticky,
   nothing else moves *)
Definition io_rel (w w' : world) (b : bytes) : Prop :=
  same_but_io w w' /\ wlog_ext w w' b /\ suffix (wscript w') (wscript w) /\
  epoch w <= epoch w' /\ (stopped w = true -> stopped w' = true).

(* why a write failed: the kind, and the script element responsible *)
Definition fault_of (k : N) (ws : list N) : Prop :=
  (k = EK_WriteZero /\ In W_ZERO ws) \/ (k = EK_Transport /\ In W_ERR ws) \/ (k = EK_Aborted /\ In W_ERR_AB ws).

(* the common postcondition of every "write all of b" loop of the model *)
Definition wpost (sel : bool) (b : bytes) (w : world) (r : res (option N)) : Prop :=
  match r with
  | Ok None w' => io_rel w w' b
  | Ok (Some k) w' => exists b1 b2, b = b1 ++ b2 /\ b2 <> [] /\ io_rel w w' b1 /\ fault_of k (wscript w)
  | Halt ORet w' => sel = true /\ stopped w' = true /\ exists b1 b2, b = b1 ++ b2 /\ b2 <> [] /\ io_rel w w' b1
  | Halt OFuel w' => exists b1 b2, b = b1 ++ b2 /\ io_rel w w' b1
  | Halt _ _ => False
  end.

Lemma same_but_io_refl w : same_but_io w w.
Proof. repeat split. Qed.

Lemma same_but_io_trans w w1 w2 : same_but_io w w1 -> same_but_io w1 w2 -> same_but_io w w2.
Proof.
  intros (A1 & A2 & A3 & A4 & A5 & A6) (B1 & B2 & B3 & B4 & B5 & B6).
  repeat split; congruence.
Qed.

Lemma io_rel_refl w : io_rel w w [].
Proof.
  split; [apply same_but_io_refl|]. split; [unfold wlog_ext; rewrite app_nil_r; reflexivity|].
  split; [apply suffix_refl|]. split; [lia|tauto].
Qed.

Lemma io_rel_trans w w1 w2 a b : io_rel w w1 a -> io_rel w1 w2 b -> io_rel w w2 (a ++ b).
Proof.
  intros (A1 & A2 & A3 & A4 & A5) (B1 & B2 & B3 & B4 & B5).
  split; [eapply same_but_io_trans; eassumption|].
  split; [unfold wlog_ext in *; rewrite B2, A2, app_assoc; reflexivity|].
  split; [eapply suffix_trans; eassumption|]. split; [lia|tauto].
Qed.

Lemma io_rel_trans0 w w1 w2 a : io_rel w w1 [] -> io_rel w1 w2 a -> io_rel w w2 a.
Proof. intros H1 H2. exact (io_rel_trans w w1 w2 [] a H1 H2). Qed.

Lemma io_rel_trans0r w w1 w2 a : io_rel w w1 a -> io_rel w1 w2 [] -> io_rel w w2 a.
Proof. intros H1 H2. pose proof (io_rel_trans w w1 w2 a [] H1 H2) as H. rewrite app_nil_r in H. exact H. Qed.

Lemma io_rel_set w k ws' b : wscript w = k :: ws' -> io_rel w (w_set_w w ws' (wlog w ++ b)) b.
Proof.
  intros Hs. split; [repeat split|]. split; [reflexivity|].
  split; [exists [k]; cbn [w_set_w wscript]; rewrite Hs; reflexivity|].
  split; [cbn [w_set_w epoch]; lia|cbn [w_set_w stopped]; tauto].
Qed.

Lemma io_rel_set0 w k ws' : wscript w = k :: ws' -> io_rel w (w_set_w w ws' (wlog w)) [].
Proof.
  intros Hs. pose proof (io_rel_set w k ws' [] Hs) as H. rewrite app_nil_r in H. exact H.
Qed.

Lemma io_rel_set_nil w b : wscript w = [] -> io_rel w (w_set_w w [] (wlog w ++ b)) b.
Proof.
  intros Hs. split; [repeat split|]. split; [reflexivity|].
  split; [exists []; cbn [w_set_w wscript]; rewrite Hs; reflexivity|].
  split; [cbn [w_set_w epoch]; lia|cbn [w_set_w stopped]; tauto].
Qed.

Lemma io_rel_bump w : io_rel w (w_bump w) [].
Proof.
  split; [repeat split|]. split; [unfold wlog_ext; cbn [w_bump wlog]; rewrite app_nil_r; reflexivity|].
  split; [apply suffix_refl|]. split; [cbn [w_bump epoch]; lia|].
  cbn [w_bump stopped]. intros H. rewrite H. reflexivity.
Qed.

Lemma io_rel_wlog w w' b : io_rel w w' b -> wlog w' = wlog w ++ b.
Proof. intros H. apply H. Qed.

Lemma io_rel_same w w' b : io_rel w w' b -> same_but_io w w'.
Proof. intros H. apply H. Qed.

Lemma io_rel_vectored w w' b : io_rel w w' b -> vectored w' = vectored w.
Proof. intros H. apply H. Qed.

Lemma io_rel_suffix w w' b : io_rel w w' b -> suffix (wscript w') (wscript w).
Proof. intros H. apply H. Qed.

Lemma suffix_In (x : N) r d : suffix r d -> In x r -> In x d.
Proof. intros [c Hc] H. rewrite Hc. apply in_or_app. right. exact H. Qed.

Lemma suffix_length r d : suffix r d -> (length r <= length d)%nat.
Proof. intros [c Hc]. rewrite Hc, app_length. lia. Qed.

Lemma no_fault_suffix r d : suffix r d -> no_fault d -> no_fault r.
Proof. intros [c Hc] H. rewrite Hc in H. unfold no_fault in *. apply Forall_app in H. tauto. Qed.

Lemma io_rel_no_fault w w' b : io_rel w w' b -> no_fault (wscript w) -> no_fault (wscript w').
Proof. intros H. apply no_fault_suffix. apply H. Qed.

Lemma fault_of_suffix k r d : suffix r d -> fault_of k r -> fault_of k d.
Proof.
  intros Hs [[H1 H2]|[[H1 H2]|[H1 H2]]]; [left|right; left|right; right]; (split; [exact H1|eapply suffix_In; eassumption]).
Qed.

Lemma no_fault_not_fault k ws : no_fault ws -> fault_of k ws -> False.
Proof.
  unfold no_fault. rewrite Forall_forall. intros H [[_ H2]|[[_ H2]|[_ H2]]]; apply H in H2; tauto.
Qed.

Lemma fault_of_kind k ws : fault_of k ws -> k = EK_WriteZero \/ k = EK_Transport \/ k = EK_Aborted.
Proof. intros [[H _]|[[H _]|[H _]]]; tauto. Qed.

(* the ConnectionAborted kind comes only from the W_ERR_AB script element *)
Lemma fault_of_aborted ws : fault_of EK_Aborted ws -> In W_ERR_AB ws.
Proof. intros [[H _]|[[H _]|[_ H]]]; [discriminate H|discriminate H|exact H]. Qed.

(* shifting the postcondition over bytes already written *)
Lemma wpost_pre sel a b w w1 r : io_rel w w1 a -> wpost sel b w1 r -> wpost sel (a ++ b) w r.
Proof.
  intros Ha. destruct r as [[k|] w'|o w']; cbn [wpost].
  - intros (b1 & b2 & Hb & Hne & Hio & Hf). exists (a ++ b1), b2.
    split; [rewrite Hb, app_assoc; reflexivity|]. split; [exact Hne|].
    split; [eapply io_rel_trans; eassumption|]. eapply fault_of_suffix; [|exact Hf]. apply Ha.
  - intros Hio. eapply io_rel_trans; eassumption.
  - destruct o; try tauto.
    + intros (Hs & Hst & b1 & b2 & Hb & Hne & Hio). split; [exact Hs|]. split; [exact Hst|].
      exists (a ++ b1), b2. split; [rewrite Hb, app_assoc; reflexivity|]. split; [exact Hne|].
      eapply io_rel_trans; eassumption.
    + intros (b1 & b2 & Hb & Hio). exists (a ++ b1), b2. split; [rewrite Hb, app_assoc; reflexivity|].
      eapply io_rel_trans; eassumption.
Qed.

Lemma wpost_pre0 sel b w w1 r : io_rel w w1 [] -> wpost sel b w1 r -> wpost sel b w r.
Proof. intros H1 H2. exact (wpost_pre sel [] b w w1 r H1 H2). Qed.

(* a result other than success stays valid when more bytes were to follow *)
Lemma wpost_ext sel b c w r : (forall w', r <> Ok None w') -> wpost sel b w r -> wpost sel (b ++ c) w r.
Proof.
  intros Hn. destruct r as [[k|] w'|o w']; cbn [wpost].
  - intros (b1 & b2 & Hb & Hne & Hio & Hf). exists b1, (b2 ++ c).
    split; [rewrite Hb, app_assoc; reflexivity|]. split; [|tauto].
    intros H. apply app_eq_nil in H. tauto.
  - exfalso. eapply Hn. reflexivity.
  - destruct o; try tauto.
    + intros (Hs & Hst & b1 & b2 & Hb & Hne & Hio). split; [exact Hs|]. split; [exact Hst|].
      exists b1, (b2 ++ c). split; [rewrite Hb, app_assoc; reflexivity|]. split; [|exact Hio].
      intros H. apply app_eq_nil in H. tauto.
    + intros (b1 & b2 & Hb & Hio). exists b1, (b2 ++ c). split; [rewrite Hb, app_assoc; reflexivity|exact Hio].
Qed.

(* in every outcome only a prefix of b reached the transport: nothing is written after a failure *)
Lemma wpost_prefix sel b w r : wpost sel b w r ->
  match r with
  | Ok _ w' | Halt _ w' => exists b1 b2, b = b1 ++ b2 /\ io_rel w w' b1
  end.
Proof.
  destruct r as [[k|] w'|o w']; cbn [wpost].
  - intros (b1 & b2 & Hb & _ & Hio & _). exists b1, b2. tauto.
  - intros H. exists b, []. rewrite app_nil_r. tauto.
  - destruct o; try tauto.
    intros (_ & _ & b1 & b2 & Hb & _ & Hio). exists b1, b2. tauto.
Qed.

Lemma wpost_no_fault sel b w k w' : no_fault (wscript w) -> wpost sel b w (Ok (Some k) w') -> False.
Proof. intros Hn (b1 & b2 & _ & _ & _ & Hf). eapply no_fault_not_fault; eassumption. Qed.

(* ------------------------------------------------------------------------------------------ *)
(* Part 1: the transport's poll_write                                                          *)
(* ------------------------------------------------------------------------------------------ *)

Inductive tpw_case (offer : bytes) (w : world) : pres (N + N) * world -> Prop :=
| tpw_wake w' : wscript w = 0 :: wscript w' -> io_rel w w' [] -> tpw_case offer w (PWake, w')
| tpw_zero w' : wscript w = W_ZERO :: wscript w' -> io_rel w w' [] -> tpw_case offer w (PReady (inl 0), w')
| tpw_err w' : wscript w = W_ERR :: wscript w' -> io_rel w w' [] -> tpw_case offer w (PReady (inr EK_Transport), w')
| tpw_errab w' : wscript w = W_ERR_AB :: wscript w' -> io_rel w w' [] -> tpw_case offer w (PReady (inr EK_Aborted), w')
| tpw_acc n w' : n <= len offer -> (offer <> [] -> 0 < n) -> io_rel w w' (take n offer) ->
    wscript w' = tl (wscript w) -> (wscript w = [] -> n = len offer) ->
    (forall k, hd_error (wscript w) = Some k -> k <> 0 /\ k <> W_ZERO /\ k <> W_ERR /\ k <> W_ERR_AB /\ n = N.min k (len offer)) ->
    tpw_case offer w (PReady (inl n), w').

Lemma len_pos_nonnil {A} (l : list A) : l <> [] -> 0 < len l.
Proof. destruct l; [tauto|]. intros _. rewrite len_cons. lia. Qed.

Lemma t_poll_write_spec offer w : tpw_case offer w (t_poll_write offer w).
Proof.
  unfold t_poll_write. destruct (wscript w) as [|k ws'] eqn:Hs.
  - apply tpw_acc.
    + lia.
    + apply len_pos_nonnil.
    + rewrite take_all by lia. apply io_rel_set_nil. exact Hs.
    + rewrite Hs. reflexivity.
    + reflexivity.
    + rewrite Hs. cbn [hd_error]. discriminate.
  - destruct (N.eqb_spec k 0) as [Hk0|Hk0].
    { subst k. apply tpw_wake; [exact Hs|eapply io_rel_set0; exact Hs]. }
    destruct (N.eqb_spec k W_ZERO) as [Hkz|Hkz].
    { subst k. apply tpw_zero; [exact Hs|eapply io_rel_set0; exact Hs]. }
    destruct (N.eqb_spec k W_ERR) as [Hke|Hke].
    { subst k. apply tpw_err; [exact Hs|eapply io_rel_set0; exact Hs]. }
    destruct (N.eqb_spec k W_ERR_AB) as [Hka|Hka].
    { subst k. apply tpw_errab; [exact Hs|eapply io_rel_set0; exact Hs]. }
    apply tpw_acc.
    + lia.
    + intros Hne. apply len_pos_nonnil in Hne. lia.
    + eapply io_rel_set. exact Hs.
    + rewrite Hs. reflexivity.
    + rewrite Hs. discriminate.
    + rewrite Hs. cbn [hd_error]. intros k' Hk'. injection Hk' as <-. tauto.
Qed.

(* item 1, in the form asked *)
Theorem t_poll_write_cases offer w p w' : t_poll_write offer w = (p, w') ->
  io_rel w w' (match p with PReady (inl n) => take n offer | _ => [] end) /\
  wscript w' = tl (wscript w) /\ epoch w' = epoch w /\ stopped w' = stopped w /\
  (no_fault (wscript w) -> no_fault (wscript w')) /\
  match p with
  | PWake => hd_error (wscript w) = Some 0
  | PReady (inl n) => n <= len offer /\ (n = 0 -> offer = [] \/ hd_error (wscript w) = Some W_ZERO)
  | PReady (inr k) => (k = EK_Transport /\ hd_error (wscript w) = Some W_ERR) \/
                      (k = EK_Aborted /\ hd_error (wscript w) = Some W_ERR_AB)
  | PBlock => False
  end.
Proof.
  intros E.
  assert (He : epoch w' = epoch w /\ stopped w' = stopped w).
  { unfold t_poll_write in E. destruct (wscript w) as [|k ws'].
    - injection E as _ <-. split; reflexivity.
    - destruct (k =? 0); [injection E as _ <-; split; reflexivity|].
      destruct (k =? W_ZERO); [injection E as _ <-; split; reflexivity|].
      destruct (k =? W_ERR); [injection E as _ <-; split; reflexivity|].
      destruct (k =? W_ERR_AB); injection E as _ <-; split; reflexivity. }
  pose proof (t_poll_write_spec offer w) as H. rewrite E in H.
  inversion H as [w1 Hs Hio|w1 Hs Hio|w1 Hs Hio|w1 Hs Hio|n w1 Hn Hpos Hio Hs Hnil Hk]; subst;
    pose proof (io_rel_no_fault _ _ _ Hio) as Hnf.
  - split; [exact Hio|]. split; [rewrite Hs; reflexivity|].
    split; [tauto|]. split; [tauto|]. split; [exact Hnf|rewrite Hs; reflexivity].
  - split; [rewrite take_0; exact Hio|]. split; [rewrite Hs; reflexivity|].
    split; [tauto|]. split; [tauto|]. split; [exact Hnf|]. split; [lia|]. rewrite Hs. cbn [hd_error]. tauto.
  - split; [exact Hio|]. split; [rewrite Hs; reflexivity|].
    split; [tauto|]. split; [tauto|]. split; [exact Hnf|]. rewrite Hs. cbn [hd_error]. tauto.
  - split; [exact Hio|]. split; [rewrite Hs; reflexivity|].
    split; [tauto|]. split; [tauto|]. split; [exact Hnf|]. rewrite Hs. cbn [hd_error]. tauto.
  - split; [exact Hio|]. split; [exact Hs|]. split; [tauto|]. split; [tauto|].
    split; [exact Hnf|]. split; [exact Hn|].
    intros Hn0. left. destruct offer as [|x o]; [reflexivity|].
    assert (0 < n) by (apply Hpos; discriminate). lia.
Qed.

(* ------------------------------------------------------------------------------------------ *)
(* Part 2: write_all on the raw transport                                                      *)
(* ------------------------------------------------------------------------------------------ *)

Lemma on_wake_post sel b w0 w (retry : world -> res (option N)) :
  b <> [] -> io_rel w0 w [] -> (forall w2, wpost sel b w2 (retry w2)) -> wpost sel b w0 (on_wake sel w retry).
Proof.
  intros Hne Hio Hr. unfold on_wake.
  assert (Hio' : io_rel w0 (w_bump w) []) by (eapply io_rel_trans0; [exact Hio|apply io_rel_bump]).
  destruct (sel && stopped (w_bump w)) eqn:E.
  - apply andb_prop in E. destruct E as [E1 E2]. cbn [wpost]. split; [exact E1|]. split; [exact E2|].
    exists [], b. split; [reflexivity|]. split; [exact Hne|exact Hio'].
  - eapply wpost_pre0; [exact Hio'|apply Hr].
Qed.

Lemma on_wake_not {A} sel w (retry : world -> res A) o :
  o <> ORet -> (forall w', retry (w_bump w) <> Halt o w') -> forall w', on_wake sel w retry <> Halt o w'.
Proof.
  intros Ho Hr w'. unfold on_wake. destruct (sel && stopped (w_bump w)).
  - intros H. injection H as H _. congruence.
  - apply Hr.
Qed.

Theorem await_write_all_post fuel : forall sel b w, wpost sel b w (await_write_all fuel sel b w).
Proof.
  induction fuel as [|f IH]; intros sel b w.
  - cbn [await_write_all wpost]. exists [], b. split; [reflexivity|apply io_rel_refl].
  - cbn [await_write_all]. destruct b as [|x b']; [cbn [wpost]; apply io_rel_refl|].
    set (b := x :: b'). assert (Hne : b <> []) by discriminate.
    destruct (t_poll_write_spec b w) as [w1 Hs Hio|w1 Hs Hio|w1 Hs Hio|w1 Hs Hio|n w1 Hn Hpos Hio Hs Hnil Hk].
    + apply on_wake_post; [exact Hne|exact Hio|]. intros w2. apply IH.
    + change (0 =? 0) with true. cbn [wpost]. exists [], b. split; [reflexivity|]. split; [exact Hne|].
      split; [exact Hio|]. left. split; [reflexivity|]. rewrite Hs. left. reflexivity.
    + cbn [wpost]. exists [], b. split; [reflexivity|]. split; [exact Hne|].
      split; [exact Hio|]. right; left. split; [reflexivity|]. rewrite Hs. left. reflexivity.
    + cbn [wpost]. exists [], b. split; [reflexivity|]. split; [exact Hne|].
      split; [exact Hio|]. right; right. split; [reflexivity|]. rewrite Hs. left. reflexivity.
    + specialize (Hpos Hne). destruct (N.eqb_spec n 0) as [Hn0|Hn0]; [lia|].
      rewrite <- (take_drop n b) at 1. eapply wpost_pre; [exact Hio|apply IH].
Qed.

(* fuel: one iteration per script element, one for the rest, one to see the empty buffer *)
Lemma await_write_all_fuel_gen fuel : forall sel b w,
  (length (wscript w) + (match b with [] => 0 | _ => 1 end) < fuel)%nat ->
  forall w', await_write_all fuel sel b w <> Halt OFuel w'.
Proof.
  induction fuel as [|f IH]; intros sel b w Hf w'; [lia|].
  cbn [await_write_all]. destruct b as [|x b']; [discriminate|].
  change (length (wscript w) + 1 < S f)%nat in Hf.
  set (b := x :: b') in *. assert (Hne : b <> []) by discriminate.
  destruct (t_poll_write_spec b w) as [w1 Hs Hio|w1 Hs Hio|w1 Hs Hio|w1 Hs Hio|n w1 Hn Hpos Hio Hs Hnil Hk].
  - apply on_wake_not; [discriminate|]. intros w2. apply IH.
    change (length (wscript w1) + 1 < f)%nat. rewrite Hs in Hf. cbn [length] in Hf. lia.
  - change (0 =? 0) with true. discriminate.
  - discriminate.
  - discriminate.
  - specialize (Hpos Hne). destruct (N.eqb_spec n 0) as [Hn0|Hn0]; [lia|].
    apply IH. rewrite Hs. destruct (wscript w) as [|k ws'] eqn:Hw.
    + rewrite (Hnil eq_refl). rewrite drop_all by lia. cbn [tl length]. cbn [length] in Hf. lia.
    + cbn [tl]. cbn [length] in Hf. destruct (drop n b); lia.
Qed.

(* item 2 *)
Theorem await_write_all_spec fuel sel b w :
  match await_write_all fuel sel b w with
  | Ok None w' => io_rel w w' b
  | Ok (Some k) w' => (k = EK_WriteZero \/ k = EK_Transport \/ k = EK_Aborted) /\ ~ no_fault (wscript w) /\
      exists b1 b2, b = b1 ++ b2 /\ b2 <> [] /\ io_rel w w' b1
  | Halt ORet w' => sel = true /\ stopped w' = true /\ exists b1 b2, b = b1 ++ b2 /\ b2 <> [] /\ io_rel w w' b1
  | Halt OFuel w' => (fuel <= length (wscript w) + length b)%nat /\ exists b1 b2, b = b1 ++ b2 /\ io_rel w w' b1
  | Halt _ _ => False
  end.
Proof.
  pose proof (await_write_all_post fuel sel b w) as H.
  pose proof (await_write_all_fuel_gen fuel sel b w) as Hf.
  destruct (await_write_all fuel sel b w) as [[k|] w'|o w']; cbn [wpost] in H.
  - destruct H as (b1 & b2 & Hb & Hne & Hio & Hk). split; [eapply fault_of_kind; exact Hk|].
    split; [intros Hn; eapply no_fault_not_fault; eassumption|]. exists b1, b2. tauto.
  - exact H.
  - destruct o; try exact H. split; [|exact H].
    destruct (Nat.le_gt_cases fuel (length (wscript w) + length b)) as [Hle|Hgt]; [exact Hle|].
    exfalso. apply (Hf) with (w' := w'); [|reflexivity]. destruct b; cbn [length] in *; lia.
Qed.

Corollary await_write_all_fuel fuel sel b w w' :
  (length (wscript w) + length b < fuel)%nat -> await_write_all fuel sel b w <> Halt OFuel w'.
Proof. intros Hf. apply await_write_all_fuel_gen. destruct b; cbn [length] in *; lia. Qed.

Corollary await_write_all_no_fault fuel sel b w k w' :
  no_fault (wscript w) -> await_write_all fuel sel b w <> Ok (Some k) w'.
Proof.
  intros Hn E. pose proof (await_write_all_post fuel sel b w) as H. rewrite E in H.
  eapply wpost_no_fault; eassumption.
Qed.

Corollary await_write_all_io_fuel sel b w extra w' :
  len b <= extra -> await_write_all (io_fuel w extra) sel b w <> Halt OFuel w'.
Proof. intros H. apply await_write_all_fuel. unfold io_fuel, len in *. lia. Qed.

(* the explicit reading of [wpost] together with a statement about fuel exhaustion *)
Definition wspec (sel : bool) (b : bytes) (w : world) (fuel_small : Prop) (r : res (option N)) : Prop :=
  match r with
  | Ok None w' => io_rel w w' b
  | Ok (Some k) w' => (k = EK_WriteZero \/ k = EK_Transport \/ k = EK_Aborted) /\ ~ no_fault (wscript w) /\
      exists b1 b2, b = b1 ++ b2 /\ b2 <> [] /\ io_rel w w' b1
  | Halt ORet w' => sel = true /\ stopped w' = true /\ exists b1 b2, b = b1 ++ b2 /\ b2 <> [] /\ io_rel w w' b1
  | Halt OFuel w' => fuel_small /\ exists b1 b2, b = b1 ++ b2 /\ io_rel w w' b1
  | Halt _ _ => False
  end.

Lemma wpost_wspec sel b w (fs : Prop) r : wpost sel b w r -> (forall w', r = Halt OFuel w' -> fs) -> wspec sel b w fs r.
Proof.
  intros H Hf. destruct r as [[k|] w'|o w']; cbn [wpost wspec] in *.
  - destruct H as (b1 & b2 & Hb & Hne & Hio & Hk). split; [eapply fault_of_kind; exact Hk|].
    split; [intros Hn; eapply no_fault_not_fault; eassumption|]. exists b1, b2. tauto.
  - exact H.
  - destruct o; try exact H. split; [eapply Hf; reflexivity|exact H].
Qed.

(* ------------------------------------------------------------------------------------------ *)
(* Part 3: the vectored write loop of StreamWriter::poll_write                                  *)
(* ------------------------------------------------------------------------------------------ *)

Definition nonempty (s : bytes) : bool := negb (len s =? 0).

(* the local [cut] of write_slices: remove n bytes from the front of a slice list *)
Fixpoint cut_slices (n : N) (l : list bytes) : list bytes :=
  match l with
  | [] => []
  | s :: t => if len s <=? n then cut_slices (n - len s) t else drop n s :: t
  end.

Lemma write_slices_S f slices w : write_slices (S f) slices w =
  match filter nonempty slices with
  | [] => Ok None w
  | s1 :: more =>
    match t_poll_write (if vectored w then s1 ++ concat more else s1) w with
    | (PReady (inl n), w') =>
      if n =? 0 then Ok (Some EK_WriteZero) w' else write_slices f (cut_slices n (s1 :: more)) w'
    | (PReady (inr k), w') => Ok (Some k) w'
    | (PWake, w') => on_wake false w' (write_slices f (s1 :: more))
    | (PBlock, w') => Halt (OPanic 51) w'
    end
  end.
Proof. reflexivity. Qed.

Lemma concat_filter_nonempty l : concat (filter nonempty l) = concat l.
Proof.
  induction l as [|s t IH]; [reflexivity|]. cbn [filter]. unfold nonempty at 1.
  destruct (N.eqb_spec (len s) 0) as [H|H]; cbn [negb concat].
  - apply len_zero_nil in H. subst s. exact IH.
  - rewrite IH. reflexivity.
Qed.

Lemma concat_cut n l : concat (cut_slices n l) = drop n (concat l).
Proof.
  revert n; induction l as [|s t IH]; intros n; cbn [cut_slices concat].
  - rewrite drop_nil. reflexivity.
  - destruct (N.leb_spec (len s) n) as [H|H].
    + rewrite IH. rewrite drop_app_ge by lia. reflexivity.
    + cbn [concat]. rewrite drop_app_le by lia. reflexivity.
Qed.

Lemma cut_length n l : (length (cut_slices n l) <= length l)%nat.
Proof.
  revert n; induction l as [|s t IH]; intros n; cbn [cut_slices length]; [lia|].
  destruct (len s <=? n); [specialize (IH (n - len s)); lia|cbn [length]; lia].
Qed.

Lemma filter_len_le {A} (f : A -> bool) l : (length (filter f l) <= length l)%nat.
Proof. induction l as [|x t IH]; cbn [filter length]; [lia|]. destruct (f x); cbn [length]; lia. Qed.

Lemma filter_nonempty_head slices s1 more : filter nonempty slices = s1 :: more -> s1 <> [].
Proof.
  intros EF. assert (H : In s1 (filter nonempty slices)) by (rewrite EF; left; reflexivity).
  apply filter_In in H. destruct H as [_ H]. intros E. subst s1. vm_compute in H. discriminate H.
Qed.

Theorem write_slices_post fuel : forall slices w, wpost false (concat slices) w (write_slices fuel slices w).
Proof.
  induction fuel as [|f IH]; intros slices w.
  - cbn [write_slices wpost]. exists [], (concat slices). split; [reflexivity|apply io_rel_refl].
  - rewrite write_slices_S. rewrite <- (concat_filter_nonempty slices).
    destruct (filter nonempty slices) as [|s1 more] eqn:EF.
    + cbn [concat wpost]. apply io_rel_refl.
    + pose proof (filter_nonempty_head _ _ _ EF) as Hs1.
      set (B := concat (s1 :: more)).
      match goal with |- context [t_poll_write ?o w] => set (offer := o) end.
      assert (HB : exists rest, B = offer ++ rest).
      { unfold offer, B. cbn [concat]. destruct (vectored w);
          [exists []; rewrite app_nil_r; reflexivity|exists (concat more); reflexivity]. }
      assert (Hone : offer <> []).
      { unfold offer. destruct (vectored w); [|exact Hs1]. intros H. apply app_eq_nil in H. tauto. }
      assert (HBne : B <> []).
      { destruct HB as [rest HB]. rewrite HB. intros H. apply app_eq_nil in H. tauto. }
      destruct (t_poll_write_spec offer w) as [w1 Hs Hio|w1 Hs Hio|w1 Hs Hio|w1 Hs Hio|n w1 Hn Hpos Hio Hs Hnil Hk].
      * apply on_wake_post; [exact HBne|exact Hio|]. intros w2. apply IH.
      * change (0 =? 0) with true. cbn [wpost]. exists [], B. split; [reflexivity|]. split; [exact HBne|].
        split; [exact Hio|]. left. split; [reflexivity|]. rewrite Hs. left. reflexivity.
      * cbn [wpost]. exists [], B. split; [reflexivity|]. split; [exact HBne|].
        split; [exact Hio|]. right; left. split; [reflexivity|]. rewrite Hs. left. reflexivity.
      * cbn [wpost]. exists [], B. split; [reflexivity|]. split; [exact HBne|].
        split; [exact Hio|]. right; right. split; [reflexivity|]. rewrite Hs. left. reflexivity.
      * specialize (Hpos Hone). destruct (N.eqb_spec n 0) as [Hn0|Hn0]; [lia|].
        destruct HB as [rest HB].
        assert (Ht : take n offer = take n B) by (rewrite HB, take_app_le by lia; reflexivity).
        pose proof (IH (cut_slices n (s1 :: more)) w1) as HI. rewrite concat_cut in HI. fold B in HI.
        rewrite Ht in Hio. pose proof (wpost_pre _ _ _ _ _ _ Hio HI) as HH. rewrite take_drop in HH. exact HH.
Qed.

Lemma write_slices_fuel fuel : forall slices w,
  (length (wscript w) + length slices < fuel)%nat -> forall w', write_slices fuel slices w <> Halt OFuel w'.
Proof.
  induction fuel as [|f IH]; intros slices w Hf w'; [lia|].
  rewrite write_slices_S. pose proof (filter_len_le nonempty slices) as Hfl. revert Hfl.
  destruct (filter nonempty slices) as [|s1 more] eqn:EF; intros Hfl; [discriminate|].
  pose proof (filter_nonempty_head _ _ _ EF) as Hs1.
  match goal with |- context [t_poll_write ?o w] => set (offer := o) end.
  assert (Hone : offer <> []).
  { unfold offer. destruct (vectored w); [|exact Hs1]. intros H. apply app_eq_nil in H. tauto. }
  assert (Hlo : len s1 <= len offer).
  { unfold offer. destruct (vectored w); [rewrite len_app|]; lia. }
  cbn [length] in Hfl.
  destruct (t_poll_write_spec offer w) as [w1 Hs Hio|w1 Hs Hio|w1 Hs Hio|w1 Hs Hio|n w1 Hn Hpos Hio Hs Hnil Hk].
  - apply on_wake_not; [discriminate|]. intros w2. apply IH.
    change (wscript (w_bump w1)) with (wscript w1). rewrite Hs in Hf. cbn [length] in *. lia.
  - change (0 =? 0) with true. discriminate.
  - discriminate.
  - discriminate.
  - specialize (Hpos Hone). destruct (N.eqb_spec n 0) as [Hn0|Hn0]; [lia|].
    apply IH. rewrite Hs. pose proof (cut_length n (s1 :: more)) as Hc.
    destruct (wscript w) as [|k ws'] eqn:Hw.
    + cbn [cut_slices]. destruct (N.leb_spec (len s1) n) as [Hle|Hgt].
      * pose proof (cut_length (n - len s1) more). cbn [tl length] in *. lia.
      * exfalso. rewrite (Hnil eq_refl) in Hgt. lia.
    + cbn [tl length] in *. lia.
Qed.

(* item 3: both kinds of transport; the bytes of the slices reach the log in order, whole or as a
   prefix, wherever the transport cuts *)
Theorem write_slices_spec fuel slices w :
  wspec false (concat slices) w (fuel <= length (wscript w) + length slices)%nat (write_slices fuel slices w).
Proof.
  apply wpost_wspec; [apply write_slices_post|]. intros w' E.
  destruct (Nat.le_gt_cases fuel (length (wscript w) + length slices)) as [Hle|Hgt]; [exact Hle|].
  exfalso. eapply write_slices_fuel; eassumption.
Qed.

Corollary write_slices_ok fuel slices w w' : write_slices fuel slices w = Ok None w' ->
  wlog w' = wlog w ++ concat slices /\ same_but_io w w'.
Proof.
  intros E. pose proof (write_slices_post fuel slices w) as H. rewrite E in H. cbn [wpost] in H.
  split; [apply io_rel_wlog; exact H|apply H].
Qed.

Corollary write_slices_no_fault fuel slices w k w' :
  no_fault (wscript w) -> write_slices fuel slices w <> Ok (Some k) w'.
Proof.
  intros Hn E. pose proof (write_slices_post fuel slices w) as H. rewrite E in H.
  eapply wpost_no_fault; eassumption.
Qed.

(* ------------------------------------------------------------------------------------------ *)
(* Part 4: write_all on a StreamWriter = a sequence of stream records                          *)
(* ------------------------------------------------------------------------------------------ *)

(* one stream record carrying the chunk c, with the automatic padding *)
Definition rec_of (stype id : N) (c : bytes) : bytes :=
  hdr_encode stype id (len c) (auto_padding (len c)) ++ c ++ zeros (auto_padding (len c)).

(* successive chunks of at most 65535 bytes *)
Fixpoint chunks_f (fuel : nat) (data : bytes) : list bytes :=
  match fuel with
  | O => []
  | S f =>
    match data with
    | [] => []
    | _ => let n := N.min (len data) 65535 in take n data :: chunks_f f (drop n data)
    end
  end.
Definition chunks (data : bytes) : list bytes := chunks_f (length data) data.

Definition stream_records (stype id : N) (data : bytes) : bytes := concat (map (rec_of stype id) (chunks data)).

Lemma length_drop_chunk (data : bytes) : data <> [] ->
  (length (drop (N.min (len data) 65535) data) < length data)%nat.
Proof.
  intros Hne. apply len_pos_nonnil in Hne. unfold drop. rewrite skipn_length. unfold len in *. lia.
Qed.

Lemma chunks_f_enough f1 : forall f2 data, (length data <= f1)%nat -> (length data <= f2)%nat ->
  chunks_f f1 data = chunks_f f2 data.
Proof.
  induction f1 as [|f1 IH]; intros f2 data H1 H2.
  - destruct data; [|cbn [length] in H1; lia]. destruct f2; reflexivity.
  - destruct f2 as [|f2].
    + destruct data; [reflexivity|cbn [length] in H2; lia].
    + cbn [chunks_f]. destruct data as [|x d]; [reflexivity|].
      set (data := x :: d) in *. assert (Hne : data <> []) by discriminate.
      pose proof (length_drop_chunk data Hne) as Hl. cbv zeta. f_equal. apply IH; lia.
Qed.

Lemma chunks_nil : chunks [] = [].
Proof. reflexivity. Qed.

(* the defining equation *)
Lemma chunks_eq data : data <> [] ->
  chunks data = take (N.min (len data) 65535) data :: chunks (drop (N.min (len data) 65535) data).
Proof.
  intros Hne. pose proof (length_drop_chunk data Hne) as Hl. unfold chunks.
  destruct data as [|x d]; [tauto|].
  cbn [length chunks_f]. cbv zeta. f_equal.
  apply chunks_f_enough; [|lia]. cbn [length] in Hl. lia.
Qed.

Lemma chunks_ind (P : bytes -> Prop) :
  P [] -> (forall data, data <> [] -> P (drop (N.min (len data) 65535) data) -> P data) -> forall data, P data.
Proof.
  intros H0 Hs data. remember (length data) as m eqn:Hm.
  assert (Hle : (length data <= m)%nat) by lia. clear Hm. revert data Hle.
  induction m as [|m IH]; intros data Hle.
  - destruct data; [exact H0|cbn [length] in Hle; lia].
  - destruct data as [|x d]; [exact H0|]. set (data := x :: d) in *.
    assert (Hne : data <> []) by discriminate. apply Hs; [exact Hne|].
    apply IH. pose proof (length_drop_chunk data Hne). lia.
Qed.

(* each byte of data is in exactly one chunk, in order *)
Theorem chunks_concat data : concat (chunks data) = data.
Proof.
  induction data as [|data Hne IH] using chunks_ind; [reflexivity|].
  rewrite chunks_eq by exact Hne. cbn [concat]. rewrite IH. apply take_drop.
Qed.

Theorem chunks_sizes data : Forall (fun c => 0 < len c <= 65535) (chunks data).
Proof.
  induction data as [|data Hne IH] using chunks_ind; [constructor|].
  rewrite chunks_eq by exact Hne. constructor; [|exact IH].
  apply len_pos_nonnil in Hne. rewrite len_take. lia.
Qed.

(* all chunks but the last are full *)
Theorem chunks_full data c rest : chunks data = c :: rest -> rest <> [] -> len c = 65535.
Proof.
  intros E Hr. destruct data as [|x d]; [discriminate E|]. set (data := x :: d) in *.
  rewrite chunks_eq in E by discriminate. injection E as Ec Er. subst c.
  rewrite len_take. destruct (N.leb_spec (len data) 65535) as [Hle|Hgt]; [|lia].
  exfalso. apply Hr. rewrite <- Er. rewrite drop_all by lia. reflexivity.
Qed.

Lemma stream_records_nil stype id : stream_records stype id [] = [].
Proof. reflexivity. Qed.

Lemma stream_records_eq stype id data : data <> [] ->
  stream_records stype id data =
    rec_of stype id (take (N.min (len data) 65535) data) ++ stream_records stype id (drop (N.min (len data) 65535) data).
Proof. intros Hne. unfold stream_records. rewrite chunks_eq by exact Hne. reflexivity. Qed.

(* every record is well-formed and carries its chunk *)
Theorem rec_of_wf stype id c : known_type stype = true -> id < 65536 -> len c <= 65535 ->
  let pad := auto_padding (len c) in
  let rec := rec_of stype id c in
  hdr_decode (take 8 rec) = HOk stype id (len c) pad /\ pad < 8 /\ (len c + pad) mod 8 = 0 /\
  len rec = 8 + len c + pad /\ len rec mod 8 = 0 /\
  take (len c) (drop 8 rec) = c /\ drop (8 + len c) rec = zeros pad.
Proof.
  intros Ht Hid Hc pad rec. destruct (pad_rule (len c)) as [P1 [P2 _]]. fold pad in P1, P2.
  assert (Hd8 : drop 8 rec = c ++ zeros pad).
  { unfold rec, rec_of. fold pad. rewrite drop_app_ge by (rewrite hdr_encode_len; lia).
    rewrite hdr_encode_len. replace (8 - 8) with 0 by lia. apply drop_0. }
  assert (Hlen : len rec = 8 + len c + pad).
  { unfold rec, rec_of. fold pad. rewrite !len_app, hdr_encode_len, len_zeros. lia. }
  split.
  { unfold rec, rec_of. fold pad. rewrite take_app_le by (rewrite hdr_encode_len; lia).
    rewrite take_all by (rewrite hdr_encode_len; lia). apply hdr_roundtrip; [exact Ht|exact Hid|lia|lia]. }
  split; [exact P1|]. split; [exact P2|]. split; [exact Hlen|]. split; [rewrite Hlen; lia|].
  split; [rewrite Hd8; apply take_len_app|].
  replace (8 + len c) with (8 + len c)%N by reflexivity.
  rewrite <- (drop_drop (len c) 8). rewrite Hd8. apply drop_len_app.
Qed.

Theorem stream_records_wf stype id data : known_type stype = true -> id < 65536 ->
  Forall (fun c => 0 < len c <= 65535 /\
            hdr_decode (take 8 (rec_of stype id c)) = HOk stype id (len c) (auto_padding (len c)) /\
            auto_padding (len c) < 8 /\ (len c + auto_padding (len c)) mod 8 = 0)
         (chunks data).
Proof.
  intros Ht Hid. pose proof (chunks_sizes data) as H. rewrite Forall_forall in *. intros c Hc.
  specialize (H c Hc). split; [exact H|]. destruct (rec_of_wf stype id c Ht Hid) as (A & B & C & _); [lia|]. tauto.
Qed.

Lemma slices_rec stype id data :
  concat [hdr_encode stype id (N.min (len data) 65535) (auto_padding (N.min (len data) 65535));
          take (N.min (len data) 65535) data; zeros (auto_padding (N.min (len data) 65535))]
  = rec_of stype id (take (N.min (len data) 65535) data).
Proof.
  unfold rec_of. rewrite len_take.
  replace (N.min (N.min (len data) 65535) (len data)) with (N.min (len data) 65535) by lia.
  cbn [concat]. rewrite app_nil_r. reflexivity.
Qed.

Lemma writer_write_all_S f stype id data w : writer_write_all (S f) stype id data w =
  match data with
  | [] => Ok None w
  | _ =>
    let n := N.min (len data) 65535 in
    match write_slices (io_fuel w (n + 300)) [hdr_encode stype id n (auto_padding n); take n data; zeros (auto_padding n)] w with
    | Ok None w' => writer_write_all f stype id (drop n data) w'
    | x => x
    end
  end.
Proof. reflexivity. Qed.

Theorem writer_write_all_post stype id fuel : forall data w,
  wpost false (stream_records stype id data) w (writer_write_all fuel stype id data w).
Proof.
  induction fuel as [|f IH]; intros data w.
  - cbn [writer_write_all wpost]. exists [], (stream_records stype id data). split; [reflexivity|apply io_rel_refl].
  - rewrite writer_write_all_S. destruct data as [|x d]; [cbn [wpost]; apply io_rel_refl|].
    set (data := x :: d). assert (Hne : data <> []) by discriminate. cbv zeta.
    rewrite (stream_records_eq stype id data Hne).
    set (n := N.min (len data) 65535).
    match goal with |- context [write_slices ?fu ?sl w] =>
      pose proof (write_slices_post fu sl w) as H; unfold n in H; rewrite slices_rec in H; fold n in H;
      revert H; destruct (write_slices fu sl w) as [[k|] w1|o w1]; intros H end.
    + apply wpost_ext; [discriminate|exact H].
    + cbn [wpost] in H. eapply wpost_pre; [exact H|apply IH].
    + apply wpost_ext; [discriminate|exact H].
Qed.

Lemma writer_write_all_fuel_gen stype id fuel : forall data w,
  (N.to_nat ((len data + 65534) / 65535) + 1 <= fuel)%nat ->
  forall w', writer_write_all fuel stype id data w <> Halt OFuel w'.
Proof.
  induction fuel as [|f IH]; intros data w Hf w'; [lia|].
  rewrite writer_write_all_S. destruct data as [|x d]; [discriminate|].
  set (data := x :: d) in *. assert (Hne : data <> []) by discriminate. cbv zeta.
  set (n := N.min (len data) 65535) in *.
  match goal with |- context [write_slices ?fu ?sl w] =>
    pose proof (write_slices_fuel fu sl w) as H;
    revert H; destruct (write_slices fu sl w) as [[k|] w1|o w1]; intros H end.
  - discriminate.
  - apply IH. rewrite len_drop. apply len_pos_nonnil in Hne. unfold n. lia.
  - intros E. injection E as -> ->. eapply H; [|reflexivity].
    unfold io_fuel. cbn [length]. lia.
Qed.

(* item 4 *)
Theorem writer_write_all_spec fuel stype id data w :
  wspec false (stream_records stype id data) w (fuel < N.to_nat (len data / 65535) + 2)%nat
        (writer_write_all fuel stype id data w).
Proof.
  apply wpost_wspec; [apply writer_write_all_post|]. intros w' E.
  destruct (Nat.le_gt_cases (N.to_nat (len data / 65535) + 2) fuel) as [Hle|Hgt]; [|exact Hgt].
  exfalso. eapply writer_write_all_fuel_gen; [|exact E]. lia.
Qed.

Corollary writer_write_all_ok fuel stype id data w w' : writer_write_all fuel stype id data w = Ok None w' ->
  wlog w' = wlog w ++ stream_records stype id data /\ same_but_io w w'.
Proof.
  intros E. pose proof (writer_write_all_post stype id fuel data w) as H. rewrite E in H. cbn [wpost] in H.
  split; [apply io_rel_wlog; exact H|apply H].
Qed.

Corollary writer_write_all_empty fuel stype id w : (0 < fuel)%nat -> writer_write_all fuel stype id [] w = Ok None w.
Proof. destruct fuel; [lia|reflexivity]. Qed.

Corollary writer_write_all_no_fault fuel stype id data w k w' :
  no_fault (wscript w) -> writer_write_all fuel stype id data w <> Ok (Some k) w'.
Proof.
  intros Hn E. pose proof (writer_write_all_post stype id fuel data w) as H. rewrite E in H.
  eapply wpost_no_fault; eassumption.
Qed.

(* ------------------------------------------------------------------------------------------ *)
(* Part 5: Request::poll_output                                                                *)
(* ------------------------------------------------------------------------------------------ *)

(* everything of the stream parser except its output queue *)
Definition sp_same_but_output (p p' : sp) : Prop :=
  buffer p' = buffer p /\ parsed_start p' = parsed_start p /\ gap_start p' = gap_start p /\
  raw_start p' = raw_start p /\ free_start p' = free_start p /\ sreq p' = sreq p /\ stream p' = stream p /\
  payload_rem p' = payload_rem p /\ padding_rem p' = padding_rem p /\ sst p' = sst p.

Lemma sp_same_refl p : sp_same_but_output p p.
Proof. repeat split. Qed.

Lemma sp_same_trans p p1 p2 : sp_same_but_output p p1 -> sp_same_but_output p1 p2 -> sp_same_but_output p p2.
Proof.
  intros (A1 & A2 & A3 & A4 & A5 & A6 & A7 & A8 & A9 & A10) (B1 & B2 & B3 & B4 & B5 & B6 & B7 & B8 & B9 & B10).
  repeat split; congruence.
Qed.

Lemma sp_same_views p p' : sp_same_but_output p p' ->
  stream_buffer p' = stream_buffer p /\ raw_bytes p' = raw_bytes p /\ sinput_space p' = sinput_space p /\
  is_record_boundary p' = is_record_boundary p /\ stream p' = stream p /\ sreq p' = sreq p.
Proof.
  intros (A1 & A2 & A3 & A4 & A5 & A6 & A7 & A8 & A9 & A10).
  unfold stream_buffer, raw_bytes, sinput_space, is_record_boundary.
  rewrite A1, A2, A3, A4, A5, A8, A9. repeat split; assumption.
Qed.

Lemma consume_output_same p n : sp_same_but_output p (consume_output p n).
Proof. unfold consume_output. destruct (len (output p) - output_start p <=? n); repeat split. Qed.

(* consume_output removes exactly the first n bytes of the output queue (all of it if n is larger) *)
Lemma consume_output_buffer p n : output_buffer (consume_output p n) = drop n (output_buffer p).
Proof.
  unfold consume_output, output_buffer.
  destruct (N.leb_spec (len (output p) - output_start p) n) as [H|H]; cbn [output output_start].
  - rewrite drop_0. symmetry. apply drop_all. rewrite len_drop. exact H.
  - symmetry. apply drop_drop.
Qed.

Definition po_post (r : rstate) (w : world) (x : pres (unit + N) * rstate * world) : Prop :=
  let '(p, r', w') := x in
  let out := output_buffer (rsp r) in
  exists n, n <= len out /\ io_rel w w' (take n out) /\
    output_buffer (rsp r') = drop n out /\
    sp_same_but_output (rsp r) (rsp r') /\ rwriteable r' = rwriteable r /\
    match p with
    | PReady (inl _) => n = len out /\ rlock r' = false
    | PReady (inr k) => k = 99 \/ (n < len out /\ rlock r' = true /\ fault_of k (wscript w))
    | PWake => n < len out /\ rlock r' = true /\ In 0 (wscript w)
    | PBlock => False
    end.

Theorem poll_output_post fuel : forall r w, po_post r w (poll_output fuel r w).
Proof.
  induction fuel as [|f IH]; intros r w.
  - cbn [poll_output po_post]. exists 0. rewrite take_0, drop_0. split; [lia|]. split; [apply io_rel_refl|].
    split; [reflexivity|]. split; [apply sp_same_refl|]. split; [reflexivity|]. left. reflexivity.
  - cbn [poll_output]. destruct (output_buffer (rsp r)) as [|x o'] eqn:Eo.
    + cbn [po_post rsp rwriteable rlock]. rewrite Eo. exists 0. rewrite take_0, drop_0. split; [reflexivity|].
      split; [apply io_rel_refl|]. split; [reflexivity|]. split; [apply sp_same_refl|]. split; [reflexivity|].
      split; reflexivity.
    + set (out := x :: o') in *. assert (Hne : out <> []) by discriminate.
      pose proof (len_pos_nonnil out Hne) as Hlen.
      destruct (t_poll_write_spec out w) as [w1 Hs Hio|w1 Hs Hio|w1 Hs Hio|w1 Hs Hio|n w1 Hn Hpos Hio Hs Hnil Hk].
      * cbn [po_post rsp rwriteable rlock]. rewrite Eo. exists 0. rewrite take_0, drop_0. split; [lia|].
        split; [exact Hio|]. split; [reflexivity|]. split; [apply sp_same_refl|]. split; [reflexivity|].
        split; [exact Hlen|]. split; [reflexivity|]. rewrite Hs. left. reflexivity.
      * change (0 =? 0) with true. cbn [po_post rsp rwriteable rlock]. rewrite Eo. exists 0.
        rewrite take_0, drop_0. split; [lia|].
        split; [exact Hio|]. split; [reflexivity|]. split; [apply sp_same_refl|]. split; [reflexivity|].
        right. split; [exact Hlen|]. split; [reflexivity|]. left. split; [reflexivity|]. rewrite Hs. left. reflexivity.
      * cbn [po_post rsp rwriteable rlock]. rewrite Eo. exists 0. rewrite take_0, drop_0. split; [lia|].
        split; [exact Hio|]. split; [reflexivity|]. split; [apply sp_same_refl|]. split; [reflexivity|].
        right. split; [exact Hlen|]. split; [reflexivity|]. right; left. split; [reflexivity|]. rewrite Hs. left. reflexivity.
      * cbn [po_post rsp rwriteable rlock]. rewrite Eo. exists 0. rewrite take_0, drop_0. split; [lia|].
        split; [exact Hio|]. split; [reflexivity|]. split; [apply sp_same_refl|]. split; [reflexivity|].
        right. split; [exact Hlen|]. split; [reflexivity|]. right; right. split; [reflexivity|]. rewrite Hs. left. reflexivity.
      * specialize (Hpos Hne). destruct (N.eqb_spec n 0) as [Hn0|Hn0]; [lia|].
        set (r1 := mkR (consume_output (rsp r) n) (rwriteable r) true (raborted r)).
        pose proof (IH r1 w1) as HI. destruct (poll_output f r1 w1) as [[p r'] w'].
        unfold po_post in HI |- *. cbn [rsp rwriteable rlock r1] in HI. cbv zeta in HI |- *.
        rewrite consume_output_buffer, Eo in HI. rewrite Eo.
        destruct HI as (m & Hm & Hio2 & Hout & Hsame & Hwr & Hp).
        rewrite len_drop in Hm.
        exists (n + m). split; [lia|]. split; [rewrite take_add; eapply io_rel_trans; eassumption|].
        split; [rewrite Hout, drop_drop; reflexivity|].
        split; [eapply sp_same_trans; [apply consume_output_same|exact Hsame]|]. split; [exact Hwr|].
        destruct p as [[u|k]| |].
        -- destruct Hp as [Hp1 Hp2]. rewrite len_drop in Hp1. split; [lia|exact Hp2].
        -- destruct Hp as [Hp|(Hp1 & Hp2 & Hp3)]; [left; exact Hp|right]. rewrite len_drop in Hp1.
           split; [lia|]. split; [exact Hp2|]. eapply fault_of_suffix; [|exact Hp3]. apply Hio.
        -- destruct Hp as (Hp1 & Hp2 & Hp3). rewrite len_drop in Hp1. split; [lia|]. split; [exact Hp2|].
           eapply suffix_In; [|exact Hp3]. apply Hio.
        -- exact Hp.
Qed.

(* fuel: the code 99 (model fuel exhausted) does not occur with the fuel the model supplies *)
Lemma poll_output_fuel fuel : forall r w,
  (length (wscript w) + (match output_buffer (rsp r) with [] => 0 | _ => 1 end) < fuel)%nat ->
  fst (fst (poll_output fuel r w)) <> PReady (inr 99).
Proof.
  induction fuel as [|f IH]; intros r w Hf; [lia|].
  cbn [poll_output]. destruct (output_buffer (rsp r)) as [|x o'] eqn:Eo; [cbn [fst]; discriminate|].
  change (length (wscript w) + 1 < S f)%nat in Hf.
  set (out := x :: o') in *. assert (Hne : out <> []) by discriminate.
  destruct (t_poll_write_spec out w) as [w1 Hs Hio|w1 Hs Hio|w1 Hs Hio|w1 Hs Hio|n w1 Hn Hpos Hio Hs Hnil Hk].
  - cbn [fst]. discriminate.
  - change (0 =? 0) with true. cbn [fst]. discriminate.
  - cbn [fst]. discriminate.
  - cbn [fst]. discriminate.
  - specialize (Hpos Hne). destruct (N.eqb_spec n 0) as [Hn0|Hn0]; [lia|].
    apply IH. cbn [rsp]. rewrite consume_output_buffer, Eo. fold out. rewrite Hs.
    destruct (wscript w) as [|k ws'] eqn:Hw.
    + rewrite (Hnil eq_refl). rewrite drop_all by lia. cbn [tl length] in *. lia.
    + cbn [tl length] in *. destruct (drop n out); lia.
Qed.

Corollary poll_output_io_fuel r w extra : fst (fst (poll_output (io_fuel w extra) r w)) <> PReady (inr 99).
Proof. apply poll_output_fuel. unfold io_fuel. destruct (output_buffer (rsp r)); lia. Qed.

Lemma poll_output_RI fuel : forall r w, RI (rsp r) -> RI (rsp (snd (fst (poll_output fuel r w)))).
Proof.
  induction fuel as [|f IH]; intros r w HRI; [exact HRI|].
  cbn [poll_output]. destruct (output_buffer (rsp r)) as [|x o']; [exact HRI|].
  destruct (t_poll_write (x :: o') w) as [[[n|k]| |] w1]; try exact HRI.
  destruct (n =? 0); [exact HRI|]. apply IH. cbn [rsp]. apply consume_output_RI. exact HRI.
Qed.

(* Request.aborted is not touched by flushing *)
Lemma poll_output_raborted fuel : forall r w, raborted (snd (fst (poll_output fuel r w))) = raborted r.
Proof.
  induction fuel as [|f IH]; intros r w; [reflexivity|].
  cbn [poll_output]. destruct (output_buffer (rsp r)) as [|x o']; [reflexivity|].
  destruct (t_poll_write (x :: o') w) as [[[n|k]| |] w1]; try reflexivity.
  destruct (n =? 0); [reflexivity|]. rewrite IH. reflexivity.
Qed.

(* item 5, spelled out *)
Theorem poll_output_spec fuel r w p r' w' : poll_output fuel r w = (p, r', w') ->
  let out := output_buffer (rsp r) in
  exists n, n <= len out /\
    wlog w' = wlog w ++ take n out /\ same_but_io w w' /\ suffix (wscript w') (wscript w) /\
    output_buffer (rsp r') = drop n out /\
    sp_same_but_output (rsp r) (rsp r') /\
    stream_buffer (rsp r') = stream_buffer (rsp r) /\ raw_bytes (rsp r') = raw_bytes (rsp r) /\
    rwriteable r' = rwriteable r /\
    (RI (rsp r) -> RI (rsp r')) /\
    match p with
    | PReady (inl _) => n = len out /\ output_buffer (rsp r') = [] /\ rlock r' = false
    | PReady (inr k) => (k = 99 /\ (fuel <= length (wscript w) + 1)%nat) \/
        (n < len out /\ rlock r' = true /\ (k = EK_WriteZero \/ k = EK_Transport \/ k = EK_Aborted) /\ ~ no_fault (wscript w))
    | PWake => n < len out /\ rlock r' = true
    | PBlock => False
    end.
Proof.
  intros E out. pose proof (poll_output_post fuel r w) as H. pose proof (poll_output_fuel fuel r w) as Hf.
  rewrite E in H, Hf. cbn [fst] in Hf. unfold po_post in H. cbv zeta in H. fold out in H.
  destruct H as (n & Hn & Hio & Hout & Hsame & Hwr & Hp). exists n.
  destruct (sp_same_views _ _ Hsame) as (V1 & V2 & _).
  split; [exact Hn|]. split; [apply Hio|]. split; [apply Hio|]. split; [apply Hio|]. split; [exact Hout|].
  split; [exact Hsame|]. split; [exact V1|]. split; [exact V2|]. split; [exact Hwr|].
  split; [intros HRI; pose proof (poll_output_RI fuel r w HRI) as HR; rewrite E in HR; exact HR|].
  destruct p as [[u|k]| |].
  - destruct Hp as [Hp1 Hp2]. split; [exact Hp1|]. split; [|exact Hp2]. rewrite Hout. apply drop_all. lia.
  - destruct Hp as [Hp|(Hp1 & Hp2 & Hp3)].
    + left. split; [exact Hp|]. subst k.
      destruct (Nat.le_gt_cases fuel (length (wscript w) + 1)) as [Hle|Hgt]; [exact Hle|].
      exfalso. apply Hf; [|reflexivity]. destruct (output_buffer (rsp r)); lia.
    + right. split; [exact Hp1|]. split; [exact Hp2|]. split; [eapply fault_of_kind; exact Hp3|].
      intros Hnf. eapply no_fault_not_fault; eassumption.
  - tauto.
  - exact Hp.
Qed.

(* ------------------------------------------------------------------------------------------ *)
(* Part 6: the tail of Request::close                                                          *)
(* ------------------------------------------------------------------------------------------ *)

(* -- the read side never touches the write side -- *)
Lemma t_poll_read_spec L w p w' : t_poll_read L w = (p, w') ->
  wlog w' = wlog w /\ wscript w' = wscript w /\ vectored w' = vectored w /\
  (forall k, p = PReady (inr k) -> k = EK_Transport).
Proof.
  unfold t_poll_read. intros E.
  repeat match type of E with
  | (if ?c then _ else _) = _ => destruct c
  | (match ?x with _ => _ end) = _ => destruct x
  end; injection E as <- <-; (split; [reflexivity|]); (split; [reflexivity|]); (split; [reflexivity|]);
    intros k' Hk; try discriminate Hk; injection Hk as <-; reflexivity.
Qed.

Lemma await_read_spec fuel : forall sel L w x w', await_read fuel sel L w = Ok x w' ->
  wlog w' = wlog w /\ wscript w' = wscript w /\ (forall k, x = inr k -> k = EK_Transport).
Proof.
  induction fuel as [|f IH]; intros sel L w x w' E; [discriminate E|].
  cbn [await_read] in E. destruct (t_poll_read L w) as [p w1] eqn:ET.
  apply t_poll_read_spec in ET. destruct ET as (T1 & T2 & _ & T4).
  destruct p as [a| |].
  - injection E as <- <-. split; [exact T1|]. split; [exact T2|]. intros k Hk. apply T4. rewrite Hk. reflexivity.
  - unfold on_wake in E. destruct (sel && stopped (w_bump w1)); [discriminate E|].
    apply IH in E. change (wlog (w_bump w1)) with (wlog w1) in E. change (wscript (w_bump w1)) with (wscript w1) in E.
    rewrite T1, T2 in E. exact E.
  - unfold on_block in E. destruct (negb (stop_at w1 =? 0) && negb (stopped w1)); [|discriminate E].
    destruct sel; [discriminate E|].
    apply IH in E. change (wlog (w_stop w1)) with (wlog w1) in E. change (wscript (w_stop w1)) with (wscript w1) in E.
    rewrite T1, T2 in E. exact E.
Qed.

Section Close.
Variable maxc : N.

(* error kinds record_boundary can report *)
Definition rb_kinds : list N := [EK_Other; EK_Aborted; EK_UnexpectedEof; EK_InvalidData; EK_Transport].

Lemma perr_kind_rb e : In (perr_kind e) rb_kinds.
Proof. destruct e; cbn [perr_kind rb_kinds In]; tauto. Qed.

Definition bl_after (f : nat) (r : rstate) (w : world) (p' : sp) : res (option N * rstate) :=
  let r1 := mkR p' (rwriteable r) (rlock r) (raborted r) in
  if is_record_boundary p' then Ok (None, r1) w
  else
    let p2 := compress p' in
    let r2 := mkR p2 (rwriteable r) (rlock r) (raborted r) in
    match await_read (io_fuel w 0) false (sinput_space p2) w with
    | Ok (inl []) w' => Ok (Some EK_UnexpectedEof, r2) w'
    | Ok (inl b) w' => boundary_loop maxc f b r2 w'
    | Ok (inr k) w' => Ok (Some k, r2) w'
    | Halt o w' => Halt o w'
    end.

Lemma boundary_loop_S f new r w : boundary_loop maxc (S f) new r w =
  match sparse maxc (rsp r) new None with
  | StPanic n => Halt (OPanic (1000 + n)) w
  | StOk p' _ => bl_after f r w p'
  | StErr p' EAbortRequest _ => bl_after f r w p'
  | StErr p' e _ => Ok (Some (perr_kind e), mkR p' (rwriteable r) (rlock r) (raborted r)) w
  end.
Proof. reflexivity. Qed.

Definition rb_post (r : rstate) (w : world) (e : option N) (r' : rstate) (w' : world) : Prop :=
  wlog w' = wlog w /\ wscript w' = wscript w /\ rwriteable r' = rwriteable r /\ rlock r' = rlock r /\
  match e with None => is_record_boundary (rsp r') = true | Some k => In k rb_kinds end.

Lemma boundary_loop_spec fuel : forall new r w e r' w',
  boundary_loop maxc fuel new r w = Ok (e, r') w' -> rb_post r w e r' w'.
Proof.
  induction fuel as [|f IH]; intros new r w e r' w' E; [discriminate E|].
  rewrite boundary_loop_S in E.
  assert (Hafter : forall p', bl_after f r w p' = Ok (e, r') w' -> rb_post r w e r' w').
  { intros p' Ea. unfold bl_after in Ea. cbv zeta in Ea.
    destruct (is_record_boundary p') eqn:Eb.
    - injection Ea as <- <- <-. unfold rb_post. cbn [rsp rwriteable rlock raborted]. repeat split; exact Eb.
    - destruct (await_read (io_fuel w 0) false (sinput_space (compress p')) w) as [[b|k] w1|o w1] eqn:ER;
        [| |discriminate Ea].
      + apply await_read_spec in ER. destruct ER as (R1 & R2 & _). destruct b as [|x b'].
        * injection Ea as <- <- <-. unfold rb_post. cbn [rsp rwriteable rlock rb_kinds In].
          repeat split; try assumption. tauto.
        * apply IH in Ea. unfold rb_post in *. cbn [rsp rwriteable rlock raborted] in Ea.
          rewrite R1, R2 in Ea. exact Ea.
      + apply await_read_spec in ER. destruct ER as (R1 & R2 & R3). specialize (R3 k eq_refl). subst k.
        injection Ea as <- <- <-. unfold rb_post. cbn [rsp rwriteable rlock rb_kinds In].
        repeat split; try assumption. tauto. }
  destruct (sparse maxc (rsp r) new None) as [p' s|p' pe s|n]; [apply (Hafter p'); exact E| |discriminate E].
  destruct pe; try (apply (Hafter p'); exact E);
    injection E as <- <- <-; unfold rb_post; cbn [rsp rwriteable rlock raborted];
    (repeat split; try reflexivity); unfold rb_kinds; cbn [In]; tauto.
Qed.

Lemma record_boundary_spec r w e r' w' : record_boundary maxc r w = Ok (e, r') w' -> rb_post r w e r' w'.
Proof.
  unfold record_boundary. destruct (is_record_boundary (rsp r)) eqn:Eb.
  - intros E. injection E as <- <- <-. unfold rb_post. repeat split; exact Eb.
  - apply boundary_loop_spec.
Qed.

(* -- what follows record_boundary in close -- *)
Definition close_p4 (r3 : rstate) : sp :=
  match output_buffer (rsp r3) with [] => rsp r3 | _ => consume_output (rsp r3) (len (output_buffer (rsp r3))) end.

Definition close_finish (r3 : rstate) (disc code : N) (w2 : world) : res (parser + N) :=
  match epilogue (r_id (sreq (rsp r3))) disc code (if rwriteable r3 then ROLE_OUTPUT_STREAMS else []) with
  | None => Halt (OPanic 61) w2
  | Some ep =>
    let out := output_buffer (rsp r3) in
    match await_write_all (io_fuel w2 (len out)) false out w2 with
    | Halt o w' => Halt o w'
    | Ok (Some k3) w3 => Ok (inr k3) w3
    | Ok None w3 =>
      match await_write_all (io_fuel w3 (len ep)) false ep w3 with
      | Halt o w' => Halt o w'
      | Ok (Some k4) w4 => Ok (inr k4) w4
      | Ok None w4 =>
        if N.land (r_flags (sreq (close_p4 r3))) FLAG_KeepConn =? FLAG_KeepConn then
          match into_request_parser (close_p4 r3) with
          | ConvOk rp => Ok (inl rp) w4
          | ConvInterrupted => Ok (inr EK_Other) w4
          | ConvPanic => Halt (OPanic 62) w4
          end
        else Ok (inr EK_Reset) w4
      end
    end
  end.

Lemma close_tail_unfold r1 disc code w1 : close_tail maxc r1 disc code w1 =
  match set_stream (rsp r1) None with
  | SetOk p2 =>
    match record_boundary maxc (mkR p2 (rwriteable r1) (rlock r1) (raborted r1)) w1 with
    | Halt o w' => Halt o w'
    | Ok (Some k2, _) w2 => Ok (inr k2) w2
    | Ok (None, r3) w2 => close_finish r3 disc code w2
    end
  | _ => Halt (OPanic 63) w1
  end.
Proof. reflexivity. Qed.

Lemma close_p4_spec r3 : sp_same_but_output (rsp r3) (close_p4 r3) /\ output_buffer (close_p4 r3) = [] /\
  (RI (rsp r3) -> output (close_p4 r3) = []).
Proof.
  unfold close_p4. destruct (output_buffer (rsp r3)) as [|x o] eqn:Eo.
  - split; [apply sp_same_refl|]. split; [exact Eo|]. intros (_ & _ & _ & _ & R5 & R6). apply R6.
    unfold output_buffer in Eo. apply (f_equal len) in Eo. rewrite len_drop, len_nil in Eo. lia.
  - split; [apply consume_output_same|]. split; [rewrite consume_output_buffer, Eo; apply drop_all; lia|].
    intros _. unfold consume_output. unfold output_buffer in Eo. apply (f_equal len) in Eo. rewrite len_drop in Eo.
    destruct (N.leb_spec (len (output (rsp r3)) - output_start (rsp r3)) (len (x :: o))) as [H|H]; [reflexivity|lia].
Qed.

(* the full account of close after the record boundary was reached *)
Definition cf_post (r3 : rstate) (w2 : world) (ep : bytes) (x : res (parser + N)) : Prop :=
  let total := output_buffer (rsp r3) ++ ep in
  match x with
  | Ok (inl rp) w' => io_rel w2 w' total /\ into_request_parser (close_p4 r3) = ConvOk rp /\
      N.land (r_flags (sreq (rsp r3))) FLAG_KeepConn = FLAG_KeepConn
  | Ok (inr k) w' =>
      (io_rel w2 w' total /\
         ((k = EK_Reset /\ N.land (r_flags (sreq (rsp r3))) FLAG_KeepConn <> FLAG_KeepConn) \/
          (k = EK_Other /\ is_record_boundary (rsp r3) = false))) \/
      ((k = EK_WriteZero \/ k = EK_Transport \/ k = EK_Aborted) /\ ~ no_fault (wscript w2) /\
         exists b1 b2, total = b1 ++ b2 /\ b2 <> [] /\ io_rel w2 w' b1)
  | Halt (OPanic 62) w' => io_rel w2 w' total /\ ~ RI (rsp r3)
  | Halt _ _ => False
  end.

Theorem close_finish_spec r3 disc code w2 :
  match epilogue (r_id (sreq (rsp r3))) disc code (if rwriteable r3 then ROLE_OUTPUT_STREAMS else []) with
  | None => close_finish r3 disc code w2 = Halt (OPanic 61) w2
  | Some ep => cf_post r3 w2 ep (close_finish r3 disc code w2)
  end.
Proof.
  unfold close_finish.
  destruct (epilogue (r_id (sreq (rsp r3))) disc code (if rwriteable r3 then ROLE_OUTPUT_STREAMS else [])) as [ep|];
    [|reflexivity].
  cbv zeta. set (out := output_buffer (rsp r3)).
  assert (Hfail : forall k w', wpost false (out ++ ep) w2 (Ok (Some k) w') -> cf_post r3 w2 ep (Ok (inr k) w')).
  { intros k w' (b1 & b2 & Hb & Hne & Hio & Hk). unfold cf_post. cbv zeta. fold out. right.
    split; [eapply fault_of_kind; exact Hk|]. split; [intros Hn; eapply no_fault_not_fault; eassumption|].
    exists b1, b2. tauto. }
  assert (Hhalt : forall o w', wpost false (out ++ ep) w2 (Halt o w') -> o <> OFuel -> cf_post r3 w2 ep (Halt o w')).
  { intros o w' H Ho. destruct o; cbn [wpost] in H; try tauto. destruct H as [H _]. discriminate H. }
  pose proof (await_write_all_post (io_fuel w2 (len out)) false out w2) as H1.
  pose proof (fun w' => await_write_all_io_fuel false out w2 (len out) w' (N.le_refl _)) as F1.
  destruct (await_write_all (io_fuel w2 (len out)) false out w2) as [[k3|] w3|o w3].
  - apply Hfail. apply wpost_ext; [discriminate|exact H1].
  - cbn [wpost] in H1.
    pose proof (await_write_all_post (io_fuel w3 (len ep)) false ep w3) as H2.
    pose proof (fun w' => await_write_all_io_fuel false ep w3 (len ep) w' (N.le_refl _)) as F2.
    apply (wpost_pre false out ep w2 w3 _ H1) in H2.
    destruct (await_write_all (io_fuel w3 (len ep)) false ep w3) as [[k4|] w4|o w4].
    + apply Hfail. exact H2.
    + cbn [wpost] in H2. destruct (close_p4_spec r3) as (Hsame & Hob & Hri).
      destruct (sp_same_views _ _ Hsame) as (_ & _ & _ & Hb & _ & Hrq). rewrite Hrq.
      destruct (N.eqb_spec (N.land (r_flags (sreq (rsp r3))) FLAG_KeepConn) FLAG_KeepConn) as [Hk|Hk].
      * destruct (into_request_parser (close_p4 r3)) as [rp| |] eqn:EC.
        -- unfold cf_post. cbv zeta. fold out. tauto.
        -- unfold cf_post. cbv zeta. fold out. left. split; [exact H2|]. right. split; [reflexivity|].
           unfold into_request_parser in EC. rewrite Hb in EC.
           destruct (is_record_boundary (rsp r3)); [|reflexivity]. cbn [negb] in EC.
           destruct (negb (len (output (close_p4 r3)) =? 0)); discriminate EC.
        -- unfold cf_post. cbv zeta. fold out. split; [exact H2|]. intros HRI. specialize (Hri HRI).
           unfold into_request_parser in EC. rewrite Hri in EC.
           destruct (negb (is_record_boundary (close_p4 r3))); [discriminate EC|].
           change (len (@nil N) =? 0) with true in EC. cbn [negb] in EC. discriminate EC.
      * unfold cf_post. cbv zeta. fold out. left. split; [exact H2|]. left. split; [reflexivity|exact Hk].
    + apply Hhalt; [exact H2|]. intros ->. eapply F2. reflexivity.
  - apply Hhalt; [apply wpost_ext; [discriminate|exact H1]|]. intros ->. eapply F1. reflexivity.
Qed.

(* item 6: Request::close, no I/O error *)
Theorem close_tail_log r1 disc code w1 x w' :
  close_tail maxc r1 disc code w1 = Ok x w' -> (x = inr EK_Reset \/ exists rp, x = inl rp) ->
  exists p2 r3 w2 ep,
    set_stream (rsp r1) None = SetOk p2 /\
    record_boundary maxc (mkR p2 (rwriteable r1) (rlock r1) (raborted r1)) w1 = Ok (None, r3) w2 /\
    wlog w2 = wlog w1 /\ rwriteable r3 = rwriteable r1 /\ is_record_boundary (rsp r3) = true /\
    epilogue (r_id (sreq (rsp r3))) disc code (if rwriteable r1 then ROLE_OUTPUT_STREAMS else []) = Some ep /\
    wlog w' = wlog w2 ++ output_buffer (rsp r3) ++ ep /\ same_but_io w2 w'.
Proof.
  rewrite close_tail_unfold. intros E Hx.
  destruct (set_stream (rsp r1) None) as [p2| |]; [|discriminate E|discriminate E].
  destruct (record_boundary maxc (mkR p2 (rwriteable r1) (rlock r1) (raborted r1)) w1) as [[[k2|] r3] w2|o w2] eqn:ERB;
    [| |discriminate E].
  - exfalso. apply record_boundary_spec in ERB. destruct ERB as (_ & _ & _ & _ & Hk).
    injection E as <- <-. destruct Hx as [Hx|[rp Hx]]; [|discriminate Hx]. injection Hx as ->.
    cbn [rb_kinds In] in Hk. vm_compute in Hk. intuition discriminate.
  - pose proof (record_boundary_spec _ _ _ _ _ ERB) as (B1 & B2 & B3 & B4 & B5).
    cbn [rwriteable rlock] in B3, B4.
    pose proof (close_finish_spec r3 disc code w2) as H. rewrite B3 in H.
    destruct (epilogue (r_id (sreq (rsp r3))) disc code (if rwriteable r1 then ROLE_OUTPUT_STREAMS else [])) as [ep|] eqn:Eep.
    + exists p2, r3, w2, ep. split; [reflexivity|]. split; [exact ERB|]. split; [exact B1|]. split; [exact B3|].
      split; [exact B5|]. split; [exact Eep|]. rewrite E in H. unfold cf_post in H. cbv zeta in H.
      destruct Hx as [Hx|[rp Hx]]; subst x.
      * destruct H as [[H _]|[[Hk|[Hk|Hk]] _]]; [split; apply H|vm_compute in Hk; discriminate Hk..].
      * destruct H as [H _]. split; apply H.
    + rewrite H in E. discriminate E.
Qed.
End Close.

(* ------------------------------------------------------------------------------------------ *)
(* Part 7: restatements                                                                        *)
(* ------------------------------------------------------------------------------------------ *)

(* item 6 with the epilogue spelled out (epilogue_shape): the two empty stream records, then EndRequest *)
Theorem close_tail_log_shape maxc r1 disc code w1 x w' :
  close_tail maxc r1 disc code w1 = Ok x w' -> (x = inr EK_Reset \/ exists rp, x = inl rp) ->
  exists p2 r3 w2 ast ps,
    set_stream (rsp r1) None = SetOk p2 /\
    record_boundary maxc (mkR p2 (rwriteable r1) (rlock r1) (raborted r1)) w1 = Ok (None, r3) w2 /\
    wlog w2 = wlog w1 /\ exit_to_end disc code = Some (ast, ps) /\
    let id := r_id (sreq (rsp r3)) in
    wlog w' = wlog w2 ++ output_buffer (rsp r3) ++
      (if rwriteable r1 then hdr_encode RT_Stdout id 0 0 ++ hdr_encode RT_Stderr id 0 0 ++ end_record ast ps id
       else end_record ast ps id).
Proof.
  intros E Hx. destruct (close_tail_log maxc r1 disc code w1 x w' E Hx)
    as (p2 & r3 & w2 & ep & H1 & H2 & H3 & H4 & H5 & H6 & H7 & H8).
  destruct (exit_to_end disc code) as [[ast ps]|] eqn:Ex.
  - exists p2, r3, w2, ast, ps. split; [exact H1|]. split; [exact H2|]. split; [exact H3|]. split; [reflexivity|].
    cbv zeta. destruct (epilogue_shape (r_id (sreq (rsp r3))) disc code ast ps Ex) as (S1 & S2 & _).
    rewrite H7. destruct (rwriteable r1).
    + rewrite S1 in H6. injection H6 as <-. reflexivity.
    + rewrite S2 in H6. injection H6 as <-. reflexivity.
  - unfold epilogue in H6. rewrite Ex in H6. discriminate H6.
Qed.

(* Request::close as a whole: close_tail runs after writeable() returned Ok, or the Aborted kind while the
   request's aborted flag is set (the parser reported AbortRequest); any other error of writeable() — in
   particular a ConnectionAborted-kind transport error — is returned as it is, without a further write *)
Corollary do_close_cases maxc r disc code w x w' :
  do_close maxc r disc code w = Ok x w' ->
  exists e r1 w1, do_writeable maxc r w = Ok (e, r1) w1 /\
    (((e = None \/ (e = Some EK_Aborted /\ raborted r1 = true)) /\ close_tail maxc r1 disc code w1 = Ok x w') \/
     (exists k, e = Some k /\ (k <> EK_Aborted \/ raborted r1 = false) /\ x = inr k /\ w' = w1)).
Proof.
  unfold do_close. intros E.
  destruct (do_writeable maxc r w) as [[[k|] r1] w1|o w1]; [| |discriminate E].
  - exists (Some k), r1, w1. split; [reflexivity|]. destruct (N.eqb_spec k EK_Aborted) as [Hk|Hk].
    + subst k. cbn [andb] in E. destruct (raborted r1) eqn:Hab.
      * left. tauto.
      * right. exists EK_Aborted. injection E as <- <-. tauto.
    + right. exists k. cbn [andb] in E. injection E as <- <-. tauto.
  - exists None, r1, w1. tauto.
Qed.

(* the record sequence in the wire vocabulary of Parser/ReqWire.v *)
Definition chunk_rcd (stype id : N) (c : bytes) : rcd := mkRcd stype id c (zeros (auto_padding (len c))).

Lemma rec_of_enc stype id c : rec_of stype id c = enc_rcd (chunk_rcd stype id c).
Proof.
  unfold rec_of, enc_rcd, enc_rcd_rsv, chunk_rcd, hdr_encode. cbn [rt rid rbody rpad].
  rewrite len_zeros. change VERSION_V1 with 1. rewrite <- !app_assoc. reflexivity.
Qed.

Theorem stream_records_enc stype id data :
  stream_records stype id data = enc_rcds (map (chunk_rcd stype id) (chunks data)).
Proof.
  unfold stream_records, enc_rcds. induction (chunks data) as [|c t IH]; [reflexivity|].
  cbn [map concat flat_map]. rewrite IH, rec_of_enc. reflexivity.
Qed.

Lemma bytes_ok_chunks data : bytes_ok data -> Forall bytes_ok (chunks data).
Proof.
  induction data as [|data Hne IH] using chunks_ind; intros Hok; [constructor|].
  rewrite chunks_eq by exact Hne. constructor; [apply bytes_ok_take; exact Hok|].
  apply IH. apply bytes_ok_drop. exact Hok.
Qed.

Theorem stream_records_rcd_ok stype id data : stype < 256 -> id < 65536 -> bytes_ok data ->
  Forall rcd_ok (map (chunk_rcd stype id) (chunks data)).
Proof.
  intros Ht Hid Hok. pose proof (chunks_sizes data) as Hs. pose proof (bytes_ok_chunks data Hok) as Hb.
  rewrite Forall_forall in *. intros r Hr. apply in_map_iff in Hr. destruct Hr as (c & <- & Hc).
  specialize (Hs c Hc). specialize (Hb c Hc). destruct (pad_rule (len c)) as [P1 _].
  unfold rcd_ok, chunk_rcd. cbn [rt rid rbody rpad]. rewrite len_zeros.
  repeat split; try lia; try assumption. apply bytes_ok_zeros.
Qed.

(* a reference decoder: cut a byte string into complete records (type, id, content) *)
Fixpoint parse_records (fuel : nat) (log : bytes) : list (N * N * bytes) * bytes :=
  match fuel with
  | O => ([], log)
  | S f =>
    if len log <? 8 then ([], log) else
    match hdr_decode (take 8 log) with
    | HOk t id cl pl =>
      if len log <? 8 + cl + pl then ([], log)
      else let '(rs, rest) := parse_records f (drop (8 + cl + pl) log) in
           ((t, id, take cl (drop 8 log)) :: rs, rest)
    | _ => ([], log)
    end
  end.

Lemma parse_rec_of stype id c tail f : known_type stype = true -> id < 65536 -> len c <= 65535 ->
  parse_records (S f) (rec_of stype id c ++ tail) =
    let '(rs, rest) := parse_records f tail in ((stype, id, c) :: rs, rest).
Proof.
  intros Ht Hid Hc. destruct (rec_of_wf stype id c Ht Hid Hc) as (W1 & W2 & W3 & W4 & _ & W6 & _).
  cbv zeta in *. set (rec := rec_of stype id c) in *. set (pad := auto_padding (len c)) in *.
  cbn [parse_records]. rewrite len_app.
  destruct (N.ltb_spec (len rec + len tail) 8) as [H|_]; [lia|].
  rewrite take_app_le by lia. rewrite W1.
  destruct (N.ltb_spec (len rec + len tail) (8 + len c + pad)) as [H|_]; [lia|].
  rewrite <- W4. rewrite drop_len_app.
  rewrite drop_app_le by lia. rewrite take_app_le by (rewrite len_drop; lia). rewrite W6. reflexivity.
Qed.

(* the log of a successful write_all decodes to exactly the records of the chunks, nothing else *)
Theorem parse_stream_records stype id data tail f : known_type stype = true -> id < 65536 ->
  parse_records (length (chunks data) + f) (stream_records stype id data ++ tail) =
    let '(rs, rest) := parse_records f tail in (map (fun c => (stype, id, c)) (chunks data) ++ rs, rest).
Proof.
  intros Ht Hid. unfold stream_records. pose proof (chunks_sizes data) as Hs.
  induction (chunks data) as [|c t IH].
  - cbn [length map concat app plus]. destruct (parse_records f tail). reflexivity.
  - apply Forall_cons_iff in Hs. destruct Hs as [Hc Hs]. specialize (IH Hs).
    cbn [length map concat plus]. rewrite <- app_assoc. rewrite parse_rec_of by (try assumption; lia).
    rewrite IH. destruct (parse_records f tail) as [rs rest]. reflexivity.
Qed.

Corollary parse_stream_records_exact stype id data : known_type stype = true -> id < 65536 ->
  let '(rs, rest) := parse_records (length (chunks data)) (stream_records stype id data) in
  rest = [] /\ Forall (fun r => fst r = (stype, id)) rs /\ concat (map snd rs) = data.
Proof.
  intros Ht Hid. pose proof (parse_stream_records stype id data [] 0 Ht Hid) as H.
  rewrite app_nil_r, Nat.add_0_r in H. rewrite H. cbn [parse_records]. rewrite app_nil_r.
  split; [reflexivity|]. split.
  - rewrite Forall_forall. intros r Hr. apply in_map_iff in Hr. destruct Hr as (c & <- & _). reflexivity.
  - rewrite map_map. cbn [snd]. rewrite map_id. apply chunks_concat.
Qed.

(* item 5, the "iff": with the fuel the model supplies, Ready(Ok) exactly when the whole queue reached the log *)
Corollary poll_output_ready_iff fuel r w p r' w' : poll_output fuel r w = (p, r', w') ->
  (length (wscript w) + 1 < fuel)%nat ->
  (p = PReady (inl tt) <-> wlog w' = wlog w ++ output_buffer (rsp r)).
Proof.
  intros E Hf. destruct (poll_output_spec fuel r w p r' w' E) as (n & Hn & Hlog & _ & _ & _ & _ & _ & _ & _ & _ & Hp).
  cbv zeta in *. split.
  - intros ->. destruct Hp as (Hp & _). rewrite Hlog, Hp. rewrite take_all by lia. reflexivity.
  - intros Hw. rewrite Hlog in Hw. apply app_inv_head in Hw. apply (f_equal len) in Hw. rewrite len_take in Hw.
    destruct p as [[[]|k]| |].
    + reflexivity.
    + exfalso. destruct Hp as [[_ Hp]|[Hp _]]; lia.
    + exfalso. destruct Hp as [Hp _]. lia.
    + tauto.
Qed.

(* poll_output at the level of the abstract parser state (Parser/AbsStream.v): only a_out moves *)
Lemma sp_same_abs p p' n : sp_same_but_output p p' -> output_buffer p' = drop n (output_buffer p) ->
  abs p' = mkA (a_B (abs p)) (a_space (abs p)) (a_parsed (abs p)) (a_raw (abs p)) (drop n (a_out (abs p)))
               (a_req (abs p)) (a_stream (abs p)) (a_prem (abs p)) (a_pad (abs p)) (a_st (abs p)).
Proof.
  intros Hs Ho. destruct (sp_same_views _ _ Hs) as (V1 & V2 & _).
  destruct Hs as (A1 & A2 & A3 & A4 & A5 & A6 & A7 & A8 & A9 & A10).
  unfold abs. cbn [a_B a_space a_parsed a_raw a_out a_req a_stream a_prem a_pad a_st].
  rewrite V1, V2, Ho, A1, A5, A6, A7, A8, A9, A10. reflexivity.
Qed.

(* ------------------------------------------------------------------------------------------ *)
(* Part 8: the statements are about non-trivial runs                                           *)
(* ------------------------------------------------------------------------------------------ *)

Definition ex_world (ws : list N) (v : bool) : world := mkW [] ws [] [7] 0 1 0 false v [].

(* cuts inside the header (3), a Pending, at the header/payload seam (5 = rest of the header), inside the
   payload, inside the padding: the log is the record, for both kinds of transport *)
Example ex_writer_cuts : forall v,
  match writer_write_all 3 RT_Stdout 1 [1; 2; 3; 4; 5] (ex_world [3; 0; 5; 2; 4; 1] v) with
  | Ok None w' => wlog w' = [7] ++ stream_records RT_Stdout 1 [1; 2; 3; 4; 5] /\ wscript w' = []
  | _ => False
  end.
Proof. intros [|]; vm_compute; split; reflexivity. Qed.

(* a failing transport: the log stops inside the record, nothing follows *)
Example ex_writer_fault :
  match writer_write_all 3 RT_Stdout 1 [1; 2; 3; 4; 5] (ex_world [3; 0; 6; W_ERR; 2] true) with
  | Ok (Some k) w' => k = EK_Transport /\ wlog w' = [7] ++ take 9 (stream_records RT_Stdout 1 [1; 2; 3; 4; 5]) /\ wscript w' = [2]
  | _ => False
  end.
Proof. vm_compute. repeat split; reflexivity. Qed.

(* the same with a ConnectionAborted-kind transport error *)
Example ex_writer_fault_ab :
  match writer_write_all 3 RT_Stdout 1 [1; 2; 3; 4; 5] (ex_world [3; 0; 6; W_ERR_AB; 2] true) with
  | Ok (Some k) w' => k = EK_Aborted /\ wlog w' = [7] ++ take 9 (stream_records RT_Stdout 1 [1; 2; 3; 4; 5]) /\ wscript w' = [2]
  | _ => False
  end.
Proof. vm_compute. repeat split; reflexivity. Qed.

(* shutdown observed while a write is pending inside select *)
Example ex_await_shutdown :
  match await_write_all 9 true [1; 2; 3] (mkW [] [1; 0; 5] [] [] 0 1 2 false true []) with
  | Halt ORet w' => wlog w' = [1] /\ stopped w' = true
  | _ => False
  end.
Proof. vm_compute. split; reflexivity. Qed.

Definition ex_sp : sp := mkSp (zeros 32) 0 0 0 0 [9; 9; 9; 9; 9] 2 (mkReq 1 1 1 []) (Some 5) 0 0 SStream.

(* close on a keep-alive request with three bytes of parser output pending *)
Example ex_close :
  match close_tail 10 (mkR ex_sp true false false) EXIT_Complete 0 (ex_world [2; 0; 1; 9; 3] false) with
  | Ok (inl _) w' =>
      wlog w' = [7] ++ [9; 9; 9] ++ hdr_encode RT_Stdout 1 0 0 ++ hdr_encode RT_Stderr 1 0 0 ++ end_record 0 0 1
  | _ => False
  end.
Proof. vm_compute. reflexivity. Qed.

Example ex_poll_output_wake :
  match poll_output 10 (mkR ex_sp true false false) (ex_world [2; 0; 1] false) with
  | (PWake, r', w') => wlog w' = [7; 9; 9] /\ output_buffer (rsp r') = [9] /\ rlock r' = true
  | _ => False
  end.
Proof. vm_compute. repeat split; reflexivity. Qed.

Print Assumptions t_poll_write_spec.
Print Assumptions t_poll_write_cases.
Print Assumptions await_write_all_post.
Print Assumptions await_write_all_spec.
Print Assumptions await_write_all_fuel.
Print Assumptions await_write_all_no_fault.
Print Assumptions write_slices_post.
Print Assumptions write_slices_spec.
Print Assumptions write_slices_no_fault.
Print Assumptions chunks_concat.
Print Assumptions chunks_sizes.
Print Assumptions chunks_full.
Print Assumptions rec_of_wf.
Print Assumptions stream_records_wf.
Print Assumptions writer_write_all_post.
Print Assumptions writer_write_all_spec.
Print Assumptions writer_write_all_ok.
Print Assumptions writer_write_all_no_fault.
Print Assumptions stream_records_enc.
Print Assumptions stream_records_rcd_ok.
Print Assumptions parse_stream_records.
Print Assumptions parse_stream_records_exact.
Print Assumptions consume_output_buffer.
Print Assumptions poll_output_post.
Print Assumptions poll_output_spec.
Print Assumptions poll_output_ready_iff.
Print Assumptions poll_output_io_fuel.
Print Assumptions sp_same_abs.
Print Assumptions record_boundary_spec.
Print Assumptions close_finish_spec.
Print Assumptions close_tail_log.
Print Assumptions close_tail_log_shape.
Print Assumptions do_close_cases.
