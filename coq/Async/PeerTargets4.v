(* Async/PeerTargets4.v — C07 over a WHOLE connection of the one-outstanding client: the requests handed to the
   handler are exactly the requests the client sent, in order, each once.  Statement only; proof goes to
   Async/PeerProofs4.v. *)
From FV Require Import Base.Bytes Gen.Generated Codec.Varint Codec.NV Codec.Header Codec.Bodies Codec.Vars Parser.ReqModel Parser.ReqWire
  Parser.ReqTargets Parser.StreamModel Parser.StreamFinal Parser.EnvCanon Async.Conn Async.ConnWrites Async.ConnTotal Async.ConnReads
  Async.PeerTargets Async.PeerTargets2 Async.PeerTargets3.

(* Token::run with a ghost trace: the same loop as Conn.run_loop, additionally recording the request (id, role, flags,
   environment) every handler invocation is started with *)
Fixpoint run_loop_tr (norm : bytes -> bytes) (maxc : N) (fuel : nat) (p : parser) (scripts : list (list N)) (served : nat)
                     (w : world) (acc : list req) : outcome * world * list req :=
  match fuel with
  | O => (OFuel, w, acc)
  | S f =>
    if stopped w then (ORet, w, acc)
    else
      match parse_request norm maxc (io_fuel w 0) p [] w with
      | Halt o w' => (o, w', acc)
      | Ok (inr _) w' => (ORet, w', acc)
      | Ok (inl s0) w' =>
        let rq := sreq s0 in
        let r0 := mkR s0 (len (role_input_streams (r_role rq)) <=? 1) false false in
        let env := canon_env (r_env rq) in
        let w1 := fold_left (fun w p => w_ev (w_ev w (fst p)) (snd p)) env
                    (w_ev (w_ev w' [100; epoch w']) [r_role rq; r_flags rq; len env; stream_code (stream s0);
                                            if rwriteable r0 then 1 else 0]) in
        let script := nth served scripts (last scripts []) in
        let acc' := acc ++ [rq] in
        match run_handler maxc (length script + 2) script r0 w1 with
        | Halt o w2 => (o, w2, acc')
        | Ok (st, r1) w2 =>
          let status := match st with
                        | inl dc => Some dc
                        | inr k => if (k =? EK_Aborted) && raborted r1 then Some (EXIT_Complete, EXIT_ABORT_CODE) else None
                        end in
          match status with
          | None => (ORet, w2, acc')
          | Some (d, c) =>
            match do_close maxc r1 d c w2 with
            | Halt o w3 => (o, w3, acc')
            | Ok (inl rp) w3 => run_loop_tr norm maxc f rp scripts (S served) w3 acc'
            | Ok (inr _) w3 => (ORet, w3, acc')
            end
          end
        end
      end
  end.

(* the trace is a pure addition: erasing it gives Conn.run_loop *)
Definition run_loop_tr_erase_stmt : Prop := forall norm maxc fuel p scripts served w acc,
  fst (run_loop_tr norm maxc fuel p scripts served w acc) = run_loop norm maxc fuel p scripts served w.

(* one request of the client together with the name-value pairs its Params stream encodes, all within the documented
   buffer bound (C01's hypotheses) *)
Definition creq_fits (B : N) (c : creq) (pairs : list (bytes * bytes)) : Prop :=
  Forall pair_ok pairs /\ nv_write_all pairs = Some (preamble_payload (c_pre c)) /\
  Forall (pair_fits (aligned_bufsize B)) pairs /\ preamble_fits (aligned_bufsize B) (c_pre c) /\
  Forall (gv_fits (aligned_bufsize B)) (c_srs c).     (* unread stream-section records become junk before the next request *)

Definition sent_request (norm : bytes -> bytes) (c : creq) (pairs : list (bytes * bytes)) : req :=
  mkReq (w_id (c_pre c)) (w_role (c_pre c)) (w_flags (c_pre c)) (env_log norm pairs).

(* MAIN: for the one-outstanding client (PeerTargets3.client_segs) whose requests respect the documented buffer bound, on
   a fault-free transport, for every buffer size, handler scripts and read/write readiness pattern: the requests the
   handler is started with are EXACTLY the requests the client sent — same id, role, flags and environment — in the same
   order, each once, none invented: the trace is a prefix of the list of sent requests (the connection may end early:
   a request without KeepConn, a failing handler, a shutdown). *)
Definition requests_in_order_stmt : Prop :=
  forall (norm : bytes -> bytes) (maxc : N) scripts B cs pairss w0,
  B < SIZE_LIMIT - 8 -> scripts_ok true scripts ->
  segs w0 = enc_client cs -> client_segs 0 0 cs -> wlog w0 = [] ->
  no_fault (wscript w0) ->
  length pairss = length cs ->
  (forall i c ps, nth_error (map snd cs) i = Some c -> nth_error pairss i = Some ps -> creq_fits B c ps) ->
  len (flat_map (fun s : N * N * bytes => snd s) (segs w0)) < SIZE_LIMIT ->
  let tr := snd (run_loop_tr norm maxc (nb w0 + 4) (new_parser B) scripts 0 w0 []) in
  exists m, tr = firstn m (map (fun cp => sent_request norm (fst cp) (snd cp)) (combine (map snd cs) pairss)).
