(* Async/PeerTargets3.v — C08 for the ONE-OUTSTANDING client of C07: it sends one complete request per segment,
   releases request j+1 only after it has counted j EndRequest records, and may in addition wait for the
   management replies owed for what it sent before.  Statement only; proof goes to Async/PeerProofs3.v. *)
From FV Require Import Base.Bytes Gen.Generated Codec.Header Parser.ReqModel Parser.ReqWire Parser.ReqTargets
  Parser.StreamModel Parser.StreamFinal Async.Conn Async.ConnWrites Async.ConnTotal Async.ConnReads
  Async.PeerTargets Async.PeerTargets2.

(* one request as this client sends it: a well-formed preamble in the sense of C01 (junk allowed), then stream
   records — any complete records, management and unknown-type records included — in which every input stream
   of the role is terminated; no BeginRequest other than the request's own and no AbortRequest anywhere *)
Record creq := mkCReq { c_pre : preamble; c_srs : list rcd }.

Definition no_begin_abort (r : rcd) : Prop := rt r <> RT_BeginRequest /\ rt r <> RT_AbortRequest.

Definition creq_rcds (c : creq) : list rcd := preamble_rcds (c_pre c) ++ c_srs c.

Definition creq_ok (c : creq) : Prop :=
  preamble_ok (c_pre c) /\
  Forall no_begin_abort (w_idle (c_pre c)) /\
  Forall (fun p => Forall no_begin_abort (pjunk p)) (w_pieces (c_pre c)) /\
  Forall no_begin_abort (w_endjunk (c_pre c)) /\
  Forall rcd_ok (c_srs c) /\ Forall no_begin_abort (c_srs c) /\
  Forall (fun t => ended_rcds (w_role (c_pre c)) (w_id (c_pre c)) (Some t) (c_srs c) = true)
         (role_input_streams (w_role (c_pre c))).

(* segment j+1 = request j+1, released after exactly j EndRequest records (one per earlier request) and at most the
   management replies owed for the earlier segments *)
Fixpoint client_segs (done sofar : N) (cs : list (N * N * creq)) : Prop :=
  match cs with
  | [] => True
  | (ge, gm, c) :: t => ge = done /\ gm <= sofar /\ creq_ok c /\
                        client_segs (done + 1) (sofar + owed_count (creq_rcds c)) t
  end.

Definition enc_client (cs : list (N * N * creq)) : list (N * N * bytes) :=
  map (fun s => (fst (fst s), snd (fst s), enc_rcds (creq_rcds (snd s)))) cs.

(* MAIN: on a fault-free transport, for every buffer size, every such client, every list of well-formed handler
   scripts that await the reads they start (no op 11, see PeerTargets2.v) and every read/write readiness pattern, the connection task RETURNS: it never ends up waiting for a
   client that waits for it — whether the client waits for an EndRequest or for a management reply. *)
Definition client_never_deadlocks_stmt : Prop :=
  forall (norm : bytes -> bytes) (maxc : N) scripts B cs w0,
  B < SIZE_LIMIT - 8 -> scripts_ok true scripts -> Forall no_abandoned_read scripts ->
  segs w0 = enc_client cs -> client_segs 0 0 cs -> wlog w0 = [] ->
  no_fault (wscript w0) ->
  fst (run_loop norm maxc (nb w0 + 4) (new_parser B) scripts 0 w0) = ORet.
