(* Async/LoopProofs.v — proofs of the statements of Async/LoopTargets.v: Token::parse_request
   (Async/Conn.v) is a read schedule of the request parser whose chunks are the transport reads, so the
   request-parser theorems (C01: F_preamble_exact) apply to what a handler is given (C07) and to
   what happens when the preamble does not arrive completely (C12). *)
From Coq Require Import ZArith.
From FV Require Import Base.Bytes Base.BytesLemmas Gen.Generated Codec.Varint Codec.NV Codec.Header Codec.Bodies Codec.Vars
  Parser.ReqModel Parser.ReqWire Parser.ReqTargets Parser.ReqDrive Parser.ReqRecords Parser.ReqFinal
  Parser.StreamModel Parser.StreamFinal
  Async.Conn Async.ConnWrites Async.ConnTotal Async.ConnReads Async.LoopTargets.
From Coq Require Import ZifyBool ZifyNat ZifyN.
Ltac Zify.zify_post_hook ::= Z.div_mod_to_equations.

Section LP.
Variable norm : bytes -> bytes.
Variable maxc : N.

(* ------------------------------------------------------------------------------------------ *)
(* Part 0: run_sched — one step, fuel independence                                             *)
(* ------------------------------------------------------------------------------------------ *)

Lemma length_drop_nat (n : N) (l : bytes) : length (drop n l) = (length l - N.to_nat n)%nat.
Proof. unfold drop. apply skipn_length. Qed.

Lemma rs_cons f p wire c l out :
  run_sched norm maxc (S f) p wire (c :: l) out =
    match parse norm maxc p (take (N.min c (N.min (input_space p) (len wire))) wire) with
    | PPanic _ => SPanic
    | POk p' done o =>
      if done then SOk p' true (drop (N.min c (N.min (input_space p) (len wire))) wire) (out ++ o)
      else run_sched norm maxc f p' (drop (N.min c (N.min (input_space p) (len wire))) wire) l (out ++ o)
    end.
Proof. reflexivity. Qed.

Lemma rs_nil f p wire out :
  run_sched norm maxc (S f) p wire [] out =
    if N.min (input_space p) (len wire) =? 0 then SOk p false wire out
    else
      match parse norm maxc p (take (N.min (input_space p) (len wire)) wire) with
      | PPanic _ => SPanic
      | POk p' done o =>
        if done then SOk p' true (drop (N.min (input_space p) (len wire)) wire) (out ++ o)
        else run_sched norm maxc f p' (drop (N.min (input_space p) (len wire)) wire) [] (out ++ o)
      end.
Proof.
  cbn [run_sched tl]. destruct (N.min (input_space p) (len wire)); reflexivity.
Qed.

(* any two sufficient amounts of fuel give the same answer: every recursive call either takes an
   element off the schedule or a non-empty chunk off the wire *)
Lemma run_sched_fuel : forall f1 f2 p wire sched out,
  (length wire + length sched < f1)%nat -> (length wire + length sched < f2)%nat ->
  run_sched norm maxc f1 p wire sched out = run_sched norm maxc f2 p wire sched out.
Proof.
  induction f1 as [|f1 IH]; intros f2 p wire sched out H1 H2; [lia|].
  destruct f2 as [|f2]; [lia|].
  destruct sched as [|c l].
  - rewrite !rs_nil. set (n := N.min (input_space p) (len wire)).
    destruct (N.eqb_spec n 0) as [Hz|Hz]; [reflexivity|].
    destruct (parse norm maxc p (take n wire)) as [p' d o|k]; [|reflexivity].
    destruct d; [reflexivity|].
    assert (Hl : (length (drop n wire) < length wire)%nat).
    { rewrite length_drop_nat. unfold n, len in *. lia. }
    apply IH; cbn [length] in *; lia.
  - rewrite !rs_cons. set (n := N.min c (N.min (input_space p) (len wire))).
    destruct (parse norm maxc p (take n wire)) as [p' d o|k]; [|reflexivity].
    destruct d; [reflexivity|].
    assert (Hl : (length (drop n wire) <= length wire)%nat) by (rewrite length_drop_nat; lia).
    apply IH; cbn [length] in *; lia.
Qed.

(* a head chunk that is exactly the next [len new] bytes of the wire and fits the buffer: the call is
   [parse p new] *)
Lemma run_sched_head rf p new rest l out0 :
  len new <= input_space p ->
  run_sched norm maxc (S rf) p (new ++ rest) (len new :: l) out0 =
    match parse norm maxc p new with
    | PPanic _ => SPanic
    | POk p' d o => if d then SOk p' true rest (out0 ++ o) else run_sched norm maxc rf p' rest l (out0 ++ o)
    end.
Proof.
  intros Hs. rewrite rs_cons.
  assert (Hn : N.min (len new) (N.min (input_space p) (len (new ++ rest))) = len new)
    by (rewrite len_app; lia).
  rewrite Hn, take_len_app, drop_len_app. reflexivity.
Qed.

Lemma run_sched_head0 rf p wire l out0 :
  run_sched norm maxc (S rf) p wire (0 :: l) out0 =
    match parse norm maxc p [] with
    | PPanic _ => SPanic
    | POk p' d o => if d then SOk p' true wire (out0 ++ o) else run_sched norm maxc rf p' wire l (out0 ++ o)
    end.
Proof.
  apply (run_sched_head rf p [] wire l out0). rewrite len_nil. lia.
Qed.

(* ------------------------------------------------------------------------------------------ *)
(* Part 1: parse_request is a read schedule                                                    *)
(* ------------------------------------------------------------------------------------------ *)

(* the form proved by induction: any sufficient fuel, any accumulated output, no size or byte-range
   side conditions (they are only needed to carry parser_ok along) *)
Lemma parse_request_sched_gen : forall fuel p new w s0 w',
  len new <= input_space p ->
  parse_request norm maxc fuel p new w = Ok (inl s0) w' ->
  exists taken sched p' out,
    remaining w = taken ++ remaining w' /\
    (forall future rf out0, (length sched < rf)%nat ->
       run_sched norm maxc rf p (new ++ taken ++ future) (len new :: sched) out0
         = SOk p' true future (out0 ++ out)) /\
    into_stream_parser p' = inl s0 /\ wlog w' = wlog w ++ out /\
    (parser_ok p -> bytes_ok new -> bytes_ok (remaining w) -> parser_ok p').
Proof.
  induction fuel as [|f IH]; intros p new w s0 w' Hsp E; [discriminate E|].
  rewrite parse_request_iter in E.
  destruct (parse norm maxc p new) as [p1 done o|k] eqn:EP; [|discriminate E].
  assert (HOK : parser_ok p -> bytes_ok new -> parser_ok p1).
  { intros Hp Hn. destruct (F_parse_total norm maxc p new Hp Hn Hsp) as (p2 & d2 & o2 & E2 & Hp2 & _).
    rewrite EP in E2. injection E2 as <- _ _. exact Hp2. }
  pose proof (await_write_all_spec (io_fuel w (len o)) true o w) as HW.
  destruct (await_write_all (io_fuel w (len o)) true o w) as [[k|] w1|oc w1]; [discriminate E| |discriminate E].
  pose proof (io_rel_wlog _ _ _ HW) as L1.
  assert (R1 : remaining w1 = remaining w) by (apply same_but_io_remaining; apply HW).
  destruct done.
  - (* the call reports done: hand over *)
    destruct (into_stream_parser p1) as [s|e] eqn:EI; [|discriminate E]. injection E as <- <-.
    exists [], [], p1, o. split; [rewrite R1; reflexivity|]. split.
    { intros future rf out0 Hrf. destruct rf as [|rf]; [cbn [length] in Hrf; lia|].
      cbn [app]. rewrite (run_sched_head rf p new future [] out0 Hsp), EP. reflexivity. }
    split; [exact EI|]. split; [exact L1|]. intros Hp Hn _. exact (HOK Hp Hn).
  - (* read, go on *)
    pose proof (await_read_rem (io_fuel w1 0) true (input_space p1) w1) as AR.
    destruct (await_read (io_fuel w1 0) true (input_space p1) w1) as [[b|k] w2|oc w2];
      [|discriminate E|discriminate E].
    destruct b as [|x b']; [discriminate E|]. set (b := x :: b') in *.
    destruct AR as (A1 & _ & A3 & A4 & _).
    destruct (IH p1 b w2 s0 w' A4 E) as (taken & sched & p2 & out & T1 & T2 & T3 & T4 & T5).
    exists (b ++ taken), (len b :: sched), p2, (o ++ out).
    split; [rewrite <- R1, A3, T1, app_assoc; reflexivity|]. split.
    { intros future rf out0 Hrf. destruct rf as [|rf]; [lia|]. cbn [length] in Hrf.
      rewrite (run_sched_head rf p new ((b ++ taken) ++ future) (len b :: sched) out0 Hsp), EP.
      rewrite <- (app_assoc b taken future), (T2 future rf (out0 ++ o) ltac:(lia)), app_assoc. reflexivity. }
    split; [exact T3|]. split; [rewrite T4, A1, L1, app_assoc; reflexivity|].
    intros Hp Hn Hr. rewrite <- R1, A3 in Hr. apply bytes_ok_app in Hr as [Hb Hr2].
    apply T5; [exact (HOK Hp Hn)|exact Hb|exact Hr2].
Qed.

Lemma parse_request_sched_run p new taken sched p' out :
  (forall future rf out0, (length sched < rf)%nat ->
     run_sched norm maxc rf p (new ++ taken ++ future) (len new :: sched) out0
       = SOk p' true future (out0 ++ out)) ->
  forall future, run_schedule norm maxc p (new ++ taken ++ future) (len new :: sched) = SOk p' true future out.
Proof.
  intros H future. unfold run_schedule. rewrite H; [reflexivity|].
  unfold sched_fuel. cbn [length]. lia.
Qed.

Theorem parse_request_sched_proof : parse_request_sched_stmt norm maxc.
Proof.
  intros fuel p new w s0 w' Hp Hn Hsp Hw E.
  destruct (parse_request_sched_gen fuel p new w s0 w' Hsp E) as (taken & sched & p' & out & T1 & T2 & T3 & T4 & _).
  exists taken, sched, p', out. split; [exact T1|]. split; [|split; [exact T3|exact T4]].
  intros future _ _. apply parse_request_sched_run. exact T2.
Qed.

(* ------------------------------------------------------------------------------------------ *)
(* Part 2: leftover = fed first                                                                 *)
(* ------------------------------------------------------------------------------------------ *)

(* Parser::parse looks at held ++ new only (and at the capacity) *)
Lemma parse_leftover c L s new : len L <= c ->
  parse norm maxc (mkParser c L s) new = parse norm maxc (mkParser c [] s) (L ++ new).
Proof.
  intros HL. unfold parse. cbn [cap held st app].
  assert (HT : (c - len L <? len new) = (c - len (@nil N) <? len (L ++ new))).
  { rewrite len_app, len_nil. destruct (N.ltb_spec (c - len L) (len new)), (N.ltb_spec (c - 0) (len L + len new));
      try reflexivity; lia. }
  rewrite HT. reflexivity.
Qed.

Theorem leftover_as_fed_proof : leftover_as_fed_stmt norm maxc.
Proof.
  intros B L wire sched p d u o _ _ HL _ _ E.
  unfold run_schedule in *.
  set (f1 := (length (L ++ wire) + length sched + 4)%nat).
  set (f2 := (length wire + length sched + 4)%nat).
  rewrite (run_sched_fuel _ (S f1)) in E by (unfold sched_fuel, f1; cbn [length]; lia).
  rewrite (run_sched_fuel _ (S f2)) by (unfold sched_fuel, f2; cbn [length]; lia).
  unfold new_parser in E.
  rewrite run_sched_head in E by (unfold input_space; cbn [cap held]; rewrite len_nil; lia).
  rewrite run_sched_head0.
  rewrite (parse_leftover (aligned_bufsize B) L Header [] HL), app_nil_r.
  destruct (parse norm maxc (mkParser (aligned_bufsize B) [] Header) L) as [p1 d1 o1|k]; [|discriminate E].
  destruct d1; [exact E|].
  rewrite <- E. apply run_sched_fuel; unfold f1, f2; rewrite ?app_length; lia.
Qed.

(* ------------------------------------------------------------------------------------------ *)
(* Part 3: what the handler sees (C07) / no handler for a partial preamble (C12)               *)
(* ------------------------------------------------------------------------------------------ *)

Lemma reuse_parser_ok B L : B < SIZE_LIMIT - 8 -> bytes_ok L -> len L <= aligned_bufsize B ->
  parser_ok (mkParser (aligned_bufsize B) L Header).
Proof.
  intros HB HL Hl. pose proof (aligned_bufsize_range B HB) as Hr.
  split; [exact I|]. split; [exact I|]. cbn [held cap]. split; [exact HL|]. split; [exact Hl|exact Hr].
Qed.

(* the common part: parse_request handing over, as a schedule of the FRESH parser over
   L ++ taken ++ future for any future *)
Lemma handover_fresh_schedule fuel B L w s0 w' :
  len L <= aligned_bufsize B ->
  parse_request norm maxc fuel (mkParser (aligned_bufsize B) L Header) [] w = Ok (inl s0) w' ->
  exists taken sched p' out,
    remaining w = taken ++ remaining w' /\
    (forall future, run_schedule norm maxc (new_parser B) (L ++ taken ++ future) (len L :: sched)
                      = SOk p' true future out) /\
    into_stream_parser p' = inl s0 /\ wlog w' = wlog w ++ out /\
    (B < SIZE_LIMIT - 8 -> bytes_ok L -> bytes_ok (remaining w) -> parser_ok p').
Proof.
  intros HL E.
  destruct (parse_request_sched_gen fuel _ [] w s0 w' ltac:(rewrite len_nil; lia) E)
    as (taken & sched & p' & out & T1 & T2 & T3 & T4 & T5).
  exists taken, sched, p', out. split; [exact T1|]. split; [|split; [exact T3|split; [exact T4|]]].
  - intros future. unfold run_schedule, new_parser.
    set (f1 := (length (L ++ taken ++ future) + length sched + 4)%nat).
    rewrite (run_sched_fuel _ (S f1)) by (unfold sched_fuel, f1; cbn [length]; lia).
    rewrite run_sched_head by (unfold input_space; cbn [cap held]; rewrite len_nil; lia).
    pose proof (T2 future (S f1) [] ltac:(unfold f1; lia)) as R.
    cbn [app] in R. change (len (@nil N)) with 0 in R. rewrite run_sched_head0 in R.
    rewrite (parse_leftover (aligned_bufsize B) L Header [] HL), app_nil_r in R.
    destruct (parse norm maxc (mkParser (aligned_bufsize B) [] Header) L) as [p1 d1 o1|k]; [|discriminate R].
    destruct d1; [exact R|].
    rewrite <- R. apply run_sched_fuel; unfold f1; rewrite ?app_length; lia.
  - intros HB HbL Hr. apply T5; [apply reuse_parser_ok; assumption|constructor|exact Hr].
Qed.

Theorem handler_sees_request_proof : handler_sees_request_stmt norm maxc.
Proof.
  intros fuel B L w pw pairs trailing s0 w' HB HbL HL Hw Hpw Hpairs Hnv Hfits Hpf Htr Hsz Hwire E.
  destruct (handover_fresh_schedule fuel B L w s0 w' HL E) as (taken & sched & p' & out & T1 & T2 & T3 & T4 & T5).
  specialize (T2 (remaining w')).
  assert (EW : L ++ taken ++ remaining w' = enc_rcds (preamble_rcds pw) ++ trailing)
    by (rewrite <- T1; exact Hwire).
  rewrite EW in T2.
  destruct (F_preamble_exact norm maxc B pw pairs trailing (len L :: sched) HB Hpw Hpairs Hnv Hfits Hpf Htr Hsz)
    as (p & unfed & R & Hst & Hheld).
  rewrite T2 in R. injection R as -> -> ->.
  assert (Hok : parser_ok p) by (apply T5; [exact HB|exact HbL|apply world_ok_remaining; exact Hw]).
  destruct (into_stream_parser_inv p _ Hok Hst)
    as (sp0 & EI & _ & I1 & I2 & _ & I3 & I4 & I5 & _).
  rewrite T3 in EI. injection EI as <-.
  split; [exact I1|]. split; [exact T4|]. split; [rewrite I5; exact Hheld|].
  split; [exact I2|]. split; [exact I4|exact I3].
Qed.

Theorem no_handler_for_partial_proof : no_handler_for_partial_stmt norm maxc.
Proof.
  intros fuel B L w pw pairs missing HB HbL HL Hw Hpw Hpairs Hnv Hfits Hpf Hsz Hmiss Hwire s0 w' E.
  destruct (handover_fresh_schedule fuel B L w s0 w' HL E) as (taken & sched & p' & out & T1 & T2 & _).
  specialize (T2 (remaining w' ++ missing)).
  assert (EW : L ++ taken ++ remaining w' ++ missing = enc_rcds (preamble_rcds pw) ++ []).
  { rewrite app_nil_r, <- Hwire, T1, <- !app_assoc. reflexivity. }
  rewrite EW in T2.
  destruct (F_preamble_exact norm maxc B pw pairs [] (len L :: sched) HB Hpw Hpairs Hnv Hfits Hpf
              ltac:(constructor) ltac:(rewrite app_nil_r; exact Hsz))
    as (p & unfed & R & _ & Hheld).
  rewrite T2 in R. injection R as _ <- _.
  apply app_eq_nil in Hheld as [_ Hu]. apply app_eq_nil in Hu as [_ Hm]. exact (Hmiss Hm).
Qed.

End LP.

Theorem parse_request_sched : forall norm maxc, parse_request_sched_stmt norm maxc.
Proof. exact parse_request_sched_proof. Qed.
Print Assumptions parse_request_sched.

Theorem leftover_as_fed : forall norm maxc, leftover_as_fed_stmt norm maxc.
Proof. exact leftover_as_fed_proof. Qed.
Print Assumptions leftover_as_fed.

Theorem handler_sees_request : forall norm maxc, handler_sees_request_stmt norm maxc.
Proof. exact handler_sees_request_proof. Qed.
Print Assumptions handler_sees_request.

Theorem no_handler_for_partial : forall norm maxc, no_handler_for_partial_stmt norm maxc.
Proof. exact no_handler_for_partial_proof. Qed.
Print Assumptions no_handler_for_partial.

(* ------------------------------------------------------------------------------------------ *)
(* Non-vacuity: the hypotheses of handler_sees_request hold for a concrete connection           *)
(* ------------------------------------------------------------------------------------------ *)
(* A Responder request (id 9, KeepConn) whose Params record is preceded by a GetValues query, followed
   by an empty Stdin record; B = 160.  The first 5 bytes of the wire are the leftover of the previous
   request, the rest is still with the client in two segments; the transport answers with a short read,
   a spurious wake-up, a 50-byte read, then full reads; it accepts the reply after a wake-up and a
   1-byte write. *)
Definition lp_pairs : list (bytes * bytes) := [([65; 66], [7; 8]); ([66], [])].
Definition lp_payload : bytes := match nv_write_all lp_pairs with Some e => e | None => [] end.
Definition lp_gv : rcd := mkRcd RT_GetValues 0 [14; 0; 70; 67; 71; 73; 95; 77; 65; 88; 95; 67; 79; 78; 78; 83] [0; 0].
Definition lp_pw : preamble := mkPreamble [] 9 ROLE_Responder 1 [] [mkPiece [lp_gv] lp_payload [0]] [] [0].
Definition lp_trailing : bytes := [1; 5; 0; 9; 0; 0; 0; 0].
Definition lp_wire : bytes := enc_rcds (preamble_rcds lp_pw) ++ lp_trailing.
Definition lp_L : bytes := take 5 lp_wire.
Definition lp_w : world :=
  mkW [3; 0; 50] [0; 1] [(0, 0, take 20 (drop 5 lp_wire)); (0, 0, drop 25 lp_wire)] [] 0 1 0 false false [].
Definition lp_run : res (sp + N) :=
  parse_request (fun b => b) 5 (io_fuel lp_w 0) (mkParser (aligned_bufsize 160) lp_L Header) [] lp_w.

Ltac lp_dec :=
  first [ apply bytes_okb_ok; vm_compute; reflexivity
        | vm_compute; reflexivity
        | vm_compute; discriminate ].

Lemma lp_gv_fits : gv_fits (aligned_bufsize 160) lp_gv.
Proof.
  intros _ _ k. apply N.ltb_lt.
  destruct (N.lt_ge_cases k (N.of_nat 17)) as [Hk|Hk].
  - revert k Hk.
    apply (sweep_lt (fun k => len (snd (nv_run (take k (rbody lp_gv)))) <? aligned_bufsize 160) 17).
    vm_compute. reflexivity.
  - rewrite take_all by (change (len (rbody lp_gv)) with 16; lia). vm_compute. reflexivity.
Qed.

Example handler_sees_request_nonvacuous :
  160 < SIZE_LIMIT - 8 /\ bytes_ok lp_L /\ len lp_L <= aligned_bufsize 160 /\ world_ok lp_w /\
  preamble_ok lp_pw /\ Forall pair_ok lp_pairs /\ nv_write_all lp_pairs = Some (preamble_payload lp_pw) /\
  Forall (pair_fits (aligned_bufsize 160)) lp_pairs /\ preamble_fits (aligned_bufsize 160) lp_pw /\
  bytes_ok lp_trailing /\ len (enc_rcds (preamble_rcds lp_pw) ++ lp_trailing) < SIZE_LIMIT /\
  lp_L ++ remaining lp_w = enc_rcds (preamble_rcds lp_pw) ++ lp_trailing /\
  exists s0 w', lp_run = Ok (inl s0) w'.
Proof.
  split; [lp_dec|]. split; [lp_dec|]. split; [lp_dec|].
  split. { constructor; [lp_dec|]. constructor; [lp_dec|constructor]. }
  split.
  { unfold preamble_ok, lp_pw. cbn [w_idle w_id w_role w_flags w_beginpad w_pieces w_endjunk w_endpad].
    split; [constructor|]. split; [split; lp_dec|]. split; [lp_dec|]. split; [lp_dec|]. split; [lp_dec|].
    split; [lp_dec|]. split.
    { constructor; [|constructor]. unfold piece_ok. cbn [pjunk pbody ppad].
      split.
      { constructor; [|constructor]. split.
        - unfold rcd_ok. repeat split; lp_dec.
        - intros [H _]. vm_compute in H. discriminate H. }
      split; [split; lp_dec|]. split; [lp_dec|]. split; lp_dec. }
    split; [constructor|]. split; lp_dec. }
  split. { constructor; [split; lp_dec|]. constructor; [split; lp_dec|constructor]. }
  split; [lp_dec|].
  split. { constructor; [lp_dec|]. constructor; [lp_dec|constructor]. }
  split.
  { unfold preamble_fits, lp_pw. cbn [w_idle w_pieces w_endjunk]. split; [constructor|]. split; [|constructor].
    constructor; [|constructor]. cbn [pjunk]. constructor; [exact lp_gv_fits|constructor]. }
  split; [lp_dec|]. split; [lp_dec|]. split; [lp_dec|].
  assert (H : match lp_run with Ok (inl _) _ => True | _ => False end) by (vm_compute; exact I).
  destruct lp_run as [[s0|k] w'|o w']; try contradiction. exists s0, w'. reflexivity.
Qed.

(* ... so the theorem applies to it: the handler is given exactly request 9 with the two variables, the
   GetValues reply has been written, and the stream parser starts with the empty Stdin record *)
Example handler_sees_request_instance : forall s0 w', lp_run = Ok (inl s0) w' ->
  sreq s0 = mkReq 9 ROLE_Responder 1 lp_pairs /\
  wlog w' = preamble_replies 5 lp_pw /\
  raw_bytes s0 ++ remaining w' = lp_trailing.
Proof.
  intros s0 w' E.
  destruct handler_sees_request_nonvacuous as (H1 & H2 & H3 & H4 & H5 & H6 & H7 & H8 & H9 & H10 & H11 & H12 & _).
  destruct (handler_sees_request (fun b => b) 5 (io_fuel lp_w 0) 160 lp_L lp_w lp_pw lp_pairs lp_trailing s0 w'
              H1 H2 H3 H4 H5 H6 H7 H8 H9 H10 H11 H12 E) as (C1 & C2 & C3 & _).
  split; [rewrite C1; reflexivity|]. split; [exact C2|exact C3].
Qed.
Print Assumptions handler_sees_request_nonvacuous.
Print Assumptions handler_sees_request_instance.
