(* Async/FrameTargets.v — statement: C10 at the level of a WHOLE connection ("everything that reaches the transport is a sequence of
   complete, well-formed records; records of different writers never interleave; management replies obey the same exclusion"):
   on a transport without write faults (any accept sizes, any Pending pattern), for EVERY client, buffer size and handler scripts -
   reads polled once and abandoned included (known finding F6: such a handler may end up waiting for the output lock, it never
   writes into the unfinished reply) - the transport log of the connection is at every end of the run a PREFIX of a sequence of
   complete records, and a sequence of complete records when the connection task returns (no shutdown requested, no abandoned reads).
   Statement only; proof in Async/FrameProofs.v. *)
From FV Require Import Base.Bytes Gen.Generated Codec.Header Parser.ReqModel Parser.ReqWire Parser.ReqTargets Parser.StreamModel
  Async.Conn Async.ConnWrites Async.ConnTotal Async.ConnReads Async.ReadsWTargets.

(* a byte string that decodes completely into records (ConnWrites.parse_records: version 1, known type, lengths as announced) *)
Definition whole (L : bytes) : Prop := snd (parse_records (length L) L) = [].

(* ... or is the beginning of one *)
Definition framed (L : bytes) : Prop := exists M, whole (L ++ M).

(* the handler writes through StreamWriters of the stream types the API offers (RecordType::{Stdout, Stderr}: known types) *)
Inductive writes_known : list N -> Prop :=
| WK_nil : writes_known []
| WK_read n rest : writes_known rest -> writes_known (1 :: n :: rest)
| WK_all rest : writes_known rest -> writes_known (2 :: rest)
| WK_fill k rest : writes_known rest -> writes_known (3 :: k :: rest)
| WK_set s rest : writes_known rest -> writes_known (4 :: s :: rest)
| WK_wr rest : writes_known rest -> writes_known (5 :: rest)
| WK_write s n rest : known_type s = true -> writes_known (drop n rest) -> writes_known (6 :: s :: n :: rest)
| WK_flush s rest : known_type s = true -> writes_known rest -> writes_known (7 :: s :: rest)
| WK_exit d c rest : writes_known (8 :: d :: c :: rest)
| WK_fail k rest : writes_known (9 :: k :: rest)
| WK_readq n rest : writes_known rest -> writes_known (10 :: n :: rest)
| WK_poll n rest : writes_known rest -> writes_known (11 :: n :: rest).

Definition connection_framing_stmt : Prop :=
  forall (norm : bytes -> bytes) (maxc : N) fuel B scripts w0,
  B < SIZE_LIMIT - 8 -> world_ok w0 -> wlog w0 = [] -> no_fault (wscript w0) ->
  scripts_ok false scripts -> Forall writes_known scripts ->
  let '(o, w') := run_loop norm maxc fuel (new_parser B) scripts 0 w0 in
  framed (wlog w') /\
  (o = ORet -> stop_at w0 = 0 -> stopped w0 = false -> Forall no_abandoned_read scripts -> whole (wlog w')).
