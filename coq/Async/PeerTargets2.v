(* Async/PeerTargets2.v — the "Hence" part of C08 for a WHOLE connection: a peer that sends whole records and
   withholds further records until it has received the management replies owed for what it already sent can
   never be in a wait-for cycle with the server.  Statement only; proof goes to Async/PeerProofs2.v. *)
From FV Require Import Base.Bytes Gen.Generated Codec.Header Parser.ReqModel Parser.ReqWire Parser.ReqTargets
  Parser.StreamModel Async.Conn Async.ConnWrites Async.ConnTotal Async.ConnReads Async.PeerTargets.

(* a record for which C04 says a management reply is owed whatever the phase: an unknown record type, or a
   GetValues management record with a non-empty body *)
Definition owes_mgmt (r : rcd) : bool :=
  negb (known_type (rt r)) || ((rt r =? RT_GetValues) && (rid r =? 0) && negb (len (rbody r) =? 0)).

Definition owed_count (rs : list rcd) : N := len (filter owes_mgmt rs).

(* the client: segment i is the encoding of whole records rs_i; it is released once the client has counted
   gm_i management replies, where gm_i asks for no more than the replies owed for the records of the earlier
   segments; it never waits for EndRequest records (ge_i = 0: pipelining is allowed) *)
Fixpoint peer_segs (sofar : N) (sg : list (N * N * list rcd)) : Prop :=
  match sg with
  | [] => True
  | (ge, gm, rs) :: t => ge = 0 /\ gm <= sofar /\ Forall rcd_ok rs /\ peer_segs (sofar + owed_count rs) t
  end.

Definition enc_segs (sg : list (N * N * list rcd)) : list (N * N * bytes) :=
  map (fun s => (fst (fst s), snd (fst s), enc_rcds (snd s))) sg.

Definition no_read_fault (rs : list N) : Prop := Forall (fun k => k <> R_ERR) rs.

(* handlers that never ABANDON a pending read: [no_abandoned_read], defined in Async/ConnTotal.v (every opcode of [script_ok]
   except 11, a read future polled once and dropped).  The hypothesis is needed (ex2p_abandoned_read_deadlocks in
   Async/PeerProofs2.v, known finding F6): Request::poll_output may return Pending after it has written only PART of a
   management reply, with Request.lock held; a handler that drops the read future at that point and then writes through a
   StreamWriter waits for that lock for ever, while the client waits for the rest of the reply. *)

(* MAIN: on a fault-free transport, for every buffer size, every such client, every list of well-formed handler
   scripts that await the reads they start (all handler behaviours of the family but the abandoned poll of op 11:
   reading, buffered reading, stream switching, writing, early return, own exit status, failing) and every
   read/write readiness pattern, the connection task ends by
   RETURNING: it never ends up waiting for a client that waits for it. *)
Definition peer_never_deadlocks_stmt : Prop :=
  forall (norm : bytes -> bytes) (maxc : N) scripts B sg w0,
  B < SIZE_LIMIT - 8 -> scripts_ok true scripts -> Forall no_abandoned_read scripts ->
  segs w0 = enc_segs sg -> peer_segs 0 sg -> wlog w0 = [] ->
  no_fault (wscript w0) -> no_read_fault (rscript w0) -> stop_at w0 = 0 -> stopped w0 = false ->
  len (flat_map (fun s : N * N * bytes => snd s) (segs w0)) < SIZE_LIMIT ->
  fst (run_loop norm maxc (nb w0 + 4) (new_parser B) scripts 0 w0) = ORet.
