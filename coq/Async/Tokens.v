(* Async/Tokens.v — connection tokens (C13): Runner::get_token = async-lock 3.4.0
   Semaphore::acquire_arc (AcquireArcInner::poll_with_strategy, semaphore.rs:326-345) on top of
   event-listener 5.3.1 (Event::listen / notify(1) non-additional / listener poll / listener drop
   with propagation, std.rs:113-274), modelled from their sources at the granularity of those
   atomic steps (single-threaded histories; every future has its own counting waker).
   Token drop = SemaphoreGuardArc::drop: count += 1; event.notify(1).  No proofs here. *)
From FV Require Import Base.Bytes.

Inductive lstate := LCreated | LTask (fut : N) | LNotified.

Record tsys := mkT {
  t_max : N;
  permits : N;
  lst : list (N * lstate);          (* event listeners, queue order: (listener id, state) *)
  next_id : N;
  futs : list (N * option N);       (* pending get_token futures: (future index, its listener id if any) *)
  live : list N;                    (* indices of futures whose token is alive *)
  wakes : list (N * N)              (* (future index, number of times its waker was invoked) *)
}.

Definition init (maxc : N) : tsys := mkT maxc maxc [] 0 [] [] [].

Definition is_notified (s : lstate) : bool := match s with LNotified => true | _ => false end.
Definition notified_count (l : list (N * lstate)) : N := len (filter (fun e => is_notified (snd e)) l).

Fixpoint bump (i : N) (w : list (N * N)) : list (N * N) :=
  match w with
  | [] => [(i, 1)]
  | (j, c) :: t => if j =? i then (j, c + 1) :: t else (j, c) :: bump i t
  end.

(* Inner::notify with count 1, non-additional: nothing if a listener is already notified;
   otherwise the first un-notified listener becomes Notified and its task (if any) is woken *)
Fixpoint notify_first (l : list (N * lstate)) : list (N * lstate) * option N :=
  match l with
  | [] => ([], None)
  | (id, s) :: t =>
    match s with
    | LNotified => let '(t', w) := notify_first t in ((id, s) :: t', w)
    | LTask f => ((id, LNotified) :: t, Some f)
    | LCreated => ((id, LNotified) :: t, None)
    end
  end.

Definition notify1 (s : tsys) : tsys :=
  if 1 <=? notified_count (lst s) then s
  else let '(l', w) := notify_first (lst s) in
       mkT (t_max s) (permits s) l' (next_id s) (futs s) (live s)
           (match w with Some f => bump f (wakes s) | None => wakes s end).

Definition remove_listener (id : N) (l : list (N * lstate)) : list (N * lstate) * option lstate :=
  (filter (fun e => negb (fst e =? id)) l,
   match find (fun e => fst e =? id) l with Some e => Some (snd e) | None => None end).

(* Drop for EventListener: unlink; a notification it held is passed on *)
Definition drop_listener (id : N) (s : tsys) : tsys :=
  let '(l', st) := remove_listener id (lst s) in
  let s' := mkT (t_max s) (permits s) l' (next_id s) (futs s) (live s) (wakes s) in
  match st with Some LNotified => notify1 s' | _ => s' end.

Definition set_fut (i : N) (l : option N) (fs : list (N * option N)) : list (N * option N) :=
  map (fun e => if fst e =? i then (i, l) else e) fs.
Definition del_fut (i : N) (fs : list (N * option N)) : list (N * option N) :=
  filter (fun e => negb (fst e =? i)) fs.
Definition fut_listener (i : N) (fs : list (N * option N)) : option (option N) :=
  match find (fun e => fst e =? i) fs with Some e => Some (snd e) | None => None end.

(* op 1: a new get_token() future (not yet polled) *)
Definition new_fut (i : N) (s : tsys) : tsys :=
  mkT (t_max s) (permits s) (lst s) (next_id s) ((i, None) :: futs s) (live s) ((i, 0) :: wakes s).

(* one poll of future i: AcquireArcInner::poll_with_strategy.  Returns (ready?, system) *)
Definition poll_fut (i : N) (s : tsys) : bool * tsys :=
  match fut_listener i (futs s) with
  | None => (false, s)
  | Some lo =>
    if 0 <? permits s then
      (* try_acquire_arc succeeds: Ready; the future (and a listener it may hold) is dropped *)
      let s1 := mkT (t_max s) (permits s - 1) (lst s) (next_id s) (del_fut i (futs s)) (i :: live s) (wakes s) in
      (true, match lo with Some id => drop_listener id s1 | None => s1 end)
    else
      match lo with
      | None =>
        (* listen(), try again (fails), then poll the fresh listener: registers the waker *)
        let id := next_id s in
        (false, mkT (t_max s) (permits s) (lst s ++ [(id, LTask i)]) (id + 1) (set_fut i (Some id) (futs s)) (live s) (wakes s))
      | Some id =>
        match find (fun e => fst e =? id) (lst s) with
        | Some (_, LNotified) =>
          (* listener Ready: removed (no propagation), listener := None; loop: try fails, listen again, register *)
          let l' := filter (fun e => negb (fst e =? id)) (lst s) in
          let id' := next_id s in
          (false, mkT (t_max s) (permits s) (l' ++ [(id', LTask i)]) (id' + 1) (set_fut i (Some id') (futs s)) (live s) (wakes s))
        | Some _ =>
          (false, mkT (t_max s) (permits s) (map (fun e => if fst e =? id then (id, LTask i) else e) (lst s)) (next_id s)
                      (futs s) (live s) (wakes s))
        | None => (false, s)
        end
      end
  end.

(* op 3: drop the token obtained by future i *)
Definition drop_token (i : N) (s : tsys) : tsys :=
  if existsb (N.eqb i) (live s) then
    notify1 (mkT (t_max s) (permits s + 1) (lst s) (next_id s) (futs s) (filter (fun j => negb (j =? i)) (live s)) (wakes s))
  else s.

(* op 4: drop the pending future i *)
Definition drop_fut (i : N) (s : tsys) : tsys :=
  match fut_listener i (futs s) with
  | None => s
  | Some lo =>
    let s1 := mkT (t_max s) (permits s) (lst s) (next_id s) (del_fut i (futs s)) (live s) (wakes s) in
    match lo with Some id => drop_listener id s1 | None => s1 end
  end.

Inductive top := TNew | TPoll (i : N) | TDropToken (i : N) | TDropFut (i : N).

(* new futures are numbered consecutively by the order of creation *)
Definition tstep (st : tsys * N) (o : top) : tsys * N :=
  let '(s, n) := st in
  match o with
  | TNew => (new_fut n s, n + 1)
  | TPoll i => (snd (poll_fut i s), n)
  | TDropToken i => (drop_token i s, n)
  | TDropFut i => (drop_fut i s, n)
  end.
