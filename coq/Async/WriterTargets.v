(* Async/WriterTargets.v — statement of the multi-writer exclusion law (C10) over Async/Writer.v.
   Statements only (as Props); proofs go to Async/WriterProofs.v. *)
From FV Require Import Base.Bytes Gen.Generated Codec.Header Parser.ReqModel Parser.StreamModel Parser.AbsStream Parser.StreamRefine
  Async.Conn Async.ConnWrites Async.Writer.

(* a tenure of the output lock: one complete record of writer i with payload c, or one complete flush of
   the parser's pending replies *)
Inductive tenure := TW (i : N) (c : bytes) | TR (b : bytes).

Definition dummy_wr : wr := mkWr 0 [] [] false true.
Definition wtype (ws0 : list wr) (i : N) : N := wr_type (nth (N.to_nat i) ws0 dummy_wr).

Definition tenure_bytes (ws0 : list wr) (id : N) (t : tenure) : bytes :=
  match t with TW i c => rec_of (wtype ws0 i) id c | TR b => b end.

Definition chunks_of (i : N) (ts : list tenure) : list bytes :=
  flat_map (fun t => match t with TW j c => if j =? i then [c] else [] | TR _ => [] end) ts.

Definition tenure_ok (n : N) (t : tenure) : Prop :=
  match t with TW i c => i < n /\ 0 < len c <= 65535 | TR b => b <> [] end.

(* the starting point: nobody holds the lock, no writer has a record in progress *)
Definition fresh (s : wsys) : Prop :=
  ws_holder s = HNone /\ rlock (ws_req s) = false /\
  Forall (fun w => wr_started w = false /\ wr_cur w = [] /\ wr_done w = false) (ws_writers s).

Definition holds (h : holder) (i : N) : Prop := h = HWriter i.

(* For EVERY poll order (scripted prefix [order], then round-robin), every number of writers with any data,
   any transport write script (any accept sizes, Pending, zero-length and failing writes, vectored or not)
   and any client input for the request's read side:

   the bytes that reached the client since the start are the concatenation of COMPLETE lock tenures —
   each one whole record of one writer (its stream type, the request's id, a 1..65535-byte payload,
   automatic padding) or one whole flush of the parser's replies — followed by the part of the tenure in
   progress, which belongs to the current lock holder only; every writer's payloads, in log order, followed
   by the payload of its record in progress and the data it has not yet put into a record, are exactly the
   bytes it was asked to write (each once, in order); a writer that does not hold the lock has written
   nothing of its record in progress; a writer that finished without error has written everything. *)
Definition writers_exclusive_stmt : Prop :=
  forall maxc fuel order rr idle s0 errd acc,
  fresh s0 -> RI (rsp (ws_req s0)) ->
  let id := r_id (sreq (rsp (ws_req s0))) in
  let ws0 := ws_writers s0 in
  let s := fst (fst (wsteps maxc fuel order rr idle s0 errd acc)) in
  exists (ts : list tenure) (part : bytes) (cur : N -> bytes) (written : N -> N),
    wlog (ws_world s) = wlog (ws_world s0) ++ concat (map (tenure_bytes ws0 id) ts) ++ part /\
    Forall (tenure_ok (len ws0)) ts /\
    length (ws_writers s) = length ws0 /\
    r_id (sreq (rsp (ws_req s))) = id /\
    (forall i w0 w, nth_error ws0 (N.to_nat i) = Some w0 -> nth_error (ws_writers s) (N.to_nat i) = Some w ->
       wr_type w = wr_type w0 /\
       wr_data w0 = concat (chunks_of i ts) ++ cur i ++ wr_data w /\
       (wr_started w = false -> cur i = [] /\ wr_cur w = []) /\
       (wr_started w = true -> 0 < len (cur i) <= 65535 /\
          written i <= len (rec_of (wr_type w0) id (cur i)) /\
          concat (wr_cur w) = drop (written i) (rec_of (wr_type w0) id (cur i)) /\
          (~ holds (ws_holder s) i -> written i = 0)) /\
       (wr_done w = true -> wr_started w = false -> wr_data w = [])) /\
    match ws_holder s with
    | HNone => part = []
    | HWriter i => exists w, nth_error (ws_writers s) (N.to_nat i) = Some w /\ wr_started w = true /\
                             part = take (written i) (rec_of (wtype ws0 i) id (cur i))
    | HRequest => rlock (ws_req s) = true
    end.

(* consequence for a run in which every writer finished and none failed: the log is exactly a sequence of
   complete tenures and every writer's data is the concatenation of its payloads *)
Definition writers_complete_stmt : Prop :=
  forall maxc fuel order rr idle s0 errd acc,
  fresh s0 -> RI (rsp (ws_req s0)) ->
  let id := r_id (sreq (rsp (ws_req s0))) in
  let ws0 := ws_writers s0 in
  let '(s, errd', _) := wsteps maxc fuel order rr idle s0 errd acc in
  forallb wr_done (ws_writers s) = true -> errd' = false -> ws_holder s <> HRequest ->
  exists ts : list tenure,
    wlog (ws_world s) = wlog (ws_world s0) ++ concat (map (tenure_bytes ws0 id) ts) /\
    Forall (tenure_ok (len ws0)) ts /\
    forall i w0, nth_error ws0 (N.to_nat i) = Some w0 -> wr_data w0 = concat (chunks_of i ts).

(* the exclusion itself as a one-step law: a poll of writer i while another participant holds the lock
   changes neither the log nor the holder *)
Definition writer_waits_stmt : Prop :=
  forall fuel id i w h wd, wr_started w = true -> wr_done w = false -> h <> HNone -> h <> HWriter i ->
  poll_writer fuel id i w h wd = (0, w, h, wd).

Definition request_waits_stmt : Prop :=
  forall fuel r i w, output_buffer (rsp r) <> [] ->
  poll_output_l fuel r (HWriter i) w = (PWake, r, HWriter i, w).
