(* Async/WaitGroup.v — the shutdown wait group (C14): WaitGroupInner / TaskToken / WaitGroupFuture
   of src/async_io/util.rs:57-126.  Arc/Weak/AtomicWaker by their documented atomic behaviour:
   the inner value is dropped (and its Drop wakes the registered waker) exactly when the last strong
   reference goes away; AtomicWaker::wake takes the registered waker.  One poller, any number of
   token droppers, interleaved at the atomic steps of poll.  No proofs here. *)
From FV Require Import Base.Bytes.

Record wg := mkWG {
  strong : N;            (* strong references = live tokens (+1 while poll holds its temporary) *)
  dropped : bool;        (* the inner value has been dropped *)
  registered : bool;     (* a waker is registered and not yet taken *)
  wake_count : N
}.

Definition wg_init (tokens : N) : wg := mkWG tokens (tokens =? 0) false 0.

(* releasing one strong reference *)
Definition release (s : wg) : wg :=
  if strong s =? 0 then s
  else if strong s =? 1 then
    (* last owner: Drop for WaitGroupInner -> waker.wake() *)
    mkWG 0 true false (if registered s then wake_count s + 1 else wake_count s)
  else mkWG (strong s - 1) (dropped s) (registered s) (wake_count s).

(* WaitGroupFuture::poll with a token drop forced into window w:
   1 = before the poll, 2 = after Weak::upgrade, 3 = after waker.register, 4 = after the poll, 0 = none.
   (a drop when no token is left is a no-op: [tokens] counts the tokens outside the poll) *)
Definition wg_poll (w : N) (tokens : N) (s : wg) : bool * wg * N :=
  let drop_tok (c : bool) (st : wg * N) : wg * N :=
    if c && (0 <? snd st) then (release (fst st), snd st - 1) else st in
  let '(s1, t1) := drop_tok (w =? 1) (s, tokens) in
  if dropped s1 then
    (true, s1, t1)                                          (* Weak::upgrade = None *)
  else
    let s2 := mkWG (strong s1 + 1) false (registered s1) (wake_count s1) in   (* temporary strong reference *)
    let '(s3, t3) := drop_tok (w =? 2) (s2, t1) in
    let s4 := mkWG (strong s3) (dropped s3) true (wake_count s3) in           (* waker.register *)
    let '(s5, t5) := drop_tok (w =? 3) (s4, t3) in
    let s6 := release s5 in                                                    (* temporary dropped *)
    let '(s7, t7) := drop_tok (w =? 4) (s6, t5) in
    (false, s7, t7).

Inductive wop := WDrop | WPoll (w : N).

(* (state, tokens outside, last poll was Pending and no wake since its registration) *)
Definition wstep (st : wg * N) (o : wop) : wg * N * option bool :=
  let '(s, t) := st in
  match o with
  | WDrop => if 0 <? t then (release s, t - 1, None) else (s, t, None)
  | WPoll w => let '(r, s', t') := wg_poll w t s in (s', t', Some r)
  end.
