(* Spec/FcgiSpec.v — constants of the FastCGI 1.0 specification, transcribed BY HAND from the
   specification text (sections 3.3, 5.1, 5.5, 8), independently of the Rust source.  The regenerated
   tables of Gen/Generated.v are proved equal to these in Codec/ProtoProofs.v. *)
From FV Require Import Base.Bytes.

Definition S_FCGI_VERSION_1 : N := 1.
Definition S_FCGI_HEADER_LEN : N := 8.
Definition S_FCGI_BEGIN_REQUEST : N := 1.
Definition S_FCGI_ABORT_REQUEST : N := 2.
Definition S_FCGI_END_REQUEST : N := 3.
Definition S_FCGI_PARAMS : N := 4.
Definition S_FCGI_STDIN : N := 5.
Definition S_FCGI_STDOUT : N := 6.
Definition S_FCGI_STDERR : N := 7.
Definition S_FCGI_DATA : N := 8.
Definition S_FCGI_GET_VALUES : N := 9.
Definition S_FCGI_GET_VALUES_RESULT : N := 10.
Definition S_FCGI_UNKNOWN_TYPE : N := 11.
Definition S_FCGI_NULL_REQUEST_ID : N := 0.
Definition S_FCGI_KEEP_CONN : N := 1.
Definition S_FCGI_RESPONDER : N := 1.
Definition S_FCGI_AUTHORIZER : N := 2.
Definition S_FCGI_FILTER : N := 3.
Definition S_FCGI_REQUEST_COMPLETE : N := 0.
Definition S_FCGI_CANT_MPX_CONN : N := 1.
Definition S_FCGI_OVERLOADED : N := 2.
Definition S_FCGI_UNKNOWN_ROLE : N := 3.
(* "FCGI_MAX_CONNS", "FCGI_MAX_REQS", "FCGI_MPXS_CONNS" *)
Definition S_FCGI_MAX_CONNS : bytes := [70; 67; 71; 73; 95; 77; 65; 88; 95; 67; 79; 78; 78; 83].
Definition S_FCGI_MAX_REQS : bytes := [70; 67; 71; 73; 95; 77; 65; 88; 95; 82; 69; 81; 83].
Definition S_FCGI_MPXS_CONNS : bytes := [70; 67; 71; 73; 95; 77; 80; 88; 83; 95; 67; 79; 78; 78; 83].
(* management record types (section 4): GET_VALUES, GET_VALUES_RESULT, UNKNOWN_TYPE;
   input streams of a role (section 6): Responder: STDIN; Authorizer: none; Filter: STDIN then DATA;
   output streams: STDOUT, STDERR *)
Definition S_MANAGEMENT : list N := [9; 10; 11].
Definition S_ROLE_INPUTS : list (N * list N) := [(1, [5]); (2, []); (3, [5; 8])].
Definition S_OUTPUTS : list N := [6; 7].
