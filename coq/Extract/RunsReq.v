(* Extract/RunsReq.v — run modes for the request parser (C01, C03, C04, C05, C06).  Glue only. *)
From FV Require Import Base.Bytes Gen.Generated Codec.Varint Codec.NV Codec.Header Codec.Bodies Codec.Vars
  Cgi.Names Cgi.Lossy Parser.ReqModel Parser.ReqWire Parser.EnvCanon Extract.Runs.

Definition norm_impl (b : bytes) : bytes := upper (lossy b).

Definition perr_code (e : perr) : list N :=
  match e with
  | EPaniced => [1] | EStuckOnInput => [2] | EInterrupted => [3] | EUnknownVersion v => [4; v]
  | EInvalidRequestLen l => [5; l] | ENullRequest => [6] | EAbortRequest => [7] | EProtocol => [8]
  end.

Definition req_obs (r : req) : args :=
  [[r_id r; r_role r; r_flags r; len (canon_env (r_env r))]] ++ flat_pairs (canon_env (r_env r)).

(* req_run <B> <maxc> <wire> <schedule>:
   observation = [kind ...] request/err, leftover, concatenated output, then the sticky re-calls *)
Definition run_req_run (a : args) : args :=
  let B := argn a 0 in let maxc := argn a 1 in let wire := arg a 2 in let sched := arg a 3 in
  let p0 := new_parser B in
  match run_schedule norm_impl maxc p0 wire sched with
  | SPanic => [[18446744073710440504]]
  | SFuel => [[888887]]
  | SOk p done unfed out =>
    let again :=
      match parse norm_impl maxc p [] with
      | PPanic _ => [[18446744073710440504]]
      | POk p1 d1 o1 =>
        match parse norm_impl maxc p1 [] with
        | PPanic _ => [[18446744073710440504]]
        | POk p2 d2 o2 => [[if d1 then 1 else 0; len o1; if d2 then 1 else 0; len o2; input_space p2]]
        end
      end in
    let body :=
      match into_request p with
      | inl (r, lo) => [[1]] ++ req_obs r ++ [lo]
      | inr e => [[2] ++ perr_code e]
      end in
    [[if done then 1 else 0; len unfed; input_space p]] ++ body ++ [out] ++ (if done then again else [])
  end.

Definition run_bufsize (a : args) : args := [[aligned_bufsize (argn a 0)]].
Definition run_lossy (a : args) : args := [norm_impl (arg a 0)].
