(* Extract/RunsStr.v — run modes for the stream parser and the conversion chain
   (C02, C03, C04, C05, C18).  Glue only; the same interpreter is written in harness/src/strp.rs.

   str_run <B> <maxc> <wire> <op> <op> ...
     The request parser is driven greedily over the wire until done, converted with
     into_stream_parser, then the ops are executed.  An op is a list of numbers:
       0 n      feed min(n, space, remaining) new bytes, parse(.., None)
       1 n c    feed likewise, parse(.., Some(buf of c bytes))  (c is cut to 0 if stream_buffer is non-empty
                and the op is flagged legal-only: see op 7)
       2 k      consume_stream(k)
       3        compress()
       4 k      consume_output(k)
       5 s      set_stream(None if s = 0 else Some(s))
       6 k      next request: set_stream(None); parse (feeding greedily, compressing) until a record
                boundary; consume all output; into_request_parser; release k more bytes of the wire
                (a client that sends the next request only after the previous one ended); request
                parser greedy until done; into_stream_parser
     <B> may carry a second number g: only the first g bytes of the wire are available at first.
       7 n c    like 1 but executed even when stream_buffer is non-empty (precondition violated -> panic expected)
       8        into_input (ends the run) *)
From FV Require Import Base.Bytes Gen.Generated Codec.Varint Codec.NV Codec.Header Codec.Bodies Codec.Vars
  Cgi.Names Cgi.Lossy Parser.ReqModel Parser.ReqWire Parser.StreamModel Extract.Runs Extract.RunsReq.

Definition stream_code (s : option N) : N := match s with None => 0 | Some x => x end.
Definition raw_obs (p : sp) : bytes := match into_input p with Some b => b | None => [] end.

Definition status_obs (tag : N) (e : list N) (s : status) (p : sp) : args :=
  [[tag] ++ e ++ [s_stream s; if s_end s then 1 else 0; s_output s; stream_code (stream p);
                  if is_record_boundary p then 1 else 0; sinput_space p];
   s_dest s; stream_buffer p; output_buffer p].

Definition feed_amount (p : sp) (wire : bytes) (n : N) : N := N.min n (N.min (sinput_space p) (len wire)).

(* op 6 helper: skip to the record boundary *)
Fixpoint to_boundary (fuel : nat) (maxc : N) (p : sp) (wire : bytes) (out : bytes)
  : option (sp * bytes * bytes * N) :=      (* parser, wire, output collected, code: 0 ok / 1 eof / 2+ error *)
  match fuel with
  | O => None
  | S f =>
    let n := feed_amount p wire (sinput_space p) in
    match sparse maxc p (take n wire) None with
    | StPanic _ => None
    | StErr p' e _ =>
      match e with
      | EAbortRequest =>
        (* Request::record_boundary ignores AbortRequest; the header stays in the buffer and the parser is at a boundary *)
        let out' := out ++ output_buffer p' in
        let p'' := consume_output p' (len (output_buffer p')) in
        Some (p'', drop n wire, out', if is_record_boundary p'' then 0 else 3)
      | _ => Some (p', drop n wire, out, 2)
      end
    | StOk p' _ =>
      let out' := out ++ output_buffer p' in
      let p'' := consume_output p' (len (output_buffer p')) in
      let wire' := drop n wire in
      if is_record_boundary p'' then Some (p'', wire', out', 0)
      else match wire' with
           | [] => if n =? 0 then Some (p'', wire', out', 1) else to_boundary f maxc (compress p'') wire' out'
           | _ => to_boundary f maxc (compress p'') wire' out'
           end
    end
  end.

Fixpoint sops (fuel : nat) (maxc : N) (p : sp) (wire later : bytes) (ops : list (list N)) : args :=
  match fuel with
  | O => [[888887]]
  | S f =>
    match ops with
    | [] => [[9; len wire]]
    | op :: rest =>
      let a1 := nth 1 op 0 in let a2 := nth 2 op 0 in
      match hd 99 op with
      | 0 | 1 | 7 =>
        let code := hd 99 op in
        let n := feed_amount p wire a1 in
        let dest := if code =? 0 then None else Some a2 in
        if (code =? 1) && negb (len (stream_buffer p) =? 0) then [[10]] ++ sops f maxc p wire later rest   (* skipped: illegal *)
        else
        match sparse maxc p (take n wire) dest with
        | StPanic _ => [[18446744073710440504]]
        | StOk p' s => status_obs 1 [] s p' ++ sops f maxc p' (drop n wire) later rest
        | StErr p' e s => status_obs 2 (perr_code e) (mkStatus 0 false 0 []) p' ++ sops f maxc p' (drop n wire) later rest
        end
      | 2 => let p' := consume_stream p a1 in [[3]; stream_buffer p'] ++ sops f maxc p' wire later rest
      | 3 => let p' := compress p in
             if invars_ok p' then [[4; sinput_space p']; stream_buffer p'] ++ sops f maxc p' wire later rest else [[18446744073710440504]]
      | 4 => let p' := consume_output p a1 in [[5]; output_buffer p'] ++ sops f maxc p' wire later rest
      | 5 =>
        match set_stream p (if a1 =? 0 then None else Some a1) with
        | SetPanic => [[18446744073710440504]]
        | SetErr => [[6; 0; stream_code (stream p)]; stream_buffer p] ++ sops f maxc p wire later rest
        | SetOk p' => [[6; 1; stream_code (stream p')]; stream_buffer p'] ++ sops f maxc p' wire later rest
        end
      | 6 =>
        (* [6; k; 2]: the plain hand-off of the parser API - no set_stream(None), no skipping: the pending replies are taken, then
           into_request_parser is asked as the parser stands (stream data still buffered is the callee's business); off a record
           boundary the conversion is refused and the run ends *)
        match (if a2 =? 2 then SetOk p else set_stream p None) with
        | SetOk p1 =>
          (* [6; k; 1]: the way Request::close does it — no parse at all when the parser already stands at a record boundary,
             so that whatever is still buffered (unread records of this request included) goes to the next request parser *)
          match (if ((a2 =? 1) || (a2 =? 2)) && is_record_boundary p1
                 then Some (consume_output p1 (len (output_buffer p1)), wire, output_buffer p1, 0)   (* close writes the pending replies first *)
                 else if a2 =? 2 then Some (p1, wire, [], 5)
                 else to_boundary (length wire + 4) maxc p1 wire []) with
          | None => [[18446744073710440504]]
          | Some (p2, wire2, out2, code) =>
            if negb (code =? 0) then [[7; code]; out2]
            else
              match into_request_parser p2 with
              | ConvOk rp =>
                match run_schedule norm_impl maxc rp (wire2 ++ take a1 later) [0] with   (* first a 0-byte call, like Token::parse_request *)
                | SOk rp' done unfed out3 =>
                  match into_stream_parser rp' with
                  | inl p3 => [[7; 0; if done then 1 else 0]; out2; out3] ++ req_obs (sreq p3)
                              ++ [raw_obs p3] ++ sops f maxc p3 unfed (drop a1 later) rest
                  | inr e => [[7; 4] ++ perr_code e; out2; out3]
                  end
                | _ => [[18446744073710440504]]
                end
              | ConvInterrupted => [[7; 5]]
              | ConvPanic => [[18446744073710440504]]
              end
          end
        | _ => [[18446744073710440504]]
        end
      | 8 => match into_input p with Some b => [[8; 1]; b] | None => [[8; 0]] end
      | _ => [[999996]]
      end
    end
  end.

Definition run_str_run (a : args) : args :=
  let B := argn a 0 in let maxc := argn a 1 in let wire := arg a 2 in
  let ops := skipn 3 a in
  let gate0 := nth 1 (arg a 0) 0 in
  let later := if gate0 =? 0 then [] else drop gate0 wire in
  let wire := if gate0 =? 0 then wire else take gate0 wire in
  match run_schedule norm_impl maxc (new_parser B) wire [] with
  | SOk rp done unfed out =>
    match into_stream_parser rp with
    | inl p => [[1; stream_code (stream p); sinput_space p]; out; raw_obs p]
               ++ sops (length ops + 2) maxc p unfed later ops
    | inr e => [[2] ++ perr_code e; out]
    end
  | _ => [[18446744073710440504]]
  end.

(* the finite tables of C18 *)
Definition ord_code (o : option ord) : N :=
  match o with None => 18446744073710440504 | Some Lt => 0 | Some Eq => 1 | Some Gt => 2 end.
Definition run_cmp_streams (a : args) : args :=
  let role := argn a 0 in let exp := argn a 2 in
  if negb (exp =? 0) && negb (memN exp (role_input_streams role)) then [[777777]]
  else [[ord_code (cmp_input_streams role (argn a 1) (if exp =? 0 then None else Some exp))]].

(* ---- lockstep check of the refinement abs (op p) = aop (abs p) (model-internal; used to validate the
        statement of the refinement theorem on the generators' schedules before/besides proving it) ---- *)
From FV Require Import Parser.AbsStream.
Definition sst_eqb (x y : sstate) : bool :=
  match x, y with SStream, SStream | SSkip, SSkip => true | SValues v, SValues w => v =? w | _, _ => false end.
Definition ast_eqb (x y : ast) : bool :=
  (a_B x =? a_B y) && (a_space x =? a_space y) && beq (a_parsed x) (a_parsed y) && beq (a_raw x) (a_raw y)
  && beq (a_out x) (a_out y) && optN_eqb (a_stream x) (a_stream y) && (a_prem x =? a_prem y) && (a_pad x =? a_pad y)
  && sst_eqb (a_st x) (a_st y) && (r_id (a_req x) =? r_id (a_req y)) && (r_role (a_req x) =? r_role (a_req y)).
Definition status_eqb (x y : status) : bool :=
  (s_stream x =? s_stream y) && Bool.eqb (s_end x) (s_end y) && (s_output x =? s_output y) && beq (s_dest x) (s_dest y).
Definition ri_ok (p : sp) : bool :=
  invars_ok p && (negb (output_start p =? len (output p)) || (len (output p) =? 0)).

Fixpoint refine_ops (fuel : nat) (maxc : N) (p : sp) (wire : bytes) (ops : list (list N)) (k : N) : list N :=
  match fuel with
  | O => [2; k]
  | S f =>
    match ops with
    | [] => [1; k]
    | op :: rest =>
      let a := abs p in
      let a1 := nth 1 op 0 in let a2 := nth 2 op 0 in
      if negb (ri_ok p) then [0; k; 100] else
      match hd 99 op with
      | 0 | 1 | 7 =>
        let code := hd 99 op in
        let n := feed_amount p wire a1 in
        let dest := if code =? 0 then None else Some a2 in
        if (code =? 1) && negb (len (stream_buffer p) =? 0) then refine_ops f maxc p wire rest (k + 1) else
        match sparse maxc p (take n wire) dest, aparse maxc a (take n wire) dest with
        | StOk p' s, AOk a' s' =>
          if ast_eqb (abs p') a' && status_eqb s s' then refine_ops f maxc p' (drop n wire) rest (k + 1) else [0; k; 1]
        | StErr p' e s, AFail a' e' s' =>
          if ast_eqb (abs p') a' && beq (perr_code e) (perr_code e') then refine_ops f maxc p' (drop n wire) rest (k + 1) else [0; k; 2]
        | StPanic _, APanicked _ => [1; k]
        | _, _ => [0; k; 3]
        end
      | 2 => let p' := consume_stream p a1 in
             if ast_eqb (abs p') (aconsume_stream a a1) then refine_ops f maxc p' wire rest (k + 1) else [0; k; 4]
      | 3 => let p' := compress p in
             if ast_eqb (abs p') (acompress a) then refine_ops f maxc p' wire rest (k + 1) else [0; k; 5]
      | 4 => let p' := consume_output p a1 in
             if ast_eqb (abs p') (aconsume_output a a1) then refine_ops f maxc p' wire rest (k + 1) else [0; k; 6]
      | 5 =>
        let s := if a1 =? 0 then None else Some a1 in
        match set_stream p s, aset_stream a s with
        | SetOk p', ASetOk a' => if ast_eqb (abs p') a' then refine_ops f maxc p' wire rest (k + 1) else [0; k; 7]
        | SetErr, ASetErr => refine_ops f maxc p wire rest (k + 1)
        | SetPanic, ASetPanic => [1; k]
        | _, _ => [0; k; 8]
        end
      | 8 =>
        match into_input p, ainto_input a with
        | Some b, Some b' => if beq b b' then [1; k] else [0; k; 9]
        | None, None => [1; k]
        | _, _ => [0; k; 10]
        end
      | _ => [1; k]
      end
    end
  end.

Definition run_str_refine (a : args) : args :=
  let B := argn a 0 in let maxc := argn a 1 in let wire := arg a 2 in
  let ops := skipn 3 a in
  match run_schedule norm_impl maxc (new_parser B) wire [] with
  | SOk rp done unfed out =>
    match into_stream_parser rp with
    | inl p => [refine_ops (length ops + 2) maxc p unfed ops 0]
    | inr e => [[3]]
    end
  | _ => [[18446744073710440504]]
  end.

(* ---- lockstep check of the step statements of Parser/StreamSpec.v on the abstract machine ---- *)
From FV Require Import Parser.StreamSpec.
Definition later_streams (a : ast) : list N :=
  match a_stream a with
  | Some cur => filter (fun sg => match cmp_input_streams (r_role (a_req a)) sg (Some cur) with Some Gt => true | _ => false end)
                       IS_INPUT_STREAM
  | None => []
  end.
Fixpoint inv_ops (fuel : nat) (maxc : N) (a : ast) (wire : bytes) (ops : list (list N)) (k : N) : list N :=
  match fuel with
  | O => [2; k]
  | S f =>
    match ops with
    | [] => [1; k]
    | op :: rest =>
      let a1 := nth 1 op 0 in let a2 := nth 2 op 0 in
      match hd 99 op with
      | 0 | 1 | 7 =>
        let code := hd 99 op in
        let n := N.min a1 (N.min (a_space a) (len wire)) in
        let dest := if code =? 0 then None else Some a2 in
        if (code =? 1) && negb (len (a_parsed a) =? 0) then inv_ops f maxc a wire rest (k + 1) else
        let new := take n wire in let u := drop n wire in
        let chk (a' : ast) (s : status) (ok : bool) : list N :=
          if negb (beq (K a (new ++ u)) (s_dest s ++ K a' u)) then [0; k; 1]
          else if negb (beq (R maxc a (new ++ u)) (R maxc a' u)) then [0; k; 2]
          else if negb (forallb (fun sg => beq (F (Some sg) a (new ++ u)) (F (Some sg) a' u)) (later_streams a)) then [0; k; 3]
          else if ok && negb (Bool.eqb (s_end s)
                    (match a_stream a with None => true | Some _ =>
                       at_terminator (r_role (a_req a)) (r_id (a_req a)) (a_stream a) (a_prem a') (a_pad a') (a_raw a') end)) then [0; k; 4]
          else if negb (s_output s =? len (a_out a') - len (a_out a)) then [0; k; 5]
          else inv_ops f maxc a' u rest (k + 1) in
        match aparse maxc a new dest with
        | AOk a' s => chk a' s true
        | AFail a' e s => chk a' s false
        | APanicked _ => [1; k]
        end
      | 2 => let a' := aconsume_stream a a1 in
             if beq (K a wire) (take (N.min a1 (len (a_parsed a))) (a_parsed a) ++ K a' wire) then inv_ops f maxc a' wire rest (k + 1) else [0; k; 6]
      | 3 => let a' := acompress a in
             if beq (K a wire) (K a' wire) && beq (R maxc a wire) (R maxc a' wire) then inv_ops f maxc a' wire rest (k + 1) else [0; k; 7]
      | 4 => let a' := aconsume_output a a1 in
             if beq (R maxc a wire) (take (N.min a1 (len (a_out a))) (a_out a) ++ R maxc a' wire) then inv_ops f maxc a' wire rest (k + 1) else [0; k; 8]
      | 5 =>
        match aset_stream a (if a1 =? 0 then None else Some a1) with
        | ASetOk a' =>
          (* a later stream's future content is what the new epoch starts with *)
          if (match a1 with 0 => true | _ => if optN_eqb (Some a1) (a_stream a) then true
                                             else beq (F (Some a1) a wire) (K a' wire) end)
             && beq (R maxc a wire) (R maxc a' wire)
          then inv_ops f maxc a' wire rest (k + 1) else [0; k; 9]
        | ASetErr => inv_ops f maxc a wire rest (k + 1)
        | ASetPanic => [1; k]
        end
      | _ => [1; k]
      end
    end
  end.

Definition run_str_inv (a : args) : args :=
  let B := argn a 0 in let maxc := argn a 1 in let wire := arg a 2 in
  let ops := skipn 3 a in
  match run_schedule norm_impl maxc (new_parser B) wire [] with
  | SOk rp done unfed out =>
    match into_stream_parser rp with
    | inl p => [inv_ops (length ops + 2) maxc (abs p) unfed ops 0]
    | inr e => [[3]]
    end
  | _ => [[18446744073710440504]]
  end.
