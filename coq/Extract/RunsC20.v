(* Extract/RunsC20.v — run modes of the C20 model (Cgi/Response.v) for the correspondence check.
   Glue only; no theorem depends on it.

   hdr_write <code> <cap> <reason> <pre> <n1> <v1> <n2> <v2> ...
   hdr_http  <code> <cap> <reason> <pre> <n1> <v1> ...          (through http_headers)
   redirect  <cap> <pre> <loc>
     cap = 18446744073709551615 means a Vec<u8> destination, anything else a `&mut [u8]` of that
     many bytes; <pre> = bytes already in the destination; <reason> = canonical reason phrase of
     <code> (empty: none).  Observation: [flag] [count]|- <destination contents>, flag 1 = Ok,
     0 = Err(WriteZero); or [2] when <code> is not a constructible StatusCode. *)
From FV Require Import Base.Bytes Extract.Runs Cgi.Response.

Definition C20_VEC : N := 18446744073709551615.

Definition c20_writer (cap : N) (pre : bytes) : writer :=
  mkW pre (if cap =? C20_VEC then None else Some cap).

Fixpoint c20_pairs (l : list (list N)) : list (bytes * bytes) :=
  match l with
  | n :: v :: r => (n, v) :: c20_pairs r
  | _ => []
  end.

Definition c20_obs (r : writer * option N) : args :=
  match snd r with
  | Some n => [[1]; [n]; w_out (fst r)]
  | None => [[0]; []; w_out (fst r)]
  end.

Definition c20_reason (a : args) : N -> option bytes :=
  fun _ => match arg a 2 with [] => None | r => Some r end.

Definition run_hdr_write (a : args) : args :=
  match status_from_u16 (argn a 0) with
  | None => [[2]]
  | Some code =>
    c20_obs (write_headers (c20_reason a) (c20_writer (argn a 1) (arg a 3)) code (c20_pairs (skipn 4 a)))
  end.

Definition run_hdr_http (a : args) : args :=
  match status_from_u16 (argn a 0) with
  | None => [[2]]
  | Some code =>
    c20_obs (http_headers (c20_reason a) (c20_writer (argn a 1) (arg a 3)) code (c20_pairs (skipn 4 a)))
  end.

Definition run_redirect (a : args) : args :=
  c20_obs (simple_redirect (c20_writer (argn a 0) (arg a 1)) (arg a 2)).
