(* Extract/RunsSync.v — run modes for the token / wait-group models (C13, C14).  Glue only. *)
From FV Require Import Base.Bytes Async.Tokens Async.WaitGroup Extract.Runs.

(* bookkeeping of the run mode (not part of the token model): which runner clone issued future i ([own], in creation order), which
   live tokens sit inside Token::run on an idle connection ([srv]), which clones exist / were shut down *)
Definition nthN_d (l : list N) (i : N) : N := nth (N.to_nat i) l 0.
Definition memNb (x : N) (l : list N) : bool := existsb (N.eqb x) l.

Fixpoint drop_all (l : list N) (s : tsys) : tsys :=
  match l with [] => s | i :: t => drop_all t (drop_token i s) end.

(* insertion keeping the list ascending: the connections of a clone end in index order *)
Fixpoint ins (x : N) (l : list N) : list N :=
  match l with [] => [x] | y :: t => if x <=? y then x :: l else y :: ins x t end.

Fixpoint tok_ops (fuel : nat) (ops : list N) (s : tsys) (n : N) (own srv stl kpl dead : list N) (nclones : N) : args :=
  match fuel with
  | O => []
  | S f =>
    match ops with
    | op :: x :: rest =>
      let '(ready, s', n', own', srv', stl', kpl', dead', nc') :=
        match op with
        | 1 => (2, new_fut n s, n + 1, own ++ [if (x =? 0) || memNb x dead then 0 else x], srv, stl, kpl, dead, N.max nclones (x + 1))
        | 2 => match fut_listener x (futs s) with
               | Some _ => let '(r, s') := poll_fut x s in ((if r then 1 else 0), s', n, own, srv, stl, kpl, dead, nclones)
               | None => (2, s, n, own, srv, stl, kpl, dead, nclones)
               end
        | 3 => (2, drop_token x s, n, own, filter (fun j => negb (j =? x)) srv, filter (fun j => negb (j =? x)) stl, kpl, dead, nclones)
        | 4 => (2, drop_fut x s, n, own, srv, stl, kpl, dead, nclones)
        | 5 => if memNb x (live s) && negb (memNb x srv) && negb (memNb x stl) then
                 (if memNb (nthN_d own x) dead then (2, drop_token x s, n, own, srv, stl, kpl, dead, nclones)   (* its runner was shut down: the connection ends at once *)
                  else (2, s, n, own, ins x srv, stl, kpl, dead, nclones))                                    (* the token moves into Token::run: still in use *)
               else (2, s, n, own, srv, stl, kpl, dead, nclones)
        | 8 | 9 =>
          (* the token moves into Token::run on a connection that carries one complete request (8: without KeepConn, 9: with) and whose
             write side never becomes ready: the handler returns at once, Request::close stalls in its first write - the request is in
             flight, the token stays in use until the connection task is dropped (op 3 / 6), whatever is shut down meanwhile *)
          if memNb x (live s) && negb (memNb x srv) && negb (memNb x stl) then
            (if memNb (nthN_d own x) dead then (2, drop_token x s, n, own, srv, stl, kpl, dead, nclones)   (* shut down before it started: nothing new is started *)
             else (2, s, n, own, srv, ins x stl, (if op =? 9 then ins x kpl else kpl), dead, nclones))
          else (2, s, n, own, srv, stl, kpl, dead, nclones)
        | 6 => (2, drop_token x s, n, own, filter (fun j => negb (j =? x)) srv, filter (fun j => negb (j =? x)) stl, kpl, dead, nclones)
        | 11 | 12 =>
          (* token x leaves by unwinding (a panicking handler inside its connection task / an unrelated panic in the frame that holds
             it): a release like any other *)
          if memNb x srv || memNb x stl then (2, s, n, own, srv, stl, kpl, dead, nclones)
          else (2, drop_token x s, n, own, srv, stl, kpl, dead, nclones)
        | 10 =>
          (* the stalled connection x gets its epilogue out: the request in flight is completed; the connection ends unless it had
             KeepConn and its runner is still running (then it idles like after op 5) *)
          if memNb x stl then
            (if memNb x kpl && negb (memNb (nthN_d own x) dead)
             then (2, s, n, own, ins x srv, filter (fun j => negb (j =? x)) stl, kpl, dead, nclones)
             else (2, drop_token x s, n, own, srv, filter (fun j => negb (j =? x)) stl, kpl, dead, nclones))
          else (2, s, n, own, srv, stl, kpl, dead, nclones)
        | 7 =>
          (* Runner::shutdown on clone x: its idle connections end (in index order), each dropping its token *)
          if (1 <=? x) && (x <? nclones) && negb (memNb x dead)
             && negb (existsb (fun e => nthN_d own (fst e) =? x) (futs s)) then
            let mine := filter (fun i => nthN_d own i =? x) srv in
            (2, drop_all mine s, n, own, filter (fun i => negb (nthN_d own i =? x)) srv, stl, kpl, x :: dead, nclones)
          else (2, s, n, own, srv, stl, kpl, dead, nclones)
        | _ => (2, s, n, own, srv, stl, kpl, dead, nclones)
        end in
      ([len (live s'); ready] ++ map (fun i => match find (fun e => fst e =? i) (wakes s') with Some e => snd e | None => 0 end)
                                     (map N.of_nat (seq 0 (N.to_nat n'))))
      :: tok_ops f rest s' n' own' srv' stl' kpl' dead' nc'
    | _ => []
    end
  end.

(* tok_fill <max_conns>: requests are issued and polled one after the other, every token is kept: how many complete at once,
   and does the next one wait (0) or also complete (2)? *)
Fixpoint tok_fill (fuel : nat) (i : N) (s : tsys) (ready : N) : N * N :=
  match fuel with
  | O => (ready, 2)
  | S f =>
    let '(r, s') := poll_fut i (new_fut i s) in
    if r then tok_fill f (i + 1) s' (ready + 1) else (ready, 0)
  end.

Definition run_tok_fill (a : args) : args :=
  let m := N.max 1 (argn a 0) in
  let '(r, fl) := tok_fill (N.to_nat (m + 1)) 0 (init m) 0 in [[r; fl]].

Definition run_tok_run (a : args) : args :=
  tok_ops (length (arg a 1)) (arg a 1) (init (N.max 1 (argn a 0))) 0 [] [] [] [] [] 1.

Fixpoint wg_ops (fuel : nat) (ops : list N) (s : wg) (t : N) : args :=
  match fuel with
  | O => []
  | S f =>
    match ops with
    | [] => []
    | op :: rest =>
      if op =? 1 then (if 0 <? t then wg_ops f rest (release s) (t - 1) else wg_ops f rest s t)
      else if 10 <=? op then
        let '(r, s', t') := wg_poll (op - 10) t s in
        [if r then 1 else 0; wake_count s'; t'] :: (if r then [] else wg_ops f rest s' t')
      else wg_ops f rest s t
    end
  end.

Definition run_wg_run (a : args) : args :=
  wg_ops (length (arg a 1)) (arg a 1) (wg_init (argn a 0)) (argn a 0).

(* wg_race <trials>: real two-thread races on the crate (harness/src/sync.rs); the model's answer is the property itself: no wake-up is
   ever lost (Async/SyncProofs.v, C14_no_lost_wakeup) *)
Definition run_wg_race (a : args) : args := [[0]].

(* tok_many <n>: harness-side assertions on one runner with n live tokens at shutdown (harness/src/sync.rs); the model's answer is the
   property itself (C14_nothing_new, C14_idle_connection_stops, C14_ready_iff_done) *)
Definition run_tok_many (a : args) : args := [[1]].
