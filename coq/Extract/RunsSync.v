(* Extract/RunsSync.v — run modes for the token / wait-group models (C13, C14).  Glue only. *)
From FV Require Import Base.Bytes Async.Tokens Async.WaitGroup Extract.Runs.

Fixpoint tok_ops (fuel : nat) (ops : list N) (s : tsys) (n : N) : args :=
  match fuel with
  | O => []
  | S f =>
    match ops with
    | op :: x :: rest =>
      let '(ready, s', n') :=
        match op with
        | 1 => (2, new_fut n s, n + 1)
        | 2 => match fut_listener x (futs s) with
               | Some _ => let '(r, s') := poll_fut x s in ((if r then 1 else 0), s', n)
               | None => (2, s, n)
               end
        | 3 => (2, drop_token x s, n)
        | 4 => (2, drop_fut x s, n)
        | 6 => (2, drop_token x s, n)      (* the connection task that owned token x is dropped; op 5 (token moved into Token::run) changes nothing *)
        | _ => (2, s, n)
        end in
      ([len (live s'); ready] ++ map (fun i => match find (fun e => fst e =? i) (wakes s') with Some e => snd e | None => 0 end)
                                     (map N.of_nat (seq 0 (N.to_nat n'))))
      :: tok_ops f rest s' n'
    | _ => []
    end
  end.

(* tok_fill <max_conns>: requests are issued and polled one after the other, every token is kept: how many complete at once,
   and does the next one wait (0) or also complete (2)? *)
Fixpoint tok_fill (fuel : nat) (i : N) (s : tsys) (ready : N) : N * N :=
  match fuel with
  | O => (ready, 2)
  | S f =>
    let '(r, s') := poll_fut i (new_fut i s) in
    if r then tok_fill f (i + 1) s' (ready + 1) else (ready, 0)
  end.

Definition run_tok_fill (a : args) : args :=
  let m := N.max 1 (argn a 0) in
  let '(r, fl) := tok_fill (N.to_nat (m + 1)) 0 (init m) 0 in [[r; fl]].

Definition run_tok_run (a : args) : args :=
  tok_ops (length (arg a 1)) (arg a 1) (init (N.max 1 (argn a 0))) 0.

Fixpoint wg_ops (fuel : nat) (ops : list N) (s : wg) (t : N) : args :=
  match fuel with
  | O => []
  | S f =>
    match ops with
    | [] => []
    | op :: rest =>
      if op =? 1 then (if 0 <? t then wg_ops f rest (release s) (t - 1) else wg_ops f rest s t)
      else if 10 <=? op then
        let '(r, s', t') := wg_poll (op - 10) t s in
        [if r then 1 else 0; wake_count s'; t'] :: (if r then [] else wg_ops f rest s' t')
      else wg_ops f rest s t
    end
  end.

Definition run_wg_run (a : args) : args :=
  wg_ops (length (arg a 1)) (arg a 1) (wg_init (argn a 0)) (argn a 0).
