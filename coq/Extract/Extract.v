(* Extract/Extract.v — extraction of the executable model to OCaml (ExtrOcamlBasic only). *)
From Coq Require Extraction ExtrOcamlBasic.
From Coq Require Import NArith.
From FV Require Import Extract.Runs.
Extraction Language OCaml.
Set Warnings "-extraction-default-directory".
Extraction "../ocaml/model.ml"
  run_vi_read run_vi_write run_vi_try
  N.add N.mul N.div_eucl N.of_nat N.to_nat.
