(* Extract/RunsC19.v — run modes of the CGI variable-name model (C19).  Glue only: argument decoding
   and observation encoding; no theorem depends on this file. *)
From FV Require Import Base.Bytes Gen.Generated Cgi.Names.
From FV Require Import Extract.Runs.

Definition b2n (b : bool) : N := if b then 1 else 0.
Definition c2n (c : comparison) : N := match c with Lt => 0 | Eq => 1 | Gt => 2 end.

Fixpoint list_beq (a b : list bytes) : bool :=
  match a, b with
  | [], [] => true
  | x :: a', y :: b' => beq x y && list_beq a' b'
  | _, _ => false
  end.
Definition writes_beq (a b : option (list bytes)) : bool :=
  match a, b with Some x, Some y => list_beq x y | None, None => true | _, _ => false end.
(* a write sequence as one number list: each payload preceded by its length *)
Definition enc_writes (w : list bytes) : list N := flat_map (fun p => len p :: p) w.

(* constructor number -> (name, the caller's string afterwards); None = not applicable
   (8 = From<StaticVarName> of the parsed string, applicable only to exact table names) *)
Definition mk (c : N) (s : bytes) : option (owned * bytes) :=
  match c with
  | 0 => Some (build CStr s, s)
  | 1 => Some (build CString s, s)
  | 2 => Some (build CBox s, s)
  | 3 => Some (build CCowBorrowed s, s)
  | 4 => Some (build CCowOwned s, s)
  | 5 => Some (from_mut_str s)
  | 6 => Some (build CVar s, s)
  | 7 => Some (build CToOwned s, s)
  | 8 => match static_parse s with Some i => Some (from_static i, s) | None => None end
  | _ => None
  end.

(* names_pair <ctor1> <bytes1> <ctor2> <bytes2> *)
Definition run_names_pair (a : args) : args :=
  let s1 := arg a 1 in let s2 := arg a 3 in
  match mk (argn a 0) s1, mk (argn a 2) s2 with
  | Some (o1, p1), Some (o2, p2) =>
    let r1 := as_ref o1 in let r2 := as_ref o2 in
    match owned_hash o1, owned_hash o2, hash_writes s1, hash_writes s2 with
    | Some h1, Some h2, Some g1, Some g2 =>
      [ [1]; r1; r2; p1; p2;
        [b2n (eq_ic s1 s2); b2n (eq_ic r1 r2); b2n (owned_eq o1 o2); b2n (owned_eq o2 o1)];
        [c2n (cmp_ic s1 s2); c2n (cmp_ic r1 r2); c2n (owned_cmp o1 o2); c2n (owned_cmp o2 o1)];
        [b2n (list_beq h1 h2); b2n (list_beq g1 h1); b2n (list_beq g2 h2)];
        enc_writes h1; enc_writes h2;
        (* o1 is the only key of a HashMap / BTreeMap; looked up by o2 and by the borrowed VarName s2 *)
        [b2n (list_beq h2 h1 && owned_eq o2 o1); b2n (list_beq g2 h1 && eq_ic s2 r1);
         b2n (match owned_cmp o2 o1 with Eq => true | _ => false end);
         b2n (match cmp_ic s2 r1 with Eq => true | _ => false end)] ]
    | _, _, _, _ => [[18446744073710440504]]
    end
  | _, _ => [[777]]
  end.

(* names_sort <ctor,bytes...> ... : the keys are inserted in order into a BTreeMap (value = position);
   observation: number of entries, then value :: as_ref of the stored key, in iteration order *)
Fixpoint bt_insert (k : owned) (v : N) (m : list (owned * N)) : list (owned * N) :=
  match m with
  | [] => [(k, v)]
  | (k', v') :: m' =>
    match owned_cmp k k' with
    | Lt => (k, v) :: m
    | Eq => (k', v) :: m'
    | Gt => (k', v') :: bt_insert k v m'
    end
  end.
Fixpoint hs_insert (k : owned) (m : list owned) : list owned :=
  match m with
  | [] => [k]
  | k' :: m' =>
    if writes_beq (owned_hash k) (owned_hash k') && owned_eq k k' then m else k' :: hs_insert k m'
  end.
Fixpoint sort_go (l : args) (i : N) (m : list (owned * N)) (h : list owned) : option (list (owned * N) * list owned) :=
  match l with
  | [] => Some (m, h)
  | x :: l' =>
    match x with
    | [] => None
    | c :: s => match mk c s with
                | Some (o, _) => sort_go l' (i + 1) (bt_insert o i m) (hs_insert o h)
                | None => None
                end
    end
  end.
Definition run_names_sort (a : args) : args :=
  match sort_go a 0 [] [] with
  | Some (m, h) => [len m; len h] :: map (fun kv => snd kv :: as_ref (fst kv)) m
  | None => [[777]]
  end.

(* names_header <bytes>: http::HeaderName::from_bytes (http 1.0.0 HEADER_CHARS: RFC 7230 token
   characters and also the double quote (34); non-empty; lower-cases.  This acceptance rule is glue describing the http
   crate, not part of the model),
   then OwnedVarName::from(&HeaderName) *)
Definition is_tchar (b : N) : bool :=
  is_ascii_lower b || is_ascii_upper b || ((48 <=? b) && (b <=? 57))
  || existsb (N.eqb b) [33; 34; 35; 36; 37; 38; 39; 42; 43; 45; 46; 94; 95; 96; 124; 126].
Definition run_names_header (a : args) : args :=
  let h := arg a 0 in
  if match h with [] => false | _ => forallb is_tchar h end then
    let h' := map to_lower h in
    let o := from_header h' in
    let o' := from_str (header_var h') in
    match owned_hash o, owned_hash o' with
    | Some w, Some w' =>
      [ [1]; h'; as_ref o; as_ref o';
        [b2n (owned_eq o o'); c2n (owned_cmp o o'); b2n (list_beq w w')];
        enc_writes w ]
    | _, _ => [[18446744073710440504]]
    end
  else [[0]].

(* consts_names <name> <name> ...: for each argument, does it parse as a StaticVarName, and the
   string the parsed value reads back as *)
Definition run_consts_names (a : args) : args :=
  map (fun s => match static_parse s with Some i => 1 :: static_str i | None => [0] end) a.
