(* Extract/RunsConn.v — run mode for the connection model (C07-C12, C14).  Glue only. *)
From FV Require Import Base.Bytes Gen.Generated Parser.ReqModel Parser.StreamModel Async.Conn Extract.Runs Extract.RunsReq.

Fixpoint mk_segs (table : list N) (wire : bytes) : list (N * N * bytes) :=
  match table with
  | ge :: gm :: l :: t => (ge, gm, take l wire) :: mk_segs t (drop l wire)
  | _ => []
  end.

Definition run_conn_run (a : args) : args :=
  let cfg := arg a 0 in
  let B := nth 0 cfg 0 in let maxc := N.max 1 (nth 1 cfg 0) in
  let vect := negb (nth 2 cfg 0 =? 0) in let stop := nth 3 cfg 0 in
  let w0 := mkW (arg a 1) (arg a 2) (mk_segs (arg a 3) (arg a 4)) [] 0 1 stop (stop =? 1) vect [] in
  let scripts := skipn 5 a in
  let total := length (arg a 4) in
  let '(o, w) := run_loop norm_impl maxc (total + 4) (new_parser B) scripts 0 w0 in
  let cnt := [consumed w; len (arg a 1) - len (rscript w); len (arg a 2) - len (wscript w)] in
  let tail := [[200]; [if stopped w && negb (stop =? 0) && (match o with ODeadlock => true | _ => false end) then 0 else 2; 1]] in
  match o with
  | ORet => [[0; epoch w]; cnt; wlog w] ++ rev (events w) ++ tail
  | ODeadlock => [[1; epoch w]; cnt; wlog w] ++ rev (events w) ++ tail
  | OPanic n => [[18446744073710440504]; cnt; wlog w] ++ rev (events w) ++ tail
  | OFuel => [[888887]; cnt; wlog w] ++ rev (events w) ++ tail
  end.
