(* Extract/RunsConn.v — run mode for the connection model (C07-C12, C14).  Glue only. *)
From FV Require Import Base.Bytes Gen.Generated Codec.Header Parser.ReqModel Parser.ReqWire Parser.StreamModel Async.Conn Extract.Runs Extract.RunsReq.

Fixpoint mk_segs (table : list N) (wire : bytes) : list (N * N * bytes) :=
  match table with
  | ge :: gm :: l :: t => (ge, gm, take l wire) :: mk_segs t (drop l wire)
  | _ => []
  end.

Definition run_conn_run (a : args) : args :=
  let cfg := arg a 0 in
  let B := nth 0 cfg 0 in let maxc := N.max 1 (nth 1 cfg 0) in
  let vect := negb (nth 2 cfg 0 =? 0) in let stop := nth 3 cfg 0 in
  let w0 := mkW (arg a 1) (arg a 2) (mk_segs (arg a 3) (arg a 4)) [] 0 1 stop (stop =? 1) vect [] in
  let scripts := skipn 5 a in
  let total := length (arg a 4) in
  let '(o, w) := run_loop norm_impl maxc (total + 4) (new_parser B) scripts 0 w0 in
  let cnt := [consumed w; len (arg a 1) - len (rscript w); len (arg a 2) - len (wscript w)] in
  let tail := [[200]; [if stopped w && negb (stop =? 0) && (match o with ODeadlock => true | _ => false end) then 0 else 2; 1]] in
  match o with
  | ORet => [[0; epoch w]; cnt; wlog w] ++ rev (events w) ++ tail
  | ODeadlock => [[1; epoch w]; cnt; wlog w] ++ rev (events w) ++ tail
  | OPanic n => [[18446744073710440504]; cnt; wlog w] ++ rev (events w) ++ tail
  | OFuel => [[888887]; cnt; wlog w] ++ rev (events w) ++ tail
  end.

(* req_new <cfg: B, max_conns, vectored, preselect> <rscript> <wscript> <wire> <script>: the embedding application parses the preamble itself
   (greedy reads, replies written at once), converts, optionally selects a stream on the stream parser BEFORE wrapping it with the public
   Request::new, runs the handler script and calls Request::close itself (harness/src/conn.rs req_new) *)
Definition run_req_new (a : args) : args :=
  let cfg := arg a 0 in
  let B := nth 0 cfg 0 in let maxc := N.max 1 (nth 1 cfg 0) in
  let vect := negb (nth 2 cfg 0 =? 0) in let presel := nth 3 cfg 0 in let leak := negb (nth 4 cfg 0 =? 0) in
  let wire := arg a 3 in let script := arg a 4 in
  match run_schedule norm_impl maxc (new_parser B) wire [] with
  | SOk p1 true unfed out =>
    match into_stream_parser p1 with
    | inl s0 =>
      match (if presel =? 0 then SetOk s0 else set_stream s0 (Some presel)) with
      | SetOk s1 =>
        let rq := sreq s1 in
        let r0 := mkR s1 (len (role_input_streams (r_role rq)) <=? 1) false false in
        let w0 := mkW (arg a 1) (arg a 2) [(0, 0, unfed)] out (len wire - len unfed) 1 0 false vect [] in
        let w1 := w_ev w0 [300; if rwriteable r0 then 1 else 0; stream_code (stream s1)] in
        let fin (o : outcome) (w : world) (code : list N) : args :=
          let cnt := [consumed w; len (arg a 1) - len (rscript w); len (arg a 2) - len (wscript w)] in
          match o with
          | ORet => [[0; epoch w] ++ code; cnt; wlog w] ++ rev (events w)
          | ODeadlock => [[1; epoch w]; cnt; wlog w] ++ rev (events w)
          | OPanic n => [[18446744073710440504]; cnt; wlog w] ++ rev (events w)
          | OFuel => [[888887]; cnt; wlog w] ++ rev (events w)
          end in
        match run_handler maxc (length script + 2) script r0 w1 with
        | Halt o w2 => fin o w2 []
        | Ok (inl (d, c), r1) w2 =>
          if leak && rwriteable r1 then
            (* a StreamWriter outlives the handler: Request::close does its reading part (writeable(), set_stream(None), record_boundary())
               and then refuses, before writing anything, with an error of kind Other (mod.rs:452-457) *)
            match do_writeable maxc r1 w2 with
            | Halt o w3 => fin o w3 []
            | Ok (e, r2) w3 =>
              if (match e with None => true | Some k => (k =? EK_Aborted) && raborted r2 end) then
                match set_stream (rsp r2) None with
                | SetOk p2 =>
                  match record_boundary maxc (mkR p2 (rwriteable r2) (rlock r2) (raborted r2)) w3 with
                  | Halt o w4 => fin o w4 []
                  | Ok (Some k, _) w4 => fin ORet w4 [20 + k]
                  | Ok (None, _) w4 => fin ORet w4 [20 + EK_Other]
                  end
                | _ => [[18446744073710440504]]
                end
              else fin ORet w3 [20 + match e with Some k => k | None => 0 end]
            end
          else
          match do_close maxc r1 d c w2 with
          | Halt o w3 => fin o w3 []
          | Ok (inl _) w3 => fin ORet w3 [10]
          | Ok (inr k) w3 => fin ORet w3 [20 + k]
          end
        | Ok (inr k, _) w2 => fin ORet w2 [40 + k]
        end
      | _ => [[3]]
      end
    | inr _ => [[3]]
    end
  | _ => [[3]]
  end.

(* flush_fault <variant, fail_at>: harness-side liveness assertion for a failing poll_flush of the transport (harness/src/conn.rs); the
   scripted world has no flush faults, the model's answer is the expected observation *)
Definition run_flush_fault (a : args) : args := [[1]].
