(* Extract/Runs.v — uniform executable interface of the model for the correspondence check.
   Every mode is a function [list (list N) -> list (list N)]: arguments and observations are lists
   of numbers; the OCaml driver and the Rust harness print them in one canonical text format.
   This file is glue (trusted only as part of the correspondence check); no theorem depends on it. *)
From FV Require Import Base.Bytes Gen.Generated Codec.Varint.

Definition args := list (list N).
Definition arg (a : args) (i : nat) : list N := nth i a [].
Definition argn (a : args) (i : nat) : N := hd 0 (arg a i).
Definition BAD : args := [[999999]].

(* ---- C15 ---- *)
Definition run_vi_read (a : args) : args :=
  match vi_read (arg a 0) with None => [[0]] | Some (v, r) => [[1]; [v]; r] end.
Definition run_vi_write (a : args) : args :=
  match vi_try_from_u32 (argn a 0) with None => [[0]] | Some v => [[1]; vi_write v] end.
Definition run_vi_try (a : args) : args :=
  [ match vi_try_from_u32 (argn a 0) with None => [0] | Some v => [1; v] end;
    match vi_try_from_usize (argn a 0) with None => [0] | Some v => [1; v] end ].

(* ---- C16 ---- *)
From FV Require Import Codec.NV.
Definition flat_pairs (ps : list (bytes * bytes)) : args :=
  flat_map (fun p => [fst p; snd p]) ps.
Definition run_nv_run (a : args) : args :=
  let d := arg a 0 in
  let '(ps, rest) := nv_run d in
  [[len ps]; [nv_size_hint d]] ++ flat_pairs ps ++ [rest].
Definition run_nv_write (a : args) : args :=
  match nv_write (arg a 0) (arg a 1) with
  | None => [[0]]
  | Some e => [[1]; [nv_write_count (arg a 0) (arg a 1)]; e]
  end.
(* huge components, by length only: does the conversion of the two lengths succeed? *)
Definition run_nv_write_big (a : args) : args :=
  match vi_try_from_usize (argn a 0), vi_try_from_usize (argn a 1) with
  | Some nl, Some vl => [[1]; [len (vi_write nl) + len (vi_write vl) + nl + vl]]
  | _, _ => [[0]]
  end.
