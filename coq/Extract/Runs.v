(* Extract/Runs.v — uniform executable interface of the model for the correspondence check.
   Every mode is a function [list (list N) -> list (list N)]: arguments and observations are lists
   of numbers; the OCaml driver and the Rust harness print them in one canonical text format.
   This file is glue (trusted only as part of the correspondence check); no theorem depends on it. *)
From FV Require Import Base.Bytes Gen.Generated Codec.Varint.

Definition args := list (list N).
Definition arg (a : args) (i : nat) : list N := nth i a [].
Definition argn (a : args) (i : nat) : N := hd 0 (arg a i).
Definition BAD : args := [[999999]].

(* ---- C15 ---- *)
Definition run_vi_read (a : args) : args :=
  match vi_read (arg a 0) with None => [[0]] | Some (v, r) => [[1]; [v]; r] end.
Definition run_vi_write (a : args) : args :=
  match vi_try_from_u32 (argn a 0) with None => [[0]] | Some v => [[1]; vi_write v] end.
Definition run_vi_try (a : args) : args :=
  [ match vi_try_from_u32 (argn a 0) with None => [0] | Some v => [1; v] end;
    match vi_try_from_usize (argn a 0) with None => [0] | Some v => [1; v] end ].

(* ---- C16 ---- *)
From FV Require Import Codec.NV.
Definition flat_pairs (ps : list (bytes * bytes)) : args :=
  flat_map (fun p => [fst p; snd p]) ps.
Definition run_nv_run (a : args) : args :=
  let d := arg a 0 in
  let '(ps, rest) := nv_run d in
  [[len ps]; [nv_size_hint d]] ++ flat_pairs ps ++ [rest].
Definition run_nv_write (a : args) : args :=
  match nv_write (arg a 0) (arg a 1) with
  | None => [[0]]
  | Some e => [[1]; [nv_write_count (arg a 0) (arg a 1)]; e]
  end.
(* huge components, by length only: does the conversion of the two lengths succeed? *)
Definition run_nv_write_big (a : args) : args :=
  match vi_try_from_usize (argn a 0), vi_try_from_usize (argn a 1) with
  | Some nl, Some vl => [[1]; [len (vi_write nl) + len (vi_write vl) + nl + vl]]
  | _, _ => [[0]]
  end.

(* ---- C17 ---- *)
From FV Require Import Codec.Header Codec.Bodies Codec.Vars.
Definition run_hdr_decode (a : args) : args :=
  match hdr_decode (arg a 0) with
  | HOk t id cl pl => [[0; t; id; cl; pl]]
  | HBadVersion v => [[1; v]]
  | HBadType t => [[2; t]]
  end.
Definition run_hdr_encode (a : args) : args :=
  [hdr_encode (argn a 0) (argn a 1) (argn a 2) (argn a 3)].
Definition run_pad (a : args) : args := [[auto_padding (argn a 0)]].
Definition run_begin_decode (a : args) : args :=
  match begin_decode (arg a 0) with
  | (role, None) => [[0; role]]
  | (_, Some (role, flags)) => [[1; role; flags]; begin_encode role flags; begin_record role flags (argn a 1)]
  end.
Definition run_end_decode (a : args) : args :=
  match end_decode (arg a 0) with
  | None => [[0; nthN (arg a 0) 4]]
  | Some (ast, ps) => [[1; ast; ps]; end_encode ast ps; end_record ast ps (argn a 1)]
  end.
Definition run_unk_decode (a : args) : args :=
  let t := unk_decode (arg a 0) in [[t]; unk_encode t; unk_record t (argn a 1)].
Definition run_exit_map (a : args) : args :=
  match exit_to_end (argn a 0) (argn a 1) with None => [[0]] | Some (ast, ps) => [[1; ast; ps]] end.
Definition run_parse_name (a : args) : args :=
  match parse_name (arg a 0) with None => [[0]] | Some b => [[1; b]] end.
(* gvr <vars> <maxc> <prefix>: returned length and the buffer after the call *)
Definition run_gvr (a : args) : args :=
  let w := write_response (argn a 0) (argn a 1) in [[len w]; arg a 2 ++ w].
(* constants of the compiled crate vs the regenerated tables *)
Definition run_consts (a : args) : args :=
  [ RTYPE_VALUES; IS_MANAGEMENT; IS_INPUT_STREAM; IS_OUTPUT_STREAM; ROLE_VALUES; PSTATUS_VALUES; VERSION_VALUES;
    flat_map (fun r => r :: len (role_input_streams r) :: role_input_streams r) ROLE_VALUES;
    flat_map (fun r => flat_map (fun c =>
                 if match c with Some x => memN x (role_input_streams r) | None => true end
                 then match next_input_stream r c with Some x => [x] | None => [0] end
                 else [18446744073710440504])                      (* debug_assert in next_input_stream *)
                                [None; Some RT_Stdin; Some RT_Data]) ROLE_VALUES;
    ROLE_OUTPUT_STREAMS;
    [HEADER_LEN; UnknownType_LEN; BeginRequest_LEN; EndRequest_LEN; RESPONSE_LEN; VARINT_MAX; FCGI_NULL_REQUEST_ID;
     FLAG_KeepConn; EXIT_ABORT_CODE; EXIT_SUCCESS_CODE];
    flat_map (fun e => snd e :: len (fst e) :: fst e) PROTOCOL_VARIABLES ].
