(* Extract/RunsWriters.v — run mode `writers` (C10).  Glue only. *)
From FV Require Import Base.Bytes Gen.Generated Parser.ReqModel Parser.StreamModel Async.Conn Async.Writer
  Extract.Runs Extract.RunsReq.

Definition run_writers (a : args) : args :=
  let cfg := arg a 0 in
  let B := nth 0 cfg 0 in let maxc := N.max 1 (nth 1 cfg 0) in
  let vect := negb (nth 2 cfg 0 =? 0) in
  let wire := arg a 3 in
  let w0 := mkW [] (arg a 1) [(0, 0, wire); (99, 0, [1; 1; 0; 9; 0; 8; 0; 0])] [] 0 1 0 false vect [] in
  let order := arg a 2 in
  let specs := skipn 4 a in
  match parse_request norm_impl maxc (io_fuel w0 0) (new_parser B) [] w0 with
  | Halt _ w => [[888887]; wlog w]
  | Ok (inr _) w => [[0; epoch w]; wlog w]
  | Ok (inl s0) w =>
    let r0 := mkR s0 (len (Header.role_input_streams (r_role (sreq s0))) <=? 1) false false in
    (* a clone writes to the stream of its original *)
    let fix mk (l : list (list N)) (built : list wr) : list wr :=
      match l with
      | [] => built
      | s :: t =>
        let st := if nth 1 s 999 =? 999 then nth 0 s 0
                  else wr_type (nth (N.to_nat (nth 1 s 0)) built (mkWr (nth 0 s 0) [] [] false true)) in
        mk t (built ++ [mkWr st (skipn 2 s) [] false false])
      end in
    let ws := mk specs [] in
    let total := (length order + 4 * length ws + 8 + length (wscript w) +
                  fold_left (fun acc x => Nat.add acc (N.to_nat (len (wr_data x) / 4000))) ws 0%nat)%nat in
    let '(s, errd, steps) := wsteps maxc (8 * total + 64) order 0 0 (mkWS ws HNone r0 w) false [] in
    let obs := rev steps in
    if errd then [[0; epoch (ws_world s)]; wlog (ws_world s)] ++ obs
    else
      match do_close maxc (ws_req s) EXIT_Complete EXIT_SUCCESS_CODE (ws_world s) with
      | Halt ODeadlock w' => [[1; epoch w']; wlog w'] ++ obs
      | Halt _ w' => [[888887]; wlog w'] ++ obs
      | Ok _ w' => [[0; epoch w']; wlog w'] ++ obs
      end
  end.
