(* Base/BytesLemmas.v — lemmas about the N-indexed list operations of Base/Bytes.v. *)
From Coq Require Import ZArith.
From FV Require Import Base.Bytes.
From Coq Require Import ZifyBool ZifyNat ZifyN.
Ltac Zify.zify_post_hook ::= Z.div_mod_to_equations.

Lemma len_nil {A} : len (@nil A) = 0.
Proof. reflexivity. Qed.

Lemma len_cons {A} (x : A) l : len (x :: l) = len l + 1.
Proof. unfold len; cbn [length]; lia. Qed.

Lemma len_app {A} (a b : list A) : len (a ++ b) = len a + len b.
Proof. unfold len; rewrite app_length; lia. Qed.

Lemma len_zero_nil {A} (l : list A) : len l = 0 -> l = [].
Proof. destruct l; [reflexivity|]; rewrite len_cons; lia. Qed.

Lemma len_take {A} n (l : list A) : len (take n l) = N.min n (len l).
Proof. unfold len, take; rewrite firstn_length; lia. Qed.

Lemma len_drop {A} n (l : list A) : len (drop n l) = len l - n.
Proof. unfold len, drop; rewrite skipn_length; lia. Qed.

Lemma take_drop {A} n (l : list A) : take n l ++ drop n l = l.
Proof. apply firstn_skipn. Qed.

Lemma take_all {A} n (l : list A) : len l <= n -> take n l = l.
Proof. unfold len, take; intros H; apply firstn_all2; lia. Qed.

Lemma drop_all {A} n (l : list A) : len l <= n -> drop n l = [].
Proof. unfold len, drop; intros H; apply skipn_all2; lia. Qed.

Lemma take_0 {A} (l : list A) : take 0 l = [].
Proof. reflexivity. Qed.

Lemma drop_0 {A} (l : list A) : drop 0 l = l.
Proof. reflexivity. Qed.

Lemma take_app_le {A} n (a b : list A) : n <= len a -> take n (a ++ b) = take n a.
Proof.
  unfold len, take; intros H. rewrite firstn_app.
  replace (N.to_nat n - length a)%nat with O by lia. cbn [firstn]. apply app_nil_r.
Qed.

Lemma take_app_ge {A} n (a b : list A) : len a <= n -> take n (a ++ b) = a ++ take (n - len a) b.
Proof.
  unfold len, take; intros H. rewrite firstn_app. rewrite firstn_all2 by lia.
  f_equal. f_equal. lia.
Qed.

Lemma drop_app_le {A} n (a b : list A) : n <= len a -> drop n (a ++ b) = drop n a ++ b.
Proof.
  unfold len, drop; intros H. rewrite skipn_app.
  replace (N.to_nat n - length a)%nat with O by lia. reflexivity.
Qed.

Lemma drop_app_ge {A} n (a b : list A) : len a <= n -> drop n (a ++ b) = drop (n - len a) b.
Proof.
  unfold len, drop; intros H. rewrite skipn_app. rewrite skipn_all2 by lia.
  cbn [app]. f_equal. lia.
Qed.

Lemma take_len_app {A} (a b : list A) : take (len a) (a ++ b) = a.
Proof. rewrite take_app_le by lia. apply take_all; lia. Qed.

Lemma drop_len_app {A} (a b : list A) : drop (len a) (a ++ b) = b.
Proof. rewrite drop_app_ge by lia. replace (len a - len a) with 0 by lia. reflexivity. Qed.

Lemma drop_drop {A} n m (l : list A) : drop n (drop m l) = drop (m + n) l.
Proof.
  unfold drop. replace (N.to_nat (m + n)) with (N.to_nat m + N.to_nat n)%nat by lia.
  generalize (N.to_nat n) as j. revert l. induction (N.to_nat m) as [|k IH]; intros l j; [reflexivity|].
  destruct l as [|x l]; cbn [skipn plus]; [apply skipn_nil|apply IH].
Qed.

Lemma take_take {A} n m (l : list A) : take n (take m l) = take (N.min n m) l.
Proof.
  unfold take. rewrite firstn_firstn. f_equal. lia.
Qed.

Lemma take_add {A} n m (l : list A) : take (n + m) l = take n l ++ take m (drop n l).
Proof.
  unfold take, drop. replace (N.to_nat (n + m)) with (N.to_nat n + N.to_nat m)%nat by lia.
  revert l. induction (N.to_nat n) as [|k IH]; intros l; [reflexivity|].
  destruct l as [|x l]; cbn [firstn skipn plus app].
  - rewrite firstn_nil. reflexivity.
  - rewrite IH. reflexivity.
Qed.

Lemma drop_nil {A} n : drop n (@nil A) = [].
Proof. unfold drop. apply skipn_nil. Qed.

Lemma take_nil {A} n : take n (@nil A) = [].
Proof. unfold take. apply firstn_nil. Qed.

Lemma drop_cons_succ {A} n (x : A) l : 0 < n -> drop n (x :: l) = drop (n - 1) l.
Proof.
  unfold drop; intros H. replace (N.to_nat n) with (S (N.to_nat (n - 1))) by lia. reflexivity.
Qed.

Lemma take_cons_succ {A} n (x : A) l : 0 < n -> take n (x :: l) = x :: take (n - 1) l.
Proof.
  unfold take; intros H. replace (N.to_nat n) with (S (N.to_nat (n - 1))) by lia. reflexivity.
Qed.

Lemma bytes_ok_app a b : bytes_ok (a ++ b) <-> bytes_ok a /\ bytes_ok b.
Proof. apply Forall_app. Qed.

Lemma bytes_ok_take n l : bytes_ok l -> bytes_ok (take n l).
Proof. unfold bytes_ok, take; intros H. rewrite <- (firstn_skipn (N.to_nat n) l) in H.
  apply Forall_app in H; tauto. Qed.

Lemma bytes_ok_drop n l : bytes_ok l -> bytes_ok (drop n l).
Proof. unfold bytes_ok, drop; intros H. rewrite <- (firstn_skipn (N.to_nat n) l) in H.
  apply Forall_app in H; tauto. Qed.

Lemma bytes_okb_ok l : bytes_okb l = true <-> bytes_ok l.
Proof.
  unfold bytes_okb, bytes_ok, byte_ok. rewrite forallb_forall, Forall_forall.
  split; intros H x Hx; specialize (H x Hx); lia.
Qed.

Lemma beq_eq a b : beq a b = true <-> a = b.
Proof.
  revert b; induction a as [|x a IH]; intros [|y b]; cbn [beq]; split; try congruence; try reflexivity.
  - intros H. apply andb_true_iff in H as [H1 H2]. apply N.eqb_eq in H1. apply IH in H2. congruence.
  - intros H; inversion H; subst. rewrite N.eqb_refl. cbn. apply IH. reflexivity.
Qed.

Lemma len_repeatN {A} (x : A) n : len (repeatN x n) = N.of_nat n.
Proof. unfold len. induction n; cbn [repeatN length]; lia. Qed.

Lemma len_zeros n : len (zeros n) = n.
Proof. unfold zeros. rewrite len_repeatN. lia. Qed.

Lemma bytes_ok_zeros n : bytes_ok (zeros n).
Proof. unfold zeros. induction (N.to_nat n); cbn [repeatN]; constructor; [unfold byte_ok; lia|assumption]. Qed.


(* Finite sweeps over bytes, lifted to a universally quantified statement:
   a boolean predicate that evaluates to true on 0..n-1 holds for every b < n. *)
Definition N_range (n : nat) : list N := map N.of_nat (seq 0 n).

Lemma N_range_complete n b : b < N.of_nat n -> In b (N_range n).
Proof.
  intros H. unfold N_range. apply in_map_iff. exists (N.to_nat b). split; [lia|].
  apply in_seq. lia.
Qed.

Lemma sweep_lt (P : N -> bool) (n : nat) :
  forallb P (N_range n) = true -> forall b, b < N.of_nat n -> P b = true.
Proof.
  intros H b Hb. rewrite forallb_forall in H. apply H. apply N_range_complete. exact Hb.
Qed.

Lemma sweep_byte (P : N -> bool) :
  forallb P (N_range 256) = true -> forall b, b < 256 -> P b = true.
Proof. intros H b Hb. apply (sweep_lt P 256 H). exact Hb. Qed.

(* reduce [nthN l k] for a literal index k and an explicit list prefix *)
Ltac nthN_red :=
  unfold nthN;
  repeat match goal with
         | |- context [N.to_nat ?p] =>
           let v := eval compute in (N.to_nat p) in change (N.to_nat p) with v
         end;
  cbn [nth].
