(* Base/Bytes.v — byte strings as [list N], N-indexed list operations, machine-integer helpers.
   Model conventions: DESIGN.md section 4. *)
From Coq Require Export List NArith Bool Lia.
Export ListNotations.
Open Scope N_scope.

Arguments N.add : simpl never.
Arguments N.sub : simpl never.
Arguments N.mul : simpl never.
Arguments N.div : simpl never.
Arguments N.modulo : simpl never.
Arguments N.eqb : simpl never.
Arguments N.ltb : simpl never.
Arguments N.leb : simpl never.
Arguments N.land : simpl never.
Arguments N.lor : simpl never.
Arguments N.shiftr : simpl never.
Arguments N.shiftl : simpl never.
Arguments N.pow : simpl never.
Arguments N.min : simpl never.
Arguments N.max : simpl never.

Definition bytes := list N.

Definition len {A} (l : list A) : N := N.of_nat (length l).
Definition take {A} (n : N) (l : list A) : list A := firstn (N.to_nat n) l.
Definition drop {A} (n : N) (l : list A) : list A := skipn (N.to_nat n) l.
(* l[a..b] *)
Definition slice {A} (a b : N) (l : list A) : list A := take (b - a) (drop a l).
Definition nthN (l : bytes) (i : N) : N := nth (N.to_nat i) l 0.

Definition byte_ok (b : N) : Prop := b < 256.
Definition bytes_ok (l : bytes) : Prop := Forall byte_ok l.
Definition bytes_okb (l : bytes) : bool := forallb (fun b => b <? 256) l.

Fixpoint repeatN {A} (x : A) (n : nat) : list A :=
  match n with O => [] | S k => x :: repeatN x k end.
Definition zeros (n : N) : bytes := repeatN 0 (N.to_nat n).

(* big-endian 16/32-bit composition and decomposition, as u16::from_be_bytes / to_be_bytes *)
Definition be16 (b0 b1 : N) : N := b0 * 256 + b1.
Definition be32 (b0 b1 b2 b3 : N) : N := ((b0 * 256 + b1) * 256 + b2) * 256 + b3.
Definition to_be16 (v : N) : bytes := [v / 256 mod 256; v mod 256].
Definition to_be32 (v : N) : bytes := [v / 16777216 mod 256; v / 65536 mod 256; v / 256 mod 256; v mod 256].

(* list equality on bytes *)
Fixpoint beq (a b : bytes) : bool :=
  match a, b with
  | [], [] => true
  | x :: a', y :: b' => (x =? y) && beq a' b'
  | _, _ => false
  end.
