(* Parser/ReqParams.v — proofs of the four statements of Parser/ReqParamsSpec.v about
   ParamsStateInner::{parse_buffered, parse_stream} and try_fill! (request.rs:230-374).

   Route: [pb_char]/[pb_spec] characterise one call of parse_buffered on buffer ++ data by ONE
   nv_next on the concatenation (complete pair: inserted, buffer cleared; incomplete: the buffer
   grows by whole header stages only, see [stage], or by everything when the record ends);
   [ps_nil]/[ps_buf] lift this to parse_stream; S1, S2, S4 follow, S3 by case analysis on how far
   the first call gets. *)
From Coq Require Import ZArith.
From FV Require Import Base.Bytes Base.BytesLemmas Gen.Generated Codec.Varint Codec.VarintProofs Codec.NV Codec.NVProofs Parser.ReqModel Parser.ReqParamsSpec.
From Coq Require Import ZifyBool ZifyNat ZifyN.
Ltac Zify.zify_post_hook ::= Z.div_mod_to_equations.

(* ---- generic list facts ---- *)
Lemma nthN_drop k (X : bytes) j : nthN (drop k X) j = nthN X (k + j).
Proof.
  unfold nthN, drop. replace (N.to_nat (k + j)) with (N.to_nat k + N.to_nat j)%nat by lia.
  generalize (N.to_nat j) as jj. revert X. induction (N.to_nat k) as [|kk IH]; intros X jj; [reflexivity|].
  destruct X as [|x X]; cbn [skipn plus nth]; [destruct jj; reflexivity|apply IH].
Qed.

Lemma nthN_app_l (a b : bytes) i : i < len a -> nthN (a ++ b) i = nthN a i.
Proof. unfold nthN, len. intros H. apply app_nth1. lia. Qed.

Lemma nthN_take m (X : bytes) i : i < m -> nthN (take m X) i = nthN X i.
Proof.
  intros H. destruct (N.lt_ge_cases i (len (take m X))) as [Hl|Hl].
  - rewrite <- (take_drop m X) at 2. rewrite nthN_app_l by exact Hl. reflexivity.
  - rewrite len_take in Hl. unfold nthN. rewrite !nth_overflow; [reflexivity| |].
    + unfold len in Hl. lia.
    + pose proof (len_take m X) as L. unfold len in L, Hl. lia.
Qed.

Lemma drop_take {A} a b (X : list A) : drop a (take b X) = take (b - a) (drop a X).
Proof.
  unfold drop, take. rewrite skipn_firstn_comm. f_equal. lia.
Qed.

Lemma nthN_cons_0 x (X : bytes) : nthN (x :: X) 0 = x.
Proof. reflexivity. Qed.

(* ---- one VarInt ---- *)
Definition vl_of (X : bytes) : N := 1 + (nthN X 0 / 128) * 3.

Lemma vi_read_ok X : bytes_ok X -> 0 < len X -> vl_of X <= len X ->
  exists x, vi_read X = Some (x, drop (vl_of X) X).
Proof.
  intros Hok Hpos Hl. pose proof (vi_read_complete X Hok) as C.
  destruct X as [|b0 r]; [unfold len in Hpos; cbn [length] in Hpos; lia|].
  inversion Hok as [|? ? Hb0 Hr]; subst. unfold byte_ok in Hb0.
  unfold vl_of in *. rewrite nthN_cons_0 in *.
  destruct (vi_read (b0 :: r)) as [[v c]|].
  - destruct C as [_ [h [Hd Hh]]]. exists v. do 2 f_equal.
    assert (Hlen : 1 + b0 / 128 * 3 = len h) by (destruct (N.ltb_spec b0 128); lia).
    rewrite Hlen, Hd. symmetry. apply drop_len_app.
  - destruct C as [C1 C2]. rewrite len_cons in Hl. lia.
Qed.

Lemma vi_read_fail X : bytes_ok X -> len X < vl_of X -> vi_read X = None.
Proof.
  intros Hok Hl. pose proof (vi_read_complete X Hok) as C.
  destruct (vi_read X) as [[v c]|]; [|reflexivity].
  destruct X as [|b0 r]; [destruct C as [_ [h [_ []]]]|].
  inversion Hok as [|? ? Hb0 Hr]; subst. unfold byte_ok in Hb0.
  unfold vl_of in Hl. rewrite nthN_cons_0 in Hl.
  destruct C as [_ [h [Hd Hh]]]. rewrite Hd in Hl. rewrite len_app in Hl.
  destruct (N.ltb_spec b0 128); lia.
Qed.

(* ---- the two-VarInt header ---- *)
Definition hl1_of (X : bytes) : N := 2 + (nthN X 0 / 128) * 3.
Definition hl2_of (X : bytes) : N := hl1_of X + (nthN X (hl1_of X - 1) / 128) * 3.
Definition nl_of (X : bytes) : N := match vi_read X with Some (x, _) => x | None => 0 end.
Definition vll_of (X : bytes) : N := nl_of (drop (hl1_of X - 1) X).
Definition tot_of (X : bytes) : N := hl2_of X + nl_of X + vll_of X.

Lemma hl1_vl X : hl1_of X - 1 = vl_of X.
Proof. unfold hl1_of, vl_of. lia. Qed.

Lemma hl2_vl X : hl2_of X = vl_of X + vl_of (drop (vl_of X) X).
Proof.
  unfold hl2_of. rewrite hl1_vl. unfold vl_of at 3. rewrite nthN_drop.
  replace (vl_of X + 0) with (vl_of X) by lia. unfold hl1_of, vl_of. lia.
Qed.

Lemma hl_bounds X : 2 <= hl1_of X /\ hl1_of X <= hl2_of X /\ hl2_of X <= tot_of X /\ 1 <= vl_of X.
Proof. unfold tot_of, hl2_of, hl1_of, vl_of. lia. Qed.

Lemma hdr_ok X : bytes_ok X -> hl2_of X <= len X ->
  vi_read X = Some (nl_of X, drop (hl1_of X - 1) X) /\
  vi_read (drop (hl1_of X - 1) X) = Some (vll_of X, drop (hl2_of X) X).
Proof.
  intros Hok Hl. pose proof (hl_bounds X) as HB. pose proof (hl1_vl X) as H1. pose proof (hl2_vl X) as H2.
  unfold vll_of. rewrite H1.
  destruct (vi_read_ok X Hok ltac:(lia) ltac:(lia)) as [x Ex].
  assert (Hok' : bytes_ok (drop (vl_of X) X)) by (apply bytes_ok_drop; exact Hok).
  destruct (vi_read_ok (drop (vl_of X) X) Hok') as [y Ey].
  { rewrite len_drop. lia. }
  { rewrite len_drop. lia. }
  rewrite drop_drop in Ey. rewrite <- H2 in Ey.
  unfold nl_of. rewrite Ex, Ey. split; reflexivity.
Qed.

Lemma hdr_short X : bytes_ok X -> len X < hl2_of X -> nv_next X = None.
Proof.
  intros Hok Hl. pose proof (hl_bounds X) as HB. pose proof (hl2_vl X) as H2.
  unfold nv_next. destruct (vi_read X) as [[nl c1]|] eqn:E1; [|reflexivity].
  destruct (N.lt_ge_cases (len X) (vl_of X)) as [Hs|Hs].
  - rewrite (vi_read_fail X Hok Hs) in E1. discriminate.
  - destruct (vi_read_ok X Hok ltac:(lia) Hs) as [x Ex]. rewrite Ex in E1. inversion E1; subst.
    rewrite vi_read_fail; [reflexivity|apply bytes_ok_drop; exact Hok|].
    rewrite len_drop. lia.
Qed.

Lemma nv_next_char X : bytes_ok X -> len X <= USIZE_MAX ->
  nv_next X =
    if len X <? tot_of X then None
    else Some (take (nl_of X) (drop (hl2_of X) X),
               take (vll_of X) (drop (hl2_of X + nl_of X) X), drop (tot_of X) X).
Proof.
  intros Hok Hsz. pose proof (hl_bounds X) as HB.
  destruct (N.lt_ge_cases (len X) (hl2_of X)) as [Hs|Hs].
  - rewrite (hdr_short X Hok Hs). destruct (N.ltb_spec (len X) (tot_of X)); [reflexivity|lia].
  - destruct (hdr_ok X Hok Hs) as [E1 E2]. unfold nv_next. rewrite E1, E2.
    replace (len X - len (drop (hl2_of X) X)) with (hl2_of X) by (rewrite len_drop; lia).
    fold (tot_of X).
    destruct (N.ltb_spec (len X) (tot_of X)) as [Ht|Ht].
    + destruct (USIZE_MAX <? tot_of X); reflexivity.
    + destruct (N.ltb_spec USIZE_MAX (tot_of X)); [lia|].
      rewrite drop_take. do 2 f_equal. f_equal.
      * rewrite take_take. f_equal. unfold tot_of. lia.
      * rewrite drop_take, drop_drop. f_equal. unfold tot_of. lia.
Qed.

Lemma hdr_take X m : hl2_of X <= m -> hl1_of (take m X) = hl1_of X /\ hl2_of (take m X) = hl2_of X.
Proof.
  intros Hm. pose proof (hl_bounds X) as HB.
  assert (E1 : hl1_of (take m X) = hl1_of X).
  { unfold hl1_of. rewrite nthN_take by lia. reflexivity. }
  split; [exact E1|]. unfold hl2_of. rewrite E1. rewrite nthN_take by lia. reflexivity.
Qed.

Lemma vals_take X m : bytes_ok X -> hl2_of X <= m -> hl2_of X <= len X ->
  nl_of (take m X) = nl_of X /\ vll_of (take m X) = vll_of X.
Proof.
  intros Hok Hm Hl. destruct (hdr_take X m Hm) as [T1 T2].
  destruct (hdr_ok X Hok Hl) as [E1 E2].
  destruct (hdr_ok (take m X)) as [F1 F2].
  { apply bytes_ok_take; exact Hok. }
  { rewrite T2, len_take. lia. }
  rewrite T1 in F1, F2. rewrite T2 in F2.
  apply (vi_read_app _ _ _ (drop m X)) in F1. rewrite take_drop in F1. rewrite E1 in F1.
  inversion F1 as [[Hn Hc]]. split; [reflexivity|].
  apply (vi_read_app _ _ _ (drop m X)) in F2. rewrite <- Hc in F2. rewrite E2 in F2.
  inversion F2 as [[Hv Hc2]]. reflexivity.
Qed.

Lemma tot_take X m : bytes_ok X -> hl2_of X <= m -> hl2_of X <= len X -> tot_of (take m X) = tot_of X.
Proof.
  intros Hok Hm Hl. destruct (hdr_take X m Hm) as [T1 T2]. destruct (vals_take X m Hok Hm Hl) as [V1 V2].
  unfold tot_of. rewrite T2, V1, V2. reflexivity.
Qed.

(* a buffer that holds no complete pair ends strictly before the end of the pair it starts *)
Lemma buf_lt_tot T m : bytes_ok T -> len T <= USIZE_MAX -> m <= len T -> nv_next (take m T) = None ->
  hl2_of T <= len T -> m < tot_of T.
Proof.
  intros Hok Hsz Hm Hn Hl. pose proof (hl_bounds T) as HB.
  destruct (N.lt_ge_cases m (hl2_of T)) as [Hs|Hs]; [lia|].
  rewrite nv_next_char in Hn; [|apply bytes_ok_take; exact Hok|rewrite len_take; lia].
  rewrite (tot_take T m Hok Hs Hl) in Hn. rewrite len_take in Hn.
  destruct (N.ltb_spec (N.min m (len T)) (tot_of T)); [lia|discriminate].
Qed.

(* ---- try_fill on a split of one string T ---- *)
Lemma try_fill_ok T m want e : m <= len T -> want <= len T ->
  try_fill (take m T) (drop m T) want e = (take (N.max m want) T, drop (N.max m want) T, 0).
Proof.
  intros Hm Hw. unfold try_fill. rewrite len_take, len_drop.
  replace (N.min m (len T)) with m by lia.
  destruct (N.ltb_spec m want) as [H|H].
  - destruct (N.leb_spec (want - m) (len T - m)) as [H2|H2]; [|lia].
    replace (N.max m want) with (m + (want - m)) by lia.
    rewrite take_add, drop_drop. reflexivity.
  - replace (N.max m want) with m by lia. reflexivity.
Qed.

Lemma try_fill_short T m want e : m <= len T -> len T < want ->
  try_fill (take m T) (drop m T) want e = if e then (T, [], 1) else (take m T, drop m T, 2).
Proof.
  intros Hm Hw. unfold try_fill. rewrite len_take, len_drop.
  replace (N.min m (len T)) with m by lia.
  destruct (N.ltb_spec m want) as [H|H]; [|lia].
  destruct (N.leb_spec (want - m) (len T - m)) as [H2|H2]; [lia|].
  rewrite take_drop. reflexivity.
Qed.

Definition stage (T : bytes) (m : N) : N :=
  if len T <? hl1_of T then m
  else if len T <? hl2_of T then N.max m (hl1_of T) else N.max m (hl2_of T).

Lemma stage_bounds T m : m <= len T -> m <= stage T m /\ stage T m <= len T.
Proof.
  intros H. unfold stage. destruct (N.ltb_spec (len T) (hl1_of T)); [lia|].
  destruct (N.ltb_spec (len T) (hl2_of T)); lia.
Qed.

Section Proofs.
Variable norm : bytes -> bytes.

Lemma pb_char r0 T m e : bytes_ok T -> len T <= USIZE_MAX -> 0 < m -> m <= len T ->
  nv_next (take m T) = None ->
  parse_buffered norm (mkInner r0 (take m T)) (drop m T) e =
    if len T <? tot_of T then
      (if e then Some (mkInner r0 T, []) else Some (mkInner r0 (take (stage T m) T), drop (stage T m) T))
    else Some (mkInner (env_insert norm r0 (take (nl_of T) (drop (hl2_of T) T))
                                   (take (vll_of T) (drop (hl2_of T + nl_of T) T))) [],
               drop (tot_of T) T).
Proof.
  intros Hok Hsz Hm0 Hm Hnone. pose proof (hl_bounds T) as HB.
  unfold parse_buffered. cbn [ibuf ireq].
  destruct (take m T) as [|b0 B'] eqn:EB.
  { assert (L : len (take m T) = 0) by (rewrite EB; reflexivity). rewrite len_take in L. lia. }
  assert (Hb0 : b0 = nthN T 0).
  { rewrite <- (nthN_take m T 0 Hm0). rewrite EB. reflexivity. }
  rewrite <- EB. rewrite Hb0. fold (hl1_of T).
  destruct (N.ltb_spec (len T) (hl1_of T)) as [HA|HA].
  { rewrite try_fill_short by lia.
    destruct (N.ltb_spec (len T) (tot_of T)); [|lia].
    unfold stage. destruct (N.ltb_spec (len T) (hl1_of T)); [|lia].
    destruct e; reflexivity. }
  rewrite try_fill_ok by lia. cbv beta iota. change (0 =? 0) with true. cbn [negb].
  rewrite nthN_take by lia.
  change (hl1_of T + nthN T (hl1_of T - 1) / 128 * 3) with (hl2_of T).
  destruct (N.ltb_spec (len T) (hl2_of T)) as [HB2|HB2].
  { rewrite try_fill_short by lia.
    destruct (N.ltb_spec (len T) (tot_of T)); [|lia].
    unfold stage. destruct (N.ltb_spec (len T) (hl1_of T)); [lia|].
    destruct (N.ltb_spec (len T) (hl2_of T)); [|lia].
    destruct e; reflexivity. }
  rewrite try_fill_ok by lia. cbv beta iota. change (0 =? 0) with true. cbn [negb].
  replace (N.max (N.max m (hl1_of T)) (hl2_of T)) with (N.max m (hl2_of T)) by lia.
  assert (Hst : stage T m = N.max m (hl2_of T)).
  { unfold stage. destruct (N.ltb_spec (len T) (hl1_of T)); [lia|].
    destruct (N.ltb_spec (len T) (hl2_of T)); [lia|reflexivity]. }
  rewrite Hst.
  set (m2 := N.max m (hl2_of T)).
  assert (Hm2 : hl2_of T <= m2 /\ m <= m2 /\ m2 <= len T) by lia.
  destruct (hdr_take T m2 ltac:(lia)) as [T1 T2].
  destruct (vals_take T m2 Hok ltac:(lia) HB2) as [V1 V2].
  assert (L2 : len (take m2 T) = m2) by (rewrite len_take; lia).
  destruct (hdr_ok (take m2 T)) as [F1 F2].
  { apply bytes_ok_take; exact Hok. }
  { rewrite T2, L2. lia. }
  rewrite T1, V1 in F1. rewrite T1, T2, V2 in F2.
  rewrite F1, F2. 
  assert (Lc : len (drop (hl2_of T) (take m2 T)) = m2 - hl2_of T) by (rewrite len_drop, L2; reflexivity).
  rewrite L2, Lc.
  replace (m2 - (m2 - hl2_of T)) with (hl2_of T) by lia.
  rewrite N.eqb_refl. cbn [negb].
  rewrite (len_drop m2 T). rewrite take_drop.
  rewrite <- EB in Hnone.
  pose proof (buf_lt_tot T m Hok Hsz Hm Hnone HB2) as Hlt.
  assert (Htot : tot_of T = hl2_of T + nl_of T + vll_of T) by reflexivity.
  destruct (N.ltb_spec (len T) (tot_of T)) as [HC|HC].
  { destruct (N.ltb_spec (m2 - hl2_of T + (len T - m2)) (nl_of T + vll_of T)); [reflexivity|lia]. }
  destruct (N.ltb_spec (m2 - hl2_of T + (len T - m2)) (nl_of T + vll_of T)); [lia|].
  destruct (N.eqb_spec (m2 - hl2_of T) 0) as [HD|HD].
  - cbv beta iota. change (0 =? 0) with true. cbn [negb].
    assert (Em2 : m2 = hl2_of T) by lia.
    rewrite (drop_all (hl2_of T + nl_of T) (take m2 T)) by (rewrite L2; lia).
    cbn [app]. rewrite len_nil, N.sub_0_r. rewrite len_drop, len_drop.
    destruct (N.ltb_spec (len T - m2 - nl_of T) (vll_of T)); [lia|].
    rewrite !drop_drop. rewrite Em2. rewrite Htot. reflexivity.
  - assert (Em2 : m2 = m) by lia.
    rewrite try_fill_ok by lia. cbv beta iota. change (0 =? 0) with true. cbn [negb].
    set (m3 := N.max m2 (hl2_of T + nl_of T)).
    assert (Hm3 : hl2_of T + nl_of T <= m3 /\ m3 <= len T /\ m3 <= tot_of T /\ hl2_of T <= m3) by (unfold m3; lia).
    clearbody m3.
    set (a := m3 - (hl2_of T + nl_of T)).
    assert (Ha : a = m3 - (hl2_of T + nl_of T)) by reflexivity. clearbody a.
    assert (Lv : len (drop (hl2_of T + nl_of T) (take m3 T)) = a).
    { rewrite len_drop, len_take. lia. }
    rewrite Lv. rewrite (len_drop m3 T).
    destruct (N.ltb_spec (len T - m3) (vll_of T - a)); [lia|].
    rewrite drop_drop. replace (m3 + (vll_of T - a)) with (tot_of T) by lia.
    unfold slice. rewrite (drop_take (hl2_of T) m3 T), take_take.
    replace (N.min (hl2_of T + nl_of T - hl2_of T) (m3 - hl2_of T)) with (nl_of T) by lia.
    replace (take (vll_of T) (drop (hl2_of T + nl_of T) T))
      with (take (a + (vll_of T - a)) (drop (hl2_of T + nl_of T) T)) by (f_equal; lia).
    rewrite take_add, drop_drop, drop_take.
    replace (hl2_of T + nl_of T + a) with m3 by lia.
    replace (m3 - (hl2_of T + nl_of T)) with a by lia. reflexivity.
Qed.

(* ---- parse_buffered against one nv_next on buffer ++ data ---- *)
Definition pb_res (r0 : req) (T : bytes) (m : N) (e : bool) : option (inner * bytes) :=
  match nv_next T with
  | Some (n, v, r) => Some (mkInner (env_insert norm r0 n v) [], r)
  | None => if e then Some (mkInner r0 T, [])
            else Some (mkInner r0 (take (stage T m) T), drop (stage T m) T)
  end.

Lemma pb_spec i D e : inner_ok i -> ibuf i <> [] -> bytes_ok D -> len (ibuf i ++ D) <= USIZE_MAX ->
  parse_buffered norm i D e = pb_res (ireq i) (ibuf i ++ D) (len (ibuf i)) e.
Proof.
  destruct i as [r0 B]. unfold inner_ok, buf_ok. cbn [ibuf ireq]. intros [HokB HnB] Hne HokD Hsz.
  set (T := B ++ D) in *.
  assert (HokT : bytes_ok T) by (apply bytes_ok_app; split; assumption).
  assert (EB : take (len B) T = B) by apply take_len_app.
  assert (ED : drop (len B) T = D) by apply drop_len_app.
  assert (Hm : len B <= len T) by (unfold T; rewrite len_app; lia).
  assert (Hm0 : 0 < len B).
  { destruct B as [|x B']; [congruence|]. rewrite len_cons. lia. }
  rewrite <- EB in HnB.
  pose proof (pb_char r0 T (len B) e HokT Hsz Hm0 Hm HnB) as P.
  rewrite EB, ED in P. rewrite P. unfold pb_res. rewrite (nv_next_char T HokT Hsz).
  destruct (len T <? tot_of T); reflexivity.
Qed.

(* ---- parse_stream ---- *)
Definition iterE (l : N) (e : bool) (r0 : req) (data : bytes) : option (inner * N) :=
  let '(ps, rest) := nv_run data in
  if e && negb (len rest =? 0) then Some (mkInner (env_extend norm r0 ps) rest, l)
  else Some (mkInner (env_extend norm r0 ps) [], l - len rest).

Definition ps_res (r0 : req) (T : bytes) (m l : N) (e : bool) : option (inner * N) :=
  match nv_next T with
  | Some (n, v, r) => iterE l e (env_insert norm r0 n v) r
  | None => if e then Some (mkInner r0 T, l)
            else Some (mkInner r0 (take (stage T m) T), stage T m - m)
  end.

Lemma ps_nil i q e : ibuf i = [] -> parse_stream norm i q e = iterE (len q) e (ireq i) q.
Proof.
  intros H. unfold parse_stream, iterE. rewrite H. destruct (nv_run q) as [ps rest]. reflexivity.
Qed.

Lemma ps_buf i q e : inner_ok i -> ibuf i <> [] -> bytes_ok q -> len (ibuf i ++ q) <= USIZE_MAX ->
  parse_stream norm i q e = ps_res (ireq i) (ibuf i ++ q) (len (ibuf i)) (len q) e.
Proof.
  intros Hi Hne Hq Hsz. unfold parse_stream. rewrite (pb_spec i q e Hi Hne Hq Hsz).
  unfold pb_res, ps_res.
  assert (Hm0 : 0 < len (ibuf i)).
  { destruct (ibuf i) as [|x B']; [congruence|]. rewrite len_cons. lia. }
  destruct (ibuf i) as [|b0 B'] eqn:EB; [congruence|]. rewrite <- EB in *.
  set (T := ibuf i ++ q) in *. set (m := len (ibuf i)) in *.
  assert (LT : len T = m + len q) by (unfold T, m; apply len_app).
  assert (Hm : m <= len T) by lia.
  destruct (nv_next T) as [[[n v] r]|] eqn:EN.
  - cbn [ibuf ireq]. unfold iterE. destruct (nv_run r) as [ps rest]. reflexivity.
  - destruct e.
    + cbn [ibuf]. assert (L : len T <> 0) by lia.
      destruct T as [|t0 T']; [rewrite len_nil in L; congruence|].
      rewrite len_nil, N.sub_0_r. reflexivity.
    + cbn [ibuf]. destruct (stage_bounds T m Hm) as [S1 S2].
      assert (L : len (take (stage T m) T) <> 0) by (rewrite len_take; lia).
      destruct (take (stage T m) T) as [|t0 T'] eqn:ET; [rewrite len_nil in L; congruence|].
      rewrite len_drop. do 2 f_equal. lia.
Qed.

(* ---- env_extend ---- *)
Lemma env_extend_app r ps qs :
  env_extend norm r (ps ++ qs) = env_extend norm (env_extend norm r ps) qs.
Proof. unfold env_extend. apply fold_left_app. Qed.

Lemma env_extend_ids ps : forall r,
  r_id (env_extend norm r ps) = r_id r /\ r_role (env_extend norm r ps) = r_role r /\
  r_flags (env_extend norm r ps) = r_flags r.
Proof.
  induction ps as [|[n v] ps IH]; intros r; [repeat split|].
  unfold env_extend. cbn [fold_left fst snd]. fold (env_extend norm (env_insert norm r n v) ps).
  destruct (IH (env_insert norm r n v)) as [A [B C]]. rewrite A, B, C. repeat split.
Qed.

(* ---- prefixes and suffixes ---- *)
Lemma nv_next_prefix_none a b : len (a ++ b) <= USIZE_MAX -> nv_next (a ++ b) = None -> nv_next a = None.
Proof.
  intros Hsz H. destruct (nv_next a) as [[[n v] r]|] eqn:E; [|reflexivity].
  rewrite (nv_next_app _ _ _ _ b E Hsz) in H. discriminate.
Qed.

Lemma nv_next_suffix B q n v r : buf_ok B -> bytes_ok q -> len (B ++ q) <= USIZE_MAX ->
  nv_next (B ++ q) = Some (n, v, r) -> exists q', q = q' ++ r.
Proof.
  intros [HokB HnB] Hq Hsz HN. set (T := B ++ q) in *.
  assert (HokT : bytes_ok T) by (apply bytes_ok_app; split; assumption).
  assert (LT : len T = len B + len q) by apply len_app.
  pose proof (hl_bounds T) as HB.
  rewrite (nv_next_char T HokT Hsz) in HN.
  destruct (N.ltb_spec (len T) (tot_of T)) as [Ht|Ht]; [discriminate|].
  inversion HN as [[Hn Hv Hr]].
  assert (EB : take (len B) T = B) by apply take_len_app.
  rewrite <- EB in HnB.
  pose proof (buf_lt_tot T (len B) HokT Hsz ltac:(lia) HnB ltac:(lia)) as Hlt.
  assert (ED : drop (tot_of T) T = drop (tot_of T - len B) q).
  { revert Hlt. generalize (tot_of T) as t. intros t Hlt. unfold T. apply drop_app_ge. lia. }
  exists (take (tot_of T - len B) q). rewrite ED. symmetry. apply take_drop.
Qed.

(* ---- the NVIter part of parse_stream ---- *)
Lemma iterE_S1 l e r0 data : bytes_ok data -> len data <= l ->
  exists i' c, iterE l e r0 data = Some (i', c) /\ inner_ok i' /\ c <= l /\ (e = true -> c = l) /\
    r_id (ireq i') = r_id r0 /\ r_role (ireq i') = r_role r0 /\ r_flags (ireq i') = r_flags r0.
Proof.
  intros Hok Hl. unfold iterE. destruct (nv_run_rest data) as [pre [Hd Hn]].
  destruct (nv_run data) as [ps rest]. cbn [snd] in *.
  destruct (env_extend_ids ps r0) as [I1 [I2 I3]].
  destruct (e && negb (len rest =? 0)) eqn:Ec.
  - eexists. eexists. split; [reflexivity|]. cbn [ireq ibuf]. unfold inner_ok, buf_ok. cbn [ibuf].
    rewrite Hd in Hok. apply bytes_ok_app in Hok. repeat split; try tauto; lia.
  - eexists. eexists. split; [reflexivity|]. cbn [ireq ibuf]. unfold inner_ok, buf_ok. cbn [ibuf].
    repeat split; try assumption; try constructor; try lia.
    intros He. subst e. cbn [andb] in Ec. destruct (N.eqb_spec (len rest) 0); [lia|discriminate].
Qed.

Lemma iterE_S2 q q' data e r0 i' c : q = q' ++ data -> iterE (len q) e r0 data = Some (i', c) ->
  ireq i' = env_extend norm r0 (fst (nv_run data)) /\ ibuf i' ++ drop c q = snd (nv_run data).
Proof.
  intros Hq. unfold iterE. destruct (nv_run_rest data) as [pre [Hd Hn]].
  destruct (nv_run data) as [ps rest]. cbn [fst snd] in *.
  destruct (e && negb (len rest =? 0)); intros E; inversion E; subst i' c; cbn [ireq ibuf]; (split; [reflexivity|]).
  - rewrite drop_all by lia. apply app_nil_r.
  - cbn [app]. rewrite Hq. rewrite Hd at 2. rewrite app_assoc. rewrite Hd at 1.
    replace (len (q' ++ pre ++ rest) - len rest) with (len (q' ++ pre)) by (rewrite !len_app; lia).
    apply drop_len_app.
Qed.

Lemma iterE_shift a l e r0 data : len data <= l ->
  iterE (a + l) e r0 data =
    match iterE l e r0 data with Some (i2, c2) => Some (i2, a + c2) | None => None end.
Proof.
  intros Hl. unfold iterE. destruct (nv_run_rest data) as [pre [Hd Hn]].
  destruct (nv_run data) as [ps rest]. cbn [snd] in *.
  assert (len rest <= len data) by (rewrite Hd, len_app; lia).
  destruct (e && negb (len rest =? 0)); do 2 f_equal. lia.
Qed.

Lemma iterE_add r0 d q2 e l1 : len d <= l1 -> len (d ++ q2) <= USIZE_MAX ->
  iterE (l1 + len q2) e r0 (d ++ q2) =
    match iterE (len (snd (nv_run d) ++ q2)) e (env_extend norm r0 (fst (nv_run d))) (snd (nv_run d) ++ q2) with
    | Some (i2, c2) => Some (i2, (l1 - len (snd (nv_run d))) + c2)
    | None => None
    end.
Proof.
  intros Hl Hsz. unfold iterE. rewrite (nv_run_app d q2 Hsz).
  destruct (nv_run_rest d) as [pre [Hd Hn]].
  destruct (nv_run d) as [ps1 rest1]. cbn [fst snd] in *.
  destruct (nv_run_rest (rest1 ++ q2)) as [pre2 [Hd2 Hn2]].
  destruct (nv_run (rest1 ++ q2)) as [pb rb]. cbn [snd] in *.
  assert (L1 : len rest1 <= len d) by (rewrite Hd, len_app; lia).
  assert (L2 : len rb <= len (rest1 ++ q2)) by (rewrite Hd2, !len_app; lia).
  rewrite env_extend_app. rewrite len_app in *.
  destruct (e && negb (len rb =? 0)); do 2 f_equal; lia.
Qed.

Lemma iterE_false l r0 data :
  iterE l false r0 data =
    Some (mkInner (env_extend norm r0 (fst (nv_run data))) [], l - len (snd (nv_run data))).
Proof. unfold iterE. destruct (nv_run data) as [ps rest]. reflexivity. Qed.

(* ---- S1 ---- *)
Lemma nonempty_len {A} (l : list A) : l <> [] -> 0 < len l.
Proof. destruct l; [congruence|]. rewrite len_cons. lia. Qed.

Lemma S1 : S1_stmt norm.
Proof.
  unfold S1_stmt. intros i q e Hi Hq Hsz.
  destruct (ibuf i) as [|b0 B'] eqn:EB.
  - rewrite (ps_nil i q e EB). apply iterE_S1; [exact Hq|lia].
  - assert (Hne : ibuf i <> []) by congruence. rewrite <- EB in *.
    rewrite (ps_buf i q e Hi Hne Hq Hsz). unfold ps_res.
    pose proof (nonempty_len _ Hne) as Hm0.
    set (T := ibuf i ++ q) in *. set (m := len (ibuf i)) in *.
    assert (LT : len T = m + len q) by (unfold T, m; apply len_app).
    assert (HokT : bytes_ok T) by (apply bytes_ok_app; split; [apply Hi|exact Hq]).
    destruct (nv_next T) as [[[n v] r]|] eqn:EN.
    + destruct (nv_next_suffix (ibuf i) q n v r Hi Hq Hsz EN) as [q' Hq'].
      assert (Hr : bytes_ok r) by (rewrite Hq' in Hq; apply bytes_ok_app in Hq; tauto).
      assert (Lr : len r <= len q) by (rewrite Hq'; rewrite len_app; lia).
      destruct (iterE_S1 (len q) e (env_insert norm (ireq i) n v) r Hr Lr)
        as [i' [c [E [A1 [A2 [A3 [A4 [A5 A6]]]]]]]].
      exists i', c. exact (conj E (conj A1 (conj A2 (conj A3 (conj A4 (conj A5 A6)))))).
    + destruct e.
      * eexists. eexists. split; [reflexivity|]. cbn [ireq ibuf]. unfold inner_ok, buf_ok. cbn [ibuf].
        repeat split; try assumption; lia.
      * destruct (stage_bounds T m ltac:(lia)) as [S1 S2].
        eexists. eexists. split; [reflexivity|]. cbn [ireq ibuf]. unfold inner_ok, buf_ok. cbn [ibuf].
        repeat split; try lia; try discriminate.
        -- apply bytes_ok_take. exact HokT.
        -- apply (nv_next_prefix_none _ (drop (stage T m) T)); rewrite take_drop; assumption.
Qed.

(* ---- S2, S4 ---- *)
Lemma S2 : S2_stmt norm.
Proof.
  unfold S2_stmt. intros i q e i' c Hi Hq Hsz HP.
  destruct (ibuf i) as [|b0 B'] eqn:EB.
  - rewrite (ps_nil i q e EB) in HP. cbn [app].
    destruct (iterE_S2 q [] q e (ireq i) i' c eq_refl HP) as [A B].
    destruct (nv_run q) as [ps rest]. cbn [fst snd] in *. split; assumption.
  - assert (Hne : ibuf i <> []) by congruence. rewrite <- EB in *.
    rewrite (ps_buf i q e Hi Hne Hq Hsz) in HP. unfold ps_res in HP.
    pose proof (nonempty_len _ Hne) as Hm0.
    set (T := ibuf i ++ q) in *. set (m := len (ibuf i)) in *.
    assert (LT : len T = m + len q) by (unfold T, m; apply len_app).
    destruct (nv_next T) as [[[n v] r]|] eqn:EN.
    + destruct (nv_next_suffix (ibuf i) q n v r Hi Hq Hsz EN) as [q' Hq'].
      destruct (iterE_S2 q q' r e _ i' c Hq' HP) as [A B].
      rewrite (nv_run_unfold T), EN. destruct (nv_run r) as [ps rest]. cbn [fst snd] in *.
      split; assumption.
    + rewrite (nv_run_none T EN). destruct e; inversion HP; subst i' c; cbn [ireq ibuf]; (split; [reflexivity|]).
      * rewrite drop_all by lia. apply app_nil_r.
      * destruct (stage_bounds T m ltac:(lia)) as [S1 S2].
        replace (drop (stage T m - m) q) with (drop (stage T m) T); [apply take_drop|].
        revert S1 S2. generalize (stage T m) as k. intros k S1 S2.
        unfold T. rewrite drop_app_ge by (fold m; lia). reflexivity.
Qed.

Lemma S4 : S4_stmt norm.
Proof.
  unfold S4_stmt. intros i q i' c Hi Hq Hsz HP.
  pose proof (S2 i q false i' c Hi Hq Hsz HP) as H2.
  destruct (nv_run_rest (ibuf i ++ q)) as [pre [_ Hn]].
  destruct (nv_run (ibuf i ++ q)) as [ps rest]. cbn [snd] in Hn. destruct H2 as [_ H2].
  rewrite H2. exact Hn.
Qed.

(* ---- S3 ---- *)
Lemma drop_suffix {A} (q pre s : list A) : q = pre ++ s -> drop (len q - len s) q = s.
Proof.
  intros ->. replace (len (pre ++ s) - len s) with (len pre) by (rewrite len_app; lia).
  apply drop_len_app.
Qed.

Lemma hdr_app T1 q2 : 0 < len T1 ->
  hl1_of (T1 ++ q2) = hl1_of T1 /\ (hl1_of T1 <= len T1 -> hl2_of (T1 ++ q2) = hl2_of T1).
Proof.
  intros H. unfold hl2_of, hl1_of. rewrite nthN_app_l by lia. split; [reflexivity|].
  intros H2. rewrite nthN_app_l by lia. reflexivity.
Qed.

Lemma stage_stage T1 q2 m : 0 < m -> m <= len T1 ->
  stage (T1 ++ q2) (stage T1 m) = stage (T1 ++ q2) m.
Proof.
  intros Hm0 Hm. destruct (hdr_app T1 q2 ltac:(lia)) as [H1 H2].
  unfold stage. rewrite H1, len_app.
  destruct (N.ltb_spec (len T1) (hl1_of T1)) as [HA|HA]; [reflexivity|].
  rewrite (H2 HA).
  destruct (N.ltb_spec (len T1) (hl2_of T1)); destruct (N.ltb_spec (len T1 + len q2) (hl1_of T1));
    destruct (N.ltb_spec (len T1 + len q2) (hl2_of T1)); lia.
Qed.

Lemma ps_res_none_false r0 T m l : nv_next T = None ->
  ps_res r0 T m l false = Some (mkInner r0 (take (stage T m) T), stage T m - m).
Proof. intros H. unfold ps_res. rewrite H. reflexivity. Qed.

Lemma S3 : S3_stmt norm.
Proof.
  unfold S3_stmt. intros i q1 q2 e Hi Hq1 Hq2 Hsz.
  assert (Hq12 : bytes_ok (q1 ++ q2)) by (apply bytes_ok_app; split; assumption).
  assert (Hsz1 : len (ibuf i ++ q1) <= USIZE_MAX) by (rewrite !len_app in *; lia).
  destruct (ibuf i) as [|b0 B'] eqn:EB.
  - rewrite (ps_nil i (q1 ++ q2) e EB), (ps_nil i q1 false EB). rewrite iterE_false.
    rewrite ps_nil by reflexivity. cbn [ireq].
    destruct (nv_run_rest q1) as [pre [Hd Hn]].
    rewrite (drop_suffix q1 pre _ Hd). rewrite (len_app q1 q2).
    apply iterE_add; [lia|exact Hsz].
  - assert (Hne : ibuf i <> []) by congruence. rewrite <- EB in *. clear EB b0 B'.
    pose proof (nonempty_len _ Hne) as Hm0.
    rewrite (ps_buf i (q1 ++ q2) e Hi Hne Hq12 Hsz), (ps_buf i q1 false Hi Hne Hq1 Hsz1).
    assert (ET : ibuf i ++ q1 ++ q2 = (ibuf i ++ q1) ++ q2) by apply app_assoc.
    rewrite ET in *.
    set (T1 := ibuf i ++ q1) in *. set (m := len (ibuf i)) in *.
    assert (LT1 : len T1 = m + len q1) by (unfold T1, m; apply len_app).
    assert (HokT1 : bytes_ok T1) by (apply bytes_ok_app; split; [apply Hi|exact Hq1]).
    destruct (nv_next T1) as [[[n v] r]|] eqn:EN1.
    + pose proof (nv_next_app _ _ _ _ q2 EN1 Hsz) as EN.
      unfold ps_res. rewrite EN1, EN. rewrite iterE_false. rewrite ps_nil by reflexivity. cbn [ireq].
      destruct (nv_next_suffix (ibuf i) q1 n v r Hi Hq1 Hsz1 EN1) as [q' Hq'].
      destruct (nv_run_rest r) as [pre [Hd Hn]].
      assert (Hq'' : q1 = (q' ++ pre) ++ snd (nv_run r)).
      { rewrite <- app_assoc, <- Hd. exact Hq'. }
      rewrite (drop_suffix q1 _ _ Hq''). rewrite (len_app q1 q2).
      assert (Lr : len r <= len q1) by (rewrite Hq', len_app; lia).
      apply iterE_add; [exact Lr|]. rewrite len_app in *. lia.
    + rewrite (ps_res_none_false _ _ _ _ EN1).
      destruct (stage_bounds T1 m ltac:(lia)) as [K1 K2].
      pose proof (stage_stage T1 q2 m Hm0 ltac:(lia)) as SS.
      set (k1 := stage T1 m) in *.
      assert (ED : drop (k1 - m) q1 = drop k1 T1).
      { clearbody k1. unfold T1. rewrite drop_app_ge by (fold m; lia). reflexivity. }
      rewrite ED.
      set (i1 := mkInner (ireq i) (take k1 T1)).
      set (d2 := drop k1 T1 ++ q2).
      assert (ET2 : ibuf i1 ++ d2 = T1 ++ q2).
      { unfold i1, d2. cbn [ibuf]. rewrite app_assoc, take_drop. reflexivity. }
      assert (Lb : len (ibuf i1) = k1) by (unfold i1; cbn [ibuf]; rewrite len_take; lia).
      assert (Hi1 : inner_ok i1).
      { unfold inner_ok, buf_ok, i1. cbn [ibuf]. split; [apply bytes_ok_take; exact HokT1|].
        apply (nv_next_prefix_none _ (drop k1 T1)); rewrite take_drop; [rewrite len_app in Hsz; lia|exact EN1]. }
      assert (Hne1 : ibuf i1 <> []).
      { intros E0. rewrite E0 in Lb. rewrite len_nil in Lb. lia. }
      assert (Hd2 : bytes_ok d2).
      { apply bytes_ok_app; split; [apply bytes_ok_drop; exact HokT1|exact Hq2]. }
      assert (Ld2 : len d2 = len T1 - k1 + len q2) by (unfold d2; rewrite len_app, len_drop; reflexivity).
      rewrite (ps_buf i1 d2 e Hi1 Hne1 Hd2) by (rewrite ET2; exact Hsz).
      rewrite ET2, Lb. replace (ireq i1) with (ireq i) by reflexivity.
      unfold ps_res. destruct (nv_next (T1 ++ q2)) as [[[n v] r]|] eqn:EN.
      * rewrite <- ET2 in EN, Hsz.
        destruct (nv_next_suffix (ibuf i1) d2 n v r Hi1 Hd2 Hsz EN) as [q' Hq'].
        assert (Lr : len r <= len d2) by (rewrite Hq', len_app; lia).
        rewrite <- (iterE_shift (k1 - m) (len d2) e _ r Lr). f_equal. rewrite len_app. lia.
      * destruct e.
        -- do 2 f_equal. rewrite len_app. lia.
        -- rewrite SS. do 2 f_equal.
           destruct (stage_bounds (T1 ++ q2) k1) as [K3 K4]; [rewrite len_app; lia|].
           rewrite SS in K3. lia.
Qed.
End Proofs.

Print Assumptions S1.
Print Assumptions S2.
Print Assumptions S3.
Print Assumptions S4.
