(* Parser/StreamInv.v — the protocol-level theorems about the abstract stream machine
   (Parser/AbsStream.v) against the specification functions of Parser/StreamSpec.v.
   Main results (all for an arbitrary max_conns, closed under the global context):
     T_total T_content T_later T_replies T_end T_sticky   the target statements of StreamSpec.v
     content_law later_law replies_law                    the same without the unused [bytes_ok u]
     consume_stream_law/_inv compress_law/_inv compress_space_max consume_output_law/_inv
     set_stream_law set_stream_none F_none                the other operations
     schedule_law two_epoch_law                           arbitrary schedules of legal calls
   Structure: A fuel irrelevance of content_from / replies_all and their unfolding equations (CF, RA);
   B stage equations and "advance" lemmas; C one loop iteration preserves the relation [pres];
   D the call; E other operations; F schedules. *)
From Coq Require Import ZArith ZifyBool ZifyNat ZifyN.
From FV Require Import Base.Bytes Base.BytesLemmas Gen.Generated Codec.Varint Codec.VarintProofs
  Codec.NV Codec.NVProofs Codec.Header Codec.Bodies Codec.Vars Codec.ProtoProofs
  Parser.ReqModel Parser.ReqDrive Parser.StreamModel Parser.StreamSeqProofs Parser.AbsStream Parser.StreamSpec.
Ltac Zify.zify_post_hook ::= Z.div_mod_to_equations.

(* ================= generic helpers ================= *)

Lemma drop_shorter {A} n (w : list A) : 0 < n -> n <= len w -> (length (drop n w) < length w)%nat.
Proof. intros H1 H2. pose proof (len_drop n w) as H. unfold len in *. lia. Qed.

Lemma len_length_lt {A} (a b : list A) : (length a < length b)%nat <-> len a < len b.
Proof. unfold len. lia. Qed.

Lemma ltb_0_0 : (0 <? 0) = false.
Proof. reflexivity. Qed.

Lemma ltb_0_pos n : 0 < n -> (0 <? n) = true.
Proof. intros H. apply N.ltb_lt. exact H. Qed.

(* ================= Part A: fuel irrelevance, unfolding equations ================= *)
Section Fuel.
Variable maxc : N.
Variable role id : N.

Definition cf_body (rec : option N -> bool -> N -> N -> bytes -> bytes)
  (sg : option N) (cur : bool) (prem pad : N) (w : bytes) : bytes :=
  if 0 <? prem then
    (if cur then take (N.min prem (len w)) w else []) ++
    (if len w <? prem then [] else rec sg false 0 pad (drop prem w))
  else if 0 <? pad then
    (if len w <=? pad then [] else rec sg false 0 0 (drop pad w))
  else if len w <? HEADER_LEN then []
  else
    let head := take HEADER_LEN w in
    let rest := drop HEADER_LEN w in
    match hdr_decode head with
    | HBadVersion _ => []
    | HBadType _ => rec sg false (be16 (nthN head 4) (nthN head 5)) (nthN head 6) rest
    | HOk t rid cl pl =>
      if is_input_stream t && (rid =? id) then
        match cmp_input_streams role t sg with
        | Some Eq => if cl =? 0 then [] else rec sg true cl pl rest
        | Some Lt => rec sg false cl pl rest
        | _ => []
        end
      else if (t =? RT_AbortRequest) && (rid =? id) then []
      else rec sg false cl pl rest
    end.

Lemma content_from_S f sg cur prem pad w :
  content_from role id (S f) sg cur prem pad w = cf_body (content_from role id f) sg cur prem pad w.
Proof. reflexivity. Qed.

Lemma cf_body_ext (r1 r2 : option N -> bool -> N -> N -> bytes -> bytes) sg cur prem pad w :
  (forall sg' cur' prem' pad' w', (length w' < length w)%nat -> r1 sg' cur' prem' pad' w' = r2 sg' cur' prem' pad' w') ->
  cf_body r1 sg cur prem pad w = cf_body r2 sg cur prem pad w.
Proof.
  intros H. unfold cf_body.
  destruct (N.ltb_spec 0 prem) as [Hp|Hp].
  - destruct (N.ltb_spec (len w) prem) as [Hl|Hl]; [reflexivity|].
    rewrite H; [reflexivity|]. apply drop_shorter; lia.
  - destruct (N.ltb_spec 0 pad) as [Hq|Hq].
    + destruct (N.leb_spec (len w) pad) as [Hl|Hl]; [reflexivity|].
      apply H. apply drop_shorter; lia.
    + destruct (N.ltb_spec (len w) HEADER_LEN) as [Hl|Hl]; [reflexivity|].
      assert (Hs : (length (drop HEADER_LEN w) < length w)%nat).
      { apply drop_shorter; unfold HEADER_LEN in *; lia. }
      cbv zeta.
      destruct (hdr_decode (take HEADER_LEN w)) as [t rid cl pl|v|t].
      * destruct (is_input_stream t && (rid =? id)).
        -- destruct (cmp_input_streams role t sg) as [[| |]|]; try reflexivity.
           ++ apply H; exact Hs.
           ++ destruct (cl =? 0); [reflexivity|]. apply H; exact Hs.
        -- destruct ((t =? RT_AbortRequest) && (rid =? id)); [reflexivity|]. apply H; exact Hs.
      * reflexivity.
      * apply H; exact Hs.
Qed.

Lemma content_from_fuel f1 : forall f2 sg cur prem pad w,
  (length w < f1)%nat -> (length w < f2)%nat ->
  content_from role id f1 sg cur prem pad w = content_from role id f2 sg cur prem pad w.
Proof.
  induction f1 as [|f1 IH]; intros f2 sg cur prem pad w H1 H2; [lia|].
  destruct f2 as [|f2]; [lia|].
  rewrite !content_from_S. apply cf_body_ext.
  intros sg' cur' prem' pad' w' Hw. apply IH; lia.
Qed.

Definition CF (sg : option N) (cur : bool) (prem pad : N) (w : bytes) : bytes :=
  content_from role id (content_fuel w) sg cur prem pad w.

Lemma CF_eq sg cur prem pad w : CF sg cur prem pad w = cf_body CF sg cur prem pad w.
Proof.
  unfold CF at 1. unfold content_fuel.
  replace (length w + 2)%nat with (S (length w + 1)) by lia.
  rewrite content_from_S. apply cf_body_ext.
  intros sg' cur' prem' pad' w' Hw. unfold CF, content_fuel. apply content_from_fuel; lia.
Qed.

(* -------- replies_all -------- *)
Definition ra_body (rec : sstate -> N -> N -> bytes -> bytes) (st : sstate) (prem pad : N) (w : bytes) : bytes :=
  if 0 <? prem then
    if len w <? prem then []
    else
      (match st with
       | SValues vars => write_response (vars_of_pairs vars (fst (nv_run (take prem w)))) maxc
       | _ => []
       end) ++ rec SSkip 0 pad (drop prem w)
  else if 0 <? pad then
    (if len w <=? pad then [] else rec SSkip 0 0 (drop pad w))
  else if len w <? HEADER_LEN then []
  else
    let head := take HEADER_LEN w in
    let rest := drop HEADER_LEN w in
    match hdr_decode head with
    | HBadVersion _ => []
    | HBadType t =>
      unk_record t (be16 (nthN head 2) (nthN head 3))
      ++ rec SSkip (be16 (nthN head 4) (nthN head 5)) (nthN head 6) rest
    | HOk t rid cl pl =>
      if (t =? RT_AbortRequest) && (rid =? id) then []
      else if (t =? RT_BeginRequest) && negb (rid =? id) then
        end_record 0 PS_CantMpxConn rid ++ rec SSkip cl pl rest
      else if (t =? RT_GetValues) && hdr_is_management t rid then
        rec (SValues 0) cl pl rest
      else rec SSkip cl pl rest
    end.

Lemma replies_all_S f st prem pad w :
  replies_all maxc id (S f) st prem pad w = ra_body (replies_all maxc id f) st prem pad w.
Proof. reflexivity. Qed.

Lemma ra_body_ext (r1 r2 : sstate -> N -> N -> bytes -> bytes) st prem pad w :
  (forall st' prem' pad' w', (length w' < length w)%nat -> r1 st' prem' pad' w' = r2 st' prem' pad' w') ->
  ra_body r1 st prem pad w = ra_body r2 st prem pad w.
Proof.
  intros H. unfold ra_body.
  destruct (N.ltb_spec 0 prem) as [Hp|Hp].
  - destruct (N.ltb_spec (len w) prem) as [Hl|Hl]; [reflexivity|].
    rewrite H; [reflexivity|]. apply drop_shorter; lia.
  - destruct (N.ltb_spec 0 pad) as [Hq|Hq].
    + destruct (N.leb_spec (len w) pad) as [Hl|Hl]; [reflexivity|].
      apply H. apply drop_shorter; lia.
    + destruct (N.ltb_spec (len w) HEADER_LEN) as [Hl|Hl]; [reflexivity|].
      assert (Hs : (length (drop HEADER_LEN w) < length w)%nat).
      { apply drop_shorter; unfold HEADER_LEN in *; lia. }
      cbv zeta.
      destruct (hdr_decode (take HEADER_LEN w)) as [t rid cl pl|v|t].
      * destruct ((t =? RT_AbortRequest) && (rid =? id)); [reflexivity|].
        destruct ((t =? RT_BeginRequest) && negb (rid =? id)).
        { rewrite H; [reflexivity|exact Hs]. }
        destruct ((t =? RT_GetValues) && hdr_is_management t rid); apply H; exact Hs.
      * reflexivity.
      * rewrite H; [reflexivity|exact Hs].
Qed.

Lemma replies_all_fuel f1 : forall f2 st prem pad w,
  (length w < f1)%nat -> (length w < f2)%nat ->
  replies_all maxc id f1 st prem pad w = replies_all maxc id f2 st prem pad w.
Proof.
  induction f1 as [|f1 IH]; intros f2 st prem pad w H1 H2; [lia|].
  destruct f2 as [|f2]; [lia|].
  rewrite !replies_all_S. apply ra_body_ext.
  intros st' prem' pad' w' Hw. apply IH; lia.
Qed.

Definition RA (st : sstate) (prem pad : N) (w : bytes) : bytes :=
  replies_all maxc id (content_fuel w) st prem pad w.

Lemma RA_eq st prem pad w : RA st prem pad w = ra_body RA st prem pad w.
Proof.
  unfold RA at 1. unfold content_fuel.
  replace (length w + 2)%nat with (S (length w + 1)) by lia.
  rewrite replies_all_S. apply ra_body_ext.
  intros st' prem' pad' w' Hw. unfold RA, content_fuel. apply replies_all_fuel; lia.
Qed.

End Fuel.

(* ================= Part B: stage equations and advance lemmas ================= *)
Section Stage.
Variable maxc : N.
Variable role id : N.
Notation CF := (CF role id).
Notation RA := (RA maxc id).

Lemma CF_prem sg cur prem pad w : 0 < prem ->
  CF sg cur prem pad w =
  (if cur then take (N.min prem (len w)) w else []) ++
  (if len w <? prem then [] else CF sg false 0 pad (drop prem w)).
Proof. intros H. rewrite CF_eq at 1. unfold cf_body. rewrite (ltb_0_pos _ H). reflexivity. Qed.

Lemma CF_pad sg cur pad w : 0 < pad ->
  CF sg cur 0 pad w = if len w <=? pad then [] else CF sg false 0 0 (drop pad w).
Proof. intros H. rewrite CF_eq at 1. unfold cf_body. rewrite ltb_0_0, (ltb_0_pos _ H). reflexivity. Qed.

Definition cf_hd (sg : option N) (head rest : bytes) : bytes :=
  match hdr_decode head with
  | HBadVersion _ => []
  | HBadType _ => CF sg false (be16 (nthN head 4) (nthN head 5)) (nthN head 6) rest
  | HOk t rid cl pl =>
    if is_input_stream t && (rid =? id) then
      match cmp_input_streams role t sg with
      | Some Eq => if cl =? 0 then [] else CF sg true cl pl rest
      | Some Lt => CF sg false cl pl rest
      | _ => []
      end
    else if (t =? RT_AbortRequest) && (rid =? id) then []
    else CF sg false cl pl rest
  end.

Lemma CF_head sg cur w : HEADER_LEN <= len w ->
  CF sg cur 0 0 w = cf_hd sg (take HEADER_LEN w) (drop HEADER_LEN w).
Proof.
  intros H. rewrite CF_eq at 1. unfold cf_body. rewrite !ltb_0_0.
  destruct (N.ltb_spec (len w) HEADER_LEN) as [Hl|Hl]; [lia|]. reflexivity.
Qed.

Lemma CF_short sg cur w : len w < HEADER_LEN -> CF sg cur 0 0 w = [].
Proof.
  intros H. rewrite CF_eq at 1. unfold cf_body. rewrite !ltb_0_0.
  destruct (N.ltb_spec (len w) HEADER_LEN) as [Hl|Hl]; [reflexivity|lia].
Qed.

Lemma CF_cur0 sg cur pad w : CF sg cur 0 pad w = CF sg false 0 pad w.
Proof. rewrite (CF_eq role id sg cur), (CF_eq role id sg false). unfold cf_body. rewrite !ltb_0_0. reflexivity. Qed.

Lemma CF_nil sg cur prem pad : CF sg cur prem pad [] = [].
Proof.
  rewrite CF_eq. unfold cf_body. change (len (@nil N)) with 0.
  destruct (N.ltb_spec 0 prem) as [Hp|Hp].
  - destruct (N.ltb_spec 0 prem) as [_|Hl]; [|lia]. rewrite take_nil. destruct cur; reflexivity.
  - destruct (N.ltb_spec 0 pad) as [Hq|Hq].
    + destruct (N.leb_spec 0 pad) as [_|Hl]; [reflexivity|lia].
    + reflexivity.
Qed.

(* consuming n bytes of the current payload *)
Lemma CF_adv sg cur prem pad w n : n <= prem -> n <= len w ->
  CF sg cur prem pad w = (if cur then take n w else []) ++ CF sg cur (prem - n) pad (drop n w).
Proof.
  intros Hn Hw.
  destruct (N.eq_dec n 0) as [->|Hn0].
  { rewrite take_0, drop_0, N.sub_0_r. destruct cur; reflexivity. }
  rewrite (CF_prem sg cur prem) by lia.
  destruct (N.eq_dec n prem) as [->|Hne].
  - rewrite N.sub_diag, (N.min_l prem (len w)) by lia.
    destruct (N.ltb_spec (len w) prem) as [Hl|Hl]; [lia|].
    rewrite (CF_cur0 sg cur). reflexivity.
  - rewrite (CF_prem sg cur (prem - n)) by lia.
    rewrite len_drop, drop_drop.
    replace (n + (prem - n)) with prem by lia.
    assert (Hlt : (len w - n <? prem - n) = (len w <? prem)).
    { destruct (N.ltb_spec (len w - n) (prem - n)); destruct (N.ltb_spec (len w) prem); try reflexivity; lia. }
    rewrite Hlt.
    destruct cur; [|reflexivity].
    replace (N.min prem (len w)) with (n + N.min (prem - n) (len w - n)) by lia.
    rewrite take_add, <- app_assoc. reflexivity.
Qed.

(* consuming n bytes of the padding *)
Lemma CF_pad_adv sg cur pad w n : n <= pad -> n <= len w ->
  CF sg cur 0 pad w = CF sg cur 0 (pad - n) (drop n w).
Proof.
  intros Hn Hw.
  destruct (N.eq_dec n 0) as [->|Hn0].
  { rewrite drop_0, N.sub_0_r. reflexivity. }
  rewrite (CF_pad sg cur pad) by lia.
  destruct (N.eq_dec n pad) as [->|Hne].
  - rewrite N.sub_diag.
    destruct (N.leb_spec (len w) pad) as [Hl|Hl].
    + rewrite (drop_all pad w) by lia. rewrite CF_nil. reflexivity.
    + rewrite (CF_cur0 sg cur). reflexivity.
  - rewrite (CF_pad sg cur (pad - n)) by lia.
    rewrite len_drop, drop_drop.
    replace (n + (pad - n)) with pad by lia.
    destruct (N.leb_spec (len w - n) (pad - n)); destruct (N.leb_spec (len w) pad); try reflexivity; lia.
Qed.

(* -------- replies -------- *)
Definition resp (st : sstate) (d : bytes) : bytes :=
  match st with
  | SValues vars => write_response (vars_of_pairs vars (fst (nv_run d))) maxc
  | _ => []
  end.

Lemma RA_prem st prem pad w : 0 < prem ->
  RA st prem pad w =
  if len w <? prem then [] else resp st (take prem w) ++ RA SSkip 0 pad (drop prem w).
Proof. intros H. rewrite RA_eq at 1. unfold ra_body. rewrite (ltb_0_pos _ H). reflexivity. Qed.

Lemma RA_pad st pad w : 0 < pad ->
  RA st 0 pad w = if len w <=? pad then [] else RA SSkip 0 0 (drop pad w).
Proof. intros H. rewrite RA_eq at 1. unfold ra_body. rewrite ltb_0_0, (ltb_0_pos _ H). reflexivity. Qed.

Definition ra_hd (head rest : bytes) : bytes :=
  match hdr_decode head with
  | HBadVersion _ => []
  | HBadType t =>
    unk_record t (be16 (nthN head 2) (nthN head 3))
    ++ RA SSkip (be16 (nthN head 4) (nthN head 5)) (nthN head 6) rest
  | HOk t rid cl pl =>
    if (t =? RT_AbortRequest) && (rid =? id) then []
    else if (t =? RT_BeginRequest) && negb (rid =? id) then
      end_record 0 PS_CantMpxConn rid ++ RA SSkip cl pl rest
    else if (t =? RT_GetValues) && hdr_is_management t rid then
      RA (SValues 0) cl pl rest
    else RA SSkip cl pl rest
  end.

Lemma RA_head st w : HEADER_LEN <= len w ->
  RA st 0 0 w = ra_hd (take HEADER_LEN w) (drop HEADER_LEN w).
Proof.
  intros H. rewrite RA_eq at 1. unfold ra_body. rewrite !ltb_0_0.
  destruct (N.ltb_spec (len w) HEADER_LEN) as [Hl|Hl]; [lia|]. reflexivity.
Qed.

Lemma RA_short st w : len w < HEADER_LEN -> RA st 0 0 w = [].
Proof.
  intros H. rewrite RA_eq at 1. unfold ra_body. rewrite !ltb_0_0.
  destruct (N.ltb_spec (len w) HEADER_LEN) as [Hl|Hl]; [reflexivity|lia].
Qed.

Lemma RA_st0 st st' pad w : RA st 0 pad w = RA st' 0 pad w.
Proof. rewrite (RA_eq maxc id st), (RA_eq maxc id st'). unfold ra_body. rewrite !ltb_0_0. reflexivity. Qed.

Lemma RA_nil st prem pad : RA st prem pad [] = [].
Proof.
  rewrite RA_eq. unfold ra_body. change (len (@nil N)) with 0.
  destruct (N.ltb_spec 0 prem) as [Hp|Hp].
  - destruct (N.ltb_spec 0 prem) as [_|Hl]; [reflexivity|lia].
  - destruct (N.ltb_spec 0 pad) as [Hq|Hq].
    + destruct (N.leb_spec 0 pad) as [_|Hl]; [reflexivity|lia].
    + reflexivity.
Qed.

Definition not_values (st : sstate) : Prop := match st with SValues _ => False | _ => True end.

Lemma resp_not_values st d : not_values st -> resp st d = [].
Proof. destruct st; cbn [not_values resp]; intros H; [reflexivity|reflexivity|contradiction]. Qed.

(* consuming n bytes of a payload that is not a GetValues body *)
Lemma RA_adv st prem pad w n : not_values st -> n <= prem -> n <= len w ->
  RA st prem pad w = RA st (prem - n) pad (drop n w).
Proof.
  intros Hst Hn Hw.
  destruct (N.eq_dec n 0) as [->|Hn0].
  { rewrite drop_0, N.sub_0_r. reflexivity. }
  rewrite (RA_prem st prem) by lia. rewrite (resp_not_values st _ Hst). cbn [app].
  destruct (N.eq_dec n prem) as [->|Hne].
  - rewrite N.sub_diag.
    destruct (N.ltb_spec (len w) prem) as [Hl|Hl]; [lia|].
    apply RA_st0.
  - rewrite (RA_prem st (prem - n)) by lia. rewrite (resp_not_values st _ Hst). cbn [app].
    rewrite len_drop, drop_drop.
    replace (n + (prem - n)) with prem by lia.
    destruct (N.ltb_spec (len w - n) (prem - n)); destruct (N.ltb_spec (len w) prem); try reflexivity; lia.
Qed.

(* consuming the whole remaining payload *)
Lemma RA_adv_full st st' prem pad w : 0 < prem -> prem <= len w ->
  RA st prem pad w = resp st (take prem w) ++ RA st' 0 pad (drop prem w).
Proof.
  intros Hp Hw. rewrite (RA_prem st prem) by lia.
  destruct (N.ltb_spec (len w) prem) as [Hl|Hl]; [lia|].
  rewrite (RA_st0 SSkip st'). reflexivity.
Qed.

(* a GetValues body decoded piecewise: d is the available part of the body (shorter than prem) *)
Lemma RA_adv_values vars prem pad d u ps rest :
  nv_run d = (ps, rest) -> len d < prem -> prem < 65536 ->
  RA (SValues vars) prem pad (d ++ u) =
  RA (SValues (vars_of_pairs vars ps)) (prem - (len d - len rest)) pad (rest ++ u).
Proof.
  intros Hrun Hd Hp.
  destruct (nv_run_rest d) as [pre [Hpre _]]. rewrite Hrun in Hpre. cbn [snd] in Hpre.
  assert (Hlen : len d = len pre + len rest) by (rewrite Hpre at 1; apply len_app).
  set (n := len d - len rest).
  assert (Hn : n = len pre) by (unfold n; lia).
  rewrite (RA_prem _ prem) by lia. rewrite (RA_prem _ (prem - n)) by lia.
  rewrite !len_app.
  assert (Hlt : (len rest + len u <? prem - n) = (len d + len u <? prem)).
  { destruct (N.ltb_spec (len rest + len u) (prem - n)); destruct (N.ltb_spec (len d + len u) prem); try reflexivity; lia. }
  rewrite Hlt.
  destruct (N.ltb_spec (len d + len u) prem) as [Hl|Hl]; [reflexivity|].
  f_equal.
  - cbn [resp]. f_equal.
    rewrite (take_app_ge prem d u) by lia.
    rewrite (take_app_ge (prem - n) rest u) by lia.
    replace (prem - n - len rest) with (prem - len d) by lia.
    set (b := take (prem - len d) u).
    assert (Hb : len b <= prem - len d) by (unfold b; rewrite len_take; lia).
    rewrite (nv_run_app d b).
    2:{ rewrite len_app. unfold USIZE_MAX. lia. }
    rewrite Hrun. destruct (nv_run (rest ++ b)) as [pb rb]. cbn [fst].
    apply vars_of_pairs_app.
  - f_equal. rewrite Hpre at 1. rewrite <- app_assoc.
    rewrite (drop_app_ge prem pre) by lia.
    f_equal. lia.
Qed.

End Stage.

(* ================= Part C: one iteration of the machine ================= *)

(* ---- finite facts about the stream order ---- *)
Lemma is_input_cases t : is_input_stream t = true -> t = 5 \/ t = 8.
Proof.
  unfold is_input_stream, memN, IS_INPUT_STREAM. cbn [existsb]. intros H.
  destruct (N.eqb_spec t 5) as [E5|N5]; [left; exact E5|].
  destruct (N.eqb_spec t 8) as [E8|N8]; [right; exact E8|]. discriminate H.
Qed.

Lemma role_streams_cases role :
  role_input_streams role = [5] \/ role_input_streams role = [] \/ role_input_streams role = [5; 8].
Proof.
  unfold role_input_streams, ROLE_INPUT_STREAMS. cbn [find fst snd].
  destruct (1 =? role); [left; reflexivity|].
  destruct (2 =? role); [right; left; reflexivity|].
  destruct (3 =? role); [right; right; reflexivity|].
  right; left; reflexivity.
Qed.

Lemma cmp_some role t s : is_input_stream t = true -> is_input_stream s = true ->
  cmp_input_streams role t (Some s) <> None.
Proof.
  intros Ht Hs. unfold cmp_input_streams. rewrite Ht, Hs. cbn [negb orb].
  destruct (t =? s); discriminate.
Qed.

Lemma cmp_gt_input role sg s : cmp_input_streams role sg (Some s) = Some Gt ->
  is_input_stream sg = true /\ is_input_stream s = true.
Proof.
  unfold cmp_input_streams. destruct (is_input_stream sg); destruct (is_input_stream s); cbn [negb orb]; try discriminate.
  intros _. split; reflexivity.
Qed.

(* a record of the active stream or of an earlier one precedes every later stream *)
Lemma cmp_later role t s sg : is_input_stream t = true ->
  cmp_input_streams role sg (Some s) = Some Gt ->
  (cmp_input_streams role t (Some s) = Some Eq \/ cmp_input_streams role t (Some s) = Some Lt) ->
  cmp_input_streams role t (Some sg) = Some Lt.
Proof.
  intros Ht Hgt Hle. destruct (cmp_gt_input _ _ _ Hgt) as [Hsg Hs].
  apply is_input_cases in Ht. apply is_input_cases in Hsg. apply is_input_cases in Hs.
  unfold cmp_input_streams in *.
  destruct (role_streams_cases role) as [Hr|[Hr|Hr]]; rewrite Hr in *;
  destruct Ht as [-> | ->]; destruct Hsg as [-> | ->]; destruct Hs as [-> | ->];
  vm_compute in Hgt; try discriminate Hgt;
  vm_compute in Hle; destruct Hle as [Hle|Hle]; try discriminate Hle; reflexivity.
Qed.

Lemma input_not_others t : is_input_stream t = true ->
  (t =? RT_AbortRequest) = false /\ (t =? RT_BeginRequest) = false /\ (t =? RT_GetValues) = false.
Proof. intros H. apply is_input_cases in H. destruct H as [-> | ->]; repeat split; reflexivity. Qed.

Section Machine.
Variable maxc : N.

Definition rl (a : ast) : N := r_role (a_req a).
Definition ri (a : ast) : N := r_id (a_req a).
Definition cur_st (st : sstate) : bool := match st with SStream => true | _ => false end.

Lemma K_eq a u : K a u = a_parsed a ++ CF (rl a) (ri a) (a_stream a) (cur_st (a_st a)) (a_prem a) (a_pad a) (a_raw a ++ u).
Proof. reflexivity. Qed.
Lemma F_eq sg a u : F sg a u = CF (rl a) (ri a) sg false (a_prem a) (a_pad a) (a_raw a ++ u).
Proof. reflexivity. Qed.
Lemma R_eq a u : R maxc a u = a_out a ++ RA maxc (ri a) (a_st a) (a_prem a) (a_pad a) (a_raw a ++ u).
Proof. reflexivity. Qed.

Definition at_term (a : ast) : bool :=
  at_terminator (rl a) (ri a) (a_stream a) (a_prem a) (a_pad a) (a_raw a).

Definition cap_rel (l l' : alstate) : Prop :=
  match acap l with
  | None => acap l' = None /\ s_dest (ares l') = s_dest (ares l) /\
            exists d, a_parsed (al l') = a_parsed (al l) ++ d /\ s_stream (ares l') = s_stream (ares l) + len d
  | Some c => exists d c', acap l' = Some c' /\ a_parsed (al l') = a_parsed (al l) /\
            s_dest (ares l') = s_dest (ares l) ++ d /\ s_stream (ares l') = s_stream (ares l) + len d /\
            c' + len d = c
  end.

Record pres (l l' : alstate) : Prop := mkPres {
  p_B : a_B (al l') = a_B (al l);
  p_space : a_space (al l') = a_space (al l);
  p_req : a_req (al l') = a_req (al l);
  p_stream : a_stream (al l') = a_stream (al l);
  p_size : len (a_parsed (al l')) + len (a_raw (al l')) <= len (a_parsed (al l)) + len (a_raw (al l));
  p_raw : suffix (a_raw (al l')) (a_raw (al l));
  p_K : forall u, s_dest (ares l) ++ K (al l) u = s_dest (ares l') ++ K (al l') u;
  p_F : forall sg u, later_stream (al l) sg -> F (Some sg) (al l) u = F (Some sg) (al l') u;
  p_R : forall u, R maxc (al l) u = R maxc (al l') u;
  p_out : exists o, a_out (al l') = a_out (al l) ++ o /\ s_output (ares l') = s_output (ares l) + len o;
  p_cap : cap_rel l l'
}.

Definition linv (l : alstate) : Prop := a_inv (al l) /\ (acap l <> None -> a_parsed (al l) = []).

Lemma cap_rel_refl l : cap_rel l l.
Proof.
  unfold cap_rel. destruct (acap l) as [c|].
  - exists [], c. rewrite app_nil_r. change (len (@nil N)) with 0. repeat split; try reflexivity; lia.
  - repeat split. exists []. rewrite app_nil_r. change (len (@nil N)) with 0. split; [reflexivity|lia].
Qed.

Lemma pres_refl l : pres l l.
Proof.
  constructor; try reflexivity; try lia.
  - apply suffix_refl.
  - exists []. rewrite app_nil_r. change (len (@nil N)) with 0. split; [reflexivity|lia].
  - apply cap_rel_refl.
Qed.

Lemma cap_rel_trans l1 l2 l3 : cap_rel l1 l2 -> cap_rel l2 l3 -> cap_rel l1 l3.
Proof.
  unfold cap_rel. intros H1 H2. destruct (acap l1) as [c|].
  - destruct H1 as [d [c' [Hc [Hp [Hd [Hs Hcc]]]]]]. rewrite Hc in H2.
    destruct H2 as [d2 [c2 [Hc2 [Hp2 [Hd2 [Hs2 Hcc2]]]]]].
    exists (d ++ d2), c2. rewrite len_app. repeat split.
    + exact Hc2.
    + congruence.
    + rewrite Hd2, Hd, app_assoc. reflexivity.
    + lia.
    + lia.
  - destruct H1 as [Hc [Hd [d [Hp Hs]]]]. rewrite Hc in H2.
    destruct H2 as [Hc2 [Hd2 [d2 [Hp2 Hs2]]]].
    split; [exact Hc2|]. split; [congruence|].
    exists (d ++ d2). rewrite len_app. split.
    + rewrite Hp2, Hp, app_assoc. reflexivity.
    + lia.
Qed.

Lemma later_stream_pres l l' sg : pres l l' -> later_stream (al l) sg -> later_stream (al l') sg.
Proof. intros H Hl. unfold later_stream in *. rewrite (p_stream _ _ H), (p_req _ _ H). exact Hl. Qed.

Lemma pres_trans l1 l2 l3 : pres l1 l2 -> pres l2 l3 -> pres l1 l3.
Proof.
  intros H1 H2. constructor.
  - rewrite (p_B _ _ H2). apply (p_B _ _ H1).
  - rewrite (p_space _ _ H2). apply (p_space _ _ H1).
  - rewrite (p_req _ _ H2). apply (p_req _ _ H1).
  - rewrite (p_stream _ _ H2). apply (p_stream _ _ H1).
  - pose proof (p_size _ _ H1). pose proof (p_size _ _ H2). lia.
  - apply (suffix_trans _ _ _ (p_raw _ _ H2) (p_raw _ _ H1)).
  - intros u. rewrite (p_K _ _ H1 u). apply (p_K _ _ H2).
  - intros sg u Hl. rewrite (p_F _ _ H1 sg u Hl). apply (p_F _ _ H2). apply (later_stream_pres _ _ _ H1 Hl).
  - intros u. rewrite (p_R _ _ H1 u). apply (p_R _ _ H2).
  - destruct (p_out _ _ H1) as [o1 [Ho1 Hs1]]. destruct (p_out _ _ H2) as [o2 [Ho2 Hs2]].
    exists (o1 ++ o2). rewrite len_app. split.
    + rewrite Ho2, Ho1, app_assoc. reflexivity.
    + lia.
  - apply (cap_rel_trans _ _ _ (p_cap _ _ H1) (p_cap _ _ H2)).
Qed.

Definition cont_post (l l' : alstate) : Prop :=
  pres l l' /\ linv l' /\ s_end (ares l') = s_end (ares l).

Lemma cont_post_trans l1 l2 l3 : cont_post l1 l2 -> cont_post l2 l3 -> cont_post l1 l3.
Proof.
  intros [P1 [I1 E1]] [P2 [I2 E2]]. split; [apply (pres_trans _ _ _ P1 P2)|]. split; [exact I2|congruence].
Qed.

Definition head_err (rid : N) (head : bytes) : option perr :=
  match hdr_decode head with
  | HBadVersion v => Some (EUnknownVersion v)
  | HBadType _ => None
  | HOk t id cl pl =>
    if is_input_stream t && (id =? rid) then None
    else if (t =? RT_AbortRequest) && (id =? rid) then Some EAbortRequest else None
  end.

Definition err_at (a : ast) (e : perr) : Prop :=
  a_prem a = 0 /\ a_pad a = 0 /\ HEADER_LEN <= len (a_raw a) /\
  head_err (ri a) (take HEADER_LEN (a_raw a)) = Some e.

Definition flow_post (l : alstate) (fl : aflow) : Prop :=
  match fl with
  | AContinue l' => cont_post l l' /\ len (a_raw (al l')) + 8 <= len (a_raw (al l))
  | ABreak l' => pres l l' /\ linv l' /\ s_end (ares l') = s_end (ares l) || at_term (al l')
  | AErr l' e => cont_post l l' /\ err_at (al l') e
  | APanic _ => False
  end.

Lemma flow_post_trans l1 l2 fl : cont_post l1 l2 -> flow_post l2 fl -> flow_post l1 fl.
Proof.
  intros H12 H. destruct fl as [l'|l'|l' e|n]; cbn [flow_post] in *.
  - destruct H as [Hc Hl]. split; [apply (cont_post_trans _ _ _ H12 Hc)|].
    destruct H12 as [P _]. pose proof (suffix_len _ _ (p_raw _ _ P)). lia.
  - destruct H as [P2 [I2 E2]]. destruct H12 as [P1 [I1 E1]].
    split; [apply (pres_trans _ _ _ P1 P2)|]. split; [exact I2|]. rewrite E2, E1. reflexivity.
  - destruct H as [Hc He]. split; [apply (cont_post_trans _ _ _ H12 Hc)|exact He].
  - exact H.
Qed.

(* ---- parse_payload ---- *)
Definition pfin' (a : ast) (parsed' out' : bytes) (st' : sstate) (res : status) (cap' : option N) (consumed : N) : aflow :=
  let raw_len := len (a_raw a) in
  let payload_len := N.min (a_prem a) raw_len in
  if payload_len <? consumed then APanic 20 else
  let a'' := mkA (a_B a) (a_space a) parsed' (drop consumed (a_raw a)) out' (a_req a) (a_stream a)
                 (a_prem a - consumed) (a_pad a) st' in
  let l' := mkAL a'' res cap' in
  if (a_prem a'' =? 0) && (consumed <? raw_len) then AContinue l' else ABreak l'.

Lemma aparse_payload_eq l :
  aparse_payload maxc l =
  let a := al l in
  let raw_len := len (a_raw a) in
  let payload_len := N.min (a_prem a) raw_len in
  let payload := take payload_len (a_raw a) in
  match a_st a with
  | SStream =>
    match acap l with
    | Some c => let n := N.min c payload_len in
                pfin' a (a_parsed a) (a_out a) (a_st a) (add_stream (ares l) n (take n payload)) (Some (c - n)) n
    | None => pfin' a (a_parsed a ++ payload) (a_out a) (a_st a) (add_stream (ares l) payload_len []) None payload_len
    end
  | SSkip => pfin' a (a_parsed a) (a_out a) (a_st a) (ares l) (acap l) payload_len
  | SValues vars =>
    let '(ps, rest) := nv_run payload in
    let vars' := vars_of_pairs vars ps in
    if raw_len <? a_prem a then
      pfin' a (a_parsed a) (a_out a) (SValues vars') (ares l) (acap l) (payload_len - len rest)
    else
      let w := write_response vars' maxc in
      pfin' a (a_parsed a) (a_out a ++ w) (SValues vars') (add_output (ares l) (len w)) (acap l) payload_len
  end.
Proof.
  unfold aparse_payload, pfin', a_set. cbv zeta.
  destruct (a_st (al l)); reflexivity.
Qed.

Definition pay_post (l : alstate) (fl : aflow) : Prop :=
  match fl with
  | AContinue l' => cont_post l l' /\ a_prem (al l') = 0
  | ABreak l' => cont_post l l' /\ at_term (al l') = false
  | _ => False
  end.

Lemma pfin_ok B sp parsed raw out rq strm prem pad st res cap parsed' out' st' res' cap' n :
  let a := mkA B sp parsed raw out rq strm prem pad st in
  let l := mkAL a res cap in
  linv l ->
  n <= N.min prem (len raw) ->
  cur_st st' = cur_st st ->
  s_dest res ++ parsed ++ (if cur_st st then take n raw else []) = s_dest res' ++ parsed' ->
  (forall u, out ++ RA maxc (r_id rq) st prem pad (raw ++ u) =
             out' ++ RA maxc (r_id rq) st' (prem - n) pad (drop n raw ++ u)) ->
  (exists o, out' = out ++ o /\ s_output res' = s_output res + len o) ->
  cap_rel l (mkAL (mkA B sp parsed' raw out' rq strm prem pad st') res' cap') ->
  s_end res' = s_end res ->
  len parsed' <= len parsed + n ->
  pay_post l (pfin' a parsed' out' st' res' cap' n).
Proof.
  intros a l Hinv Hn Hcur HK HR Hout Hcap Hend Hsz.
  unfold pfin'. unfold a. cbn [a_B a_space a_parsed a_raw a_out a_req a_stream a_prem a_pad a_st].
  destruct (N.ltb_spec (N.min prem (len raw)) n) as [Hbad|_]; [lia|].
  set (l' := mkAL (mkA B sp parsed' (drop n raw) out' rq strm (prem - n) pad st') res' cap').
  assert (Hpres : pres l l').
  { constructor; unfold l, l', a; cbn [al ares acap a_B a_space a_parsed a_raw a_out a_req a_stream a_prem a_pad a_st].
    - reflexivity.
    - reflexivity.
    - reflexivity.
    - reflexivity.
    - rewrite len_drop. lia.
    - apply suffix_drop.
    - intros u. rewrite !K_eq. unfold rl, ri.
      cbn [a_B a_space a_parsed a_raw a_out a_req a_stream a_prem a_pad a_st].
      rewrite (CF_adv _ _ strm (cur_st st) prem pad (raw ++ u) n) by (rewrite ?len_app; lia).
      rewrite (take_app_le n raw u) by lia. rewrite (drop_app_le n raw u) by lia.
      rewrite Hcur. rewrite !app_assoc. rewrite app_assoc in HK. rewrite HK. reflexivity.
    - intros sg u _. rewrite !F_eq. unfold rl, ri.
      cbn [a_B a_space a_parsed a_raw a_out a_req a_stream a_prem a_pad a_st].
      rewrite (CF_adv _ _ (Some sg) false prem pad (raw ++ u) n) by (rewrite ?len_app; lia).
      rewrite (drop_app_le n raw u) by lia. reflexivity.
    - intros u. rewrite !R_eq. unfold ri.
      cbn [a_B a_space a_parsed a_raw a_out a_req a_stream a_prem a_pad a_st]. apply HR.
    - exact Hout.
    - exact Hcap. }
  assert (Hlinv : linv l').
  { destruct Hinv as [[Hok [Hp [Hq [Hb [Hs Hi]]]]] Hc].
    unfold l, a in *. cbn [al acap a_B a_space a_parsed a_raw a_out a_req a_stream a_prem a_pad a_st] in *.
    unfold a_ok in Hok. cbn [a_B a_space a_parsed a_raw] in Hok.
    split.
    - unfold l', a_inv, a_ok. cbn [al a_B a_space a_parsed a_raw a_out a_req a_stream a_prem a_pad a_st].
      rewrite len_drop. repeat split.
      + lia.
      + lia.
      + exact Hq.
      + apply bytes_ok_drop. exact Hb.
      + intros E. apply Hs. rewrite E in Hcur. destruct st; try discriminate Hcur. reflexivity.
      + exact Hi.
    - unfold l'. cbn [al acap a_parsed]. intros Hc'.
      unfold cap_rel in Hcap. cbn [al ares acap a_parsed] in Hcap.
      destruct cap as [c|].
      + destruct Hcap as [d [c' [_ [Hp' _]]]]. rewrite Hp'. apply Hc. discriminate.
      + destruct Hcap as [Hn' _]. contradiction. }
  destruct ((prem - n =? 0) && (n <? len raw)) eqn:Hc.
  - fold l'. cbn [pay_post]. apply andb_true_iff in Hc. destruct Hc as [Hc1 Hc2].
    split; [split; [exact Hpres|split; [exact Hlinv|exact Hend]]|].
    unfold l'. cbn [al a_prem]. apply N.eqb_eq. exact Hc1.
  - fold l'. cbn [pay_post].
    split; [split; [exact Hpres|split; [exact Hlinv|exact Hend]]|].
    unfold at_term, at_terminator, l'. cbn [al a_prem a_pad a_raw].
    apply andb_false_iff in Hc. destruct Hc as [Hc|Hc].
    + rewrite Hc. reflexivity.
    + apply N.ltb_ge in Hc. rewrite len_drop.
      destruct (N.leb_spec HEADER_LEN (len raw - n)) as [H8|H8]; [unfold HEADER_LEN in H8; lia|].
      rewrite !andb_false_r. reflexivity.
Qed.

Lemma cap_rel_same l l' : acap l' = acap l -> a_parsed (al l') = a_parsed (al l) ->
  s_dest (ares l') = s_dest (ares l) -> s_stream (ares l') = s_stream (ares l) -> cap_rel l l'.
Proof.
  intros Hc Hp Hd Hs. unfold cap_rel. rewrite Hc, Hp, Hd, Hs. destruct (acap l) as [c|].
  - exists [], c. rewrite app_nil_r. change (len (@nil N)) with 0. repeat split; try reflexivity; lia.
  - repeat split. exists []. rewrite app_nil_r. change (len (@nil N)) with 0. split; [reflexivity|lia].
Qed.

Lemma RA_adv_app rid st prem pad raw u n : not_values st -> n <= prem -> n <= len raw ->
  RA maxc rid st prem pad (raw ++ u) = RA maxc rid st (prem - n) pad (drop n raw ++ u).
Proof.
  intros Hst Hn Hr. rewrite (RA_adv maxc rid st prem pad (raw ++ u) n Hst Hn) by (rewrite len_app; lia).
  rewrite (drop_app_le n raw u) by lia. reflexivity.
Qed.

Lemma payload_ok l : linv l -> 0 < a_prem (al l) -> pay_post l (aparse_payload maxc l).
Proof.
  intros Hinv Hp. rewrite aparse_payload_eq.
  destruct l as [a res cap]. destruct a as [B sp parsed raw out rq strm prem pad st].
  cbn [al ares acap a_B a_space a_parsed a_raw a_out a_req a_stream a_prem a_pad a_st] in *. cbv zeta.
  assert (Hprem : prem < 65536).
  { destruct Hinv as [[_ [H _]] _]. exact H. }
  set (pl := N.min prem (len raw)).
  assert (Hpl : pl = N.min prem (len raw)) by reflexivity.
  destruct st as [| |vars].
  - destruct cap as [c|].
    + (* Stream into dest *)
      assert (Hparsed : parsed = []).
      { destruct Hinv as [_ H]. apply H. discriminate. }
      subst parsed.
      set (n := N.min c pl).
      apply pfin_ok.
      * exact Hinv.
      * lia.
      * reflexivity.
      * cbn [add_stream s_dest cur_st app]. rewrite take_take.
        replace (N.min n pl) with n by lia. rewrite !app_nil_r. reflexivity.
      * intros u. f_equal. apply RA_adv_app; [exact I|lia|lia].
      * exists []. rewrite app_nil_r. change (len (@nil N)) with 0. cbn [add_stream s_output]. split; [reflexivity|lia].
      * unfold cap_rel. cbn [al ares acap a_parsed add_stream s_dest s_stream].
        exists (take n (take pl raw)), (c - n). rewrite !len_take. repeat split; lia.
      * reflexivity.
      * lia.
    + (* Stream into the stream buffer *)
      apply pfin_ok.
      * exact Hinv.
      * lia.
      * reflexivity.
      * cbn [add_stream s_dest cur_st]. rewrite app_nil_r. reflexivity.
      * intros u. f_equal. apply RA_adv_app; [exact I|lia|lia].
      * exists []. rewrite app_nil_r. change (len (@nil N)) with 0. cbn [add_stream s_output]. split; [reflexivity|lia].
      * unfold cap_rel. cbn [al ares acap a_parsed add_stream s_dest s_stream].
        split; [reflexivity|]. split; [apply app_nil_r|].
        exists (take pl raw). rewrite len_take. split; [reflexivity|lia].
      * reflexivity.
      * rewrite len_app, len_take. lia.
  - (* Skip *)
    apply pfin_ok.
    + exact Hinv.
    + lia.
    + reflexivity.
    + cbn [cur_st]. rewrite app_nil_r. reflexivity.
    + intros u. f_equal. apply RA_adv_app; [exact I|lia|lia].
    + exists []. rewrite app_nil_r. change (len (@nil N)) with 0. split; [reflexivity|lia].
    + apply cap_rel_same; reflexivity.
    + reflexivity.
    + lia.
  - (* Values *)
    destruct (nv_run (take pl raw)) as [ps rest] eqn:Hrun.
    destruct (N.ltb_spec (len raw) prem) as [Hlt|Hge].
    + (* body incomplete *)
      assert (Hplr : pl = len raw) by lia.
      rewrite Hplr in Hrun. rewrite (take_all (len raw) raw) in Hrun by lia.
      destruct (nv_run_rest raw) as [pre [Hpre _]]. rewrite Hrun in Hpre. cbn [snd] in Hpre.
      assert (Hlen : len raw = len pre + len rest) by (rewrite Hpre at 1; apply len_app).
      apply pfin_ok.
      * exact Hinv.
      * lia.
      * reflexivity.
      * cbn [cur_st]. rewrite app_nil_r. reflexivity.
      * intros u. f_equal.
        rewrite (RA_adv_values maxc (r_id rq) vars prem pad raw u ps rest Hrun Hlt Hprem).
        rewrite Hplr. f_equal. f_equal.
        replace (len raw - len rest) with (len pre) by lia.
        rewrite Hpre at 1. rewrite drop_len_app. reflexivity.
      * exists []. rewrite app_nil_r. change (len (@nil N)) with 0. split; [reflexivity|lia].
      * apply cap_rel_same; reflexivity.
      * reflexivity.
      * lia.
    + (* body complete: the reply is written *)
      assert (Hplr : pl = prem) by lia.
      rewrite Hplr in *.
      apply pfin_ok.
      * exact Hinv.
      * lia.
      * reflexivity.
      * cbn [cur_st add_output s_dest]. rewrite app_nil_r. reflexivity.
      * intros u.
        rewrite (RA_adv_full maxc (r_id rq) (SValues vars) (SValues (vars_of_pairs vars ps)) prem pad (raw ++ u))
          by (rewrite ?len_app; lia).
        rewrite (take_app_le prem raw u) by lia. rewrite (drop_app_le prem raw u) by lia.
        cbn [resp]. rewrite Hrun. cbn [fst]. rewrite N.sub_diag, app_assoc. reflexivity.
      * eexists. split; [reflexivity|]. cbn [add_output s_output]. reflexivity.
      * apply cap_rel_same; reflexivity.
      * reflexivity.
      * lia.
Qed.

(* ---- parse_head ---- *)
Definition hgo (l : alstate) (st : sstate) (cl pl : N) (out : bytes) (added : N) : aflow :=
  let a := al l in
  AContinue (mkAL (mkA (a_B a) (a_space a) (a_parsed a) (drop HEADER_LEN (a_raw a)) out (a_req a) (a_stream a) cl pl st)
                  (add_output (ares l) added) (acap l)).

Lemma aparse_head_eq l :
  aparse_head l =
  let a := al l in
  if negb (a_boundary a) then APanic 30 else
  if len (a_raw a) <? HEADER_LEN then ABreak l else
  let head := take HEADER_LEN (a_raw a) in
  match hdr_decode head with
  | HBadType t =>
    let id := be16 (nthN head 2) (nthN head 3) in
    hgo l SSkip (be16 (nthN head 4) (nthN head 5)) (nthN head 6) (a_out a ++ unk_record t id) 16
  | HBadVersion v => AErr l (EUnknownVersion v)
  | HOk t id cl pl =>
    let rid := r_id (a_req a) in
    if is_input_stream t && (id =? rid) then
      match cmp_input_streams (r_role (a_req a)) t (a_stream a) with
      | None => APanic 32
      | Some Eq => if negb (cl =? 0) then hgo l SStream cl pl (a_out a) 0
                   else ABreak (mkAL a (set_end (ares l)) (acap l))
      | Some Lt => hgo l SSkip cl pl (a_out a) 0
      | Some Gt => ABreak (mkAL a (set_end (ares l)) (acap l))
      end
    else if (t =? RT_AbortRequest) && (id =? rid) then AErr l EAbortRequest
    else if (t =? RT_BeginRequest) && negb (id =? rid) then
      hgo l SSkip cl pl (a_out a ++ end_record 0 PS_CantMpxConn id) 16
    else if (t =? RT_GetValues) && hdr_is_management t id then hgo l (SValues 0) cl pl (a_out a) 0
    else hgo l SSkip cl pl (a_out a) 0
  end.
Proof. reflexivity. Qed.

Lemma hgo_ok B sp parsed raw out rq strm st res cap st' cl pl o added :
  let a := mkA B sp parsed raw out rq strm 0 0 st in
  let l := mkAL a res cap in
  added = len o ->
  linv l -> HEADER_LEN <= len raw -> cl < 65536 -> pl < 256 ->
  (st' = SStream -> strm <> None) ->
  (forall u, CF (r_role rq) (r_id rq) strm (cur_st st) 0 0 (raw ++ u) =
             CF (r_role rq) (r_id rq) strm (cur_st st') cl pl (drop HEADER_LEN raw ++ u)) ->
  (forall sg u, later_stream a sg ->
             CF (r_role rq) (r_id rq) (Some sg) false 0 0 (raw ++ u) =
             CF (r_role rq) (r_id rq) (Some sg) false cl pl (drop HEADER_LEN raw ++ u)) ->
  (forall u, RA maxc (r_id rq) st 0 0 (raw ++ u) = o ++ RA maxc (r_id rq) st' cl pl (drop HEADER_LEN raw ++ u)) ->
  flow_post l (hgo l st' cl pl (out ++ o) added).
Proof.
  intros a l -> Hinv H8 Hcl Hpl Hst HK HF HR.
  unfold hgo. cbn [flow_post].
  unfold l at 2 3 4 5 6 7 8 9. unfold a at 1 2 3 4 5 6.
  cbn [al ares acap a_B a_space a_parsed a_raw a_out a_req a_stream a_prem a_pad a_st].
  set (l' := mkAL (mkA B sp parsed (drop HEADER_LEN raw) (out ++ o) rq strm cl pl st') (add_output res (len o)) cap).
  assert (Hpres : pres l l').
  { constructor; unfold l, l', a; cbn [al ares acap a_B a_space a_parsed a_raw a_out a_req a_stream a_prem a_pad a_st add_output s_dest s_output].
    - reflexivity.
    - reflexivity.
    - reflexivity.
    - reflexivity.
    - rewrite len_drop. lia.
    - apply suffix_drop.
    - intros u. rewrite !K_eq. unfold rl, ri.
      cbn [a_B a_space a_parsed a_raw a_out a_req a_stream a_prem a_pad a_st]. rewrite HK. reflexivity.
    - intros sg u Hl. rewrite !F_eq. unfold rl, ri.
      cbn [a_B a_space a_parsed a_raw a_out a_req a_stream a_prem a_pad a_st]. apply HF. exact Hl.
    - intros u. rewrite !R_eq. unfold ri.
      cbn [a_B a_space a_parsed a_raw a_out a_req a_stream a_prem a_pad a_st]. rewrite HR, app_assoc. reflexivity.
    - exists o. split; reflexivity.
    - apply cap_rel_same; reflexivity. }
  assert (Hlinv : linv l').
  { destruct Hinv as [[Hok [Hp [Hq [Hb [Hs Hi]]]]] Hc].
    unfold l, a in *. cbn [al acap a_B a_space a_parsed a_raw a_out a_req a_stream a_prem a_pad a_st] in *.
    unfold a_ok in Hok. cbn [a_B a_space a_parsed a_raw] in Hok.
    split.
    - unfold l', a_inv, a_ok. cbn [al a_B a_space a_parsed a_raw a_out a_req a_stream a_prem a_pad a_st].
      rewrite len_drop. repeat split.
      + lia.
      + exact Hcl.
      + exact Hpl.
      + apply bytes_ok_drop. exact Hb.
      + exact Hst.
      + exact Hi.
    - unfold l'. cbn [al acap a_parsed]. exact Hc. }
  split; [split; [exact Hpres|split; [exact Hlinv|reflexivity]]|].
  unfold l', l, a. cbn [al a_raw]. rewrite len_drop. unfold HEADER_LEN in *. lia.
Qed.

(* the header view of the spec functions when the header lies inside raw *)
Lemma CF_head_app role id sg cur raw u : HEADER_LEN <= len raw ->
  CF role id sg cur 0 0 (raw ++ u) = cf_hd role id sg (take HEADER_LEN raw) (drop HEADER_LEN raw ++ u).
Proof.
  intros H. rewrite CF_head by (rewrite len_app; lia).
  rewrite (take_app_le HEADER_LEN raw u H), (drop_app_le HEADER_LEN raw u H). reflexivity.
Qed.

Lemma RA_head_app rid st raw u : HEADER_LEN <= len raw ->
  RA maxc rid st 0 0 (raw ++ u) = ra_hd maxc rid (take HEADER_LEN raw) (drop HEADER_LEN raw ++ u).
Proof.
  intros H. rewrite RA_head by (rewrite len_app; lia).
  rewrite (take_app_le HEADER_LEN raw u H), (drop_app_le HEADER_LEN raw u H). reflexivity.
Qed.

Lemma RA_nv rid st st' prem pad w : not_values st -> not_values st' ->
  RA maxc rid st prem pad w = RA maxc rid st' prem pad w.
Proof.
  intros H1 H2. rewrite (RA_eq maxc rid st), (RA_eq maxc rid st'). unfold ra_body.
  destruct st; destruct st'; try contradiction; reflexivity.
Qed.

Lemma hgo_ok0 B sp parsed raw out rq strm st res cap st' cl pl :
  let a := mkA B sp parsed raw out rq strm 0 0 st in
  let l := mkAL a res cap in
  linv l -> HEADER_LEN <= len raw -> cl < 65536 -> pl < 256 ->
  (st' = SStream -> strm <> None) ->
  (forall u, CF (r_role rq) (r_id rq) strm (cur_st st) 0 0 (raw ++ u) =
             CF (r_role rq) (r_id rq) strm (cur_st st') cl pl (drop HEADER_LEN raw ++ u)) ->
  (forall sg u, later_stream a sg ->
             CF (r_role rq) (r_id rq) (Some sg) false 0 0 (raw ++ u) =
             CF (r_role rq) (r_id rq) (Some sg) false cl pl (drop HEADER_LEN raw ++ u)) ->
  (forall u, RA maxc (r_id rq) st 0 0 (raw ++ u) = RA maxc (r_id rq) st' cl pl (drop HEADER_LEN raw ++ u)) ->
  flow_post l (hgo l st' cl pl out 0).
Proof.
  intros a l Hinv H8 Hcl Hpl Hst HK HF HR.
  pose proof (hgo_ok B sp parsed raw out rq strm st res cap st' cl pl [] 0 eq_refl Hinv H8 Hcl Hpl Hst HK HF HR) as H.
  cbv zeta in H. rewrite app_nil_r in H. exact H.
Qed.

Lemma cf_hd_other role id sg head rest t hid cl pl : hdr_decode head = HOk t hid cl pl ->
  is_input_stream t && (hid =? id) = false -> (t =? RT_AbortRequest) && (hid =? id) = false ->
  cf_hd role id sg head rest = CF role id sg false cl pl rest.
Proof. intros Hd H1 H2. unfold cf_hd. rewrite Hd, H1, H2. reflexivity. Qed.

Lemma cf_hd_badtype role id sg head rest t : hdr_decode head = HBadType t ->
  cf_hd role id sg head rest = CF role id sg false (be16 (nthN head 4) (nthN head 5)) (nthN head 6) rest.
Proof. intros Hd. unfold cf_hd. rewrite Hd. reflexivity. Qed.

Lemma cf_hd_stream role id sg head rest t hid cl pl : hdr_decode head = HOk t hid cl pl ->
  is_input_stream t && (hid =? id) = true ->
  cf_hd role id sg head rest =
  match cmp_input_streams role t sg with
  | Some Eq => if cl =? 0 then [] else CF role id sg true cl pl rest
  | Some Lt => CF role id sg false cl pl rest
  | _ => []
  end.
Proof. intros Hd H1. unfold cf_hd. rewrite Hd, H1. reflexivity. Qed.

Lemma ra_hd_stream rid head rest t hid cl pl : hdr_decode head = HOk t hid cl pl ->
  is_input_stream t = true -> ra_hd maxc rid head rest = RA maxc rid SSkip cl pl rest.
Proof.
  intros Hd Ht. unfold ra_hd. rewrite Hd.
  destruct (input_not_others t Ht) as [H1 [H2 H3]]. rewrite H1, H2, H3. reflexivity.
Qed.

Lemma pres_set_end a res cap : pres (mkAL a res cap) (mkAL a (set_end res) cap).
Proof.
  constructor; cbn [al ares acap set_end s_dest s_output]; try reflexivity; try lia.
  - apply suffix_refl.
  - exists []. rewrite app_nil_r. change (len (@nil N)) with 0. split; [reflexivity|lia].
  - apply cap_rel_same; reflexivity.
Qed.

Lemma head_ok l : linv l -> a_prem (al l) = 0 -> a_pad (al l) = 0 -> flow_post l (aparse_head l).
Proof.
  intros Hinv Hp Hq. rewrite aparse_head_eq.
  destruct l as [a res cap]. destruct a as [B sp parsed raw out rq strm prem pad st].
  cbn [al ares acap a_B a_space a_parsed a_raw a_out a_req a_stream a_prem a_pad a_st] in *. subst prem pad. cbv zeta.
  unfold a_boundary. cbn [a_prem a_pad]. change ((0 =? 0) && (0 =? 0)) with true. cbn [negb].
  pose proof Hinv as [[_ [_ [_ [Hb [_ Hi]]]]] _].
  cbn [al a_raw a_stream] in Hb, Hi.
  destruct (N.ltb_spec (len raw) HEADER_LEN) as [Hshort|H8].
  { cbn [flow_post]. split; [apply pres_refl|]. split; [exact Hinv|].
    unfold at_term, at_terminator. cbn [al a_raw a_prem a_pad].
    destruct (N.leb_spec HEADER_LEN (len raw)) as [Hl|_]; [lia|].
    rewrite andb_false_r. cbn [andb]. rewrite orb_false_r. reflexivity. }
  set (head := take HEADER_LEN raw).
  assert (Hhb : bytes_ok head) by (apply bytes_ok_take; exact Hb).
  assert (Hcl0 : be16 (nthN head 4) (nthN head 5) < 65536) by (apply be16_lt; apply nthN_lt; exact Hhb).
  assert (Hpl0 : nthN head 6 < 256) by (apply nthN_lt; exact Hhb).
  destruct (hdr_decode head) as [t hid cl pl|v|t] eqn:Hd.
  - (* HOk *)
    destruct (hdr_decode_ok_inv _ _ _ _ _ Hd) as [Et [Eid [Ecl Epl]]].
    assert (Hcl : cl < 65536) by (rewrite Ecl; exact Hcl0).
    assert (Hpl : pl < 256) by (rewrite Epl; exact Hpl0).
    destruct (is_input_stream t && (hid =? r_id rq)) eqn:Hin.
    + (* a record of an input stream of this request *)
      pose proof Hin as Hin'. apply andb_true_iff in Hin'. destruct Hin' as [Ht Hid].
      destruct (cmp_input_streams (r_role rq) t strm) as [[| |]|] eqn:Hcmp.
      * (* Lt: earlier stream, skipped *)
        apply hgo_ok0; try assumption.
        -- discriminate.
        -- intros u. rewrite (CF_head_app _ _ _ _ raw u H8). fold head.
           rewrite (cf_hd_stream _ _ _ _ _ _ _ _ _ Hd Hin), Hcmp. reflexivity.
        -- intros sg u Hl. rewrite (CF_head_app _ _ _ _ raw u H8). fold head.
           rewrite (cf_hd_stream _ _ _ _ _ _ _ _ _ Hd Hin).
           unfold later_stream in Hl. cbn [a_stream a_req] in Hl. destruct strm as [s|]; [|contradiction].
           rewrite (cmp_later (r_role rq) t s sg Ht Hl); [reflexivity|right; exact Hcmp].
        -- intros u. rewrite (RA_head_app _ _ raw u H8). fold head.
           rewrite (ra_hd_stream _ _ _ _ _ _ _ Hd Ht). reflexivity.
      * (* Eq: the active stream *)
        destruct (N.eqb_spec cl 0) as [Hcl00|Hcln0]; cbn [negb].
        -- (* end of stream *)
           cbn [flow_post]. split; [apply pres_set_end|]. split; [exact Hinv|].
           cbn [ares set_end s_end al].
           unfold at_term, at_terminator, rl, ri. cbn [a_raw a_prem a_pad a_req a_stream]. fold head.
           destruct (N.leb_spec HEADER_LEN (len raw)) as [_|Hl]; [|lia].
           rewrite Hd, Ht, Hid, Hcmp. rewrite Hcl00. rewrite orb_true_r. reflexivity.
        -- apply hgo_ok0; try assumption.
           ++ intros _ E. rewrite E in Hcmp. discriminate Hcmp.
           ++ intros u. rewrite (CF_head_app _ _ _ _ raw u H8). fold head.
              rewrite (cf_hd_stream _ _ _ _ _ _ _ _ _ Hd Hin), Hcmp.
              destruct (N.eqb_spec cl 0) as [E|_]; [contradiction|]. reflexivity.
           ++ intros sg u Hl. rewrite (CF_head_app _ _ _ _ raw u H8). fold head.
              rewrite (cf_hd_stream _ _ _ _ _ _ _ _ _ Hd Hin).
              unfold later_stream in Hl. cbn [a_stream a_req] in Hl. destruct strm as [s|]; [|contradiction].
              rewrite (cmp_later (r_role rq) t s sg Ht Hl); [reflexivity|left; exact Hcmp].
           ++ intros u. rewrite (RA_head_app _ _ raw u H8). fold head.
              rewrite (ra_hd_stream _ _ _ _ _ _ _ Hd Ht). apply RA_nv; exact I.
      * (* Gt: a later stream begins *)
        cbn [flow_post]. split; [apply pres_set_end|]. split; [exact Hinv|].
        cbn [ares set_end s_end al].
        unfold at_term, at_terminator, rl, ri. cbn [a_raw a_prem a_pad a_req a_stream]. fold head.
        destruct (N.leb_spec HEADER_LEN (len raw)) as [_|Hl]; [|lia].
        rewrite Hd, Ht, Hid, Hcmp. rewrite orb_true_r. reflexivity.
      * (* the comparison is defined *)
        destruct strm as [s|]; [|discriminate Hcmp].
        exact (cmp_some _ _ _ Ht Hi Hcmp).
    + destruct ((t =? RT_AbortRequest) && (hid =? r_id rq)) eqn:Hab.
      { cbn [flow_post]. split; [split; [apply pres_refl|split; [exact Hinv|reflexivity]]|].
        unfold err_at, head_err, ri. cbn [al a_prem a_pad a_raw a_req]. fold head. rewrite Hd, Hin, Hab.
        repeat split; try reflexivity. exact H8. }
      assert (HKo : forall sg cur u, CF (r_role rq) (r_id rq) sg cur 0 0 (raw ++ u) =
                                  CF (r_role rq) (r_id rq) sg false cl pl (drop HEADER_LEN raw ++ u)).
      { intros sg cur u. rewrite (CF_head_app _ _ _ _ raw u H8). fold head.
        apply (cf_hd_other _ _ _ _ _ _ _ _ _ Hd Hin Hab). }
      destruct ((t =? RT_BeginRequest) && negb (hid =? r_id rq)) eqn:Hbg.
      { apply hgo_ok; try assumption.
        - reflexivity.
        - discriminate.
        - intros u. apply HKo.
        - intros sg u _. apply HKo.
        - intros u. rewrite (RA_head_app _ _ raw u H8). fold head. unfold ra_hd. rewrite Hd, Hab, Hbg. reflexivity. }
      destruct ((t =? RT_GetValues) && hdr_is_management t hid) eqn:Hgv.
      { apply hgo_ok0; try assumption.
        - discriminate.
        - intros u. apply HKo.
        - intros sg u _. apply HKo.
        - intros u. rewrite (RA_head_app _ _ raw u H8). fold head. unfold ra_hd. rewrite Hd, Hab, Hbg, Hgv. reflexivity. }
      apply hgo_ok0; try assumption.
      * discriminate.
      * intros u. apply HKo.
      * intros sg u _. apply HKo.
      * intros u. rewrite (RA_head_app _ _ raw u H8). fold head. unfold ra_hd. rewrite Hd, Hab, Hbg, Hgv.
        apply RA_nv; exact I.
  - (* unknown version *)
    cbn [flow_post]. split; [split; [apply pres_refl|split; [exact Hinv|reflexivity]]|].
    unfold err_at, head_err, ri. cbn [al a_prem a_pad a_raw a_req]. fold head. rewrite Hd.
    repeat split; try reflexivity. exact H8.
  - (* unknown type *)
    assert (HKo : forall sg cur u, CF (r_role rq) (r_id rq) sg cur 0 0 (raw ++ u) =
        CF (r_role rq) (r_id rq) sg false (be16 (nthN head 4) (nthN head 5)) (nthN head 6) (drop HEADER_LEN raw ++ u)).
    { intros sg cur u. rewrite (CF_head_app _ _ _ _ raw u H8). fold head. apply (cf_hd_badtype _ _ _ _ _ _ Hd). }
    apply hgo_ok; try assumption.
    + reflexivity.
    + discriminate.
    + intros u. apply HKo.
    + intros sg u _. apply HKo.
    + intros u. rewrite (RA_head_app _ _ raw u H8). fold head. unfold ra_hd. rewrite Hd. reflexivity.
Qed.

(* ---- the padding stage and one whole iteration ---- *)
Lemma RA_pad_adv rid st pad w n : n <= pad -> n <= len w ->
  RA maxc rid st 0 pad w = RA maxc rid st 0 (pad - n) (drop n w).
Proof.
  intros Hn Hw.
  destruct (N.eq_dec n 0) as [->|Hn0].
  { rewrite drop_0, N.sub_0_r. reflexivity. }
  rewrite (RA_pad maxc rid st pad) by lia.
  destruct (N.eq_dec n pad) as [->|Hne].
  - rewrite N.sub_diag.
    destruct (N.leb_spec (len w) pad) as [Hl|Hl].
    + rewrite (drop_all pad w) by lia. rewrite RA_nil. reflexivity.
    + apply RA_st0.
  - rewrite (RA_pad maxc rid st (pad - n)) by lia.
    rewrite len_drop, drop_drop.
    replace (n + (pad - n)) with pad by lia.
    destruct (N.leb_spec (len w - n) (pad - n)); destruct (N.leb_spec (len w) pad); try reflexivity; lia.
Qed.

Lemma pad_ok B sp parsed raw out rq strm pad st res cap n :
  let l := mkAL (mkA B sp parsed raw out rq strm 0 pad st) res cap in
  linv l -> n <= pad -> n <= len raw ->
  cont_post l (mkAL (mkA B sp parsed (drop n raw) out rq strm 0 (pad - n) st) res cap).
Proof.
  intros l Hinv Hn Hr.
  set (l' := mkAL (mkA B sp parsed (drop n raw) out rq strm 0 (pad - n) st) res cap).
  assert (Hpres : pres l l').
  { constructor; unfold l, l'; cbn [al ares acap a_B a_space a_parsed a_raw a_out a_req a_stream a_prem a_pad a_st].
    - reflexivity.
    - reflexivity.
    - reflexivity.
    - reflexivity.
    - rewrite len_drop. lia.
    - apply suffix_drop.
    - intros u. rewrite !K_eq. unfold rl, ri.
      cbn [a_B a_space a_parsed a_raw a_out a_req a_stream a_prem a_pad a_st].
      rewrite (CF_pad_adv _ _ strm (cur_st st) pad (raw ++ u) n) by (rewrite ?len_app; lia).
      rewrite (drop_app_le n raw u) by lia. reflexivity.
    - intros sg u _. rewrite !F_eq. unfold rl, ri.
      cbn [a_B a_space a_parsed a_raw a_out a_req a_stream a_prem a_pad a_st].
      rewrite (CF_pad_adv _ _ (Some sg) false pad (raw ++ u) n) by (rewrite ?len_app; lia).
      rewrite (drop_app_le n raw u) by lia. reflexivity.
    - intros u. rewrite !R_eq. unfold ri.
      cbn [a_B a_space a_parsed a_raw a_out a_req a_stream a_prem a_pad a_st].
      rewrite (RA_pad_adv _ st pad (raw ++ u) n) by (rewrite ?len_app; lia).
      rewrite (drop_app_le n raw u) by lia. reflexivity.
    - exists []. rewrite app_nil_r. change (len (@nil N)) with 0. split; [reflexivity|lia].
    - apply cap_rel_same; reflexivity. }
  split; [exact Hpres|]. split; [|reflexivity].
  destruct Hinv as [[Hok [Hp [Hq [Hb [Hs Hi]]]]] Hc].
  unfold l in *. cbn [al acap a_B a_space a_parsed a_raw a_out a_req a_stream a_prem a_pad a_st] in *.
  unfold a_ok in Hok. cbn [a_B a_space a_parsed a_raw] in Hok.
  split.
  - unfold l', a_inv, a_ok. cbn [al a_B a_space a_parsed a_raw a_out a_req a_stream a_prem a_pad a_st].
    rewrite len_drop. repeat split.
    + lia.
    + lia.
    + apply bytes_ok_drop. exact Hb.
    + exact Hs.
    + exact Hi.
  - unfold l'. cbn [al acap a_parsed]. exact Hc.
Qed.

Definition after_payload (l : alstate) : aflow :=
  let a := al l in
  if 0 <? a_pad a then
    if negb (a_prem a =? 0) then APanic 40 else
    let raw_len := len (a_raw a) in
    if raw_len <=? a_pad a then
      ABreak (mkAL (a_set a (a_parsed a) [] (a_out a) (a_prem a) (a_pad a - raw_len) (a_st a)) (ares l) (acap l))
    else
      aparse_head (mkAL (a_set a (a_parsed a) (drop (a_pad a) (a_raw a)) (a_out a) (a_prem a) 0 (a_st a)) (ares l) (acap l))
  else aparse_head l.

Lemma aparse_iter_eq l :
  aparse_iter maxc l =
  if 0 <? a_prem (al l) then
    match aparse_payload maxc l with
    | AContinue l' => after_payload l'
    | x => x
    end
  else after_payload l.
Proof. reflexivity. Qed.

Lemma at_term_short a : len (a_raw a) < HEADER_LEN -> at_term a = false.
Proof.
  intros H. unfold at_term, at_terminator.
  destruct (N.leb_spec HEADER_LEN (len (a_raw a))) as [Hl|_]; [lia|].
  rewrite andb_false_r. reflexivity.
Qed.

Lemma after_payload_ok l : linv l -> a_prem (al l) = 0 -> flow_post l (after_payload l).
Proof.
  intros Hinv Hp. unfold after_payload.
  destruct l as [a res cap]. destruct a as [B sp parsed raw out rq strm prem pad st].
  cbn [al ares acap a_B a_space a_parsed a_raw a_out a_req a_stream a_prem a_pad a_st] in *. subst prem.
  cbv zeta. unfold a_set. cbn [a_B a_space a_parsed a_raw a_out a_req a_stream a_prem a_pad a_st].
  destruct (N.ltb_spec 0 pad) as [Hq|Hq].
  - change (negb (0 =? 0)) with false. cbv iota.
    destruct (N.leb_spec (len raw) pad) as [Hl|Hl].
    + cbn [flow_post].
      pose proof (pad_ok B sp parsed raw out rq strm pad st res cap (len raw) Hinv Hl (N.le_refl _)) as [P [I E]].
      rewrite (drop_all (len raw) raw) in P, I by lia.
      split; [exact P|]. split; [exact I|].
      rewrite at_term_short; [rewrite orb_false_r; reflexivity|].
      cbn [al a_raw]. change (len (@nil N)) with 0. unfold HEADER_LEN. lia.
    + pose proof (pad_ok B sp parsed raw out rq strm pad st res cap pad Hinv (N.le_refl _) ltac:(lia)) as HC.
      rewrite N.sub_diag in HC.
      apply (flow_post_trans _ _ _ HC).
      apply head_ok; [apply HC|reflexivity|reflexivity].
  - assert (pad = 0) by lia. subst pad.
    apply head_ok; [exact Hinv|reflexivity|reflexivity].
Qed.

Lemma iter_ok l : linv l -> flow_post l (aparse_iter maxc l).
Proof.
  intros Hinv. rewrite aparse_iter_eq.
  destruct (N.ltb_spec 0 (a_prem (al l))) as [Hp|Hp].
  - pose proof (payload_ok l Hinv Hp) as H.
    destruct (aparse_payload maxc l) as [l'|l'|l' e|n]; cbn [pay_post] in H.
    + destruct H as [HC Hp']. apply (flow_post_trans _ _ _ HC).
      apply after_payload_ok; [apply HC|exact Hp'].
    + destruct H as [[P [I E]] Ht]. cbn [flow_post]. split; [exact P|]. split; [exact I|].
      rewrite Ht, orb_false_r. exact E.
    + contradiction.
    + contradiction.
  - apply after_payload_ok; [exact Hinv|lia].
Qed.

(* ---- the loop ---- *)
Definition loop_post (l : alstate) (fl : aflow) : Prop :=
  match fl with
  | AContinue _ => False
  | ABreak l' => pres l l' /\ linv l' /\ s_end (ares l') = s_end (ares l) || at_term (al l')
  | AErr l' e => cont_post l l' /\ err_at (al l') e
  | APanic _ => False
  end.

Lemma loop_ok fuel : forall l, linv l -> (length (a_raw (al l)) < fuel)%nat ->
  loop_post l (aparse_loop maxc fuel l).
Proof.
  induction fuel as [|f IH]; intros l Hinv Hf; [lia|].
  cbn [aparse_loop].
  destruct (a_raw (al l)) as [|b r] eqn:Eraw.
  - cbn [loop_post]. split; [apply pres_refl|]. split; [exact Hinv|].
    rewrite at_term_short; [rewrite orb_false_r; reflexivity|].
    rewrite Eraw. change (len (@nil N)) with 0. unfold HEADER_LEN. lia.
  - pose proof (iter_ok l Hinv) as H.
    destruct (aparse_iter maxc l) as [l'|l'|l' e|n]; cbn [flow_post] in H.
    + destruct H as [HC Hlen].
      assert (Hf' : (length (a_raw (al l')) < f)%nat).
      { rewrite Eraw in Hlen. unfold len in Hlen. cbn [length] in *. lia. }
      pose proof (IH l' ltac:(apply HC) Hf') as H2.
      destruct (aparse_loop maxc f l') as [l2|l2|l2 e|n]; cbn [loop_post] in *.
      * exact H2.
      * destruct H2 as [P2 [I2 E2]]. destruct HC as [P1 [I1 E1]].
        split; [apply (pres_trans _ _ _ P1 P2)|]. split; [exact I2|]. rewrite E2, E1. reflexivity.
      * destruct H2 as [HC2 He]. split; [apply (cont_post_trans _ _ _ HC HC2)|exact He].
      * exact H2.
    + exact H.
    + exact H.
    + exact H.
Qed.

(* ================= Part D: the call as a whole ================= *)
Definition res0 (a : ast) : status :=
  mkStatus 0 (match a_stream a with None => true | Some _ => false end) 0 [].
Definition feed (a : ast) (new : bytes) : ast :=
  mkA (a_B a) (a_space a - len new) (a_parsed a) (a_raw a ++ new) (a_out a) (a_req a) (a_stream a)
      (a_prem a) (a_pad a) (a_st a).
Definition l0 (a : ast) (new : bytes) (dest : option N) : alstate := mkAL (feed a new) (res0 a) dest.

Lemma aparse_eq a new dest : legal a new dest ->
  aparse maxc a new dest =
  match aparse_loop maxc (2 * N.to_nat (a_B a) + 8) (l0 a new dest) with
  | AContinue l | ABreak l => AOk (al l) (ares l)
  | AErr l e => AFail (al l) e (ares l)
  | APanic n => APanicked n
  end.
Proof.
  intros [Hb [Hsp Hd]]. unfold aparse.
  assert (H1 : (match dest with Some _ => negb (len (a_parsed a) =? 0) | None => false end) = false).
  { destruct dest as [c|]; [|reflexivity]. rewrite Hd by discriminate. reflexivity. }
  rewrite H1.
  destruct (N.ltb_spec (a_space a) (len new)) as [Hl|_]; [lia|]. reflexivity.
Qed.

Lemma linv_l0 a new dest : a_inv a -> legal a new dest -> linv (l0 a new dest).
Proof.
  intros [Hok [Hp [Hq [Hb [Hs Hi]]]]] [Hnb [Hsp Hd]]. unfold l0, feed, linv. cbn [al acap a_parsed].
  split; [|exact Hd].
  unfold a_inv, a_ok in *. cbn [a_B a_space a_parsed a_raw a_out a_req a_stream a_prem a_pad a_st].
  rewrite len_app. repeat split.
  - lia.
  - exact Hp.
  - exact Hq.
  - apply bytes_ok_app. split; assumption.
  - exact Hs.
  - exact Hi.
Qed.

Lemma fuel_l0 a new dest : a_inv a -> legal a new dest ->
  (length (a_raw (al (l0 a new dest))) < 2 * N.to_nat (a_B a) + 8)%nat.
Proof.
  intros [Hok _] [_ [Hsp _]]. unfold a_ok in Hok. cbn [l0 al feed a_raw].
  pose proof (len_app (a_raw a) new) as H. unfold len in *. lia.
Qed.

(* the outcome of a legal call, in terms of the loop relation *)
Lemma aparse_spec a new dest : a_inv a -> legal a new dest ->
  (exists l', aparse maxc a new dest = AOk (al l') (ares l') /\ pres (l0 a new dest) l' /\ linv l' /\
              s_end (ares l') = s_end (res0 a) || at_term (al l')) \/
  (exists l' e, aparse maxc a new dest = AFail (al l') e (ares l') /\ cont_post (l0 a new dest) l' /\
                err_at (al l') e).
Proof.
  intros Hinv Hleg. rewrite (aparse_eq a new dest Hleg).
  pose proof (loop_ok _ _ (linv_l0 a new dest Hinv Hleg) (fuel_l0 a new dest Hinv Hleg)) as H.
  destruct (aparse_loop maxc (2 * N.to_nat (a_B a) + 8) (l0 a new dest)) as [l'|l'|l' e|n]; cbn [loop_post] in H.
  - contradiction.
  - left. exists l'. split; [reflexivity|exact H].
  - right. exists l', e. split; [reflexivity|exact H].
  - contradiction.
Qed.

Lemma aparse_pres a new dest a' s : a_inv a -> legal a new dest ->
  (aparse maxc a new dest = AOk a' s \/ exists e, aparse maxc a new dest = AFail a' e s) ->
  exists l', al l' = a' /\ ares l' = s /\ pres (l0 a new dest) l' /\ linv l'.
Proof.
  intros Hinv Hleg Hres.
  destruct (aparse_spec a new dest Hinv Hleg) as [[l' [E [P [I _]]]]|[l' [e [E [[P [I _]] _]]]]];
    rewrite E in Hres; destruct Hres as [Hres|[e' Hres]]; try discriminate Hres;
    inversion Hres; subst; exists l'; (split; [reflexivity|split; [reflexivity|split; assumption]]).
Qed.

Lemma head_err_kind rid h e : head_err rid h = Some e -> e = EAbortRequest \/ exists v, e = EUnknownVersion v.
Proof.
  unfold head_err. destruct (hdr_decode h) as [t hid cl pl|v|t].
  - destruct (is_input_stream t && (hid =? rid)); [discriminate|].
    destruct ((t =? RT_AbortRequest) && (hid =? rid)); [|discriminate].
    intros H; inversion H. left; reflexivity.
  - intros H; inversion H. right; exists v; reflexivity.
  - discriminate.
Qed.

Lemma K_feed a new u : K (feed a new) u = K a (new ++ u).
Proof.
  rewrite !K_eq. unfold rl, ri, feed.
  cbn [a_B a_space a_parsed a_raw a_out a_req a_stream a_prem a_pad a_st]. rewrite <- app_assoc. reflexivity.
Qed.
Lemma F_feed sg a new u : F sg (feed a new) u = F sg a (new ++ u).
Proof.
  rewrite !F_eq. unfold rl, ri, feed.
  cbn [a_B a_space a_parsed a_raw a_out a_req a_stream a_prem a_pad a_st]. rewrite <- app_assoc. reflexivity.
Qed.
Lemma R_feed a new u : R maxc (feed a new) u = R maxc a (new ++ u).
Proof.
  rewrite !R_eq. unfold ri, feed.
  cbn [a_B a_space a_parsed a_raw a_out a_req a_stream a_prem a_pad a_st]. rewrite <- app_assoc. reflexivity.
Qed.

(* ---- T6: totality ---- *)
Theorem T_total : T_total_stmt maxc.
Proof.
  intros a new dest Hinv Hleg.
  destruct (aparse_spec a new dest Hinv Hleg) as [[l' [E [P [I _]]]]|[l' [e [E [[P [I _]] He]]]]].
  - left. exists (al l'), (ares l'). split; [exact E|apply I].
  - right. exists (al l'), e, (ares l'). split; [exact E|]. split; [apply I|].
    destruct He as [_ [_ [_ He]]]. apply (head_err_kind _ _ _ He).
Qed.

(* ---- T1: content conservation ---- *)
(* (the hypothesis [bytes_ok u] of the target statements is not needed: the not yet fed bytes are arbitrary) *)
Lemma content_law a new dest u a' s :
  a_inv a -> legal a new dest ->
  (aparse maxc a new dest = AOk a' s \/ exists e, aparse maxc a new dest = AFail a' e s) ->
  K a (new ++ u) = s_dest s ++ K a' u /\
  a_stream a' = a_stream a /\ a_req a' = a_req a /\
  (dest = None -> s_dest s = [] /\ exists d, a_parsed a' = a_parsed a ++ d /\ s_stream s = len d) /\
  (forall c, dest = Some c -> a_parsed a' = [] /\ s_stream s = len (s_dest s) /\ len (s_dest s) <= c).
Proof.
  intros Hinv Hleg Hres.
  destruct (aparse_pres a new dest a' s Hinv Hleg Hres) as [l' [Ea [Es [P I]]]]. subst a' s.
  split.
  { pose proof (p_K _ _ P u) as H. cbn [l0 al ares res0 s_dest app] in H. rewrite K_feed in H. exact H. }
  split; [apply (p_stream _ _ P)|]. split; [apply (p_req _ _ P)|].
  pose proof (p_cap _ _ P) as Hc. unfold cap_rel in Hc. cbn [l0 al ares acap res0 s_dest s_stream feed a_parsed] in Hc.
  split.
  - intros ->. destruct Hc as [_ [Hd [d [Hp Hs]]]]. split; [exact Hd|]. exists d. split; [exact Hp|lia].
  - intros c ->. destruct Hc as [d [c' [_ [Hp [Hd [Hs Hcc]]]]]]. cbn [app] in Hd.
    destruct Hleg as [_ [_ Hpe]]. rewrite Hpe in Hp by discriminate.
    split; [exact Hp|]. rewrite Hd. split; lia.
Qed.

Theorem T_content : T_content_stmt maxc.
Proof. intros a new dest u a' s Hinv Hleg _ Hres. apply (content_law a new dest u a' s Hinv Hleg Hres). Qed.

(* ---- T2: later streams untouched ---- *)
Lemma later_law a new dest u a' s sg :
  a_inv a -> legal a new dest -> later_stream a sg ->
  (aparse maxc a new dest = AOk a' s \/ exists e, aparse maxc a new dest = AFail a' e s) ->
  F (Some sg) a (new ++ u) = F (Some sg) a' u.
Proof.
  intros Hinv Hleg Hl Hres.
  destruct (aparse_pres a new dest a' s Hinv Hleg Hres) as [l' [Ea [Es [P I]]]]. subst a' s.
  rewrite <- (F_feed (Some sg) a new u). apply (p_F _ _ P). exact Hl.
Qed.

Theorem T_later : T_later_stmt maxc.
Proof. intros a new dest u a' s sg Hinv Hleg _ Hl Hres. apply (later_law a new dest u a' s sg Hinv Hleg Hl Hres). Qed.

(* ---- T3: replies ---- *)
Lemma replies_law a new dest u a' s :
  a_inv a -> legal a new dest ->
  (aparse maxc a new dest = AOk a' s \/ exists e, aparse maxc a new dest = AFail a' e s) ->
  R maxc a (new ++ u) = R maxc a' u /\ exists o, a_out a' = a_out a ++ o /\ s_output s = len o.
Proof.
  intros Hinv Hleg Hres.
  destruct (aparse_pres a new dest a' s Hinv Hleg Hres) as [l' [Ea [Es [P I]]]]. subst a' s.
  split.
  - rewrite <- (R_feed a new u). apply (p_R _ _ P).
  - destruct (p_out _ _ P) as [o [Ho Hs]]. exists o. split; [exact Ho|].
    cbn [l0 ares res0 s_output] in Hs. lia.
Qed.

Theorem T_replies : T_replies_stmt maxc.
Proof. intros a new dest u a' s Hinv Hleg _ Hres. apply (replies_law a new dest u a' s Hinv Hleg Hres). Qed.

(* ---- T4: end of stream ---- *)
Theorem T_end : T_end_stmt maxc.
Proof.
  intros a new dest a' s Hinv Hleg Hres.
  destruct (aparse_spec a new dest Hinv Hleg) as [[l' [E [P [I He]]]]|[l' [e [E _]]]];
    rewrite E in Hres; [|discriminate Hres].
  inversion Hres; subst a' s. rewrite He. cbn [res0 s_end].
  unfold at_term, rl, ri. rewrite (p_req _ _ P), (p_stream _ _ P). cbn [l0 al feed a_req a_stream].
  destruct (a_stream a) as [x|] eqn:Es; [reflexivity|reflexivity].
Qed.

(* ---- T7: errors are sticky ---- *)
Lemma aparse_head_err l e : err_at (al l) e -> aparse_head l = AErr l e.
Proof.
  intros [Hp [Hq [H8 He]]]. rewrite aparse_head_eq. cbv zeta.
  unfold a_boundary. rewrite Hp, Hq. change (negb ((0 =? 0) && (0 =? 0))) with false. cbv iota.
  destruct (N.ltb_spec (len (a_raw (al l))) HEADER_LEN) as [Hl|_]; [lia|].
  unfold head_err, ri in He.
  destruct (hdr_decode (take HEADER_LEN (a_raw (al l)))) as [t hid cl pl|v|t].
  - destruct (is_input_stream t && (hid =? r_id (a_req (al l)))); [discriminate He|].
    destruct ((t =? RT_AbortRequest) && (hid =? r_id (a_req (al l)))); [|discriminate He].
    inversion He. reflexivity.
  - inversion He. reflexivity.
  - discriminate He.
Qed.

Lemma aparse_loop_err f l e : err_at (al l) e -> aparse_loop maxc (S f) l = AErr l e.
Proof.
  intros He. pose proof He as [Hp [Hq [H8 _]]]. cbn [aparse_loop].
  destruct (a_raw (al l)) as [|b r] eqn:Eraw.
  { change (len (@nil N)) with 0 in H8. unfold HEADER_LEN in H8. lia. }
  rewrite aparse_iter_eq. rewrite Hp, ltb_0_0.
  unfold after_payload. cbv zeta. rewrite Hq, ltb_0_0.
  rewrite (aparse_head_err l e He). reflexivity.
Qed.

Theorem T_sticky : T_sticky_stmt maxc.
Proof.
  intros a new dest a' e s new' dest' Hinv Hleg Hres Hleg'.
  destruct (aparse_spec a new dest Hinv Hleg) as [[l' [E _]]|[l' [e' [E [[P [I _]] He]]]]];
    rewrite E in Hres; [discriminate Hres|].
  inversion Hres; subst a' e' s. clear Hres E.
  rewrite (aparse_eq _ _ _ Hleg').
  assert (He' : err_at (al (l0 (al l') new' dest')) e).
  { destruct He as [Hp [Hq [H8 Hh]]]. unfold err_at, ri in *.
    cbn [l0 al feed a_prem a_pad a_raw a_req].
    rewrite len_app. rewrite (take_app_le HEADER_LEN _ new' H8).
    repeat split; try assumption. lia. }
  replace (2 * N.to_nat (a_B (al l')) + 8)%nat with (S (2 * N.to_nat (a_B (al l')) + 7)) by lia.
  rewrite (aparse_loop_err _ _ _ He').
  exists (feed (al l') new'). cbn [l0 al ares]. split; [reflexivity|].
  cbn [feed a_parsed a_out a_raw]. repeat split; reflexivity.
Qed.

(* ================= Part E: the other operations ================= *)

(* with no stream selected nothing is ever delivered *)
Lemma content_from_none role id fuel : forall prem pad w, content_from role id fuel None false prem pad w = [].
Proof.
  induction fuel as [|f IH]; intros prem pad w; [reflexivity|].
  rewrite content_from_S. unfold cf_body. rewrite !IH.
  destruct (0 <? prem).
  { destruct (len w <? prem); reflexivity. }
  destruct (0 <? pad).
  { destruct (len w <=? pad); reflexivity. }
  destruct (len w <? HEADER_LEN); [reflexivity|]. cbv zeta.
  destruct (hdr_decode (take HEADER_LEN w)) as [t rid cl pl|v|t]; rewrite ?IH; try reflexivity.
  destruct (is_input_stream t && (rid =? id)).
  - cbn [cmp_input_streams]. reflexivity.
  - destruct ((t =? RT_AbortRequest) && (rid =? id)); reflexivity.
Qed.

Lemma F_none a u : F None a u = [].
Proof. unfold F. apply content_from_none. Qed.

(* ---- consume_stream ---- *)
Theorem consume_stream_law a k u :
  K a u = take (N.min k (len (a_parsed a))) (a_parsed a) ++ K (aconsume_stream a k) u /\
  R maxc (aconsume_stream a k) u = R maxc a u /\
  (forall sg, F sg (aconsume_stream a k) u = F sg a u).
Proof.
  split; [|split; [reflexivity|intros sg; reflexivity]].
  rewrite !K_eq. unfold aconsume_stream, rl, ri.
  cbn [a_B a_space a_parsed a_raw a_out a_req a_stream a_prem a_pad a_st].
  rewrite app_assoc, take_drop. reflexivity.
Qed.

Theorem consume_stream_inv a k : a_inv a -> a_inv (aconsume_stream a k).
Proof.
  intros [Hok [Hp [Hq [Hb [Hs Hi]]]]]. unfold a_inv, a_ok, aconsume_stream in *.
  cbn [a_B a_space a_parsed a_raw a_out a_req a_stream a_prem a_pad a_st].
  rewrite len_drop. repeat split; try assumption. lia.
Qed.

(* ---- compress ---- *)
Theorem compress_law a u :
  K (acompress a) u = K a u /\ R maxc (acompress a) u = R maxc a u /\ (forall sg, F sg (acompress a) u = F sg a u).
Proof. split; [reflexivity|split; [reflexivity|intros sg; reflexivity]]. Qed.

Theorem compress_inv a : a_inv a -> a_inv (acompress a).
Proof.
  intros [Hok [Hp [Hq [Hb [Hs Hi]]]]]. unfold a_inv, a_ok, acompress in *.
  cbn [a_B a_space a_parsed a_raw a_out a_req a_stream a_prem a_pad a_st].
  repeat split; try assumption. lia.
Qed.

(* after compress the free space is everything that is not occupied: no well-formed state with the same
   buffer size and contents has more *)
Theorem compress_space_max a :
  a_space (acompress a) = a_B a - (len (a_parsed a) + len (a_raw a)) /\
  (forall a2, a_ok a2 -> a_B a2 = a_B a -> a_parsed a2 = a_parsed a -> a_raw a2 = a_raw a ->
              a_space a2 <= a_space (acompress a)).
Proof.
  split; [reflexivity|]. intros a2 Hok HB Hp Hr. unfold a_ok in Hok. rewrite HB, Hp, Hr in Hok.
  unfold acompress. cbn [a_space]. lia.
Qed.

(* ---- consume_output ---- *)
Theorem consume_output_law a k u :
  R maxc a u = take (N.min k (len (a_out a))) (a_out a) ++ R maxc (aconsume_output a k) u /\
  K (aconsume_output a k) u = K a u /\ (forall sg, F sg (aconsume_output a k) u = F sg a u).
Proof.
  split; [|split; [reflexivity|intros sg; reflexivity]].
  rewrite !R_eq. unfold aconsume_output, ri.
  cbn [a_B a_space a_parsed a_raw a_out a_req a_stream a_prem a_pad a_st].
  destruct (N.leb_spec (len (a_out a)) k) as [Hl|Hl].
  - rewrite (N.min_r k) by lia. rewrite (take_all (len (a_out a))) by lia. reflexivity.
  - rewrite (N.min_l k) by lia. rewrite app_assoc, take_drop. reflexivity.
Qed.

Theorem consume_output_inv a k : a_inv a -> a_inv (aconsume_output a k).
Proof. intros H. exact H. Qed.

(* ---- set_stream ---- *)
Lemma accepts_input role cur x : accepts role cur (Some x) = Some true -> is_input_stream x = true.
Proof.
  unfold accepts, cmp_input_streams. destruct cur as [e|]; [|discriminate].
  destruct (is_input_stream x); [reflexivity|]. cbn [negb orb]. discriminate.
Qed.

(* selecting a different stream: the stream buffer is dropped, and what the new epoch will deliver is
   exactly the not yet consumed future content of the selected stream; replies and the content of every
   stream still to come are untouched *)
Theorem set_stream_law a s a' u : a_inv a -> aset_stream a s = ASetOk a' ->
  (optN_eqb s (a_stream a) = true -> a' = a) /\
  (optN_eqb s (a_stream a) = false ->
     a_stream a' = s /\ a_parsed a' = [] /\ a_req a' = a_req a /\ a_out a' = a_out a /\ a_raw a' = a_raw a /\
     K a' u = F s a u) /\
  R maxc a' u = R maxc a u /\
  (forall sg, F sg a' u = F sg a u) /\
  a_inv a'.
Proof.
  intros Hinv. unfold aset_stream.
  destruct (accepts (r_role (a_req a)) (a_stream a) s) as [[|]|] eqn:Hacc; try discriminate.
  destruct (optN_eqb s (a_stream a)) eqn:Heq.
  - intros H; inversion H; subst a'. split; [reflexivity|]. split; [discriminate|].
    split; [reflexivity|]. split; [intros sg; reflexivity|exact Hinv].
  - intros H; inversion H; subst a'. clear H. split; [discriminate|].
    assert (Hcur : cur_st (match a_st a with SStream => SSkip | x => x end) = false).
    { destruct (a_st a); reflexivity. }
    split.
    { intros _. cbn [a_stream a_parsed a_req a_out a_raw]. repeat split.
      rewrite K_eq, F_eq. unfold rl, ri.
      cbn [a_B a_space a_parsed a_raw a_out a_req a_stream a_prem a_pad a_st]. rewrite Hcur. reflexivity. }
    split.
    { rewrite !R_eq. unfold ri. cbn [a_B a_space a_parsed a_raw a_out a_req a_stream a_prem a_pad a_st].
      f_equal. destruct (a_st a); try reflexivity. apply RA_nv; exact I. }
    split; [intros sg; reflexivity|].
    destruct Hinv as [Hok [Hp [Hq [Hb [Hs Hi]]]]]. unfold a_inv, a_ok in *.
    cbn [a_B a_space a_parsed a_raw a_out a_req a_stream a_prem a_pad a_st].
    change (len (@nil N)) with 0. repeat split; try assumption.
    + lia.
    + intros E. destruct (a_st a); discriminate E.
    + destruct s as [x|]; [|exact I]. apply (accepts_input _ _ _ Hacc).
Qed.

(* in particular: with no stream selected nothing will be delivered *)
Corollary set_stream_none a a' u : a_inv a -> aset_stream a None = ASetOk a' -> a_stream a <> None ->
  K a' u = [].
Proof.
  intros Hinv H Hne. destruct (set_stream_law a None a' u Hinv H) as [_ [H2 _]].
  assert (Hf : optN_eqb None (a_stream a) = false) by (destruct (a_stream a); [reflexivity|congruence]).
  destruct (H2 Hf) as [_ [_ [_ [_ [_ HK]]]]]. rewrite HK. apply F_none.
Qed.

(* ================= Part F: schedules ================= *)
Inductive sop :=
| OParse (new : bytes) (dest : option N)     (* write new into input_buffer(), parse(len, dest) *)
| OConsumeStream (k : N)
| OCompress
| OConsumeOutput (k : N).

Definition fed_of (op : sop) : bytes := match op with OParse new _ => new | _ => [] end.

(* state after the operation, stream bytes handed to the caller, output bytes taken by the caller *)
Definition sstep (a : ast) (op : sop) : ast * bytes * bytes :=
  match op with
  | OParse new dest =>
    match aparse maxc a new dest with
    | AOk a' s | AFail a' _ s => (a', s_dest s, [])
    | APanicked _ => (a, [], [])
    end
  | OConsumeStream k => (aconsume_stream a k, take (N.min k (len (a_parsed a))) (a_parsed a), [])
  | OCompress => (acompress a, [], [])
  | OConsumeOutput k => (aconsume_output a k, [], take (N.min k (len (a_out a))) (a_out a))
  end.

Fixpoint srun (a : ast) (ops : list sop) : ast * bytes * bytes :=
  match ops with
  | [] => (a, [], [])
  | op :: r =>
    let '(a1, d1, e1) := sstep a op in
    let '(a2, d2, e2) := srun a1 r in
    (a2, d1 ++ d2, e1 ++ e2)
  end.

Definition op_legal (a : ast) (op : sop) : Prop :=
  match op with OParse new dest => legal a new dest | _ => True end.

Fixpoint sched_legal (a : ast) (ops : list sop) : Prop :=
  match ops with
  | [] => True
  | op :: r => op_legal a op /\ sched_legal (fst (fst (sstep a op))) r
  end.

Definition fed (ops : list sop) : bytes := flat_map fed_of ops.

Definition step_law (a : ast) (new : bytes) (a1 : ast) (d e : bytes) : Prop :=
  a_inv a1 /\ a_stream a1 = a_stream a /\ a_req a1 = a_req a /\
  forall u, K a (new ++ u) = d ++ K a1 u /\ R maxc a (new ++ u) = e ++ R maxc a1 u /\
            forall sg, later_stream a sg -> F (Some sg) a (new ++ u) = F (Some sg) a1 u.

Lemma sstep_law a op : a_inv a -> op_legal a op ->
  step_law a (fed_of op) (fst (fst (sstep a op))) (snd (fst (sstep a op))) (snd (sstep a op)).
Proof.
  intros Hinv Hleg. destruct op as [new dest|k| |k]; cbn [fed_of op_legal] in *.
  - assert (H : exists l', (aparse maxc a new dest = AOk (al l') (ares l') \/
                            exists e, aparse maxc a new dest = AFail (al l') e (ares l')) /\
                           pres (l0 a new dest) l' /\ linv l').
    { destruct (aparse_spec a new dest Hinv Hleg) as [[l' [E [P [I _]]]]|[l' [e [E [[P [I _]] _]]]]].
      - exists l'. split; [left; exact E|split; assumption].
      - exists l'. split; [right; exists e; exact E|split; assumption]. }
    destruct H as [l' [E [P I]]].
    assert (Hs : sstep a (OParse new dest) = (al l', s_dest (ares l'), @nil N)).
    { cbn [sstep]. destruct E as [E|[e E]]; rewrite E; reflexivity. }
    rewrite Hs. cbn [fst snd]. split; [apply I|].
    split; [apply (p_stream _ _ P)|]. split; [apply (p_req _ _ P)|].
    intros u. split; [|split].
    + pose proof (p_K _ _ P u) as H. cbn [l0 al ares res0 s_dest app] in H. rewrite K_feed in H. exact H.
    + rewrite <- (R_feed a new u). apply (p_R _ _ P).
    + intros sg Hl. rewrite <- (F_feed (Some sg) a new u). apply (p_F _ _ P). exact Hl.
  - cbn [sstep fst snd app]. split; [apply consume_stream_inv; exact Hinv|]. split; [reflexivity|]. split; [reflexivity|].
    intros u. destruct (consume_stream_law a k u) as [HK [HR HF]].
    split; [exact HK|]. split; [rewrite HR; reflexivity|]. intros sg _. rewrite HF. reflexivity.
  - cbn [sstep fst snd app]. split; [apply compress_inv; exact Hinv|]. split; [reflexivity|]. split; [reflexivity|].
    intros u. split; [reflexivity|]. split; [reflexivity|]. intros sg _. reflexivity.
  - cbn [sstep fst snd app]. split; [exact Hinv|]. split; [reflexivity|]. split; [reflexivity|].
    intros u. destruct (consume_output_law a k u) as [HR [HK HF]].
    split; [rewrite HK; reflexivity|]. split; [exact HR|]. intros sg _. rewrite HF. reflexivity.
Qed.

(* over every schedule of legal calls: the bytes handed to the caller followed by what is still owed
   equal what was owed at the start, for the active stream and for the reply channel; later streams
   are never touched *)
Theorem schedule_law ops : forall a, a_inv a -> sched_legal a ops ->
  step_law a (fed ops) (fst (fst (srun a ops))) (snd (fst (srun a ops))) (snd (srun a ops)).
Proof.
  induction ops as [|op r IH]; intros a Hinv Hleg.
  - cbn [srun fed flat_map fst snd app]. split; [exact Hinv|]. split; [reflexivity|]. split; [reflexivity|].
    intros u. split; [reflexivity|]. split; [reflexivity|]. intros sg _. reflexivity.
  - destruct Hleg as [Hop Hr]. cbn [srun fed flat_map].
    pose proof (sstep_law a op Hinv Hop) as H1.
    destruct (sstep a op) as [[a1 d1] e1]. cbn [fst snd] in *.
    destruct H1 as [I1 [S1 [Q1 L1]]].
    pose proof (IH a1 I1 Hr) as H2.
    destruct (srun a1 r) as [[a2 d2] e2]. cbn [fst snd] in *.
    destruct H2 as [I2 [S2 [Q2 L2]]].
    split; [exact I2|]. split; [congruence|]. split; [congruence|].
    intros u. rewrite <- !app_assoc.
    destruct (L1 (flat_map fed_of r ++ u)) as [K1 [R1 F1]].
    destruct (L2 u) as [K2 [R2 F2]]. fold (fed r) in *.
    split; [rewrite K1, K2; reflexivity|]. split; [rewrite R1, R2; reflexivity|].
    intros sg Hl. rewrite (F1 sg Hl). apply F2.
    unfold later_stream in *. rewrite S1, Q1. exact Hl.
Qed.

(* two epochs: a schedule on the active stream, then a later stream is selected, then a second schedule.
   What the second epoch hands to the caller (followed by what it still owes) is exactly the content of
   the later stream as seen from the very first state: bytes of the later stream that arrived during
   the first epoch were neither consumed nor lost. *)
Theorem two_epoch_law ops1 ops2 a sg a1 : a_inv a -> later_stream a sg ->
  sched_legal a ops1 ->
  aset_stream (fst (fst (srun a ops1))) (Some sg) = ASetOk a1 ->
  sched_legal a1 ops2 ->
  forall u, snd (fst (srun a1 ops2)) ++ K (fst (fst (srun a1 ops2))) u = F (Some sg) a (fed ops1 ++ fed ops2 ++ u) /\
            snd (srun a ops1) ++ snd (srun a1 ops2) ++ R maxc (fst (fst (srun a1 ops2))) u
            = R maxc a (fed ops1 ++ fed ops2 ++ u).
Proof.
  intros Hinv Hl Hleg1 Hset Hleg2 u.
  destruct (schedule_law ops1 a Hinv Hleg1) as [I1 [S1 [Q1 L1]]].
  destruct (L1 (fed ops2 ++ u)) as [_ [R1 F1]].
  destruct (set_stream_law _ (Some sg) a1 (fed ops2 ++ u) I1 Hset) as [_ [Hne [HR [_ I2]]]].
  assert (Hdiff : optN_eqb (Some sg) (a_stream (fst (fst (srun a ops1)))) = false).
  { rewrite S1. unfold later_stream in Hl. destruct (a_stream a) as [c|]; [|contradiction].
    cbn [optN_eqb]. destruct (N.eqb_spec sg c) as [E|_]; [|reflexivity].
    subst c. unfold cmp_input_streams in Hl.
    destruct (negb (is_input_stream sg) || negb (is_input_stream sg)); [discriminate Hl|].
    rewrite N.eqb_refl in Hl. discriminate Hl. }
  destruct (Hne Hdiff) as [_ [_ [_ [_ [_ HK]]]]].
  destruct (schedule_law ops2 a1 I2 Hleg2) as [_ [_ [_ L2]]].
  destruct (L2 u) as [K2 [R2 _]].
  split.
  - rewrite <- K2, HK. symmetry. apply F1. exact Hl.
  - rewrite R1, <- HR, R2. reflexivity.
Qed.

End Machine.

Print Assumptions T_total.
Print Assumptions T_content.
Print Assumptions T_later.
Print Assumptions T_replies.
Print Assumptions T_end.
Print Assumptions T_sticky.
Print Assumptions consume_stream_law.
Print Assumptions consume_stream_inv.
Print Assumptions compress_law.
Print Assumptions compress_inv.
Print Assumptions compress_space_max.
Print Assumptions consume_output_law.
Print Assumptions set_stream_law.
Print Assumptions set_stream_none.
Print Assumptions schedule_law.
Print Assumptions two_epoch_law.

(* the target statements of Parser/StreamSpec.v, for every max_conns *)
Theorem stream_targets maxc :
  T_total_stmt maxc /\ T_content_stmt maxc /\ T_later_stmt maxc /\ T_replies_stmt maxc /\
  T_end_stmt maxc /\ T_sticky_stmt maxc.
Proof.
  split; [apply T_total|]. split; [apply T_content|]. split; [apply T_later|].
  split; [apply T_replies|]. split; [apply T_end|apply T_sticky].
Qed.
Print Assumptions stream_targets.

(* ---- the hypotheses are satisfiable by a non-trivial instance ---- *)
Definition ex_rq : req := mkReq 1 ROLE_Filter 0 [].
Definition ex_a : ast := mkA 96 96 [] [] [] ex_rq (Some RT_Stdin) 0 0 SSkip.
Definition ex_new : bytes :=
  [1;5;0;1;0;3;1;0; 97;98;99; 0] ++                                        (* Stdin "abc", 1 byte padding *)
  [1;9;0;0;0;16;0;0; 14;0; 70;67;71;73;95;77;65;88;95;67;79;78;78;83] ++   (* GetValues FCGI_MAX_CONNS *)
  [1;8;0;1;0;2;0;0; 120;121] ++                                            (* Data "xy": a later stream *)
  [1;5;0;1;0;0;0;0].                                                       (* (unreached) *)

Example ex_inv : a_inv ex_a.
Proof.
  unfold a_inv, a_ok. cbn [ex_a a_B a_space a_parsed a_raw a_prem a_pad a_st a_stream].
  repeat split; try (vm_compute; congruence); try discriminate. constructor.
Qed.

Example ex_legal : legal ex_a ex_new None /\ legal ex_a ex_new (Some 2).
Proof.
  assert (Hb : bytes_ok ex_new) by (apply bytes_okb_ok; vm_compute; reflexivity).
  split; (split; [exact Hb|split; [vm_compute; congruence|intros _; reflexivity]]).
Qed.

Example ex_later : later_stream ex_a RT_Data.
Proof. vm_compute. reflexivity. Qed.

Example ex_values :
  K ex_a ex_new = [97;98;99] /\ F (Some RT_Data) ex_a ex_new = [120;121] /\ len (R 10 ex_a ex_new) = 32 /\
  (exists a' s, aparse 10 ex_a ex_new None = AOk a' s /\ a_parsed a' = [97;98;99] /\ s_stream s = 3 /\
                s_end s = true /\ s_output s = 32 /\ len (a_raw a') = 18) /\
  (exists a' s, aparse 10 ex_a ex_new (Some 2) = AOk a' s /\ s_dest s = [97;98] /\ s_end s = false /\
                a_prem a' = 1 /\ K a' [] = [99]).
Proof.
  split; [vm_compute; reflexivity|]. split; [vm_compute; reflexivity|]. split; [vm_compute; reflexivity|].
  split; eexists; eexists; (split; [vm_compute; reflexivity|]); vm_compute; repeat split; reflexivity.
Qed.
