(* Parser/StreamInv.v — the protocol-level theorems about the abstract stream machine
   (Parser/AbsStream.v) against the specification functions of Parser/StreamSpec.v:
   totality, per-call conservation of stream content / later-stream content / replies,
   end-of-stream reporting, sticky errors, the other operations, and schedules. *)
From Coq Require Import ZArith ZifyBool ZifyNat ZifyN.
From FV Require Import Base.Bytes Base.BytesLemmas Gen.Generated Codec.Varint Codec.VarintProofs
  Codec.NV Codec.NVProofs Codec.Header Codec.Bodies Codec.Vars Codec.ProtoProofs
  Parser.ReqModel Parser.ReqDrive Parser.StreamModel Parser.StreamSeqProofs Parser.AbsStream Parser.StreamSpec.
Ltac Zify.zify_post_hook ::= Z.div_mod_to_equations.

(* ================= generic helpers ================= *)

Lemma drop_shorter {A} n (w : list A) : 0 < n -> n <= len w -> (length (drop n w) < length w)%nat.
Proof. intros H1 H2. pose proof (len_drop n w) as H. unfold len in *. lia. Qed.

Lemma len_length_lt {A} (a b : list A) : (length a < length b)%nat <-> len a < len b.
Proof. unfold len. lia. Qed.

Lemma ltb_0_0 : (0 <? 0) = false.
Proof. reflexivity. Qed.

Lemma ltb_0_pos n : 0 < n -> (0 <? n) = true.
Proof. intros H. apply N.ltb_lt. exact H. Qed.

(* ================= Part A: fuel irrelevance, unfolding equations ================= *)
Section Fuel.
Variable maxc : N.
Variable role id : N.

Definition cf_body (rec : option N -> bool -> N -> N -> bytes -> bytes)
  (sg : option N) (cur : bool) (prem pad : N) (w : bytes) : bytes :=
  if 0 <? prem then
    (if cur then take (N.min prem (len w)) w else []) ++
    (if len w <? prem then [] else rec sg false 0 pad (drop prem w))
  else if 0 <? pad then
    (if len w <=? pad then [] else rec sg false 0 0 (drop pad w))
  else if len w <? HEADER_LEN then []
  else
    let head := take HEADER_LEN w in
    let rest := drop HEADER_LEN w in
    match hdr_decode head with
    | HBadVersion _ => []
    | HBadType _ => rec sg false (be16 (nthN head 4) (nthN head 5)) (nthN head 6) rest
    | HOk t rid cl pl =>
      if is_input_stream t && (rid =? id) then
        match cmp_input_streams role t sg with
        | Some Eq => if cl =? 0 then [] else rec sg true cl pl rest
        | Some Lt => rec sg false cl pl rest
        | _ => []
        end
      else if (t =? RT_AbortRequest) && (rid =? id) then []
      else rec sg false cl pl rest
    end.

Lemma content_from_S f sg cur prem pad w :
  content_from role id (S f) sg cur prem pad w = cf_body (content_from role id f) sg cur prem pad w.
Proof. reflexivity. Qed.

Lemma cf_body_ext (r1 r2 : option N -> bool -> N -> N -> bytes -> bytes) sg cur prem pad w :
  (forall sg' cur' prem' pad' w', (length w' < length w)%nat -> r1 sg' cur' prem' pad' w' = r2 sg' cur' prem' pad' w') ->
  cf_body r1 sg cur prem pad w = cf_body r2 sg cur prem pad w.
Proof.
  intros H. unfold cf_body.
  destruct (N.ltb_spec 0 prem) as [Hp|Hp].
  - destruct (N.ltb_spec (len w) prem) as [Hl|Hl]; [reflexivity|].
    rewrite H; [reflexivity|]. apply drop_shorter; lia.
  - destruct (N.ltb_spec 0 pad) as [Hq|Hq].
    + destruct (N.leb_spec (len w) pad) as [Hl|Hl]; [reflexivity|].
      apply H. apply drop_shorter; lia.
    + destruct (N.ltb_spec (len w) HEADER_LEN) as [Hl|Hl]; [reflexivity|].
      assert (Hs : (length (drop HEADER_LEN w) < length w)%nat).
      { apply drop_shorter; unfold HEADER_LEN in *; lia. }
      cbv zeta.
      destruct (hdr_decode (take HEADER_LEN w)) as [t rid cl pl|v|t].
      * destruct (is_input_stream t && (rid =? id)).
        -- destruct (cmp_input_streams role t sg) as [[| |]|]; try reflexivity.
           ++ apply H; exact Hs.
           ++ destruct (cl =? 0); [reflexivity|]. apply H; exact Hs.
        -- destruct ((t =? RT_AbortRequest) && (rid =? id)); [reflexivity|]. apply H; exact Hs.
      * reflexivity.
      * apply H; exact Hs.
Qed.

Lemma content_from_fuel f1 : forall f2 sg cur prem pad w,
  (length w < f1)%nat -> (length w < f2)%nat ->
  content_from role id f1 sg cur prem pad w = content_from role id f2 sg cur prem pad w.
Proof.
  induction f1 as [|f1 IH]; intros f2 sg cur prem pad w H1 H2; [lia|].
  destruct f2 as [|f2]; [lia|].
  rewrite !content_from_S. apply cf_body_ext.
  intros sg' cur' prem' pad' w' Hw. apply IH; lia.
Qed.

Definition CF (sg : option N) (cur : bool) (prem pad : N) (w : bytes) : bytes :=
  content_from role id (content_fuel w) sg cur prem pad w.

Lemma CF_eq sg cur prem pad w : CF sg cur prem pad w = cf_body CF sg cur prem pad w.
Proof.
  unfold CF at 1. unfold content_fuel.
  replace (length w + 2)%nat with (S (length w + 1)) by lia.
  rewrite content_from_S. apply cf_body_ext.
  intros sg' cur' prem' pad' w' Hw. unfold CF, content_fuel. apply content_from_fuel; lia.
Qed.

(* -------- replies_all -------- *)
Definition ra_body (rec : sstate -> N -> N -> bytes -> bytes) (st : sstate) (prem pad : N) (w : bytes) : bytes :=
  if 0 <? prem then
    if len w <? prem then []
    else
      (match st with
       | SValues vars => write_response (vars_of_pairs vars (fst (nv_run (take prem w)))) maxc
       | _ => []
       end) ++ rec SSkip 0 pad (drop prem w)
  else if 0 <? pad then
    (if len w <=? pad then [] else rec SSkip 0 0 (drop pad w))
  else if len w <? HEADER_LEN then []
  else
    let head := take HEADER_LEN w in
    let rest := drop HEADER_LEN w in
    match hdr_decode head with
    | HBadVersion _ => []
    | HBadType t =>
      unk_record t (be16 (nthN head 2) (nthN head 3))
      ++ rec SSkip (be16 (nthN head 4) (nthN head 5)) (nthN head 6) rest
    | HOk t rid cl pl =>
      if (t =? RT_AbortRequest) && (rid =? id) then []
      else if (t =? RT_BeginRequest) && negb (rid =? id) then
        end_record 0 PS_CantMpxConn rid ++ rec SSkip cl pl rest
      else if (t =? RT_GetValues) && hdr_is_management t rid then
        rec (SValues 0) cl pl rest
      else rec SSkip cl pl rest
    end.

Lemma replies_all_S f st prem pad w :
  replies_all maxc id (S f) st prem pad w = ra_body (replies_all maxc id f) st prem pad w.
Proof. reflexivity. Qed.

Lemma ra_body_ext (r1 r2 : sstate -> N -> N -> bytes -> bytes) st prem pad w :
  (forall st' prem' pad' w', (length w' < length w)%nat -> r1 st' prem' pad' w' = r2 st' prem' pad' w') ->
  ra_body r1 st prem pad w = ra_body r2 st prem pad w.
Proof.
  intros H. unfold ra_body.
  destruct (N.ltb_spec 0 prem) as [Hp|Hp].
  - destruct (N.ltb_spec (len w) prem) as [Hl|Hl]; [reflexivity|].
    rewrite H; [reflexivity|]. apply drop_shorter; lia.
  - destruct (N.ltb_spec 0 pad) as [Hq|Hq].
    + destruct (N.leb_spec (len w) pad) as [Hl|Hl]; [reflexivity|].
      apply H. apply drop_shorter; lia.
    + destruct (N.ltb_spec (len w) HEADER_LEN) as [Hl|Hl]; [reflexivity|].
      assert (Hs : (length (drop HEADER_LEN w) < length w)%nat).
      { apply drop_shorter; unfold HEADER_LEN in *; lia. }
      cbv zeta.
      destruct (hdr_decode (take HEADER_LEN w)) as [t rid cl pl|v|t].
      * destruct ((t =? RT_AbortRequest) && (rid =? id)); [reflexivity|].
        destruct ((t =? RT_BeginRequest) && negb (rid =? id)).
        { rewrite H; [reflexivity|exact Hs]. }
        destruct ((t =? RT_GetValues) && hdr_is_management t rid); apply H; exact Hs.
      * reflexivity.
      * rewrite H; [reflexivity|exact Hs].
Qed.

Lemma replies_all_fuel f1 : forall f2 st prem pad w,
  (length w < f1)%nat -> (length w < f2)%nat ->
  replies_all maxc id f1 st prem pad w = replies_all maxc id f2 st prem pad w.
Proof.
  induction f1 as [|f1 IH]; intros f2 st prem pad w H1 H2; [lia|].
  destruct f2 as [|f2]; [lia|].
  rewrite !replies_all_S. apply ra_body_ext.
  intros st' prem' pad' w' Hw. apply IH; lia.
Qed.

Definition RA (st : sstate) (prem pad : N) (w : bytes) : bytes :=
  replies_all maxc id (content_fuel w) st prem pad w.

Lemma RA_eq st prem pad w : RA st prem pad w = ra_body RA st prem pad w.
Proof.
  unfold RA at 1. unfold content_fuel.
  replace (length w + 2)%nat with (S (length w + 1)) by lia.
  rewrite replies_all_S. apply ra_body_ext.
  intros st' prem' pad' w' Hw. unfold RA, content_fuel. apply replies_all_fuel; lia.
Qed.

End Fuel.

(* ================= Part B: stage equations and advance lemmas ================= *)
Section Stage.
Variable maxc : N.
Variable role id : N.
Notation CF := (CF role id).
Notation RA := (RA maxc id).

Lemma CF_prem sg cur prem pad w : 0 < prem ->
  CF sg cur prem pad w =
  (if cur then take (N.min prem (len w)) w else []) ++
  (if len w <? prem then [] else CF sg false 0 pad (drop prem w)).
Proof. intros H. rewrite CF_eq at 1. unfold cf_body. rewrite (ltb_0_pos _ H). reflexivity. Qed.

Lemma CF_pad sg cur pad w : 0 < pad ->
  CF sg cur 0 pad w = if len w <=? pad then [] else CF sg false 0 0 (drop pad w).
Proof. intros H. rewrite CF_eq at 1. unfold cf_body. rewrite ltb_0_0, (ltb_0_pos _ H). reflexivity. Qed.

Definition cf_hd (sg : option N) (head rest : bytes) : bytes :=
  match hdr_decode head with
  | HBadVersion _ => []
  | HBadType _ => CF sg false (be16 (nthN head 4) (nthN head 5)) (nthN head 6) rest
  | HOk t rid cl pl =>
    if is_input_stream t && (rid =? id) then
      match cmp_input_streams role t sg with
      | Some Eq => if cl =? 0 then [] else CF sg true cl pl rest
      | Some Lt => CF sg false cl pl rest
      | _ => []
      end
    else if (t =? RT_AbortRequest) && (rid =? id) then []
    else CF sg false cl pl rest
  end.

Lemma CF_head sg cur w : HEADER_LEN <= len w ->
  CF sg cur 0 0 w = cf_hd sg (take HEADER_LEN w) (drop HEADER_LEN w).
Proof.
  intros H. rewrite CF_eq at 1. unfold cf_body. rewrite !ltb_0_0.
  destruct (N.ltb_spec (len w) HEADER_LEN) as [Hl|Hl]; [lia|]. reflexivity.
Qed.

Lemma CF_short sg cur w : len w < HEADER_LEN -> CF sg cur 0 0 w = [].
Proof.
  intros H. rewrite CF_eq at 1. unfold cf_body. rewrite !ltb_0_0.
  destruct (N.ltb_spec (len w) HEADER_LEN) as [Hl|Hl]; [reflexivity|lia].
Qed.

Lemma CF_cur0 sg cur pad w : CF sg cur 0 pad w = CF sg false 0 pad w.
Proof. rewrite (CF_eq role id sg cur), (CF_eq role id sg false). unfold cf_body. rewrite !ltb_0_0. reflexivity. Qed.

Lemma CF_nil sg cur prem pad : CF sg cur prem pad [] = [].
Proof.
  rewrite CF_eq. unfold cf_body. change (len (@nil N)) with 0.
  destruct (N.ltb_spec 0 prem) as [Hp|Hp].
  - destruct (N.ltb_spec 0 prem) as [_|Hl]; [|lia]. rewrite take_nil. destruct cur; reflexivity.
  - destruct (N.ltb_spec 0 pad) as [Hq|Hq].
    + destruct (N.leb_spec 0 pad) as [_|Hl]; [reflexivity|lia].
    + reflexivity.
Qed.

(* consuming n bytes of the current payload *)
Lemma CF_adv sg cur prem pad w n : n <= prem -> n <= len w ->
  CF sg cur prem pad w = (if cur then take n w else []) ++ CF sg cur (prem - n) pad (drop n w).
Proof.
  intros Hn Hw.
  destruct (N.eq_dec n 0) as [->|Hn0].
  { rewrite take_0, drop_0, N.sub_0_r. destruct cur; reflexivity. }
  rewrite (CF_prem sg cur prem) by lia.
  destruct (N.eq_dec n prem) as [->|Hne].
  - rewrite N.sub_diag, (N.min_l prem (len w)) by lia.
    destruct (N.ltb_spec (len w) prem) as [Hl|Hl]; [lia|].
    rewrite (CF_cur0 sg cur). reflexivity.
  - rewrite (CF_prem sg cur (prem - n)) by lia.
    rewrite len_drop, drop_drop.
    replace (n + (prem - n)) with prem by lia.
    assert (Hlt : (len w - n <? prem - n) = (len w <? prem)).
    { destruct (N.ltb_spec (len w - n) (prem - n)); destruct (N.ltb_spec (len w) prem); try reflexivity; lia. }
    rewrite Hlt.
    destruct cur; [|reflexivity].
    replace (N.min prem (len w)) with (n + N.min (prem - n) (len w - n)) by lia.
    rewrite take_add, <- app_assoc. reflexivity.
Qed.

(* consuming n bytes of the padding *)
Lemma CF_pad_adv sg cur pad w n : n <= pad -> n <= len w ->
  CF sg cur 0 pad w = CF sg cur 0 (pad - n) (drop n w).
Proof.
  intros Hn Hw.
  destruct (N.eq_dec n 0) as [->|Hn0].
  { rewrite drop_0, N.sub_0_r. reflexivity. }
  rewrite (CF_pad sg cur pad) by lia.
  destruct (N.eq_dec n pad) as [->|Hne].
  - rewrite N.sub_diag.
    destruct (N.leb_spec (len w) pad) as [Hl|Hl].
    + rewrite (drop_all pad w) by lia. rewrite CF_nil. reflexivity.
    + rewrite (CF_cur0 sg cur). reflexivity.
  - rewrite (CF_pad sg cur (pad - n)) by lia.
    rewrite len_drop, drop_drop.
    replace (n + (pad - n)) with pad by lia.
    destruct (N.leb_spec (len w - n) (pad - n)); destruct (N.leb_spec (len w) pad); try reflexivity; lia.
Qed.

(* -------- replies -------- *)
Definition resp (st : sstate) (d : bytes) : bytes :=
  match st with
  | SValues vars => write_response (vars_of_pairs vars (fst (nv_run d))) maxc
  | _ => []
  end.

Lemma RA_prem st prem pad w : 0 < prem ->
  RA st prem pad w =
  if len w <? prem then [] else resp st (take prem w) ++ RA SSkip 0 pad (drop prem w).
Proof. intros H. rewrite RA_eq at 1. unfold ra_body. rewrite (ltb_0_pos _ H). reflexivity. Qed.

Lemma RA_pad st pad w : 0 < pad ->
  RA st 0 pad w = if len w <=? pad then [] else RA SSkip 0 0 (drop pad w).
Proof. intros H. rewrite RA_eq at 1. unfold ra_body. rewrite ltb_0_0, (ltb_0_pos _ H). reflexivity. Qed.

Definition ra_hd (head rest : bytes) : bytes :=
  match hdr_decode head with
  | HBadVersion _ => []
  | HBadType t =>
    unk_record t (be16 (nthN head 2) (nthN head 3))
    ++ RA SSkip (be16 (nthN head 4) (nthN head 5)) (nthN head 6) rest
  | HOk t rid cl pl =>
    if (t =? RT_AbortRequest) && (rid =? id) then []
    else if (t =? RT_BeginRequest) && negb (rid =? id) then
      end_record 0 PS_CantMpxConn rid ++ RA SSkip cl pl rest
    else if (t =? RT_GetValues) && hdr_is_management t rid then
      RA (SValues 0) cl pl rest
    else RA SSkip cl pl rest
  end.

Lemma RA_head st w : HEADER_LEN <= len w ->
  RA st 0 0 w = ra_hd (take HEADER_LEN w) (drop HEADER_LEN w).
Proof.
  intros H. rewrite RA_eq at 1. unfold ra_body. rewrite !ltb_0_0.
  destruct (N.ltb_spec (len w) HEADER_LEN) as [Hl|Hl]; [lia|]. reflexivity.
Qed.

Lemma RA_short st w : len w < HEADER_LEN -> RA st 0 0 w = [].
Proof.
  intros H. rewrite RA_eq at 1. unfold ra_body. rewrite !ltb_0_0.
  destruct (N.ltb_spec (len w) HEADER_LEN) as [Hl|Hl]; [reflexivity|lia].
Qed.

Lemma RA_st0 st st' pad w : RA st 0 pad w = RA st' 0 pad w.
Proof. rewrite (RA_eq maxc id st), (RA_eq maxc id st'). unfold ra_body. rewrite !ltb_0_0. reflexivity. Qed.

Lemma RA_nil st prem pad : RA st prem pad [] = [].
Proof.
  rewrite RA_eq. unfold ra_body. change (len (@nil N)) with 0.
  destruct (N.ltb_spec 0 prem) as [Hp|Hp].
  - destruct (N.ltb_spec 0 prem) as [_|Hl]; [reflexivity|lia].
  - destruct (N.ltb_spec 0 pad) as [Hq|Hq].
    + destruct (N.leb_spec 0 pad) as [_|Hl]; [reflexivity|lia].
    + reflexivity.
Qed.

Definition not_values (st : sstate) : Prop := match st with SValues _ => False | _ => True end.

Lemma resp_not_values st d : not_values st -> resp st d = [].
Proof. destruct st; cbn [not_values resp]; intros H; [reflexivity|reflexivity|contradiction]. Qed.

(* consuming n bytes of a payload that is not a GetValues body *)
Lemma RA_adv st prem pad w n : not_values st -> n <= prem -> n <= len w ->
  RA st prem pad w = RA st (prem - n) pad (drop n w).
Proof.
  intros Hst Hn Hw.
  destruct (N.eq_dec n 0) as [->|Hn0].
  { rewrite drop_0, N.sub_0_r. reflexivity. }
  rewrite (RA_prem st prem) by lia. rewrite (resp_not_values st _ Hst). cbn [app].
  destruct (N.eq_dec n prem) as [->|Hne].
  - rewrite N.sub_diag.
    destruct (N.ltb_spec (len w) prem) as [Hl|Hl]; [lia|].
    apply RA_st0.
  - rewrite (RA_prem st (prem - n)) by lia. rewrite (resp_not_values st _ Hst). cbn [app].
    rewrite len_drop, drop_drop.
    replace (n + (prem - n)) with prem by lia.
    destruct (N.ltb_spec (len w - n) (prem - n)); destruct (N.ltb_spec (len w) prem); try reflexivity; lia.
Qed.

(* consuming the whole remaining payload *)
Lemma RA_adv_full st st' prem pad w : 0 < prem -> prem <= len w ->
  RA st prem pad w = resp st (take prem w) ++ RA st' 0 pad (drop prem w).
Proof.
  intros Hp Hw. rewrite (RA_prem st prem) by lia.
  destruct (N.ltb_spec (len w) prem) as [Hl|Hl]; [lia|].
  rewrite (RA_st0 SSkip st'). reflexivity.
Qed.

(* a GetValues body decoded piecewise: d is the available part of the body (shorter than prem) *)
Lemma RA_adv_values vars prem pad d u ps rest :
  nv_run d = (ps, rest) -> len d < prem -> prem < 65536 ->
  RA (SValues vars) prem pad (d ++ u) =
  RA (SValues (vars_of_pairs vars ps)) (prem - (len d - len rest)) pad (rest ++ u).
Proof.
  intros Hrun Hd Hp.
  destruct (nv_run_rest d) as [pre [Hpre _]]. rewrite Hrun in Hpre. cbn [snd] in Hpre.
  assert (Hlen : len d = len pre + len rest) by (rewrite Hpre at 1; apply len_app).
  set (n := len d - len rest).
  assert (Hn : n = len pre) by (unfold n; lia).
  rewrite (RA_prem _ prem) by lia. rewrite (RA_prem _ (prem - n)) by lia.
  rewrite !len_app.
  assert (Hlt : (len rest + len u <? prem - n) = (len d + len u <? prem)).
  { destruct (N.ltb_spec (len rest + len u) (prem - n)); destruct (N.ltb_spec (len d + len u) prem); try reflexivity; lia. }
  rewrite Hlt.
  destruct (N.ltb_spec (len d + len u) prem) as [Hl|Hl]; [reflexivity|].
  f_equal.
  - cbn [resp]. f_equal.
    rewrite (take_app_ge prem d u) by lia.
    rewrite (take_app_ge (prem - n) rest u) by lia.
    replace (prem - n - len rest) with (prem - len d) by lia.
    set (b := take (prem - len d) u).
    assert (Hb : len b <= prem - len d) by (unfold b; rewrite len_take; lia).
    rewrite (nv_run_app d b).
    2:{ rewrite len_app. unfold USIZE_MAX. lia. }
    rewrite Hrun. destruct (nv_run (rest ++ b)) as [pb rb]. cbn [fst].
    apply vars_of_pairs_app.
  - f_equal. rewrite Hpre at 1. rewrite <- app_assoc.
    rewrite (drop_app_ge prem pre) by lia.
    f_equal. lia.
Qed.

End Stage.
