(* Parser/AbortProofs.v — AbortRequest during Params (C11), from the record-step theorem of ReqRecords.v. *)
From FV Require Import Base.Bytes Gen.Generated Codec.Bodies Parser.ReqModel Parser.ReqWire Parser.ReqTargets Parser.ReqRecords Parser.ReqFinal.

Theorem abort_in_params : forall (norm : bytes -> bytes) (maxc : N) i (r : rcd),
  state_ok (Params i 0 0) -> state_small (Params i 0 0) -> rcd_ok r -> rt r = RT_AbortRequest ->
  exists s'', drive_all norm maxc (Params i 0 0) (enc_rcd r) =
     DOk [] s'' (if rid r =? r_id (ireq i) then end_record 0 PS_RequestComplete (r_id (ireq i)) else []) /\
     ReqRecords.settle s'' = (if rid r =? r_id (ireq i) then Header else Params i 0 0).
Proof.
  intros norm maxc i r Hs Hsm Hr Ht.
  pose proof (rec_step_settle norm maxc (F_S1 norm) (F_S2 norm) (Params i 0 0) r (InParams (r_id (ireq i))) Hs Hsm eq_refl Hr) as H.
  cbn [ReqRecords.settle rec_step] in H.
  assert (Hk : Codec.Header.known_type (rt r) = true) by (rewrite Ht; reflexivity).
  rewrite Hk in H. cbn [negb] in H. rewrite Ht in H.
  change (RT_AbortRequest =? RT_Params) with false in H. cbn [andb] in H.
  change (RT_AbortRequest =? RT_AbortRequest) with true in H. cbn [andb] in H.
  destruct (rid r =? r_id (ireq i)) eqn:E.
  - destruct H as [s'' [H1 [H2 _]]]. exists s''. split; [|exact H2].
    rewrite H1. unfold reply_for. rewrite Hk, Ht. cbn [negb].
    change (RT_AbortRequest =? RT_GetValues) with false. cbn [andb].
    change (RT_AbortRequest =? RT_BeginRequest) with false. cbn [andb].
    change (RT_AbortRequest =? RT_AbortRequest) with true. rewrite E. reflexivity.
  - destruct H as [s'' [H1 [H2 _]]]. exists s''. split; [|exact H2].
    rewrite H1. unfold reply_for. rewrite Hk, Ht. cbn [negb].
    change (RT_AbortRequest =? RT_GetValues) with false. cbn [andb].
    change (RT_AbortRequest =? RT_BeginRequest) with false. cbn [andb].
    change (RT_AbortRequest =? RT_AbortRequest) with true. rewrite E. reflexivity.
Qed.
Print Assumptions abort_in_params.
