(* Parser/AbsStream.v — list-level abstract machine of the stream parser.
   The index-level model (StreamModel.v) mirrors the Rust; this machine forgets the buffer layout:
   the stream buffer, the unparsed protocol bytes and the pending output are plain lists.  The
   refinement [abs (op p) = aop (abs p)] (StreamRefine.v) separates the buffer bookkeeping
   (copy_within, cursors, compress) from the protocol reasoning (StreamInv.v).  No proofs here. *)
From FV Require Import Base.Bytes Gen.Generated Codec.Varint Codec.NV Codec.Header Codec.Bodies Codec.Vars
  Parser.ReqModel Parser.StreamModel.

Record ast := mkA {
  a_B : N;                 (* buffer.len() *)
  a_space : N;             (* input_buffer().len() = B - free_start *)
  a_parsed : bytes;        (* stream_buffer() *)
  a_raw : bytes;           (* buffer[raw_start..free_start] *)
  a_out : bytes;           (* output_buffer() *)
  a_req : req;
  a_stream : option N;
  a_prem : N; a_pad : N;
  a_st : sstate
}.

Definition abs (p : sp) : ast :=
  mkA (len (buffer p)) (len (buffer p) - free_start p) (stream_buffer p) (raw_bytes p) (output_buffer p)
      (sreq p) (stream p) (payload_rem p) (padding_rem p) (sst p).

(* representation invariant of the index-level state = debug_assert_invars! *)
Definition RI (p : sp) : Prop :=
  parsed_start p <= gap_start p /\ gap_start p <= raw_start p /\ raw_start p <= free_start p /\
  free_start p <= len (buffer p) /\ output_start p <= len (output p) /\
  (output_start p = len (output p) -> output p = []).

(* well-formedness of the abstract state *)
Definition a_ok (a : ast) : Prop := len (a_parsed a) + len (a_raw a) + a_space a <= a_B a.

Definition a_boundary (a : ast) : bool := (a_prem a =? 0) && (a_pad a =? 0).

Definition acompress (a : ast) : ast :=
  mkA (a_B a) (a_B a - (len (a_parsed a) + len (a_raw a))) (a_parsed a) (a_raw a) (a_out a) (a_req a) (a_stream a)
      (a_prem a) (a_pad a) (a_st a).

Definition aconsume_stream (a : ast) (amt : N) : ast :=
  mkA (a_B a) (a_space a) (drop (N.min amt (len (a_parsed a))) (a_parsed a)) (a_raw a) (a_out a) (a_req a) (a_stream a)
      (a_prem a) (a_pad a) (a_st a).

Definition aconsume_output (a : ast) (amt : N) : ast :=
  mkA (a_B a) (a_space a) (a_parsed a) (a_raw a) (if len (a_out a) <=? amt then [] else drop amt (a_out a))
      (a_req a) (a_stream a) (a_prem a) (a_pad a) (a_st a).

Inductive aset_res := ASetOk (a : ast) | ASetErr | ASetPanic.

Definition aset_stream (a : ast) (s : option N) : aset_res :=
  match accepts (r_role (a_req a)) (a_stream a) s with
  | None => ASetPanic
  | Some false => ASetErr
  | Some true =>
    if optN_eqb s (a_stream a) then ASetOk a
    else ASetOk (mkA (a_B a) (a_B a - len (a_raw a)) [] (a_raw a) (a_out a) (a_req a) s (a_prem a) (a_pad a)
                     (match a_st a with SStream => SSkip | x => x end))
  end.

Section Abs.
Variable maxc : N.

Record alstate := mkAL { al : ast; ares : status; acap : option N }.
Inductive aflow := AContinue (l : alstate) | ABreak (l : alstate) | AErr (l : alstate) (e : perr) | APanic (site : N).

Definition a_set (a : ast) (parsed raw out : bytes) (prem pad : N) (st : sstate) : ast :=
  mkA (a_B a) (a_space a) parsed raw out (a_req a) (a_stream a) prem pad st.

Definition add_stream (s : status) (n : N) (d : bytes) : status :=
  mkStatus (s_stream s + n) (s_end s) (s_output s) (s_dest s ++ d).
Definition add_output (s : status) (n : N) : status :=
  mkStatus (s_stream s) (s_end s) (s_output s + n) (s_dest s).
Definition set_end (s : status) : status := mkStatus (s_stream s) true (s_output s) (s_dest s).

(* parse_payload on lists *)
Definition aparse_payload (l : alstate) : aflow :=
  let a := al l in
  let raw_len := len (a_raw a) in
  let payload_len := N.min (a_prem a) raw_len in
  let payload := take payload_len (a_raw a) in
  let fin (a' : ast) (res : status) (cap' : option N) (consumed : N) : aflow :=
    if payload_len <? consumed then APanic 20 else
    let a'' := a_set a' (a_parsed a') (drop consumed (a_raw a)) (a_out a') (a_prem a - consumed) (a_pad a') (a_st a') in
    let l' := mkAL a'' res cap' in
    if (a_prem a'' =? 0) && (consumed <? raw_len) then AContinue l' else ABreak l' in
  match a_st a with
  | SStream =>
    match acap l with
    | Some c => let n := N.min c payload_len in fin a (add_stream (ares l) n (take n payload)) (Some (c - n)) n
    | None => fin (a_set a (a_parsed a ++ payload) (a_raw a) (a_out a) (a_prem a) (a_pad a) (a_st a))
                  (add_stream (ares l) payload_len []) None payload_len
    end
  | SSkip => fin a (ares l) (acap l) payload_len
  | SValues vars =>
    let '(ps, rest) := nv_run payload in
    let vars' := vars_of_pairs vars ps in
    if raw_len <? a_prem a then
      fin (a_set a (a_parsed a) (a_raw a) (a_out a) (a_prem a) (a_pad a) (SValues vars')) (ares l) (acap l) (payload_len - len rest)
    else
      let w := write_response vars' maxc in
      fin (a_set a (a_parsed a) (a_raw a) (a_out a ++ w) (a_prem a) (a_pad a) (SValues vars'))
          (add_output (ares l) (len w)) (acap l) payload_len
  end.

(* parse_head on lists *)
Definition aparse_head (l : alstate) : aflow :=
  let a := al l in
  if negb (a_boundary a) then APanic 30 else
  if len (a_raw a) <? HEADER_LEN then ABreak l else
  let head := take HEADER_LEN (a_raw a) in
  let go (st : sstate) (cl pl : N) (out : bytes) (added : N) : aflow :=
    AContinue (mkAL (a_set a (a_parsed a) (drop HEADER_LEN (a_raw a)) out cl pl st) (add_output (ares l) added) (acap l)) in
  match hdr_decode head with
  | HBadType t =>
    let id := be16 (nthN head 2) (nthN head 3) in
    go SSkip (be16 (nthN head 4) (nthN head 5)) (nthN head 6) (a_out a ++ unk_record t id) 16
  | HBadVersion v => AErr l (EUnknownVersion v)
  | HOk t id cl pl =>
    let rid := r_id (a_req a) in
    if is_input_stream t && (id =? rid) then
      match cmp_input_streams (r_role (a_req a)) t (a_stream a) with
      | None => APanic 32
      | Some Eq => if negb (cl =? 0) then go SStream cl pl (a_out a) 0
                   else ABreak (mkAL a (set_end (ares l)) (acap l))
      | Some Lt => go SSkip cl pl (a_out a) 0
      | Some Gt => ABreak (mkAL a (set_end (ares l)) (acap l))
      end
    else if (t =? RT_AbortRequest) && (id =? rid) then AErr l EAbortRequest
    else if (t =? RT_BeginRequest) && negb (id =? rid) then
      go SSkip cl pl (a_out a ++ end_record 0 PS_CantMpxConn id) 16
    else if (t =? RT_GetValues) && hdr_is_management t id then go (SValues 0) cl pl (a_out a) 0
    else go SSkip cl pl (a_out a) 0
  end.

Definition aparse_iter (l : alstate) : aflow :=
  let after_payload (l : alstate) : aflow :=
    let a := al l in
    if 0 <? a_pad a then
      if negb (a_prem a =? 0) then APanic 40 else
      let raw_len := len (a_raw a) in
      if raw_len <=? a_pad a then
        ABreak (mkAL (a_set a (a_parsed a) [] (a_out a) (a_prem a) (a_pad a - raw_len) (a_st a)) (ares l) (acap l))
      else
        aparse_head (mkAL (a_set a (a_parsed a) (drop (a_pad a) (a_raw a)) (a_out a) (a_prem a) 0 (a_st a)) (ares l) (acap l))
    else aparse_head l in
  if 0 <? a_prem (al l) then
    match aparse_payload l with
    | AContinue l' => after_payload l'
    | x => x
    end
  else after_payload l.

Fixpoint aparse_loop (fuel : nat) (l : alstate) : aflow :=
  match fuel with
  | O => APanic 99
  | S f =>
    match a_raw (al l) with
    | [] => ABreak l
    | _ =>
      match aparse_iter l with
      | AContinue l' => aparse_loop f l'
      | x => x
      end
    end
  end.

Inductive ares_t :=
| AOk (a : ast) (st : status)
| AFail (a : ast) (e : perr) (st : status)
| APanicked (site : N).

Definition aparse (a : ast) (new : bytes) (dest : option N) : ares_t :=
  if (match dest with Some _ => negb (len (a_parsed a) =? 0) | None => false end) then APanicked 1
  else if a_space a <? len new then APanicked 2
  else
    let a1 := mkA (a_B a) (a_space a - len new) (a_parsed a) (a_raw a ++ new) (a_out a) (a_req a) (a_stream a)
                  (a_prem a) (a_pad a) (a_st a) in
    let res0 := mkStatus 0 (match a_stream a with None => true | Some _ => false end) 0 [] in
    match aparse_loop (2 * N.to_nat (a_B a) + 8) (mkAL a1 res0 dest) with
    | AContinue l | ABreak l => AOk (al l) (ares l)
    | AErr l e => AFail (al l) e (ares l)
    | APanic n => APanicked n
    end.
End Abs.

Definition ainto_input (a : ast) : option bytes := if a_boundary a then Some (a_raw a) else None.

Inductive aconv_res := AConvOk (p : parser) | AConvInterrupted | AConvPanic.
Definition ainto_request_parser (a : ast) : aconv_res :=
  if negb (a_boundary a) then AConvInterrupted
  else if negb (len (a_out a) =? 0) then AConvPanic
  else AConvOk (mkParser (a_B a) (a_raw a) Header).
