(* Parser/Chain.v — the k-request conversion chain (C05): ChainStream.stream_phase + ChainProofs.chain_of_phase. *)
From FV Require Import Base.Bytes Gen.Generated Codec.NV Codec.Header Codec.Bodies Parser.ReqModel Parser.ReqWire Parser.ReqTargets
  Parser.StreamModel Parser.AbsStream Parser.StreamSpec Parser.StreamFinal Parser.ChainTargets Parser.ChainStream Parser.ChainProofs.

Theorem chain : forall norm maxc, chain_stmt norm maxc.
Proof. intros norm maxc. apply chain_of_phase. apply stream_phase. Qed.
Print Assumptions chain.

(* Why chain_legal asks the caller not to parse during the stream phase of a request whose role has no input stream (Authorizer):
   with no stream selected the stream parser discards EVERY record it is shown (stream.rs: "None: skip all stream records"), so a
   parse call there also swallows a successor request that the client has already pipelined into the buffer.  Witness: an
   Authorizer request followed by a complete Responder request and three more bytes; after one parse call in the Authorizer's
   stream phase only the three bytes are left, without it the whole second request is handed on.  (DESIGN.md, observation O4:
   not a violation of C05, which is about input left UNREAD; a one-outstanding client (C07) never has a successor in flight.) *)
Definition o4_pairs : list (bytes * bytes) := [([65; 66], [99]); ([67], [])].
Definition o4_payload : bytes := match nv_write_all o4_pairs with Some b => b | None => [] end.
Definition o4_pre (id role : N) : preamble := mkPreamble [] id role 1 [1; 2] [mkPiece [] o4_payload [0]] [] [].
Definition o4_auth : creq := mkCReq (o4_pre 2 ROLE_Authorizer) o4_pairs [].
Definition o4_resp : creq := mkCReq (o4_pre 1 ROLE_Responder) o4_pairs [mkRcd RT_Stdin 1 [104; 105] []; mkRcd RT_Stdin 1 [] []].
Definition o4_wire : bytes := flat_map creq_wire [o4_auth; o4_resp] ++ [9; 9; 9].
Definition o4_left (ops : list xop) : option bytes :=
  match chain_run (fun b => b) 10 (new_parser 256) o4_wire [mkStage [1000] ops] with
  | Some (_, pe, ue) => Some (held pe ++ ue)
  | None => None
  end.

Example authorizer_overread_swallows_successor :
  o4_left [] = Some (creq_wire o4_resp ++ [9; 9; 9]) /\
  o4_left [XC (CParse [] None); XC (CConsumeOutput 100)] = Some [9; 9; 9].
Proof. split; vm_compute; reflexivity. Qed.
