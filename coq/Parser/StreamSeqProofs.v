(* Parser/StreamSeqProofs.v — stream sequencing (C18): the finite tables, decided inside Coq and
   lifted to universally quantified statements over the (finite) domain, plus the properties of
   set_stream that hold for every parser state. *)
From Coq Require Import ZArith.
From FV Require Import Base.Bytes Base.BytesLemmas Gen.Generated Codec.Header Parser.ReqModel Parser.StreamModel.
From Coq Require Import ZifyBool ZifyNat ZifyN.

(* position of a stream in the role's order *)
Fixpoint index_in (x : N) (l : list N) (i : N) : option N :=
  match l with [] => None | y :: t => if x =? y then Some i else index_in x t (i + 1) end.

(* the specification of the comparison: `None` (no active stream) is after everything; a stream
   outside the role is before everything; otherwise positions in Role::input_streams decide *)
Definition spec_cmp (role recv : N) (exp : option N) : ord :=
  match exp with
  | None => Lt
  | Some e =>
    if recv =? e then Eq
    else match index_in recv (role_input_streams role) 0, index_in e (role_input_streams role) 0 with
         | Some i, Some j => if i <? j then Lt else Gt
         | Some _, None => Lt       (* exp outside the role: unreachable for a real parser *)
         | None, _ => Lt
         end
  end.

Definition ord_eqb (a b : ord) : bool :=
  match a, b with Lt, Lt | Eq, Eq | Gt, Gt => true | _, _ => false end.

Definition cmp_domain : list (N * N * option N) :=
  flat_map (fun role => flat_map (fun recv => map (fun e => (role, recv, e))
     (None :: map Some (role_input_streams role))) IS_INPUT_STREAM) ROLE_VALUES.

Lemma cmp_table_check :
  forallb (fun x => match x with (role, recv, e) =>
     match cmp_input_streams role recv e with Some o => ord_eqb o (spec_cmp role recv e) | None => false end end)
    cmp_domain = true.
Proof. vm_compute. reflexivity. Qed.

Lemma ord_eqb_eq a b : ord_eqb a b = true -> a = b.
Proof. destruct a, b; cbn; congruence. Qed.

(* all 3 roles x requested {Stdin, Data} x current {none, streams of the role} *)
Lemma cmp_table role recv e : In (role, recv, e) cmp_domain ->
  cmp_input_streams role recv e = Some (spec_cmp role recv e).
Proof.
  intros H. pose proof cmp_table_check as C. rewrite forallb_forall in C. specialize (C _ H). cbn beta iota in C.
  destruct (cmp_input_streams role recv e) as [o|]; [|discriminate]. apply ord_eqb_eq in C. congruence.
Qed.

(* the domain really is: every role, every input stream type, none or any stream of the role *)
Lemma cmp_domain_complete role recv e :
  In role ROLE_VALUES -> In recv IS_INPUT_STREAM ->
  (e = None \/ exists x, e = Some x /\ In x (role_input_streams role)) ->
  In (role, recv, e) cmp_domain.
Proof.
  intros Hr Hv He. unfold cmp_domain. apply in_flat_map. exists role. split; [exact Hr|].
  apply in_flat_map. exists recv. split; [exact Hv|]. apply in_map_iff. exists e. split; [reflexivity|].
  destruct He as [->|[x [-> Hx]]]; [left; reflexivity|right; apply in_map; exact Hx].
Qed.

(* what set_stream does, for EVERY parser state (no finiteness needed) *)
Lemma set_stream_spec p s :
  match accepts (r_role (sreq p)) (stream p) s with
  | None => set_stream p s = SetPanic
  | Some false => set_stream p s = SetErr                      (* rejected: nothing changes *)
  | Some true =>
    if optN_eqb s (stream p) then set_stream p s = SetOk p      (* re-selecting keeps everything *)
    else exists p', set_stream p s = SetOk p' /\ stream p' = s /\ stream_buffer p' = [] /\
                    sreq p' = sreq p /\ payload_rem p' = payload_rem p /\ padding_rem p' = padding_rem p /\
                    output p' = output p /\ output_start p' = output_start p
  end.
Proof.
  unfold set_stream, accepts. destruct s as [x|].
  - destruct (cmp_input_streams (r_role (sreq p)) x (stream p)) as [[| |]|]; try reflexivity.
    + destruct (optN_eqb (Some x) (stream p)); [reflexivity|]. eexists. split; [reflexivity|].
      cbn [stream sreq payload_rem padding_rem output output_start]. unfold stream_buffer, discard_stream, compress, upd_idx.
      cbn [parsed_start gap_start buffer sreq payload_rem padding_rem output output_start].
      repeat split; reflexivity.
    + destruct (optN_eqb (Some x) (stream p)); [reflexivity|]. eexists. split; [reflexivity|].
      cbn [stream sreq payload_rem padding_rem output output_start]. unfold stream_buffer, discard_stream, compress, upd_idx.
      cbn [parsed_start gap_start buffer sreq payload_rem padding_rem output output_start].
      repeat split; reflexivity.
  - destruct (optN_eqb None (stream p)); [reflexivity|]. eexists. split; [reflexivity|].
    cbn [stream sreq payload_rem padding_rem output output_start]. unfold stream_buffer, discard_stream, compress, upd_idx.
    cbn [parsed_start gap_start buffer sreq payload_rem padding_rem output output_start].
    repeat split; reflexivity.
Qed.

(* the resulting acceptance table, in terms of the role's order *)
Definition stream_index (role : N) (s : option N) : option N :=
  match s with None => Some (len (role_input_streams role)) | Some x => index_in x (role_input_streams role) 0 end.

Definition accept_table_row (role : N) (cur req : option N) : bool :=
  match accepts role cur req, stream_index role cur, stream_index role req with
  | Some b, Some i, Some j => Bool.eqb b (i <=? j)      (* forward or equal along the order (none = last) *)
  | Some b, Some _, None => negb b                     (* outside the role: rejected *)
  | _, _, _ => false
  end.

Definition accept_domain : list (N * option N * option N) :=
  flat_map (fun role => flat_map (fun cur => map (fun rq => (role, cur, rq)) [None; Some RT_Stdin; Some RT_Data])
     (None :: map Some (role_input_streams role))) ROLE_VALUES.

Lemma accept_table_check : forallb (fun x => match x with (role, cur, rq) => accept_table_row role cur rq end) accept_domain = true.
Proof. vm_compute. reflexivity. Qed.

Lemma accept_table role cur rq : In (role, cur, rq) accept_domain -> accept_table_row role cur rq = true.
Proof. intros H. pose proof accept_table_check as C. rewrite forallb_forall in C. exact (C _ H). Qed.

(* the first active stream is the first of the role's order (or none) *)
Lemma initial_stream_check :
  forallb (fun role => optN_eqb (next_input_stream role None)
                                (match role_input_streams role with [] => None | x :: _ => Some x end)) ROLE_VALUES = true.
Proof. vm_compute. reflexivity. Qed.
