(* Parser/StreamSpec.v — specification side of the stream-parser theorems (C02, C03, C04, C18):
   what is still to come for a stream / for the reply channel, seen from a parser position, as
   total functions of the remaining bytes; and the step statements (as Props) that the proofs in
   StreamInv.v establish for the abstract machine of AbsStream.v.  Definitions only. *)
From FV Require Import Base.Bytes Gen.Generated Codec.Varint Codec.NV Codec.Header Codec.Bodies Codec.Vars
  Parser.ReqModel Parser.StreamModel Parser.AbsStream.

Section Spec.
Variable maxc : N.
Variable role id : N.

(* bytes of stream [sg] still to come when the parser stands at (cur, prem, pad) in front of the
   remaining bytes w.  [cur] = the rest of the current record's payload belongs to [sg].
   Records of earlier streams / other ids / other types are skipped; the stream ends at its empty
   record, at the first record of a later stream, at an AbortRequest of this request, at a header
   with an unknown version, or where the bytes run out. *)
Fixpoint content_from (fuel : nat) (sg : option N) (cur : bool) (prem pad : N) (w : bytes) : bytes :=
  match fuel with
  | O => []
  | S f =>
    if 0 <? prem then
      (if cur then take (N.min prem (len w)) w else []) ++
      (if len w <? prem then [] else content_from f sg false 0 pad (drop prem w))
    else if 0 <? pad then
      (if len w <=? pad then [] else content_from f sg false 0 0 (drop pad w))
    else if len w <? HEADER_LEN then []
    else
      let head := take HEADER_LEN w in
      let rest := drop HEADER_LEN w in
      match hdr_decode head with
      | HBadVersion _ => []
      | HBadType _ => content_from f sg false (be16 (nthN head 4) (nthN head 5)) (nthN head 6) rest
      | HOk t rid cl pl =>
        if is_input_stream t && (rid =? id) then
          match cmp_input_streams role t sg with
          | Some Eq => if cl =? 0 then [] else content_from f sg true cl pl rest
          | Some Lt => content_from f sg false cl pl rest
          | _ => []
          end
        else if (t =? RT_AbortRequest) && (rid =? id) then []
        else content_from f sg false cl pl rest
      end
  end.

Definition content_fuel (w : bytes) : nat := (length w + 2)%nat.

(* the parser stands in front of the header that ends stream [sg] *)
Definition at_terminator (sg : option N) (prem pad : N) (w : bytes) : bool :=
  (prem =? 0) && (pad =? 0) && (HEADER_LEN <=? len w) &&
  match hdr_decode (take HEADER_LEN w) with
  | HOk t rid cl pl =>
    is_input_stream t && (rid =? id) &&
    match cmp_input_streams role t sg with
    | Some Eq => cl =? 0
    | Some Gt => true
    | _ => false
    end
  | _ => false
  end.

(* reply bytes still to come for the remaining bytes w, from position (st, prem, pad): every record
   is looked at (no stopping at stream ends); stops at an AbortRequest of this request, at an unknown
   version, or where the bytes run out.  A GetValues body that is still incomplete yields its reply
   only once complete. *)
Fixpoint replies_all (fuel : nat) (st : sstate) (prem pad : N) (w : bytes) : bytes :=
  match fuel with
  | O => []
  | S f =>
    if 0 <? prem then
      if len w <? prem then []
      else
        (match st with
         | SValues vars => write_response (vars_of_pairs vars (fst (nv_run (take prem w)))) maxc
         | _ => []
         end) ++ replies_all f SSkip 0 pad (drop prem w)
    else if 0 <? pad then
      (if len w <=? pad then [] else replies_all f SSkip 0 0 (drop pad w))
    else if len w <? HEADER_LEN then []
    else
      let head := take HEADER_LEN w in
      let rest := drop HEADER_LEN w in
      match hdr_decode head with
      | HBadVersion _ => []
      | HBadType t =>
        unk_record t (be16 (nthN head 2) (nthN head 3))
        ++ replies_all f SSkip (be16 (nthN head 4) (nthN head 5)) (nthN head 6) rest
      | HOk t rid cl pl =>
        if (t =? RT_AbortRequest) && (rid =? id) then []
        else if (t =? RT_BeginRequest) && negb (rid =? id) then
          end_record 0 PS_CantMpxConn rid ++ replies_all f SSkip cl pl rest
        else if (t =? RT_GetValues) && hdr_is_management t rid then
          replies_all f (SValues 0) cl pl rest
        else replies_all f SSkip cl pl rest
      end
  end.
End Spec.

Section Targets.
Variable maxc : N.

Definition cur_of (a : ast) : bool := match a_st a with SStream => true | _ => false end.

(* K: everything of the active stream that the caller has not consumed yet =
   the stream buffer ++ what is still to come from (unparsed bytes ++ not-yet-fed bytes) *)
Definition K (a : ast) (u : bytes) : bytes :=
  a_parsed a ++ content_from (r_role (a_req a)) (r_id (a_req a)) (content_fuel (a_raw a ++ u))
                             (a_stream a) (cur_of a) (a_prem a) (a_pad a) (a_raw a ++ u).

(* F: what is still to come of another stream sg (never the current record's payload) *)
Definition F (sg : option N) (a : ast) (u : bytes) : bytes :=
  content_from (r_role (a_req a)) (r_id (a_req a)) (content_fuel (a_raw a ++ u)) sg false (a_prem a) (a_pad a) (a_raw a ++ u).

(* R: reply bytes not yet handed to the caller = pending output ++ replies still to come *)
Definition R (a : ast) (u : bytes) : bytes :=
  a_out a ++ replies_all maxc (r_id (a_req a)) (content_fuel (a_raw a ++ u)) (a_st a) (a_prem a) (a_pad a) (a_raw a ++ u).

Definition later_stream (a : ast) (sg : N) : Prop :=
  match a_stream a with
  | Some cur => cmp_input_streams (r_role (a_req a)) sg (Some cur) = Some Gt
  | None => False
  end.

Definition a_inv (a : ast) : Prop :=
  a_ok a /\ a_prem a < 65536 /\ a_pad a < 256 /\ bytes_ok (a_raw a) /\
  (a_st a = SStream -> a_stream a <> None) /\
  match a_stream a with Some s => is_input_stream s = true | None => True end.

(* legal call: dest only with an empty stream buffer; the new bytes fit *)
Definition legal (a : ast) (new : bytes) (dest : option N) : Prop :=
  bytes_ok new /\ len new <= a_space a /\ (dest <> None -> a_parsed a = []).

(* T6 (C03): a legal call never panics and keeps the invariant, on arbitrary bytes *)
Definition T_total_stmt : Prop := forall a new dest, a_inv a -> legal a new dest ->
  (exists a' s, aparse maxc a new dest = AOk a' s /\ a_inv a') \/
  (exists a' e s, aparse maxc a new dest = AFail a' e s /\ a_inv a' /\
                  (e = EAbortRequest \/ exists v, e = EUnknownVersion v)).

(* T1 (C02): what the call delivered (into dest, or appended to the stream buffer) is exactly the
   front of what was still to come for the active stream; nothing is lost, duplicated or reordered *)
Definition T_content_stmt : Prop := forall a new dest u a' s,
  a_inv a -> legal a new dest -> bytes_ok u ->
  (aparse maxc a new dest = AOk a' s \/ exists e, aparse maxc a new dest = AFail a' e s) ->
  K a (new ++ u) = s_dest s ++ K a' u /\
  a_stream a' = a_stream a /\ a_req a' = a_req a /\
  (dest = None -> s_dest s = [] /\ exists d, a_parsed a' = a_parsed a ++ d /\ s_stream s = len d) /\
  (forall c, dest = Some c -> a_parsed a' = [] /\ s_stream s = len (s_dest s) /\ len (s_dest s) <= c).

(* T2 (C18): bytes of later streams are never consumed while an earlier stream is active *)
Definition T_later_stmt : Prop := forall a new dest u a' s sg,
  a_inv a -> legal a new dest -> bytes_ok u -> later_stream a sg ->
  (aparse maxc a new dest = AOk a' s \/ exists e, aparse maxc a new dest = AFail a' e s) ->
  F (Some sg) a (new ++ u) = F (Some sg) a' u.

(* T3 (C04): the call appends to the output exactly the replies owed for the records it went
   through, in order; Status.output is the number of bytes appended *)
Definition T_replies_stmt : Prop := forall a new dest u a' s,
  a_inv a -> legal a new dest -> bytes_ok u ->
  (aparse maxc a new dest = AOk a' s \/ exists e, aparse maxc a new dest = AFail a' e s) ->
  R a (new ++ u) = R a' u /\ exists o, a_out a' = a_out a ++ o /\ s_output s = len o.

(* T4 (C02): end-of-stream is reported exactly when the parser stands at the terminating header
   (or no stream is active) *)
Definition T_end_stmt : Prop := forall a new dest a' s,
  a_inv a -> legal a new dest -> aparse maxc a new dest = AOk a' s ->
  s_end s = match a_stream a with
            | None => true
            | Some _ => at_terminator (r_role (a_req a)) (r_id (a_req a)) (a_stream a) (a_prem a') (a_pad a') (a_raw a')
            end.

(* T7 (C03): an error is reported again by every later call, with no delivery and no output *)
Definition T_sticky_stmt : Prop := forall a new dest a' e s new' dest',
  a_inv a -> legal a new dest -> aparse maxc a new dest = AFail a' e s -> legal a' new' dest' ->
  exists a'', aparse maxc a' new' dest' = AFail a'' e (mkStatus 0 (match a_stream a' with None => true | _ => false end) 0 []) /\
              a_parsed a'' = a_parsed a' /\ a_out a'' = a_out a' /\ a_raw a'' = a_raw a' ++ new'.
End Targets.
