(* Parser/ReqRecords.v — record-level theorems about the request parser, on top of the
   ParamsStateInner statements S1-S4 (ReqParamsSpec.v) and the state-machine statements
   (ReqTargets.v), which are assumed here as Section hypotheses. *)
From Coq Require Import ZArith.
From FV Require Import Base.Bytes Base.BytesLemmas Gen.Generated Codec.Varint Codec.VarintProofs Codec.NV
  Codec.NVProofs Codec.Header Codec.Bodies Codec.Vars Codec.ProtoProofs
  Parser.ReqModel Parser.ReqParamsSpec Parser.ReqWire Parser.ReqTargets.
From Coq Require Import ZifyBool ZifyNat ZifyN.
Ltac Zify.zify_post_hook ::= Z.div_mod_to_equations.

(* ================= helpers independent of the section ================= *)

(* ---- the header of an encoded record ---- *)
Definition hdr8 (r : rcd) : bytes :=
  b8 1 (rt r) (rid r / 256 mod 256) (rid r mod 256)
     (len (rbody r) / 256 mod 256) (len (rbody r) mod 256) (len (rpad r)) 0.

Lemma enc_rcd_eq r : enc_rcd r = hdr8 r ++ rbody r ++ rpad r.
Proof. reflexivity. Qed.

Lemma len_hdr8 r : len (hdr8 r) = 8.
Proof. reflexivity. Qed.

Lemma len_enc_rcd r : len (enc_rcd r) = 8 + len (rbody r) + len (rpad r).
Proof. rewrite enc_rcd_eq, !len_app, len_hdr8. lia. Qed.

Lemma take8_hdr8 r rest : take HEADER_LEN (hdr8 r ++ rest) = hdr8 r.
Proof. change HEADER_LEN with (len (hdr8 r)). apply take_len_app. Qed.

Lemma drop8_hdr8 r rest : drop HEADER_LEN (hdr8 r ++ rest) = rest.
Proof. change HEADER_LEN with (len (hdr8 r)). apply drop_len_app. Qed.

Lemma bytes_ok_hdr8 r : rcd_ok r -> bytes_ok (hdr8 r).
Proof.
  intros (Ht & Hi & Hb & Hp & _). unfold hdr8, b8, bytes_ok, byte_ok. repeat constructor; lia.
Qed.

Lemma bytes_ok_enc_rcd r : rcd_ok r -> bytes_ok (enc_rcd r).
Proof.
  intros H. rewrite enc_rcd_eq. apply bytes_ok_app; split; [apply bytes_ok_hdr8; exact H|].
  destruct H as (_ & _ & _ & _ & Hb & Hp). apply bytes_ok_app; split; assumption.
Qed.

Lemma hdr_decode_hdr8 r : rcd_ok r ->
  hdr_decode (hdr8 r) =
    if known_type (rt r) then HOk (rt r) (rid r) (len (rbody r)) (len (rpad r)) else HBadType (rt r).
Proof.
  intros (Ht & Hi & Hb & Hp & _). unfold hdr8. rewrite hdr_decode_spec by lia.
  rewrite known_type_range. change (1 =? 1) with true. cbn [negb].
  destruct ((1 <=? rt r) && (rt r <=? 11)); cbn [negb]; [|reflexivity].
  rewrite !be16_to_be16 by assumption. reflexivity.
Qed.

Lemma hdr8_fields r : rcd_ok r ->
  be16 (nthN (hdr8 r) 2) (nthN (hdr8 r) 3) = rid r /\
  be16 (nthN (hdr8 r) 4) (nthN (hdr8 r) 5) = len (rbody r) /\
  nthN (hdr8 r) 6 = len (rpad r).
Proof.
  intros (Ht & Hi & Hb & Hp & _). unfold hdr8, b8. nthN_red.
  rewrite !be16_to_be16 by assumption. repeat split.
Qed.

(* the resting-state normalisation (to be hoisted into ReqTargets.v): a values/skip state with nothing
   left to read behaves exactly like its successor state *)
Definition settle (s : state) : state :=
  match s with
  | HeaderValues _ 0 0 => Header
  | ParamsValues i _ 0 0 => Params i 0 0
  | HeaderSkip 0 0 => Header
  | ParamsSkip i 0 0 => Params i 0 0
  | DoneSkip r 0 0 => Done r
  | _ => s
  end.

Section Records.
Variable norm : bytes -> bytes.
Variable maxc : N.

(* A_stmt holds only for d2 <> [] (for d2 = [] the loop may stop one unsettled state early) *)
Definition A_ne_stmt : Prop := forall s d1 d2,
  state_ok s -> state_small s -> bytes_ok d1 -> bytes_ok d2 -> d2 <> [] -> len (d1 ++ d2) < SIZE_LIMIT ->
  drive_all norm maxc s (d1 ++ d2) =
    match drive_all norm maxc s d1 with
    | DOk r1 s1 o1 =>
      match drive_all norm maxc s1 (r1 ++ d2) with
      | DOk r2 s2 o2 => DOk r2 s2 (o1 ++ o2)
      | x => x
      end
    | x => x
    end.

(* chunking invariance up to settling; the final state itself when done *)
Definition sched_invariant_settle_stmt : Prop := forall B wire s1 s2 p1 d1 u1 o1 p2 d2 u2 o2,
  B < SIZE_LIMIT - 8 -> bytes_ok wire -> len wire < SIZE_LIMIT ->
  run_schedule norm maxc (new_parser B) wire s1 = SOk p1 d1 u1 o1 ->
  run_schedule norm maxc (new_parser B) wire s2 = SOk p2 d2 u2 o2 ->
  d1 = d2 /\ settle (st p1) = settle (st p2) /\ (d1 = true -> st p1 = st p2) /\ o1 = o2 /\
  held p1 ++ u1 = held p2 ++ u2.

Hypothesis HS1 : S1_stmt norm.
Hypothesis HS2 : S2_stmt norm.
Hypothesis HA : A_ne_stmt.
Hypothesis HDT : drive_total_stmt norm maxc.
Hypothesis HPT : parse_total_stmt norm maxc.
Hypothesis HST : sched_total_stmt norm maxc.
Hypothesis HSI : sched_invariant_settle_stmt.

Lemma try_head_known self skip r rest : rcd_ok r -> known_type (rt r) = true ->
  try_head self skip (hdr8 r ++ rest) = HeadOk (rt r) (rid r) (len (rbody r)) (len (rpad r)).
Proof.
  intros Hr Hk. unfold try_head.
  destruct (N.ltb_spec (len (hdr8 r ++ rest)) HEADER_LEN) as [H|_].
  { rewrite len_app, len_hdr8 in H. unfold HEADER_LEN in H. lia. }
  rewrite take8_hdr8, hdr_decode_hdr8 by exact Hr. rewrite Hk. reflexivity.
Qed.

Lemma try_head_unknown self skip r rest : rcd_ok r -> known_type (rt r) = false ->
  try_head self skip (hdr8 r ++ rest) =
    HeadRet (Continue rest (skip (len (rbody r)) (len (rpad r)))) (unk_record (rt r) (rid r)).
Proof.
  intros Hr Hk. unfold try_head.
  destruct (N.ltb_spec (len (hdr8 r ++ rest)) HEADER_LEN) as [H|_].
  { rewrite len_app, len_hdr8 in H. unfold HEADER_LEN in H. lia. }
  rewrite take8_hdr8, drop8_hdr8, hdr_decode_hdr8 by exact Hr. rewrite Hk.
  destruct (hdr8_fields r Hr) as (-> & -> & ->). reflexivity.
Qed.


Lemma gv_cond t id : (t =? RT_GetValues) && hdr_is_management t id = (t =? RT_GetValues) && (id =? 0).
Proof. destruct (N.eqb_spec t RT_GetValues) as [->|]; reflexivity. Qed.

(* ---- HeaderState::drive on a complete header followed by anything ---- *)
Lemma header_drive_unknown r rest : rcd_ok r -> known_type (rt r) = false ->
  header_drive (hdr8 r ++ rest) =
    (Continue rest (header_skip_to (len (rbody r)) (len (rpad r))), unk_record (rt r) (rid r)).
Proof. intros Hr Hk. unfold header_drive. rewrite try_head_unknown by assumption. reflexivity. Qed.

Lemma header_drive_other r rest : rcd_ok r -> known_type (rt r) = true -> rt r <> RT_BeginRequest ->
  header_drive (hdr8 r ++ rest) =
    if (rt r =? RT_GetValues) && (rid r =? 0)
    then (Continue rest (HeaderValues 0 (len (rbody r)) (len (rpad r))), [])
    else (Continue rest (header_skip_to (len (rbody r)) (len (rpad r))), []).
Proof.
  intros Hr Hk Hb. unfold header_drive. rewrite try_head_known by assumption.
  destruct (N.eqb_spec (rt r) RT_BeginRequest) as [E|_]; [contradiction|].
  rewrite gv_cond, drop8_hdr8. reflexivity.
Qed.

Lemma header_drive_begin_badlen r rest : rcd_ok r -> rt r = RT_BeginRequest -> len (rbody r) <> 8 ->
  header_drive (hdr8 r ++ rest) = (Break (hdr8 r ++ rest) (Fatal (EInvalidRequestLen (len (rbody r)))), []).
Proof.
  intros Hr Hb Hl. unfold header_drive. rewrite try_head_known by (try rewrite Hb; trivial).
  rewrite Hb. change (RT_BeginRequest =? RT_BeginRequest) with true. cbn iota.
  unfold BeginRequest_LEN. destruct (N.eqb_spec 8 (len (rbody r))) as [E|_]; [congruence|]. reflexivity.
Qed.

Lemma header_drive_begin r rest : rcd_ok r -> rt r = RT_BeginRequest -> len (rbody r) = 8 ->
  header_drive (hdr8 r ++ rbody r ++ rest) =
    match begin_decode (rbody r) with
    | (_, None) => (Continue rest (header_skip_to 0 (len (rpad r))), end_record 0 PS_UnknownRole (rid r))
    | (_, Some (role, flags)) =>
      if rid r =? 0 then (Break rest (Fatal ENullRequest), [])
      else (Continue rest (Params (mkInner (mkReq (rid r) role flags []) []) 0 (len (rpad r))), [])
    end.
Proof.
  intros Hr Hb Hl. unfold header_drive. rewrite try_head_known by (try rewrite Hb; trivial).
  rewrite Hb. change (RT_BeginRequest =? RT_BeginRequest) with true. cbn iota.
  rewrite Hl. change (negb (BeginRequest_LEN =? 8)) with false. cbn iota.
  destruct (N.ltb_spec (len (hdr8 r ++ rbody r ++ rest)) (HEADER_LEN + BeginRequest_LEN)) as [H|_].
  { rewrite !len_app, len_hdr8, Hl in H. unfold HEADER_LEN, BeginRequest_LEN in H. lia. }
  assert (Hs : slice HEADER_LEN (HEADER_LEN + BeginRequest_LEN) (hdr8 r ++ rbody r ++ rest) = rbody r).
  { unfold slice. rewrite drop8_hdr8. replace (HEADER_LEN + BeginRequest_LEN - HEADER_LEN) with (len (rbody r))
      by (rewrite Hl; reflexivity). apply take_len_app. }
  assert (Hd : drop (HEADER_LEN + BeginRequest_LEN) (hdr8 r ++ rbody r ++ rest) = rest).
  { rewrite app_assoc. replace (HEADER_LEN + BeginRequest_LEN) with (len (hdr8 r ++ rbody r))
      by (rewrite len_app, len_hdr8, Hl; reflexivity). apply drop_len_app. }
  rewrite Hs, Hd. reflexivity.
Qed.

(* ---- ParamsState::drive, stage by stage ---- *)
Definition p_head (i : inner) (data : bytes) : flow * bytes :=
  match try_head (Params i 0 0) (params_skip_to i) data with
  | HeadRet f o => (f, o)
  | HeadOk t id cl pl =>
    let data' := drop HEADER_LEN data in
    let rid := r_id (ireq i) in
    if (t =? RT_Params) && (id =? rid) then
      if cl =? 0 then (Continue data' (into_skip (DoneSkip (ireq i)) (Done (ireq i)) 0 pl), [])
      else (Continue data' (Params i cl pl), [])
    else if (t =? RT_AbortRequest) && (id =? rid) then
      (Continue data' (header_skip_to cl pl), end_record 0 PS_RequestComplete rid)
    else if (t =? RT_BeginRequest) && negb (id =? rid) then
      (Continue data' (params_skip_to i cl pl), end_record 0 PS_CantMpxConn id)
    else if (t =? RT_GetValues) && hdr_is_management t id then
      (Continue data' (ParamsValues i 0 cl pl), [])
    else (Continue data' (params_skip_to i cl pl), [])
  end.

Definition p_pad (i : inner) (q : N) (data : bytes) : flow * bytes :=
  if 0 <? q then
    if len data <=? q then (Break [] (Params i 0 (q - len data)), [])
    else p_head i (drop q data)
  else p_head i data.

Lemma params_drive_eq i p q data :
  params_drive norm i p q data =
    if 0 <? p then
      if len data <? p then
        match parse_stream norm i data false with
        | None => (PANIC 1, [])
        | Some (i', consumed) =>
          if p <? consumed then (PANIC 2, [])
          else if len data <? consumed then (PANIC 3, [])
          else (Break (drop consumed data) (Params i' (p - consumed) q), [])
        end
      else
        match parse_stream norm i (take p data) true with
        | None => (PANIC 1, [])
        | Some (i', consumed) =>
          if negb (consumed =? p) then (PANIC 4, [])
          else p_pad i' q (drop p data)
        end
    else p_pad i q data.
Proof. reflexivity. Qed.

Lemma params_drive_00 i data : params_drive norm i 0 0 data = p_head i data.
Proof. reflexivity. Qed.

Lemma p_head_short i data : len data < 8 -> p_head i data = (Break data (Params i 0 0), []).
Proof.
  intros H. unfold p_head, try_head, HEADER_LEN. destruct (N.ltb_spec (len data) 8); [reflexivity|lia].
Qed.

Lemma p_head_unknown i r rest : rcd_ok r -> known_type (rt r) = false ->
  p_head i (hdr8 r ++ rest) =
    (Continue rest (params_skip_to i (len (rbody r)) (len (rpad r))), unk_record (rt r) (rid r)).
Proof. intros Hr Hk. unfold p_head. rewrite try_head_unknown by assumption. reflexivity. Qed.

Lemma p_head_known i r rest : rcd_ok r -> known_type (rt r) = true ->
  p_head i (hdr8 r ++ rest) =
    let id0 := r_id (ireq i) in let cl := len (rbody r) in let pl := len (rpad r) in
    if (rt r =? RT_Params) && (rid r =? id0) then
      if cl =? 0 then (Continue rest (into_skip (DoneSkip (ireq i)) (Done (ireq i)) 0 pl), [])
      else (Continue rest (Params i cl pl), [])
    else if (rt r =? RT_AbortRequest) && (rid r =? id0) then
      (Continue rest (header_skip_to cl pl), end_record 0 PS_RequestComplete id0)
    else if (rt r =? RT_BeginRequest) && negb (rid r =? id0) then
      (Continue rest (params_skip_to i cl pl), end_record 0 PS_CantMpxConn (rid r))
    else if (rt r =? RT_GetValues) && (rid r =? 0) then
      (Continue rest (ParamsValues i 0 cl pl), [])
    else (Continue rest (params_skip_to i cl pl), []).
Proof.
  intros Hr Hk. unfold p_head. rewrite try_head_known by assumption.
  rewrite gv_cond, drop8_hdr8. reflexivity.
Qed.

(* ---- unfolding the drive loop ---- *)
Definition drive_tail (f : nat) (s : state) (r out : bytes) : dres :=
  match r with [] => DOk [] s out | _ => drive norm maxc f s r out end.

Lemma drive_cont f s d out r s' o : is_final s = false -> drive1 norm maxc s d = (Continue r s', o) ->
  drive norm maxc (S f) s d out = drive_tail f s' r (out ++ o).
Proof. intros Hf H. cbn [drive]. rewrite Hf, H. destruct r; reflexivity. Qed.

Lemma drive_break f s d out r s' o : is_final s = false -> drive1 norm maxc s d = (Break r s', o) ->
  drive norm maxc (S f) s d out = DOk r s' (out ++ o).
Proof. intros Hf H. cbn [drive]. rewrite Hf, H. reflexivity. Qed.

Lemma drive_tail_nil f s out : drive_tail f s [] out = DOk [] s out.
Proof. reflexivity. Qed.

Lemma drive_tail_ne f s r out : r <> [] -> drive_tail f s r out = drive norm maxc f s r out.
Proof. destruct r; [congruence|reflexivity]. Qed.

Lemma len_pos_ne {A} (l : list A) : 0 < len l -> l <> [].
Proof. destruct l; [unfold len; cbn [length]; lia|discriminate]. Qed.

Lemma ne_len_pos {A} (l : list A) : l <> [] -> 0 < len l.
Proof. destruct l; [congruence|rewrite len_cons; lia]. Qed.

(* ---- second stage: skipping ---- *)
Lemma skip_drive_exact wrap nxt p q data : len data = p + q ->
  skip_drive wrap nxt p q data = Continue [] nxt.
Proof.
  intros H. unfold skip_drive. destruct (N.ltb_spec (len data) p); [lia|].
  destruct (N.ltb_spec (len data) (p + q)); [lia|]. rewrite drop_all by lia. reflexivity.
Qed.

Lemma tail_into_skip f wrap nxt p q data out :
  (forall p q d, drive1 norm maxc (wrap p q) d = (skip_drive wrap nxt p q d, [])) ->
  (forall p q, is_final (wrap p q) = false) -> len data = p + q ->
  drive_tail (S f) (into_skip wrap nxt p q) data out = DOk [] nxt out.
Proof.
  intros Hw Hf Hl. unfold into_skip.
  destruct (N.eqb_spec p 0) as [Hp|Hp]; [destruct (N.eqb_spec q 0) as [Hq|Hq]|]; cbn [andb].
  - rewrite (len_zero_nil data) by lia. reflexivity.
  - rewrite drive_tail_ne by (apply len_pos_ne; lia).
    rewrite (drive_cont f _ _ _ [] nxt []) by (rewrite ?Hw, ?skip_drive_exact; trivial).
    rewrite app_nil_r. reflexivity.
  - rewrite drive_tail_ne by (apply len_pos_ne; lia).
    rewrite (drive_cont f _ _ _ [] nxt []) by (rewrite ?Hw, ?skip_drive_exact; trivial).
    rewrite app_nil_r. reflexivity.
Qed.

(* ---- second stage: a GetValues body ---- *)
Lemma values_drive_exact wrap nxt body pad :
  values_drive maxc wrap nxt 0 (len body) (len pad) (body ++ pad) =
    (Continue [] nxt, if len body =? 0 then [] else gv_reply maxc body).
Proof.
  unfold values_drive. destruct (N.ltb_spec 0 (len body)) as [Hp|Hp].
  - destruct (N.eqb_spec (len body) 0) as [E|_]; [lia|].
    replace (N.min (len (body ++ pad)) (len body)) with (len body) by (rewrite len_app; lia).
    rewrite take_len_app. unfold gv_reply. destruct (nv_run body) as [ps rest]. cbn [fst].
    destruct (N.ltb_spec (len (body ++ pad)) (len body)) as [H|_]; [rewrite len_app in H; lia|].
    rewrite drop_len_app. destruct (N.ltb_spec (len pad) (len pad)); [lia|].
    rewrite drop_all by lia. reflexivity.
  - assert (E : len body = 0) by lia. rewrite E. rewrite (len_zero_nil body E). cbn [app].
    change (0 =? 0) with true. cbn iota.
    destruct (N.ltb_spec (len pad) (len pad)); [lia|]. rewrite drop_all by lia. reflexivity.
Qed.

Lemma tail_values f (wrap : N -> N -> N -> state) nxt body pad out :
  (forall v p q d, drive1 norm maxc (wrap v p q) d = values_drive maxc wrap nxt v p q d) ->
  (forall v p q, is_final (wrap v p q) = false) -> body ++ pad <> [] ->
  drive_tail (S f) (wrap 0 (len body) (len pad)) (body ++ pad) out =
    DOk [] nxt (out ++ if len body =? 0 then [] else gv_reply maxc body).
Proof.
  intros Hw Hf Hne. rewrite drive_tail_ne by exact Hne.
  rewrite (drive_cont f _ _ _ [] nxt (if len body =? 0 then [] else gv_reply maxc body));
    [reflexivity|apply Hf|]. rewrite Hw. apply values_drive_exact.
Qed.

(* ---- second stage: a Params payload (whole record body, then the padding) ---- *)
Lemma small_usize n : n < SIZE_LIMIT + 65536 -> n <= USIZE_MAX.
Proof. unfold SIZE_LIMIT, USIZE_MAX. lia. Qed.

Definition params_next (i : inner) (body : bytes) : inner :=
  mkInner (env_extend norm (ireq i) (fst (nv_run (ibuf i ++ body)))) (snd (nv_run (ibuf i ++ body))).

Lemma p_pad_exact i pad : p_pad i (len pad) pad = (Break [] (Params i 0 0), []).
Proof.
  unfold p_pad. destruct (N.ltb_spec 0 (len pad)) as [H|H].
  - destruct (N.leb_spec (len pad) (len pad)); [|lia]. rewrite N.sub_diag. reflexivity.
  - rewrite (len_zero_nil pad) by lia. apply p_head_short. rewrite len_nil. lia.
Qed.

Lemma params_body_exact i body pad :
  inner_ok i -> bytes_ok body -> len (ibuf i ++ body) <= USIZE_MAX -> 0 < len body ->
  params_drive norm i (len body) (len pad) (body ++ pad) =
    (Break [] (Params (params_next i body) 0 0), []) /\ inner_ok (params_next i body).
Proof.
  intros Hi Hb Hsz Hp. rewrite params_drive_eq.
  destruct (N.ltb_spec 0 (len body)); [|lia].
  destruct (N.ltb_spec (len (body ++ pad)) (len body)) as [H1|_]; [rewrite len_app in H1; lia|].
  rewrite take_len_app, drop_len_app.
  destruct (HS1 i body true Hi Hb Hsz) as (i' & c & Hps & Hi' & _ & Hc & _).
  specialize (Hc eq_refl). subst c. rewrite Hps. rewrite N.eqb_refl. cbn [negb].
  pose proof (HS2 i body true i' (len body) Hi Hb Hsz Hps) as H2.
  unfold params_next. destruct (nv_run (ibuf i ++ body)) as [ps rest]. cbn [fst snd].
  destruct H2 as [Hq Hr]. rewrite drop_all, app_nil_r in Hr by lia.
  assert (E : i' = mkInner (env_extend norm (ireq i) ps) rest).
  { destruct i' as [rq bf]. cbn [ireq ibuf] in *. subst. reflexivity. }
  rewrite <- E. split; [apply p_pad_exact|exact Hi'].
Qed.

Lemma tail_params_pad f i pad out :
  drive_tail (S f) (Params i 0 (len pad)) pad out = DOk [] (Params i 0 0) out.
Proof.
  destruct (N.eqb_spec (len pad) 0) as [E|E].
  - rewrite (len_zero_nil pad E). reflexivity.
  - rewrite drive_tail_ne by (apply len_pos_ne; lia).
    rewrite (drive_break f _ _ _ [] (Params i 0 0) []); [rewrite app_nil_r; reflexivity|reflexivity|].
    cbn [drive1]. rewrite params_drive_eq. change (0 <? 0) with false. cbn iota. apply p_pad_exact.
Qed.

(* ---- one complete record from a record boundary ---- *)
Definition sbuf (s : state) : N :=
  match s with
  | Params i _ _ | ParamsSkip i _ _ | ParamsValues i _ _ _ => len (ibuf i)
  | _ => 0
  end.

Definition gv_empty (r : rcd) : Prop := rt r = RT_GetValues /\ rid r = 0 /\ rbody r = [] /\ rpad r = [].

Lemma HeaderSkip_drive1 p q d : drive1 norm maxc (HeaderSkip p q) d = (skip_drive HeaderSkip Header p q d, []).
Proof. reflexivity. Qed.
Lemma ParamsSkip_drive1 i p q d :
  drive1 norm maxc (ParamsSkip i p q) d = (skip_drive (ParamsSkip i) (Params i 0 0) p q d, []).
Proof. reflexivity. Qed.
Lemma DoneSkip_drive1 rq p q d : drive1 norm maxc (DoneSkip rq p q) d = (skip_drive (DoneSkip rq) (Done rq) p q d, []).
Proof. reflexivity. Qed.

Lemma begin_decode_cases body :
  begin_decode body =
    let role := be16 (nthN body 0) (nthN body 1) in
    (role, if known_role role then Some (role, nthN body 2) else None).
Proof. reflexivity. Qed.

Lemma rec_step_header f r : rcd_ok r ->
  match rec_step norm Header r with
  | RNext s' => exists s'', drive norm maxc (S (S f)) Header (enc_rcd r) [] = DOk [] s'' (reply_for maxc Idle r) /\
                 settle s'' = s' /\ state_ok s'' /\ sbuf s'' = 0 /\ (~ gv_empty r -> s'' = s')
  | RFatal e => exists rest, drive norm maxc (S (S f)) Header (enc_rcd r) [] = DOk rest (Fatal e) []
  end.
Proof.
  intros Hr. unfold rec_step, reply_for. rewrite enc_rcd_eq.
  destruct (known_type (rt r)) eqn:Hk; cbn [negb].
  - destruct (N.eqb_spec (rt r) RT_BeginRequest) as [Hb|Hb].
    + rewrite Hb. change (RT_BeginRequest =? RT_GetValues) with false. cbn [andb].
      destruct (N.eqb_spec (len (rbody r)) 8) as [Hl|Hl]; cbn [negb andb].
      * rewrite begin_decode_cases. cbv zeta.
        destruct (known_role (be16 (nthN (rbody r) 0) (nthN (rbody r) 1))) eqn:Hkr; cbn [negb].
        -- destruct (N.eqb_spec (rid r) 0) as [Hid|Hid].
           ++ exists (rpad r). erewrite drive_break; [|reflexivity|].
              2:{ cbn [drive1]. rewrite header_drive_begin by assumption. rewrite begin_decode_cases. cbv zeta.
                  rewrite Hkr. destruct (N.eqb_spec (rid r) 0); [reflexivity|contradiction]. }
              reflexivity.
           ++ eexists. split; [|split; [|split; [|split]]].
              ** erewrite drive_cont; [|reflexivity|].
                 2:{ cbn [drive1]. rewrite header_drive_begin by assumption. rewrite begin_decode_cases. cbv zeta.
                     rewrite Hkr. destruct (N.eqb_spec (rid r) 0); [contradiction|reflexivity]. }
                 apply tail_params_pad.
              ** reflexivity.
              ** cbn [state_ok]. split; [|lia]. split; [constructor|reflexivity].
              ** reflexivity.
              ** reflexivity.
        -- eexists. split; [|split; [|split; [|split]]].
           ++ erewrite drive_cont; [|reflexivity|].
              2:{ cbn [drive1]. rewrite header_drive_begin by assumption. rewrite begin_decode_cases. cbv zeta.
                  rewrite Hkr. reflexivity. }
              unfold header_skip_to. apply tail_into_skip; [apply HeaderSkip_drive1|reflexivity|lia].
           ++ reflexivity.
           ++ exact I.
           ++ reflexivity.
           ++ reflexivity.
      * exists (hdr8 r ++ rbody r ++ rpad r). erewrite drive_break; [|reflexivity|].
        2:{ cbn [drive1]. apply header_drive_begin_badlen; assumption. }
        reflexivity.
    + destruct (N.eqb_spec (rt r) RT_BeginRequest) as [?|_]; [contradiction|]. cbn [andb].
      destruct ((rt r =? RT_GetValues) && (rid r =? 0)) eqn:Hgv.
      * apply andb_true_iff in Hgv as [Hg1 Hg2]. apply N.eqb_eq in Hg1, Hg2.
        destruct (N.eqb_spec (len (rbody r ++ rpad r)) 0) as [He|He].
        -- apply len_zero_nil in He. apply app_eq_nil in He as [Eb Ep].
           exists (HeaderValues 0 0 0). split; [|split; [|split; [|split]]].
           ++ erewrite drive_cont; [|reflexivity|].
              2:{ cbn [drive1]. rewrite header_drive_other by assumption. rewrite Hg1, Hg2. reflexivity. }
              rewrite Eb, Ep. reflexivity.
           ++ reflexivity.
           ++ cbn [state_ok]. lia.
           ++ reflexivity.
           ++ intros Hn. exfalso. apply Hn. repeat split; assumption.
        -- exists Header. split; [|split; [|split; [|split]]]; try reflexivity; try exact I.
           erewrite drive_cont; [|reflexivity|].
           2:{ cbn [drive1]. rewrite header_drive_other by assumption. rewrite Hg1, Hg2. reflexivity. }
           rewrite (tail_values f HeaderValues Header); [reflexivity|reflexivity|reflexivity|].
           intros E. rewrite E in He. apply He. reflexivity.
      * exists Header. split; [|split; [|split; [|split]]]; try reflexivity; try exact I.
        erewrite drive_cont; [|reflexivity|].
        2:{ cbn [drive1]. rewrite header_drive_other by assumption. rewrite Hgv. reflexivity. }
        unfold header_skip_to. apply tail_into_skip; [apply HeaderSkip_drive1|reflexivity|apply len_app].
  - exists Header. split; [|split; [|split; [|split]]]; try reflexivity; try exact I.
    erewrite drive_cont; [|reflexivity|].
    2:{ cbn [drive1]. rewrite header_drive_unknown by assumption. reflexivity. }
    unfold header_skip_to. apply tail_into_skip; [apply HeaderSkip_drive1|reflexivity|apply len_app].
Qed.

Lemma drive_S_nf f s d out : is_final s = false ->
  drive norm maxc (S f) s d out =
    match drive1 norm maxc s d with
    | (PANIC n, _) => DPanic n
    | (Break r s', o) => DOk r s' (out ++ o)
    | (Continue r s', o) => drive_tail f s' r (out ++ o)
    end.
Proof.
  intros Hf. cbn [drive]. rewrite Hf. destruct (drive1 norm maxc s d) as [[r s'|r s'|n] o]; try reflexivity.
  destruct r; reflexivity.
Qed.

Ltac is_rt x :=
  match x with
  | RT_BeginRequest => idtac | RT_AbortRequest => idtac | RT_Params => idtac | RT_GetValues => idtac
  end.
Ltac rt_consts :=
  repeat match goal with
         | |- context [N.eqb ?a ?b] =>
           is_rt a; is_rt b; let v := eval vm_compute in (N.eqb a b) in change (N.eqb a b) with v
         end;
  cbn [andb negb].

Lemma tail_params_skip f i p q data out : len data = p + q ->
  drive_tail (S f) (params_skip_to i p q) data out = DOk [] (Params i 0 0) out.
Proof.
  intros H. unfold params_skip_to. apply tail_into_skip; [apply ParamsSkip_drive1|reflexivity|exact H].
Qed.

Lemma tail_header_skip f p q data out : len data = p + q ->
  drive_tail (S f) (header_skip_to p q) data out = DOk [] Header out.
Proof.
  intros H. unfold header_skip_to. apply tail_into_skip; [apply HeaderSkip_drive1|reflexivity|exact H].
Qed.

Lemma nv_run_rest_len d : len (snd (nv_run d)) <= len d.
Proof. destruct (nv_run_rest d) as [pre [H _]]. rewrite H at 2. rewrite len_app. lia. Qed.

Lemma rec_step_params f i r : inner_ok i -> len (ibuf i) < SIZE_LIMIT -> rcd_ok r ->
  match rec_step norm (Params i 0 0) r with
  | RNext s' => exists s'', drive norm maxc (S (S f)) (Params i 0 0) (enc_rcd r) []
                             = DOk [] s'' (reply_for maxc (InParams (r_id (ireq i))) r) /\
                 settle s'' = s' /\ state_ok s'' /\ sbuf s'' <= len (ibuf i) + len (rbody r) /\
                 (~ gv_empty r -> s'' = s')
  | RFatal e => exists rest, drive norm maxc (S (S f)) (Params i 0 0) (enc_rcd r) [] = DOk rest (Fatal e) []
  end.
Proof.
  intros Hi Hsm Hr. pose proof Hr as (_ & _ & Hbl & _ & Hbok & _).
  assert (Hok : state_ok (Params i 0 0)) by (cbn [state_ok]; split; [exact Hi|lia]).
  unfold rec_step, reply_for. cbv beta iota. rewrite enc_rcd_eq.
  rewrite drive_S_nf by reflexivity. cbn [drive1]. rewrite params_drive_00.
  assert (Fskip : forall o, exists s'' : state,
     drive_tail (S f) (params_skip_to i (len (rbody r)) (len (rpad r))) (rbody r ++ rpad r) ([] ++ o) = DOk [] s'' o /\
     settle s'' = Params i 0 0 /\ state_ok s'' /\ sbuf s'' <= len (ibuf i) + len (rbody r) /\
     (~ gv_empty r -> s'' = Params i 0 0)).
  { intros o. exists (Params i 0 0). rewrite tail_params_skip by apply len_app.
    split; [reflexivity|]. split; [reflexivity|]. split; [exact Hok|]. split; [cbn [sbuf]; lia|reflexivity]. }
  destruct (known_type (rt r)) eqn:Hk; cbn [negb].
  2:{ rewrite p_head_unknown by assumption. apply Fskip. }
  rewrite p_head_known by assumption. cbv zeta.
  destruct (N.eqb_spec (rt r) RT_Params) as [Ht|Ht].
  { rewrite Ht. rt_consts. destruct (N.eqb_spec (rid r) (r_id (ireq i))) as [Hid|Hid]; cbn [andb negb].
    2:{ apply Fskip. }
    destruct (N.eqb_spec (len (rbody r)) 0) as [Hl|Hl].
    - exists (Done (ireq i)). split; [|split; [|split; [|split]]]; try reflexivity; try exact I; [|cbn [sbuf]; lia].
      apply tail_into_skip; [apply DoneSkip_drive1|reflexivity|rewrite len_app; lia].
    - destruct (params_body_exact i (rbody r) (rpad r) Hi Hbok) as [Hpd Hin].
      { apply small_usize. rewrite len_app. lia. } { lia. }
      pose proof (nv_run_rest_len (ibuf i ++ rbody r)) as Hn. rewrite len_app in Hn.
      unfold params_next in Hpd, Hin. destruct (nv_run (ibuf i ++ rbody r)) as [ps rest]. cbn [fst snd] in *.
      exists (Params (mkInner (env_extend norm (ireq i) ps) rest) 0 0).
      split; [|split; [|split; [|split]]].
      + rewrite drive_tail_ne by (apply len_pos_ne; rewrite len_app; lia).
        erewrite drive_break; [|reflexivity|cbn [drive1]; exact Hpd]. reflexivity.
      + reflexivity.
      + cbn [state_ok]. split; [exact Hin|lia].
      + cbn [sbuf ibuf]. exact Hn.
      + reflexivity. }
  cbn [andb].
  destruct (N.eqb_spec (rt r) RT_AbortRequest) as [Ht2|Ht2].
  { rewrite Ht2. rt_consts. destruct (N.eqb_spec (rid r) (r_id (ireq i))) as [Hid|Hid]; cbn [andb negb].
    2:{ apply Fskip. }
    exists Header. split; [|split; [|split; [|split]]]; try reflexivity; try exact I; [|cbn [sbuf]; lia].
    apply tail_header_skip. apply len_app. }
  cbn [andb].
  destruct (N.eqb_spec (rt r) RT_BeginRequest) as [Ht3|Ht3].
  { rewrite Ht3. rt_consts. destruct (N.eqb_spec (rid r) (r_id (ireq i))) as [Hid|Hid]; cbn [andb negb].
    - apply Fskip.
    - apply Fskip. }
  cbn [andb].
  destruct (N.eqb_spec (rt r) RT_GetValues) as [Ht4|Ht4]; cbn [andb]; [|apply Fskip].
  destruct (N.eqb_spec (rid r) 0) as [Hid|Hid]; [|apply Fskip].
  destruct (N.eqb_spec (len (rbody r ++ rpad r)) 0) as [He|He].
  - apply len_zero_nil in He. apply app_eq_nil in He as [Eb Ep].
    exists (ParamsValues i 0 0 0). rewrite Eb, Ep. split; [|split; [|split; [|split]]].
    + reflexivity.
    + reflexivity.
    + cbn [state_ok]. split; [exact Hi|lia].
    + cbn [sbuf]. lia.
    + intros Hn. exfalso. apply Hn. repeat split; assumption.
  - exists (Params i 0 0). split; [|split; [|split; [|split]]]; try reflexivity; [|exact Hok|cbn [sbuf]; lia].
    rewrite (tail_values f (ParamsValues i) (Params i 0 0)); [reflexivity|reflexivity|reflexivity|].
    intros E. rewrite E in He. apply He. reflexivity.
Qed.

(* ---- unsettled resting states ---- *)
Lemma settle_bnd_cases s ph : boundary_phase (settle s) = Some ph ->
  (settle s = s /\ boundary_phase s = Some ph) \/
  (is_final s = false /\ forall d, drive1 norm maxc s d = (Continue d (settle s), [])).
Proof.
  destruct s as [| p q | v p q | i p q | i p q | i v p q | rq p q | rq | e]; cbn [settle]; intros H;
    try (left; split; [reflexivity|exact H]);
    (destruct p as [|p]; [destruct q as [|q]|]); cbn [boundary_phase] in H; try discriminate;
    try (left; split; [reflexivity|exact H]); right; (split; [reflexivity|]); intros d; cbn [drive1].
  - unfold skip_drive. destruct (N.ltb_spec (len d) 0); [lia|].
    destruct (N.ltb_spec (len d) (0 + 0)); [lia|]. reflexivity.
  - unfold values_drive. change (0 <? 0) with false. cbn iota.
    destruct (N.ltb_spec (len d) 0); [lia|]. reflexivity.
  - unfold skip_drive. destruct (N.ltb_spec (len d) 0); [lia|].
    destruct (N.ltb_spec (len d) (0 + 0)); [lia|]. reflexivity.
  - unfold values_drive. change (0 <? 0) with false. cbn iota.
    destruct (N.ltb_spec (len d) 0); [lia|]. reflexivity.
Qed.

Lemma settle_state_ok s : state_ok s -> state_ok (settle s).
Proof.
  destruct s as [| p q | v p q | i p q | i p q | i v p q | rq p q | rq | e]; cbn [settle]; intros H; try exact H;
    (destruct p as [|p]; [destruct q as [|q]|]); try exact H; try exact I;
    cbn [state_ok] in *; tauto.
Qed.

Lemma settle_sbuf s : sbuf (settle s) = sbuf s.
Proof.
  destruct s as [| p q | v p q | i p q | i p q | i v p q | rq p q | rq | e]; cbn [settle]; try reflexivity;
    (destruct p as [|p]; [destruct q as [|q]|]); reflexivity.
Qed.

Lemma settle_idem s : settle (settle s) = settle s.
Proof.
  destruct s as [| p q | v p q | i p q | i p q | i v p q | rq p q | rq | e]; cbn [settle]; try reflexivity;
    (destruct p as [|p]; [destruct q as [|q]|]); reflexivity.
Qed.

Lemma state_small_sbuf s : state_small s <-> sbuf s < SIZE_LIMIT.
Proof.
  destruct s; cbn [state_small sbuf]; try tauto; unfold SIZE_LIMIT; split; intros; try exact I; lia.
Qed.

Lemma drive_fuel_enc r : exists f, drive_fuel (enc_rcd r) = S (S (S f)).
Proof. unfold drive_fuel. exists (2 * length (enc_rcd r) + 1)%nat. lia. Qed.

Lemma rec_step_bnd f s r ph : state_ok s -> state_small s -> boundary_phase s = Some ph -> rcd_ok r ->
  match rec_step norm s r with
  | RNext s' => exists s'', drive norm maxc (S (S f)) s (enc_rcd r) [] = DOk [] s'' (reply_for maxc ph r) /\
                 settle s'' = s' /\ state_ok s'' /\ sbuf s'' <= sbuf s + len (rbody r) /\
                 (~ gv_empty r -> s'' = s')
  | RFatal e => exists rest, drive norm maxc (S (S f)) s (enc_rcd r) [] = DOk rest (Fatal e) []
  end.
Proof.
  intros Hok Hsm Hb Hr.
  destruct s as [| p q | v p q | i p q | i p q | i v p q | rq p q | rq | e]; cbn [boundary_phase] in Hb;
    try discriminate.
  - injection Hb as <-. pose proof (rec_step_header f r Hr) as H.
    destruct (rec_step norm Header r) as [s'|e]; [|exact H].
    destruct H as (s'' & H1 & H2 & H3 & H4 & H5). exists s''. repeat split; try assumption. lia.
  - destruct p as [|p]; [destruct q as [|q]|]; try discriminate. injection Hb as <-.
    cbn [state_ok state_small sbuf] in *. apply (rec_step_params f i r); tauto.
Qed.

(* the true form of rec_step_stmt: the resting state is right up to settling, and exactly right
   unless the record is an empty, unpadded GetValues *)
Lemma rec_step_settle s r ph :
  state_ok s -> state_small s -> boundary_phase (settle s) = Some ph -> rcd_ok r ->
  match rec_step norm (settle s) r with
  | RNext s' => exists s'', drive_all norm maxc s (enc_rcd r) = DOk [] s'' (reply_for maxc ph r) /\
                 settle s'' = s' /\ state_ok s'' /\ sbuf s'' <= sbuf s + len (rbody r) /\
                 (~ gv_empty r -> s'' = s')
  | RFatal e => exists rest, drive_all norm maxc s (enc_rcd r) = DOk rest (Fatal e) []
  end.
Proof.
  intros Hok Hsm Hb Hr. unfold drive_all. destruct (drive_fuel_enc r) as [f ->].
  destruct (settle_bnd_cases s ph Hb) as [[E Hb']|[Hf Hd]].
  - rewrite E. apply (rec_step_bnd (S f) s r ph); assumption.
  - assert (Hne : enc_rcd r <> []) by (apply len_pos_ne; rewrite len_enc_rcd; lia).
    rewrite (drive_cont (S (S f)) s _ [] _ _ [] Hf (Hd _)). rewrite drive_tail_ne by exact Hne.
    cbn [app]. rewrite <- (settle_sbuf s).
    apply (rec_step_bnd f (settle s) r ph); try assumption.
    + apply settle_state_ok; exact Hok.
    + apply state_small_sbuf. rewrite settle_sbuf. apply state_small_sbuf. exact Hsm.
Qed.

Lemma rec_step_ok_but_gv_empty s r ph :
  state_ok s -> state_small s -> boundary_phase s = Some ph -> rcd_ok r -> ~ gv_empty r ->
  match rec_step norm s r with
  | RNext s' => drive_all norm maxc s (enc_rcd r) = DOk [] s' (reply_for maxc ph r) /\ state_ok s'
  | RFatal e => exists rest, drive_all norm maxc s (enc_rcd r) = DOk rest (Fatal e) []
  end.
Proof.
  intros Hok Hsm Hb Hr Hg.
  assert (E : settle s = s).
  { destruct s as [| p q | v p q | i p q | i p q | i v p q | rq p q | rq | e]; cbn [boundary_phase] in Hb;
      try discriminate; reflexivity. }
  pose proof (rec_step_settle s r ph Hok Hsm) as H. rewrite E in H. specialize (H Hb Hr).
  destruct (rec_step norm s r) as [s'|e]; [|exact H].
  destruct H as (s'' & H1 & H2 & H3 & H4 & H5). rewrite (H5 Hg) in *. split; assumption.
Qed.

(* ---- sequences of records ---- *)
Lemma drive_all_final s d : is_final s = true -> drive_all norm maxc s d = DOk d s [].
Proof.
  intros H. unfold drive_all, drive_fuel. replace (2 * length d + 4)%nat with (S (2 * length d + 3)) by lia.
  cbn [drive]. rewrite H. reflexivity.
Qed.

Lemma bytes_ok_enc_rcds rs : Forall rcd_ok rs -> bytes_ok (enc_rcds rs).
Proof.
  induction 1 as [|r t Hr _ IH]; [constructor|]. cbn [enc_rcds flat_map]. apply bytes_ok_app.
  split; [apply bytes_ok_enc_rcd; exact Hr|exact IH].
Qed.

Lemma enc_rcds_cons r t : enc_rcds (r :: t) = enc_rcd r ++ enc_rcds t.
Proof. reflexivity. Qed.

Lemma enc_rcds_app a b : enc_rcds (a ++ b) = enc_rcds a ++ enc_rcds b.
Proof. unfold enc_rcds. apply flat_map_app. Qed.

Lemma enc_rcds_ne rs : rs <> [] -> enc_rcds rs <> [].
Proof.
  destruct rs as [|r t]; [congruence|]. intros _. rewrite enc_rcds_cons. apply len_pos_ne.
  rewrite len_app, len_enc_rcd. lia.
Qed.

(* folding rec_step over a record list, from a (settled) record boundary; [fits] is an arbitrary
   side condition on (state, record), used later for the buffer bound *)
Inductive run (fits : state -> rcd -> Prop) : state -> list rcd -> state -> bytes -> Prop :=
| run_nil s : run fits s [] s []
| run_cons s r s' t s2 o ph :
    boundary_phase s = Some ph -> rcd_ok r -> fits s r -> rec_step norm s r = RNext s' ->
    run fits s' t s2 o -> run fits s (r :: t) s2 (reply_for maxc ph r ++ o).

Lemma run_app fits s a s1 o1 b s2 o2 :
  run fits s a s1 o1 -> run fits s1 b s2 o2 -> run fits s (a ++ b) s2 (o1 ++ o2).
Proof.
  induction 1 as [s|s r s' t s1 o ph Hb Hr Hf Hs _ IH]; intros H2; [exact H2|].
  cbn [app]. rewrite <- app_assoc. econstructor; eauto.
Qed.

Lemma run_weaken (fits fits' : state -> rcd -> Prop) s rs s2 o :
  (forall s r, fits s r -> fits' s r) -> run fits s rs s2 o -> run fits' s rs s2 o.
Proof. intros Hw. induction 1; econstructor; eauto. Qed.

Lemma run_rcd_ok fits s rs s2 o : run fits s rs s2 o -> Forall rcd_ok rs.
Proof. induction 1; constructor; assumption. Qed.

Lemma boundary_settled s ph : boundary_phase s = Some ph -> settle s = s /\ is_final s = false.
Proof.
  destruct s as [| p q | v p q | i p q | i p q | i v p q | rq p q | rq | e]; cbn [boundary_phase]; try discriminate;
    intros _; split; reflexivity.
Qed.

Lemma settle_final s : is_final (settle s) = false -> is_final s = false.
Proof. destruct s; try reflexivity; cbn [settle is_final]; intros H; exact H. Qed.

Lemma gv_empty_step s r ph : boundary_phase s = Some ph -> gv_empty r -> rec_step norm s r = RNext s.
Proof.
  intros Hb (Ht & Hid & _). unfold rec_step.
  destruct s as [| p q | v p q | i p q | i p q | i v p q | rq p q | rq | e]; cbn [boundary_phase] in Hb;
    try discriminate.
  - rewrite Ht. reflexivity.
  - destruct p as [|p]; [destruct q as [|q]|]; try discriminate. rewrite Ht. reflexivity.
Qed.

(* item 2: the drive loop on a whole record sequence *)
Lemma run_drive fits s0 rs s2 o : run fits s0 rs s2 o -> rs <> [] ->
  forall s, state_ok s -> settle s = s0 -> sbuf s + len (enc_rcds rs) < SIZE_LIMIT ->
  exists s'', drive_all norm maxc s (enc_rcds rs) = DOk [] s'' o /\ settle s'' = s2 /\ state_ok s'' /\
              sbuf s'' <= sbuf s + len (enc_rcds rs) /\ (is_final s2 = true -> s'' = s2).
Proof.
  induction 1 as [s0|s0 r s' t s2 o ph Hb Hr Hf Hs Ht IH]; intros Hne s Hok Hse Hsz; [congruence|].
  rewrite enc_rcds_cons in *. rewrite len_app in Hsz.
  assert (Hsm : state_small s) by (apply state_small_sbuf; lia).
  pose proof (rec_step_settle s r ph Hok Hsm) as H1. rewrite Hse in H1. specialize (H1 Hb Hr).
  rewrite Hs in H1. destruct H1 as (s1 & Hd & Hs1 & Hok1 & Hb1 & Hex).
  assert (Hbl : len (rbody r) <= len (enc_rcd r)) by (rewrite len_enc_rcd; lia).
  destruct t as [|r2 t'].
  - assert (E2 : s' = s2 /\ o = []) by (inversion Ht; split; reflexivity).
    destruct E2 as [E2 ->]. cbn [enc_rcds flat_map]. rewrite !app_nil_r. exists s1.
    rewrite <- E2. repeat split; try assumption; [lia|].
    intros Hfin. apply Hex. intros Hg. rewrite (gv_empty_step _ _ _ Hb Hg) in Hs. injection Hs as E3.
    destruct (boundary_settled _ _ Hb) as [_ Hnf]. congruence.
  - assert (Hne2 : r2 :: t' <> []) by discriminate.
    destruct (IH Hne2 s1 Hok1 Hs1 ltac:(lia)) as (s3 & Hd3 & Hs3 & Hok3 & Hb3 & Hfin3).
    exists s3. rewrite HA; try assumption.
    + rewrite Hd. cbn [app]. rewrite Hd3. repeat split; try assumption. rewrite len_app. lia.
    + apply bytes_ok_enc_rcd; exact Hr.
    + apply bytes_ok_enc_rcds. apply (run_rcd_ok _ _ _ _ _ Ht).
    + apply enc_rcds_ne; exact Hne2.
    + rewrite len_app. lia.
Qed.

(* ... and a finished request absorbs nothing: whatever follows is returned untouched *)
Lemma run_drive_done fits s0 rs rq o extra : run fits s0 rs (Done rq) o -> rs <> [] ->
  forall s, state_ok s -> settle s = s0 -> bytes_ok extra -> sbuf s + len (enc_rcds rs ++ extra) < SIZE_LIMIT ->
  drive_all norm maxc s (enc_rcds rs ++ extra) = DOk extra (Done rq) o.
Proof.
  intros Hrun Hne s Hok Hse Hx Hsz. rewrite len_app in Hsz.
  destruct (run_drive _ _ _ _ _ Hrun Hne s Hok Hse ltac:(lia)) as (s3 & Hd & _ & _ & _ & E).
  specialize (E eq_refl).
  subst s3. destruct extra as [|b extra'].
  - rewrite app_nil_r. exact Hd.
  - rewrite HA; try assumption.
    + rewrite Hd. cbn [app]. rewrite drive_all_final by reflexivity. rewrite app_nil_r. reflexivity.
    + apply state_small_sbuf. lia.
    + apply bytes_ok_enc_rcds. apply (run_rcd_ok _ _ _ _ _ Hrun).
    + discriminate.
    + rewrite len_app. lia.
Qed.

(* ---- partial records: what is left unconsumed is short ---- *)
Definition short (cap : N) (d : dres) : Prop := exists rest s1 o1, d = DOk rest s1 o1 /\ len rest < cap.

Lemma short_nil cap s o : 0 < cap -> short cap (DOk [] s o).
Proof. intros H. exists [], s, o. split; [reflexivity|rewrite len_nil; exact H]. Qed.

Lemma tail_skip_short cap f wrap nxt p q d out :
  (forall p q d, drive1 norm maxc (wrap p q) d = (skip_drive wrap nxt p q d, [])) ->
  (forall p q, is_final (wrap p q) = false) -> 0 < cap -> len d < p + q ->
  short cap (drive_tail (S f) (into_skip wrap nxt p q) d out).
Proof.
  intros Hw Hf Hc Hl. destruct (N.eqb_spec (len d) 0) as [E|E].
  { rewrite (len_zero_nil d E). apply short_nil; exact Hc. }
  rewrite drive_tail_ne by (apply len_pos_ne; lia).
  assert (Ei : into_skip wrap nxt p q = wrap p q).
  { unfold into_skip. destruct (N.eqb_spec p 0); [|reflexivity]. destruct (N.eqb_spec q 0); [lia|reflexivity]. }
  rewrite Ei, drive_S_nf by apply Hf. rewrite Hw. unfold skip_drive.
  destruct (N.ltb_spec (len d) p); [apply short_nil; exact Hc|].
  destruct (N.ltb_spec (len d) (p + q)); [apply short_nil; exact Hc|lia].
Qed.

Lemma take_prefix_cases {A} k (a b : list A) : k < len a + len b ->
  (k < len a /\ take k (a ++ b) = take k a /\ len (take k a) = k) \/
  (len a <= k /\ take k (a ++ b) = a ++ take (k - len a) b /\ len (take (k - len a) b) = k - len a /\
   k - len a < len b).
Proof.
  intros H. destruct (N.ltb_spec k (len a)) as [H1|H1].
  - left. split; [exact H1|]. split; [apply take_app_le; lia|rewrite len_take; lia].
  - right. split; [exact H1|]. split; [apply take_app_ge; exact H1|]. split; [rewrite len_take; lia|lia].
Qed.

Lemma tail_values_short cap f (wrap : N -> N -> N -> state) nxt body pad k out :
  (forall v p q d, drive1 norm maxc (wrap v p q) d = values_drive maxc wrap nxt v p q d) ->
  (forall v p q, is_final (wrap v p q) = false) -> 0 < cap ->
  (forall k, len (snd (nv_run (take k body))) < cap) -> k < len body + len pad ->
  short cap (drive_tail (S f) (wrap 0 (len body) (len pad)) (take k (body ++ pad)) out).
Proof.
  intros Hw Hf Hc Hgv Hk. set (d := take k (body ++ pad)).
  destruct (N.eqb_spec (len d) 0) as [E|E].
  { rewrite (len_zero_nil d E). apply short_nil; exact Hc. }
  rewrite drive_tail_ne by (apply len_pos_ne; lia).
  rewrite drive_S_nf by apply Hf. rewrite Hw. unfold values_drive. cbv zeta.
  destruct (N.ltb_spec 0 (len body)) as [Hp|Hp].
  - destruct (take_prefix_cases k body pad Hk) as [(H1 & H2 & H3)|(H1 & H2 & H3 & H4)]; fold d in H2.
    + assert (Hd : len d < len body) by (rewrite H2, H3; exact H1).
      replace (N.min (len d) (len body)) with (len d) by lia. rewrite (take_all (len d) d) by lia.
      pose proof (Hgv k) as Hb. rewrite <- H2 in Hb. pose proof (nv_run_rest_len d) as Hr.
      destruct (nv_run d) as [ps rest]. cbn [snd] in Hb, Hr.
      destruct (N.ltb_spec (len d) (len body)); [|lia].
      eexists _, _, _. split; [reflexivity|]. rewrite len_drop. lia.
    + assert (Hd : len d = len body + (k - len body)) by (rewrite H2, len_app, H3; reflexivity).
      destruct (nv_run (take (N.min (len d) (len body)) d)) as [ps rest].
      destruct (N.ltb_spec (len d) (len body)); [lia|].
      destruct (N.ltb_spec (len (drop (len body) d)) (len pad)) as [_|H6]; [apply short_nil; exact Hc|].
      rewrite len_drop in H6. lia.
  - destruct (N.ltb_spec (len d) (len pad)) as [_|H6]; [apply short_nil; exact Hc|].
    unfold d in H6. rewrite len_take, len_app in H6. lia.
Qed.

Lemma tail_pad_short cap f i q d out : 0 < cap -> len d < q ->
  short cap (drive_tail (S f) (Params i 0 q) d out).
Proof.
  intros Hc Hl. destruct (N.eqb_spec (len d) 0) as [E|E].
  { rewrite (len_zero_nil d E). apply short_nil; exact Hc. }
  rewrite drive_tail_ne by (apply len_pos_ne; lia).
  rewrite drive_S_nf by reflexivity. cbn [drive1]. rewrite params_drive_eq.
  change (0 <? 0) with false. cbn iota. unfold p_pad.
  destruct (N.ltb_spec 0 q); [|lia]. destruct (N.leb_spec (len d) q); [|lia].
  apply short_nil; exact Hc.
Qed.

Lemma tail_params_short cap f i body pad k out :
  inner_ok i -> bytes_ok body -> len (ibuf i ++ body) <= USIZE_MAX -> 0 < len body -> 0 < cap ->
  (forall k, len (snd (nv_run (ibuf i ++ take k body))) < cap) -> k < len body + len pad ->
  short cap (drive_tail (S f) (Params i (len body) (len pad)) (take k (body ++ pad)) out).
Proof.
  intros Hi Hb Hsz Hp Hc Hfit Hk. set (d := take k (body ++ pad)).
  destruct (N.eqb_spec (len d) 0) as [E|E].
  { rewrite (len_zero_nil d E). apply short_nil; exact Hc. }
  rewrite drive_tail_ne by (apply len_pos_ne; lia).
  rewrite drive_S_nf by reflexivity. cbn [drive1]. rewrite params_drive_eq.
  destruct (N.ltb_spec 0 (len body)); [|lia].
  destruct (take_prefix_cases k body pad Hk) as [(H1 & H2 & H3)|(H1 & H2 & H3 & H4)]; fold d in H2.
  - assert (Hd : len d < len body) by (rewrite H2, H3; exact H1).
    destruct (N.ltb_spec (len d) (len body)); [|lia].
    assert (Hbd : bytes_ok d) by (rewrite H2; apply bytes_ok_take; exact Hb).
    assert (Hszd : len (ibuf i ++ d) <= USIZE_MAX) by (rewrite len_app in *; lia).
    destruct (HS1 i d false Hi Hbd Hszd) as (i' & c & Hps & Hi' & Hcl & _).
    rewrite Hps. pose proof (HS2 i d false i' c Hi Hbd Hszd Hps) as H2'.
    pose proof (Hfit k) as Hb'. rewrite <- H2 in Hb'.
    destruct (nv_run (ibuf i ++ d)) as [ps rest]. cbn [snd] in Hb'. destruct H2' as [_ Hr].
    destruct (N.ltb_spec (len body) c); [lia|]. destruct (N.ltb_spec (len d) c); [lia|].
    eexists _, _, _. split; [reflexivity|]. rewrite <- Hr, len_app in Hb'. lia.
  - assert (Hd : len d = len body + (k - len body)) by (rewrite H2, len_app, H3; reflexivity).
    destruct (N.ltb_spec (len d) (len body)); [lia|].
    rewrite H2, take_len_app, drop_len_app.
    destruct (HS1 i body true Hi Hb Hsz) as (i' & c & Hps & Hi' & _ & Hce & _).
    specialize (Hce eq_refl). subst c. rewrite Hps, N.eqb_refl. cbn [negb]. unfold p_pad.
    destruct (N.ltb_spec 0 (len pad)); [|lia].
    destruct (N.leb_spec (len (take (k - len body) pad)) (len pad)); [|lia].
    apply short_nil; exact Hc.
Qed.

Definition rec_fits (cap : N) (s : state) (r : rcd) : Prop :=
  gv_fits cap r /\
  (forall i, s = Params i 0 0 -> rt r = RT_Params -> rid r = r_id (ireq i) ->
     forall k, len (snd (nv_run (ibuf i ++ take k (rbody r)))) < cap).

Lemma len_take_le {A} k (l : list A) : len (take k l) <= k.
Proof. rewrite len_take. lia. Qed.

Lemma partial_header cap f r k : rcd_ok r -> 0 < cap -> gv_fits cap r ->
  (exists s', rec_step norm Header r = RNext s') -> 8 <= k -> k < len (rbody r) + len (rpad r) ->
  short cap (drive norm maxc (S (S f)) Header (hdr8 r ++ take k (rbody r ++ rpad r)) []).
Proof.
  intros Hr Hc Hgv [s' Hnf] Hk8 Hk. set (d := take k (rbody r ++ rpad r)).
  assert (Hd : len d < len (rbody r) + len (rpad r)) by (pose proof (len_take_le k (rbody r ++ rpad r)); fold d in H; lia).
  rewrite drive_S_nf by reflexivity. cbn [drive1]. unfold rec_step in Hnf.
  destruct (known_type (rt r)) eqn:Hkt; cbn [negb] in Hnf.
  2:{ rewrite header_drive_unknown by assumption. unfold header_skip_to.
      apply tail_skip_short; [apply HeaderSkip_drive1|reflexivity|exact Hc|exact Hd]. }
  destruct (N.eqb_spec (rt r) RT_BeginRequest) as [Hb|Hb].
  - destruct (N.eqb_spec (len (rbody r)) 8) as [Hl|Hl]; cbn [negb] in Hnf; [|discriminate].
    destruct (take_prefix_cases k (rbody r) (rpad r) Hk) as [(H1 & _)|(H1 & H2 & H3 & H4)]; [lia|].
    unfold d. rewrite H2. rewrite header_drive_begin by assumption.
    rewrite begin_decode_cases in *. cbv zeta in *.
    destruct (known_role (be16 (nthN (rbody r) 0) (nthN (rbody r) 1))).
    + destruct (N.eqb_spec (rid r) 0); [discriminate|].
      apply tail_pad_short; [exact Hc|lia].
    + unfold header_skip_to. apply tail_skip_short; [apply HeaderSkip_drive1|reflexivity|exact Hc|lia].
  - rewrite header_drive_other by assumption.
    destruct ((rt r =? RT_GetValues) && (rid r =? 0)) eqn:Hg.
    + apply andb_true_iff in Hg as [Hg1 Hg2]. apply N.eqb_eq in Hg1, Hg2.
      apply (tail_values_short cap f HeaderValues Header); [reflexivity|reflexivity|exact Hc|exact (Hgv Hg1 Hg2)|exact Hk].
    + unfold header_skip_to. apply tail_skip_short; [apply HeaderSkip_drive1|reflexivity|exact Hc|exact Hd].
Qed.

Lemma partial_params cap f i r k : inner_ok i -> len (ibuf i) < SIZE_LIMIT -> rcd_ok r -> 0 < cap ->
  rec_fits cap (Params i 0 0) r -> k < len (rbody r) + len (rpad r) ->
  short cap (drive norm maxc (S (S f)) (Params i 0 0) (hdr8 r ++ take k (rbody r ++ rpad r)) []).
Proof.
  intros Hi Hsm Hr Hc [Hgv Hpf] Hk. set (d := take k (rbody r ++ rpad r)).
  pose proof Hr as (_ & _ & Hbl & _ & Hbok & _).
  assert (Hd : len d < len (rbody r) + len (rpad r)) by (pose proof (len_take_le k (rbody r ++ rpad r)); fold d in H; lia).
  rewrite drive_S_nf by reflexivity. cbn [drive1]. rewrite params_drive_00.
  assert (Fskip : forall o, short cap (drive_tail (S f) (params_skip_to i (len (rbody r)) (len (rpad r))) d ([] ++ o))).
  { intros o. unfold params_skip_to. apply tail_skip_short; [apply ParamsSkip_drive1|reflexivity|exact Hc|exact Hd]. }
  destruct (known_type (rt r)) eqn:Hkt.
  2:{ rewrite p_head_unknown by assumption. apply Fskip. }
  rewrite p_head_known by assumption. cbv zeta.
  destruct ((rt r =? RT_Params) && (rid r =? r_id (ireq i))) eqn:C1.
  { apply andb_true_iff in C1 as [C1 C1']. apply N.eqb_eq in C1, C1'.
    destruct (N.eqb_spec (len (rbody r)) 0) as [Hl|Hl].
    - apply tail_skip_short; [apply DoneSkip_drive1|reflexivity|exact Hc|lia].
    - apply tail_params_short; try assumption; [|lia|exact (Hpf i eq_refl C1 C1')].
      apply small_usize. rewrite len_app. lia. }
  destruct ((rt r =? RT_AbortRequest) && (rid r =? r_id (ireq i))).
  { unfold header_skip_to. apply tail_skip_short; [apply HeaderSkip_drive1|reflexivity|exact Hc|exact Hd]. }
  destruct ((rt r =? RT_BeginRequest) && negb (rid r =? r_id (ireq i))); [apply Fskip|].
  destruct ((rt r =? RT_GetValues) && (rid r =? 0)) eqn:Hg; [|apply Fskip].
  apply andb_true_iff in Hg as [Hg1 Hg2]. apply N.eqb_eq in Hg1, Hg2.
  apply (tail_values_short cap f (ParamsValues i) (Params i 0 0)); [reflexivity|reflexivity|exact Hc|exact (Hgv Hg1 Hg2)|exact Hk].
Qed.

Lemma partial_bnd cap f s r ph k : state_ok s -> state_small s -> boundary_phase s = Some ph -> rcd_ok r ->
  0 < cap -> rec_fits cap s r -> (exists s', rec_step norm s r = RNext s') ->
  8 <= k -> k < len (rbody r) + len (rpad r) ->
  short cap (drive norm maxc (S (S f)) s (hdr8 r ++ take k (rbody r ++ rpad r)) []).
Proof.
  intros Hok Hsm Hb Hr Hc Hfit Hnf Hk8 Hk.
  destruct s as [| p q | v p q | i p q | i p q | i v p q | rq p q | rq | e]; cbn [boundary_phase] in Hb;
    try discriminate.
  - apply partial_header; try assumption. exact (proj1 Hfit).
  - destruct p as [|p]; [destruct q as [|q]|]; try discriminate.
    cbn [state_ok state_small] in *. apply partial_params; try assumption; tauto.
Qed.

Lemma rec_fits_settle_eq cap s s' r : s = s' -> rec_fits cap s r -> rec_fits cap s' r.
Proof. intros ->. trivial. Qed.

(* any proper prefix of a (non-fatal) record, from a record boundary: the parser does not finish and
   holds back fewer than [cap] bytes *)
Lemma partial_rec cap s r ph x y :
  24 <= cap -> state_ok s -> state_small s -> boundary_phase (settle s) = Some ph -> rcd_ok r ->
  rec_fits cap (settle s) r -> (exists s', rec_step norm (settle s) r = RNext s') ->
  enc_rcd r = x ++ y -> y <> [] ->
  exists rest s1 o1, drive_all norm maxc s x = DOk rest s1 o1 /\ len rest < cap /\ is_final s1 = false.
Proof.
  intros Hc Hok Hsm Hb Hr Hfit Hnf Hxy Hy.
  assert (Hbx : bytes_ok x /\ bytes_ok y).
  { apply bytes_ok_app. rewrite <- Hxy. apply bytes_ok_enc_rcd; exact Hr. }
  destruct Hbx as [Hbx Hby].
  assert (Hlen : len x + len y = 8 + len (rbody r) + len (rpad r)).
  { rewrite <- len_app, <- Hxy. apply len_enc_rcd. }
  assert (Hy' : 0 < len y) by (apply ne_len_pos; exact Hy).
  pose proof Hr as (_ & _ & Hbl & Hpl & _).
  assert (Hxs : len x < SIZE_LIMIT) by (unfold SIZE_LIMIT; lia).
  assert (Hshort : short cap (drive_all norm maxc s x)).
  { destruct (N.ltb_spec (len x) cap) as [Hlt|Hge].
    - destruct (HDT s x Hok Hsm Hbx Hxs) as (rest & s1 & o1 & Hd & _ & _ & [c Hc'] & _).
      exists rest, s1, o1. split; [exact Hd|]. rewrite Hc', len_app in Hlt. lia.
    - assert (Ex : x = hdr8 r ++ take (len x - 8) (rbody r ++ rpad r)).
      { transitivity (take (len x) (enc_rcd r)); [rewrite Hxy; symmetry; apply take_len_app|].
        rewrite enc_rcd_eq. rewrite take_app_ge by (rewrite len_hdr8; lia).
        rewrite len_hdr8. reflexivity. }
      unfold drive_all, drive_fuel.
      replace (2 * length x + 4)%nat with (S (S (S (2 * length x + 1)))) by lia.
      destruct (settle_bnd_cases s ph Hb) as [[E Hb']|[Hf Hd]].
      + rewrite Ex. rewrite E in *. apply (partial_bnd cap _ s r ph); try assumption; lia.
      + rewrite (drive_cont _ s _ [] _ _ [] Hf (Hd _)).
        rewrite drive_tail_ne by (apply len_pos_ne; lia). cbn [app]. rewrite Ex.
        apply (partial_bnd cap _ (settle s) r ph); try assumption; try lia.
        * apply settle_state_ok; exact Hok.
        * apply state_small_sbuf. rewrite settle_sbuf. apply state_small_sbuf. exact Hsm. }
  destruct Hshort as (rest & s1 & o1 & Hd & Hl). exists rest, s1, o1. split; [exact Hd|]. split; [exact Hl|].
  destruct (is_final s1) eqn:Hfin; [exfalso|reflexivity].
  pose proof (rec_step_settle s r ph Hok Hsm Hb Hr) as H1. destruct Hnf as [s' Hnf]. rewrite Hnf in H1.
  destruct H1 as (s'' & Hdr & _). rewrite Hxy in Hdr.
  rewrite HA in Hdr; try assumption; [|rewrite len_app; unfold SIZE_LIMIT; lia].
  rewrite Hd in Hdr. rewrite drive_all_final in Hdr by exact Hfin. injection Hdr as E1 _ _.
  apply app_eq_nil in E1 as [_ E1]. contradiction.
Qed.

Lemma run_ne_boundary fits s rs s2 o : run fits s rs s2 o -> rs <> [] -> exists ph, boundary_phase s = Some ph.
Proof. destruct 1; [congruence|]. intros _. eexists; eassumption. Qed.

(* never stuck, never done early: every proper prefix of the wire of a run *)
Lemma run_prefix cap s0 rs s2 o : 24 <= cap -> run (rec_fits cap) s0 rs s2 o ->
  forall s, state_ok s -> settle s = s0 -> sbuf s + len (enc_rcds rs) < SIZE_LIMIT ->
  forall k, k < len (enc_rcds rs) ->
  exists rest s1 o1, drive_all norm maxc s (take k (enc_rcds rs)) = DOk rest s1 o1 /\ len rest < cap /\
                     is_final s1 = false.
Proof.
  intros Hc. induction 1 as [s0|s0 r s' t s2 o ph Hb Hr Hf Hs Ht IH]; intros s Hok Hse Hsz k Hk.
  { cbn [enc_rcds flat_map] in Hk. rewrite len_nil in Hk. lia. }
  rewrite enc_rcds_cons in *. rewrite len_app in Hsz, Hk.
  assert (Hsm : state_small s) by (apply state_small_sbuf; lia).
  subst s0.
  destruct (N.ltb_spec k (len (enc_rcd r))) as [Hlt|Hge].
  - rewrite take_app_le by lia.
    apply (partial_rec cap s r ph (take k (enc_rcd r)) (drop k (enc_rcd r))); try assumption.
    + eexists; exact Hs.
    + symmetry; apply take_drop.
    + apply len_pos_ne. rewrite len_drop. lia.
  - rewrite take_app_ge by exact Hge.
    pose proof (rec_step_settle s r ph Hok Hsm Hb Hr) as H1. rewrite Hs in H1.
    destruct H1 as (s1 & Hd & Hs1 & Hok1 & Hb1 & _).
    assert (Hbl : len (rbody r) <= len (enc_rcd r)) by (rewrite len_enc_rcd; lia).
    assert (Htne : t <> []).
    { intros ->. cbn [enc_rcds flat_map] in Hk. rewrite len_nil in Hk. lia. }
    destruct (N.eqb_spec (k - len (enc_rcd r)) 0) as [E0|E0].
    + rewrite E0, take_0, app_nil_r. exists [], s1, (reply_for maxc ph r). split; [exact Hd|].
      split; [rewrite len_nil; lia|]. apply settle_final. rewrite Hs1.
      destruct (run_ne_boundary _ _ _ _ _ Ht Htne) as [ph' Hb']. apply (boundary_settled _ _ Hb').
    + destruct (IH s1 Hok1 Hs1 ltac:(lia) (k - len (enc_rcd r)) ltac:(lia)) as (rest & s3 & o3 & Hd3 & Hl3 & Hf3).
      assert (Hbt : bytes_ok (enc_rcds t)) by (apply bytes_ok_enc_rcds; apply (run_rcd_ok _ _ _ _ _ Ht)).
      exists rest, s3, (reply_for maxc ph r ++ o3). rewrite HA; try assumption.
      * rewrite Hd. cbn [app]. rewrite Hd3. repeat split; assumption.
      * apply bytes_ok_enc_rcd; exact Hr.
      * apply bytes_ok_take; exact Hbt.
      * apply len_pos_ne. rewrite len_take. lia.
      * rewrite len_app, len_take. lia.
Qed.

(* ---- the undecoded tail of any prefix of an encoded pair list is short ---- *)
Lemma app_split_ge {A} (a b x y : list A) : a ++ b = x ++ y -> len a <= len x ->
  exists x', x = a ++ x' /\ b = x' ++ y.
Proof.
  intros H Hl. exists (drop (len a) x). split.
  - rewrite <- (take_drop (len a) x) at 1. f_equal.
    transitivity (take (len a) (x ++ y)); [rewrite take_app_le by lia; reflexivity|].
    rewrite <- H. apply take_len_app.
  - transitivity (drop (len a) (a ++ b)); [symmetry; apply drop_len_app|].
    rewrite H. apply drop_app_le. exact Hl.
Qed.

Lemma nv_prefix_bound cap ps : Forall pair_ok ps -> Forall (pair_fits cap) ps -> 0 < cap ->
  forall e x y, nv_write_all ps = Some e -> e = x ++ y -> len (snd (nv_run x)) < cap.
Proof.
  intros Hok. induction Hok as [|[n v] t [Hn Hv] Ht IH]; intros Hfit Hc e x y He Hxy.
  - cbn [nv_write_all] in He. injection He as <-. symmetry in Hxy. apply app_eq_nil in Hxy as [-> _].
    cbn. exact Hc.
  - cbn [fst snd] in Hn, Hv. cbn [nv_write_all] in He. rewrite nv_write_some in He by assumption.
    destruct (nv_write_all t) as [et|] eqn:Et; [|discriminate]. injection He as <-.
    inversion Hfit as [|? ? Hf1 Hf2]; subst. unfold pair_fits in Hf1. cbn [fst snd] in Hf1.
    set (en := vi_write (len n) ++ vi_write (len v) ++ n ++ v) in *.
    assert (Hen : len en <= 8 + len n + len v).
    { unfold en. rewrite !len_app. pose proof (vi_write_len _ Hn) as L1. pose proof (vi_write_len _ Hv) as L2.
      destruct (len n <? 128), (len v <? 128); lia. }
    destruct (N.ltb_spec (len x) (len en)) as [Hlt|Hge].
    + pose proof (nv_run_rest_len x). lia.
    + destruct (app_split_ge en et x y Hxy Hge) as (x' & Ex & Ey).
      assert (Enx : nv_next x = Some (n, v, x')).
      { rewrite Ex. unfold en. rewrite <- !app_assoc. apply nv_next_write; assumption. }
      rewrite nv_run_unfold, Enx. specialize (IH Hf2 Hc et x' y eq_refl Ey).
      destruct (nv_run x') as [ps' rest']. exact IH.
Qed.

(* ---- the record sequence of a well-formed preamble is a run ---- *)
Lemma run_out fits s rs s2 o o' : run fits s rs s2 o -> o = o' -> run fits s rs s2 o'.
Proof. intros H <-. exact H. Qed.

Lemma idle_junk_step r : idle_junk_ok r -> rec_step norm Header r = RNext Header.
Proof.
  intros [_ H]. unfold rec_step. destruct (known_type (rt r)); cbn [negb]; [|reflexivity].
  destruct (N.eqb_spec (rt r) RT_BeginRequest) as [E|E]; [|reflexivity].
  destruct H as [Hne|[Hl Hkr]]; [contradiction|]. rewrite Hl. change (negb (8 =? 8)) with false. cbn iota.
  rewrite begin_decode_cases. cbv zeta. rewrite Hkr. reflexivity.
Qed.

Lemma run_idle cap rs : Forall idle_junk_ok rs -> Forall (gv_fits cap) rs ->
  run (rec_fits cap) Header rs Header (flat_map (reply_for maxc Idle) rs).
Proof.
  induction 1 as [|r t Hr _ IH]; intros Hg; [constructor|]. inversion Hg; subst.
  cbn [flat_map]. econstructor; [reflexivity|exact (proj1 Hr)| |apply idle_junk_step; exact Hr|apply IH; assumption].
  split; [assumption|]. intros i E; discriminate.
Qed.

Definition begin_rcd (id role flags : N) (pad : bytes) : rcd :=
  mkRcd RT_BeginRequest id (begin_encode role flags) pad.

Lemma begin_rcd_ok id role flags pad : id < 65536 -> flags < 256 -> len pad < 256 -> bytes_ok pad ->
  rcd_ok (begin_rcd id role flags pad).
Proof.
  intros Hid Hf Hp Hb. unfold rcd_ok, begin_rcd. cbn [rt rid rbody rpad].
  change (len (begin_encode role flags)) with 8. unfold RT_BeginRequest.
  repeat split; try lia; try assumption.
  unfold begin_encode, to_be16. cbn [app]. constructor; [unfold byte_ok; lia|].
  constructor; [unfold byte_ok; lia|]. constructor; [exact Hf|]. apply bytes_ok_zeros.
Qed.

Lemma begin_role_known role flags : known_role role = true -> flags < 256 ->
  known_role (be16 (nthN (begin_encode role flags) 0) (nthN (begin_encode role flags) 1)) = true.
Proof.
  intros Hk Hf. pose proof (begin_roundtrip role flags Hk Hf) as H. rewrite begin_decode_cases in H. cbv zeta in H.
  revert H. destruct (known_role (be16 (nthN (begin_encode role flags) 0) (nthN (begin_encode role flags) 1)));
    intros H; [reflexivity|discriminate H].
Qed.

Lemma run_begin cap id role flags pad :
  0 < id < 65536 -> known_role role = true -> flags < 256 -> len pad < 256 -> bytes_ok pad ->
  run (rec_fits cap) Header [begin_rcd id role flags pad]
      (Params (mkInner (mkReq id role flags []) []) 0 0) [].
Proof.
  intros Hid Hk Hf Hp Hb.
  apply (run_out _ _ _ _ (reply_for maxc Idle (begin_rcd id role flags pad) ++ [])).
  - econstructor; [reflexivity|apply begin_rcd_ok; try assumption; lia| | |constructor].
    + split; [intros E; discriminate E|intros i E; discriminate E].
    + unfold rec_step, begin_rcd. cbn [rt rid rbody rpad].
      change (known_type RT_BeginRequest) with true. rt_consts.
      change (len (begin_encode role flags)) with 8. change (negb (8 =? 8)) with false. cbn iota.
      rewrite begin_roundtrip by assumption. destruct (N.eqb_spec id 0); [lia|reflexivity].
  - rewrite app_nil_r. unfold reply_for, begin_rcd. cbn [rt rid rbody rpad].
    change (known_type RT_BeginRequest) with true. rt_consts.
    rewrite begin_role_known by assumption. rewrite andb_false_r. reflexivity.
Qed.

Lemma params_junk_step i r : params_junk_ok (r_id (ireq i)) r ->
  rec_step norm (Params i 0 0) r = RNext (Params i 0 0).
Proof.
  intros [_ H]. unfold rec_step. cbv beta iota. destruct (known_type (rt r)); cbn [negb]; [|reflexivity].
  destruct (N.eqb_spec (rid r) (r_id (ireq i))) as [E|E]; [|rewrite !andb_false_r; reflexivity].
  destruct (N.eqb_spec (rt r) RT_Params) as [E1|E1]; [exfalso; apply H; tauto|].
  destruct (N.eqb_spec (rt r) RT_AbortRequest) as [E2|E2]; [exfalso; apply H; tauto|]. reflexivity.
Qed.

Lemma run_junk cap i rs : Forall (params_junk_ok (r_id (ireq i))) rs -> Forall (gv_fits cap) rs ->
  run (rec_fits cap) (Params i 0 0) rs (Params i 0 0) (flat_map (reply_for maxc (InParams (r_id (ireq i)))) rs).
Proof.
  induction 1 as [|r t Hr _ IH]; intros Hg; [constructor|]. inversion Hg; subst.
  cbn [flat_map]. econstructor; [reflexivity|exact (proj1 Hr)| |apply params_junk_step; exact Hr|apply IH; assumption].
  split; [assumption|]. intros i' E Ht Hid. injection E as <-. exfalso. apply (proj2 Hr). tauto.
Qed.

Definition params_rcd (id : N) (body pad : bytes) : rcd := mkRcd RT_Params id body pad.

Lemma params_rcd_reply id body pad : reply_for maxc (InParams id) (params_rcd id body pad) = [].
Proof.
  unfold reply_for, params_rcd. cbn [rt rid rbody rpad]. change (known_type RT_Params) with true. rt_consts.
  reflexivity.
Qed.

Lemma run_piece_rcd cap i body pad :
  0 < len body < 65536 -> len pad < 256 -> bytes_ok body -> bytes_ok pad -> r_id (ireq i) < 65536 ->
  (forall k, len (snd (nv_run (ibuf i ++ take k body))) < cap) ->
  run (rec_fits cap) (Params i 0 0) [params_rcd (r_id (ireq i)) body pad] (Params (params_next i body) 0 0) [].
Proof.
  intros Hb Hp Hbo Hpo Hid Hfit.
  apply (run_out _ _ _ _ (reply_for maxc (InParams (r_id (ireq i))) (params_rcd (r_id (ireq i)) body pad) ++ [])).
  - econstructor; [reflexivity| | | |constructor].
    + unfold rcd_ok, params_rcd, RT_Params. cbn [rt rid rbody rpad]. repeat split; try lia; assumption.
    + split; [intros E; discriminate E|]. intros i' E _ _. injection E as <-. exact Hfit.
    + unfold rec_step, params_rcd. cbv beta iota. cbn [rt rid rbody rpad].
      change (known_type RT_Params) with true. rt_consts. rewrite N.eqb_refl. cbn [andb].
      destruct (N.eqb_spec (len body) 0); [lia|]. unfold params_next.
      destruct (nv_run (ibuf i ++ body)) as [ps rest]. reflexivity.
  - rewrite params_rcd_reply. reflexivity.
Qed.

Lemma run_end cap i pad : len pad < 256 -> bytes_ok pad -> r_id (ireq i) < 65536 ->
  len (snd (nv_run (ibuf i))) < cap ->
  run (rec_fits cap) (Params i 0 0) [params_rcd (r_id (ireq i)) [] pad] (Done (ireq i)) [].
Proof.
  intros Hp Hpo Hid Hfit.
  apply (run_out _ _ _ _ (reply_for maxc (InParams (r_id (ireq i))) (params_rcd (r_id (ireq i)) [] pad) ++ [])).
  - econstructor; [reflexivity| | | |constructor].
    + unfold rcd_ok, params_rcd, RT_Params. cbn [rt rid rbody rpad]. rewrite len_nil.
      repeat split; try lia; try assumption. constructor.
    + split; [intros E; discriminate E|]. intros i' E _ _ k. injection E as <-.
      cbn [params_rcd rbody]. rewrite take_nil, app_nil_r. exact Hfit.
    + unfold rec_step, params_rcd. cbv beta iota. cbn [rt rid rbody rpad].
      change (known_type RT_Params) with true. rt_consts. rewrite N.eqb_refl. reflexivity.
  - rewrite params_rcd_reply. reflexivity.
Qed.

(* ---- the Params stream across pieces ---- *)
Definition inner_at (rq0 : req) (X : bytes) : inner :=
  mkInner (env_extend norm rq0 (fst (nv_run X))) (snd (nv_run X)).

Lemma env_extend_app r a b : env_extend norm r (a ++ b) = env_extend norm (env_extend norm r a) b.
Proof. unfold env_extend. apply fold_left_app. Qed.

Lemma env_extend_id ps : forall r, r_id (env_extend norm r ps) = r_id r.
Proof.
  induction ps as [|p t IH]; intros r; [reflexivity|]. unfold env_extend in *. cbn [fold_left].
  rewrite IH. reflexivity.
Qed.

Lemma env_extend_log id role flags ps : forall env,
  env_extend norm (mkReq id role flags env) ps = mkReq id role flags (env ++ env_log norm ps).
Proof.
  induction ps as [|[n v] t IH]; intros env; unfold env_extend in *; cbn [fold_left].
  - rewrite app_nil_r. reflexivity.
  - change (env_insert norm (mkReq id role flags env) (fst (n, v)) (snd (n, v)))
      with (mkReq id role flags (env ++ [(norm n, v)])).
    rewrite IH. rewrite <- app_assoc. reflexivity.
Qed.

Lemma params_next_at rq0 X b : len (X ++ b) <= USIZE_MAX -> params_next (inner_at rq0 X) b = inner_at rq0 (X ++ b).
Proof.
  intros H. unfold params_next, inner_at. cbn [ireq ibuf]. rewrite (nv_run_app X b H).
  destruct (nv_run X) as [pa ra]. cbn [fst snd]. destruct (nv_run (ra ++ b)) as [pb rb]. cbn [fst snd].
  rewrite env_extend_app. reflexivity.
Qed.

Lemma nv_run_rest_app X b : len (X ++ b) <= USIZE_MAX -> snd (nv_run (snd (nv_run X) ++ b)) = snd (nv_run (X ++ b)).
Proof.
  intros H. rewrite (nv_run_app X b H). destruct (nv_run X) as [pa ra]. cbn [snd].
  destruct (nv_run (ra ++ b)) as [pb rb]. reflexivity.
Qed.

Lemma run_junk' cap i id rs : r_id (ireq i) = id -> Forall (params_junk_ok id) rs -> Forall (gv_fits cap) rs ->
  run (rec_fits cap) (Params i 0 0) rs (Params i 0 0) (flat_map (reply_for maxc (InParams id)) rs).
Proof. intros <-. apply run_junk. Qed.

Lemma run_piece_rcd' cap i id body pad : r_id (ireq i) = id ->
  0 < len body < 65536 -> len pad < 256 -> bytes_ok body -> bytes_ok pad -> id < 65536 ->
  (forall k, len (snd (nv_run (ibuf i ++ take k body))) < cap) ->
  run (rec_fits cap) (Params i 0 0) [params_rcd id body pad] (Params (params_next i body) 0 0) [].
Proof. intros <-. apply run_piece_rcd. Qed.

Lemma run_end' cap i id pad : r_id (ireq i) = id -> len pad < 256 -> bytes_ok pad -> id < 65536 ->
  len (snd (nv_run (ibuf i))) < cap ->
  run (rec_fits cap) (Params i 0 0) [params_rcd id [] pad] (Done (ireq i)) [].
Proof. intros <-. apply run_end. Qed.

Lemma inner_at_id rq0 X : r_id (ireq (inner_at rq0 X)) = r_id rq0.
Proof. unfold inner_at. cbn [ireq]. apply env_extend_id. Qed.

Lemma run_pieces cap rq0 P pairs :
  Forall pair_ok pairs -> Forall (pair_fits cap) pairs -> 0 < cap -> nv_write_all pairs = Some P ->
  len P <= USIZE_MAX -> r_id rq0 < 65536 ->
  forall pieces X Z, Forall (piece_ok (r_id rq0)) pieces ->
    Forall (fun p => Forall (gv_fits cap) (pjunk p)) pieces ->
    P = X ++ flat_map pbody pieces ++ Z ->
    run (rec_fits cap) (Params (inner_at rq0 X) 0 0) (flat_map (piece_rcds (r_id rq0)) pieces)
        (Params (inner_at rq0 (X ++ flat_map pbody pieces)) 0 0)
        (flat_map (fun p => flat_map (reply_for maxc (InParams (r_id rq0))) (pjunk p)) pieces).
Proof.
  intros Hpo Hpf Hc HP HPl Hid. induction pieces as [|p t IH]; intros X Z Hok Hgv HPe.
  - cbn [flat_map]. rewrite app_nil_r. constructor.
  - apply Forall_cons_iff in Hok as [Hp Hok']. apply Forall_cons_iff in Hgv as [Hg Hgv'].
    destruct Hp as (Hj & Hbl & Hpl & Hbo & Hpdo). cbn [flat_map] in *.
    assert (Hsz : len (X ++ pbody p) <= USIZE_MAX).
    { rewrite HPe in HPl. rewrite !len_app in *. lia. }
    unfold piece_rcds at 1. rewrite <- !app_assoc.
    eapply run_out.
    + eapply run_app; [apply (run_junk' cap _ (r_id rq0)); [apply inner_at_id|exact Hj|exact Hg]|].
      eapply (run_app _ _ [params_rcd (r_id rq0) (pbody p) (ppad p)]).
      * apply run_piece_rcd'; try assumption; [apply inner_at_id|].
        intros k. unfold inner_at. cbn [ibuf].
        assert (Hszk : len (X ++ take k (pbody p)) <= USIZE_MAX).
        { rewrite len_app in *. pose proof (len_take_le k (pbody p)). rewrite len_take in *. lia. }
        rewrite (nv_run_rest_app X _ Hszk).
        apply (nv_prefix_bound cap pairs Hpo Hpf Hc P (X ++ take k (pbody p))
                 (drop k (pbody p) ++ flat_map pbody t ++ Z) HP).
        rewrite HPe. rewrite <- !app_assoc. f_equal. rewrite <- (take_drop k (pbody p)) at 1.
        rewrite <- !app_assoc. reflexivity.
      * rewrite (params_next_at rq0 X (pbody p) Hsz). rewrite (app_assoc X (pbody p)).
        apply (IH (X ++ pbody p) Z Hok' Hgv'). rewrite HPe. rewrite <- !app_assoc. reflexivity.
    + cbn [app]. rewrite <- ?app_assoc. reflexivity.
Qed.

Lemma preamble_rcds_eq w :
  preamble_rcds w =
    w_idle w ++ [begin_rcd (w_id w) (w_role w) (w_flags w) (w_beginpad w)]
    ++ flat_map (piece_rcds (w_id w)) (w_pieces w)
    ++ w_endjunk w ++ [params_rcd (w_id w) [] (w_endpad w)].
Proof. reflexivity. Qed.

Lemma preamble_run cap w pairs :
  0 < cap -> preamble_ok w -> Forall pair_ok pairs -> nv_write_all pairs = Some (preamble_payload w) ->
  Forall (pair_fits cap) pairs -> preamble_fits cap w -> len (preamble_payload w) <= USIZE_MAX ->
  run (rec_fits cap) Header (preamble_rcds w)
      (Done (mkReq (w_id w) (w_role w) (w_flags w) (env_log norm pairs))) (preamble_replies maxc w).
Proof.
  intros Hc (Hidle & Hid & Hrole & Hfl & Hbp & Hbpo & Hpcs & Hej & Hep & Hepo) Hpo HP Hpf (Hg1 & Hg2 & Hg3) HPl.
  set (rq0 := mkReq (w_id w) (w_role w) (w_flags w) []).
  assert (Ei0 : inner_at rq0 [] = mkInner rq0 []) by reflexivity.
  assert (Eend : inner_at rq0 ([] ++ flat_map pbody (w_pieces w))
                 = mkInner (mkReq (w_id w) (w_role w) (w_flags w) (env_log norm pairs)) []).
  { cbn [app]. change (flat_map pbody (w_pieces w)) with (preamble_payload w). unfold inner_at. rewrite (nv_roundtrip pairs Hpo _ HP). cbn [fst snd].
    unfold rq0. rewrite env_extend_log. reflexivity. }
  assert (Hrun := run_pieces cap rq0 (preamble_payload w) pairs Hpo Hpf Hc HP HPl).
  specialize (Hrun ltac:(cbn [rq0 r_id]; lia) (w_pieces w) [] [] Hpcs Hg2).
  specialize (Hrun ltac:(rewrite app_nil_r; reflexivity)). rewrite Ei0, Eend in Hrun. cbn [rq0 r_id] in Hrun.
  rewrite preamble_rcds_eq. eapply run_out.
  - eapply run_app; [apply run_idle; eassumption|].
    eapply run_app; [apply run_begin; eassumption|].
    eapply run_app; [exact Hrun|].
    eapply run_app.
    { apply (run_junk' cap _ (w_id w)); [reflexivity|exact Hej|exact Hg3]. }
    assert (Ed : Done (mkReq (w_id w) (w_role w) (w_flags w) (env_log norm pairs))
                 = Done (ireq (mkInner (mkReq (w_id w) (w_role w) (w_flags w) (env_log norm pairs)) [])))
      by reflexivity.
    rewrite Ed. apply run_end'; [reflexivity|assumption|assumption|lia|exact Hc].
  - unfold preamble_replies. cbn [app rq0 r_id]. rewrite !app_nil_r. reflexivity.
Qed.

Lemma len_pieces_le id pieces : len (flat_map pbody pieces) <= len (enc_rcds (flat_map (piece_rcds id) pieces)).
Proof.
  induction pieces as [|p t IH]; [cbn; lia|]. cbn [flat_map]. rewrite enc_rcds_app. unfold piece_rcds at 1.
  rewrite enc_rcds_app. cbn [enc_rcds flat_map]. rewrite !len_app, len_enc_rcd. cbn [rbody]. lia.
Qed.

Lemma len_payload_le w : len (preamble_payload w) <= len (enc_rcds (preamble_rcds w)).
Proof.
  unfold preamble_payload, preamble_rcds. rewrite !enc_rcds_app, !len_app.
  pose proof (len_pieces_le (w_id w) (w_pieces w)). lia.
Qed.

(* ---- the byte-at-a-time schedule ---- *)
Lemma run_sched_cons f p wire c l out :
  run_sched norm maxc (S f) p wire (c :: l) out =
    let n := N.min c (N.min (input_space p) (len wire)) in
    match parse norm maxc p (take n wire) with
    | PPanic _ => SPanic
    | POk p' done o =>
      if done then SOk p' true (drop n wire) (out ++ o)
      else run_sched norm maxc f p' (drop n wire) l (out ++ o)
    end.
Proof. reflexivity. Qed.

Lemma parse_step_from_header p w1 b out rest s1 o1 :
  parser_ok p -> byte_ok b -> bytes_ok w1 -> len (w1 ++ [b]) < SIZE_LIMIT -> len (held p) < cap p ->
  drive_all norm maxc Header w1 = DOk (held p) (st p) out ->
  drive_all norm maxc Header (w1 ++ [b]) = DOk rest s1 o1 ->
  (is_final s1 = true \/ len rest < cap p) ->
  exists o2, o1 = out ++ o2 /\
             parse norm maxc p [b] = POk (mkParser (cap p) rest s1) (is_final s1) o2 /\
             parser_ok (mkParser (cap p) rest s1).
Proof.
  intros Hp Hb Hw1 Hsz Hsp Hd1 Hd2 Hfs.
  assert (Hb1 : bytes_ok [b]) by (constructor; [exact Hb|constructor]).
  assert (Hl1 : len [b] = 1) by reflexivity.
  destruct (HPT p [b] Hp Hb1) as (p' & d & o & Hparse & Hok' & _).
  { unfold input_space. rewrite Hl1. lia. }
  rewrite HA in Hd2; try assumption; try exact I; [|discriminate]. rewrite Hd1 in Hd2.
  unfold parse in Hparse |- *.
  destruct (N.ltb_spec (cap p - len (held p)) (len [b])) as [H|_]; [rewrite Hl1 in H; lia|].
  destruct (drive_all norm maxc (st p) (held p ++ [b])) as [r2 s2 o2| |]; try discriminate.
  injection Hd2 as -> -> <-. exists o2. split; [reflexivity|].
  destruct (len (held p ++ [b]) <? len rest); [discriminate|].
  assert (E : negb (is_final s1) && (len rest =? cap p) = false).
  { destruct Hfs as [Hf|Hl]; [rewrite Hf; reflexivity|].
    destruct (N.eqb_spec (len rest) (cap p)); [lia|]. apply andb_false_r. }
  rewrite E in *. injection Hparse as <- _ _. split; [reflexivity|exact Hok'].
Qed.

Lemma take1_cons {A} (b : A) l : take 1 (b :: l) = [b].
Proof. reflexivity. Qed.
Lemma drop1_cons {A} (b : A) l : drop 1 (b :: l) = l.
Proof. reflexivity. Qed.

Lemma ones_run W T c rq replies :
  bytes_ok W -> len (W ++ T) < SIZE_LIMIT ->
  (forall w1 w2, W = w1 ++ w2 -> w2 <> [] ->
     exists rest s1 o1, drive_all norm maxc Header w1 = DOk rest s1 o1 /\ len rest < c /\ is_final s1 = false) ->
  drive_all norm maxc Header W = DOk [] (Done rq) replies ->
  forall w2 w1 p out fuel m, W = w1 ++ w2 -> w2 <> [] -> parser_ok p -> cap p = c ->
    drive_all norm maxc Header w1 = DOk (held p) (st p) out ->
    (length w2 < fuel)%nat -> (length w2 <= m)%nat ->
    run_sched norm maxc fuel p (w2 ++ T) (repeat 1 m) out = SOk (mkParser c [] (Done rq)) true T replies.
Proof.
  intros HW Hsz F1 F2. induction w2 as [|b w2' IH]; intros w1 p out fuel m EW Hne Hp Hc Hd Hfu Hm; [congruence|].
  destruct fuel as [|f]; [cbn in Hfu; lia|]. destruct m as [|m']; [cbn in Hm; lia|].
  cbn [repeat length] in *. rewrite run_sched_cons. cbv zeta.
  destruct (F1 w1 (b :: w2') EW Hne) as (rest0 & s0 & o0 & Hd0 & Hl0 & _).
  rewrite Hd in Hd0. injection Hd0 as <- _ _.
  assert (Hn : N.min 1 (N.min (input_space p) (len ((b :: w2') ++ T))) = 1).
  { unfold input_space. rewrite len_app, len_cons. lia. }
  rewrite Hn. cbn [app]. rewrite take1_cons, drop1_cons.
  assert (HW' : bytes_ok w1 /\ bytes_ok (b :: w2')) by (apply bytes_ok_app; rewrite <- EW; exact HW).
  destruct HW' as [Hw1 Hw2]. inversion Hw2 as [|? ? Hb Hw2']; subst.
  assert (EW' : w1 ++ b :: w2' = (w1 ++ [b]) ++ w2') by (rewrite <- app_assoc; reflexivity).
  assert (Hsz1 : len (w1 ++ [b]) < SIZE_LIMIT).
  { rewrite EW', !len_app in Hsz. rewrite len_app. lia. }
  destruct w2' as [|b2 w2''].
  -     destruct (parse_step_from_header p w1 b out [] (Done rq) replies Hp Hb Hw1 Hsz1 ltac:(lia) Hd F2)
      as (o2 & Eo & Hparse & _); [left; reflexivity|].
    rewrite Hparse. cbn [is_final]. rewrite <- Eo. reflexivity.
  - destruct (F1 (w1 ++ [b]) (b2 :: w2'') EW' ltac:(discriminate)) as (rest & s1 & o1 & Hd1 & Hl1 & Hf1).
    destruct (parse_step_from_header p w1 b out rest s1 o1 Hp Hb Hw1 Hsz1 ltac:(lia) Hd Hd1)
      as (o2 & Eo & Hparse & Hok'); [right; lia|].
    rewrite Hparse, Hf1. 
    apply (IH (w1 ++ [b]) (mkParser (cap p) rest s1) (out ++ o2) f m'); try assumption; try reflexivity.
    + discriminate.
    + cbn [held st]. rewrite <- Eo. exact Hd1.
    + cbn [length] in *. lia.
    + cbn [length] in *. lia.
Qed.

Lemma aligned_bufsize_bounds B : B < SIZE_LIMIT - 8 -> 24 <= aligned_bufsize B < SIZE_LIMIT.
Proof.
  unfold aligned_bufsize, MIN_BUF_SIZE, USIZE_MAX64, ALIGN_ADD, ALIGN_MASK, SIZE_LIMIT. intros H.
  destruct (N.leb_spec B 24); [lia|]. destruct (N.ltb_spec 18446744073709551615 (B + 7)); lia.
Qed.

Lemma new_parser_ok B : B < SIZE_LIMIT - 8 -> parser_ok (new_parser B).
Proof.
  intros H. pose proof (aligned_bufsize_bounds B H). unfold parser_ok, new_parser. cbn [st held cap].
  repeat split; try exact I; try lia. constructor. rewrite len_nil. lia.
Qed.

Lemma preamble_rcds_ne w : preamble_rcds w <> [].
Proof. unfold preamble_rcds. destruct (w_idle w); discriminate. Qed.

Lemma preamble_exact : preamble_exact_stmt norm maxc.
Proof.
  intros B w pairs trailing sched HB Hok Hpo HP Hpf Hfits Htr Hsz.
  set (c := aligned_bufsize B) in *. set (W := enc_rcds (preamble_rcds w)) in *.
  set (rq := mkReq (w_id w) (w_role w) (w_flags w) (env_log norm pairs)).
  pose proof (aligned_bufsize_bounds B HB) as Hc. fold c in Hc.
  rewrite len_app in Hsz.
  assert (HPl : len (preamble_payload w) <= USIZE_MAX).
  { pose proof (len_payload_le w). fold W in H. apply small_usize. lia. }
  pose proof (preamble_run c w pairs ltac:(lia) Hok Hpo HP Hpf Hfits HPl) as Hrun. fold rq in Hrun.
  assert (HWok : bytes_ok W) by (apply bytes_ok_enc_rcds; apply (run_rcd_ok _ _ _ _ _ Hrun)).
  (* the whole preamble *)
  destruct (run_drive _ _ _ _ _ Hrun (preamble_rcds_ne w) Header I eq_refl) as (s2 & F2 & _ & _ & _ & Es2).
  { cbn [sbuf]. fold W. lia. }
  specialize (Es2 eq_refl). subst s2. fold W in F2.
  (* every proper prefix *)
  assert (F1 : forall w1 w2, W = w1 ++ w2 -> w2 <> [] ->
     exists rest s1 o1, drive_all norm maxc Header w1 = DOk rest s1 o1 /\ len rest < c /\ is_final s1 = false).
  { intros w1 w2 EW Hne.
    pose proof (run_prefix c _ _ _ _ (proj1 Hc) Hrun Header I eq_refl) as Hp. fold W in Hp.
    specialize (Hp ltac:(cbn [sbuf]; lia) (len w1)).
    rewrite EW in Hp. rewrite take_len_app in Hp. apply Hp. rewrite len_app.
    pose proof (ne_len_pos w2 Hne). lia. }
  (* the byte-at-a-time schedule *)
  assert (Hones : run_schedule norm maxc (new_parser B) (W ++ trailing) (repeat 1 (length W))
                  = SOk (mkParser c [] (Done rq)) true trailing (preamble_replies maxc w)).
  { unfold run_schedule.
    apply (ones_run W trailing c rq (preamble_replies maxc w) HWok ltac:(rewrite len_app; lia) F1 F2 W []).
    - reflexivity.
    - apply enc_rcds_ne. apply preamble_rcds_ne.
    - apply new_parser_ok; exact HB.
    - reflexivity.
    - reflexivity.
    - unfold sched_fuel. rewrite app_length, repeat_length. lia.
    - lia. }
  assert (Hwire : bytes_ok (W ++ trailing)) by (apply bytes_ok_app; split; assumption).
  assert (Hwl : len (W ++ trailing) < SIZE_LIMIT) by (rewrite len_app; lia).
  destruct (HST B (W ++ trailing) sched HB Hwire Hwl) as (p & d & u & o & Hs & _).
  destruct (HSI B (W ++ trailing) _ _ _ _ _ _ _ _ _ _ HB Hwire Hwl Hones Hs) as (Ed & _ & Est & Eo & Eh).
  subst d o. exists p, u. split; [exact Hs|]. split; [symmetry; apply Est; reflexivity|].
  rewrite <- Eh. reflexivity.
Qed.

(* ---- item 4: the environment log, looked up (HashMap semantics: the last insertion wins) ---- *)
Lemma find_app' {A} (f : A -> bool) a b :
  find f (a ++ b) = match find f a with Some x => Some x | None => find f b end.
Proof. induction a as [|x a IH]; [reflexivity|]. cbn [app find]. destruct (f x); [reflexivity|exact IH]. Qed.

Lemma find_map' {A B} (f : B -> bool) (g : A -> B) l :
  find f (map g l) = option_map g (find (fun x => f (g x)) l).
Proof. induction l as [|x l IH]; [reflexivity|]. cbn [map find]. destruct (f (g x)); [reflexivity|exact IH]. Qed.

Lemma env_lookup_rev k log :
  env_lookup k log = option_map snd (find (fun e => beq k (fst e)) (rev log)).
Proof.
  induction log as [|[k' v] t IH]; [reflexivity|]. cbn [env_lookup rev]. rewrite find_app', IH.
  destruct (find (fun e => beq k (fst e)) (rev t)) as [e|]; [reflexivity|]. cbn [option_map find fst].
  destruct (beq k k'); reflexivity.
Qed.

Lemma env_lookup_last k pairs :
  env_lookup (norm k) (env_log norm pairs) =
    option_map snd (find (fun p => beq (norm k) (norm (fst p))) (rev pairs)).
Proof.
  rewrite env_lookup_rev. unfold env_log. rewrite <- map_rev, find_map'. cbn [fst].
  destruct (find (fun x => beq (norm k) (norm (fst x))) (rev pairs)) as [p|]; reflexivity.
Qed.

Lemma env_lookup_none k pairs :
  env_lookup (norm k) (env_log norm pairs) = None <-> (forall p, In p pairs -> norm (fst p) <> norm k).
Proof.
  rewrite env_lookup_last. split.
  - intros H p Hin E.
    destruct (find (fun p => beq (norm k) (norm (fst p))) (rev pairs)) as [q|] eqn:Ef; [discriminate|].
    pose proof (find_none _ _ Ef p ltac:(apply in_rev; rewrite rev_involutive; exact Hin)) as Hn.
    cbv beta in Hn. rewrite E in Hn. assert (beq (norm k) (norm k) = true) by (apply beq_eq; reflexivity). congruence.
  - intros H. destruct (find (fun p => beq (norm k) (norm (fst p))) (rev pairs)) as [q|] eqn:Ef; [|reflexivity].
    apply find_some in Ef as [Hin Hb]. apply beq_eq in Hb. exfalso. apply (H q); [apply in_rev; exact Hin|congruence].
Qed.

End Records.

(* rec_step_stmt is false as stated: an empty, unpadded GetValues record leaves the parser in the
   unsettled state HeaderValues 0 0 0 (= Header up to [settle]) *)
Lemma rec_step_stmt_counterexample : ~ rec_step_stmt (fun b => b) 5.
Proof.
  intros H. specialize (H Header (mkRcd RT_GetValues 0 [] []) Idle I I eq_refl).
  assert (Hr : rcd_ok (mkRcd RT_GetValues 0 [] [])).
  { unfold rcd_ok, RT_GetValues. cbn [rt rid rbody rpad]. repeat split; try (vm_compute; reflexivity); constructor. }
  specialize (H Hr ltac:(vm_compute; reflexivity)). vm_compute in H. destruct H as [H _]. discriminate H.
Qed.

Check rec_step_settle.
Check rec_step_ok_but_gv_empty.
Check run_drive.
Check run_drive_done.
Check run_prefix.
Check preamble_exact.
Check env_lookup_last.
Print Assumptions rec_step_settle.
Print Assumptions rec_step_ok_but_gv_empty.
Print Assumptions run_drive.
Print Assumptions run_drive_done.
Print Assumptions run_prefix.
Print Assumptions preamble_exact.
Print Assumptions env_lookup_last.
Print Assumptions env_lookup_none.
Print Assumptions rec_step_stmt_counterexample.
