(* Parser/ReqRecords.v — record-level theorems about the request parser, on top of the
   ParamsStateInner statements S1-S4 (ReqParamsSpec.v) and the state-machine statements
   (ReqTargets.v), which are assumed here as Section hypotheses. *)
From Coq Require Import ZArith.
From FV Require Import Base.Bytes Base.BytesLemmas Gen.Generated Codec.Varint Codec.VarintProofs Codec.NV
  Codec.NVProofs Codec.Header Codec.Bodies Codec.Vars Codec.ProtoProofs
  Parser.ReqModel Parser.ReqParamsSpec Parser.ReqWire Parser.ReqTargets.
From Coq Require Import ZifyBool ZifyNat ZifyN.
Ltac Zify.zify_post_hook ::= Z.div_mod_to_equations.

(* ================= helpers independent of the section ================= *)

(* ---- the header of an encoded record ---- *)
Definition hdr8 (r : rcd) : bytes :=
  b8 1 (rt r) (rid r / 256 mod 256) (rid r mod 256)
     (len (rbody r) / 256 mod 256) (len (rbody r) mod 256) (len (rpad r)) 0.

Lemma enc_rcd_eq r : enc_rcd r = hdr8 r ++ rbody r ++ rpad r.
Proof. reflexivity. Qed.

Lemma len_hdr8 r : len (hdr8 r) = 8.
Proof. reflexivity. Qed.

Lemma len_enc_rcd r : len (enc_rcd r) = 8 + len (rbody r) + len (rpad r).
Proof. rewrite enc_rcd_eq, !len_app, len_hdr8. lia. Qed.

Lemma take8_hdr8 r rest : take HEADER_LEN (hdr8 r ++ rest) = hdr8 r.
Proof. change HEADER_LEN with (len (hdr8 r)). apply take_len_app. Qed.

Lemma drop8_hdr8 r rest : drop HEADER_LEN (hdr8 r ++ rest) = rest.
Proof. change HEADER_LEN with (len (hdr8 r)). apply drop_len_app. Qed.

Lemma bytes_ok_hdr8 r : rcd_ok r -> bytes_ok (hdr8 r).
Proof.
  intros (Ht & Hi & Hb & Hp & _). unfold hdr8, b8, bytes_ok, byte_ok. repeat constructor; lia.
Qed.

Lemma bytes_ok_enc_rcd r : rcd_ok r -> bytes_ok (enc_rcd r).
Proof.
  intros H. rewrite enc_rcd_eq. apply bytes_ok_app; split; [apply bytes_ok_hdr8; exact H|].
  destruct H as (_ & _ & _ & _ & Hb & Hp). apply bytes_ok_app; split; assumption.
Qed.

Lemma hdr_decode_hdr8 r : rcd_ok r ->
  hdr_decode (hdr8 r) =
    if known_type (rt r) then HOk (rt r) (rid r) (len (rbody r)) (len (rpad r)) else HBadType (rt r).
Proof.
  intros (Ht & Hi & Hb & Hp & _). unfold hdr8. rewrite hdr_decode_spec by lia.
  rewrite known_type_range. change (1 =? 1) with true. cbn [negb].
  destruct ((1 <=? rt r) && (rt r <=? 11)); cbn [negb]; [|reflexivity].
  rewrite !be16_to_be16 by assumption. reflexivity.
Qed.

Lemma hdr8_fields r : rcd_ok r ->
  be16 (nthN (hdr8 r) 2) (nthN (hdr8 r) 3) = rid r /\
  be16 (nthN (hdr8 r) 4) (nthN (hdr8 r) 5) = len (rbody r) /\
  nthN (hdr8 r) 6 = len (rpad r).
Proof.
  intros (Ht & Hi & Hb & Hp & _). unfold hdr8, b8. nthN_red.
  rewrite !be16_to_be16 by assumption. repeat split.
Qed.

(* the resting-state normalisation (to be hoisted into ReqTargets.v): a values/skip state with nothing
   left to read behaves exactly like its successor state *)
Definition settle (s : state) : state :=
  match s with
  | HeaderValues _ 0 0 => Header
  | ParamsValues i _ 0 0 => Params i 0 0
  | HeaderSkip 0 0 => Header
  | ParamsSkip i 0 0 => Params i 0 0
  | DoneSkip r 0 0 => Done r
  | _ => s
  end.

Section Records.
Variable norm : bytes -> bytes.
Variable maxc : N.

(* A_stmt holds only for d2 <> [] (for d2 = [] the loop may stop one unsettled state early) *)
Definition A_ne_stmt : Prop := forall s d1 d2,
  state_ok s -> state_small s -> bytes_ok d1 -> bytes_ok d2 -> d2 <> [] -> len (d1 ++ d2) < SIZE_LIMIT ->
  drive_all norm maxc s (d1 ++ d2) =
    match drive_all norm maxc s d1 with
    | DOk r1 s1 o1 =>
      match drive_all norm maxc s1 (r1 ++ d2) with
      | DOk r2 s2 o2 => DOk r2 s2 (o1 ++ o2)
      | x => x
      end
    | x => x
    end.

(* chunking invariance up to settling; the final state itself when done *)
Definition sched_invariant_settle_stmt : Prop := forall B wire s1 s2 p1 d1 u1 o1 p2 d2 u2 o2,
  B < SIZE_LIMIT - 8 -> bytes_ok wire -> len wire < SIZE_LIMIT ->
  run_schedule norm maxc (new_parser B) wire s1 = SOk p1 d1 u1 o1 ->
  run_schedule norm maxc (new_parser B) wire s2 = SOk p2 d2 u2 o2 ->
  d1 = d2 /\ settle (st p1) = settle (st p2) /\ (d1 = true -> st p1 = st p2) /\ o1 = o2 /\
  held p1 ++ u1 = held p2 ++ u2.

Hypothesis HS1 : S1_stmt norm.
Hypothesis HS2 : S2_stmt norm.
Hypothesis HS4 : S4_stmt norm.
Hypothesis HA : A_ne_stmt.
Hypothesis HDT : drive_total_stmt norm maxc.
Hypothesis HST : sched_total_stmt norm maxc.
Hypothesis HSI : sched_invariant_settle_stmt.

Lemma try_head_known self skip r rest : rcd_ok r -> known_type (rt r) = true ->
  try_head self skip (hdr8 r ++ rest) = HeadOk (rt r) (rid r) (len (rbody r)) (len (rpad r)).
Proof.
  intros Hr Hk. unfold try_head.
  destruct (N.ltb_spec (len (hdr8 r ++ rest)) HEADER_LEN) as [H|_].
  { rewrite len_app, len_hdr8 in H. unfold HEADER_LEN in H. lia. }
  rewrite take8_hdr8, hdr_decode_hdr8 by exact Hr. rewrite Hk. reflexivity.
Qed.

Lemma try_head_unknown self skip r rest : rcd_ok r -> known_type (rt r) = false ->
  try_head self skip (hdr8 r ++ rest) =
    HeadRet (Continue rest (skip (len (rbody r)) (len (rpad r)))) (unk_record (rt r) (rid r)).
Proof.
  intros Hr Hk. unfold try_head.
  destruct (N.ltb_spec (len (hdr8 r ++ rest)) HEADER_LEN) as [H|_].
  { rewrite len_app, len_hdr8 in H. unfold HEADER_LEN in H. lia. }
  rewrite take8_hdr8, drop8_hdr8, hdr_decode_hdr8 by exact Hr. rewrite Hk.
  destruct (hdr8_fields r Hr) as (-> & -> & ->). reflexivity.
Qed.


Lemma gv_cond t id : (t =? RT_GetValues) && hdr_is_management t id = (t =? RT_GetValues) && (id =? 0).
Proof. destruct (N.eqb_spec t RT_GetValues) as [->|]; reflexivity. Qed.

(* ---- HeaderState::drive on a complete header followed by anything ---- *)
Lemma header_drive_unknown r rest : rcd_ok r -> known_type (rt r) = false ->
  header_drive (hdr8 r ++ rest) =
    (Continue rest (header_skip_to (len (rbody r)) (len (rpad r))), unk_record (rt r) (rid r)).
Proof. intros Hr Hk. unfold header_drive. rewrite try_head_unknown by assumption. reflexivity. Qed.

Lemma header_drive_other r rest : rcd_ok r -> known_type (rt r) = true -> rt r <> RT_BeginRequest ->
  header_drive (hdr8 r ++ rest) =
    if (rt r =? RT_GetValues) && (rid r =? 0)
    then (Continue rest (HeaderValues 0 (len (rbody r)) (len (rpad r))), [])
    else (Continue rest (header_skip_to (len (rbody r)) (len (rpad r))), []).
Proof.
  intros Hr Hk Hb. unfold header_drive. rewrite try_head_known by assumption.
  destruct (N.eqb_spec (rt r) RT_BeginRequest) as [E|_]; [contradiction|].
  rewrite gv_cond, drop8_hdr8. reflexivity.
Qed.

Lemma header_drive_begin_badlen r rest : rcd_ok r -> rt r = RT_BeginRequest -> len (rbody r) <> 8 ->
  header_drive (hdr8 r ++ rest) = (Break (hdr8 r ++ rest) (Fatal (EInvalidRequestLen (len (rbody r)))), []).
Proof.
  intros Hr Hb Hl. unfold header_drive. rewrite try_head_known by (try rewrite Hb; trivial).
  rewrite Hb. change (RT_BeginRequest =? RT_BeginRequest) with true. cbn iota.
  unfold BeginRequest_LEN. destruct (N.eqb_spec 8 (len (rbody r))) as [E|_]; [congruence|]. reflexivity.
Qed.

Lemma header_drive_begin r rest : rcd_ok r -> rt r = RT_BeginRequest -> len (rbody r) = 8 ->
  header_drive (hdr8 r ++ rbody r ++ rest) =
    match begin_decode (rbody r) with
    | (_, None) => (Continue rest (header_skip_to 0 (len (rpad r))), end_record 0 PS_UnknownRole (rid r))
    | (_, Some (role, flags)) =>
      if rid r =? 0 then (Break rest (Fatal ENullRequest), [])
      else (Continue rest (Params (mkInner (mkReq (rid r) role flags []) []) 0 (len (rpad r))), [])
    end.
Proof.
  intros Hr Hb Hl. unfold header_drive. rewrite try_head_known by (try rewrite Hb; trivial).
  rewrite Hb. change (RT_BeginRequest =? RT_BeginRequest) with true. cbn iota.
  rewrite Hl. change (negb (BeginRequest_LEN =? 8)) with false. cbn iota.
  destruct (N.ltb_spec (len (hdr8 r ++ rbody r ++ rest)) (HEADER_LEN + BeginRequest_LEN)) as [H|_].
  { rewrite !len_app, len_hdr8, Hl in H. unfold HEADER_LEN, BeginRequest_LEN in H. lia. }
  assert (Hs : slice HEADER_LEN (HEADER_LEN + BeginRequest_LEN) (hdr8 r ++ rbody r ++ rest) = rbody r).
  { unfold slice. rewrite drop8_hdr8. replace (HEADER_LEN + BeginRequest_LEN - HEADER_LEN) with (len (rbody r))
      by (rewrite Hl; reflexivity). apply take_len_app. }
  assert (Hd : drop (HEADER_LEN + BeginRequest_LEN) (hdr8 r ++ rbody r ++ rest) = rest).
  { rewrite app_assoc. replace (HEADER_LEN + BeginRequest_LEN) with (len (hdr8 r ++ rbody r))
      by (rewrite len_app, len_hdr8, Hl; reflexivity). apply drop_len_app. }
  rewrite Hs, Hd. reflexivity.
Qed.

(* ---- ParamsState::drive, stage by stage ---- *)
Definition p_head (i : inner) (data : bytes) : flow * bytes :=
  match try_head (Params i 0 0) (params_skip_to i) data with
  | HeadRet f o => (f, o)
  | HeadOk t id cl pl =>
    let data' := drop HEADER_LEN data in
    let rid := r_id (ireq i) in
    if (t =? RT_Params) && (id =? rid) then
      if cl =? 0 then (Continue data' (into_skip (DoneSkip (ireq i)) (Done (ireq i)) 0 pl), [])
      else (Continue data' (Params i cl pl), [])
    else if (t =? RT_AbortRequest) && (id =? rid) then
      (Continue data' (header_skip_to cl pl), end_record 0 PS_RequestComplete rid)
    else if (t =? RT_BeginRequest) && negb (id =? rid) then
      (Continue data' (params_skip_to i cl pl), end_record 0 PS_CantMpxConn id)
    else if (t =? RT_GetValues) && hdr_is_management t id then
      (Continue data' (ParamsValues i 0 cl pl), [])
    else (Continue data' (params_skip_to i cl pl), [])
  end.

Definition p_pad (i : inner) (q : N) (data : bytes) : flow * bytes :=
  if 0 <? q then
    if len data <=? q then (Break [] (Params i 0 (q - len data)), [])
    else p_head i (drop q data)
  else p_head i data.

Lemma params_drive_eq i p q data :
  params_drive norm i p q data =
    if 0 <? p then
      if len data <? p then
        match parse_stream norm i data false with
        | None => (PANIC 1, [])
        | Some (i', consumed) =>
          if p <? consumed then (PANIC 2, [])
          else if len data <? consumed then (PANIC 3, [])
          else (Break (drop consumed data) (Params i' (p - consumed) q), [])
        end
      else
        match parse_stream norm i (take p data) true with
        | None => (PANIC 1, [])
        | Some (i', consumed) =>
          if negb (consumed =? p) then (PANIC 4, [])
          else p_pad i' q (drop p data)
        end
    else p_pad i q data.
Proof. reflexivity. Qed.

Lemma params_drive_00 i data : params_drive norm i 0 0 data = p_head i data.
Proof. reflexivity. Qed.

Lemma p_head_short i data : len data < 8 -> p_head i data = (Break data (Params i 0 0), []).
Proof.
  intros H. unfold p_head, try_head, HEADER_LEN. destruct (N.ltb_spec (len data) 8); [reflexivity|lia].
Qed.

Lemma p_head_unknown i r rest : rcd_ok r -> known_type (rt r) = false ->
  p_head i (hdr8 r ++ rest) =
    (Continue rest (params_skip_to i (len (rbody r)) (len (rpad r))), unk_record (rt r) (rid r)).
Proof. intros Hr Hk. unfold p_head. rewrite try_head_unknown by assumption. reflexivity. Qed.

Lemma p_head_known i r rest : rcd_ok r -> known_type (rt r) = true ->
  p_head i (hdr8 r ++ rest) =
    let id0 := r_id (ireq i) in let cl := len (rbody r) in let pl := len (rpad r) in
    if (rt r =? RT_Params) && (rid r =? id0) then
      if cl =? 0 then (Continue rest (into_skip (DoneSkip (ireq i)) (Done (ireq i)) 0 pl), [])
      else (Continue rest (Params i cl pl), [])
    else if (rt r =? RT_AbortRequest) && (rid r =? id0) then
      (Continue rest (header_skip_to cl pl), end_record 0 PS_RequestComplete id0)
    else if (rt r =? RT_BeginRequest) && negb (rid r =? id0) then
      (Continue rest (params_skip_to i cl pl), end_record 0 PS_CantMpxConn (rid r))
    else if (rt r =? RT_GetValues) && (rid r =? 0) then
      (Continue rest (ParamsValues i 0 cl pl), [])
    else (Continue rest (params_skip_to i cl pl), []).
Proof.
  intros Hr Hk. unfold p_head. rewrite try_head_known by assumption.
  rewrite gv_cond, drop8_hdr8. reflexivity.
Qed.

End Records.
