(* Parser/StreamModel.v — index-level model of src/parser/stream.rs (stream::Parser).
   No proofs here.  The shared buffer is a list of length B with the four cursors of the code:
       [gap] | <parsed> | [gap] | <raw> | <free>
   Debug-profile semantics: every assert!/debug_assert!/slice panic is the result [StPanic]. *)
From FV Require Import Base.Bytes Gen.Generated Codec.Varint Codec.NV Codec.Header Codec.Bodies Codec.Vars
  Parser.ReqModel.

Inductive sstate := SStream | SSkip | SValues (vars : N).

Record sp := mkSp {
  buffer : bytes;
  parsed_start : N; gap_start : N; raw_start : N; free_start : N;
  output : bytes; output_start : N;
  sreq : req;
  stream : option N;
  payload_rem : N; padding_rem : N;
  sst : sstate
}.

(* Ordering of cmp_input_streams *)
Inductive ord := Lt | Eq | Gt.

(* cmp_input_streams, stream.rs:57-84.  None = a debug_assert! fired. *)
Definition cmp_input_streams (role recv : N) (exp : option N) : option ord :=
  match exp with
  | None => Some Lt
  | Some e =>
    if negb (is_input_stream recv) || negb (is_input_stream e) then None
    else if recv =? e then Some Eq
    else
      let fix go (l : list N) (pos : ord) : ord :=
        match l with
        | [] => Lt
        | s :: t => if s =? recv then pos else if s =? e then go t Gt else go t pos
        end in
      Some (go (role_input_streams role) Lt)
  end.

(* buffer.copy_within(a..b, dst) *)
Definition copy_within (buf : bytes) (a b dst : N) : bytes :=
  take dst buf ++ slice a b buf ++ drop (dst + (b - a)) buf.

(* writing `new` at offset `at` (what the caller does through input_buffer()) *)
Definition write_at (buf : bytes) (pos : N) (new : bytes) : bytes :=
  take pos buf ++ new ++ drop (pos + len new) buf.

Definition upd_idx (p : sp) (b : bytes) (ps gs rs fs : N) : sp :=
  mkSp b ps gs rs fs (output p) (output_start p) (sreq p) (stream p) (payload_rem p) (padding_rem p) (sst p).

Definition invars_ok (p : sp) : bool :=
  (parsed_start p <=? gap_start p) && (gap_start p <=? raw_start p) && (raw_start p <=? free_start p)
  && (free_start p <=? len (buffer p)) && (output_start p <=? len (output p)).

(* Parser::stream_buffer / output_buffer / input_buffer().len() / is_record_boundary / active_stream *)
Definition stream_buffer (p : sp) : bytes := slice (parsed_start p) (gap_start p) (buffer p).
Definition output_buffer (p : sp) : bytes := drop (output_start p) (output p).
Definition sinput_space (p : sp) : N := len (buffer p) - free_start p.
Definition is_record_boundary (p : sp) : bool := (payload_rem p =? 0) && (padding_rem p =? 0).
Definition raw_bytes (p : sp) : bytes := slice (raw_start p) (free_start p) (buffer p).

(* Parser::compress, stream.rs:273-289 *)
Definition compress (p : sp) : sp :=
  let b1 := if (0 <? parsed_start p) && (parsed_start p <? gap_start p)
            then copy_within (buffer p) (parsed_start p) (gap_start p) 0 else buffer p in
  let gs := gap_start p - parsed_start p in
  let b2 := if (gs <? raw_start p) && (raw_start p <? free_start p)
            then copy_within b1 (raw_start p) (free_start p) gs else b1 in
  upd_idx p b2 0 gs gs (free_start p - (raw_start p - gs)).

(* Parser::consume_stream, stream.rs:232-236 *)
Definition consume_stream (p : sp) (amt : N) : sp :=
  let parsed_len := gap_start p - parsed_start p in
  upd_idx p (buffer p) (parsed_start p + N.min amt parsed_len) (gap_start p) (raw_start p) (free_start p).

(* Parser::discard_stream, stream.rs:240-245 (the debug_assert_eq!(raw_start, 0) always holds
   because compress sets raw_start := gap_start - parsed_start = 0) *)
Definition discard_stream (p : sp) : sp :=
  compress (upd_idx p (buffer p) 0 0 (raw_start p) (free_start p)).

(* Parser::consume_output, stream.rs:304-313 *)
Definition consume_output (p : sp) (amt : N) : sp :=
  let output_len := len (output p) - output_start p in
  if output_len <=? amt
  then mkSp (buffer p) (parsed_start p) (gap_start p) (raw_start p) (free_start p) [] 0 (sreq p) (stream p)
            (payload_rem p) (padding_rem p) (sst p)
  else mkSp (buffer p) (parsed_start p) (gap_start p) (raw_start p) (free_start p) (output p)
            (output_start p + amt) (sreq p) (stream p) (payload_rem p) (padding_rem p) (sst p).

(* whether a selection is acceptable: Some true / Some false (SequenceError) / None (debug_assert) *)
Definition accepts (role : N) (cur req : option N) : option bool :=
  match req with
  | None => Some true
  | Some x => match cmp_input_streams role x cur with
              | None => None | Some Lt => Some false | Some _ => Some true end
  end.

Inductive set_res := SetOk (p : sp) | SetErr | SetPanic.

(* Parser::set_stream, stream.rs:201-216 *)
Definition set_stream (p : sp) (s : option N) : set_res :=
  let verdict :=
    match s with
    | Some x => match cmp_input_streams (r_role (sreq p)) x (stream p) with
                | None => None
                | Some Lt => Some false
                | Some _ => Some true
                end
    | None => Some true
    end in
  match verdict with
  | None => SetPanic
  | Some false => SetErr
  | Some true =>
    if optN_eqb s (stream p) then SetOk p
    else
      let st' := match sst p with SStream => SSkip | x => x end in
      let p1 := mkSp (buffer p) (parsed_start p) (gap_start p) (raw_start p) (free_start p) (output p)
                     (output_start p) (sreq p) (stream p) (payload_rem p) (padding_rem p) st' in
      let p2 := discard_stream p1 in
      SetOk (mkSp (buffer p2) (parsed_start p2) (gap_start p2) (raw_start p2) (free_start p2) (output p2)
                  (output_start p2) (sreq p2) s (payload_rem p2) (padding_rem p2) (sst p2))
  end.

(* Status, stream.rs:13-33 + the bytes written into `dest` during the call *)
Record status := mkStatus { s_stream : N; s_end : bool; s_output : N; s_dest : bytes }.

Inductive spres :=
| StOk (p : sp) (st : status)
| StErr (p : sp) (e : perr) (st : status)    (* Err(e); `st` = what had been reported so far (dropped by the Rust) *)
| StPanic (site : N).

Section Stream.
Variable maxc : N.

(* loop-local state: parser, Status under construction, remaining capacity of dest *)
Record lstate := mkL { lp : sp; lres : status; lcap : option N }.

Inductive cflow := CContinue (l : lstate) | CBreak (l : lstate) | CErr (l : lstate) (e : perr) | CPanic (site : N).

Definition set_core (p : sp) (rs : N) (prem pad : N) (st : sstate) (out : bytes) (gs : N) (buf : bytes) : sp :=
  mkSp buf (parsed_start p) gs rs (free_start p) out (output_start p) (sreq p) (stream p) prem pad st.

(* Parser::parse_payload, stream.rs:386-437 *)
Definition parse_payload (l : lstate) : cflow :=
  let p := lp l in
  let raw_len := free_start p - raw_start p in
  let payload_len := N.min (payload_rem p) raw_len in
  let payload := slice (raw_start p) (raw_start p + payload_len) (buffer p) in
  let fin (p' : sp) (res : status) (cap' : option N) (consumed : N) : cflow :=
    if payload_len <? consumed then CPanic 20 else
    let p'' := set_core p' (raw_start p + consumed) (payload_rem p - consumed) (padding_rem p') (sst p')
                        (output p') (gap_start p') (buffer p') in
    if negb (invars_ok p'') then CPanic 21 else
    let l' := mkL p'' res cap' in
    if (payload_rem p'' =? 0) && (consumed <? raw_len) then CContinue l' else CBreak l' in
  match sst p with
  | SStream =>
    match lcap l with
    | Some c =>
      let n := N.min c payload_len in
      fin p (mkStatus (s_stream (lres l) + n) (s_end (lres l)) (s_output (lres l)) (s_dest (lres l) ++ take n payload))
          (Some (c - n)) n
    | None =>
      let b' := copy_within (buffer p) (raw_start p) (raw_start p + payload_len) (gap_start p) in
      let p' := set_core p (raw_start p) (payload_rem p) (padding_rem p) (sst p) (output p)
                         (gap_start p + payload_len) b' in
      fin p' (mkStatus (s_stream (lres l) + payload_len) (s_end (lres l)) (s_output (lres l)) (s_dest (lres l)))
          None payload_len
    end
  | SSkip => fin p (lres l) (lcap l) payload_len
  | SValues vars =>
    let '(ps, rest) := nv_run payload in
    let vars' := vars_of_pairs vars ps in
    if raw_len <? payload_rem p then
      fin (set_core p (raw_start p) (payload_rem p) (padding_rem p) (SValues vars') (output p) (gap_start p) (buffer p))
          (lres l) (lcap l) (payload_len - len rest)
    else
      let w := write_response vars' maxc in
      fin (set_core p (raw_start p) (payload_rem p) (padding_rem p) (SValues vars') (output p ++ w) (gap_start p) (buffer p))
          (mkStatus (s_stream (lres l)) (s_end (lres l)) (s_output (lres l) + len w) (s_dest (lres l)))
          (lcap l) payload_len
  end.

(* Parser::parse_head, stream.rs:439-520 *)
Definition parse_head (l : lstate) : cflow :=
  let p := lp l in
  if negb (is_record_boundary p) then CPanic 30 else
  let past_head := raw_start p + HEADER_LEN in
  if free_start p <? past_head then CBreak l else
  let head := slice (raw_start p) past_head (buffer p) in
  let go (st : sstate) (cl pl : N) (out : bytes) (added : N) : cflow :=
    let p' := set_core p past_head cl pl st out (gap_start p) (buffer p) in
    if negb (invars_ok p') then CPanic 31 else
    CContinue (mkL p' (mkStatus (s_stream (lres l)) (s_end (lres l)) (s_output (lres l) + added) (s_dest (lres l))) (lcap l)) in
  match hdr_decode head with
  | HBadType t =>
    let id := be16 (nthN head 2) (nthN head 3) in
    go SSkip (be16 (nthN head 4) (nthN head 5)) (nthN head 6) (output p ++ unk_record t id) 16
  | HBadVersion v => CErr l (EUnknownVersion v)
  | HOk t id cl pl =>
    let rid := r_id (sreq p) in
    if is_input_stream t && (id =? rid) then
      match cmp_input_streams (r_role (sreq p)) t (stream p) with
      | None => CPanic 32
      | Some Eq => if negb (cl =? 0) then go SStream cl pl (output p) 0
                   else CBreak (mkL p (mkStatus (s_stream (lres l)) true (s_output (lres l)) (s_dest (lres l))) (lcap l))
      | Some Lt => go SSkip cl pl (output p) 0
      | Some Gt => CBreak (mkL p (mkStatus (s_stream (lres l)) true (s_output (lres l)) (s_dest (lres l))) (lcap l))
      end
    else if (t =? RT_AbortRequest) && (id =? rid) then CErr l EAbortRequest
    else if (t =? RT_BeginRequest) && negb (id =? rid) then
      go SSkip cl pl (output p ++ end_record 0 PS_CantMpxConn id) 16
    else if (t =? RT_GetValues) && hdr_is_management t id then go (SValues 0) cl pl (output p) 0
    else go SSkip cl pl (output p) 0
  end.

(* one iteration of the while loop of Parser::parse, stream.rs:346-371 *)
Definition parse_iter (l : lstate) : cflow :=
  let after_payload (l : lstate) : cflow :=
    let p := lp l in
    if 0 <? padding_rem p then
      if negb (payload_rem p =? 0) then CPanic 40 else
      let raw_len := free_start p - raw_start p in
      if raw_len <=? padding_rem p then
        CBreak (mkL (set_core p (free_start p) (payload_rem p) (padding_rem p - raw_len) (sst p) (output p) (gap_start p) (buffer p))
                    (lres l) (lcap l))
      else
        parse_head (mkL (set_core p (raw_start p + padding_rem p) (payload_rem p) 0 (sst p) (output p) (gap_start p) (buffer p))
                        (lres l) (lcap l))
    else parse_head l in
  if 0 <? payload_rem (lp l) then
    match parse_payload l with
    | CContinue l' => after_payload l'
    | x => x
    end
  else after_payload l.

Fixpoint parse_loop (fuel : nat) (l : lstate) : cflow :=
  match fuel with
  | O => CPanic 99
  | S f =>
    if raw_start (lp l) <? free_start (lp l) then
      match parse_iter l with
      | CContinue l' => parse_loop f l'
      | x => x
      end
    else CBreak l
  end.

(* Parser::parse, stream.rs:333-384.  `new` = the bytes the caller wrote into input_buffer();
   `dest` = Some capacity for parse(.., Some(buf)) with buf.len() = capacity, None for the internal buffer. *)
Definition sparse (p : sp) (new : bytes) (dest : option N) : spres :=
  if (match dest with Some _ => negb (parsed_start p =? gap_start p) | None => false end) then StPanic 1
  else if len (buffer p) - free_start p <? len new then StPanic 2
  else
    let p1 := upd_idx p (write_at (buffer p) (free_start p) new) (parsed_start p) (gap_start p) (raw_start p)
                      (free_start p + len new) in
    let res0 := mkStatus 0 (match stream p with None => true | Some _ => false end) 0 [] in
    match parse_loop (2 * length (buffer p) + 8) (mkL p1 res0 dest) with
    | CContinue l | CBreak l => if invars_ok (lp l) then StOk (lp l) (lres l) else StPanic 3
    | CErr l e => StErr (lp l) e (lres l)
    | CPanic n => StPanic n
    end.
End Stream.

(* stream::Parser::from_parser via request::Parser::into_stream_parser (request.rs:701-716):
   the buffer is shared; bytes beyond input_len are stale and never read *)
Definition into_stream_parser (p : parser) : sp + perr :=
  match st p with
  | Done r =>
    inl (mkSp (held p ++ zeros (cap p - len (held p))) 0 0 0 (len (held p)) [] 0 r
              (next_input_stream (r_role r) None) 0 0 SSkip)
  | Fatal e => inr e
  | _ => inr EInterrupted
  end.

(* stream::Parser::new *)
Definition new_sparser (buffer_size : N) (r : req) : sp :=
  mkSp (zeros (aligned_bufsize buffer_size)) 0 0 0 0 [] 0 r (next_input_stream (r_role r) None) 0 0 SSkip.

(* Parser::into_input, stream.rs:528-536: None = Err(Interrupted) *)
Definition into_input (p : sp) : option bytes :=
  if is_record_boundary p then
    let p' := discard_stream p in Some (take (free_start p') (buffer p'))
  else None.

Inductive conv_res := ConvOk (p : parser) | ConvInterrupted | ConvPanic.

(* Parser::into_request_parser, stream.rs:550-560 *)
Definition into_request_parser (p : sp) : conv_res :=
  if negb (is_record_boundary p) then ConvInterrupted
  else if negb (len (output p) =? 0) then ConvPanic
  else let p' := discard_stream p in
       ConvOk (mkParser (len (buffer p')) (take (free_start p') (buffer p')) Header).
