(* Parser/ChainStream.v — proof of [stream_phase_stmt] of Parser/ChainTargets.v: the stream phase of one request.
     Part 0  finite facts about the order of the input streams of a role (cmp_input_streams), what an accepted
             set_stream(Some s) means (set_stream_ok_cases: the same stream, or a LATER one)
     Part 1  delivery per selected stream over runs of xops: [owed p sg v] (what the parser still owes for stream
             sg) only ever loses, at its front, the bytes handed out while sg was selected (xrun_owed)
     Part 2  the position law: [pos] = the remaining bytes are (rest of the current record) ++ enc_rcds todo ++ t
             for a suffix todo of the record list, no record passed so far stopping the selected stream;
             kept by every step of the abstract parse loop (pos_law, mirroring Part B2 of StreamFinal.v), by every
             caller operation (cstep_pos), by a selection of a later stream (set_pos: a record that does not stop
             an earlier stream does not stop a later one), hence over every run (xrun_pos)
     Part 3  Theorem stream_phase, and an instance showing the hypotheses are satisfiable. *)
From Coq Require Import ZArith ZifyBool ZifyNat ZifyN.
From FV Require Import Base.Bytes Base.BytesLemmas Gen.Generated Codec.Varint Codec.VarintProofs
  Codec.NV Codec.NVProofs Codec.Header Codec.Bodies Codec.Vars Codec.ProtoProofs
  Parser.ReqModel Parser.ReqParamsSpec Parser.ReqWire Parser.ReqTargets Parser.ReqDrive Parser.ReqRecords
  Parser.StreamModel Parser.StreamSeqProofs Parser.AbsStream Parser.StreamRefine Parser.StreamSpec Parser.StreamInv
  Parser.StreamFinal Parser.ChainTargets.
Ltac Zify.zify_post_hook ::= Z.div_mod_to_equations.

(* ================================================================================================ *)
(* Part 0: finite facts about the stream order                                                       *)
(* ================================================================================================ *)

Lemma optN_eqb_eq a b : optN_eqb a b = true <-> a = b.
Proof.
  destruct a as [x|], b as [y|]; cbn [optN_eqb]; split; intros H; try discriminate H; try reflexivity.
  - apply N.eqb_eq in H. subst y. reflexivity.
  - injection H as ->. apply N.eqb_refl.
Qed.

Lemma optN_eqb_refl a : optN_eqb a a = true.
Proof. apply optN_eqb_eq. reflexivity. Qed.

Lemma optN_eqb_sym a b : optN_eqb a b = optN_eqb b a.
Proof.
  destruct (optN_eqb a b) eqn:E1; destruct (optN_eqb b a) eqn:E2; try reflexivity.
  - apply optN_eqb_eq in E1. subst b. rewrite optN_eqb_refl in E2. discriminate E2.
  - apply optN_eqb_eq in E2. subst b. rewrite optN_eqb_refl in E1. discriminate E1.
Qed.

Lemma cmp_eq_inv role s cur : cmp_input_streams role s (Some cur) = Some Eq -> s = cur.
Proof.
  intros H.
  assert (Hi : is_input_stream s = true /\ is_input_stream cur = true).
  { unfold cmp_input_streams in H. destruct (is_input_stream s); destruct (is_input_stream cur);
      cbn [negb orb] in H; try discriminate H. split; reflexivity. }
  destruct Hi as [Hs Hc]. apply is_input_cases in Hs. apply is_input_cases in Hc.
  unfold cmp_input_streams in H.
  destruct (role_streams_cases role) as [Hr|[Hr|Hr]]; rewrite Hr in H;
    destruct Hs as [-> | ->]; destruct Hc as [-> | ->]; vm_compute in H; try discriminate H; reflexivity.
Qed.

Lemma cmp_gt_trans role sg s cur :
  cmp_input_streams role s (Some cur) = Some Gt -> cmp_input_streams role sg (Some s) = Some Gt ->
  cmp_input_streams role sg (Some cur) = Some Gt.
Proof.
  intros H1 H2. destruct (cmp_gt_input _ _ _ H1) as [Hs Hc]. destruct (cmp_gt_input _ _ _ H2) as [Hg _].
  apply is_input_cases in Hs. apply is_input_cases in Hc. apply is_input_cases in Hg.
  unfold cmp_input_streams in *.
  destruct (role_streams_cases role) as [Hr|[Hr|Hr]]; rewrite Hr in *;
    destruct Hs as [-> | ->]; destruct Hc as [-> | ->]; destruct Hg as [-> | ->];
    vm_compute in H1; try discriminate H1; vm_compute in H2; try discriminate H2; reflexivity.
Qed.

Lemma cmp_gt_antisym role sg s :
  cmp_input_streams role s (Some sg) = Some Gt -> cmp_input_streams role sg (Some s) <> Some Gt.
Proof.
  intros H1 H2. destruct (cmp_gt_input _ _ _ H1) as [Hs Hg].
  apply is_input_cases in Hs. apply is_input_cases in Hg.
  unfold cmp_input_streams in *.
  destruct (role_streams_cases role) as [Hr|[Hr|Hr]]; rewrite Hr in *;
    destruct Hs as [-> | ->]; destruct Hg as [-> | ->];
    vm_compute in H1; try discriminate H1; vm_compute in H2; discriminate H2.
Qed.

Lemma cmp_gt_neq role sg s : cmp_input_streams role s (Some sg) = Some Gt -> s <> sg.
Proof.
  intros H E. subst s. destruct (cmp_gt_input _ _ _ H) as [Hs _].
  unfold cmp_input_streams in H. rewrite Hs, N.eqb_refl in H. cbn [negb orb] in H. discriminate H.
Qed.

Lemma cmp_gt_in role s cur : cmp_input_streams role s (Some cur) = Some Gt -> In s (role_input_streams role).
Proof.
  intros H. destruct (cmp_gt_input _ _ _ H) as [Hs Hc].
  apply is_input_cases in Hs. apply is_input_cases in Hc.
  unfold cmp_input_streams in H.
  destruct (role_streams_cases role) as [Hr|[Hr|Hr]]; rewrite Hr in *;
    destruct Hs as [-> | ->]; destruct Hc as [-> | ->];
    vm_compute in H; try discriminate H; cbn [In]; auto.
Qed.

Lemma next_input_none_in role e : next_input_stream role None = Some e -> In e (role_input_streams role).
Proof.
  unfold next_input_stream, NEXT_INPUT_STREAM, role_input_streams, ROLE_INPUT_STREAMS.
  cbn [find fst snd optN_eqb memN existsb]. rewrite andb_true_r, andb_false_r, !orb_false_r.
  destruct (N.eqb_spec role 1) as [->|H1]; cbn [orb].
  - intros E. injection E as <-. vm_compute. auto.
  - destruct (N.eqb_spec role 3) as [->|H3].
    + intros E. injection E as <-. vm_compute. auto.
    + intros E. discriminate E.
Qed.

(* what an accepted set_stream(Some s) means *)
Lemma set_stream_ok_cases p s p1 : set_stream p (Some s) = SetOk p1 ->
  optN_eqb (Some s) (stream p) = true \/
  (optN_eqb (Some s) (stream p) = false /\
   exists cur, stream p = Some cur /\ cmp_input_streams (r_role (sreq p)) s (Some cur) = Some Gt).
Proof.
  intros H. destruct (optN_eqb (Some s) (stream p)) eqn:Eq; [left; reflexivity|right].
  split; [reflexivity|]. unfold set_stream in H.
  destruct (stream p) as [cur|] eqn:Es.
  - exists cur. split; [reflexivity|].
    destruct (cmp_input_streams (r_role (sreq p)) s (Some cur)) as [[| |]|] eqn:Ec; try discriminate H.
    + apply cmp_eq_inv in Ec. subst cur. cbn [optN_eqb] in Eq. rewrite N.eqb_refl in Eq. discriminate Eq.
    + reflexivity.
  - cbn [cmp_input_streams] in H. discriminate H.
Qed.

Lemma set_stream_rem p s p1 : set_stream p s = SetOk p1 ->
  payload_rem p1 = payload_rem p /\ padding_rem p1 = padding_rem p.
Proof.
  unfold set_stream. intros H.
  destruct (match s with
            | Some x => match cmp_input_streams (r_role (sreq p)) x (stream p) with
                        | None => None | Some Lt => Some false | Some _ => Some true end
            | None => Some true end) as [[|]|]; try discriminate H.
  destruct (optN_eqb s (stream p)); injection H as <-; split; reflexivity.
Qed.

(* ================================================================================================ *)
(* Part 1: delivery per selected stream over runs of xops                                            *)
(* ================================================================================================ *)
Section Delivery.
Variable maxc : N.

(* what the parser still owes the caller for stream sg, v = the bytes not yet fed:
   the selected stream: stream buffer ++ content to come; a later stream: its content to come;
   a stream that was passed over: nothing *)
Definition owed (p : sp) (sg : N) (v : bytes) : bytes :=
  if optN_eqb (stream p) (Some sg) then K (abs p) v
  else match stream p with
       | Some cur => match cmp_input_streams (r_role (sreq p)) sg (Some cur) with
                     | Some Gt => F (Some sg) (abs p) v
                     | _ => []
                     end
       | None => []
       end.

Lemma delivered_cons sg x ds :
  delivered sg (x :: ds) = (if optN_eqb (fst x) sg then snd x else []) ++ delivered sg ds.
Proof. reflexivity. Qed.

Lemma owed_step p c sg v : sp_inv p -> cop_legal p c ->
  owed p sg (cfed_of c ++ v) =
  (if optN_eqb (stream p) (Some sg) then snd (fst (cstep maxc p c)) else []) ++ owed (fst (fst (cstep maxc p c))) sg v.
Proof.
  intros Hsp Hleg.
  destruct (cstep_law maxc p c Hsp Hleg) as (_ & _ & _ & _ & (_ & Hs & Hq & L)).
  change (a_stream (abs ?x)) with (stream x) in Hs. change (a_req (abs ?x)) with (sreq x) in Hq.
  destruct (L v) as (HK & _ & HF).
  unfold owed. rewrite Hs, Hq.
  destruct (optN_eqb (stream p) (Some sg)); [exact HK|].
  cbn [app]. destruct (stream p) as [cur|] eqn:Es; [|reflexivity].
  destruct (cmp_input_streams (r_role (sreq p)) sg (Some cur)) as [[| |]|] eqn:Ec; try reflexivity.
  apply HF. unfold later_stream. change (a_stream (abs p)) with (stream p). rewrite Es. exact Ec.
Qed.

Lemma owed_set p s p1 sg v : sp_inv p -> set_stream p (Some s) = SetOk p1 ->
  exists x, owed p sg v = owed p1 sg v ++ x.
Proof.
  intros Hsp E.
  destruct (set_stream_call maxc p (Some s) p1 Hsp E) as (_ & Hq & _ & _ & _ & _ & HF & Hsame & Hdiff).
  destruct (set_stream_ok_cases p s p1 E) as [Eq|(Eq & cur & Es & Ec)].
  { rewrite (Hsame Eq). exists []. rewrite app_nil_r. reflexivity. }
  destruct (Hdiff Eq) as (Hs1 & _ & HK).
  unfold owed. rewrite Hs1, Hq, Es. cbn [optN_eqb].
  destruct (N.eqb_spec cur sg) as [Ecs|Ncs].
  - (* sg was selected: it is passed over now *)
    subst cur. destruct (N.eqb_spec s sg) as [->|Nss].
    { exfalso. exact (cmp_gt_neq _ _ _ Ec eq_refl). }
    destruct (cmp_input_streams (r_role (sreq p)) sg (Some s)) as [[| |]|] eqn:Ec2;
      try (eexists; cbn [app]; reflexivity).
    exfalso. exact (cmp_gt_antisym _ _ _ Ec Ec2).
  - destruct (N.eqb_spec s sg) as [->|Nss].
    + rewrite Ec. exists []. rewrite app_nil_r. symmetry. apply HK.
    + destruct (cmp_input_streams (r_role (sreq p)) sg (Some s)) as [[| |]|] eqn:Ec2;
        try (eexists; cbn [app]; reflexivity).
      rewrite (cmp_gt_trans _ _ _ _ Ec Ec2). exists []. rewrite app_nil_r. symmetry. apply HF.
Qed.

Lemma xrun_owed sg xs : forall p v pf ds, sp_inv p -> xlegal maxc p xs -> xrun maxc p xs = Some (pf, ds) ->
  exists more, owed p sg (xfed xs ++ v) = delivered (Some sg) ds ++ more.
Proof.
  induction xs as [|x r IH]; intros p v pf ds Hsp Hleg Hrun.
  - cbn [xrun] in Hrun. injection Hrun as <- <-. exists (owed p sg v). reflexivity.
  - destruct x as [c|s]; cbn [xrun xlegal] in Hrun, Hleg.
    + destruct Hleg as [Hc Hr].
      destruct (cstep_law maxc p c Hsp Hc) as (I1 & _).
      destruct (xrun maxc (fst (fst (cstep maxc p c))) r) as [[pf' ds']|] eqn:Er; [|discriminate Hrun].
      injection Hrun as <- <-.
      destruct (IH _ v _ _ I1 Hr Er) as (more & Hm).
      exists more. change (xfed (XC c :: r)) with (cfed_of c ++ xfed r). rewrite <- app_assoc.
      rewrite (owed_step p c sg _ Hsp Hc), Hm, delivered_cons. cbn [fst snd]. rewrite <- app_assoc. reflexivity.
    + destruct (set_stream p (Some s)) as [p1| |] eqn:Es; try contradiction.
      destruct (set_stream_call maxc p (Some s) p1 Hsp Es) as (I1 & _).
      destruct (IH _ v _ _ I1 Hleg Hrun) as (more & Hm).
      destruct (owed_set p s p1 sg (xfed r ++ v) Hsp Es) as (x & Hx).
      exists (more ++ x). change (xfed (XSel s :: r)) with (xfed r). rewrite Hx, Hm, <- app_assoc. reflexivity.
Qed.
End Delivery.

(* ================================================================================================ *)
(* Part 2: the position law                                                                           *)
(* ================================================================================================ *)

(* a record the walk for stream sg passes (it does not stop the stream) *)
Definition nonstop (role id : N) (sg : option N) (r : rcd) : bool :=
  match rcd_effect_on role id sg r with EBody _ | ESkip => true | ETerminator | EAbort => false end.

Lemma content_open_cons role id sg r rs :
  content_open role id sg (r :: rs) = nonstop role id sg r && content_open role id sg rs.
Proof.
  unfold content_open, nonstop. cbn [content_walk].
  destruct (rcd_effect_on role id sg r); reflexivity.
Qed.

Lemma content_open_nil role id sg : content_open role id sg [] = true.
Proof. reflexivity. Qed.

Lemma content_open_app role id sg a b :
  content_open role id sg (a ++ b) = content_open role id sg a && content_open role id sg b.
Proof.
  induction a as [|r a IH]; [reflexivity|].
  cbn [app]. rewrite !content_open_cons, IH, andb_assoc. reflexivity.
Qed.

(* a record that stops a later stream also stops every earlier one *)
Lemma spec_cmp_later role t cur s : is_input_stream t = true ->
  cmp_input_streams role s (Some cur) = Some Gt ->
  match spec_cmp role t (Some cur) with Gt => True | _ => spec_cmp role t (Some s) = Lt end.
Proof.
  intros Ht H. destruct (cmp_gt_input _ _ _ H) as [Hs Hc].
  apply is_input_cases in Ht. apply is_input_cases in Hs. apply is_input_cases in Hc.
  unfold cmp_input_streams in H. unfold spec_cmp.
  destruct (role_streams_cases role) as [Hr|[Hr|Hr]]; rewrite Hr in *;
    destruct Ht as [-> | ->]; destruct Hs as [-> | ->]; destruct Hc as [-> | ->];
    vm_compute in H; try discriminate H; vm_compute; auto.
Qed.

Lemma nonstop_later role id cur s r : cmp_input_streams role s (Some cur) = Some Gt ->
  nonstop role id (Some cur) r = true -> nonstop role id (Some s) r = true.
Proof.
  intros H. unfold nonstop, rcd_effect_on.
  destruct (is_input_stream (rt r) && (rid r =? id)) eqn:Hin; [|intros Hn; exact Hn].
  apply andb_true_iff in Hin. destruct Hin as [Hin _].
  pose proof (spec_cmp_later role (rt r) cur s Hin H) as Hl.
  destruct (spec_cmp role (rt r) (Some cur)).
  - rewrite Hl. reflexivity.
  - rewrite Hl. reflexivity.
  - intros Hn. discriminate Hn.
Qed.

Lemma content_open_later role id cur s rs : cmp_input_streams role s (Some cur) = Some Gt ->
  content_open role id (Some cur) rs = true -> content_open role id (Some s) rs = true.
Proof.
  intros H. induction rs as [|r rs IH]; [reflexivity|].
  rewrite !content_open_cons. intros Hc. apply andb_true_iff in Hc. destruct Hc as [H1 H2].
  rewrite (nonstop_later role id cur s r H H1), (IH H2). reflexivity.
Qed.

Section Position.
Variable maxc : N.
Variables role id : N.
Variable rs : list rcd.
Variable t : bytes.
Hypothesis Hrs : Forall rcd_ok rs.

(* the remaining bytes w (unparsed ++ not yet fed), seen from position (prem, pad) of a parser with
   selection sg, are: the rest of the current record, then a suffix [todo] of the record list, then t;
   and no record passed so far stops sg *)
Definition pos (sg : option N) (prem pad : N) (w : bytes) : Prop :=
  exists done todo b, rs = done ++ todo /\ content_open role id sg done = true /\
    len b = prem + pad /\ w = b ++ enc_rcds todo ++ t.

Definition Pos (a : ast) (u : bytes) : Prop := pos (a_stream a) (a_prem a) (a_pad a) (a_raw a ++ u).

Definition good (a : ast) : Prop :=
  r_role (a_req a) = role /\ r_id (a_req a) = id /\ sel_ok (a_stream a) /\
  content_open role id (a_stream a) rs = false.

Lemma pos_drop sg prem pad prem' pad' w n : pos sg prem pad w ->
  n <= prem + pad -> prem' + pad' = prem + pad - n -> pos sg prem' pad' (drop n w).
Proof.
  intros (done & todo & b & E & Hd & Hb & Hw) Hn Hp. exists done, todo, (drop n b).
  split; [exact E|]. split; [exact Hd|]. split; [rewrite len_drop; lia|].
  rewrite Hw. apply drop_app_le. lia.
Qed.

Lemma pos_head sg w : content_open role id sg rs = false -> pos sg 0 0 w ->
  exists done r todo, rs = done ++ r :: todo /\ content_open role id sg done = true /\ rcd_ok r /\
     w = hdr8 r ++ rbody r ++ rpad r ++ enc_rcds todo ++ t.
Proof.
  intros Hcl (done & todo & b & E & Hd & Hb & Hw).
  assert (Hnil : b = []) by (apply len_zero_nil; lia). subst b. cbn [app] in Hw.
  destruct todo as [|r todo].
  - exfalso. rewrite E, content_open_app, Hd in Hcl. discriminate Hcl.
  - exists done, r, todo. split; [exact E|]. split; [exact Hd|].
    split. { pose proof Hrs as H0. rewrite E in H0. apply Forall_app in H0. destruct H0 as [_ H0].
             inversion H0; assumption. }
    rewrite Hw, enc_rcds_cons, <- app_assoc. apply enc_rcd_app.
Qed.

Definition p_rel (u : bytes) (a a' : ast) : Prop :=
  good a -> Pos a u -> a_req a' = a_req a /\ a_stream a' = a_stream a /\ Pos a' u.

Definition p_post (u : bytes) (l : alstate) (fl : aflow) : Prop :=
  good (al l) -> Pos (al l) u ->
  match fl with
  | AContinue l' | ABreak l' | AErr l' _ =>
    a_req (al l') = a_req (al l) /\ a_stream (al l') = a_stream (al l) /\ Pos (al l') u
  | APanic _ => True
  end.

Lemma p_rel_refl u a : p_rel u a a.
Proof. intros _ HP. split; [reflexivity|]. split; [reflexivity|exact HP]. Qed.

Lemma p_post_trans u l1 l2 fl : p_rel u (al l1) (al l2) -> p_post u l2 fl -> p_post u l1 fl.
Proof.
  intros H12 H Hg HP. destruct (H12 Hg HP) as (Q & S & P2).
  assert (Hg2 : good (al l2)). { unfold good in *. rewrite Q, S. exact Hg. }
  specialize (H Hg2 P2).
  destruct fl as [l'|l'|l' e|n]; try exact I; destruct H as (Q2 & S2 & P3);
    (split; [congruence|]; split; [congruence|exact P3]).
Qed.

Lemma pfin_P u a parsed' out' st' res cap' n :
  p_post u (mkAL a res cap') (pfin' a parsed' out' st' res cap' n).
Proof.
  intros Hg HP. cbn [al] in *. unfold pfin'. cbv zeta.
  destruct (N.ltb_spec (N.min (a_prem a) (len (a_raw a))) n) as [Hn|Hn]; [exact I|].
  assert (Hrel : Pos (mkA (a_B a) (a_space a) parsed' (drop n (a_raw a)) out' (a_req a) (a_stream a)
                          (a_prem a - n) (a_pad a) st') u).
  { unfold Pos in *. cbn [a_B a_space a_parsed a_raw a_out a_req a_stream a_prem a_pad a_st].
    rewrite <- (drop_app_le n (a_raw a) u) by lia.
    apply (pos_drop _ _ _ _ _ _ n HP); lia. }
  match goal with |- match (if ?c then _ else _) with _ => _ end => destruct c end; cbn [al a_req a_stream];
    (split; [reflexivity|]; split; [reflexivity|exact Hrel]).
Qed.

Lemma payload_P u l : p_post u l (aparse_payload maxc l).
Proof.
  rewrite aparse_payload_eq. cbv zeta. destruct l as [a res cap]. cbn [al ares acap].
  destruct (a_st a).
  - destruct cap as [c|].
    + apply (p_post_trans u _ (mkAL a (add_stream res (N.min c (N.min (a_prem a) (len (a_raw a))))
                 (take (N.min c (N.min (a_prem a) (len (a_raw a)))) (take (N.min (a_prem a) (len (a_raw a))) (a_raw a))))
                 (Some (c - N.min c (N.min (a_prem a) (len (a_raw a))))))); [apply p_rel_refl|]. apply pfin_P.
    + apply (p_post_trans u _ (mkAL a (add_stream res (N.min (a_prem a) (len (a_raw a))) []) None));
        [apply p_rel_refl|]. apply pfin_P.
  - apply pfin_P.
  - destruct (nv_run (take (N.min (a_prem a) (len (a_raw a))) (a_raw a))) as [ps rest].
    destruct (len (a_raw a) <? a_prem a).
    + apply pfin_P.
    + apply (p_post_trans u _ (mkAL a (add_output res (len (write_response (vars_of_pairs vars ps) maxc))) cap));
        [apply p_rel_refl|]. apply pfin_P.
Qed.

Lemma head_P u l : a_prem (al l) = 0 -> a_pad (al l) = 0 -> p_post u l (aparse_head l).
Proof.
  intros Hp Hq Hg HP0. pose proof Hg as (Hrole & Hid & Hsel & Hcl).
  rewrite aparse_head_eq. cbv zeta.
  destruct (negb (a_boundary (al l))); [exact I|].
  destruct (N.ltb_spec (len (a_raw (al l))) HEADER_LEN) as [Hl|Hl].
  { split; [reflexivity|]. split; [reflexivity|exact HP0]. }
  pose proof HP0 as HP. unfold Pos in HP. rewrite Hp, Hq in HP.
  destruct (pos_head _ _ Hcl HP) as (done & r & todo & Ers & Hdone & Hr & Hw).
  assert (Hhead : take HEADER_LEN (a_raw (al l)) = hdr8 r).
  { rewrite <- (take_app_le HEADER_LEN (a_raw (al l)) u Hl), Hw. apply take8_hdr8. }
  assert (Hrest : drop HEADER_LEN (a_raw (al l)) ++ u = rbody r ++ rpad r ++ enc_rcds todo ++ t).
  { rewrite <- (drop_app_le HEADER_LEN (a_raw (al l)) u Hl), Hw. apply drop8_hdr8. }
  assert (Hsame : a_req (al l) = a_req (al l) /\ a_stream (al l) = a_stream (al l) /\ Pos (al l) u).
  { split; [reflexivity|]. split; [reflexivity|exact HP0]. }
  assert (Hgo : forall st out added, nonstop role id (a_stream (al l)) r = true ->
     match StreamInv.hgo l st (len (rbody r)) (len (rpad r)) out added with
     | AContinue l' | ABreak l' | AErr l' _ =>
       a_req (al l') = a_req (al l) /\ a_stream (al l') = a_stream (al l) /\ Pos (al l') u
     | APanic _ => True
     end).
  { intros st out added Hn. unfold StreamInv.hgo. cbn [al a_req a_stream].
    split; [reflexivity|]. split; [reflexivity|].
    unfold Pos. cbn [a_B a_space a_parsed a_raw a_out a_req a_stream a_prem a_pad a_st]. rewrite Hrest.
    exists (done ++ [r]), todo, (rbody r ++ rpad r). split; [rewrite <- app_assoc; exact Ers|].
    split; [rewrite content_open_app, Hdone, content_open_cons, Hn; reflexivity|].
    split; [apply len_app|]. rewrite <- app_assoc. reflexivity. }
  rewrite Hhead, (hdr_decode_hdr8 r Hr).
  destruct (known_type (rt r)) eqn:Hk.
  - rewrite Hid, Hrole.
    destruct (is_input_stream (rt r) && (rid r =? id)) eqn:Hin.
    + pose proof Hin as Hin'. apply andb_true_iff in Hin'. destruct Hin' as [Hin' _].
      rewrite (cmp_spec_all role (rt r) (a_stream (al l)) Hin' Hsel).
      destruct (spec_cmp role (rt r) (a_stream (al l))) eqn:Hc.
      * apply Hgo. unfold nonstop, rcd_effect_on. rewrite Hin, Hc. reflexivity.
      * destruct (len (rbody r) =? 0) eqn:Hz; cbn [negb].
        -- exact Hsame.
        -- apply Hgo. unfold nonstop, rcd_effect_on. rewrite Hin, Hc, Hz. reflexivity.
      * exact Hsame.
    + destruct ((rt r =? RT_AbortRequest) && (rid r =? id)) eqn:Hab; [exact Hsame|].
      assert (Hn : nonstop role id (a_stream (al l)) r = true).
      { unfold nonstop, rcd_effect_on. rewrite Hin, Hab. reflexivity. }
      destruct ((rt r =? RT_BeginRequest) && negb (rid r =? id)); [apply Hgo; exact Hn|].
      destruct ((rt r =? RT_GetValues) && hdr_is_management (rt r) (rid r)); apply Hgo; exact Hn.
  - destruct (hdr8_fields r Hr) as (_ & E2 & E3). rewrite E2, E3. apply Hgo.
    destruct (unknown_not_special _ Hk) as (Ei & Ea & _ & _).
    unfold nonstop, rcd_effect_on. rewrite Ei, Ea. reflexivity.
Qed.

Lemma after_payload_P u l : p_post u l (after_payload l).
Proof.
  unfold after_payload. cbv zeta.
  destruct (N.ltb_spec 0 (a_pad (al l))) as [Hq|Hq].
  - destruct (N.eqb_spec (a_prem (al l)) 0) as [Hp|Hp]; cbn [negb]; [|intros _ _; exact I].
    destruct (N.leb_spec (len (a_raw (al l))) (a_pad (al l))) as [Hl|Hl].
    + intros Hg HP. cbn [al]. unfold a_set. cbn [a_req a_stream].
      split; [reflexivity|]. split; [reflexivity|].
      unfold Pos in *. cbn [a_B a_space a_parsed a_raw a_out a_req a_stream a_prem a_pad a_st app].
      rewrite <- (drop_len_app (a_raw (al l)) u).
      apply (pos_drop _ _ _ _ _ _ _ HP); lia.
    + set (l2 := mkAL (a_set (al l) (a_parsed (al l)) (drop (a_pad (al l)) (a_raw (al l))) (a_out (al l))
                              (a_prem (al l)) 0 (a_st (al l))) (ares l) (acap l)).
      apply (p_post_trans u l l2).
      * intros Hg HP. unfold l2, a_set. cbn [al a_req a_stream].
        split; [reflexivity|]. split; [reflexivity|].
        unfold Pos in *. cbn [a_B a_space a_parsed a_raw a_out a_req a_stream a_prem a_pad a_st].
        rewrite <- (drop_app_le (a_pad (al l)) (a_raw (al l)) u) by lia.
        apply (pos_drop _ _ _ _ _ _ _ HP); lia.
      * apply head_P; unfold l2, a_set; cbn [al a_prem a_pad]; [exact Hp|reflexivity].
  - destruct (N.eq_dec (a_prem (al l)) 0) as [Hp|Hp].
    + apply head_P; [exact Hp|lia].
    + rewrite aparse_head_eq. cbv zeta. unfold a_boundary.
      destruct (N.eqb_spec (a_prem (al l)) 0) as [Hz|_]; [contradiction|]. cbn [andb negb].
      intros _ _. exact I.
Qed.

Lemma iter_P u l : p_post u l (aparse_iter maxc l).
Proof.
  rewrite aparse_iter_eq.
  destruct (0 <? a_prem (al l)); [|apply after_payload_P].
  pose proof (payload_P u l) as H.
  destruct (aparse_payload maxc l) as [l'|l'|l' e|n].
  - apply (p_post_trans u _ _ _ H). apply after_payload_P.
  - exact H.
  - exact H.
  - intros _ _. exact I.
Qed.

Lemma loop_P u fuel : forall l, p_post u l (aparse_loop maxc fuel l).
Proof.
  induction fuel as [|f IH]; intros l; [intros _ _; exact I|].
  cbn [aparse_loop]. destruct (a_raw (al l)) as [|b r] eqn:Er.
  { intros _ HP. split; [reflexivity|]. split; [reflexivity|exact HP]. }
  pose proof (iter_P u l) as H.
  destruct (aparse_iter maxc l) as [l'|l'|l' e|n].
  - apply (p_post_trans u _ _ _ H). apply IH.
  - exact H.
  - exact H.
  - intros _ _. exact I.
Qed.

(* the position is kept by every call, whatever its arguments *)
Theorem pos_law a new dest a' s u : good a ->
  (aparse maxc a new dest = AOk a' s \/ exists e, aparse maxc a new dest = AFail a' e s) ->
  Pos a (new ++ u) -> Pos a' u.
Proof.
  intros Hg Hres HP. unfold aparse in Hres.
  destruct (match dest with Some _ => negb (len (a_parsed a) =? 0) | None => false end).
  { destruct Hres as [H|[e H]]; discriminate H. }
  destruct (a_space a <? len new).
  { destruct Hres as [H|[e H]]; discriminate H. }
  cbv zeta in Hres.
  set (a1 := mkA (a_B a) (a_space a - len new) (a_parsed a) (a_raw a ++ new) (a_out a) (a_req a) (a_stream a)
                 (a_prem a) (a_pad a) (a_st a)) in *.
  assert (Hg1 : good a1) by exact Hg.
  assert (HP1 : Pos a1 u).
  { unfold Pos, a1 in *. cbn [a_B a_space a_parsed a_raw a_out a_req a_stream a_prem a_pad a_st].
    rewrite <- app_assoc. exact HP. }
  match type of Hres with context [aparse_loop maxc ?f ?l] =>
    pose proof (loop_P u f l Hg1 HP1) as H; destruct (aparse_loop maxc f l) as [l'|l'|l' e'|n] end.
  - destruct Hres as [Hr|[e Hr]]; [|discriminate Hr]. inversion Hr; subst a' s. apply H.
  - destruct Hres as [Hr|[e Hr]]; [|discriminate Hr]. inversion Hr; subst a' s. apply H.
  - destruct Hres as [Hr|[e Hr]]; [discriminate Hr|]. inversion Hr; subst a' s. apply H.
  - destruct Hres as [Hr|[e Hr]]; discriminate Hr.
Qed.
End Position.

(* ---- the position law on the index-level model, over runs of xops ---- *)
Section PositionConcrete.
Variable maxc : N.
Variables role id : N.
Variable rs : list rcd.
Variable t : bytes.
Hypothesis Hrs : Forall rcd_ok rs.

Definition PosC (p : sp) (u : bytes) : Prop := Pos role id rs t (abs p) u.

Lemma cstep_pos p c u : sp_inv p -> cop_legal p c ->
  (is_parse (XC c) = true -> good role id rs (abs p)) ->
  PosC p (cfed_of c ++ u) -> PosC (fst (fst (cstep maxc p c))) u.
Proof.
  intros Hsp Hleg Hg HP. pose proof Hsp as [HRI _].
  destruct c as [new dest|k| |k]; cbn [cfed_of cstep cop_legal] in *.
  - destruct (sparse_refines maxc p new dest HRI) as [Ga _].
    pose proof (sparse_call_no_panic maxc p new dest Hsp Hleg) as Hnp.
    destruct (sparse maxc p new dest) as [p' s|p' e s|n]; cbn [absres fst] in *.
    + apply (pos_law maxc role id rs t Hrs (abs p) new dest (abs p') s u (Hg eq_refl)); [left; exact Ga|exact HP].
    + apply (pos_law maxc role id rs t Hrs (abs p) new dest (abs p') s u (Hg eq_refl));
        [right; exists e; exact Ga|exact HP].
    + exfalso. apply (Hnp n). reflexivity.
  - cbn [fst app] in *. unfold PosC. rewrite (consume_stream_abs p k HRI). exact HP.
  - cbn [fst app] in *. unfold PosC. rewrite (compress_abs p HRI). exact HP.
  - cbn [fst app] in *. unfold PosC. rewrite (consume_output_abs p k HRI). exact HP.
Qed.

Lemma set_pos p s p1 u : sp_inv p -> r_role (sreq p) = role -> set_stream p (Some s) = SetOk p1 ->
  PosC p u -> PosC p1 u.
Proof.
  intros Hsp Hrole E HP.
  destruct (set_stream_call maxc p (Some s) p1 Hsp E) as (_ & _ & _ & _ & Hraw & _ & _ & Hsame & Hdiff).
  destruct (set_stream_rem p (Some s) p1 E) as [Hpr Hpd].
  destruct (set_stream_ok_cases p s p1 E) as [Eq|(Eq & cur & Es & Ec)].
  { rewrite (Hsame Eq). exact HP. }
  destruct (Hdiff Eq) as (Hs1 & _ & _).
  unfold PosC, Pos, abs in *. cbn [a_B a_space a_parsed a_raw a_out a_req a_stream a_prem a_pad a_st] in *.
  rewrite Hraw, Hpr, Hpd, Hs1. rewrite Es in HP.
  destruct HP as (done & todo & b & E1 & Hd & Hb & Hw).
  exists done, todo, b. split; [exact E1|]. split; [|split; assumption].
  rewrite Hrole in Ec. apply (content_open_later role id cur s done Ec Hd).
Qed.

Lemma good_of p c : sp_inv p -> r_role (sreq p) = role -> r_id (sreq p) = id ->
  closes_streams role id rs -> stream p = Some c -> In c (role_input_streams role) ->
  good role id rs (abs p).
Proof.
  intros Hsp Hrole Hid Hcl Es Hin. unfold good. cbn [abs a_req a_stream].
  split; [exact Hrole|]. split; [exact Hid|].
  split.
  - pose proof (sp_inv_stream_ok p Hsp) as Hok. unfold stream_ok in Hok. rewrite Es in *. exact Hok.
  - rewrite Es. unfold closes_streams in Hcl. rewrite Forall_forall in Hcl. apply Hcl. exact Hin.
Qed.

Lemma xrun_pos xs : forall p u pf ds, sp_inv p -> r_role (sreq p) = role -> r_id (sreq p) = id ->
  closes_streams role id rs ->
  match stream p with Some c => In c (role_input_streams role) | None => existsb is_parse xs = false end ->
  PosC p (xfed xs ++ u) -> xlegal maxc p xs -> xrun maxc p xs = Some (pf, ds) ->
  sp_inv pf /\ sreq pf = sreq p /\ len (buffer pf) = len (buffer p) /\ PosC pf u.
Proof.
  induction xs as [|x r IH]; intros p u pf ds Hsp Hrole Hid Hcl Hst HP Hleg Hrun.
  - cbn [xrun] in Hrun. injection Hrun as <- <-.
    split; [exact Hsp|]. split; [reflexivity|]. split; [reflexivity|exact HP].
  - destruct x as [c|s]; cbn [xrun xlegal] in Hrun, Hleg.
    + destruct Hleg as [Hc Hr].
      destruct (cstep_law maxc p c Hsp Hc) as (I1 & _ & B1 & _ & (_ & S1 & Q1 & _)).
      change (a_stream (abs ?x)) with (stream x) in S1. change (a_req (abs ?x)) with (sreq x) in Q1.
      destruct (xrun maxc (fst (fst (cstep maxc p c))) r) as [[pf' ds']|] eqn:Er; [|discriminate Hrun].
      injection Hrun as <- <-.
      change (xfed (XC c :: r)) with (cfed_of c ++ xfed r) in HP. rewrite <- app_assoc in HP.
      assert (Hg : is_parse (XC c) = true -> good role id rs (abs p)).
      { intros Hip. destruct (stream p) as [c0|] eqn:Es.
        - apply (good_of p c0); assumption.
        - cbn [existsb] in Hst. rewrite Hip in Hst. discriminate Hst. }
      pose proof (cstep_pos p c (xfed r ++ u) Hsp Hc Hg HP) as HP1.
      assert (Hst1 : match stream (fst (fst (cstep maxc p c))) with
                     | Some c0 => In c0 (role_input_streams role)
                     | None => existsb is_parse r = false end).
      { rewrite S1. destruct (stream p) as [c0|]; [exact Hst|].
        cbn [existsb] in Hst. apply orb_false_iff in Hst. apply Hst. }
      destruct (IH _ u _ _ I1 (eq_trans (f_equal r_role Q1) Hrole) (eq_trans (f_equal r_id Q1) Hid) Hcl Hst1 HP1 Hr Er)
        as (If & Qf & Bf & Pf).
      split; [exact If|]. split; [congruence|]. split; [congruence|exact Pf].
    + destruct (set_stream p (Some s)) as [p1| |] eqn:Es; try contradiction.
      destruct (set_stream_call maxc p (Some s) p1 Hsp Es) as (I1 & Q1 & B1 & _ & _ & _ & _ & Hsame & Hdiff).
      change (xfed (XSel s :: r)) with (xfed r) in HP.
      pose proof (set_pos p s p1 (xfed r ++ u) Hsp Hrole Es HP) as HP1.
      assert (Hst1 : match stream p1 with
                     | Some c0 => In c0 (role_input_streams role)
                     | None => existsb is_parse r = false end).
      { destruct (set_stream_ok_cases p s p1 Es) as [Eq|(Eq & cur & Ecur & Ec)].
        - rewrite (Hsame Eq). destruct (stream p) as [c0|]; [exact Hst|]. cbn [optN_eqb] in Eq. discriminate Eq.
        - destruct (Hdiff Eq) as (Hs1 & _). rewrite Hs1. rewrite Hrole in Ec. apply (cmp_gt_in role s cur Ec). }
      destruct (IH _ u _ _ I1 (eq_trans (f_equal r_role Q1) Hrole) (eq_trans (f_equal r_id Q1) Hid) Hcl Hst1 HP1 Hleg Hrun)
        as (If & Qf & Bf & Pf).
      split; [exact If|]. split; [congruence|]. split; [congruence|exact Pf].
Qed.
End PositionConcrete.

(* ================================================================================================ *)
(* Part 3: the stream phase law                                                                      *)
(* ================================================================================================ *)
Lemma role_input_is_input role sg : In sg (role_input_streams role) -> is_input_stream sg = true.
Proof.
  intros H. destruct (role_streams_cases role) as [Hr|[Hr|Hr]]; rewrite Hr in H; cbn [In] in H.
  - destruct H as [<-|[]]. reflexivity.
  - destruct H.
  - destruct H as [<-|[<-|[]]]; reflexivity.
Qed.

Theorem stream_phase : forall maxc, stream_phase_stmt maxc.
Proof.
  intros maxc rp r sp0 rs t xs pf ds u Hok Hst E0 Hrs Hcl Hnp Hw Hleg Hrun.
  destruct (into_stream_parser_inv rp r Hok Hst)
    as (p0 & E0' & Hsp & Hq0 & Hs0 & HB0 & _ & _ & _ & _ & _ & Habs).
  rewrite E0 in E0'. injection E0' as <-.
  set (role := r_role r) in *. set (id := r_id r) in *.
  assert (HP0 : PosC role id rs t sp0 (xfed xs ++ u)).
  { unfold PosC, Pos. rewrite Habs. cbn [a_B a_space a_parsed a_raw a_out a_req a_stream a_prem a_pad a_st].
    rewrite Hw. exists [], rs, []. split; [reflexivity|]. split; [reflexivity|]. split; reflexivity. }
  assert (Hst0 : match stream sp0 with
                 | Some c => In c (role_input_streams role)
                 | None => existsb is_parse xs = false end).
  { rewrite Hs0. destruct (next_input_stream role None) as [e|] eqn:En.
    - apply next_input_none_in. exact En.
    - apply Hnp. reflexivity. }
  destruct (xrun_pos maxc role id rs t Hrs xs sp0 u pf ds Hsp (f_equal r_role Hq0) (f_equal r_id Hq0) Hcl Hst0 HP0 Hleg Hrun)
    as (If & Qf & Bf & Pf).
  split; [exact If|]. split; [congruence|]. split; [congruence|].
  split.
  - intros sg Hin.
    destruct (xrun_owed maxc sg xs sp0 u pf ds Hsp Hleg Hrun) as (more & Hm).
    assert (Hsel : sel_ok (Some sg)) by (apply (role_input_is_input role); exact Hin).
    assert (Hwhole : CF role id (Some sg) false 0 0 (enc_rcds rs ++ t) = content_rcds role id (Some sg) rs).
    { rewrite (CF_rcds role id (Some sg) rs t Hrs Hsel).
      unfold closes_streams in Hcl. rewrite Forall_forall in Hcl. rewrite (Hcl sg Hin). apply app_nil_r. }
    destruct (into_stream_parser_targets maxc rp r sp0 Hok Hst E0 (xfed xs ++ u)) as (HK & _ & HF).
    fold role id in HK, HF. rewrite Hw in HK, HF.
    change (content_from role id (content_fuel ?w) ?s false 0 0 ?w) with (CF role id s false 0 0 w) in HK, HF.
    unfold owed in Hm. rewrite Hq0 in Hm. fold role in Hm.
    destruct (optN_eqb (stream sp0) (Some sg)) eqn:Eq.
    + apply optN_eqb_eq in Eq. rewrite Hs0 in Eq. rewrite HK, Eq, Hwhole in Hm. exists more. exact Hm.
    + destruct (stream sp0) as [cur|].
      * destruct (cmp_input_streams role sg (Some cur)) as [[| |]|];
          try (symmetry in Hm; apply app_eq_nil in Hm; destruct Hm as [-> _]; eexists; cbn [app]; reflexivity).
        rewrite HF, Hwhole in Hm. exists more. exact Hm.
      * symmetry in Hm. apply app_eq_nil in Hm. destruct Hm as [-> _]. eexists. cbn [app]. reflexivity.
  - intros Hb. unfold is_record_boundary in Hb. apply andb_true_iff in Hb. destruct Hb as [Hb1 Hb2].
    apply N.eqb_eq in Hb1. apply N.eqb_eq in Hb2.
    unfold PosC, Pos, abs in Pf. cbn [a_B a_space a_parsed a_raw a_out a_req a_stream a_prem a_pad a_st] in Pf.
    destruct Pf as (done & todo & b & E1 & _ & Hlb & Hwf).
    assert (Hnil : b = []) by (apply len_zero_nil; lia). subst b.
    exists done, todo. split; [exact E1|exact Hwf].
Qed.

(* ---- the hypotheses are satisfiable: the Filter request of StreamFinal.v, both epochs in one run ---- *)
Definition exs_xs : list xop := map XC exf_ops1 ++ [XSel RT_Data] ++ map XC exf_ops2.

Example exs_closes : closes_streams (r_role exf_r) (r_id exf_r) exf_rs.
Proof. unfold closes_streams. vm_compute. repeat constructor. Qed.

Example exs_legal : xlegal 10 exf_sp0 exs_xs.
Proof.
  vm_compute. repeat split; try discriminate; try (repeat constructor);
    try (intros H; exfalso; apply H; reflexivity).
Qed.

Example exs_wire : held exf_rp ++ xfed exs_xs ++ [] = enc_rcds exf_rs ++ [].
Proof. vm_compute. reflexivity. Qed.

Example exs_run_values :
  match xrun 10 exf_sp0 exs_xs with
  | Some (pf, ds) => (delivered (Some RT_Stdin) ds, delivered (Some RT_Data) ds, raw_bytes pf, is_record_boundary pf)
                     = ([97; 98; 99], [120], enc_rcds [mkRcd RT_Data 1 [] []], true)
  | None => False
  end.
Proof. vm_compute. reflexivity. Qed.

Example exs_stream_phase pf ds : xrun 10 exf_sp0 exs_xs = Some (pf, ds) ->
  sp_inv pf /\ sreq pf = exf_r /\ len (buffer pf) = 128 /\
  (exists more, [97; 98; 99] = delivered (Some RT_Stdin) ds ++ more) /\
  (exists more, [120; 121; 122] = delivered (Some RT_Data) ds ++ more) /\
  (is_record_boundary pf = true ->
     exists done todo, exf_rs = done ++ todo /\ raw_bytes pf ++ [] = enc_rcds todo ++ []).
Proof.
  intros Hrun. destruct exf_parser_ok as (Hok & Hst & E0).
  destruct (stream_phase 10 exf_rp exf_r exf_sp0 exf_rs [] exs_xs pf ds [] Hok Hst E0 exf_rcds_ok exs_closes
              ltac:(intros H; vm_compute in H; discriminate H) exs_wire exs_legal Hrun) as (I & Q & B & D & P).
  split; [exact I|]. split; [exact Q|]. split; [exact B|].
  split; [apply (D RT_Stdin); vm_compute; auto|]. split; [apply (D RT_Data); vm_compute; auto|exact P].
Qed.

Print Assumptions stream_phase.
