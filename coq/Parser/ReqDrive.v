(* Parser/ReqDrive.v — proofs about the request-parser state machine (Parser/ReqModel.v):
   totality of the drive loop, exact additivity over split input, Parser::parse facts,
   read schedules (chunking invariance).  Statements: Parser/ReqTargets.v.
   The facts S1-S4 about ParamsStateInner::parse_stream (Parser/ReqParamsSpec.v) are Section
   hypotheses here; Parser/ReqParams.v proves them. *)
From Coq Require Import ZArith ZifyBool ZifyNat ZifyN.
From FV Require Import Base.Bytes Base.BytesLemmas Gen.Generated Codec.Varint Codec.VarintProofs
  Codec.NV Codec.NVProofs Codec.Header Codec.Bodies Codec.Vars Codec.ProtoProofs
  Parser.ReqModel Parser.ReqParamsSpec Parser.ReqWire Parser.ReqTargets.
Ltac Zify.zify_post_hook ::= Z.div_mod_to_equations.

(* ================= generic helpers ================= *)

Definition suffix (r d : bytes) : Prop := exists c, d = c ++ r.

Lemma suffix_refl d : suffix d d.
Proof. exists []. reflexivity. Qed.

Lemma suffix_nil d : suffix [] d.
Proof. exists d. rewrite app_nil_r. reflexivity. Qed.

Lemma suffix_drop n d : suffix (drop n d) d.
Proof. exists (take n d). symmetry. apply take_drop. Qed.

Lemma suffix_trans a b c : suffix a b -> suffix b c -> suffix a c.
Proof. intros [x Hx] [y Hy]. exists (y ++ x). rewrite Hy, Hx, app_assoc. reflexivity. Qed.

Lemma suffix_len r d : suffix r d -> len r <= len d.
Proof. intros [c Hc]. rewrite Hc, len_app. lia. Qed.

Lemma suffix_ok r d : suffix r d -> bytes_ok d -> bytes_ok r.
Proof. intros [c Hc] H. rewrite Hc in H. apply bytes_ok_app in H. tauto. Qed.

Lemma suffix_app r d x : suffix r d -> suffix (r ++ x) (d ++ x).
Proof. intros [c Hc]. exists c. rewrite Hc, app_assoc. reflexivity. Qed.

Lemma pair_eta {A B} (x : A * B) : (fst x, snd x) = x.
Proof. destruct x; reflexivity. Qed.

Lemma nthN_lt l i : bytes_ok l -> nthN l i < 256.
Proof.
  unfold nthN, bytes_ok. intros H. generalize (N.to_nat i) as k.
  induction H as [|x l Hx Hl IH]; intros k.
  - destruct k; cbn [nth]; lia.
  - destruct k as [|k]; cbn [nth]; [exact Hx|apply IH].
Qed.

Lemma be16_lt a b : a < 256 -> b < 256 -> be16 a b < 65536.
Proof. unfold be16. lia. Qed.

Lemma len_pos_not_nil {A} (l : list A) : l <> [] <-> 0 < len l.
Proof.
  destruct l as [|x l].
  - change (len (@nil A)) with 0. split; intros H; [congruence|lia].
  - rewrite len_cons. split; intros H; [lia|congruence].
Qed.

(* a buffer that satisfies the ParamsStateInner invariant is short *)
Lemma buf_ok_len b : buf_ok b -> len b < 8589934592.
Proof.
  intros [Hok Hn]. unfold nv_next in Hn.
  pose proof (vi_read_complete b Hok) as C1.
  destruct (vi_read b) as [[nl c1]|] eqn:E1.
  - destruct C1 as [Hnl [h [Hb Hh]]].
    assert (Hh4 : len h <= 4).
    { destruct b as [|b0 b']; [contradiction|]. destruct (b0 <? 128); lia. }
    assert (Hok1 : bytes_ok c1) by (rewrite Hb in Hok; apply bytes_ok_app in Hok; tauto).
    pose proof (vi_read_complete c1 Hok1) as C2.
    assert (Hlb : len b = len h + len c1) by (rewrite Hb at 1; apply len_app).
    destruct (vi_read c1) as [[vl c2]|] eqn:E2.
    + destruct C2 as [Hvl [h2 [Hc1 Hh2]]].
      assert (Hh24 : len h2 <= 4).
      { destruct c1 as [|b0 b']; [contradiction|]. destruct (b0 <? 128); lia. }
      assert (Hlc : len c1 = len h2 + len c2) by (rewrite Hc1 at 1; apply len_app).
      unfold USIZE_MAX, VARINT_MAX in *.
      destruct (N.ltb_spec 18446744073709551615 (len b - len c2 + nl + vl)) as [H1|H1]; [lia|].
      destruct (N.ltb_spec (len b) (len b - len c2 + nl + vl)) as [H2|H2]; [lia|discriminate].
    + destruct c1 as [|b0 r]; [rewrite len_nil in Hlb; lia|].
      rewrite len_cons in Hlb. lia.
  - destruct b as [|b0 r]; [rewrite len_nil; lia|]. rewrite len_cons. lia.
Qed.

Lemma buf_ok_nil : buf_ok [].
Proof. split; [constructor|reflexivity]. Qed.

(* ---- the bytes the parser emits are bytes ---- *)
Lemma to_be16_ok v : bytes_ok (to_be16 v).
Proof. unfold to_be16, bytes_ok, byte_ok. repeat constructor; lia. Qed.

Lemma to_be32_ok v : bytes_ok (to_be32 v).
Proof. unfold to_be32, bytes_ok, byte_ok. repeat constructor; lia. Qed.

Lemma unk_record_ok t id : t < 256 -> bytes_ok (unk_record t id).
Proof.
  intros Ht. unfold unk_record, unk_encode. apply bytes_ok_app. split.
  - apply hdr_encode_ok; unfold RT_Unknown; lia.
  - constructor; [exact Ht|apply bytes_ok_zeros].
Qed.

Lemma end_record_ok ps id : ps < 256 -> bytes_ok (end_record 0 ps id).
Proof.
  intros Hp. unfold end_record, end_encode. apply bytes_ok_app. split.
  - apply hdr_encode_ok; unfold RT_EndRequest; lia.
  - apply bytes_ok_app. split; [apply to_be32_ok|].
    apply bytes_ok_app. split; [constructor; [exact Hp|constructor]|apply bytes_ok_zeros].
Qed.

Lemma dec_digits_ok fuel : forall n acc, bytes_ok acc -> bytes_ok (dec_digits fuel n acc).
Proof.
  induction fuel as [|f IH]; intros n acc Ha; cbn [dec_digits]; [exact Ha|].
  assert (Hc : bytes_ok ((48 + n mod 10) :: acc)) by (constructor; [unfold byte_ok; lia|exact Ha]).
  destruct (n / 10 =? 0); [exact Hc|apply IH; exact Hc].
Qed.

Lemma var_value_ok maxc bit : bytes_ok (var_value maxc bit).
Proof.
  unfold var_value. destruct (memN bit PV_MAXCONNS_VALUED).
  - unfold decimal. apply dec_digits_ok. constructor.
  - unfold PV_CONST_VALUED. cbn [find fst snd]. destruct (4 =? bit); cbn [snd].
    + apply bytes_okb_ok. reflexivity.
    + constructor.
Qed.

Lemma nv_write_ok name value : bytes_ok name -> bytes_ok value ->
  bytes_ok (match nv_write name value with Some b => b | None => [] end).
Proof.
  intros Hn Hv. unfold nv_write. rewrite !vi_try_from_usize_spec.
  destruct (N.leb_spec (len name) VARINT_MAX) as [H1|H1]; [|constructor].
  destruct (N.leb_spec (len value) VARINT_MAX) as [H2|H2]; [|constructor].
  apply bytes_ok_app. split; [apply vi_write_ok; exact H1|].
  apply bytes_ok_app. split; [apply vi_write_ok; exact H2|].
  apply bytes_ok_app. split; assumption.
Qed.

Lemma response_body_ok vars maxc : bytes_ok (response_body vars maxc).
Proof.
  unfold response_body.
  assert (G : forall tbl, Forall (fun e => bytes_ok (fst e)) tbl ->
    bytes_ok (flat_map (fun e : bytes * N => if N.land vars (snd e) =? snd e
       then match nv_write (fst e) (var_value maxc (snd e)) with Some b => b | None => [] end
       else []) tbl)).
  { induction 1 as [|e t He Ht IH]; cbn [flat_map]; [constructor|].
    apply bytes_ok_app. split; [|exact IH].
    destruct (N.land vars (snd e) =? snd e); [|constructor].
    apply nv_write_ok; [exact He|apply var_value_ok]. }
  apply G. unfold PROTOCOL_VARIABLES.
  repeat constructor; cbn [fst]; apply bytes_okb_ok; reflexivity.
Qed.

Lemma write_response_ok vars maxc : bytes_ok (write_response vars maxc).
Proof.
  unfold write_response. apply bytes_ok_app. split.
  - apply hdr_encode_ok; [unfold RT_GetValuesResult; lia|].
    pose proof (pad_rule (len (response_body vars maxc) mod 65536)) as [P _]. lia.
  - apply bytes_ok_app. split; [apply response_body_ok|apply bytes_ok_zeros].
Qed.

(* ---- hdr_decode ---- *)
Lemma hdr_decode_ok_inv h t id cl pl : hdr_decode h = HOk t id cl pl ->
  t = nthN h 1 /\ id = be16 (nthN h 2) (nthN h 3) /\ cl = be16 (nthN h 4) (nthN h 5) /\ pl = nthN h 6.
Proof.
  unfold hdr_decode. destruct (negb (known_version (nthN h 0))); [discriminate|].
  destruct (negb (known_type (nthN h 1))); [discriminate|].
  intros H; inversion H; subst. repeat split; reflexivity.
Qed.

Lemma hdr_decode_badtype_inv h t : hdr_decode h = HBadType t -> t = nthN h 1.
Proof.
  unfold hdr_decode. destruct (negb (known_version (nthN h 0))); [discriminate|].
  destruct (negb (known_type (nthN h 1))); [|discriminate].
  intros H; inversion H; reflexivity.
Qed.

(* ---- vars_of_pairs is a fold ---- *)
Lemma vars_of_pairs_app v a b : vars_of_pairs v (a ++ b) = vars_of_pairs (vars_of_pairs v a) b.
Proof. unfold vars_of_pairs. apply fold_left_app. Qed.

(* ---- the skip sub-state (SkipState::drive) ---- *)
Lemma skip_post wrap nxt p q d :
  match skip_drive wrap nxt p q d with
  | Break r s' => r = [] /\ exists p' q', s' = wrap p' q' /\ p' <= p /\ q' <= q /\ 0 < p' + q'
  | Continue r s' => s' = nxt /\ r = drop (p + q) d /\ p + q <= len d
  | PANIC _ => False
  end.
Proof.
  unfold skip_drive. cbv zeta.
  destruct (N.ltb_spec (len d) p) as [H1|H1].
  - split; [reflexivity|]. exists (p - len d), q. repeat split; lia.
  - destruct (N.ltb_spec (len d) (p + q)) as [H2|H2].
    + split; [reflexivity|]. exists 0, (q - (len d - p)). repeat split; lia.
    + repeat split. exact H2.
Qed.

Lemma skip_add wrap nxt p q d d2 :
  match skip_drive wrap nxt p q d with
  | Break r s' => exists p' q', s' = wrap p' q' /\
      skip_drive wrap nxt p q (d ++ d2) = skip_drive wrap nxt p' q' (r ++ d2)
  | Continue r s' => skip_drive wrap nxt p q (d ++ d2) = Continue (r ++ d2) s'
  | PANIC _ => True
  end.
Proof.
  unfold skip_drive. cbv zeta. rewrite len_app.
  destruct (N.ltb_spec (len d) p) as [H1|H1].
  - exists (p - len d), q. split; [reflexivity|]. cbn [app].
    destruct (N.ltb_spec (len d + len d2) p) as [H2|H2];
      destruct (N.ltb_spec (len d2) (p - len d)) as [H3|H3]; try lia.
    + f_equal. f_equal. lia.
    + destruct (N.ltb_spec (len d + len d2) (p + q)) as [H4|H4];
        destruct (N.ltb_spec (len d2) (p - len d + q)) as [H5|H5]; try lia.
      * f_equal. f_equal. lia.
      * f_equal. rewrite drop_app_ge by lia. f_equal. lia.
  - destruct (N.ltb_spec (len d) (p + q)) as [H2|H2].
    + exists 0, (q - (len d - p)). split; [reflexivity|]. cbn [app].
      destruct (N.ltb_spec (len d + len d2) p) as [H3|H3]; [lia|].
      destruct (N.ltb_spec (len d2) 0) as [H4|H4]; [lia|].
      destruct (N.ltb_spec (len d + len d2) (p + q)) as [H5|H5];
        destruct (N.ltb_spec (len d2) (0 + (q - (len d - p)))) as [H6|H6]; try lia.
      * f_equal. f_equal. lia.
      * f_equal. rewrite drop_app_ge by lia. f_equal. lia.
    + destruct (N.ltb_spec (len d + len d2) p) as [H3|H3]; [lia|].
      destruct (N.ltb_spec (len d + len d2) (p + q)) as [H4|H4]; [lia|].
      f_equal. apply drop_app_le. exact H2.
Qed.

(* ---- the GetValues sub-state (GetValuesState::drive) ---- *)
Definition values_finish (wrap : N -> N -> N -> state) (nxt : state) (q vars : N) (data o : bytes)
  : flow * bytes :=
  if len data <? q then (Break [] (wrap vars 0 (q - len data)), o)
  else (Continue (drop q data) nxt, o).

Lemma values_drive_eq maxc wrap nxt vars p q data :
  values_drive maxc wrap nxt vars p q data =
  if 0 <? p then
    let '(ps, rest) := nv_run (take (N.min (len data) p) data) in
    if len data <? p then
      (Break (drop (N.min (len data) p - len rest) data)
             (wrap (vars_of_pairs vars ps) (p - (N.min (len data) p - len rest)) q), [])
    else values_finish wrap nxt q (vars_of_pairs vars ps) (drop p data)
                       (write_response (vars_of_pairs vars ps) maxc)
  else values_finish wrap nxt q vars data [].
Proof. reflexivity. Qed.

Lemma values_drive_p0 maxc wrap nxt vars q data :
  values_drive maxc wrap nxt vars 0 q data = values_finish wrap nxt q vars data [].
Proof. reflexivity. Qed.

Lemma values_finish_out wrap nxt q vars data o :
  values_finish wrap nxt q vars data o =
  (fst (values_finish wrap nxt q vars data []), o ++ snd (values_finish wrap nxt q vars data [])).
Proof.
  unfold values_finish. destruct (len data <? q); cbn [fst snd]; rewrite app_nil_r; reflexivity.
Qed.

Lemma finish_post wrap nxt q vars d o :
  match values_finish wrap nxt q vars d o with
  | (Break r s', o') => r = [] /\ o' = o /\ exists q', s' = wrap vars 0 q' /\ 0 < q' <= q
  | (Continue r s', o') => s' = nxt /\ o' = o /\ r = drop q d /\ q <= len d
  | (PANIC _, _) => False
  end.
Proof.
  unfold values_finish. destruct (N.ltb_spec (len d) q) as [H|H].
  - repeat split. exists (q - len d). split; [reflexivity|lia].
  - repeat split. exact H.
Qed.

Lemma finish_add wrap nxt q vars d d2 o :
  match values_finish wrap nxt q vars d o with
  | (Break r s', o') => r = [] /\ o' = o /\ exists q', s' = wrap vars 0 q' /\
      values_finish wrap nxt q vars (d ++ d2) o = values_finish wrap nxt q' vars d2 o
  | (Continue r s', o') => values_finish wrap nxt q vars (d ++ d2) o = (Continue (r ++ d2) s', o')
  | (PANIC _, _) => True
  end.
Proof.
  unfold values_finish. rewrite len_app. destruct (N.ltb_spec (len d) q) as [H|H].
  - repeat split. exists (q - len d). split; [reflexivity|].
    destruct (N.ltb_spec (len d + len d2) q) as [H2|H2];
      destruct (N.ltb_spec (len d2) (q - len d)) as [H3|H3]; try lia.
    + f_equal. f_equal. f_equal. lia.
    + f_equal. f_equal. rewrite drop_app_ge by lia. reflexivity.
  - destruct (N.ltb_spec (len d + len d2) q) as [H2|H2]; [lia|].
    f_equal. f_equal. apply drop_app_le. exact H.
Qed.

Lemma nv_run_split d : exists pre, d = pre ++ snd (nv_run d).
Proof. destruct (nv_run_rest d) as [pre [H _]]. exists pre. exact H. Qed.

Lemma values_post maxc wrap nxt vars p q d :
  match values_drive maxc wrap nxt vars p q d with
  | (Break r s', o) => suffix r d /\ bytes_ok o /\
      exists v' p' q', s' = wrap v' p' q' /\ p' <= p /\ q' <= q /\ 0 < p' + q'
  | (Continue r s', o) => s' = nxt /\ suffix r d /\ bytes_ok o /\ (0 < p -> len r < len d)
  | (PANIC _, _) => False
  end.
Proof.
  rewrite values_drive_eq. destruct (N.ltb_spec 0 p) as [Hp|Hp].
  - destruct (nv_run (take (N.min (len d) p) d)) as [ps rest] eqn:E.
    destruct (N.ltb_spec (len d) p) as [H1|H1].
    + split; [apply suffix_drop|]. split; [constructor|].
      eexists _, _, _. split; [reflexivity|]. lia.
    + pose proof (finish_post wrap nxt q (vars_of_pairs vars ps) (drop p d)
                   (write_response (vars_of_pairs vars ps) maxc)) as F.
      destruct (values_finish wrap nxt q (vars_of_pairs vars ps) (drop p d)
                   (write_response (vars_of_pairs vars ps) maxc)) as [[r s'|r s'|n] o'].
      * destruct F as [Fr [Fo [q' [Fs Fq]]]]. subst r o'. split; [apply suffix_nil|].
        split; [apply write_response_ok|]. eexists _, 0, q'. split; [exact Fs|]. lia.
      * destruct F as [Fs [Fo [Fr Fq]]]. subst r o' s'. split; [reflexivity|].
        split; [eapply suffix_trans; apply suffix_drop|]. split; [apply write_response_ok|].
        intros _. rewrite !len_drop. lia.
      * exact F.
  - pose proof (finish_post wrap nxt q vars d []) as F.
    destruct (values_finish wrap nxt q vars d []) as [[r s'|r s'|n] o'].
    + destruct F as [Fr [Fo [q' [Fs Fq]]]]. subst r o'. split; [apply suffix_nil|].
      split; [constructor|]. eexists _, 0, q'. split; [exact Fs|]. lia.
    + destruct F as [Fs [Fo [Fr Fq]]]. subst r o' s'. split; [reflexivity|].
      split; [apply suffix_drop|]. split; [constructor|]. lia.
    + exact F.
Qed.

Lemma values_add maxc wrap nxt vars p q d d2 : len (d ++ d2) <= USIZE_MAX ->
  match values_drive maxc wrap nxt vars p q d with
  | (Break r s', o) => exists v' p' q', s' = wrap v' p' q' /\
      values_drive maxc wrap nxt vars p q (d ++ d2) =
        (fst (values_drive maxc wrap nxt v' p' q' (r ++ d2)),
         o ++ snd (values_drive maxc wrap nxt v' p' q' (r ++ d2)))
  | (Continue r s', o) => values_drive maxc wrap nxt vars p q (d ++ d2) = (Continue (r ++ d2) s', o)
  | (PANIC _, _) => True
  end.
Proof.
  intros Hsz. rewrite (values_drive_eq maxc wrap nxt vars p q d).
  destruct (N.ltb_spec 0 p) as [Hp|Hp].
  - destruct (N.ltb_spec (len d) p) as [H1|H1].
    + (* the record's payload is not complete in d *)
      replace (N.min (len d) p) with (len d) by lia. rewrite take_all by lia.
      destruct (nv_run d) as [pa ra] eqn:Ea.
      destruct (nv_run_split d) as [pre Hpre]. rewrite Ea in Hpre. cbn [snd] in Hpre.
      assert (Hld : len d = len pre + len ra) by (rewrite Hpre at 1; apply len_app).
      assert (Hdrop : drop (len d - len ra) d = ra).
      { rewrite Hpre at 2. replace (len d - len ra) with (len pre) by lia. apply drop_len_app. }
      rewrite Hdrop.
      exists (vars_of_pairs vars pa), (p - (len d - len ra)), q. split; [reflexivity|].
      rewrite !values_drive_eq.
      destruct (N.ltb_spec 0 p) as [_|?]; [|lia].
      destruct (N.ltb_spec 0 (p - (len d - len ra))) as [_|?]; [|lia].
      rewrite !len_app.
      set (k := N.min (len d + len d2) p - len d).
      assert (Hk1 : take (N.min (len d + len d2) p) (d ++ d2) = d ++ take k d2).
      { rewrite take_app_ge by lia. reflexivity. }
      assert (Hk2 : take (N.min (len ra + len d2) (p - (len d - len ra))) (ra ++ d2) = ra ++ take k d2).
      { rewrite take_app_ge by lia. f_equal. f_equal. lia. }
      rewrite Hk1, Hk2.
      assert (Hsz2 : len (d ++ take k d2) <= USIZE_MAX).
      { rewrite len_app in *. rewrite len_take. lia. }
      rewrite (nv_run_app d (take k d2) Hsz2). rewrite Ea.
      destruct (nv_run (ra ++ take k d2)) as [pb rb] eqn:Eb.
      destruct (nv_run_split (ra ++ take k d2)) as [pre2 Hpre2]. rewrite Eb in Hpre2. cbn [snd] in Hpre2.
      assert (Hl2 : len ra + len (take k d2) = len pre2 + len rb).
      { rewrite <- !len_app. rewrite Hpre2 at 1. reflexivity. }
      assert (Hlk : len (take k d2) = k) by (rewrite len_take; lia).
      rewrite vars_of_pairs_app.
      destruct (N.ltb_spec (len d + len d2) p) as [H2|H2];
        destruct (N.ltb_spec (len ra + len d2) (p - (len d - len ra))) as [H3|H3]; try lia.
      * cbn [fst snd app]. f_equal. f_equal.
        -- rewrite Hpre at 2. rewrite <- app_assoc. rewrite drop_app_ge by lia. f_equal. lia.
        -- f_equal. lia.
      * cbn [app]. rewrite pair_eta. f_equal.
        rewrite Hpre at 1. rewrite <- app_assoc. rewrite drop_app_ge by lia. f_equal. lia.
    + (* payload complete *)
      replace (N.min (len d) p) with p by lia.
      destruct (nv_run (take p d)) as [ps rest] eqn:E.
      pose proof (finish_add wrap nxt q (vars_of_pairs vars ps) (drop p d) d2
                   (write_response (vars_of_pairs vars ps) maxc)) as F.
      assert (Hfull : values_drive maxc wrap nxt vars p q (d ++ d2) =
                values_finish wrap nxt q (vars_of_pairs vars ps) (drop p d ++ d2)
                   (write_response (vars_of_pairs vars ps) maxc)).
      { rewrite values_drive_eq. destruct (N.ltb_spec 0 p) as [_|?]; [|lia].
        rewrite len_app. replace (N.min (len d + len d2) p) with p by lia.
        rewrite take_app_le by lia. rewrite E.
        destruct (N.ltb_spec (len d + len d2) p) as [?|_]; [lia|].
        rewrite drop_app_le by lia. reflexivity. }
      destruct (values_finish wrap nxt q (vars_of_pairs vars ps) (drop p d)
                   (write_response (vars_of_pairs vars ps) maxc)) as [[r s'|r s'|n] o'].
      * destruct F as [Fr [Fo [q' [Fs Fe]]]]. subst r o'.
        exists (vars_of_pairs vars ps), 0, q'. split; [exact Fs|].
        rewrite Hfull, Fe. cbn [app]. rewrite values_drive_p0. apply values_finish_out.
      * rewrite Hfull. exact F.
      * exact I.
  - assert (Hp0 : p = 0) by lia. subst p.
    pose proof (finish_add wrap nxt q vars d d2 []) as F.
    destruct (values_finish wrap nxt q vars d []) as [[r s'|r s'|n] o'].
    + destruct F as [Fr [Fo [q' [Fs Fe]]]]. subst r o'.
      exists vars, 0, q'. split; [exact Fs|].
      rewrite !values_drive_p0. rewrite Fe. cbn [app]. symmetry. apply pair_eta.
    + rewrite values_drive_p0. exact F.
    + exact I.
Qed.

(* ---- try_head! ---- *)
Definition no00 (s : state) : Prop :=
  match s with
  | HeaderSkip p q | ParamsSkip _ p q | DoneSkip _ p q => 0 < p + q
  | _ => True
  end.

Lemma try_head_short st sk d : len d < 8 -> try_head st sk d = HeadRet (Break d st) [].
Proof. intros H. unfold try_head, HEADER_LEN. destruct (N.ltb_spec (len d) 8); [reflexivity|lia]. Qed.

Lemma try_head_long st sk d : 8 <= len d ->
  try_head st sk d =
    match hdr_decode (take 8 d) with
    | HOk t id cl pl => HeadOk t id cl pl
    | HBadType t =>
      HeadRet (Continue (drop 8 d) (sk (be16 (nthN (take 8 d) 4) (nthN (take 8 d) 5)) (nthN (take 8 d) 6)))
              (unk_record t (be16 (nthN (take 8 d) 2) (nthN (take 8 d) 3)))
    | HBadVersion v => HeadRet (Break d (Fatal (EUnknownVersion v))) []
    end.
Proof. intros H. unfold try_head, HEADER_LEN. destruct (N.ltb_spec (len d) 8); [lia|reflexivity]. Qed.

Lemma try_head_app st sk d d2 : 8 <= len d ->
  try_head st sk (d ++ d2) =
    match try_head st sk d with
    | HeadOk t id cl pl => HeadOk t id cl pl
    | HeadRet (Break r s) o => HeadRet (Break (r ++ d2) s) o
    | HeadRet (Continue r s) o => HeadRet (Continue (r ++ d2) s) o
    | HeadRet (PANIC n) o => HeadRet (PANIC n) o
    end.
Proof.
  intros H. rewrite (try_head_long st sk d H).
  rewrite try_head_long by (rewrite len_app; lia).
  rewrite take_app_le by lia. rewrite drop_app_le by lia.
  destruct (hdr_decode (take 8 d)); reflexivity.
Qed.

Lemma try_head_ok_inv st sk d t id cl pl : bytes_ok d -> try_head st sk d = HeadOk t id cl pl ->
  8 <= len d /\ t < 256 /\ cl < 65536 /\ pl < 256.
Proof.
  intros Hok H. destruct (N.ltb_spec (len d) 8) as [Hl|Hl].
  - rewrite try_head_short in H by exact Hl. discriminate.
  - rewrite try_head_long in H by exact Hl.
    destruct (hdr_decode (take 8 d)) as [t' id' cl' pl'|v|t'] eqn:E; try discriminate.
    inversion H; subst. apply hdr_decode_ok_inv in E. destruct E as [Et [Eid [Ecl Epl]]].
    pose proof (bytes_ok_take 8 d Hok) as Hh.
    split; [exact Hl|]. subst. split; [apply nthN_lt; exact Hh|].
    split; [apply be16_lt; apply nthN_lt; exact Hh|apply nthN_lt; exact Hh].
Qed.

Lemma try_head_ret_inv st sk d f o : bytes_ok d -> try_head st sk d = HeadRet f o ->
  (f = Break d st /\ o = [] /\ len d < 8) \/
  (exists v, f = Break d (Fatal (EUnknownVersion v)) /\ o = [] /\ 8 <= len d) \/
  (exists p q, f = Continue (drop 8 d) (sk p q) /\ p < 65536 /\ q < 256 /\ bytes_ok o /\ 8 <= len d).
Proof.
  intros Hok H. destruct (N.ltb_spec (len d) 8) as [Hl|Hl].
  - rewrite try_head_short in H by exact Hl. inversion H; subst. left. repeat split. exact Hl.
  - rewrite try_head_long in H by exact Hl. right.
    pose proof (bytes_ok_take 8 d Hok) as Hh.
    destruct (hdr_decode (take 8 d)) as [t' id' cl' pl'|v|t'] eqn:E; try discriminate.
    + inversion H; subst. left. exists v. repeat split. exact Hl.
    + inversion H; subst. right. eexists _, _. split; [reflexivity|].
      split; [apply be16_lt; apply nthN_lt; exact Hh|]. split; [apply nthN_lt; exact Hh|].
      split; [|exact Hl]. apply unk_record_ok. apply hdr_decode_badtype_inv in E. subst t'.
      apply nthN_lt. exact Hh.
Qed.

Lemma into_skip_cases wrap nxt p q :
  (p = 0 /\ q = 0 /\ into_skip wrap nxt p q = nxt) \/ (0 < p + q /\ into_skip wrap nxt p q = wrap p q).
Proof.
  unfold into_skip. destruct (N.eqb_spec p 0) as [Hp|Hp]; destruct (N.eqb_spec q 0) as [Hq|Hq]; cbn [andb].
  - left. repeat split; assumption.
  - right. split; [lia|reflexivity].
  - right. split; [lia|reflexivity].
  - right. split; [lia|reflexivity].
Qed.

Definition sgood (s : state) : Prop := state_ok s /\ no00 s.

Lemma into_skip_good wrap nxt p q : sgood nxt -> (0 < p + q -> sgood (wrap p q)) ->
  sgood (into_skip wrap nxt p q).
Proof.
  intros Hn Hw. destruct (into_skip_cases wrap nxt p q) as [[_ [_ E]]|[Hpq E]]; rewrite E; auto.
Qed.

Lemma header_skip_to_good p q : p < 65536 -> q < 256 -> sgood (header_skip_to p q).
Proof.
  intros Hp Hq. apply into_skip_good; [split; exact I|].
  intros H. split; [split; assumption|exact H].
Qed.

Lemma params_skip_to_good i p q : inner_ok i -> p < 65536 -> q < 256 -> sgood (params_skip_to i p q).
Proof.
  intros Hi Hp Hq. apply into_skip_good.
  - split; [|exact I]. cbn [state_ok]. split; [exact Hi|split; lia].
  - intros H. split; [cbn [state_ok]; split; [exact Hi|split; assumption]|exact H].
Qed.

(* ---- the Header sub-state (HeaderState::drive) ---- *)
Definition header_body (t id cl pl : N) (data : bytes) : flow * bytes :=
  if t =? RT_BeginRequest then
    if negb (BeginRequest_LEN =? cl) then (Break data (Fatal (EInvalidRequestLen cl)), [])
    else if len data <? 16 then (Break data Header, [])
    else
      match begin_decode (slice 8 16 data) with
      | (role, None) =>
        (Continue (drop 16 data) (header_skip_to 0 pl), end_record 0 PS_UnknownRole id)
      | (_, Some (role, flags)) =>
        if id =? 0 then (Break (drop 16 data) (Fatal ENullRequest), [])
        else (Continue (drop 16 data) (Params (mkInner (mkReq id role flags []) []) 0 pl), [])
      end
  else if (t =? RT_GetValues) && hdr_is_management t id then
    (Continue (drop 8 data) (HeaderValues 0 cl pl), [])
  else (Continue (drop 8 data) (header_skip_to cl pl), []).

Lemma header_drive_eq data :
  header_drive data =
    match try_head Header header_skip_to data with
    | HeadRet f o => (f, o)
    | HeadOk t id cl pl => header_body t id cl pl data
    end.
Proof. reflexivity. Qed.

Definition head_post (d : bytes) (res : flow * bytes) : Prop :=
  match res with
  | (Break r s', o) => sgood s' /\ bytes_ok o /\ suffix r d
  | (Continue r s', o) => sgood s' /\ bytes_ok o /\ suffix r d /\ len r + 8 <= len d
  | (PANIC _, _) => False
  end.

Lemma slice_8_16_app (d d2 : bytes) : 16 <= len d -> slice 8 16 (d ++ d2) = slice 8 16 d.
Proof.
  intros H. unfold slice. rewrite drop_app_le by lia. rewrite take_app_le; [reflexivity|].
  rewrite len_drop. lia.
Qed.

Lemma header_post d : bytes_ok d -> head_post d (header_drive d).
Proof.
  intros Hok. rewrite header_drive_eq.
  destruct (try_head Header header_skip_to d) as [t id cl pl|f o] eqn:E.
  - destruct (try_head_ok_inv _ _ _ _ _ _ _ Hok E) as [Hl [Ht [Hcl Hpl]]].
    unfold header_body.
    destruct (t =? RT_BeginRequest).
    + destruct (negb (BeginRequest_LEN =? cl)).
      { split; [split; exact I|]. split; [constructor|apply suffix_refl]. }
      destruct (N.ltb_spec (len d) 16) as [H16|H16].
      { split; [split; exact I|]. split; [constructor|apply suffix_refl]. }
      destruct (begin_decode (slice 8 16 d)) as [role [[role' flags]|]].
      * destruct (id =? 0).
        -- split; [split; exact I|]. split; [constructor|apply suffix_drop].
        -- split; [|split; [constructor|split; [apply suffix_drop|rewrite len_drop; lia]]].
           split; [|exact I]. cbn [state_ok]. split; [exact buf_ok_nil|]. split; [lia|exact Hpl].
      * split; [apply header_skip_to_good; [lia|exact Hpl]|].
        split; [apply end_record_ok; unfold PS_UnknownRole; lia|].
        split; [apply suffix_drop|rewrite len_drop; lia].
    + destruct ((t =? RT_GetValues) && hdr_is_management t id).
      * split; [split; [cbn [state_ok]; split; assumption|exact I]|].
        split; [constructor|]. split; [apply suffix_drop|rewrite len_drop; lia].
      * split; [apply header_skip_to_good; assumption|].
        split; [constructor|]. split; [apply suffix_drop|rewrite len_drop; lia].
  - destruct (try_head_ret_inv _ _ _ _ _ Hok E) as [[Ef [Eo Hl]]|[[v [Ef [Eo Hl]]]|[p [q [Ef [Hp [Hq [Ho Hl]]]]]]]];
      subst f.
    + subst o. split; [split; exact I|]. split; [constructor|apply suffix_refl].
    + subst o. split; [split; exact I|]. split; [constructor|apply suffix_refl].
    + split; [apply header_skip_to_good; assumption|]. split; [exact Ho|].
      split; [apply suffix_drop|rewrite len_drop; lia].
Qed.

(* normalisation of a state that a 0-byte drive would still move (see drive_settle) *)
Definition settle (s : state) : state :=
  match s with
  | HeaderValues _ 0 0 => Header
  | ParamsValues i _ 0 0 => Params i 0 0
  | HeaderSkip 0 0 => Header
  | ParamsSkip i 0 0 => Params i 0 0
  | DoneSkip r 0 0 => Done r
  | _ => s
  end.

(* ================= the state machine ================= *)
Section Drive.
Variable norm : bytes -> bytes.
Variable maxc : N.
Hypothesis HS1 : S1_stmt norm.
Hypothesis HS2 : S2_stmt norm.
Hypothesis HS3 : S3_stmt norm.
Hypothesis HS4 : S4_stmt norm.

(* one-step additivity: what a sub-state drive does on d ++ d2, from what it does on d *)
Definition add_res (H : bytes -> flow * bytes) (d d2 : bytes) : Prop :=
  match H d with
  | (Break r s', o) =>
    H (d ++ d2) = (fst (drive1 norm maxc s' (r ++ d2)), o ++ snd (drive1 norm maxc s' (r ++ d2)))
  | (Continue r s', o) => H (d ++ d2) = (Continue (r ++ d2) s', o)
  | (PANIC _, _) => True
  end.

Lemma header_add d d2 : bytes_ok d -> add_res header_drive d d2.
Proof.
  intros Hok. unfold add_res. rewrite (header_drive_eq d).
  destruct (try_head Header header_skip_to d) as [t id cl pl|f o] eqn:E.
  - destruct (try_head_ok_inv _ _ _ _ _ _ _ Hok E) as [Hl _].
    assert (Hfull : header_drive (d ++ d2) = header_body t id cl pl (d ++ d2)).
    { rewrite header_drive_eq, try_head_app by exact Hl. rewrite E. reflexivity. }
    unfold header_body at 1.
    destruct (t =? RT_BeginRequest) eqn:Et.
    + destruct (negb (BeginRequest_LEN =? cl)) eqn:Ecl.
      { rewrite Hfull. unfold header_body. rewrite Et, Ecl. reflexivity. }
      destruct (N.ltb_spec (len d) 16) as [H16|H16].
      { cbn [drive1 app]. symmetry. apply pair_eta. }
      assert (Hf2 : header_drive (d ++ d2) =
                match begin_decode (slice 8 16 d) with
                | (role, None) =>
                  (Continue (drop 16 d ++ d2) (header_skip_to 0 pl), end_record 0 PS_UnknownRole id)
                | (_, Some (role, flags)) =>
                  if id =? 0 then (Break (drop 16 d ++ d2) (Fatal ENullRequest), [])
                  else (Continue (drop 16 d ++ d2) (Params (mkInner (mkReq id role flags []) []) 0 pl), [])
                end).
      { rewrite Hfull. unfold header_body. rewrite Et, Ecl. rewrite len_app.
        destruct (N.ltb_spec (len d + len d2) 16) as [?|_]; [lia|].
        rewrite slice_8_16_app by lia. rewrite drop_app_le by lia. reflexivity. }
      destruct (begin_decode (slice 8 16 d)) as [role [[role' flags]|]].
      * destruct (id =? 0); rewrite Hf2; reflexivity.
      * exact Hf2.
    + assert (Hf2 : header_drive (d ++ d2) =
                if (t =? RT_GetValues) && hdr_is_management t id
                then (Continue (drop 8 d ++ d2) (HeaderValues 0 cl pl), [])
                else (Continue (drop 8 d ++ d2) (header_skip_to cl pl), [])).
      { rewrite Hfull. unfold header_body. rewrite Et. rewrite drop_app_le by lia. reflexivity. }
      destruct ((t =? RT_GetValues) && hdr_is_management t id); exact Hf2.
  - pose proof (try_head_ret_inv _ _ _ _ _ Hok E) as C.
    destruct C as [[Ef [Eo Hl]]|[[v [Ef [Eo Hl]]]|[p [q [Ef [Hp [Hq [Ho Hl]]]]]]]]; subst f.
    + subst o. cbn [drive1 app]. symmetry. apply pair_eta.
    + subst o. rewrite header_drive_eq, try_head_app by exact Hl. rewrite E. reflexivity.
    + rewrite header_drive_eq, try_head_app by exact Hl. rewrite E. reflexivity.
Qed.

(* ---- the Params sub-state (ParamsState::drive), by stage ---- *)
Definition sh_state (i : inner) (t id cl pl : N) : state :=
  let rid := r_id (ireq i) in
  if (t =? RT_Params) && (id =? rid) then
    if cl =? 0 then into_skip (DoneSkip (ireq i)) (Done (ireq i)) 0 pl else Params i cl pl
  else if (t =? RT_AbortRequest) && (id =? rid) then header_skip_to cl pl
  else if (t =? RT_BeginRequest) && negb (id =? rid) then params_skip_to i cl pl
  else if (t =? RT_GetValues) && hdr_is_management t id then ParamsValues i 0 cl pl
  else params_skip_to i cl pl.

Definition sh_out (i : inner) (t id cl pl : N) : bytes :=
  let rid := r_id (ireq i) in
  if (t =? RT_Params) && (id =? rid) then []
  else if (t =? RT_AbortRequest) && (id =? rid) then end_record 0 PS_RequestComplete rid
  else if (t =? RT_BeginRequest) && negb (id =? rid) then end_record 0 PS_CantMpxConn id
  else [].

Definition stage_head (i : inner) (data : bytes) : flow * bytes :=
  match try_head (Params i 0 0) (params_skip_to i) data with
  | HeadRet f o => (f, o)
  | HeadOk t id cl pl => (Continue (drop 8 data) (sh_state i t id cl pl), sh_out i t id cl pl)
  end.

Definition stage_pad (i : inner) (q : N) (data : bytes) : flow * bytes :=
  if 0 <? q then
    if len data <=? q then (Break [] (Params i 0 (q - len data)), [])
    else stage_head i (drop q data)
  else stage_head i data.

Lemma params_drive_eq i p q data :
  params_drive norm i p q data =
  if 0 <? p then
    if len data <? p then
      match parse_stream norm i data false with
      | None => (PANIC 1, [])
      | Some (i', consumed) =>
        if p <? consumed then (PANIC 2, [])
        else if len data <? consumed then (PANIC 3, [])
        else (Break (drop consumed data) (Params i' (p - consumed) q), [])
      end
    else
      match parse_stream norm i (take p data) true with
      | None => (PANIC 1, [])
      | Some (i', consumed) =>
        if negb (consumed =? p) then (PANIC 4, [])
        else stage_pad i' q (drop p data)
      end
  else stage_pad i q data.
Proof.
  unfold params_drive, stage_pad, stage_head, sh_state, sh_out, HEADER_LEN. cbv zeta.
  destruct (0 <? p).
  - destruct (len data <? p); [reflexivity|].
    destruct (parse_stream norm i (take p data) true) as [[i' c]|]; [|reflexivity].
    destruct (negb (c =? p)); [reflexivity|].
    destruct (0 <? q).
    + destruct (len (drop p data) <=? q); [reflexivity|].
      destruct (try_head (Params i' 0 0) (params_skip_to i') (drop q (drop p data))) as [t id cl pl|f o];
        [|reflexivity].
      destruct ((t =? RT_Params) && (id =? r_id (ireq i'))); [destruct (cl =? 0); reflexivity|].
      destruct ((t =? RT_AbortRequest) && (id =? r_id (ireq i'))); [reflexivity|].
      destruct ((t =? RT_BeginRequest) && negb (id =? r_id (ireq i'))); [reflexivity|].
      destruct ((t =? RT_GetValues) && hdr_is_management t id); reflexivity.
    + destruct (try_head (Params i' 0 0) (params_skip_to i') (drop p data)) as [t id cl pl|f o];
        [|reflexivity].
      destruct ((t =? RT_Params) && (id =? r_id (ireq i'))); [destruct (cl =? 0); reflexivity|].
      destruct ((t =? RT_AbortRequest) && (id =? r_id (ireq i'))); [reflexivity|].
      destruct ((t =? RT_BeginRequest) && negb (id =? r_id (ireq i'))); [reflexivity|].
      destruct ((t =? RT_GetValues) && hdr_is_management t id); reflexivity.
  - destruct (0 <? q).
    + destruct (len data <=? q); [reflexivity|].
      destruct (try_head (Params i 0 0) (params_skip_to i) (drop q data)) as [t id cl pl|f o];
        [|reflexivity].
      destruct ((t =? RT_Params) && (id =? r_id (ireq i))); [destruct (cl =? 0); reflexivity|].
      destruct ((t =? RT_AbortRequest) && (id =? r_id (ireq i))); [reflexivity|].
      destruct ((t =? RT_BeginRequest) && negb (id =? r_id (ireq i))); [reflexivity|].
      destruct ((t =? RT_GetValues) && hdr_is_management t id); reflexivity.
    + destruct (try_head (Params i 0 0) (params_skip_to i) data) as [t id cl pl|f o];
        [|reflexivity].
      destruct ((t =? RT_Params) && (id =? r_id (ireq i))); [destruct (cl =? 0); reflexivity|].
      destruct ((t =? RT_AbortRequest) && (id =? r_id (ireq i))); [reflexivity|].
      destruct ((t =? RT_BeginRequest) && negb (id =? r_id (ireq i))); [reflexivity|].
      destruct ((t =? RT_GetValues) && hdr_is_management t id); reflexivity.
Qed.

Lemma drive1_params0 i q x : drive1 norm maxc (Params i 0 q) x = stage_pad i q x.
Proof. cbn [drive1]. rewrite params_drive_eq. reflexivity. Qed.

Lemma stage_pad_0 i x : stage_pad i 0 x = stage_head i x.
Proof. reflexivity. Qed.

Lemma sh_state_good i t id cl pl : inner_ok i -> cl < 65536 -> pl < 256 -> sgood (sh_state i t id cl pl).
Proof.
  intros Hi Hcl Hpl. unfold sh_state. cbv zeta.
  destruct ((t =? RT_Params) && (id =? r_id (ireq i))).
  - destruct (cl =? 0).
    + apply into_skip_good; [split; exact I|]. intros H. split; [cbn [state_ok]; lia|exact H].
    + split; [|exact I]. cbn [state_ok]. split; [exact Hi|split; assumption].
  - destruct ((t =? RT_AbortRequest) && (id =? r_id (ireq i))); [apply header_skip_to_good; assumption|].
    destruct ((t =? RT_BeginRequest) && negb (id =? r_id (ireq i))); [apply params_skip_to_good; assumption|].
    destruct ((t =? RT_GetValues) && hdr_is_management t id); [|apply params_skip_to_good; assumption].
    split; [|exact I]. cbn [state_ok]. split; [exact Hi|split; assumption].
Qed.

Lemma sh_out_ok i t id cl pl : bytes_ok (sh_out i t id cl pl).
Proof.
  unfold sh_out. cbv zeta.
  destruct ((t =? RT_Params) && (id =? r_id (ireq i))); [constructor|].
  destruct ((t =? RT_AbortRequest) && (id =? r_id (ireq i)));
    [apply end_record_ok; unfold PS_RequestComplete; lia|].
  destruct ((t =? RT_BeginRequest) && negb (id =? r_id (ireq i)));
    [apply end_record_ok; unfold PS_CantMpxConn; lia|constructor].
Qed.

Lemma params00_good i : inner_ok i -> sgood (Params i 0 0).
Proof. intros Hi. split; [|exact I]. cbn [state_ok]. split; [exact Hi|split; lia]. Qed.

Lemma stage_head_post i d : inner_ok i -> bytes_ok d -> head_post d (stage_head i d).
Proof.
  intros Hi Hok. unfold stage_head.
  destruct (try_head (Params i 0 0) (params_skip_to i) d) as [t id cl pl|f o] eqn:E.
  - destruct (try_head_ok_inv _ _ _ _ _ _ _ Hok E) as [Hl [Ht [Hcl Hpl]]].
    split; [apply sh_state_good; assumption|]. split; [apply sh_out_ok|].
    split; [apply suffix_drop|rewrite len_drop; lia].
  - destruct (try_head_ret_inv _ _ _ _ _ Hok E) as [[Ef [Eo Hl]]|[[v [Ef [Eo Hl]]]|[p [q [Ef [Hp [Hq [Ho Hl]]]]]]]];
      subst f.
    + subst o. split; [apply params00_good; exact Hi|]. split; [constructor|apply suffix_refl].
    + subst o. split; [split; exact I|]. split; [constructor|apply suffix_refl].
    + split; [apply params_skip_to_good; assumption|]. split; [exact Ho|].
      split; [apply suffix_drop|rewrite len_drop; lia].
Qed.

Lemma stage_head_add i d d2 : bytes_ok d -> add_res (stage_head i) d d2.
Proof.
  intros Hok. unfold add_res. unfold stage_head at 1.
  destruct (try_head (Params i 0 0) (params_skip_to i) d) as [t id cl pl|f o] eqn:E.
  - destruct (try_head_ok_inv _ _ _ _ _ _ _ Hok E) as [Hl _].
    unfold stage_head. rewrite try_head_app by exact Hl. rewrite E.
    rewrite drop_app_le by lia. reflexivity.
  - pose proof (try_head_ret_inv _ _ _ _ _ Hok E) as C.
    destruct C as [[Ef [Eo Hl]]|[[v [Ef [Eo Hl]]]|[p [q [Ef [Hp [Hq [Ho Hl]]]]]]]]; subst f.
    + subst o. rewrite drive1_params0, stage_pad_0. cbn [app]. symmetry. apply pair_eta.
    + subst o. unfold stage_head. rewrite try_head_app by exact Hl. rewrite E. reflexivity.
    + unfold stage_head. rewrite try_head_app by exact Hl. rewrite E. reflexivity.
Qed.

Lemma head_post_weaken x d res : suffix x d -> head_post x res -> head_post d res.
Proof.
  intros Hs. pose proof (suffix_len _ _ Hs) as Hl.
  destruct res as [[r s'|r s'|n] o]; cbn [head_post].
  - intros [H1 [H2 H3]]. split; [exact H1|]. split; [exact H2|]. eapply suffix_trans; eassumption.
  - intros [H1 [H2 [H3 H4]]]. split; [exact H1|]. split; [exact H2|].
    split; [eapply suffix_trans; eassumption|lia].
  - intros H; exact H.
Qed.

Lemma stage_pad_post i q d : inner_ok i -> q < 256 -> bytes_ok d -> head_post d (stage_pad i q d).
Proof.
  intros Hi Hq Hok. unfold stage_pad. destruct (N.ltb_spec 0 q) as [H0|H0].
  - destruct (N.leb_spec (len d) q) as [H1|H1].
    + split; [|split; [constructor|apply suffix_nil]].
      split; [|exact I]. cbn [state_ok]. split; [exact Hi|split; lia].
    + apply (head_post_weaken (drop q d)); [apply suffix_drop|].
      apply stage_head_post; [exact Hi|apply bytes_ok_drop; exact Hok].
  - apply stage_head_post; assumption.
Qed.

Lemma stage_head_nil i : stage_head i [] = (Break [] (Params i 0 0), []).
Proof. unfold stage_head. rewrite try_head_short by (rewrite len_nil; lia). reflexivity. Qed.

Lemma stage_pad_add i q d d2 : bytes_ok d -> add_res (stage_pad i q) d d2.
Proof.
  intros Hok. destruct (N.ltb_spec 0 q) as [H0|H0].
  - destruct (N.leb_spec (len d) q) as [H1|H1].
    + assert (E1 : stage_pad i q d = (Break [] (Params i 0 (q - len d)), [])).
      { unfold stage_pad. destruct (N.ltb_spec 0 q) as [_|?]; [|lia].
        destruct (N.leb_spec (len d) q) as [_|?]; [reflexivity|lia]. }
      unfold add_res. rewrite E1. rewrite drive1_params0. cbn [app]. rewrite pair_eta.
      unfold stage_pad. rewrite len_app.
      destruct (N.ltb_spec 0 q) as [_|?]; [|lia].
      destruct (N.leb_spec (len d + len d2) q) as [H2|H2].
      * destruct (N.ltb_spec 0 (q - len d)) as [H3|H3].
        -- destruct (N.leb_spec (len d2) (q - len d)) as [_|?]; [|lia].
           f_equal. f_equal. f_equal. lia.
        -- assert (Hd2 : d2 = []) by (apply len_zero_nil; lia). subst d2.
           rewrite stage_head_nil. f_equal. f_equal. f_equal. rewrite len_nil. lia.
      * rewrite drop_app_ge by lia.
        destruct (N.ltb_spec 0 (q - len d)) as [H3|H3].
        -- destruct (N.leb_spec (len d2) (q - len d)) as [?|_]; [lia|]. reflexivity.
        -- replace (q - len d) with 0 by lia. reflexivity.
    + assert (E1 : stage_pad i q d = stage_head i (drop q d)).
      { unfold stage_pad. destruct (N.ltb_spec 0 q) as [_|?]; [|lia].
        destruct (N.leb_spec (len d) q) as [?|_]; [lia|reflexivity]. }
      assert (E2 : stage_pad i q (d ++ d2) = stage_head i (drop q d ++ d2)).
      { unfold stage_pad. rewrite len_app. destruct (N.ltb_spec 0 q) as [_|?]; [|lia].
        destruct (N.leb_spec (len d + len d2) q) as [?|_]; [lia|].
        rewrite drop_app_le by lia. reflexivity. }
      unfold add_res. rewrite E1, E2. apply stage_head_add. apply bytes_ok_drop. exact Hok.
  - assert (Hq : q = 0) by lia. subst q. unfold add_res. rewrite !stage_pad_0.
    apply stage_head_add. exact Hok.
Qed.

(* the size bound under which S1-S4 apply *)
Lemma s_size i x : inner_ok i -> len x < SIZE_LIMIT -> len (ibuf i ++ x) <= USIZE_MAX.
Proof.
  intros Hi Hx. apply buf_ok_len in Hi. rewrite len_app. unfold SIZE_LIMIT, USIZE_MAX in *. lia.
Qed.

Lemma params_post i p q d : inner_ok i -> p < 65536 -> q < 256 -> bytes_ok d -> len d < SIZE_LIMIT ->
  head_post d (params_drive norm i p q d) /\
  (0 < p -> match params_drive norm i p q d with (Continue r _, _) => len r < len d | _ => True end).
Proof.
  intros Hi Hp Hq Hok Hsz. rewrite params_drive_eq.
  destruct (N.ltb_spec 0 p) as [H0|H0].
  - destruct (N.ltb_spec (len d) p) as [H1|H1].
    + destruct (HS1 i d false Hi Hok (s_size i d Hi Hsz)) as [i' [c [E [Hi' [Hc _]]]]].
      rewrite E. destruct (N.ltb_spec p c) as [?|_]; [lia|].
      destruct (N.ltb_spec (len d) c) as [?|_]; [lia|].
      split; [|intros _; exact I].
      split; [|split; [constructor|apply suffix_drop]].
      split; [|exact I]. cbn [state_ok]. split; [exact Hi'|split; lia].
    + assert (Hokt : bytes_ok (take p d)) by (apply bytes_ok_take; exact Hok).
      assert (Hlt : len (take p d) = p) by (rewrite len_take; lia).
      assert (Hszt : len (take p d) < SIZE_LIMIT) by lia.
      destruct (HS1 i (take p d) true Hi Hokt (s_size i _ Hi Hszt)) as [i' [c [E [Hi' [Hc [Hc2 _]]]]]].
      specialize (Hc2 eq_refl). rewrite E.
      destruct (N.eqb_spec c p) as [_|?]; [|lia]. cbn [negb].
      pose proof (stage_pad_post i' q (drop p d) Hi' Hq (bytes_ok_drop p d Hok)) as P.
      split; [apply (head_post_weaken (drop p d)); [apply suffix_drop|exact P]|].
      intros _. destruct (stage_pad i' q (drop p d)) as [[r s'|r s'|n] o]; try exact I.
      cbn [head_post] in P. destruct P as [_ [_ [_ P]]]. rewrite len_drop in P. lia.
  - split; [apply stage_pad_post; assumption|lia].
Qed.

Lemma params_add i p q d d2 : inner_ok i -> bytes_ok (d ++ d2) -> len (d ++ d2) < SIZE_LIMIT ->
  add_res (params_drive norm i p q) d d2.
Proof.
  intros Hi Hok Hsz. apply bytes_ok_app in Hok as [Hok1 Hok2].
  assert (Hsz1 : len d < SIZE_LIMIT) by (rewrite len_app in Hsz; lia).
  destruct (N.ltb_spec 0 p) as [H0|H0].
  - destruct (N.ltb_spec (len d) p) as [H1|H1].
    + (* payload incomplete in d *)
      destruct (HS1 i d false Hi Hok1 (s_size i d Hi Hsz1)) as [i' [c [E [Hi' [Hc _]]]]].
      assert (E1 : params_drive norm i p q d = (Break (drop c d) (Params i' (p - c) q), [])).
      { rewrite params_drive_eq. destruct (N.ltb_spec 0 p) as [_|?]; [|lia].
        destruct (N.ltb_spec (len d) p) as [_|?]; [|lia]. rewrite E.
        destruct (N.ltb_spec p c) as [?|_]; [lia|].
        destruct (N.ltb_spec (len d) c) as [?|_]; [lia|reflexivity]. }
      unfold add_res. rewrite E1. cbn [drive1 app]. rewrite pair_eta.
      rewrite !params_drive_eq.
      destruct (N.ltb_spec 0 p) as [_|?]; [|lia].
      destruct (N.ltb_spec 0 (p - c)) as [_|?]; [|lia].
      rewrite !len_app, len_drop.
      destruct (N.ltb_spec (len d + len d2) p) as [H2|H2];
        destruct (N.ltb_spec (len d - c + len d2) (p - c)) as [H3|H3]; try lia.
      * rewrite (HS3 i d d2 false Hi Hok1 Hok2) by (apply s_size; assumption).
        rewrite E.
        destruct (parse_stream norm i' (drop c d ++ d2) false) as [[i2 c2]|]; [|reflexivity].
        destruct (N.ltb_spec p (c + c2)) as [H4|H4];
          destruct (N.ltb_spec (p - c) c2) as [H5|H5]; try lia; [reflexivity|].
        destruct (N.ltb_spec (len d + len d2) (c + c2)) as [H6|H6];
          destruct (N.ltb_spec (len d - c + len d2) c2) as [H7|H7]; try lia; [reflexivity|].
        f_equal. f_equal.
        -- rewrite <- (drop_app_le c d d2) by lia. rewrite drop_drop. reflexivity.
        -- f_equal. lia.
      * assert (T1 : take p (d ++ d2) = d ++ take (p - len d) d2) by (apply take_app_ge; lia).
        assert (T2 : take (p - c) (drop c d ++ d2) = drop c d ++ take (p - len d) d2).
        { rewrite take_app_ge by (rewrite len_drop; lia). rewrite len_drop. f_equal. f_equal. lia. }
        rewrite T1, T2.
        rewrite (HS3 i d (take (p - len d) d2) true Hi Hok1 (bytes_ok_take _ _ Hok2)).
        2:{ apply s_size; [exact Hi|]. rewrite len_app in *. rewrite len_take. lia. }
        rewrite E.
        destruct (parse_stream norm i' (drop c d ++ take (p - len d) d2) true) as [[i2 c2]|]; [|reflexivity].
        destruct (N.eqb_spec (c + c2) p) as [H4|H4];
          destruct (N.eqb_spec c2 (p - c)) as [H5|H5]; try lia; cbn [negb]; [|reflexivity].
        f_equal. rewrite <- (drop_app_le c d d2) by lia. rewrite drop_drop. f_equal. lia.
    + (* payload complete in d *)
      assert (Hokt : bytes_ok (take p d)) by (apply bytes_ok_take; exact Hok1).
      assert (Hlt : len (take p d) = p) by (rewrite len_take; lia).
      assert (Hszt : len (take p d) < SIZE_LIMIT) by lia.
      destruct (HS1 i (take p d) true Hi Hokt (s_size i _ Hi Hszt)) as [i' [c [E [Hi' [Hc [Hc2 _]]]]]].
      specialize (Hc2 eq_refl).
      assert (E1 : params_drive norm i p q d = stage_pad i' q (drop p d)).
      { rewrite params_drive_eq. destruct (N.ltb_spec 0 p) as [_|?]; [|lia].
        destruct (N.ltb_spec (len d) p) as [?|_]; [lia|]. rewrite E.
        destruct (N.eqb_spec c p) as [_|?]; [reflexivity|lia]. }
      assert (E2 : params_drive norm i p q (d ++ d2) = stage_pad i' q (drop p d ++ d2)).
      { rewrite params_drive_eq. rewrite len_app. destruct (N.ltb_spec 0 p) as [_|?]; [|lia].
        destruct (N.ltb_spec (len d + len d2) p) as [?|_]; [lia|].
        rewrite take_app_le by lia. rewrite E.
        destruct (N.eqb_spec c p) as [_|?]; [|lia]. cbn [negb]. rewrite drop_app_le by lia. reflexivity. }
      unfold add_res. rewrite E1, E2. apply stage_pad_add. apply bytes_ok_drop. exact Hok1.
  - assert (E1 : forall x, params_drive norm i p q x = stage_pad i q x).
    { intros x. rewrite params_drive_eq. destruct (N.ltb_spec 0 p) as [?|_]; [lia|reflexivity]. }
    unfold add_res. rewrite !E1. apply stage_pad_add. exact Hok1.
Qed.

(* ---- one step of State::drive: postcondition and additivity ---- *)
Definition kappa (s : state) : N :=
  match s with Header | Params _ _ _ | Done _ | Fatal _ => 0 | _ => 1 end.

Lemma kappa_le1 s : kappa s <= 1.
Proof. destruct s; cbn [kappa]; lia. Qed.

Definition step_post (s : state) (d : bytes) (res : flow * bytes) : Prop :=
  match res with
  | (PANIC _, _) => False
  | (Break r s', o) => sgood s' /\ bytes_ok o /\ suffix r d
  | (Continue r s', o) =>
    sgood s' /\ bytes_ok o /\ suffix r d /\ 2 * len r + kappa s' < 2 * len d + kappa s
  end.

Lemma head_post_step s d res : head_post d res -> step_post s d res.
Proof.
  destruct res as [[r s'|r s'|n] o]; cbn [head_post step_post]; [tauto| |tauto].
  intros [H1 [H2 [H3 H4]]]. pose proof (kappa_le1 s'). repeat split; try assumption; try apply H1. lia.
Qed.

Lemma skip_step wrap nxt p q d s :
  (forall p' q', p' <= p -> q' <= q -> 0 < p' + q' -> sgood (wrap p' q')) ->
  sgood nxt -> kappa nxt = 0 -> kappa s = 1 ->
  step_post s d (skip_drive wrap nxt p q d, []).
Proof.
  intros Hw Hn Kn Ks. pose proof (skip_post wrap nxt p q d) as P.
  destruct (skip_drive wrap nxt p q d) as [r s'|r s'|n]; cbn [step_post].
  - destruct P as [Hr [p' [q' [Hs [Hp [Hq Hpq]]]]]]. subst r s'.
    split; [apply Hw; assumption|]. split; [constructor|apply suffix_nil].
  - destruct P as [Hs [Hr Hl]]. subst r s'. split; [exact Hn|]. split; [constructor|].
    split; [apply suffix_drop|]. rewrite len_drop. lia.
  - exact P.
Qed.

Lemma values_step wrap nxt vars p q d s :
  (forall v' p' q', p' <= p -> q' <= q -> sgood (wrap v' p' q')) ->
  sgood nxt -> kappa nxt = 0 -> kappa s = 1 ->
  step_post s d (values_drive maxc wrap nxt vars p q d).
Proof.
  intros Hw Hn Kn Ks. pose proof (values_post maxc wrap nxt vars p q d) as P.
  destruct (values_drive maxc wrap nxt vars p q d) as [[r s'|r s'|n] o]; cbn [step_post].
  - destruct P as [Hr [Ho [v' [p' [q' [Hs [Hp [Hq Hpq]]]]]]]]. subst s'.
    split; [apply Hw; assumption|]. split; assumption.
  - destruct P as [Hs [Hr [Ho _]]]. subst s'. split; [exact Hn|]. split; [exact Ho|].
    split; [exact Hr|]. apply suffix_len in Hr. lia.
  - exact P.
Qed.

Lemma drive1_post s d : state_ok s -> bytes_ok d -> len d < SIZE_LIMIT ->
  step_post s d (drive1 norm maxc s d).
Proof.
  intros Hs Hok Hsz. destruct s as [|p q|vars p q|i p q|i p q|i vars p q|r p q|r|e]; cbn [drive1 state_ok] in *.
  - apply head_post_step. apply header_post. exact Hok.
  - apply skip_step; try reflexivity; [|split; exact I].
    intros p' q' Hp Hq Hpq. split; [cbn [state_ok]; lia|exact Hpq].
  - apply values_step; try reflexivity; [|split; exact I].
    intros v' p' q' Hp Hq. split; [cbn [state_ok]; lia|exact I].
  - destruct Hs as [Hi [Hp Hq]]. apply head_post_step. apply params_post; assumption.
  - destruct Hs as [Hi [Hp Hq]]. apply skip_step; try reflexivity; [|apply params00_good; exact Hi].
    intros p' q' Hp' Hq' Hpq. split; [cbn [state_ok]; split; [exact Hi|lia]|exact Hpq].
  - destruct Hs as [Hi [Hp Hq]]. apply values_step; try reflexivity; [|apply params00_good; exact Hi].
    intros v' p' q' Hp' Hq'. split; [cbn [state_ok]; split; [exact Hi|lia]|exact I].
  - apply skip_step; try reflexivity; [|split; exact I].
    intros p' q' Hp Hq Hpq. split; [cbn [state_ok]; lia|exact Hpq].
  - split; [split; exact I|]. split; [constructor|apply suffix_refl].
  - split; [split; exact I|]. split; [constructor|apply suffix_refl].
Qed.

Lemma skip_add1 wrap nxt p q d d2 :
  (forall p' q' x, drive1 norm maxc (wrap p' q') x = (skip_drive wrap nxt p' q' x, [])) ->
  add_res (fun x => (skip_drive wrap nxt p q x, [])) d d2.
Proof.
  intros Hw. unfold add_res. pose proof (skip_add wrap nxt p q d d2) as A.
  destruct (skip_drive wrap nxt p q d) as [r s'|r s'|n].
  - destruct A as [p' [q' [Hs A]]]. subst s'. rewrite Hw. cbn [fst snd app]. rewrite A. reflexivity.
  - rewrite A. reflexivity.
  - exact I.
Qed.

Lemma values_add1 wrap nxt vars p q d d2 : len (d ++ d2) <= USIZE_MAX ->
  (forall v' p' q' x, drive1 norm maxc (wrap v' p' q') x = values_drive maxc wrap nxt v' p' q' x) ->
  add_res (values_drive maxc wrap nxt vars p q) d d2.
Proof.
  intros Hsz Hw. unfold add_res. pose proof (values_add maxc wrap nxt vars p q d d2 Hsz) as A.
  destruct (values_drive maxc wrap nxt vars p q d) as [[r s'|r s'|n] o].
  - destruct A as [v' [p' [q' [Hs A]]]]. subst s'. rewrite Hw. exact A.
  - exact A.
  - exact I.
Qed.

Lemma drive1_add s d d2 : state_ok s -> bytes_ok (d ++ d2) -> len (d ++ d2) < SIZE_LIMIT ->
  add_res (drive1 norm maxc s) d d2.
Proof.
  intros Hs Hok Hsz.
  assert (Hsz2 : len (d ++ d2) <= USIZE_MAX) by (unfold SIZE_LIMIT, USIZE_MAX in *; lia).
  pose proof Hok as Hok'. apply bytes_ok_app in Hok' as [Hok1 Hok2].
  destruct s as [|p q|vars p q|i p q|i p q|i vars p q|r p q|r|e]; cbn [state_ok] in Hs.
  - exact (header_add d d2 Hok1).
  - apply (skip_add1 HeaderSkip Header). intros; reflexivity.
  - apply (values_add1 HeaderValues Header); [exact Hsz2|]. intros; reflexivity.
  - destruct Hs as [Hi _]. exact (params_add i p q d d2 Hi Hok Hsz).
  - apply (skip_add1 (ParamsSkip i) (Params i 0 0)). intros; reflexivity.
  - apply (values_add1 (ParamsValues i) (Params i 0 0)); [exact Hsz2|]. intros; reflexivity.
  - apply (skip_add1 (DoneSkip r) (Done r)). intros; reflexivity.
  - unfold add_res. cbn [drive1 fst snd app]. reflexivity.
  - unfold add_res. cbn [drive1 fst snd app]. reflexivity.
Qed.

(* ---- the loop State::drive ---- *)
Lemma drive_S f s d out :
  drive norm maxc (S f) s d out =
    match drive1 norm maxc s d with
    | (PANIC n, _) => DPanic n
    | (Break r s', o) => DOk r s' (out ++ o)
    | (Continue r s', o) =>
      match r with [] => DOk r s' (out ++ o) | _ => drive norm maxc f s' r (out ++ o) end
    end.
Proof.
  cbn [drive]. destruct (is_final s) eqn:F; [|reflexivity].
  destruct s; try discriminate; cbn [drive1]; rewrite app_nil_r; reflexivity.
Qed.

Lemma final_good s : is_final s = true -> no00 s.
Proof. destruct s; try discriminate; intros _; exact I. Qed.

Lemma drive_enough : forall f s d out, state_ok s -> bytes_ok d -> len d < SIZE_LIMIT ->
  (N.to_nat (2 * len d + kappa s) < f)%nat ->
  exists r s' o, drive norm maxc f s d out = DOk r s' (out ++ o) /\ sgood s' /\ bytes_ok o /\
                 suffix r d /\ (is_final s = true -> s' = s /\ r = d /\ o = []).
Proof.
  induction f as [|f IH]; intros s d out Hs Hok Hsz Hf; [lia|].
  destruct (is_final s) eqn:F.
  - cbn [drive]. rewrite F. exists d, s, []. rewrite app_nil_r.
    split; [reflexivity|]. split; [split; [exact Hs|apply final_good; exact F]|].
    split; [constructor|]. split; [apply suffix_refl|]. intros _. repeat split.
  - rewrite drive_S. pose proof (drive1_post s d Hs Hok Hsz) as P.
    destruct (drive1 norm maxc s d) as [[r s'|r s'|n] o]; cbn [step_post] in P.
    + destruct P as [P1 [P2 P3]]. exists r, s', o. split; [reflexivity|].
      split; [exact P1|]. split; [exact P2|]. split; [exact P3|]. intros X; discriminate.
    + destruct P as [P1 [P2 [P3 P4]]].
      destruct r as [|b r'].
      * exists [], s', o. split; [reflexivity|]. split; [exact P1|]. split; [exact P2|].
        split; [exact P3|]. intros X; discriminate.
      * pose proof (suffix_len _ _ P3) as Hl.
        destruct (IH s' (b :: r') (out ++ o) (proj1 P1) (suffix_ok _ _ P3 Hok) ltac:(lia) ltac:(lia))
          as [r2 [s2 [o2 [E [G1 [G2 [G3 _]]]]]]].
        exists r2, s2, (o ++ o2). rewrite app_assoc. split; [exact E|]. split; [exact G1|].
        split; [apply bytes_ok_app; split; assumption|].
        split; [eapply suffix_trans; eassumption|]. intros X; discriminate.
    + contradiction.
Qed.

Lemma drive_mono : forall f1 f2 s d out r s' o, (f1 <= f2)%nat ->
  drive norm maxc f1 s d out = DOk r s' o -> drive norm maxc f2 s d out = DOk r s' o.
Proof.
  induction f1 as [|f1 IH]; intros f2 s d out r s' o Hle H; [discriminate|].
  destruct f2 as [|f2]; [lia|]. rewrite drive_S in *.
  destruct (drive1 norm maxc s d) as [[r0 s0|r0 s0|n] o0]; try exact H.
  destruct r0 as [|b r0']; [exact H|]. apply IH; [lia|exact H].
Qed.

Lemma drive_det f1 f2 s d out r1 s1 o1 r2 s2 o2 :
  drive norm maxc f1 s d out = DOk r1 s1 o1 -> drive norm maxc f2 s d out = DOk r2 s2 o2 ->
  r1 = r2 /\ s1 = s2 /\ o1 = o2.
Proof.
  intros H1 H2.
  apply (drive_mono f1 (Nat.max f1 f2)) in H1; [|lia].
  apply (drive_mono f2 (Nat.max f1 f2)) in H2; [|lia].
  rewrite H1 in H2. inversion H2. repeat split.
Qed.

Lemma drive_out : forall f s d out,
  drive norm maxc f s d out =
    match drive norm maxc f s d [] with DOk r s' o => DOk r s' (out ++ o) | x => x end.
Proof.
  induction f as [|f IH]; intros s d out; [reflexivity|]. rewrite !drive_S.
  destruct (drive1 norm maxc s d) as [[r s'|r s'|n] o]; cbn [app]; try reflexivity.
  destruct r as [|b r']; [reflexivity|].
  rewrite (IH s' (b :: r') (out ++ o)), (IH s' (b :: r') o).
  destruct (drive norm maxc f s' (b :: r') []); try reflexivity. rewrite app_assoc. reflexivity.
Qed.

Lemma drive_fuel_enough s d : (N.to_nat (2 * len d + kappa s) < drive_fuel d)%nat.
Proof. unfold drive_fuel, len. pose proof (kappa_le1 s). lia. Qed.

(* totality, in the form used below *)
Lemma drive_all_ok s d : state_ok s -> bytes_ok d -> len d < SIZE_LIMIT ->
  exists r s' o, drive_all norm maxc s d = DOk r s' o /\ sgood s' /\ bytes_ok o /\ suffix r d /\
                 (is_final s = true -> s' = s /\ r = d /\ o = []).
Proof.
  intros Hs Hok Hsz. unfold drive_all.
  destruct (drive_enough (drive_fuel d) s d [] Hs Hok Hsz (drive_fuel_enough s d)) as [r [s' [o H]]].
  exists r, s', o. exact H.
Qed.

Lemma drive_all_eq s d f r s' o : state_ok s -> bytes_ok d -> len d < SIZE_LIMIT ->
  drive norm maxc f s d [] = DOk r s' o -> drive_all norm maxc s d = DOk r s' o.
Proof.
  intros Hs Hok Hsz H. destruct (drive_all_ok s d Hs Hok Hsz) as [r0 [s0 [o0 [E _]]]].
  rewrite E. unfold drive_all in E. destruct (drive_det _ _ _ _ _ _ _ _ _ _ _ E H) as [-> [-> ->]].
  reflexivity.
Qed.

Lemma drive_total : drive_total_stmt norm maxc.
Proof.
  intros s d Hs _ Hok Hsz.
  destruct (drive_all_ok s d Hs Hok Hsz) as [r [s' [o [E [[G1 _] [G2 [G3 G4]]]]]]].
  exists r, s', o. repeat split; try assumption; apply G4; assumption.
Qed.

(* additivity through the loop *)
Lemma drive_add_gen d2 : d2 <> [] -> forall f s d out r1 s1 o1,
  state_ok s -> bytes_ok (d ++ d2) -> len (d ++ d2) < SIZE_LIMIT ->
  drive norm maxc f s d out = DOk r1 s1 o1 ->
  forall f2 r2 s2 o2, drive norm maxc f2 s1 (r1 ++ d2) o1 = DOk r2 s2 o2 ->
  exists F, drive norm maxc F s (d ++ d2) out = DOk r2 s2 o2.
Proof.
  intros Hne. induction f as [|f IH]; intros s d out r1 s1 o1 Hs Hok Hsz H f2 r2 s2 o2 H2; [discriminate|].
  rewrite drive_S in H. pose proof (drive1_add s d d2 Hs Hok Hsz) as A. unfold add_res in A.
  pose proof Hok as Hok'. apply bytes_ok_app in Hok' as [Hok1 Hok2].
  assert (Hsz1 : len d < SIZE_LIMIT) by (rewrite len_app in Hsz; lia).
  pose proof (drive1_post s d Hs Hok1 Hsz1) as P.
  destruct (drive1 norm maxc s d) as [[r s'|r s'|n] o]; cbn [step_post] in P.
  - inversion H; subst r1 s1 o1. destruct f2 as [|f2]; [discriminate|].
    exists (S f2). rewrite drive_S in *. rewrite A.
    destruct (drive1 norm maxc s' (r ++ d2)) as [[r3 s3|r3 s3|n3] o3]; cbn [fst snd];
      rewrite ?app_assoc; exact H2.
  - destruct P as [P1 [P2 [P3 P4]]]. destruct r as [|b r'].
    + inversion H; subst r1 s1 o1. exists (S f2). rewrite drive_S, A. cbn [app] in *.
      destruct d2 as [|b2 d2']; [contradiction|]. exact H2.
    + assert (Hok3 : bytes_ok ((b :: r') ++ d2)).
      { apply bytes_ok_app. split; [eapply suffix_ok; eassumption|exact Hok2]. }
      assert (Hsz3 : len ((b :: r') ++ d2) < SIZE_LIMIT).
      { apply suffix_len in P3. rewrite len_app in *. lia. }
      destruct (IH s' (b :: r') (out ++ o) r1 s1 o1 (proj1 P1) Hok3 Hsz3 H f2 r2 s2 o2 H2) as [F HF].
      exists (S F). rewrite drive_S, A. cbn [app] in *. exact HF.
  - discriminate.
Qed.

(* (A) for a non-empty second part; for d2 = [] see drive_settle / A_counterexample below *)
Definition A'_stmt : Prop := forall s d1 d2, d2 <> [] ->
  state_ok s -> bytes_ok d1 -> bytes_ok d2 -> len (d1 ++ d2) < SIZE_LIMIT ->
  drive_all norm maxc s (d1 ++ d2) =
    match drive_all norm maxc s d1 with
    | DOk r1 s1 o1 =>
      match drive_all norm maxc s1 (r1 ++ d2) with
      | DOk r2 s2 o2 => DOk r2 s2 (o1 ++ o2)
      | x => x
      end
    | x => x
    end.

Lemma drive_additive' : A'_stmt.
Proof.
  intros s d1 d2 Hne Hs Hok1 Hok2 Hsz.
  assert (Hok : bytes_ok (d1 ++ d2)) by (apply bytes_ok_app; split; assumption).
  assert (Hsz1 : len d1 < SIZE_LIMIT) by (rewrite len_app in Hsz; lia).
  destruct (drive_all_ok s d1 Hs Hok1 Hsz1) as [r1 [s1 [o1 [E1 [[G1 _] [G2 [G3 _]]]]]]].
  assert (Hok3 : bytes_ok (r1 ++ d2)).
  { apply bytes_ok_app. split; [eapply suffix_ok; eassumption|exact Hok2]. }
  assert (Hsz3 : len (r1 ++ d2) < SIZE_LIMIT).
  { apply suffix_len in G3. rewrite len_app in *. lia. }
  destruct (drive_all_ok s1 (r1 ++ d2) G1 Hok3 Hsz3) as [r2 [s2 [o2 [E2 _]]]].
  rewrite E1, E2.
  assert (E2' : drive norm maxc (drive_fuel (r1 ++ d2)) s1 (r1 ++ d2) o1 = DOk r2 s2 (o1 ++ o2)).
  { rewrite drive_out. unfold drive_all in E2. rewrite E2. reflexivity. }
  unfold drive_all in E1.
  destruct (drive_add_gen d2 Hne _ _ _ _ _ _ _ Hs Hok Hsz E1 _ _ _ _ E2') as [F HF].
  exact (drive_all_eq _ _ _ _ _ _ Hs Hok Hsz HF).
Qed.

(* ---- settling: what a 0-byte drive does ---- *)
Lemma settle_dec s :
  (settle s = s) \/
  (is_final s = false /\ settle (settle s) = settle s /\ kappa s = 1 /\
   forall x, drive1 norm maxc s x = (Continue x (settle s), [])).
Proof.
  assert (L0 : forall x : bytes, (len x <? 0) = false) by (intros x; destruct (N.ltb_spec (len x) 0); [lia|reflexivity]).
  assert (SK : forall wrap nxt x, skip_drive wrap nxt 0 0 x = Continue x nxt).
  { intros wrap nxt x. unfold skip_drive. cbv zeta. change (0 + 0) with 0. rewrite L0. reflexivity. }
  assert (VA : forall wrap nxt vars x, values_drive maxc wrap nxt vars 0 0 x = (Continue x nxt, [])).
  { intros wrap nxt vars x. rewrite values_drive_p0. unfold values_finish. rewrite L0. reflexivity. }
  destruct s as [|p q|vars p q|i p q|i p q|i vars p q|r p q|r|e]; try (left; reflexivity);
    destruct p as [|pp]; try (left; reflexivity); destruct q as [|qq]; try (left; reflexivity);
    right; cbn [settle is_final drive1 kappa]; repeat split; intros x; rewrite ?SK, ?VA; reflexivity.
Qed.

Lemma settle_idem s : settle (settle s) = settle s.
Proof. destruct (settle_dec s) as [E|[_ [E _]]]; [rewrite E; exact E|exact E]. Qed.

Lemma settle_ok s : state_ok s -> state_ok (settle s).
Proof.
  destruct s as [|p q|vars p q|i p q|i p q|i vars p q|r p q|r|e]; intros H; try exact H;
    destruct p as [|pp]; try exact H; destruct q as [|qq]; try exact H; cbn [settle state_ok] in *;
    try exact I; (split; [apply H|split; lia]).
Qed.

Lemma settle_final s : no00 s -> is_final (settle s) = is_final s.
Proof.
  destruct s as [|p q|vars p q|i p q|i p q|i vars p q|r p q|r|e]; intros H; try reflexivity;
    destruct p as [|pp]; try reflexivity; destruct q as [|qq]; try reflexivity.
  cbn [no00] in H. lia.
Qed.

Lemma settle_final_id s : is_final s = true -> settle s = s.
Proof. destruct s; try discriminate; reflexivity. Qed.

Lemma drive_fuel_S d : exists f, drive_fuel d = S f.
Proof. exists (2 * length d + 3)%nat. unfold drive_fuel. lia. Qed.

(* driving non-empty data from s and from settle s is the same *)
Lemma drive_settle_nonempty s x : state_ok s -> bytes_ok x -> len x < SIZE_LIMIT -> x <> [] ->
  drive_all norm maxc (settle s) x = drive_all norm maxc s x.
Proof.
  intros Hs Hok Hsz Hne. destruct (settle_dec s) as [E|[F [_ [_ E]]]]; [rewrite E; reflexivity|].
  destruct (drive_all_ok (settle s) x (settle_ok s Hs) Hok Hsz) as [r [s' [o [E1 _]]]].
  rewrite E1. symmetry. apply (drive_all_eq s x (S (drive_fuel x))); try assumption.
  rewrite drive_S, E. destruct x as [|b x']; [contradiction|]. exact E1.
Qed.

Lemma ps_nil i : inner_ok i -> parse_stream norm i [] false = Some (i, 0).
Proof.
  intros Hi.
  assert (Hsz : len (ibuf i ++ []) <= USIZE_MAX) by (apply s_size; [exact Hi|rewrite len_nil; unfold SIZE_LIMIT; lia]).
  assert (Hnil : bytes_ok []) by constructor.
  destruct (HS1 i [] false Hi Hnil Hsz) as [i' [c [E [_ [Hc _]]]]].
  pose proof (HS2 i [] false i' c Hi Hnil Hsz E) as H2.
  rewrite app_nil_r in H2. destruct Hi as [_ Hn]. rewrite (nv_run_none _ Hn) in H2.
  destruct H2 as [Hreq Hbuf]. rewrite drop_nil, app_nil_r in Hbuf. cbn [env_extend fold_left] in Hreq.
  rewrite len_nil in Hc. assert (c = 0) by lia. subst c. rewrite E.
  destruct i as [rq bf], i' as [rq' bf']. cbn [ireq ibuf] in *. subst. reflexivity.
Qed.

Lemma drive1_nil_settled s : state_ok s -> settle s = s -> drive1 norm maxc s [] = (Break [] s, []).
Proof.
  intros Hs E.
  destruct s as [|p q|vars p q|i p q|i p q|i vars p q|r p q|r|e]; cbn [drive1].
  - rewrite header_drive_eq, try_head_short by (rewrite len_nil; lia). reflexivity.
  - destruct p as [|pp]; [destruct q as [|qq]; [discriminate|]|]; reflexivity.
  - destruct p as [|pp]; [destruct q as [|qq]; [discriminate|]|]; reflexivity.
  - destruct Hs as [Hi _]. rewrite params_drive_eq. destruct p as [|pp].
    + change (0 <? 0) with false. cbv iota. destruct q as [|qq].
      * rewrite stage_pad_0. apply stage_head_nil.
      * reflexivity.
    + change (0 <? N.pos pp) with true. change (len [] <? N.pos pp) with true. cbv iota.
      rewrite ps_nil by exact Hi. reflexivity.
  - destruct p as [|pp]; [destruct q as [|qq]; [discriminate|]|]; reflexivity.
  - destruct p as [|pp]; [destruct q as [|qq]; [discriminate|]|]; reflexivity.
  - destruct p as [|pp]; [destruct q as [|qq]; [discriminate|]|]; reflexivity.
  - reflexivity.
  - reflexivity.
Qed.

(* a 0-byte drive only settles the state *)
Lemma drive_settle s : state_ok s -> drive_all norm maxc s [] = DOk [] (settle s) [].
Proof.
  intros Hs. unfold drive_all. change (drive_fuel []) with 4%nat. rewrite drive_S.
  destruct (settle_dec s) as [E|[_ [_ [_ E]]]].
  - rewrite drive1_nil_settled by assumption. rewrite E. reflexivity.
  - rewrite E. reflexivity.
Qed.

(* re-driving what a drive left over, without new input, only settles the state *)
Lemma drive_requiesce : forall f s d out r s' o, state_ok s -> bytes_ok d -> len d < SIZE_LIMIT ->
  drive norm maxc f s d out = DOk r s' o ->
  drive_all norm maxc s' r = DOk r (settle s') [].
Proof.
  induction f as [|f IH]; intros s d out r s' o Hs Hok Hsz H; [discriminate|].
  rewrite drive_S in H.
  assert (Hok0 : bytes_ok (d ++ [])) by (rewrite app_nil_r; exact Hok).
  assert (Hsz0 : len (d ++ []) < SIZE_LIMIT) by (rewrite app_nil_r; exact Hsz).
  pose proof (drive1_add s d [] Hs Hok0 Hsz0) as A. unfold add_res in A.
  pose proof (drive1_post s d Hs Hok Hsz) as P.
  destruct (drive1 norm maxc s d) as [[r0 s0|r0 s0|n] o0] eqn:E1; cbn [step_post] in P.
  - inversion H; subst r0 s0 o. rewrite !app_nil_r in A. rewrite E1 in A.
    destruct (drive1 norm maxc s' r) as [f1 o1] eqn:E2. cbn [fst snd] in A.
    inversion A as [[Hf Ho]]. assert (o1 = []).
    { apply (app_inv_head o0). rewrite app_nil_r. symmetry. exact Ho. }
    subst o1 f1.
    assert (Es : settle s' = s').
    { destruct (settle_dec s') as [Es|[_ [_ [_ Es]]]]; [exact Es|]. rewrite Es in E2. discriminate. }
    rewrite Es. unfold drive_all. destruct (drive_fuel_S r) as [f' ->]. rewrite drive_S, E2. reflexivity.
  - destruct P as [P1 [P2 [P3 P4]]]. destruct r0 as [|b r0'].
    + inversion H; subst r s0 o. apply drive_settle. apply P1.
    + apply (IH s0 (b :: r0') (out ++ o0) r s' o); [apply P1|eapply suffix_ok; eassumption| |exact H].
      apply suffix_len in P3. lia.
  - discriminate.
Qed.

Lemma drive_all_requiesce s d r s' o : state_ok s -> bytes_ok d -> len d < SIZE_LIMIT ->
  drive_all norm maxc s d = DOk r s' o -> drive_all norm maxc s' r = DOk r (settle s') [].
Proof. intros Hs Hok Hsz H. exact (drive_requiesce _ _ _ _ _ _ _ Hs Hok Hsz H). Qed.

(* the original (A) for every d2, up to settling; with d2 = [] the second drive only settles *)
Lemma drive_additive_settled s d1 d2 :
  state_ok s -> bytes_ok d1 -> bytes_ok d2 -> len (d1 ++ d2) < SIZE_LIMIT ->
  match drive_all norm maxc s (d1 ++ d2), drive_all norm maxc s d1 with
  | DOk r s' o, DOk r1 s1 o1 =>
    match drive_all norm maxc s1 (r1 ++ d2) with
    | DOk r2 s2 o2 => r2 = r /\ o1 ++ o2 = o /\ settle s2 = settle s'
    | _ => False
    end
  | _, _ => False
  end.
Proof.
  intros Hs Hok1 Hok2 Hsz. destruct d2 as [|b d2'].
  - rewrite !app_nil_r in *.
    destruct (drive_all_ok s d1 Hs Hok1 Hsz) as [r1 [s1 [o1 [E1 _]]]]. rewrite E1.
    rewrite (app_nil_r r1).
    rewrite (drive_all_requiesce s d1 r1 s1 o1 Hs Hok1 Hsz E1). rewrite app_nil_r, settle_idem.
    repeat split.
  - rewrite (drive_additive' s d1 (b :: d2') ltac:(discriminate) Hs Hok1 Hok2 Hsz).
    assert (Hsz1 : len d1 < SIZE_LIMIT) by (rewrite len_app in Hsz; lia).
    destruct (drive_all_ok s d1 Hs Hok1 Hsz1) as [r1 [s1 [o1 [E1 [[G1 _] [G2 [G3 _]]]]]]]. rewrite E1.
    assert (Hok3 : bytes_ok (r1 ++ b :: d2')).
    { apply bytes_ok_app. split; [eapply suffix_ok; eassumption|exact Hok2]. }
    assert (Hsz3 : len (r1 ++ b :: d2') < SIZE_LIMIT).
    { apply suffix_len in G3. rewrite len_app in *. lia. }
    destruct (drive_all_ok s1 _ G1 Hok3 Hsz3) as [r2 [s2 [o2 [E2 _]]]]. rewrite E2. repeat split.
Qed.

(* ================= Parser::parse ================= *)
Lemma state_ok_small s : state_ok s -> state_small s.
Proof.
  destruct s as [|p q|vars p q|i p q|i p q|i vars p q|r p q|r|e]; cbn [state_ok state_small]; try (intros; exact I);
    intros [Hi _]; apply buf_ok_len in Hi; unfold SIZE_LIMIT; lia.
Qed.

Lemma parse_spec p new : parser_ok p -> bytes_ok new -> len new <= input_space p ->
  exists rest s' o,
    drive_all norm maxc (st p) (held p ++ new) = DOk rest s' o /\
    sgood s' /\ bytes_ok o /\ bytes_ok rest /\ suffix rest (held p ++ new) /\ len rest <= cap p /\
    (is_final (st p) = true -> s' = st p /\ rest = held p ++ new /\ o = []) /\
    parse norm maxc p new =
      if negb (is_final s') && (len rest =? cap p)
      then POk (mkParser (cap p) rest (Fatal EStuckOnInput)) true o
      else POk (mkParser (cap p) rest s') (is_final s') o.
Proof.
  intros [Hs [_ [Hh [Hc Hcap]]]] Hn Hsp. unfold input_space in Hsp.
  assert (Hok : bytes_ok (held p ++ new)) by (apply bytes_ok_app; split; assumption).
  assert (Hl : len (held p ++ new) <= cap p) by (rewrite len_app; lia).
  destruct (drive_all_ok (st p) (held p ++ new) Hs Hok ltac:(lia)) as [rest [s' [o [E [G1 [G2 [G3 G4]]]]]]].
  exists rest, s', o. pose proof (suffix_len _ _ G3) as Hr.
  split; [exact E|]. split; [exact G1|]. split; [exact G2|].
  split; [eapply suffix_ok; eassumption|]. split; [exact G3|]. split; [lia|]. split; [exact G4|].
  unfold parse. destruct (N.ltb_spec (cap p - len (held p)) (len new)) as [?|_]; [lia|].
  rewrite E. destruct (N.ltb_spec (len (held p ++ new)) (len rest)) as [?|_]; [lia|]. reflexivity.
Qed.

Lemma parse_total : parse_total_stmt norm maxc.
Proof.
  intros p new Hp Hn Hsp.
  destruct (parse_spec p new Hp Hn Hsp) as [rest [s' [o [E [[G1 G1'] [G2 [G3 [G4 [G5 [_ Hparse]]]]]]]]]].
  destruct Hp as [Hs [_ [Hh [Hc Hcap]]]].
  destruct (negb (is_final s') && (len rest =? cap p)).
  - exists (mkParser (cap p) rest (Fatal EStuckOnInput)), true, o. split; [exact Hparse|].
    split; [|split; [reflexivity|split; [exact G2|exact G4]]].
    split; [exact I|]. split; [exact I|]. cbn [held cap]. split; [exact G3|]. split; [exact G5|exact Hcap].
  - exists (mkParser (cap p) rest s'), (is_final s'), o. split; [exact Hparse|].
    split; [|split; [reflexivity|split; [exact G2|exact G4]]].
    split; [exact G1|]. split; [apply state_ok_small; exact G1|]. cbn [held cap].
    split; [exact G3|]. split; [exact G5|exact Hcap].
Qed.

Lemma parse_reported : parse_reported_stmt norm maxc.
Proof.
  intros p new p' o' Hp Hn Hsp H.
  destruct (parse_spec p new Hp Hn Hsp) as [rest [s' [o [E [G1 [G2 [G3 [G4 [G5 [_ Hparse]]]]]]]]]].
  rewrite Hparse in H. unfold input_space.
  destruct (is_final s') eqn:F; cbn [negb andb] in H.
  - inversion H.
  - destruct (N.eqb_spec (len rest) (cap p)) as [Heq|Hne]; inversion H. cbn [cap held]. lia.
Qed.

Lemma parse_stuck : parse_stuck_stmt norm maxc.
Proof.
  intros p new p' d o' Hp Hn Hsp H Hsp' _.
  destruct (parse_spec p new Hp Hn Hsp) as [rest [s' [o [E [G1 [G2 [G3 [G4 [G5 [_ Hparse]]]]]]]]]].
  rewrite Hparse in H. unfold input_space in Hsp'.
  destruct (is_final s') eqn:F; cbn [negb andb] in H.
  - inversion H; subst. cbn [st]. split; [reflexivity|right; exact F].
  - destruct (N.eqb_spec (len rest) (cap p)) as [Heq|Hne]; inversion H; subst; cbn [st cap held] in *.
    + split; [reflexivity|left; reflexivity].
    + lia.
Qed.

Lemma parse_sticky : parse_sticky_stmt norm maxc.
Proof.
  intros p new Hp F Hn Hsp.
  destruct (parse_spec p new Hp Hn Hsp) as [rest [s' [o [E [G1 [G2 [G3 [G4 [G5 [G6 Hparse]]]]]]]]]].
  destruct (G6 F) as [-> [-> ->]]. rewrite Hparse, F. reflexivity.
Qed.

(* ================= read schedules ================= *)
Lemma settle_eq_final a b : no00 a -> no00 b -> settle a = settle b ->
  is_final a = is_final b /\ (is_final a = true -> a = b).
Proof.
  intros Ha Hb E.
  assert (F : is_final a = is_final b).
  { rewrite <- (settle_final a Ha), <- (settle_final b Hb), E. reflexivity. }
  split; [exact F|]. intros Fa. assert (Fb : is_final b = true) by (rewrite <- F; exact Fa).
  rewrite <- (settle_final_id a Fa), <- (settle_final_id b Fb). exact E.
Qed.

Lemma final_absorbs s x : is_final s = true -> drive_all norm maxc s x = DOk x s [].
Proof.
  intros F. unfold drive_all. destruct (drive_fuel_S x) as [f ->]. cbn [drive]. rewrite F. reflexivity.
Qed.

Lemma canon_final T l h s0 o : bytes_ok (T ++ l) -> len (T ++ l) < SIZE_LIMIT ->
  drive_all norm maxc Header T = DOk h s0 o -> is_final s0 = true ->
  drive_all norm maxc Header (T ++ l) = DOk (h ++ l) s0 o.
Proof.
  intros Hok Hsz E F. destruct l as [|b l'].
  - rewrite !app_nil_r. exact E.
  - apply bytes_ok_app in Hok as [Hok1 Hok2].
    rewrite (drive_additive' Header T (b :: l') ltac:(discriminate) I Hok1 Hok2 Hsz).
    rewrite E, (final_absorbs s0 _ F), app_nil_r. reflexivity.
Qed.

(* the state of a schedule run that has fed the prefix Q of the wire and is not done *)
Definition sinv (C : N) (wire : bytes) (p : parser) (u out Q : bytes) : Prop :=
  wire = Q ++ u /\ parser_ok p /\ cap p = C /\ is_final (st p) = false /\ no00 (st p) /\
  len (held p) < C /\
  (exists s0, drive_all norm maxc Header Q = DOk (held p) s0 out /\ settle s0 = settle (st p)) /\
  drive_all norm maxc (st p) (held p) = DOk (held p) (settle (st p)) [].

(* the result of a schedule run that ended having fed the prefix T *)
Definition sfin (C : N) (wire : bytes) (p' : parser) (d : bool) (u' o' T : bytes) : Prop :=
  wire = T ++ u' /\ parser_ok p' /\
  exists s0, drive_all norm maxc Header T = DOk (held p') s0 o' /\ no00 s0 /\
    ((d = false /\ u' = [] /\ settle s0 = settle (st p') /\ is_final (st p') = false /\
      no00 (st p') /\ len (held p') < C) \/
     (d = true /\ is_final s0 = true /\ st p' = s0) \/
     (d = true /\ is_final s0 = false /\ len (held p') = C /\ st p' = Fatal EStuckOnInput)).

Definition stuck_at (C : N) (W : bytes) : Prop :=
  exists h sW oW, drive_all norm maxc Header W = DOk h sW oW /\ is_final sW = false /\ len h = C.

Lemma sched_step C wire p u out Q n : bytes_ok wire -> len wire < SIZE_LIMIT ->
  sinv C wire p u out Q -> n <= input_space p -> n <= len u ->
  exists rest s' o s0',
    parse norm maxc p (take n u) =
      (if negb (is_final s') && (len rest =? C)
       then POk (mkParser C rest (Fatal EStuckOnInput)) true o
       else POk (mkParser C rest s') (is_final s') o) /\
    drive_all norm maxc Header (Q ++ take n u) = DOk rest s0' (out ++ o) /\ sgood s0' /\
    settle s0' = settle s' /\ sgood s' /\ bytes_ok rest /\ len rest <= C /\
    drive_all norm maxc s' rest = DOk rest (settle s') [].
Proof.
  intros Hwok Hwsz [Hw [Hp [Hcap [Hnf [Hn0 [Hroom [[s0 [Hcanon Hset]] Hquiet]]]]]]] Hn1 Hn2.
  assert (HokQu : bytes_ok Q /\ bytes_ok u) by (apply bytes_ok_app; rewrite <- Hw; exact Hwok).
  destruct HokQu as [HokQ Hoku].
  assert (Hlw : len wire = len Q + len u) by (rewrite Hw; apply len_app).
  assert (Hokx : bytes_ok (take n u)) by (apply bytes_ok_take; exact Hoku).
  assert (Hlx : len (take n u) = n) by (rewrite len_take; lia).
  destruct (parse_spec p (take n u) Hp Hokx ltac:(lia)) as [rest [s' [o [E [G1 [G2 [G3 [G4 [G5 [_ Hparse]]]]]]]]]].
  destruct (drive_all_ok Header Q I HokQ ltac:(lia)) as [r0 [s00 [o00 [E0 [G0 _]]]]].
  rewrite Hcanon in E0. inversion E0; subst r0 s00 o00. clear E0.
  pose proof Hp as [Hs [_ [Hh [Hc Hcapr]]]].
  assert (Hokd : bytes_ok (held p ++ take n u)) by (apply bytes_ok_app; split; assumption).
  assert (Hszd : len (held p ++ take n u) < SIZE_LIMIT).
  { rewrite len_app. unfold input_space in Hn1. lia. }
  pose proof (drive_all_requiesce _ _ _ _ _ Hs Hokd Hszd E) as Hq'.
  rewrite Hcap in *.
  destruct (take n u) as [|b x'] eqn:Ex.
  - rewrite app_nil_r in *. rewrite Hquiet in E. inversion E; subst rest s' o.
    exists (held p), (settle (st p)), [], s0. rewrite app_nil_r.
    split; [exact Hparse|]. split; [exact Hcanon|]. split; [exact G0|].
    split; [rewrite settle_idem; exact Hset|]. split; [exact G1|]. split; [exact G3|].
    split; [exact G5|exact Hq'].
  - exists rest, s', o, s'.
    split; [exact Hparse|]. split.
    { rewrite (drive_additive' Header Q (b :: x') ltac:(discriminate) I HokQ Hokx).
      2:{ rewrite len_app, Hlx. lia. }
      rewrite Hcanon.
      assert (Hne : held p ++ b :: x' <> []) by (destruct (held p); discriminate).
      assert (D1 : drive_all norm maxc (settle s0) (held p ++ b :: x') =
                   drive_all norm maxc s0 (held p ++ b :: x')).
      { apply drive_settle_nonempty; [apply G0|exact Hokd|exact Hszd|exact Hne]. }
      assert (D2 : drive_all norm maxc (settle (st p)) (held p ++ b :: x') =
                   drive_all norm maxc (st p) (held p ++ b :: x')).
      { apply drive_settle_nonempty; [exact Hs|exact Hokd|exact Hszd|exact Hne]. }
      rewrite <- D1, Hset, D2, E. reflexivity. }
    split; [exact G1|]. split; [reflexivity|]. split; [exact G1|]. split; [exact G3|].
    split; [exact G5|exact Hq'].
Qed.

Lemma no_jump C wire p u out Q n y z : bytes_ok wire -> len wire < SIZE_LIMIT ->
  sinv C wire p u out Q -> n <= input_space p -> n <= len u ->
  wire = (Q ++ y) ++ z -> stuck_at C (Q ++ y) ->
  Q ++ y = (Q ++ take n u) ++ drop n y.
Proof.
  intros Hwok Hwsz [Hw [Hp [Hcap [Hnf [Hn0 [Hroom [[s0 [Hcanon Hset]] Hquiet]]]]]]] Hn1 Hn2 Hwy
         [h [sW [oW [EW [FW LW]]]]].
  assert (Hu : u = y ++ z).
  { apply (app_inv_head Q). rewrite <- Hw, Hwy, app_assoc. reflexivity. }
  assert (Hok3 : bytes_ok Q /\ bytes_ok y /\ bytes_ok z).
  { rewrite Hwy in Hwok. apply bytes_ok_app in Hwok as [H1 H2]. apply bytes_ok_app in H1. tauto. }
  destruct Hok3 as [HokQ [Hoky Hokz]].
  assert (Hlw : len wire = len Q + len y + len z) by (rewrite Hwy, !len_app; reflexivity).
  assert (Hny : n <= len y).
  { destruct y as [|b y'].
    - rewrite app_nil_r in EW. rewrite Hcanon in EW. inversion EW; subst. lia.
    - rewrite (drive_additive' Header Q (b :: y') ltac:(discriminate) I HokQ Hoky) in EW
        by (rewrite len_app; lia).
      rewrite Hcanon in EW.
      destruct (drive_all_ok Header Q I HokQ ltac:(lia)) as [r0 [s00 [o00 [E0 [G0 [_ [Gs _]]]]]]].
      rewrite Hcanon in E0. inversion E0; subst r0 s00 o00.
      pose proof (suffix_len _ _ Gs) as Hlh.
      assert (Hokd : bytes_ok (held p ++ b :: y')).
      { apply bytes_ok_app. split; [eapply suffix_ok; eassumption|exact Hoky]. }
      destruct (drive_all_ok s0 (held p ++ b :: y') (proj1 G0) Hokd ltac:(rewrite len_app; lia))
        as [r2 [s2 [o2 [E2 [_ [_ [G2 _]]]]]]].
      rewrite E2 in EW. inversion EW; subst. apply suffix_len in G2. rewrite len_app in G2.
      unfold input_space in Hn1. lia. }
  rewrite Hu. rewrite take_app_le by exact Hny. rewrite <- app_assoc, take_drop. reflexivity.
Qed.

Definition sched_n (p : parser) (wire : bytes) (sched : list N) : N :=
  match sched with
  | c :: _ => N.min c (N.min (input_space p) (len wire))
  | [] => N.min (input_space p) (len wire)
  end.

Lemma run_sched_S f p wire sched out :
  run_sched norm maxc (S f) p wire sched out =
    if match sched with [] => sched_n p wire sched =? 0 | _ => false end
    then SOk p false wire out
    else match parse norm maxc p (take (sched_n p wire sched) wire) with
         | PPanic _ => SPanic
         | POk p' done o =>
           if done then SOk p' true (drop (sched_n p wire sched) wire) (out ++ o)
           else run_sched norm maxc f p' (drop (sched_n p wire sched) wire) (tl sched) (out ++ o)
         end.
Proof.
  cbn [run_sched]. unfold sched_n. destruct sched as [|c t]; [|reflexivity].
  destruct (N.min (input_space p) (len wire)); reflexivity.
Qed.

Lemma run_sched_inv C wire : bytes_ok wire -> len wire < SIZE_LIMIT ->
  forall fuel p u sched out Q, sinv C wire p u out Q -> (length u + length sched < fuel)%nat ->
  exists p' d u' o' T, run_sched norm maxc fuel p u sched out = SOk p' d u' o' /\
    sfin C wire p' d u' o' T /\ (exists y, T = Q ++ y) /\
    (forall y z, wire = (Q ++ y) ++ z -> stuck_at C (Q ++ y) -> exists y', Q ++ y = T ++ y').
Proof.
  intros Hwok Hwsz. induction fuel as [|f IH]; intros p u sched out Q Hinv Hfuel; [lia|].
  rewrite run_sched_S. set (n := sched_n p u sched).
  pose proof Hinv as [Hw [Hp [Hcap [Hnf [Hn0 [Hroom [[s0 [Hcanon Hset]] Hquiet]]]]]]].
  assert (Hsp : input_space p = C - len (held p)) by (unfold input_space; rewrite Hcap; reflexivity).
  assert (Hn1 : n <= input_space p) by (unfold n, sched_n; destruct sched; lia).
  assert (Hn2 : n <= len u) by (unfold n, sched_n; destruct sched; lia).
  assert (HokQ : bytes_ok Q) by (rewrite Hw in Hwok; apply bytes_ok_app in Hwok; tauto).
  assert (Hlw : len wire = len Q + len u) by (rewrite Hw; apply len_app).
  destruct (drive_all_ok Header Q I HokQ ltac:(lia)) as [r0 [s00 [o00 [E0 [G0 _]]]]].
  rewrite Hcanon in E0. inversion E0; subst r0 s00 o00. clear E0.
  assert (Hcase : (sched = [] /\ n = 0) \/
                  ((match sched with [] => n =? 0 | _ => false end) = false /\
                   (length (drop n u) + length (tl sched) < f)%nat)).
  { assert (Hld : length (drop n u) = (length u - N.to_nat n)%nat) by (unfold drop; apply skipn_length).
    destruct sched as [|c t].
    - destruct (N.eqb_spec n 0) as [Hz|Hz]; [left; split; [reflexivity|exact Hz]|right].
      split; [reflexivity|]. cbn [tl length] in *. unfold len in Hn2. lia.
    - right. split; [reflexivity|]. cbn [tl length] in *. lia. }
  destruct Hcase as [[Hs Hz]|[Hcond Hprog]].
  - (* schedule exhausted and nothing left to feed *)
    subst sched. rewrite Hz. change (0 =? 0) with true. cbv iota.
    assert (Hu : u = []).
    { apply len_zero_nil. unfold n, sched_n in Hz. lia. }
    exists p, false, u, out, Q. split; [reflexivity|]. split.
    + split; [exact Hw|]. split; [exact Hp|]. exists s0. split; [exact Hcanon|]. split; [apply G0|].
      left. repeat split; assumption.
    + split; [exists []; rewrite app_nil_r; reflexivity|]. intros y z _ _. exists y. reflexivity.
  - rewrite Hcond.
    destruct (sched_step C wire p u out Q n Hwok Hwsz Hinv Hn1 Hn2)
      as [rest [s' [o [s0' [Hparse [Hcanon' [G0' [Hset' [G1 [G3 [G5 Hq']]]]]]]]]]].
    assert (Hw' : wire = (Q ++ take n u) ++ drop n u) by (rewrite <- app_assoc, take_drop; exact Hw).
    assert (Hjump : forall y z, wire = (Q ++ y) ++ z -> stuck_at C (Q ++ y) ->
                      Q ++ y = (Q ++ take n u) ++ drop n y).
    { intros y z Hy Hst. exact (no_jump C wire p u out Q n y z Hwok Hwsz Hinv Hn1 Hn2 Hy Hst). }
    pose proof Hp as [_ [_ [_ [_ Hcapr]]]]. rewrite Hcap in Hcapr.
    destruct (settle_eq_final s0' s' (proj2 G0') (proj2 G1) Hset') as [Hfin Hfineq].
    rewrite Hparse.
    destruct (is_final s') eqn:F; cbn [negb andb].
    + (* done: final state *)
      exists (mkParser C rest s'), true, (drop n u), (out ++ o), (Q ++ take n u).
      split; [reflexivity|]. split.
      * split; [exact Hw'|]. split.
        { split; [apply G1|]. split; [apply state_ok_small; apply G1|]. cbn [held cap].
          split; [exact G3|]. split; [exact G5|exact Hcapr]. }
        exists s0'. cbn [held st]. split; [exact Hcanon'|]. split; [apply G0'|].
        right. left. split; [reflexivity|]. split; [exact Hfin|]. symmetry. apply Hfineq. exact Hfin.
      * split; [exists (take n u); reflexivity|]. intros y z Hy Hst. exists (drop n y). eapply Hjump; eassumption.
    + destruct (N.eqb_spec (len rest) C) as [Heq|Hne].
      * (* done: stuck *)
        exists (mkParser C rest (Fatal EStuckOnInput)), true, (drop n u), (out ++ o), (Q ++ take n u).
        split; [reflexivity|]. split.
        -- split; [exact Hw'|]. split.
           { split; [exact I|]. split; [exact I|]. cbn [held cap].
             split; [exact G3|]. split; [exact G5|exact Hcapr]. }
           exists s0'. cbn [held st]. split; [exact Hcanon'|]. split; [apply G0'|].
           right. right. split; [reflexivity|]. split; [exact Hfin|]. split; [exact Heq|reflexivity].
        -- split; [exists (take n u); reflexivity|]. intros y z Hy Hst. exists (drop n y). eapply Hjump; eassumption.
      * (* not done: go on *)
        assert (Hinv' : sinv C wire (mkParser C rest s') (drop n u) (out ++ o) (Q ++ take n u)).
        { split; [exact Hw'|]. split.
          { split; [apply G1|]. split; [apply state_ok_small; apply G1|]. cbn [held cap].
            split; [exact G3|]. split; [exact G5|exact Hcapr]. }
          cbn [held st cap]. split; [reflexivity|]. split; [exact F|]. split; [apply G1|].
          split; [lia|]. split; [exists s0'; split; [exact Hcanon'|exact Hset']|exact Hq']. }
        destruct (IH _ _ (tl sched) _ _ Hinv' Hprog) as [p' [d [u' [o' [T [Hrun [Hfinl [[y0 Hy0] Hst]]]]]]]].
        exists p', d, u', o', T. split; [exact Hrun|]. split; [exact Hfinl|].
        split; [exists (take n u ++ y0); rewrite Hy0, app_assoc; reflexivity|].
        intros y z Hy Hsty. pose proof (Hjump y z Hy Hsty) as Hj.
        rewrite Hj. apply (Hst (drop n y) z); rewrite <- Hj; assumption.
Qed.

Lemma aligned_bufsize_range B : B < SIZE_LIMIT - 8 -> 24 <= aligned_bufsize B < SIZE_LIMIT.
Proof.
  unfold aligned_bufsize, MIN_BUF_SIZE, USIZE_MAX64, ALIGN_ADD, ALIGN_MASK, SIZE_LIMIT. intros H.
  destruct (N.leb_spec B 24); [lia|].
  destruct (N.ltb_spec 18446744073709551615 (B + 7)); lia.
Qed.

Lemma sinv_init B wire : B < SIZE_LIMIT - 8 -> sinv (aligned_bufsize B) wire (new_parser B) wire [] [].
Proof.
  intros HB. pose proof (aligned_bufsize_range B HB) as Hr. unfold new_parser, sinv. cbn [held st cap].
  split; [reflexivity|]. split.
  { split; [exact I|]. split; [exact I|]. cbn [held st cap]. split; [constructor|]. rewrite len_nil. lia. }
  split; [reflexivity|]. split; [reflexivity|]. split; [exact I|]. split; [rewrite len_nil; lia|].
  split; [exists Header; split; [exact (drive_settle Header I)|reflexivity]|exact (drive_settle Header I)].
Qed.

Lemma run_schedule_inv B wire sched : B < SIZE_LIMIT - 8 -> bytes_ok wire -> len wire < SIZE_LIMIT ->
  exists p' d u' o' T, run_schedule norm maxc (new_parser B) wire sched = SOk p' d u' o' /\
    sfin (aligned_bufsize B) wire p' d u' o' T /\
    (forall y z, wire = y ++ z -> stuck_at (aligned_bufsize B) y -> exists y', y = T ++ y').
Proof.
  intros HB Hok Hsz. unfold run_schedule.
  destruct (run_sched_inv (aligned_bufsize B) wire Hok Hsz (sched_fuel wire sched) (new_parser B) wire sched [] []
              (sinv_init B wire HB) ltac:(unfold sched_fuel; lia))
    as [p' [d [u' [o' [T [Hrun [Hfin [_ Hst]]]]]]]].
  exists p', d, u', o', T. split; [exact Hrun|]. split; [exact Hfin|].
  intros y z Hy Hs. exact (Hst y z Hy Hs).
Qed.

Lemma sched_total : sched_total_stmt norm maxc.
Proof.
  intros B wire sched HB Hok Hsz.
  destruct (run_schedule_inv B wire sched HB Hok Hsz) as [p [d [u [o [T [Hrun [[Hw [Hp [s0 [Hc [Hn0 Hd]]]]] _]]]]]]].
  exists p, d, u, o. split; [exact Hrun|]. split; [exact Hp|].
  assert (HokT : bytes_ok T) by (rewrite Hw in Hok; apply bytes_ok_app in Hok; tauto).
  assert (HlT : len T < SIZE_LIMIT) by (rewrite Hw, len_app in Hsz; lia).
  destruct (drive_all_ok Header T I HokT HlT) as [r0 [s00 [o00 [E0 [_ [_ [[c Hc0] _]]]]]]].
  rewrite Hc in E0. inversion E0; subst r0 s00 o00.
  split; [|split].
  - intros Hdf. destruct Hd as [[_ [Hu _]]|[[Hd _]|[Hd _]]]; [exact Hu|congruence|congruence].
  - destruct Hd as [[Hd [_ [_ [Hf _]]]]|[[Hd [Hf Hs]]|[Hd [_ [_ Hs]]]]]; rewrite Hd.
    + split; intros X; congruence.
    + split; intros _; [rewrite Hs; exact Hf|reflexivity].
    + split; intros _; [rewrite Hs; reflexivity|reflexivity].
  - exists c. rewrite Hw, Hc0, app_assoc. reflexivity.
Qed.

Lemma sfin_compare C wire p1 d1 u1 o1 T1 p2 d2 u2 o2 l : bytes_ok wire -> len wire < SIZE_LIMIT ->
  sfin C wire p1 d1 u1 o1 T1 -> sfin C wire p2 d2 u2 o2 (T1 ++ l) ->
  (stuck_at C T1 -> exists y', T1 = (T1 ++ l) ++ y') ->
  d1 = d2 /\ settle (st p1) = settle (st p2) /\ (d1 = true -> st p1 = st p2) /\ o1 = o2 /\
  held p1 ++ u1 = held p2 ++ u2.
Proof.
  intros Hok Hsz [W1 [P1 [sa [Ca [Na Da]]]]] [W2 [P2 [sb [Cb [Nb Db]]]]] Hstuck.
  assert (Hu : u1 = l ++ u2).
  { apply (app_inv_head T1). rewrite <- W1, W2, app_assoc. reflexivity. }
  destruct l as [|b l'].
  - rewrite app_nil_r in *. cbn [app] in Hu. subst u2. rewrite Ca in Cb. injection Cb as Hh Hs Ho.
    subst sb o2. rewrite Hh in *.
    destruct Da as [[Hd1 [Hu1 [Hs1 [Hf1 [Hn1 Hl1]]]]]|[[Hd1 [Hf1 Hs1]]|[Hd1 [Hf1 [Hl1 Hs1]]]]];
      destruct Db as [[Hd2 [Hu2 [Hs2 [Hf2 [Hn2 Hl2]]]]]|[[Hd2 [Hf2 Hs2]]|[Hd2 [Hf2 [Hl2 Hs2]]]]].
    + subst d1 d2. repeat split; [congruence|discriminate].
    + destruct (settle_eq_final sa (st p1) Na Hn1 Hs1) as [X _]. congruence.
    + lia.
    + destruct (settle_eq_final sa (st p2) Na Hn2 Hs2) as [X _]. congruence.
    + subst d1 d2. repeat split; congruence.
    + congruence.
    + lia.
    + congruence.
    + subst d1 d2. repeat split; congruence.
  - destruct Da as [[Hd1 [Hu1 _]]|[[Hd1 [Hf1 Hs1]]|[Hd1 [Hf1 [Hl1 Hs1]]]]].
    + subst u1. discriminate.
    + assert (HokT : bytes_ok (T1 ++ b :: l')) by (rewrite W2 in Hok; apply bytes_ok_app in Hok; tauto).
      assert (HlT : len (T1 ++ b :: l') < SIZE_LIMIT) by (rewrite W2, len_app in Hsz; lia).
      rewrite (canon_final T1 (b :: l') _ _ _ HokT HlT Ca Hf1) in Cb. injection Cb as Hh Hs Ho.
      subst sb o2.
      destruct Db as [[Hd2 [Hu2 [Hs2 [Hf2 [Hn2 Hl2]]]]]|[[Hd2 [Hf2 Hs2]]|[Hd2 [Hf2 [Hl2 Hs2]]]]].
      * destruct (settle_eq_final sa (st p2) Na Hn2 Hs2) as [X _]. congruence.
      * subst d1 d2. split; [reflexivity|]. split; [congruence|]. split; [congruence|].
        split; [reflexivity|]. rewrite Hu, <- Hh, app_assoc. reflexivity.
      * congruence.
    + destruct Hstuck as [y' Hy'].
      { exists (held p1), sa, o1. repeat split; assumption. }
      apply (f_equal len) in Hy'. rewrite !len_app, len_cons in Hy'. lia.
Qed.

(* chunking invariance, with the final states compared up to settling (see sched_counterexample) *)
Definition sched_invariant'_stmt : Prop := forall B wire s1 s2 p1 d1 u1 o1 p2 d2 u2 o2,
  B < SIZE_LIMIT - 8 -> bytes_ok wire -> len wire < SIZE_LIMIT ->
  run_schedule norm maxc (new_parser B) wire s1 = SOk p1 d1 u1 o1 ->
  run_schedule norm maxc (new_parser B) wire s2 = SOk p2 d2 u2 o2 ->
  d1 = d2 /\ settle (st p1) = settle (st p2) /\ (d1 = true -> st p1 = st p2) /\ o1 = o2 /\
  held p1 ++ u1 = held p2 ++ u2.

Lemma sched_invariant' : sched_invariant'_stmt.
Proof.
  intros B wire s1 s2 p1 d1 u1 o1 p2 d2 u2 o2 HB Hok Hsz R1 R2.
  destruct (run_schedule_inv B wire s1 HB Hok Hsz) as [p1' [d1' [u1' [o1' [T1 [R1' [F1 J1]]]]]]].
  destruct (run_schedule_inv B wire s2 HB Hok Hsz) as [p2' [d2' [u2' [o2' [T2 [R2' [F2 J2]]]]]]].
  rewrite R1 in R1'. inversion R1'; subst p1' d1' u1' o1'.
  rewrite R2 in R2'. inversion R2'; subst p2' d2' u2' o2'.
  pose proof F1 as [W1 _]. pose proof F2 as [W2 _].
  assert (HW : T1 ++ u1 = T2 ++ u2) by (rewrite <- W1, <- W2; reflexivity).
  destruct (app_eq_app _ _ _ _ HW) as [l [[H1 H2]|[H1 H2]]].
  - (* T1 = T2 ++ l *)
    subst T1.
    destruct (sfin_compare _ wire p2 d2 u2 o2 T2 p1 d1 u1 o1 l Hok Hsz F2 F1) as [A1 [A2 [A3 [A4 A5]]]].
    { intros Hst. exact (J1 T2 u2 W2 Hst). }
    subst d2. repeat split; try congruence. intros X. symmetry. apply A3. exact X.
  - subst T2.
    apply (sfin_compare _ wire p1 d1 u1 o1 T1 p2 d2 u2 o2 l Hok Hsz F1 F2).
    intros Hst. exact (J2 T1 u1 W1 Hst).
Qed.

End Drive.

(* ---- the two statements of ReqTargets.v that are false as stated, with the witnesses ----
   (A) with d2 = [] and the conjunct [st p1 = st p2] of chunking invariance fail on a GetValues
   management header announcing an empty body and no padding: the loop returns on `Continue []`
   without driving the new state, and `HeaderValues 0 0 0` is not stable under a 0-byte drive.
   drive_additive' / drive_additive_settled / sched_invariant' are the true variants. *)
Definition cex_wire : bytes := [1; 9; 0; 0; 0; 0; 0; 0].

Lemma A_stmt_false : ~ A_stmt (fun b => b) 10.
Proof.
  intros H.
  assert (Hok : bytes_ok cex_wire) by (apply bytes_okb_ok; reflexivity).
  assert (Hnil : bytes_ok []) by constructor.
  specialize (H Header cex_wire [] I I Hok Hnil ltac:(vm_compute; reflexivity)).
  vm_compute in H. discriminate.
Qed.

Lemma sched_invariant_stmt_false : ~ sched_invariant_stmt (fun b => b) 10.
Proof.
  intros H.
  assert (Hok : bytes_ok cex_wire) by (apply bytes_okb_ok; reflexivity).
  destruct (run_schedule (fun b => b) 10 (new_parser 100) cex_wire []) as [p1 d1 u1 o1| |] eqn:E1;
    [|vm_compute in E1; discriminate|vm_compute in E1; discriminate].
  destruct (run_schedule (fun b => b) 10 (new_parser 100) cex_wire [8; 0]) as [p2 d2 u2 o2| |] eqn:E2;
    [|vm_compute in E2; discriminate|vm_compute in E2; discriminate].
  specialize (H 100 cex_wire [] [8; 0] p1 d1 u1 o1 p2 d2 u2 o2
                ltac:(vm_compute; reflexivity) Hok ltac:(vm_compute; reflexivity) E1 E2).
  destruct H as [_ [Hst _]]. vm_compute in E1, E2. inversion E1; inversion E2; subst.
  cbn [st] in Hst. discriminate.
Qed.

Print Assumptions drive_total.
Print Assumptions drive_additive'.
Print Assumptions drive_additive_settled.
Print Assumptions drive_settle.
Print Assumptions drive_settle_nonempty.
Print Assumptions parse_total.
Print Assumptions parse_reported.
Print Assumptions parse_stuck.
Print Assumptions parse_sticky.
Print Assumptions sched_total.
Print Assumptions sched_invariant'.
Print Assumptions A_stmt_false.
Print Assumptions sched_invariant_stmt_false.
