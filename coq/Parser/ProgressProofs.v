(* Parser/ProgressProofs.v — proofs of the two statements of Parser/ProgressTargets.v:
     parse_progress     one legal Ok call, dest = None or Some c, on ANY bytes: afterwards the unparsed bytes the
                        parser still holds contain nothing of the selected stream ([coming p' [] = []]), unless the
                        destination is full (exactly c bytes delivered);
     schedule_progress  the same at the end of a whole schedule (via C02_delivery on the schedule extended by the call).
   Method: a post-condition [g_post] carried through the abstract parse loop (AbsStream.v), in the style of
   [b_post]/[loop_B] of StreamFinal.v Part B2, but for the content function CF instead of the end function EF and
   for both delivery modes: the loop only stops with Break when
     (i)   the remaining capacity of the destination is Some 0, or
     (ii)  it stands at the terminator of the selected stream, or
     (iii) the unparsed bytes hold no complete further step (exhausted; less than a header; inside a payload that
           is longer than what is buffered and not delivered (skipped / GetValues); inside padding)
   and in (ii) and (iii) CF of the remaining raw bytes alone is [].  The capacity bookkeeping (Some 0 left of Some c
   means exactly c bytes were written to dest) is [cap_rel] of StreamInv.v, obtained from [loop_ok]. *)
From Coq Require Import ZArith ZifyBool ZifyNat ZifyN.
From FV Require Import Base.Bytes Base.BytesLemmas Gen.Generated Codec.Varint Codec.NV Codec.Header Codec.Bodies Codec.Vars
  Parser.ReqModel Parser.ReqWire Parser.ReqTargets
  Parser.StreamModel Parser.AbsStream Parser.StreamRefine Parser.StreamSpec Parser.StreamInv Parser.StreamFinal
  Parser.ProgressTargets.
Ltac Zify.zify_post_hook ::= Z.div_mod_to_equations.

Section ProgressMachine.
Variable maxc : N.

(* content of the selected stream in the unparsed bytes alone *)
Definition G (a : ast) : bytes :=
  CF (rl a) (ri a) (a_stream a) (cur_st (a_st a)) (a_prem a) (a_pad a) (a_raw a).

Definition g_post (fl : aflow) : Prop :=
  match fl with
  | ABreak l' => G (al l') = [] \/ acap l' = Some 0
  | _ => True
  end.

Lemma G_coming p : coming p [] = G (abs p).
Proof. unfold coming. rewrite app_nil_r. reflexivity. Qed.

(* the end of parse_payload: whole available payload consumed, or (GetValues, body still incomplete) less than that
   but then the payload is longer than what is buffered and nothing of it is stream content *)
Lemma pfin_G a parsed' out' st' res cap' n :
  (n = N.min (a_prem a) (len (a_raw a)) \/ (len (a_raw a) < a_prem a /\ cur_st st' = false)) ->
  match pfin' a parsed' out' st' res cap' n with
  | ABreak l' => G (al l') = []
  | _ => True
  end.
Proof.
  intros Hn. unfold pfin'. cbv zeta.
  destruct (N.ltb_spec (N.min (a_prem a) (len (a_raw a))) n) as [Hlt|Hle]; [exact I|].
  cbn [a_prem].
  destruct ((a_prem a - n =? 0) && (n <? len (a_raw a))) eqn:Hc; [exact I|].
  unfold G, rl, ri. cbn [al a_B a_space a_parsed a_raw a_out a_req a_stream a_prem a_pad a_st].
  apply andb_false_iff in Hc.
  assert (Hcases : n = len (a_raw a) \/ (len (a_raw a) < a_prem a /\ cur_st st' = false)).
  { destruct Hn as [Hn|Hn]; [|right; exact Hn].
    destruct Hc as [Hc|Hc]; [apply N.eqb_neq in Hc|apply N.ltb_ge in Hc]; lia. }
  destruct Hcases as [Heq|[Hlt Hcur]].
  - rewrite (drop_all n (a_raw a)) by lia. apply CF_nil.
  - rewrite Hcur. rewrite CF_prem by lia. rewrite len_drop.
    destruct (N.ltb_spec (len (a_raw a) - n) (a_prem a - n)) as [_|Hge]; [reflexivity|lia].
Qed.

Lemma g_of_pfin a parsed' out' st' res cap' n :
  (n = N.min (a_prem a) (len (a_raw a)) \/ (len (a_raw a) < a_prem a /\ cur_st st' = false)) ->
  g_post (pfin' a parsed' out' st' res cap' n).
Proof.
  intros Hn. pose proof (pfin_G a parsed' out' st' res cap' n Hn) as H.
  destruct (pfin' a parsed' out' st' res cap' n) as [l'|l'|l' e|k]; cbn [g_post]; try exact I.
  left. exact H.
Qed.

(* the destination becomes full in this step *)
Lemma g_of_pfin_full a parsed' out' st' res n : g_post (pfin' a parsed' out' st' res (Some 0) n).
Proof.
  unfold pfin'. cbv zeta.
  destruct (N.min (a_prem a) (len (a_raw a)) <? n); [exact I|].
  match goal with |- g_post (if ?c then _ else _) => destruct c end; cbn [g_post acap]; [exact I|].
  right. reflexivity.
Qed.

Lemma payload_G l : g_post (aparse_payload maxc l).
Proof.
  rewrite aparse_payload_eq. cbv zeta. destruct l as [a res cap]. cbn [al ares acap].
  destruct (a_st a) as [| |vars] eqn:Est.
  - destruct cap as [c|].
    + destruct (N.le_gt_cases c (N.min (a_prem a) (len (a_raw a)))) as [Hc|Hc].
      * replace (c - N.min c (N.min (a_prem a) (len (a_raw a)))) with 0 by lia. apply g_of_pfin_full.
      * apply g_of_pfin. left. lia.
    + apply g_of_pfin. left. reflexivity.
  - apply g_of_pfin. left. reflexivity.
  - destruct (nv_run (take (N.min (a_prem a) (len (a_raw a))) (a_raw a))) as [ps rest].
    destruct (N.ltb_spec (len (a_raw a)) (a_prem a)) as [Hlt|Hge].
    + apply g_of_pfin. right. split; [exact Hlt|reflexivity].
    + apply g_of_pfin. left. reflexivity.
Qed.

Lemma head_G l : a_prem (al l) = 0 -> a_pad (al l) = 0 -> g_post (aparse_head l).
Proof.
  intros Hp Hq. rewrite aparse_head_eq. cbv zeta.
  destruct (negb (a_boundary (al l))); [exact I|].
  destruct (N.ltb_spec (len (a_raw (al l))) HEADER_LEN) as [Hl|Hl].
  { cbn [g_post]. left. unfold G. rewrite Hp, Hq. apply CF_short. exact Hl. }
  assert (HG : G (al l) =
     cf_hd (rl (al l)) (ri (al l)) (a_stream (al l)) (take HEADER_LEN (a_raw (al l))) (drop HEADER_LEN (a_raw (al l)))).
  { unfold G. rewrite Hp, Hq. apply CF_head. exact Hl. }
  unfold cf_hd, rl, ri in HG.
  destruct (hdr_decode (take HEADER_LEN (a_raw (al l)))) as [t hid cl pl|v|t].
  - destruct (is_input_stream t && (hid =? r_id (a_req (al l)))) eqn:Hin.
    + destruct (cmp_input_streams (r_role (a_req (al l))) t (a_stream (al l))) as [[| |]|].
      * exact I.
      * destruct (cl =? 0) eqn:Hcl; cbn [negb].
        -- cbn [g_post al]. left. exact HG.
        -- exact I.
      * cbn [g_post al]. left. exact HG.
      * exact I.
    + destruct ((t =? RT_AbortRequest) && (hid =? r_id (a_req (al l)))); [exact I|].
      destruct ((t =? RT_BeginRequest) && negb (hid =? r_id (a_req (al l)))); [exact I|].
      destruct ((t =? RT_GetValues) && hdr_is_management t hid); exact I.
  - exact I.
  - exact I.
Qed.

Lemma after_payload_G l : g_post (after_payload l).
Proof.
  unfold after_payload. cbv zeta.
  destruct (N.ltb_spec 0 (a_pad (al l))) as [Hq|Hq].
  - destruct (N.eqb_spec (a_prem (al l)) 0) as [Hp|Hp]; cbn [negb]; [|exact I].
    destruct (N.leb_spec (len (a_raw (al l))) (a_pad (al l))) as [Hl|Hl].
    + cbn [g_post al]. left. unfold a_set, G.
      cbn [a_B a_space a_parsed a_raw a_out a_req a_stream a_prem a_pad a_st]. apply CF_nil.
    + apply head_G; unfold a_set; cbn [al a_prem a_pad]; [exact Hp|reflexivity].
  - destruct (N.eq_dec (a_prem (al l)) 0) as [Hp|Hp].
    + apply head_G; [exact Hp|lia].
    + rewrite aparse_head_eq. cbv zeta. unfold a_boundary.
      destruct (N.eqb_spec (a_prem (al l)) 0) as [Hz|_]; [contradiction|]. cbn [andb negb]. exact I.
Qed.

Lemma iter_G l : g_post (aparse_iter maxc l).
Proof.
  rewrite aparse_iter_eq.
  destruct (0 <? a_prem (al l)); [|apply after_payload_G].
  pose proof (payload_G l) as H.
  destruct (aparse_payload maxc l) as [l'|l'|l' e|n].
  - apply after_payload_G.
  - exact H.
  - exact I.
  - exact I.
Qed.

Lemma loop_G fuel : forall l, g_post (aparse_loop maxc fuel l).
Proof.
  induction fuel as [|f IH]; intros l; [exact I|].
  cbn [aparse_loop]. destruct (a_raw (al l)) as [|b r] eqn:Er.
  { cbn [g_post]. left. unfold G. rewrite Er. apply CF_nil. }
  pose proof (iter_G l) as H.
  destruct (aparse_iter maxc l) as [l'|l'|l' e|n].
  - apply IH.
  - exact H.
  - exact I.
  - exact I.
Qed.

(* one legal Ok call of the abstract machine *)
Theorem aparse_progress a new dest a' s : a_inv a -> legal a new dest ->
  aparse maxc a new dest = AOk a' s ->
  G a' = [] \/ (exists c, dest = Some c /\ len (s_dest s) = c).
Proof.
  intros Hinv Hleg. rewrite (aparse_eq maxc a new dest Hleg).
  pose proof (loop_ok maxc _ _ (linv_l0 a new dest Hinv Hleg) (fuel_l0 a new dest Hinv Hleg)) as HL.
  pose proof (loop_G (2 * N.to_nat (a_B a) + 8) (l0 a new dest)) as HG.
  destruct (aparse_loop maxc (2 * N.to_nat (a_B a) + 8) (l0 a new dest)) as [l'|l'|l' e|n];
    cbn [loop_post g_post] in HL, HG; try contradiction.
  - intros Hr. inversion Hr; subst a' s.
    destruct HG as [HG|Hcap]; [left; exact HG|right].
    destruct HL as (P & _ & _). pose proof (p_cap _ _ _ P) as Hc. unfold cap_rel in Hc.
    cbn [l0 acap ares] in Hc.
    destruct dest as [c|].
    + destruct Hc as (d & c' & Hc' & _ & Hd & _ & Hsum).
      exists c. split; [reflexivity|].
      rewrite Hcap in Hc'. injection Hc' as <-.
      rewrite Hd. unfold res0. cbn [s_dest app]. lia.
    + destruct Hc as (Hc' & _). rewrite Hcap in Hc'. discriminate Hc'.
  - intros Hr. discriminate Hr.
Qed.
End ProgressMachine.

(* ---- the index-level model ---- *)
Theorem parse_progress : parse_progress_stmt.
Proof.
  intros maxc p new dest p' s Hsp Hleg Hres. pose proof Hsp as [HRI Hinv].
  destruct (sparse_refines maxc p new dest HRI) as [Ga _]. rewrite Hres in Ga. cbn [absres] in Ga.
  rewrite G_coming.
  apply (aparse_progress maxc (abs p) new dest (abs p') s Hinv Hleg Ga).
Qed.

Theorem schedule_progress : schedule_progress_stmt.
Proof.
  intros maxc rp r sp0 rs t ops new dest u p' s Hok Hst E0 Hrs Hw Hleg Hcall Hres Hroom role id sg.
  set (ops' := ops ++ [CParse new dest]).
  assert (Hleg' : csched_legal maxc sp0 ops') by (apply csched_legal_snoc; split; assumption).
  assert (Hw' : held rp ++ cfed ops' ++ u = enc_rcds rs ++ t).
  { unfold ops'. rewrite cfed_snoc. cbn [cfed_of]. rewrite <- app_assoc. exact Hw. }
  assert (Hrun : crun maxc sp0 ops' = (p', cdelivered maxc sp0 ops ++ s_dest s, cemitted maxc sp0 ops ++ [])).
  { unfold ops'. rewrite crun_snoc. cbn [cstep]. rewrite Hres. reflexivity. }
  destruct (C02_delivery maxc rp r sp0 rs t ops' u Hok Hst E0 Hrs Hw' Hleg') as (_ & _ & _ & _ & HK & _).
  unfold cfinal, cdelivered in HK. rewrite Hrun in HK. cbn [fst snd] in HK.
  fold role id sg in HK.
  destruct (into_stream_parser_inv rp r Hok Hst) as (p0 & E0' & Hsp & _).
  rewrite E0 in E0'. injection E0' as <-.
  destruct (concrete_schedule maxc ops sp0 Hsp Hleg) as (_ & Ipf & _).
  exists (coming p' u). split; [|split; [reflexivity|]].
  - rewrite <- HK. rewrite <- !app_assoc. reflexivity.
  - destruct (parse_progress maxc _ new dest p' s Ipf Hcall Hres) as [H|(c & Hd & Hc)]; [exact H|].
    exfalso. pose proof (Hroom c Hd) as Hlt. lia.
Qed.

(* the hypotheses are satisfiable: the worked example of StreamFinal.v, last call of the first epoch (dest = Some 10;
   the call returns Ok with 0 bytes, the 3 content bytes having been handed out before, and stands at the terminator
   with 69 unparsed bytes left): derived from the theorem, not computed *)
Example exf_progress :
  forall p' s, sparse 10 (cfinal 10 exf_sp0 (firstn 6 exf_ops1)) (drop 70 exf_wire) (Some 10) = StOk p' s ->
  len (s_dest s) < 10 ->
  exists more, cdelivered 10 exf_sp0 (firstn 6 exf_ops1) ++ s_dest s ++ stream_buffer p' ++ more = [97; 98; 99] /\
               more = coming p' [] /\ coming p' [] = [].
Proof.
  intros p' s Hres Hlt.
  destruct exf_parser_ok as (Hok & Hst & E0).
  assert (Hleg : csched_legal 10 exf_sp0 (firstn 6 exf_ops1 ++ [CParse (drop 70 exf_wire) (Some 10)]))
    by exact exf_legal1.
  apply csched_legal_snoc in Hleg. destruct Hleg as [Hleg Hcall].
  assert (Hw : held exf_rp ++ cfed (firstn 6 exf_ops1) ++ drop 70 exf_wire ++ [] = enc_rcds exf_rs ++ [])
    by (vm_compute; reflexivity).
  destruct (schedule_progress 10 exf_rp exf_r exf_sp0 exf_rs [] (firstn 6 exf_ops1) (drop 70 exf_wire) (Some 10) []
              p' s Hok Hst E0 exf_rcds_ok Hw Hleg Hcall Hres) as (more & H1 & H2 & H3).
  { intros c Hc. injection Hc as <-. exact Hlt. }
  exists more. split; [|split; assumption].
  rewrite H1. vm_compute. reflexivity.
Qed.

Print Assumptions parse_progress.
Print Assumptions schedule_progress.
