(* Parser/ReqTargets.v — statements (as Props) of the lemma families about the request parser.
   ReqParams.v proves S1-S4 (ReqParamsSpec.v); ReqDrive.v proves the state-machine statements
   below; ReqRecords.v proves the record-level ones.  Statements only. *)
From FV Require Import Base.Bytes Gen.Generated Codec.Varint Codec.NV Codec.Header Codec.Bodies Codec.Vars
  Parser.ReqModel Parser.ReqParamsSpec Parser.ReqWire.

Section Targets.
Variable norm : bytes -> bytes.
Variable maxc : N.

(* ---- invariants ---- *)
Definition state_ok (s : state) : Prop :=
  match s with
  | Params i p q => inner_ok i /\ p < 65536 /\ q < 256
  | ParamsSkip i p q => inner_ok i /\ p < 65536 /\ q < 256
  | ParamsValues i _ p q => inner_ok i /\ p < 65536 /\ q < 256
  | HeaderSkip p q | DoneSkip _ p q => p < 65536 /\ q < 256
  | HeaderValues _ p q => p < 65536 /\ q < 256
  | _ => True
  end.

(* sizes stay far below usize::MAX (memory is finite); needed only to discharge checked_add arms *)
Definition SIZE_LIMIT : N := 4611686018427387904.     (* 2^62 *)
Definition state_small (s : state) : Prop :=
  match s with
  | Params i _ _ | ParamsSkip i _ _ | ParamsValues i _ _ _ => len (ibuf i) < SIZE_LIMIT
  | _ => True
  end.

Definition parser_ok (p : parser) : Prop :=
  state_ok (st p) /\ state_small (st p) /\ bytes_ok (held p) /\ len (held p) <= cap p /\ 24 <= cap p < SIZE_LIMIT.

(* ---- (A) exact drive additivity, rest-is-suffix, no panic, enough fuel ---- *)
Definition A_stmt : Prop := forall s d1 d2,
  state_ok s -> state_small s -> bytes_ok d1 -> bytes_ok d2 -> len (d1 ++ d2) < SIZE_LIMIT ->
  drive_all norm maxc s (d1 ++ d2) =
    match drive_all norm maxc s d1 with
    | DOk r1 s1 o1 =>
      match drive_all norm maxc s1 (r1 ++ d2) with
      | DOk r2 s2 o2 => DOk r2 s2 (o1 ++ o2)
      | x => x
      end
    | x => x
    end.

Definition drive_total_stmt : Prop := forall s d,
  state_ok s -> state_small s -> bytes_ok d -> len d < SIZE_LIMIT ->
  exists r s' o, drive_all norm maxc s d = DOk r s' o /\ state_ok s' /\ bytes_ok o /\
                 (exists c, d = c ++ r) /\                      (* the rest is a suffix of the data *)
                 (is_final s = true -> s' = s /\ r = d /\ o = []).

(* ---- Parser::parse level ---- *)
(* C03: every call returns (no panic, no fuel exhaustion) and keeps the invariant *)
Definition parse_total_stmt : Prop := forall p new,
  parser_ok p -> bytes_ok new -> len new <= input_space p ->
  exists p' d o, parse norm maxc p new = POk p' d o /\ parser_ok p' /\ cap p' = cap p /\ bytes_ok o /\
                 (exists c, held p ++ new = c ++ held p').       (* C05: leftover is the unread suffix *)

(* C06: a parser that has not finished always offers a non-empty input buffer *)
Definition parse_reported_stmt : Prop := forall p new p' o,
  parser_ok p -> bytes_ok new -> len new <= input_space p ->
  parse norm maxc p new = POk p' false o -> 0 < input_space p'.

(* ... and when it cannot, that very call reports StuckOnInput *)
Definition parse_stuck_stmt : Prop := forall p new p' d o,
  parser_ok p -> bytes_ok new -> len new <= input_space p ->
  parse norm maxc p new = POk p' d o -> input_space p' = 0 -> is_final (st p) = false ->
  d = true /\ (st p' = Fatal EStuckOnInput \/ is_final (st p') = true).

(* C03: a final state is sticky: later calls report done again, emit nothing, keep the result *)
Definition parse_sticky_stmt : Prop := forall p new,
  parser_ok p -> is_final (st p) = true -> bytes_ok new -> len new <= input_space p ->
  parse norm maxc p new = POk (mkParser (cap p) (held p ++ new) (st p)) true [].

(* every schedule runs to an answer *)
Definition sched_total_stmt : Prop := forall B wire sched,
  B < SIZE_LIMIT - 8 -> bytes_ok wire -> len wire < SIZE_LIMIT ->
  exists p d u o, run_schedule norm maxc (new_parser B) wire sched = SOk p d u o /\ parser_ok p /\
                  (d = false -> u = []) /\ (d = true <-> is_final (st p) = true) /\
                  (exists c, wire = c ++ held p ++ u).

(* C03: chunking invariance — any two schedules agree on done/unfinished, on the final state
   (parsed request or the specific fatal error, StuckOnInput included), on the bytes emitted toward
   the client and on the unread remainder (leftover ++ not-yet-fed) *)
Definition sched_invariant_stmt : Prop := forall B wire s1 s2 p1 d1 u1 o1 p2 d2 u2 o2,
  B < SIZE_LIMIT - 8 -> bytes_ok wire -> len wire < SIZE_LIMIT ->
  run_schedule norm maxc (new_parser B) wire s1 = SOk p1 d1 u1 o1 ->
  run_schedule norm maxc (new_parser B) wire s2 = SOk p2 d2 u2 o2 ->
  d1 = d2 /\ st p1 = st p2 /\ o1 = o2 /\ held p1 ++ u1 = held p2 ++ u2.

(* ---- record level ---- *)
(* the phase machine of the specification, request-parser part *)
Inductive rstep :=
| RNext (s : state)            (* record consumed, parser at a record boundary in state s *)
| RFatal (e : perr).

Definition boundary_phase (s : state) : option phase :=
  match s with
  | Header => Some Idle
  | Params i 0 0 => Some (InParams (r_id (ireq i)))
  | _ => None
  end.

(* what one complete record does to a parser that stands at a record boundary *)
Definition rec_step (s : state) (r : rcd) : rstep :=
  match s with
  | Header =>
    if negb (known_type (rt r)) then RNext Header
    else if rt r =? RT_BeginRequest then
      if negb (len (rbody r) =? 8) then RFatal (EInvalidRequestLen (len (rbody r)))
      else match begin_decode (rbody r) with
           | (_, None) => RNext Header
           | (_, Some (role, flags)) =>
             if rid r =? 0 then RFatal ENullRequest
             else RNext (Params (mkInner (mkReq (rid r) role flags []) []) 0 0)
           end
    else RNext Header
  | Params i 0 0 =>
    let id := r_id (ireq i) in
    if negb (known_type (rt r)) then RNext s
    else if (rt r =? RT_Params) && (rid r =? id) then
      if len (rbody r) =? 0 then RNext (Done (ireq i))
      else let '(ps, rest) := nv_run (ibuf i ++ rbody r) in
           RNext (Params (mkInner (env_extend norm (ireq i) ps) rest) 0 0)
    else if (rt r =? RT_AbortRequest) && (rid r =? id) then RNext Header
    else RNext s
  | _ => RNext s
  end.

(* one-shot: a complete record, fed whole to a parser at a record boundary, is consumed entirely,
   moves the state as rec_step says and emits exactly the reply the specification owes for it.
   (A BeginRequest of wrong length / with id 0 is fatal and is not consumed.) *)
Definition rec_step_stmt : Prop := forall s r ph,
  state_ok s -> state_small s -> boundary_phase s = Some ph -> rcd_ok r -> len (enc_rcd r) < SIZE_LIMIT ->
  match rec_step s r with
  | RNext s' => drive_all norm maxc s (enc_rcd r) = DOk [] s' (reply_for maxc ph r) /\ state_ok s'
  | RFatal e => exists rest, drive_all norm maxc s (enc_rcd r) = DOk rest (Fatal e) []
  end.

(* the buffer bound: what is left unconsumed after driving any prefix of a record sequence is
   short — less than a header, less than a BeginRequest record, or a proper prefix of one pair *)
Definition pair_fits (capacity : N) (p : bytes * bytes) : Prop := len (fst p) + len (snd p) + 13 <= capacity.

(* every prefix of a GetValues body leaves an undecoded tail that fits the buffer *)
Definition gv_fits (capacity : N) (r : rcd) : Prop :=
  rt r = RT_GetValues -> rid r = 0 ->
  forall k, len (snd (nv_run (take k (rbody r)))) < capacity.

Definition preamble_fits (capacity : N) (w : preamble) : Prop :=
  Forall (gv_fits capacity) (w_idle w) /\
  Forall (fun p => Forall (gv_fits capacity) (pjunk p)) (w_pieces w) /\
  Forall (gv_fits capacity) (w_endjunk w).

(* C01 + C04 + C05 + C06 on a well-formed preamble, for EVERY read schedule and trailing bytes *)
Definition preamble_exact_stmt : Prop := forall B w pairs trailing sched,
  B < SIZE_LIMIT - 8 ->
  preamble_ok w -> Forall pair_ok pairs -> nv_write_all pairs = Some (preamble_payload w) ->
  Forall (pair_fits (aligned_bufsize B)) pairs -> preamble_fits (aligned_bufsize B) w ->
  bytes_ok trailing -> len (enc_rcds (preamble_rcds w) ++ trailing) < SIZE_LIMIT ->
  exists p unfed,
    run_schedule norm maxc (new_parser B) (enc_rcds (preamble_rcds w) ++ trailing) sched
      = SOk p true unfed (preamble_replies maxc w) /\
    st p = Done (mkReq (w_id w) (w_role w) (w_flags w) (env_log norm pairs)) /\
    held p ++ unfed = trailing.
End Targets.
