(* Parser/StreamFinal.v — the user-level theorems about the INDEX-LEVEL model of stream::Parser
   (Parser/StreamModel.v, the one that mirrors src/parser/stream.rs), obtained from the data refinement
   (StreamRefine.v) and the laws of the abstract machine (StreamInv.v).  For every max_conns; everything
   is closed under the global context.
     Part A   caller operations [cop] on [sp], [cstep]/[crun], legality, [sp_inv];
              sparse_call (one legal call: Ok/Err, never a panic, all per-call facts, sticky errors),
              concrete_schedule_law / concrete_schedule (every legal schedule),
              set_stream_call / set_stream_no_panic / set_stream_later,
              into_stream_parser_inv / into_stream_parser_targets (initial state)
     Part B   record-level specification: rcd_effect_on, content_rcds, ended_rcds, replies_rcds and
              CF_rcds, RA_rcds (the specification functions on enc_rcds rs ++ t), reply_for_stream_cases
     Part B2  ends_from / EF / E: "the active stream has ended" as a specification function;
              EF_rcds, ends_law (conserved by every call), csched_E, progress_law
     Part C   C03_stream (+ reach, reach_inv), C04_stream, C04_stream_rcds(_exact), C05_stream,
              C02_delivery(_exact), C02_stream_end, C02_end_reported, C18_only_active(_rcds)
              and a worked instance (the exf_ examples) showing the hypotheses are satisfiable. *)
From Coq Require Import ZArith ZifyBool ZifyNat ZifyN.
From FV Require Import Base.Bytes Base.BytesLemmas Gen.Generated Codec.Varint Codec.VarintProofs
  Codec.NV Codec.NVProofs Codec.Header Codec.Bodies Codec.Vars Codec.ProtoProofs
  Parser.ReqModel Parser.ReqParamsSpec Parser.ReqWire Parser.ReqTargets Parser.ReqDrive Parser.ReqRecords
  Parser.StreamModel Parser.StreamSeqProofs Parser.AbsStream Parser.StreamRefine Parser.StreamSpec Parser.StreamInv.
Ltac Zify.zify_post_hook ::= Z.div_mod_to_equations.

(* ================================================================================================ *)
(* Part A: concrete schedules                                                                        *)
(* ================================================================================================ *)

(* what a caller can do with a stream::Parser between two set_stream calls *)
Inductive cop :=
| CParse (new : bytes) (dest : option N)   (* write [new] into input_buffer(), then parse(len new, dest) *)
| CConsumeStream (k : N)                   (* consume_stream(k) *)
| CCompress                                (* compress() *)
| CConsumeOutput (k : N).                  (* consume_output(k) *)

(* the state invariant: the debug_assert_invars! inequalities + the protocol-level invariant *)
Definition sp_inv (p : sp) : Prop := RI p /\ a_inv (abs p).

(* the caller contract of Parser::parse *)
Definition call_legal (p : sp) (new : bytes) (dest : option N) : Prop :=
  bytes_ok new /\ len new <= sinput_space p /\ (dest <> None -> stream_buffer p = []).

Definition cop_legal (p : sp) (op : cop) : Prop :=
  match op with CParse new dest => call_legal p new dest | _ => True end.

Definition cfed_of (op : cop) : bytes := match op with CParse new _ => new | _ => [] end.

Section Concrete.
Variable maxc : N.

(* one operation: the parser afterwards, the stream bytes handed to the caller (written to [dest] by
   parse, or released from the stream buffer by consume_stream), the output bytes taken by the caller
   (consume_output).  A panicking call would leave the state alone; [cno_panic] says there is none. *)
Definition cstep (p : sp) (op : cop) : sp * bytes * bytes :=
  match op with
  | CParse new dest =>
    match sparse maxc p new dest with
    | StOk p' s | StErr p' _ s => (p', s_dest s, [])
    | StPanic _ => (p, [], [])
    end
  | CConsumeStream k => (consume_stream p k, take (N.min k (len (stream_buffer p))) (stream_buffer p), [])
  | CCompress => (compress p, [], [])
  | CConsumeOutput k => (consume_output p k, [], take (N.min k (len (output_buffer p))) (output_buffer p))
  end.

Fixpoint crun (p : sp) (ops : list cop) : sp * bytes * bytes :=
  match ops with
  | [] => (p, [], [])
  | op :: r =>
    let '(p1, d1, e1) := cstep p op in
    let '(p2, d2, e2) := crun p1 r in
    (p2, d1 ++ d2, e1 ++ e2)
  end.

Definition cfinal (p : sp) (ops : list cop) : sp := fst (fst (crun p ops)).
Definition cdelivered (p : sp) (ops : list cop) : bytes := snd (fst (crun p ops)).
Definition cemitted (p : sp) (ops : list cop) : bytes := snd (crun p ops).

Fixpoint csched_legal (p : sp) (ops : list cop) : Prop :=
  match ops with
  | [] => True
  | op :: r => cop_legal p op /\ csched_legal (fst (fst (cstep p op))) r
  end.

Definition cfed (ops : list cop) : bytes := flat_map cfed_of ops.

(* no parse call of the schedule panics *)
Fixpoint cno_panic (p : sp) (ops : list cop) : Prop :=
  match ops with
  | [] => True
  | op :: r =>
    match op with CParse new dest => forall n, sparse maxc p new dest <> StPanic n | _ => True end /\
    cno_panic (fst (fst (cstep p op))) r
  end.

(* ---- basic facts ---- *)
Lemma sp_inv_stream_ok p : sp_inv p -> stream_ok p.
Proof. intros [_ (_ & _ & _ & _ & _ & H)]. exact H. Qed.

Lemma sp_inv_RI p : sp_inv p -> RI p.
Proof. intros [H _]. exact H. Qed.

(* the five debug_assert_invars! inequalities *)
Lemma sp_inv_invars p : sp_inv p ->
  parsed_start p <= gap_start p /\ gap_start p <= raw_start p /\ raw_start p <= free_start p /\
  free_start p <= len (buffer p) /\ output_start p <= len (output p).
Proof. intros [(H1 & H2 & H3 & H4 & H5 & _) _]. repeat split; assumption. Qed.

Lemma call_legal_abs p new dest : call_legal p new dest <-> legal (abs p) new dest.
Proof. split; intros H; exact H. Qed.

Lemma step_law_refl a : a_inv a -> step_law maxc a [] a [] [].
Proof.
  intros H. split; [exact H|]. split; [reflexivity|]. split; [reflexivity|].
  intros u. split; [reflexivity|]. split; [reflexivity|]. intros sg _. reflexivity.
Qed.

Lemma step_law_trans a n1 a1 d1 e1 n2 a2 d2 e2 :
  step_law maxc a n1 a1 d1 e1 -> step_law maxc a1 n2 a2 d2 e2 ->
  step_law maxc a (n1 ++ n2) a2 (d1 ++ d2) (e1 ++ e2).
Proof.
  intros (I1 & S1 & Q1 & L1) (I2 & S2 & Q2 & L2).
  split; [exact I2|]. split; [congruence|]. split; [congruence|].
  intros u. rewrite <- !app_assoc.
  destruct (L1 (n2 ++ u)) as (K1 & R1 & F1). destruct (L2 u) as (K2 & R2 & F2).
  split; [rewrite K1, K2; reflexivity|]. split; [rewrite R1, R2; reflexivity|].
  intros sg Hl. rewrite (F1 sg Hl). apply F2. unfold later_stream in *. rewrite S1, Q1. exact Hl.
Qed.

(* ---- one parse call, seen from the index-level model ---- *)

(* what every legal call guarantees, whether it returns Ok or Err *)
Definition call_post (p : sp) (new : bytes) (dest : option N) (p' : sp) (s : status) : Prop :=
  sp_inv p' /\ stream p' = stream p /\ sreq p' = sreq p /\ len (buffer p') = len (buffer p) /\
  (* C02: the bytes written to dest, followed by what is still owed, are what was owed before *)
  (forall u, K (abs p) (new ++ u) = s_dest s ++ K (abs p') u) /\
  (* C04: the replies owed (pending output ++ future replies) are unchanged ... *)
  (forall u, R maxc (abs p) (new ++ u) = R maxc (abs p') u) /\
  (* C18: the content of every later stream is untouched *)
  (forall sg u, later_stream (abs p) sg -> F (Some sg) (abs p) (new ++ u) = F (Some sg) (abs p') u) /\
  (* ... Status.output = number of bytes appended to the output buffer *)
  (exists o, output_buffer p' = output_buffer p ++ o /\ s_output s = len o) /\
  (* Status.stream = number of stream bytes delivered by this call *)
  (dest = None -> s_dest s = [] /\ exists d, stream_buffer p' = stream_buffer p ++ d /\ s_stream s = len d) /\
  (forall c, dest = Some c -> stream_buffer p' = [] /\ s_stream s = len (s_dest s) /\ len (s_dest s) <= c) /\
  (* C05: the unparsed bytes are a suffix of (previously unparsed ++ new) *)
  suffix (raw_bytes p') (raw_bytes p ++ new).

Lemma call_post_of_abs p new dest p' s : sp_inv p -> call_legal p new dest -> RI p' ->
  (aparse maxc (abs p) new dest = AOk (abs p') s \/ exists e, aparse maxc (abs p) new dest = AFail (abs p') e s) ->
  call_post p new dest p' s.
Proof.
  intros [HRI Hinv] Hleg HRI' Hres.
  destruct (aparse_pres maxc (abs p) new dest (abs p') s Hinv Hleg Hres) as [l' [Ea [Es [P I]]]].
  destruct (content_law maxc (abs p) new dest [] (abs p') s Hinv Hleg Hres) as (_ & Hst & Hrq & Hn & Hc).
  destruct (replies_law maxc (abs p) new dest [] (abs p') s Hinv Hleg Hres) as (_ & Ho).
  unfold call_post.
  split. { split; [exact HRI'|]. rewrite <- Ea. apply I. }
  split; [exact Hst|]. split; [exact Hrq|].
  split. { pose proof (p_B _ _ _ P) as HB. rewrite Ea in HB. exact HB. }
  split. { intros u. apply (content_law maxc (abs p) new dest u (abs p') s Hinv Hleg Hres). }
  split. { intros u. apply (replies_law maxc (abs p) new dest u (abs p') s Hinv Hleg Hres). }
  split. { intros sg u Hl. apply (later_law maxc (abs p) new dest u (abs p') s sg Hinv Hleg Hl Hres). }
  split; [exact Ho|]. split; [exact Hn|]. split; [exact Hc|].
  pose proof (p_raw _ _ _ P) as Hr. rewrite Ea in Hr. exact Hr.
Qed.

Definition first_status (p : sp) : status :=
  mkStatus 0 (match stream p with None => true | Some _ => false end) 0 [].

(* Every legal call from a state satisfying the invariant returns Ok or Err (never panics), and: *)
Theorem sparse_call p new dest : sp_inv p -> call_legal p new dest ->
  (exists p' s, sparse maxc p new dest = StOk p' s /\ call_post p new dest p' s /\
     (* stream_end is reported iff no stream is active or the parser stands at the terminating header *)
     s_end s = match stream p with
               | None => true
               | Some _ => at_terminator (r_role (sreq p)) (r_id (sreq p)) (stream p)
                                         (payload_rem p') (padding_rem p') (raw_bytes p')
               end) \/
  (exists p' e s, sparse maxc p new dest = StErr p' e s /\ call_post p new dest p' s /\
     (e = EAbortRequest \/ exists v, e = EUnknownVersion v) /\
     (* errors are sticky: every later legal call reports the same error, delivers and emits nothing *)
     forall new' dest', call_legal p' new' dest' ->
       exists p'', sparse maxc p' new' dest' = StErr p'' e (first_status p') /\
                   stream_buffer p'' = stream_buffer p' /\ output_buffer p'' = output_buffer p' /\
                   raw_bytes p'' = raw_bytes p' ++ new').
Proof.
  intros Hsp Hleg. pose proof Hsp as [HRI Hinv].
  destruct (sparse_refines maxc p new dest HRI) as [Ga Gb].
  destruct (T_total maxc (abs p) new dest Hinv Hleg) as [(a' & s' & E & I')|(a' & e' & s' & E & I' & Hk)].
  - rewrite E in Ga. destruct (sparse maxc p new dest) as [p' s|p' e s|n]; cbn [absres] in Ga; try discriminate Ga.
    injection Ga as -> ->. cbn [sparse_post] in Gb. destruct Gb as [HRI' _].
    left. exists p', s. split; [reflexivity|].
    split; [apply call_post_of_abs; try assumption; left; exact E|].
    apply (T_end maxc (abs p) new dest (abs p') s Hinv Hleg E).
  - rewrite E in Ga. destruct (sparse maxc p new dest) as [p' s|p' e s|n]; cbn [absres] in Ga; try discriminate Ga.
    injection Ga as -> -> ->. cbn [sparse_post] in Gb. destruct Gb as [HRI' _].
    right. exists p', e, s. split; [reflexivity|].
    split; [apply call_post_of_abs; try assumption; right; exists e; exact E|].
    split; [exact Hk|].
    intros new' dest' Hleg'.
    destruct (T_sticky maxc (abs p) new dest (abs p') e s new' dest' Hinv Hleg E Hleg') as (a'' & E2 & Hp & Ho & Hr).
    destruct (sparse_refines maxc p' new' dest' HRI') as [Ga2 _]. rewrite E2 in Ga2.
    destruct (sparse maxc p' new' dest') as [p2 s2|p2 e2 s2|n2]; cbn [absres] in Ga2; try discriminate Ga2.
    injection Ga2 as Ha2 He2 Hs2. subst a'' e2 s2. exists p2. split; [reflexivity|].
    split; [exact Hp|]. split; [exact Ho|exact Hr].
Qed.

Corollary sparse_call_no_panic p new dest : sp_inv p -> call_legal p new dest ->
  forall n, sparse maxc p new dest <> StPanic n.
Proof.
  intros Hsp Hleg n E.
  destruct (sparse_call p new dest Hsp Hleg) as [(p' & s & E' & _)|(p' & e & s & E' & _)]; congruence.
Qed.

(* ---- one operation ---- *)
Lemma cstep_law p op : sp_inv p -> cop_legal p op ->
  sp_inv (fst (fst (cstep p op))) /\
  match op with CParse new dest => forall n, sparse maxc p new dest <> StPanic n | _ => True end /\
  len (buffer (fst (fst (cstep p op)))) = len (buffer p) /\
  suffix (raw_bytes (fst (fst (cstep p op)))) (raw_bytes p ++ cfed_of op) /\
  step_law maxc (abs p) (cfed_of op) (abs (fst (fst (cstep p op)))) (snd (fst (cstep p op))) (snd (cstep p op)).
Proof.
  intros Hsp Hleg. pose proof Hsp as [HRI Hinv].
  destruct op as [new dest|k| |k]; cbn [cop_legal cfed_of] in *.
  - pose proof (sparse_call_no_panic p new dest Hsp Hleg) as Hnp.
    assert (H : exists p' s, cstep p (CParse new dest) = (p', s_dest s, []) /\ call_post p new dest p' s).
    { destruct (sparse_call p new dest Hsp Hleg) as [(p' & s & E & Hp & _)|(p' & e & s & E & Hp & _)];
        exists p', s; (split; [cbn [cstep]; rewrite E; reflexivity|exact Hp]). }
    destruct H as (p' & s & Ec & Hp). rewrite Ec. cbn [fst snd].
    destruct Hp as (I' & Hst & Hrq & HB & HK & HR & HF & _ & _ & _ & Hsuf).
    split; [exact I'|]. split; [exact Hnp|]. split; [exact HB|]. split; [exact Hsuf|].
    split; [apply I'|]. split; [exact Hst|]. split; [exact Hrq|].
    intros u. split; [apply HK|]. split; [apply HR|]. intros sg Hl. apply HF. exact Hl.
  - cbn [cstep fst snd]. rewrite app_nil_r.
    pose proof (consume_stream_abs p k HRI) as Ea.
    split. { split; [apply consume_stream_RI; exact HRI|]. rewrite Ea. apply consume_stream_inv. exact Hinv. }
    split; [exact I|]. split; [reflexivity|]. split; [apply suffix_refl|].
    rewrite Ea. change (stream_buffer p) with (a_parsed (abs p)).
    apply (sstep_law maxc (abs p) (OConsumeStream k) Hinv I).
  - cbn [cstep fst snd]. rewrite app_nil_r.
    pose proof (compress_abs p HRI) as Ea.
    split. { split; [apply compress_RI; exact HRI|]. rewrite Ea. apply compress_inv. exact Hinv. }
    split; [exact I|].
    split. { apply (f_equal a_B) in Ea. exact Ea. }
    split. { apply (f_equal a_raw) in Ea. cbn [abs acompress a_raw] in Ea. rewrite Ea. apply suffix_refl. }
    rewrite Ea. apply (sstep_law maxc (abs p) OCompress Hinv I).
  - cbn [cstep fst snd]. rewrite app_nil_r.
    pose proof (consume_output_abs p k HRI) as Ea.
    split. { split; [apply consume_output_RI; exact HRI|]. rewrite Ea. exact Hinv. }
    split; [exact I|].
    split. { apply (f_equal a_B) in Ea. exact Ea. }
    split. { apply (f_equal a_raw) in Ea. cbn [abs aconsume_output a_raw] in Ea. rewrite Ea. apply suffix_refl. }
    rewrite Ea. change (output_buffer p) with (a_out (abs p)).
    apply (sstep_law maxc (abs p) (OConsumeOutput k) Hinv I).
Qed.

(* ---- every legal schedule ---- *)
Theorem concrete_schedule_law ops : forall p0, sp_inv p0 -> csched_legal p0 ops ->
  cno_panic p0 ops /\
  sp_inv (cfinal p0 ops) /\
  len (buffer (cfinal p0 ops)) = len (buffer p0) /\
  suffix (raw_bytes (cfinal p0 ops)) (raw_bytes p0 ++ cfed ops) /\
  step_law maxc (abs p0) (cfed ops) (abs (cfinal p0 ops)) (cdelivered p0 ops) (cemitted p0 ops).
Proof.
  unfold cfinal, cdelivered, cemitted.
  induction ops as [|op r IH]; intros p0 Hsp Hleg.
  - cbn [crun cno_panic cfed flat_map fst snd]. rewrite app_nil_r.
    split; [exact I|]. split; [exact Hsp|]. split; [reflexivity|]. split; [apply suffix_refl|].
    apply step_law_refl. apply Hsp.
  - destruct Hleg as [Hop Hr]. cbn [crun cno_panic cfed flat_map].
    destruct (cstep_law p0 op Hsp Hop) as (I1 & Np1 & B1 & S1 & L1).
    destruct (cstep p0 op) as [[p1 d1] e1]. cbn [fst snd] in *.
    destruct (IH p1 I1 Hr) as (Np2 & I2 & B2 & S2 & L2).
    destruct (crun p1 r) as [[p2 d2] e2]. cbn [fst snd] in *.
    split; [split; assumption|]. split; [exact I2|]. split; [congruence|].
    split.
    { rewrite app_assoc. apply (suffix_trans _ _ _ S2). apply suffix_app. exact S1. }
    apply (step_law_trans _ _ _ _ _ _ _ _ _ L1 L2).
Qed.

(* the same, spelled out (this is the form quoted by the property files) *)
Theorem concrete_schedule ops p0 : sp_inv p0 -> csched_legal p0 ops ->
  let pf := cfinal p0 ops in
  cno_panic p0 ops /\ sp_inv pf /\ stream pf = stream p0 /\ sreq pf = sreq p0 /\
  len (buffer pf) = len (buffer p0) /\
  (exists consumed, raw_bytes p0 ++ cfed ops = consumed ++ raw_bytes pf) /\
  forall u,
    K (abs p0) (cfed ops ++ u) = cdelivered p0 ops ++ K (abs pf) u /\
    R maxc (abs p0) (cfed ops ++ u) = cemitted p0 ops ++ R maxc (abs pf) u /\
    forall sg, later_stream (abs p0) sg -> F (Some sg) (abs p0) (cfed ops ++ u) = F (Some sg) (abs pf) u.
Proof.
  intros Hsp Hleg pf.
  destruct (concrete_schedule_law ops p0 Hsp Hleg) as (Np & I & B & S & (_ & Hs & Hq & L)).
  split; [exact Np|]. split; [exact I|]. split; [exact Hs|]. split; [exact Hq|]. split; [exact B|].
  split; [exact S|]. exact L.
Qed.

End Concrete.

(* ---- set_stream ---- *)
Section SetStream.
Variable maxc : N.

Lemma aset_stream_B a s a' : aset_stream a s = ASetOk a' -> a_B a' = a_B a.
Proof.
  unfold aset_stream. destruct (accepts (r_role (a_req a)) (a_stream a) s) as [[|]|]; try discriminate.
  destruct (optN_eqb s (a_stream a)); intros H; inversion H; reflexivity.
Qed.

(* an accepted set_stream: invariant kept, replies and the content of every stream untouched; when the
   selection changes, the stream buffer is dropped and the new epoch will deliver exactly the not yet
   consumed content of the newly selected stream *)
Theorem set_stream_call p s p' : sp_inv p -> set_stream p s = SetOk p' ->
  sp_inv p' /\ sreq p' = sreq p /\ len (buffer p') = len (buffer p) /\
  output_buffer p' = output_buffer p /\ raw_bytes p' = raw_bytes p /\
  (forall u, R maxc (abs p') u = R maxc (abs p) u) /\
  (forall sg u, F sg (abs p') u = F sg (abs p) u) /\
  (optN_eqb s (stream p) = true -> p' = p) /\
  (optN_eqb s (stream p) = false ->
     stream p' = s /\ stream_buffer p' = [] /\ forall u, K (abs p') u = F s (abs p) u).
Proof.
  intros [HRI Hinv] E. pose proof (set_stream_refines p s HRI) as Href. rewrite E in Href.
  destruct (aset_stream (abs p) s) as [a'| |] eqn:Ea; try contradiction.
  destruct Href as [HRI' Habs]. subst a'.
  pose proof (aset_stream_B _ _ _ Ea) as HB.
  destruct (set_stream_law maxc (abs p) s (abs p') [] Hinv Ea) as (Hsame & Hdiff & _ & _ & Hinv').
  split; [split; assumption|].
  assert (Hfields : sreq p' = sreq p /\ output_buffer p' = output_buffer p /\ raw_bytes p' = raw_bytes p).
  { destruct (optN_eqb s (stream p)) eqn:Eq.
    - specialize (Hsame Eq).
      split; [exact (f_equal a_req Hsame)|]. split; [exact (f_equal a_out Hsame)|exact (f_equal a_raw Hsame)].
    - destruct (Hdiff Eq) as (_ & _ & Hq & Ho & Hr & _).
      split; [exact Hq|]. split; [exact Ho|exact Hr]. }
  destruct Hfields as (Hq & Ho & Hr).
  split; [exact Hq|]. split; [exact HB|]. split; [exact Ho|]. split; [exact Hr|].
  split. { intros u. apply (set_stream_law maxc (abs p) s (abs p') u Hinv Ea). }
  split. { intros sg u. apply (set_stream_law maxc (abs p) s (abs p') u Hinv Ea). }
  split.
  { intros Eq. unfold set_stream in E.
    destruct (match s with
              | Some x => match cmp_input_streams (r_role (sreq p)) x (stream p) with
                          | None => None | Some Lt => Some false | Some _ => Some true end
              | None => Some true end) as [[|]|]; try discriminate E.
    rewrite Eq in E. injection E as E. symmetry. exact E. }
  intros Eq. destruct (Hdiff Eq) as (Hs & Hp & _).
  split; [exact Hs|]. split; [exact Hp|].
  intros u. apply (set_stream_law maxc (abs p) s (abs p') u Hinv Ea). exact Eq.
Qed.

(* set_stream never panics when asked for an input stream (Option<Stream> in the Rust signature) *)
Theorem set_stream_no_panic p s : sp_inv p ->
  match s with Some x => is_input_stream x = true | None => True end ->
  set_stream p s <> SetPanic.
Proof.
  intros Hsp Hs E. pose proof (sp_inv_stream_ok p Hsp) as Hok. unfold stream_ok in Hok.
  unfold set_stream in E. destruct s as [x|].
  - destruct (cmp_input_streams (r_role (sreq p)) x (stream p)) as [[| |]|] eqn:Ec.
    + discriminate E.
    + destruct (optN_eqb (Some x) (stream p)); discriminate E.
    + destruct (optN_eqb (Some x) (stream p)); discriminate E.
    + destruct (stream p) as [c|].
      * apply (cmp_some _ _ _ Hs Hok Ec).
      * discriminate Ec.
  - destruct (optN_eqb None (stream p)); discriminate E.
Qed.

(* selecting a later stream is always accepted *)
Theorem set_stream_later p sg : sp_inv p -> later_stream (abs p) sg ->
  exists p', set_stream p (Some sg) = SetOk p' /\ optN_eqb (Some sg) (stream p) = false.
Proof.
  intros Hsp Hl. unfold later_stream in Hl. change (a_stream (abs p)) with (stream p) in Hl.
  change (a_req (abs p)) with (sreq p) in Hl.
  destruct (stream p) as [c|] eqn:Es; [|contradiction].
  assert (Hne : optN_eqb (Some sg) (Some c) = false).
  { cbn [optN_eqb]. destruct (N.eqb_spec sg c) as [E|_]; [|reflexivity].
    subst c. unfold cmp_input_streams in Hl.
    destruct (negb (is_input_stream sg) || negb (is_input_stream sg)); [discriminate Hl|].
    rewrite N.eqb_refl in Hl. discriminate Hl. }
  unfold set_stream. rewrite Es, Hl, Hne. eexists. split; reflexivity.
Qed.
End SetStream.

(* ---- the initial state: request::Parser::into_stream_parser ---- *)
Lemma next_input_none_ok role :
  match next_input_stream role None with Some e => is_input_stream e = true | None => True end.
Proof.
  unfold next_input_stream, NEXT_INPUT_STREAM. cbn [find fst snd optN_eqb].
  rewrite andb_true_r, andb_false_r.
  destruct (memN role [1; 3]); [reflexivity|exact I].
Qed.

Theorem into_stream_parser_inv rp r : parser_ok rp -> st rp = Done r ->
  exists sp0, into_stream_parser rp = inl sp0 /\ sp_inv sp0 /\
    sreq sp0 = r /\ stream sp0 = next_input_stream (r_role r) None /\ len (buffer sp0) = cap rp /\
    stream_buffer sp0 = [] /\ output_buffer sp0 = [] /\ raw_bytes sp0 = held rp /\
    payload_rem sp0 = 0 /\ padding_rem sp0 = 0 /\
    abs sp0 = mkA (cap rp) (cap rp - len (held rp)) [] (held rp) [] r (next_input_stream (r_role r) None) 0 0 SSkip.
Proof.
  intros (_ & _ & Hb & Hl & Hc) Hst.
  destruct (into_stream_parser_init rp r Hst Hl) as (p0 & E & HRI & Habs).
  exists p0. split; [exact E|].
  split.
  { split; [exact HRI|]. rewrite Habs. unfold a_inv, a_ok.
    cbn [a_B a_space a_parsed a_raw a_out a_req a_stream a_prem a_pad a_st].
    change (len (@nil N)) with 0.
    split; [lia|]. split; [lia|]. split; [lia|]. split; [exact Hb|]. split; [discriminate|].
    apply next_input_none_ok. }
  split; [exact (f_equal a_req Habs)|]. split; [exact (f_equal a_stream Habs)|].
  split; [exact (f_equal a_B Habs)|]. split; [exact (f_equal a_parsed Habs)|].
  split; [exact (f_equal a_out Habs)|]. split; [exact (f_equal a_raw Habs)|].
  split; [exact (f_equal a_prem Habs)|]. split; [exact (f_equal a_pad Habs)|exact Habs].
Qed.

(* what the fresh stream parser owes: the content of the role's first input stream / the replies /
   the content of any stream, all counted from the first byte after the preamble *)
Theorem into_stream_parser_targets maxc rp r sp0 : parser_ok rp -> st rp = Done r ->
  into_stream_parser rp = inl sp0 ->
  forall u,
    K (abs sp0) u = content_from (r_role r) (r_id r) (content_fuel (held rp ++ u))
                                 (next_input_stream (r_role r) None) false 0 0 (held rp ++ u) /\
    R maxc (abs sp0) u = replies_all maxc (r_id r) (content_fuel (held rp ++ u)) SSkip 0 0 (held rp ++ u) /\
    forall sg, F sg (abs sp0) u = content_from (r_role r) (r_id r) (content_fuel (held rp ++ u)) sg false 0 0 (held rp ++ u).
Proof.
  intros Hok Hst E u.
  destruct (into_stream_parser_inv rp r Hok Hst) as (p0 & E' & _ & _ & _ & _ & _ & _ & _ & _ & _ & Habs).
  rewrite E in E'. injection E' as <-.
  unfold K, R, F, cur_of. rewrite Habs.
  cbn [a_B a_space a_parsed a_raw a_out a_req a_stream a_prem a_pad a_st app].
  split; [reflexivity|]. split; [reflexivity|]. intros sg. reflexivity.
Qed.


(* ================================================================================================ *)
(* Part B: record-level meaning of the specification functions                                       *)
(* ================================================================================================ *)

(* ---- the record-level specification (over [rcd], [enc_rcds] of Parser/ReqWire.v) ---- *)

(* what one record means for the stream [sg] of request [id] when the request has role [role].
   [spec_cmp role t sg] (StreamSeqProofs.v) places a received input-stream type t relative to sg:
   Eq = it is sg; Gt = it comes later in the role's order; Lt = it comes earlier, or is not a stream of
   the role, or no stream is selected. *)
Inductive rcd_effect :=
| EBody (b : bytes)    (* contributes its body to the stream *)
| ESkip                (* ignored as far as this stream is concerned *)
| ETerminator          (* ends the stream: its empty record, or the first record of a later stream *)
| EAbort.              (* AbortRequest of this request: the stream is cut off *)

Definition rcd_effect_on (role id : N) (sg : option N) (r : rcd) : rcd_effect :=
  if is_input_stream (rt r) && (rid r =? id) then
    match spec_cmp role (rt r) sg with
    | Eq => if len (rbody r) =? 0 then ETerminator else EBody (rbody r)
    | Lt => ESkip
    | Gt => ETerminator              (* held back for the next epoch *)
    end
  else if (rt r =? RT_AbortRequest) && (rid r =? id) then EAbort
  else ESkip.                        (* management, unknown type, foreign id, stale Params, BeginRequest, ... *)

(* (bytes of stream sg in the record list, whether the walk reached the end of the list without ending) *)
Fixpoint content_walk (role id : N) (sg : option N) (rs : list rcd) : bytes * bool :=
  match rs with
  | [] => ([], true)
  | r :: t =>
    match rcd_effect_on role id sg r with
    | EBody b => (b ++ fst (content_walk role id sg t), snd (content_walk role id sg t))
    | ESkip => content_walk role id sg t
    | ETerminator | EAbort => ([], false)
    end
  end.

Definition content_rcds (role id : N) (sg : option N) (rs : list rcd) : bytes := fst (content_walk role id sg rs).
Definition content_open (role id : N) (sg : option N) (rs : list rcd) : bool := snd (content_walk role id sg rs).

(* a terminator of sg occurs before any AbortRequest of this request *)
Fixpoint ended_rcds (role id : N) (sg : option N) (rs : list rcd) : bool :=
  match rs with
  | [] => false
  | r :: t =>
    match rcd_effect_on role id sg r with
    | EBody _ | ESkip => ended_rcds role id sg t
    | ETerminator => true
    | EAbort => false
    end
  end.

(* (replies owed for the records up to the first AbortRequest of this request, whether none was met) *)
Fixpoint replies_walk (maxc id : N) (rs : list rcd) : bytes * bool :=
  match rs with
  | [] => ([], true)
  | r :: t =>
    if (rt r =? RT_AbortRequest) && (rid r =? id) then ([], false)
    else (reply_for maxc (InStream id) r ++ fst (replies_walk maxc id t), snd (replies_walk maxc id t))
  end.

Definition replies_rcds (maxc id : N) (rs : list rcd) : bytes := fst (replies_walk maxc id rs).
Definition replies_open (maxc id : N) (rs : list rcd) : bool := snd (replies_walk maxc id rs).

(* a selection is either nothing or an input-stream type (Option<Stream>) *)
Definition sel_ok (sg : option N) : Prop :=
  match sg with Some s => is_input_stream s = true | None => True end.

(* ---- cmp_input_streams is spec_cmp, for EVERY role value ---- *)
Lemma cmp_spec_all role t sg : is_input_stream t = true -> sel_ok sg ->
  cmp_input_streams role t sg = Some (spec_cmp role t sg).
Proof.
  intros Ht Hs. destruct sg as [s|]; [|reflexivity]. cbn [sel_ok] in Hs.
  apply is_input_cases in Ht. apply is_input_cases in Hs.
  unfold cmp_input_streams, spec_cmp.
  destruct (role_streams_cases role) as [Hr|[Hr|Hr]]; rewrite Hr;
    destruct Ht as [-> | ->]; destruct Hs as [-> | ->]; vm_compute; reflexivity.
Qed.

Lemma unknown_not_special t : known_type t = false ->
  is_input_stream t = false /\ (t =? RT_AbortRequest) = false /\ (t =? RT_BeginRequest) = false /\
  (t =? RT_GetValues) = false.
Proof.
  intros H.
  split. { destruct (is_input_stream t) eqn:E; [|reflexivity].
           apply is_input_cases in E. destruct E as [-> | ->]; discriminate H. }
  split. { destruct (N.eqb_spec t RT_AbortRequest) as [->|_]; [discriminate H|reflexivity]. }
  split. { destruct (N.eqb_spec t RT_BeginRequest) as [->|_]; [discriminate H|reflexivity]. }
  destruct (N.eqb_spec t RT_GetValues) as [->|_]; [discriminate H|reflexivity].
Qed.

Lemma enc_rcds_cons r rs : enc_rcds (r :: rs) = enc_rcd r ++ enc_rcds rs.
Proof. reflexivity. Qed.

Lemma enc_rcd_app r w : enc_rcd r ++ w = hdr8 r ++ rbody r ++ rpad r ++ w.
Proof. rewrite enc_rcd_eq, <- !app_assoc. reflexivity. Qed.

Lemma len_hdr8_app r w : HEADER_LEN <= len (hdr8 r ++ w).
Proof. rewrite len_app, len_hdr8. unfold HEADER_LEN. lia. Qed.

Section RecordLevel.
Variable maxc : N.
Variable role id : N.
Notation CF := (CF role id).
Notation RA := (RA maxc id).

(* a whole record body + padding lying in front *)
Lemma CF_body sg cur b q w :
  CF sg cur (len b) (len q) (b ++ q ++ w) = (if cur then b else []) ++ CF sg false 0 0 w.
Proof.
  rewrite (CF_adv role id sg cur (len b) (len q) (b ++ q ++ w) (len b)) by (rewrite ?len_app; lia).
  rewrite take_len_app, drop_len_app, N.sub_diag.
  rewrite (CF_pad_adv role id sg cur (len q) (q ++ w) (len q)) by (rewrite ?len_app; lia).
  rewrite drop_len_app, N.sub_diag, (CF_cur0 role id sg cur). reflexivity.
Qed.

Lemma RA_body0 st q w : RA st 0 (len q) (q ++ w) = RA SSkip 0 0 w.
Proof.
  rewrite (RA_pad_adv maxc id st (len q) (q ++ w) (len q)) by (rewrite ?len_app; lia).
  rewrite drop_len_app, N.sub_diag. apply RA_st0.
Qed.

Lemma RA_body st b q w : 0 < len b ->
  RA st (len b) (len q) (b ++ q ++ w) = resp maxc st b ++ RA SSkip 0 0 w.
Proof.
  intros Hb.
  rewrite (RA_adv_full maxc id st SSkip (len b) (len q) (b ++ q ++ w)) by (rewrite ?len_app; lia).
  rewrite take_len_app, drop_len_app, RA_body0. reflexivity.
Qed.

Lemma RA_body_nv st b q w : not_values st ->
  RA st (len b) (len q) (b ++ q ++ w) = RA SSkip 0 0 w.
Proof.
  intros Hst. destruct (N.eq_dec (len b) 0) as [Hz|Hz].
  - rewrite Hz. rewrite (len_zero_nil b Hz). cbn [app]. apply RA_body0.
  - rewrite RA_body by lia. rewrite (resp_not_values maxc st b Hst). reflexivity.
Qed.

(* ---- one record ---- *)
Lemma CF_record sg r w : rcd_ok r -> sel_ok sg ->
  CF sg false 0 0 (enc_rcd r ++ w) =
  match rcd_effect_on role id sg r with
  | EBody b => b ++ CF sg false 0 0 w
  | ESkip => CF sg false 0 0 w
  | ETerminator | EAbort => []
  end.
Proof.
  intros Hr Hs. rewrite enc_rcd_app.
  rewrite CF_head by apply len_hdr8_app. rewrite take8_hdr8, drop8_hdr8.
  unfold cf_hd. rewrite (hdr_decode_hdr8 r Hr). unfold rcd_effect_on.
  destruct (known_type (rt r)) eqn:Hk.
  - destruct (is_input_stream (rt r) && (rid r =? id)) eqn:Hin.
    + apply andb_true_iff in Hin. destruct Hin as [Hin _].
      rewrite (cmp_spec_all role (rt r) sg Hin Hs).
      destruct (spec_cmp role (rt r) sg).
      * rewrite CF_body. reflexivity.
      * destruct (len (rbody r) =? 0); [reflexivity|]. rewrite CF_body. reflexivity.
      * reflexivity.
    + destruct ((rt r =? RT_AbortRequest) && (rid r =? id)); [reflexivity|].
      rewrite CF_body. reflexivity.
  - destruct (unknown_not_special _ Hk) as (-> & -> & _ & _). cbn [andb].
    destruct (hdr8_fields r Hr) as (_ & -> & ->). rewrite CF_body. reflexivity.
Qed.

Lemma RA_record st r w : rcd_ok r ->
  RA st 0 0 (enc_rcd r ++ w) =
  if (rt r =? RT_AbortRequest) && (rid r =? id) then []
  else reply_for maxc (InStream id) r ++ RA SSkip 0 0 w.
Proof.
  intros Hr. rewrite enc_rcd_app.
  rewrite RA_head by apply len_hdr8_app. rewrite take8_hdr8, drop8_hdr8.
  unfold ra_hd. rewrite (hdr_decode_hdr8 r Hr). unfold reply_for.
  destruct (known_type (rt r)) eqn:Hk; cbn [negb].
  - destruct ((rt r =? RT_AbortRequest) && (rid r =? id)) eqn:Hab; [reflexivity|].
    rewrite gv_cond.
    destruct (N.eqb_spec (rt r) RT_BeginRequest) as [Hb|Hb].
    + rewrite Hb. change (RT_BeginRequest =? RT_GetValues) with false. cbn [andb].
      destruct (negb (rid r =? id)).
      * rewrite RA_body_nv by exact I. reflexivity.
      * rewrite RA_body_nv by exact I. reflexivity.
    + cbn [andb]. destruct ((rt r =? RT_GetValues) && (rid r =? 0)) eqn:Hgv.
      * destruct (N.eqb_spec (len (rbody r)) 0) as [Hz|Hz].
        -- rewrite Hz. rewrite (len_zero_nil _ Hz). cbn [app]. rewrite RA_body0. reflexivity.
        -- rewrite RA_body by lia. reflexivity.
      * rewrite RA_body_nv by exact I. reflexivity.
  - destruct (unknown_not_special _ Hk) as (_ & -> & _ & _). cbn [andb].
    destruct (hdr8_fields r Hr) as (-> & -> & ->). rewrite RA_body_nv by exact I. reflexivity.
Qed.

(* ---- a record list followed by arbitrary bytes ---- *)
Theorem CF_rcds sg rs t : Forall rcd_ok rs -> sel_ok sg ->
  CF sg false 0 0 (enc_rcds rs ++ t) =
  content_rcds role id sg rs ++ (if content_open role id sg rs then CF sg false 0 0 t else []).
Proof.
  intros Hrs Hs. unfold content_rcds, content_open.
  induction Hrs as [|r rs Hr Hrs IH].
  - reflexivity.
  - rewrite enc_rcds_cons, <- app_assoc. rewrite (CF_record sg r _ Hr Hs). cbn [content_walk].
    destruct (rcd_effect_on role id sg r); cbn [fst snd].
    + rewrite IH, app_assoc. reflexivity.
    + exact IH.
    + reflexivity.
    + reflexivity.
Qed.

Theorem RA_rcds st rs t : Forall rcd_ok rs ->
  RA st 0 0 (enc_rcds rs ++ t) =
  replies_rcds maxc id rs ++ (if replies_open maxc id rs then RA SSkip 0 0 t else []).
Proof.
  intros Hrs. unfold replies_rcds, replies_open. revert st.
  induction Hrs as [|r rs Hr Hrs IH]; intros st.
  - cbn [enc_rcds flat_map replies_walk fst snd app]. apply RA_st0.
  - rewrite enc_rcds_cons, <- app_assoc. rewrite (RA_record st r _ Hr). cbn [replies_walk].
    destruct ((rt r =? RT_AbortRequest) && (rid r =? id)); cbn [fst snd]; [reflexivity|].
    rewrite IH, app_assoc. reflexivity.
Qed.
End RecordLevel.

(* the replies named in the task, record by record (reading aid for [reply_for _ (InStream id)]) *)
Lemma reply_for_stream_cases maxc id r : rcd_ok r ->
  (known_type (rt r) = false -> reply_for maxc (InStream id) r = unk_record (rt r) (rid r)) /\
  (rt r = RT_GetValues -> rid r = 0 -> rbody r <> [] ->
     reply_for maxc (InStream id) r = write_response (vars_of_pairs 0 (fst (nv_run (rbody r)))) maxc) /\
  (rt r = RT_GetValues -> rid r = 0 -> rbody r = [] -> reply_for maxc (InStream id) r = []) /\
  (rt r = RT_BeginRequest -> rid r <> id -> reply_for maxc (InStream id) r = end_record 0 PS_CantMpxConn (rid r)).
Proof.
  intros Hr. unfold reply_for, gv_reply.
  split. { intros ->. reflexivity. }
  split. { intros -> -> Hne. change (known_type RT_GetValues) with true. cbn [negb].
           rewrite !N.eqb_refl. cbn [andb].
           destruct (N.eqb_spec (len (rbody r)) 0) as [Hz|_]; [|reflexivity].
           exfalso. apply Hne. apply len_zero_nil. exact Hz. }
  split. { intros -> -> ->. reflexivity. }
  intros -> Hne. change (known_type RT_BeginRequest) with true. cbn [negb].
  change (RT_BeginRequest =? RT_GetValues) with false. cbn [andb].
  rewrite N.eqb_refl. destruct (N.eqb_spec (rid r) id) as [E|_]; [contradiction|reflexivity].
Qed.


(* ================================================================================================ *)
(* Part B2: "the stream has ended" as a specification function, and its conservation                  *)
(* ================================================================================================ *)

(* [ends_from]: walking the remaining bytes w from position (prem, pad) exactly like [content_from],
   a terminator of stream sg (its empty record, or the first record of a later stream of this request)
   is met before an AbortRequest of this request, an unknown version, or the end of the bytes. *)
Section Ends.
Variable role id : N.

Definition ef_body (rec : option N -> N -> N -> bytes -> bool) (sg : option N) (prem pad : N) (w : bytes) : bool :=
  if 0 <? prem then (if len w <? prem then false else rec sg 0 pad (drop prem w))
  else if 0 <? pad then (if len w <=? pad then false else rec sg 0 0 (drop pad w))
  else if len w <? HEADER_LEN then false
  else
    let head := take HEADER_LEN w in
    let rest := drop HEADER_LEN w in
    match hdr_decode head with
    | HBadVersion _ => false
    | HBadType _ => rec sg (be16 (nthN head 4) (nthN head 5)) (nthN head 6) rest
    | HOk t rid cl pl =>
      if is_input_stream t && (rid =? id) then
        match cmp_input_streams role t sg with
        | Some Eq => if cl =? 0 then true else rec sg cl pl rest
        | Some Lt => rec sg cl pl rest
        | Some Gt => true
        | None => false
        end
      else if (t =? RT_AbortRequest) && (rid =? id) then false
      else rec sg cl pl rest
    end.

Fixpoint ends_from (fuel : nat) (sg : option N) (prem pad : N) (w : bytes) : bool :=
  match fuel with
  | O => false
  | S f => ef_body (ends_from f) sg prem pad w
  end.

Lemma ends_from_S f sg prem pad w : ends_from (S f) sg prem pad w = ef_body (ends_from f) sg prem pad w.
Proof. reflexivity. Qed.

Lemma ef_body_ext (r1 r2 : option N -> N -> N -> bytes -> bool) sg prem pad w :
  (forall sg' prem' pad' w', (length w' < length w)%nat -> r1 sg' prem' pad' w' = r2 sg' prem' pad' w') ->
  ef_body r1 sg prem pad w = ef_body r2 sg prem pad w.
Proof.
  intros H. unfold ef_body.
  destruct (N.ltb_spec 0 prem) as [Hp|Hp].
  - destruct (N.ltb_spec (len w) prem) as [Hl|Hl]; [reflexivity|].
    apply H. apply drop_shorter; lia.
  - destruct (N.ltb_spec 0 pad) as [Hq|Hq].
    + destruct (N.leb_spec (len w) pad) as [Hl|Hl]; [reflexivity|].
      apply H. apply drop_shorter; lia.
    + destruct (N.ltb_spec (len w) HEADER_LEN) as [Hl|Hl]; [reflexivity|].
      assert (Hs : (length (drop HEADER_LEN w) < length w)%nat).
      { apply drop_shorter; unfold HEADER_LEN in *; lia. }
      cbv zeta.
      destruct (hdr_decode (take HEADER_LEN w)) as [t rid cl pl|v|t].
      * destruct (is_input_stream t && (rid =? id)).
        -- destruct (cmp_input_streams role t sg) as [[| |]|]; try reflexivity.
           ++ apply H; exact Hs.
           ++ destruct (cl =? 0); [reflexivity|]. apply H; exact Hs.
        -- destruct ((t =? RT_AbortRequest) && (rid =? id)); [reflexivity|]. apply H; exact Hs.
      * reflexivity.
      * apply H; exact Hs.
Qed.

Lemma ends_from_fuel f1 : forall f2 sg prem pad w,
  (length w < f1)%nat -> (length w < f2)%nat ->
  ends_from f1 sg prem pad w = ends_from f2 sg prem pad w.
Proof.
  induction f1 as [|f1 IH]; intros f2 sg prem pad w H1 H2; [lia|].
  destruct f2 as [|f2]; [lia|].
  rewrite !ends_from_S. apply ef_body_ext.
  intros sg' prem' pad' w' Hw. apply IH; lia.
Qed.

Definition EF (sg : option N) (prem pad : N) (w : bytes) : bool :=
  ends_from (content_fuel w) sg prem pad w.

Lemma EF_eq sg prem pad w : EF sg prem pad w = ef_body EF sg prem pad w.
Proof.
  unfold EF at 1. unfold content_fuel.
  replace (length w + 2)%nat with (S (length w + 1)) by lia.
  rewrite ends_from_S. apply ef_body_ext.
  intros sg' prem' pad' w' Hw. unfold EF, content_fuel. apply ends_from_fuel; lia.
Qed.

Lemma EF_prem sg prem pad w : 0 < prem ->
  EF sg prem pad w = if len w <? prem then false else EF sg 0 pad (drop prem w).
Proof. intros H. rewrite EF_eq at 1. unfold ef_body. rewrite (ltb_0_pos _ H). reflexivity. Qed.

Lemma EF_pad sg pad w : 0 < pad ->
  EF sg 0 pad w = if len w <=? pad then false else EF sg 0 0 (drop pad w).
Proof. intros H. rewrite EF_eq at 1. unfold ef_body. rewrite ltb_0_0, (ltb_0_pos _ H). reflexivity. Qed.

Definition ef_hd (sg : option N) (head rest : bytes) : bool :=
  match hdr_decode head with
  | HBadVersion _ => false
  | HBadType _ => EF sg (be16 (nthN head 4) (nthN head 5)) (nthN head 6) rest
  | HOk t rid cl pl =>
    if is_input_stream t && (rid =? id) then
      match cmp_input_streams role t sg with
      | Some Eq => if cl =? 0 then true else EF sg cl pl rest
      | Some Lt => EF sg cl pl rest
      | Some Gt => true
      | None => false
      end
    else if (t =? RT_AbortRequest) && (rid =? id) then false
    else EF sg cl pl rest
  end.

Lemma EF_head sg w : HEADER_LEN <= len w ->
  EF sg 0 0 w = ef_hd sg (take HEADER_LEN w) (drop HEADER_LEN w).
Proof.
  intros H. rewrite EF_eq at 1. unfold ef_body. rewrite !ltb_0_0.
  destruct (N.ltb_spec (len w) HEADER_LEN) as [Hl|Hl]; [lia|]. reflexivity.
Qed.

Lemma EF_short sg w : len w < HEADER_LEN -> EF sg 0 0 w = false.
Proof.
  intros H. rewrite EF_eq at 1. unfold ef_body. rewrite !ltb_0_0.
  destruct (N.ltb_spec (len w) HEADER_LEN) as [Hl|Hl]; [reflexivity|lia].
Qed.

Lemma EF_nil sg prem pad : EF sg prem pad [] = false.
Proof.
  rewrite EF_eq. unfold ef_body. change (len (@nil N)) with 0.
  destruct (N.ltb_spec 0 prem) as [Hp|Hp].
  - destruct (N.ltb_spec 0 prem) as [_|Hl]; [reflexivity|lia].
  - destruct (N.ltb_spec 0 pad) as [Hq|Hq].
    + destruct (N.leb_spec 0 pad) as [_|Hl]; [reflexivity|lia].
    + reflexivity.
Qed.

Lemma EF_adv sg prem pad w n : n <= prem -> n <= len w ->
  EF sg prem pad w = EF sg (prem - n) pad (drop n w).
Proof.
  intros Hn Hw.
  destruct (N.eq_dec n 0) as [->|Hn0].
  { rewrite drop_0, N.sub_0_r. reflexivity. }
  rewrite (EF_prem sg prem) by lia.
  destruct (N.eq_dec n prem) as [->|Hne].
  - rewrite N.sub_diag.
    destruct (N.ltb_spec (len w) prem) as [Hl|Hl]; [lia|]. reflexivity.
  - rewrite (EF_prem sg (prem - n)) by lia.
    rewrite len_drop, drop_drop.
    replace (n + (prem - n)) with prem by lia.
    destruct (N.ltb_spec (len w - n) (prem - n)); destruct (N.ltb_spec (len w) prem); try reflexivity; lia.
Qed.

Lemma EF_pad_adv sg pad w n : n <= pad -> n <= len w ->
  EF sg 0 pad w = EF sg 0 (pad - n) (drop n w).
Proof.
  intros Hn Hw.
  destruct (N.eq_dec n 0) as [->|Hn0].
  { rewrite drop_0, N.sub_0_r. reflexivity. }
  rewrite (EF_pad sg pad) by lia.
  destruct (N.eq_dec n pad) as [->|Hne].
  - rewrite N.sub_diag.
    destruct (N.leb_spec (len w) pad) as [Hl|Hl].
    + rewrite (drop_all pad w) by lia. rewrite EF_nil. reflexivity.
    + reflexivity.
  - rewrite (EF_pad sg (pad - n)) by lia.
    rewrite len_drop, drop_drop.
    replace (n + (pad - n)) with pad by lia.
    destruct (N.leb_spec (len w - n) (pad - n)); destruct (N.leb_spec (len w) pad); try reflexivity; lia.
Qed.

Lemma EF_head_app sg raw u : HEADER_LEN <= len raw ->
  EF sg 0 0 (raw ++ u) = ef_hd sg (take HEADER_LEN raw) (drop HEADER_LEN raw ++ u).
Proof.
  intros H. rewrite EF_head by (rewrite len_app; lia).
  rewrite (take_app_le HEADER_LEN raw u H), (drop_app_le HEADER_LEN raw u H). reflexivity.
Qed.

(* standing at the terminator: ended, and nothing more to come *)
Lemma at_terminator_EF sg prem pad raw u : at_terminator role id sg prem pad raw = true ->
  prem = 0 /\ pad = 0 /\ EF sg 0 0 (raw ++ u) = true /\ CF role id sg false 0 0 (raw ++ u) = [].
Proof.
  unfold at_terminator. intros H.
  apply andb_true_iff in H. destruct H as [H H4].
  apply andb_true_iff in H. destruct H as [H H3].
  apply andb_true_iff in H. destruct H as [H1 H2].
  apply N.eqb_eq in H1. apply N.eqb_eq in H2. apply N.leb_le in H3.
  split; [exact H1|]. split; [exact H2|].
  rewrite (EF_head_app sg raw u H3), (CF_head_app role id sg false raw u H3). unfold ef_hd, cf_hd.
  destruct (hdr_decode (take HEADER_LEN raw)) as [t rid cl pl|v|t]; try discriminate H4.
  apply andb_true_iff in H4. destruct H4 as [Hin Hc]. rewrite Hin.
  destruct (cmp_input_streams role t sg) as [[| |]|]; try discriminate Hc.
  - rewrite Hc. split; reflexivity.
  - split; reflexivity.
Qed.

(* record level *)
Lemma EF_body sg b q w : EF sg (len b) (len q) (b ++ q ++ w) = EF sg 0 0 w.
Proof.
  rewrite (EF_adv sg (len b) (len q) (b ++ q ++ w) (len b)) by (rewrite ?len_app; lia).
  rewrite drop_len_app, N.sub_diag.
  rewrite (EF_pad_adv sg (len q) (q ++ w) (len q)) by (rewrite ?len_app; lia).
  rewrite drop_len_app, N.sub_diag. reflexivity.
Qed.

Lemma EF_record sg r w : rcd_ok r -> sel_ok sg ->
  EF sg 0 0 (enc_rcd r ++ w) =
  match rcd_effect_on role id sg r with
  | EBody _ | ESkip => EF sg 0 0 w
  | ETerminator => true
  | EAbort => false
  end.
Proof.
  intros Hr Hs. rewrite enc_rcd_app.
  rewrite EF_head by apply len_hdr8_app. rewrite take8_hdr8, drop8_hdr8.
  unfold ef_hd. rewrite (hdr_decode_hdr8 r Hr). unfold rcd_effect_on.
  destruct (known_type (rt r)) eqn:Hk.
  - destruct (is_input_stream (rt r) && (rid r =? id)) eqn:Hin.
    + apply andb_true_iff in Hin. destruct Hin as [Hin _].
      rewrite (cmp_spec_all role (rt r) sg Hin Hs).
      destruct (spec_cmp role (rt r) sg).
      * rewrite EF_body. reflexivity.
      * destruct (len (rbody r) =? 0); [reflexivity|]. rewrite EF_body. reflexivity.
      * reflexivity.
    + destruct ((rt r =? RT_AbortRequest) && (rid r =? id)); [reflexivity|].
      rewrite EF_body. reflexivity.
  - destruct (unknown_not_special _ Hk) as (-> & -> & _ & _). cbn [andb].
    destruct (hdr8_fields r Hr) as (_ & -> & ->). rewrite EF_body. reflexivity.
Qed.

Theorem EF_rcds sg rs t : Forall rcd_ok rs -> sel_ok sg ->
  EF sg 0 0 (enc_rcds rs ++ t) = ended_rcds role id sg rs || (content_open role id sg rs && EF sg 0 0 t).
Proof.
  intros Hrs Hs. unfold content_open.
  induction Hrs as [|r rs Hr Hrs IH].
  - reflexivity.
  - rewrite enc_rcds_cons, <- app_assoc. rewrite (EF_record sg r _ Hr Hs). cbn [ended_rcds content_walk].
    destruct (rcd_effect_on role id sg r); cbn [fst snd]; try exact IH; reflexivity.
Qed.
End Ends.

Lemma ended_not_open role id sg rs : ended_rcds role id sg rs = true -> content_open role id sg rs = false.
Proof.
  unfold content_open. induction rs as [|r rs IH]; [discriminate|].
  cbn [ended_rcds content_walk]. destruct (rcd_effect_on role id sg r); cbn [snd]; try exact IH; reflexivity.
Qed.

(* E: the active stream has ended somewhere in (unparsed bytes ++ not-yet-fed bytes) *)
Definition E (a : ast) (u : bytes) : bool :=
  EF (r_role (a_req a)) (r_id (a_req a)) (a_stream a) (a_prem a) (a_pad a) (a_raw a ++ u).

Section EndsMachine.
Variable maxc : N.

Definition e_rel (a a' : ast) : Prop :=
  a_req a' = a_req a /\ a_stream a' = a_stream a /\ forall u, E a' u = E a u.

Definition e_post (l : alstate) (fl : aflow) : Prop :=
  match fl with
  | AContinue l' | ABreak l' | AErr l' _ => e_rel (al l) (al l')
  | APanic _ => True
  end.

Lemma e_rel_refl a : e_rel a a.
Proof. split; [reflexivity|]. split; [reflexivity|]. intros u; reflexivity. Qed.

Lemma e_rel_trans a1 a2 a3 : e_rel a1 a2 -> e_rel a2 a3 -> e_rel a1 a3.
Proof.
  intros (Q1 & S1 & E1) (Q2 & S2 & E2). split; [congruence|]. split; [congruence|].
  intros u. rewrite E2. apply E1.
Qed.

Lemma e_post_trans l1 l2 fl : e_rel (al l1) (al l2) -> e_post l2 fl -> e_post l1 fl.
Proof.
  intros H12 H. destruct fl as [l'|l'|l' e|n]; cbn [e_post] in *;
    try (apply (e_rel_trans _ _ _ H12 H)). exact I.
Qed.

Lemma pfin_E a parsed' out' st' res cap' n :
  e_post (mkAL a res cap') (pfin' a parsed' out' st' res cap' n).
Proof.
  unfold pfin'. cbv zeta.
  destruct (N.ltb_spec (N.min (a_prem a) (len (a_raw a))) n) as [Hn|Hn]; [exact I|].
  assert (Hrel : e_rel a (mkA (a_B a) (a_space a) parsed' (drop n (a_raw a)) out' (a_req a) (a_stream a)
                              (a_prem a - n) (a_pad a) st')).
  { split; [reflexivity|]. split; [reflexivity|]. intros u. unfold E.
    cbn [a_B a_space a_parsed a_raw a_out a_req a_stream a_prem a_pad a_st].
    rewrite (EF_adv _ _ (a_stream a) (a_prem a) (a_pad a) (a_raw a ++ u) n) by (rewrite ?len_app; lia).
    rewrite (drop_app_le n (a_raw a) u) by lia. reflexivity. }
  match goal with |- e_post _ (if ?c then _ else _) => destruct c end; cbn [e_post al]; exact Hrel.
Qed.

Lemma payload_E l : e_post l (aparse_payload maxc l).
Proof.
  rewrite aparse_payload_eq. cbv zeta. destruct l as [a res cap]. cbn [al ares acap].
  destruct (a_st a).
  - destruct cap as [c|].
    + apply (e_post_trans _ (mkAL a (add_stream res (N.min c (N.min (a_prem a) (len (a_raw a))))
                 (take (N.min c (N.min (a_prem a) (len (a_raw a)))) (take (N.min (a_prem a) (len (a_raw a))) (a_raw a))))
                 (Some (c - N.min c (N.min (a_prem a) (len (a_raw a))))))); [apply e_rel_refl|]. apply pfin_E.
    + apply (e_post_trans _ (mkAL a (add_stream res (N.min (a_prem a) (len (a_raw a))) []) None));
        [apply e_rel_refl|]. apply pfin_E.
  - apply pfin_E.
  - destruct (nv_run (take (N.min (a_prem a) (len (a_raw a))) (a_raw a))) as [ps rest].
    destruct (len (a_raw a) <? a_prem a).
    + apply pfin_E.
    + apply (e_post_trans _ (mkAL a (add_output res (len (write_response (vars_of_pairs vars ps) maxc))) cap));
        [apply e_rel_refl|]. apply pfin_E.
Qed.

Lemma hgo_E l st cl pl out added :
  (forall u, EF (r_role (a_req (al l))) (r_id (a_req (al l))) (a_stream (al l)) cl pl (drop HEADER_LEN (a_raw (al l)) ++ u)
             = E (al l) u) ->
  e_post l (StreamInv.hgo l st cl pl out added).
Proof.
  intros H. unfold StreamInv.hgo. cbn [e_post al].
  split; [reflexivity|]. split; [reflexivity|]. intros u. unfold E at 1.
  cbn [a_B a_space a_parsed a_raw a_out a_req a_stream a_prem a_pad a_st]. apply H.
Qed.

Lemma head_E l : a_prem (al l) = 0 -> a_pad (al l) = 0 -> e_post l (aparse_head l).
Proof.
  intros Hp Hq. rewrite aparse_head_eq. cbv zeta.
  destruct (negb (a_boundary (al l))); [exact I|].
  destruct (N.ltb_spec (len (a_raw (al l))) HEADER_LEN) as [Hl|Hl]; [apply e_rel_refl|].
  assert (HE : forall u, E (al l) u =
     ef_hd (r_role (a_req (al l))) (r_id (a_req (al l))) (a_stream (al l))
           (take HEADER_LEN (a_raw (al l))) (drop HEADER_LEN (a_raw (al l)) ++ u)).
  { intros u. unfold E. rewrite Hp, Hq. apply EF_head_app. exact Hl. }
  unfold ef_hd in HE.
  destruct (hdr_decode (take HEADER_LEN (a_raw (al l)))) as [t hid cl pl|v|t].
  - destruct (is_input_stream t && (hid =? r_id (a_req (al l)))).
    + destruct (cmp_input_streams (r_role (a_req (al l))) t (a_stream (al l))) as [[| |]|].
      * apply hgo_E. intros u. rewrite HE. reflexivity.
      * destruct (cl =? 0); cbn [negb].
        -- cbn [e_post al]. apply e_rel_refl.
        -- apply hgo_E. intros u. rewrite HE. reflexivity.
      * cbn [e_post al]. apply e_rel_refl.
      * exact I.
    + destruct ((t =? RT_AbortRequest) && (hid =? r_id (a_req (al l)))); [apply e_rel_refl|].
      destruct ((t =? RT_BeginRequest) && negb (hid =? r_id (a_req (al l)))).
      { apply hgo_E. intros u. rewrite HE. reflexivity. }
      destruct ((t =? RT_GetValues) && hdr_is_management t hid); apply hgo_E; intros u; rewrite HE; reflexivity.
  - apply e_rel_refl.
  - apply hgo_E. intros u. rewrite HE. reflexivity.
Qed.

Lemma after_payload_E l : e_post l (after_payload l).
Proof.
  unfold after_payload. cbv zeta.
  destruct (N.ltb_spec 0 (a_pad (al l))) as [Hq|Hq].
  - destruct (N.eqb_spec (a_prem (al l)) 0) as [Hp|Hp]; cbn [negb]; [|exact I].
    destruct (N.leb_spec (len (a_raw (al l))) (a_pad (al l))) as [Hl|Hl].
    + cbn [e_post al]. unfold a_set. split; [reflexivity|]. split; [reflexivity|].
      intros u. unfold E. cbn [a_B a_space a_parsed a_raw a_out a_req a_stream a_prem a_pad a_st].
      rewrite Hp.
      rewrite (EF_pad_adv _ _ (a_stream (al l)) (a_pad (al l)) (a_raw (al l) ++ u) (len (a_raw (al l))))
        by (rewrite ?len_app; lia).
      rewrite drop_len_app. reflexivity.
    + set (l2 := mkAL (a_set (al l) (a_parsed (al l)) (drop (a_pad (al l)) (a_raw (al l))) (a_out (al l))
                              (a_prem (al l)) 0 (a_st (al l))) (ares l) (acap l)).
      apply (e_post_trans l l2).
      * unfold l2, a_set. cbn [al]. split; [reflexivity|]. split; [reflexivity|].
        intros u. unfold E. cbn [a_B a_space a_parsed a_raw a_out a_req a_stream a_prem a_pad a_st].
        rewrite Hp.
        rewrite (EF_pad_adv _ _ (a_stream (al l)) (a_pad (al l)) (a_raw (al l) ++ u) (a_pad (al l)))
          by (rewrite ?len_app; lia).
        rewrite N.sub_diag, (drop_app_le (a_pad (al l)) (a_raw (al l)) u) by lia. reflexivity.
      * apply head_E; unfold l2, a_set; cbn [al a_prem a_pad]; [exact Hp|reflexivity].
  - destruct (N.eq_dec (a_prem (al l)) 0) as [Hp|Hp].
    + apply head_E; [exact Hp|lia].
    + rewrite aparse_head_eq. cbv zeta. unfold a_boundary.
      destruct (N.eqb_spec (a_prem (al l)) 0) as [Hz|_]; [contradiction|]. cbn [andb negb]. exact I.
Qed.

Lemma iter_E l : e_post l (aparse_iter maxc l).
Proof.
  rewrite aparse_iter_eq.
  destruct (0 <? a_prem (al l)); [|apply after_payload_E].
  pose proof (payload_E l) as H.
  destruct (aparse_payload maxc l) as [l'|l'|l' e|n]; cbn [e_post] in H.
  - apply (e_post_trans _ _ _ H). apply after_payload_E.
  - exact H.
  - exact H.
  - exact I.
Qed.

Lemma loop_E fuel : forall l, e_post l (aparse_loop maxc fuel l).
Proof.
  induction fuel as [|f IH]; intros l; [exact I|].
  cbn [aparse_loop]. destruct (a_raw (al l)) as [|b r]; [apply e_rel_refl|].
  pose proof (iter_E l) as H.
  destruct (aparse_iter maxc l) as [l'|l'|l' e|n]; cbn [e_post] in H.
  - apply (e_post_trans _ _ _ H). apply IH.
  - exact H.
  - exact H.
  - exact I.
Qed.

(* the end-of-stream position is conserved by every call, whatever its arguments *)
Theorem ends_law a new dest a' s :
  (aparse maxc a new dest = AOk a' s \/ exists e, aparse maxc a new dest = AFail a' e s) ->
  forall u, E a (new ++ u) = E a' u.
Proof.
  intros Hres u. unfold aparse in Hres.
  destruct (match dest with Some _ => negb (len (a_parsed a) =? 0) | None => false end).
  { destruct Hres as [H|[e H]]; discriminate H. }
  destruct (a_space a <? len new).
  { destruct Hres as [H|[e H]]; discriminate H. }
  cbv zeta in Hres.
  match type of Hres with context [aparse_loop maxc ?f ?l] =>
    pose proof (loop_E f l) as H; destruct (aparse_loop maxc f l) as [l'|l'|l' e'|n] end;
    cbn [e_post al] in H.
  - destruct Hres as [Hr|[e Hr]]; [|discriminate Hr]. inversion Hr; subst a' s.
    destruct H as (_ & _ & H). rewrite H. unfold E.
    cbn [a_B a_space a_parsed a_raw a_out a_req a_stream a_prem a_pad a_st]. rewrite <- app_assoc. reflexivity.
  - destruct Hres as [Hr|[e Hr]]; [|discriminate Hr]. inversion Hr; subst a' s.
    destruct H as (_ & _ & H). rewrite H. unfold E.
    cbn [a_B a_space a_parsed a_raw a_out a_req a_stream a_prem a_pad a_st]. rewrite <- app_assoc. reflexivity.
  - destruct Hres as [Hr|[e Hr]]; [discriminate Hr|]. inversion Hr; subst a' s.
    destruct H as (_ & _ & H). rewrite H. unfold E.
    cbn [a_B a_space a_parsed a_raw a_out a_req a_stream a_prem a_pad a_st]. rewrite <- app_assoc. reflexivity.
  - destruct Hres as [Hr|[e Hr]]; discriminate Hr.
Qed.

(* ... hence by every legal operation of a concrete schedule *)
Lemma cstep_E p op : sp_inv p -> cop_legal p op -> forall u,
  E (abs p) (cfed_of op ++ u) = E (abs (fst (fst (cstep maxc p op)))) u.
Proof.
  intros Hsp Hleg u. pose proof Hsp as [HRI _].
  destruct op as [new dest|k| |k]; cbn [cfed_of cstep cop_legal] in *.
  - destruct (sparse_refines maxc p new dest HRI) as [Ga _].
    pose proof (sparse_call_no_panic maxc p new dest Hsp Hleg) as Hnp.
    destruct (sparse maxc p new dest) as [p' s|p' e s|n]; cbn [absres fst] in *.
    + apply (ends_law (abs p) new dest (abs p') s). left. exact Ga.
    + apply (ends_law (abs p) new dest (abs p') s). right. exists e. exact Ga.
    + exfalso. apply (Hnp n). reflexivity.
  - cbn [fst app]. rewrite (consume_stream_abs p k HRI). reflexivity.
  - cbn [fst app]. rewrite (compress_abs p HRI). reflexivity.
  - cbn [fst app]. rewrite (consume_output_abs p k HRI). reflexivity.
Qed.

Theorem csched_E ops : forall p0, sp_inv p0 -> csched_legal maxc p0 ops -> forall u,
  E (abs p0) (cfed ops ++ u) = E (abs (cfinal maxc p0 ops)) u.
Proof.
  unfold cfinal. induction ops as [|op r IH]; intros p0 Hsp Hleg u.
  - reflexivity.
  - destruct Hleg as [Hop Hr]. cbn [crun cfed flat_map]. rewrite <- app_assoc.
    rewrite (cstep_E p0 op Hsp Hop).
    destruct (cstep_law maxc p0 op Hsp Hop) as (I1 & _).
    destruct (cstep maxc p0 op) as [[p1 d1] e1]. cbn [fst snd] in *.
    fold (cfed r). rewrite (IH p1 I1 Hr u).
    destruct (crun maxc p1 r) as [[p2 d2] e2]. reflexivity.
Qed.

(* ---- progress: a call with dest = None stops only where it must ---- *)
(* Break with no capacity limit: the parser stands at the terminator, or no terminator lies in the
   unparsed bytes (they are exhausted, or end inside a header / a GetValues pair).  Err: the parser
   stands at an AbortRequest / unknown-version header, so the stream does not end properly. *)
Definition b_post (l : alstate) (fl : aflow) : Prop :=
  match fl with
  | AContinue l' => acap l = None -> acap l' = None
  | ABreak l' => acap l = None -> at_term (al l') = true \/ E (al l') [] = false
  | AErr l' _ => forall u, E (al l') u = false
  | APanic _ => True
  end.

Lemma b_post_trans l1 l2 fl : b_post l1 (AContinue l2) -> b_post l2 fl -> b_post l1 fl.
Proof.
  cbn [b_post]. intros H12 H. destruct fl as [l'|l'|l' e|n]; cbn [b_post] in *; auto.
Qed.

Lemma pfin_B a parsed' out' st' res cap' n :
  (n = N.min (a_prem a) (len (a_raw a)) \/ len (a_raw a) < a_prem a) ->
  match pfin' a parsed' out' st' res cap' n with
  | AContinue l' => acap l' = cap'
  | ABreak l' => E (al l') [] = false
  | _ => True
  end.
Proof.
  intros Hn. unfold pfin'. cbv zeta.
  destruct (N.ltb_spec (N.min (a_prem a) (len (a_raw a))) n) as [Hlt|Hle]; [exact I|].
  cbn [a_prem].
  destruct ((a_prem a - n =? 0) && (n <? len (a_raw a))) eqn:Hc; [reflexivity|].
  unfold E. cbn [al a_B a_space a_parsed a_raw a_out a_req a_stream a_prem a_pad a_st]. rewrite app_nil_r.
  apply andb_false_iff in Hc.
  assert (Hcases : len (a_raw a) < a_prem a \/ n = len (a_raw a)).
  { destruct Hn as [Hn|Hn]; [|left; exact Hn].
    destruct Hc as [Hc|Hc]; [apply N.eqb_neq in Hc|apply N.ltb_ge in Hc]; lia. }
  destruct Hcases as [Hlt|Heq].
  - rewrite EF_prem by lia. rewrite len_drop.
    destruct (N.ltb_spec (len (a_raw a) - n) (a_prem a - n)) as [_|Hge]; [reflexivity|lia].
  - rewrite (drop_all n (a_raw a)) by lia. apply EF_nil.
Qed.

Lemma payload_B l : b_post l (aparse_payload maxc l).
Proof.
  rewrite aparse_payload_eq. cbv zeta. destruct l as [a res cap]. cbn [al ares acap].
  assert (G : forall parsed' out' st' res' cap' n,
             (cap = None -> cap' = None) ->
             (cap = None -> n = N.min (a_prem a) (len (a_raw a)) \/ len (a_raw a) < a_prem a) ->
             b_post (mkAL a res cap) (pfin' a parsed' out' st' res' cap' n)).
  { intros parsed' out' st' res' cap' n Hcap Hn.
    destruct cap as [c|].
    - unfold pfin'. cbv zeta. destruct (_ <? n); [exact I|].
      match goal with |- b_post _ (if ?c then _ else _) => destruct c end; cbn [b_post acap]; discriminate.
    - specialize (Hn eq_refl). specialize (Hcap eq_refl). subst cap'.
      pose proof (pfin_B a parsed' out' st' res' None n Hn) as H.
      unfold pfin' in *. cbv zeta in *.
      destruct (N.min (a_prem a) (len (a_raw a)) <? n); [exact I|].
      match goal with |- b_post _ (if ?c then _ else _) => destruct c end; cbn [b_post acap].
      + intros _. reflexivity.
      + intros _. right. exact H. }
  destruct (a_st a).
  - destruct cap as [c|].
    + apply G; intros H; discriminate H.
    + apply G; intros _; [reflexivity|left; reflexivity].
  - apply G; intros H; [exact H|left; reflexivity].
  - destruct (nv_run (take (N.min (a_prem a) (len (a_raw a))) (a_raw a))) as [ps rest].
    destruct (N.ltb_spec (len (a_raw a)) (a_prem a)) as [Hlt|Hge].
    + apply G; intros H; [exact H|right; exact Hlt].
    + apply G; intros H; [exact H|left; reflexivity].
Qed.

Lemma hgo_B l st cl pl out added : b_post l (StreamInv.hgo l st cl pl out added).
Proof. unfold StreamInv.hgo. cbn [b_post acap]. intros H; exact H. Qed.

Lemma head_B l : a_prem (al l) = 0 -> a_pad (al l) = 0 -> b_post l (aparse_head l).
Proof.
  intros Hp Hq. rewrite aparse_head_eq. cbv zeta.
  destruct (negb (a_boundary (al l))); [exact I|].
  destruct (N.ltb_spec (len (a_raw (al l))) HEADER_LEN) as [Hl|Hl].
  { cbn [b_post]. intros _. right. unfold E. rewrite Hp, Hq, app_nil_r. apply EF_short. exact Hl. }
  assert (HE : forall u, E (al l) u =
     ef_hd (r_role (a_req (al l))) (r_id (a_req (al l))) (a_stream (al l))
           (take HEADER_LEN (a_raw (al l))) (drop HEADER_LEN (a_raw (al l)) ++ u)).
  { intros u. unfold E. rewrite Hp, Hq. apply EF_head_app. exact Hl. }
  assert (HT : at_term (al l) =
     match hdr_decode (take HEADER_LEN (a_raw (al l))) with
     | HOk t rid cl pl =>
       is_input_stream t && (rid =? r_id (a_req (al l))) &&
       match cmp_input_streams (r_role (a_req (al l))) t (a_stream (al l)) with
       | Some Eq => cl =? 0 | Some Gt => true | _ => false end
     | _ => false
     end).
  { unfold at_term, at_terminator, rl, ri. rewrite Hp, Hq.
    destruct (N.leb_spec HEADER_LEN (len (a_raw (al l)))) as [_|Hc]; [|lia]. reflexivity. }
  unfold ef_hd in HE.
  destruct (hdr_decode (take HEADER_LEN (a_raw (al l)))) as [t hid cl pl|v|t].
  - destruct (is_input_stream t && (hid =? r_id (a_req (al l)))) eqn:Hin.
    + destruct (cmp_input_streams (r_role (a_req (al l))) t (a_stream (al l))) as [[| |]|].
      * apply hgo_B.
      * destruct (cl =? 0) eqn:Hcl; cbn [negb].
        -- cbn [b_post al]. intros _. left. rewrite HT. reflexivity.
        -- apply hgo_B.
      * cbn [b_post al]. intros _. left. rewrite HT. reflexivity.
      * exact I.
    + destruct ((t =? RT_AbortRequest) && (hid =? r_id (a_req (al l)))).
      { cbn [b_post]. intros u. rewrite HE. reflexivity. }
      destruct ((t =? RT_BeginRequest) && negb (hid =? r_id (a_req (al l)))); [apply hgo_B|].
      destruct ((t =? RT_GetValues) && hdr_is_management t hid); apply hgo_B.
  - cbn [b_post]. intros u. rewrite HE. reflexivity.
  - apply hgo_B.
Qed.

Lemma after_payload_B l : b_post l (after_payload l).
Proof.
  unfold after_payload. cbv zeta.
  destruct (N.ltb_spec 0 (a_pad (al l))) as [Hq|Hq].
  - destruct (N.eqb_spec (a_prem (al l)) 0) as [Hp|Hp]; cbn [negb]; [|exact I].
    destruct (N.leb_spec (len (a_raw (al l))) (a_pad (al l))) as [Hl|Hl].
    + cbn [b_post al]. intros _. right. unfold a_set, E.
      cbn [a_B a_space a_parsed a_raw a_out a_req a_stream a_prem a_pad a_st app]. apply EF_nil.
    + set (l2 := mkAL (a_set (al l) (a_parsed (al l)) (drop (a_pad (al l)) (a_raw (al l))) (a_out (al l))
                              (a_prem (al l)) 0 (a_st (al l))) (ares l) (acap l)).
      apply (b_post_trans l l2).
      * cbn [b_post]. intros H; exact H.
      * apply head_B; unfold l2, a_set; cbn [al a_prem a_pad]; [exact Hp|reflexivity].
  - destruct (N.eq_dec (a_prem (al l)) 0) as [Hp|Hp].
    + apply head_B; [exact Hp|lia].
    + rewrite aparse_head_eq. cbv zeta. unfold a_boundary.
      destruct (N.eqb_spec (a_prem (al l)) 0) as [Hz|_]; [contradiction|]. cbn [andb negb]. exact I.
Qed.

Lemma iter_B l : b_post l (aparse_iter maxc l).
Proof.
  rewrite aparse_iter_eq.
  destruct (0 <? a_prem (al l)); [|apply after_payload_B].
  pose proof (payload_B l) as H.
  destruct (aparse_payload maxc l) as [l'|l'|l' e|n].
  - apply (b_post_trans _ _ _ H). apply after_payload_B.
  - exact H.
  - exact H.
  - exact I.
Qed.

Lemma loop_B fuel : forall l,
  match aparse_loop maxc fuel l with AContinue _ => False | x => b_post l x end.
Proof.
  induction fuel as [|f IH]; intros l; [exact I|].
  cbn [aparse_loop]. destruct (a_raw (al l)) as [|b r] eqn:Er.
  { cbn [b_post]. intros _. right. unfold E. rewrite Er. cbn [app]. apply EF_nil. }
  pose proof (iter_B l) as H.
  destruct (aparse_iter maxc l) as [l'|l'|l' e|n].
  - pose proof (IH l') as H2.
    destruct (aparse_loop maxc f l') as [l2|l2|l2 e|n]; [exact H2| | |exact I];
      apply (b_post_trans _ _ _ H H2).
  - exact H.
  - exact H.
  - exact I.
Qed.

(* Ok with dest = None: at the terminator, or no terminator in what is left in the buffer.
   Err (any dest): the stream does not end. *)
Theorem progress_law a new dest a' s :
  (aparse maxc a new dest = AOk a' s -> dest = None -> at_term a' = true \/ E a' [] = false) /\
  (forall e, aparse maxc a new dest = AFail a' e s -> forall u, E a' u = false).
Proof.
  unfold aparse.
  destruct (match dest with Some _ => negb (len (a_parsed a) =? 0) | None => false end).
  { split; [intros H; discriminate H|intros e H; discriminate H]. }
  destruct (a_space a <? len new).
  { split; [intros H; discriminate H|intros e H; discriminate H]. }
  cbv zeta.
  match goal with |- context [aparse_loop maxc ?f ?l] =>
    pose proof (loop_B f l) as H; destruct (aparse_loop maxc f l) as [l'|l'|l' e'|n] end;
    cbn [b_post acap] in H.
  - contradiction.
  - split; [|intros e Hr; discriminate Hr]. intros Hr ->. inversion Hr; subst a' s. apply H. reflexivity.
  - split; [intros Hr; discriminate Hr|]. intros e Hr. inversion Hr; subst a' s. exact H.
  - split; [intros Hr; discriminate Hr|intros e Hr; discriminate Hr].
Qed.
End EndsMachine.

(* ================================================================================================ *)
(* Part C: the final theorems                                                                        *)
(* ================================================================================================ *)

(* ---- vocabulary on the index-level state ---- *)

(* stream bytes / reply bytes still to come from (unparsed bytes of the buffer ++ bytes not yet fed u) *)
Definition coming (p : sp) (u : bytes) : bytes :=
  content_from (r_role (sreq p)) (r_id (sreq p)) (content_fuel (raw_bytes p ++ u)) (stream p)
               (match sst p with SStream => true | _ => false end) (payload_rem p) (padding_rem p)
               (raw_bytes p ++ u).

Definition replies_coming (maxc : N) (p : sp) (u : bytes) : bytes :=
  replies_all maxc (r_id (sreq p)) (content_fuel (raw_bytes p ++ u)) (sst p) (payload_rem p) (padding_rem p)
              (raw_bytes p ++ u).

(* the parser stands in front of the header that ends the active stream *)
Definition stream_at_end (p : sp) : bool :=
  at_terminator (r_role (sreq p)) (r_id (sreq p)) (stream p) (payload_rem p) (padding_rem p) (raw_bytes p).

Lemma K_abs p u : K (abs p) u = stream_buffer p ++ coming p u.
Proof. reflexivity. Qed.
Lemma R_abs maxc p u : R maxc (abs p) u = output_buffer p ++ replies_coming maxc p u.
Proof. reflexivity. Qed.

Lemma coming_nil p : coming p [] = [] \/ raw_bytes p <> [].
Proof.
  destruct (raw_bytes p) as [|b r] eqn:Er; [left|right; discriminate].
  unfold coming. rewrite Er. apply (CF_nil (r_role (sreq p)) (r_id (sreq p))).
Qed.

Lemma coming_exhausted p u : raw_bytes p ++ u = [] -> coming p u = [].
Proof. intros H. unfold coming. rewrite H. apply (CF_nil (r_role (sreq p)) (r_id (sreq p))). Qed.

Lemma replies_coming_exhausted maxc p u : raw_bytes p ++ u = [] -> replies_coming maxc p u = [].
Proof. intros H. unfold replies_coming. rewrite H. apply (RA_nil maxc (r_id (sreq p))). Qed.

Lemma coming_at_end p u : stream_at_end p = true -> coming p u = [] /\ E (abs p) u = true.
Proof.
  intros H. unfold stream_at_end in H.
  destruct (at_terminator_EF _ _ _ _ _ _ u H) as (Hp & Hq & He & Hc).
  split.
  - unfold coming. rewrite Hp, Hq.
    change (content_from ?r ?i (content_fuel ?w) ?sg ?c 0 0 ?w) with (CF r i sg c 0 0 w).
    rewrite CF_cur0. exact Hc.
  - unfold E. cbn [abs a_req a_stream a_prem a_pad a_raw]. rewrite Hp, Hq. exact He.
Qed.

(* ---- schedules: appending one operation ---- *)
Section RunApp.
Variable maxc : N.

Lemma crun_snoc p ops op :
  crun maxc p (ops ++ [op]) =
  (fst (fst (cstep maxc (cfinal maxc p ops) op)),
   cdelivered maxc p ops ++ snd (fst (cstep maxc (cfinal maxc p ops) op)),
   cemitted maxc p ops ++ snd (cstep maxc (cfinal maxc p ops) op)).
Proof.
  unfold cfinal, cdelivered, cemitted. revert p. induction ops as [|o r IH]; intros p.
  - cbn [app crun fst snd]. destruct (cstep maxc p op) as [[p1 d1] e1]. cbn [fst snd].
    rewrite !app_nil_r. reflexivity.
  - cbn [app crun]. destruct (cstep maxc p o) as [[p1 d1] e1]. rewrite (IH p1).
    destruct (crun maxc p1 r) as [[p2 d2] e2]. cbn [fst snd]. rewrite !app_assoc. reflexivity.
Qed.

Lemma csched_legal_snoc p ops op :
  csched_legal maxc p (ops ++ [op]) <-> csched_legal maxc p ops /\ cop_legal (cfinal maxc p ops) op.
Proof.
  unfold cfinal. revert p. induction ops as [|o r IH]; intros p.
  - cbn [app csched_legal crun fst]. tauto.
  - cbn [app csched_legal crun]. rewrite (IH (fst (fst (cstep maxc p o)))).
    destruct (cstep maxc p o) as [[p1 d1] e1]. cbn [fst]. destruct (crun maxc p1 r) as [[p2 d2] e2]. cbn [fst].
    tauto.
Qed.

Lemma cfed_snoc ops op : cfed (ops ++ [op]) = cfed ops ++ cfed_of op.
Proof. unfold cfed. rewrite flat_map_app. cbn [flat_map]. rewrite app_nil_r. reflexivity. Qed.
End RunApp.

(* ---- everything the caller can reach ---- *)
Section Reach.
Variable maxc : N.

(* states reachable from p0 through legal operations and accepted set_stream calls *)
Inductive reach (p0 : sp) : sp -> Prop :=
| reach_refl : reach p0 p0
| reach_op p op : reach p0 p -> cop_legal p op -> reach p0 (fst (fst (cstep maxc p op)))
| reach_set p s p' : reach p0 p -> set_stream p s = SetOk p' -> reach p0 p'.

Theorem reach_inv p0 p : sp_inv p0 -> reach p0 p ->
  sp_inv p /\ sreq p = sreq p0 /\ len (buffer p) = len (buffer p0).
Proof.
  intros H0 Hr. induction Hr as [|p op Hr IH Hleg|p s p' Hr IH Hset].
  - split; [exact H0|]. split; reflexivity.
  - destruct IH as (I & Q & B).
    destruct (cstep_law maxc p op I Hleg) as (I1 & _ & B1 & _ & (_ & _ & Q1 & _)).
    split; [exact I1|]. split; [exact (eq_trans Q1 Q)|congruence].
  - destruct IH as (I & Q & B).
    destruct (set_stream_call maxc p s p' I Hset) as (I1 & Q1 & B1 & _).
    split; [exact I1|]. split; congruence.
Qed.
End Reach.

Section Final.
Variable maxc : N.

(* ------------------------------------------------------------------------------------------------ *)
(* C03: totality, invariants, error stickiness — for ARBITRARY (hostile) bytes                       *)
(* ------------------------------------------------------------------------------------------------ *)

(* (a) every state reachable from a state satisfying the invariant satisfies it; in particular the five
       debug_assert_invars! inequalities hold after every legal call;
   (b) in such a state every call that respects the caller contract returns Ok or Err — no panic, whatever
       the bytes — an Err is AbortRequest or UnknownVersion, and is reported again by every later call with
       nothing delivered and nothing emitted;
   (c) over every legal schedule the bytes handed to the caller are a prefix of the specification content
       [K] of the bytes fed (a total function of arbitrary bytes): nothing is invented, lost or reordered. *)
Theorem C03_stream p0 p : sp_inv p0 -> reach maxc p0 p ->
  (parsed_start p <= gap_start p /\ gap_start p <= raw_start p /\ raw_start p <= free_start p /\
   free_start p <= len (buffer p) /\ output_start p <= len (output p)) /\
  sp_inv p /\
  (forall new dest, call_legal p new dest ->
     (exists p' s, sparse maxc p new dest = StOk p' s /\ sp_inv p') \/
     (exists p' e s, sparse maxc p new dest = StErr p' e s /\ sp_inv p' /\
        (e = EAbortRequest \/ exists v, e = EUnknownVersion v) /\
        forall new' dest', call_legal p' new' dest' ->
          exists p'', sparse maxc p' new' dest' = StErr p'' e (first_status p') /\
                      stream_buffer p'' = stream_buffer p' /\ output_buffer p'' = output_buffer p' /\
                      raw_bytes p'' = raw_bytes p' ++ new')) /\
  (forall ops, csched_legal maxc p ops ->
     cno_panic maxc p ops /\
     forall u, cdelivered maxc p ops ++ stream_buffer (cfinal maxc p ops) ++ coming (cfinal maxc p ops) u
               = stream_buffer p ++ coming p (cfed ops ++ u)).
Proof.
  intros H0 Hr. destruct (reach_inv maxc p0 p H0 Hr) as (Hsp & _ & _).
  split; [apply sp_inv_invars; exact Hsp|]. split; [exact Hsp|].
  split.
  - intros new dest Hleg.
    destruct (sparse_call maxc p new dest Hsp Hleg) as [(p' & s & E1 & Hp & _)|(p' & e & s & E1 & Hp & Hk & Hst)].
    + left. exists p', s. split; [exact E1|apply Hp].
    + right. exists p', e, s. split; [exact E1|]. split; [apply Hp|]. split; [exact Hk|exact Hst].
  - intros ops Hleg.
    destruct (concrete_schedule maxc ops p Hsp Hleg) as (Np & _ & _ & _ & _ & _ & L).
    split; [exact Np|]. intros u. destruct (L u) as (HK & _). rewrite !K_abs in HK. symmetry. exact HK.
Qed.

(* ------------------------------------------------------------------------------------------------ *)
(* C04: replies                                                                                       *)
(* ------------------------------------------------------------------------------------------------ *)

(* For arbitrary bytes: what the caller took out of the output buffer, followed by the pending output and
   the replies the not yet parsed bytes will cause, is exactly the reply specification [R] of the bytes
   fed.  (Per call, Status.output is the number of bytes appended: [sparse_call].) *)
Theorem C04_stream p0 ops u : sp_inv p0 -> csched_legal maxc p0 ops ->
  let pf := cfinal maxc p0 ops in
  cemitted maxc p0 ops ++ output_buffer pf ++ replies_coming maxc pf u
  = output_buffer p0 ++ replies_coming maxc p0 (cfed ops ++ u).
Proof.
  intros Hsp Hleg pf.
  destruct (concrete_schedule maxc ops p0 Hsp Hleg) as (_ & _ & _ & _ & _ & _ & L).
  destruct (L u) as (_ & HR & _). rewrite !R_abs in HR. symmetry. exact HR.
Qed.

(* For a stream parser converted from a finished request parser and a wire that continues with the
   records rs (then arbitrary bytes t): everything emitted so far, plus what is pending, is a prefix of
   the replies the specification prescribes for rs, record by record ([reply_for _ (InStream id)]), up to
   the first AbortRequest of this request; and all of it once nothing is left to parse. *)
Theorem C04_stream_rcds rp r sp0 rs t ops u :
  parser_ok rp -> st rp = Done r -> into_stream_parser rp = inl sp0 ->
  Forall rcd_ok rs -> held rp ++ cfed ops ++ u = enc_rcds rs ++ t ->
  csched_legal maxc sp0 ops ->
  let pf := cfinal maxc sp0 ops in
  let owed := replies_rcds maxc (r_id r) rs ++
              (if replies_open maxc (r_id r) rs then RA maxc (r_id r) SSkip 0 0 t else []) in
  cemitted maxc sp0 ops ++ output_buffer pf ++ replies_coming maxc pf u = owed /\
  (raw_bytes pf ++ u = [] -> cemitted maxc sp0 ops ++ output_buffer pf = owed).
Proof.
  intros Hok Hst E0 Hrs Hw Hleg pf owed.
  destruct (into_stream_parser_inv rp r Hok Hst) as (p0 & E0' & Hsp & _ & _ & _ & _ & Ho & _ & _ & _ & Habs).
  rewrite E0 in E0'. injection E0' as <-.
  pose proof (C04_stream sp0 ops u Hsp Hleg) as H. cbv zeta in H. fold pf in H.
  assert (Hspec : output_buffer sp0 ++ replies_coming maxc sp0 (cfed ops ++ u) = owed).
  { rewrite <- R_abs. unfold R. rewrite Habs.
    cbn [a_B a_space a_parsed a_raw a_out a_req a_stream a_prem a_pad a_st app].
    change (replies_all maxc (r_id r) (content_fuel ?w) SSkip 0 0 ?w) with (RA maxc (r_id r) SSkip 0 0 w).
    rewrite Hw. apply RA_rcds. exact Hrs. }
  rewrite Hspec in H. split; [exact H|].
  intros Hex. rewrite (replies_coming_exhausted maxc pf u Hex), app_nil_r in H. exact H.
Qed.

(* ------------------------------------------------------------------------------------------------ *)
(* C05: the bytes handed back are exactly the unparsed suffix                                         *)
(* ------------------------------------------------------------------------------------------------ *)
Theorem C05_stream p0 ops : sp_inv p0 -> csched_legal maxc p0 ops ->
  let pf := cfinal maxc p0 ops in
  (* the unparsed bytes are a suffix of everything that was put in front of the parser: bytes only leave
     at the front (parsed) and arrive at the back (fed) *)
  (exists consumed, raw_bytes p0 ++ cfed ops = consumed ++ raw_bytes pf) /\
  (* at a record boundary the conversions hand over exactly these bytes; elsewhere they refuse *)
  (is_record_boundary pf = true -> into_input pf = Some (raw_bytes pf)) /\
  (is_record_boundary pf = true -> output_buffer pf = [] ->
     exists rp', into_request_parser pf = ConvOk rp' /\
                 held rp' = raw_bytes pf /\ cap rp' = len (buffer p0) /\ st rp' = Header) /\
  (is_record_boundary pf = false -> into_input pf = None /\ into_request_parser pf = ConvInterrupted).
Proof.
  intros Hsp Hleg pf.
  destruct (concrete_schedule maxc ops p0 Hsp Hleg) as (_ & [HRI _] & _ & _ & HB & Hsuf & _). fold pf in HRI, HB, Hsuf.
  split; [exact Hsuf|].
  split.
  { intros Hb. rewrite (into_input_refines pf HRI). unfold ainto_input.
    change (a_boundary (abs pf)) with (is_record_boundary pf). rewrite Hb. reflexivity. }
  split.
  { intros Hb Ho. destruct (into_request_parser_ok pf HRI Hb Ho) as (rp' & E1 & Hh & Hc & Hs).
    exists rp'. split; [exact E1|]. split; [exact Hh|]. split; [|exact Hs].
    rewrite Hc. exact HB. }
  intros Hb. split.
  - rewrite (into_input_refines pf HRI). unfold ainto_input.
    change (a_boundary (abs pf)) with (is_record_boundary pf). rewrite Hb. reflexivity.
  - unfold into_request_parser. rewrite Hb. reflexivity.
Qed.

(* ------------------------------------------------------------------------------------------------ *)
(* C02: delivery of the active stream                                                                 *)
(* ------------------------------------------------------------------------------------------------ *)

(* A request parser has finished the preamble (Done r, leftover bytes [held rp]) and is converted.  The
   wire after the preamble consists of the records rs followed by arbitrary bytes t; it reaches the
   parser as [held rp], then the chunks the schedule feeds ([cfed ops]: ANY chunking, interleaved with any
   consume_stream / compress / consume_output calls), then the not yet fed rest u.  Then:
   - no call panics, the invariant holds;
   - the bytes handed to the caller, then the stream buffer, then what is still to come, are exactly the
     content of the role's first input stream in the record list — every byte once and in order;
   - once nothing is left to parse, or the parser stands at the terminator, everything has been delivered;
   - if the parser stands at the terminator, the stream really has ended in the wire: a terminator of the
     stream occurs in rs before any AbortRequest (or rs has not ended the stream and the terminator lies
     in t). *)
Theorem C02_delivery rp r sp0 rs t ops u :
  parser_ok rp -> st rp = Done r -> into_stream_parser rp = inl sp0 ->
  Forall rcd_ok rs -> held rp ++ cfed ops ++ u = enc_rcds rs ++ t ->
  csched_legal maxc sp0 ops ->
  let role := r_role r in let id := r_id r in
  let sg := next_input_stream role None in
  let pf := cfinal maxc sp0 ops in
  let whole := content_rcds role id sg rs ++ (if content_open role id sg rs then CF role id sg false 0 0 t else []) in
  cno_panic maxc sp0 ops /\ sp_inv pf /\ stream pf = sg /\ sreq pf = r /\
  cdelivered maxc sp0 ops ++ stream_buffer pf ++ coming pf u = whole /\
  (raw_bytes pf ++ u = [] \/ stream_at_end pf = true -> cdelivered maxc sp0 ops ++ stream_buffer pf = whole) /\
  (stream_at_end pf = true ->
     ended_rcds role id sg rs = true \/ (content_open role id sg rs = true /\ EF role id sg 0 0 t = true)).
Proof.
  intros Hok Hst E0 Hrs Hw Hleg role id sg pf whole.
  destruct (into_stream_parser_inv rp r Hok Hst) as (p0 & E0' & Hsp & Hq0 & Hs0 & _ & _ & _ & _ & _ & _ & Habs).
  rewrite E0 in E0'. injection E0' as <-.
  destruct (concrete_schedule maxc ops sp0 Hsp Hleg) as (Np & Ipf & Hs & Hq & _ & _ & L). fold pf in Ipf, Hs, Hq, L.
  assert (Hsel : sel_ok sg) by apply next_input_none_ok.
  assert (HK : cdelivered maxc sp0 ops ++ stream_buffer pf ++ coming pf u = whole).
  { destruct (L u) as (HK & _). rewrite (K_abs pf) in HK. rewrite <- HK. unfold K, cur_of. rewrite Habs.
    cbn [a_B a_space a_parsed a_raw a_out a_req a_stream a_prem a_pad a_st app].
    change (content_from (r_role r) (r_id r) (content_fuel ?w) ?s false 0 0 ?w) with (CF role id s false 0 0 w).
    rewrite Hw. apply CF_rcds; assumption. }
  assert (HE : E (abs pf) u = ended_rcds role id sg rs || (content_open role id sg rs && EF role id sg 0 0 t)).
  { unfold pf. rewrite <- (csched_E maxc ops sp0 Hsp Hleg u). unfold E. rewrite Habs.
    cbn [a_B a_space a_parsed a_raw a_out a_req a_stream a_prem a_pad a_st].
    rewrite Hw. apply EF_rcds; assumption. }
  split; [exact Np|]. split; [exact Ipf|]. split; [rewrite Hs; exact Hs0|]. split; [rewrite Hq; exact Hq0|].
  split; [exact HK|].
  split.
  - intros [Hex|Hend].
    + rewrite (coming_exhausted pf u Hex), app_nil_r in HK. exact HK.
    + destruct (coming_at_end pf u Hend) as [Hc _]. rewrite Hc, app_nil_r in HK. exact HK.
  - intros Hend. destruct (coming_at_end pf u Hend) as [_ He]. rewrite HE in He.
    apply orb_true_iff in He. destruct He as [He|He]; [left; exact He|right].
    apply andb_true_iff in He. exact He.
Qed.

(* The same seen from the call that reports it: a schedule, then one more parse call that returns Ok with
   Status.stream_end = true (a stream being active).  Then the bytes delivered up to and including this
   call, plus the stream buffer, are the WHOLE content of the stream, and the stream has ended in the
   wire.  Conversely stream_end is reported exactly when the parser stands at the terminator. *)
Theorem C02_stream_end rp r sp0 rs t ops new dest u p' s :
  parser_ok rp -> st rp = Done r -> into_stream_parser rp = inl sp0 ->
  Forall rcd_ok rs -> held rp ++ cfed ops ++ new ++ u = enc_rcds rs ++ t ->
  csched_legal maxc sp0 ops -> call_legal (cfinal maxc sp0 ops) new dest ->
  sparse maxc (cfinal maxc sp0 ops) new dest = StOk p' s ->
  let role := r_role r in let id := r_id r in
  let sg := next_input_stream role None in
  let whole := content_rcds role id sg rs ++ (if content_open role id sg rs then CF role id sg false 0 0 t else []) in
  sg <> None ->
  s_end s = stream_at_end p' /\
  (s_end s = true ->
     cdelivered maxc sp0 ops ++ s_dest s ++ stream_buffer p' = whole /\
     (ended_rcds role id sg rs = true \/ (content_open role id sg rs = true /\ EF role id sg 0 0 t = true))).
Proof.
  intros Hok Hst E0 Hrs Hw Hleg Hcall Hres role id sg whole Hsg.
  set (ops' := ops ++ [CParse new dest]).
  assert (Hleg' : csched_legal maxc sp0 ops') by (apply csched_legal_snoc; split; assumption).
  assert (Hw' : held rp ++ cfed ops' ++ u = enc_rcds rs ++ t).
  { unfold ops'. rewrite cfed_snoc. cbn [cfed_of]. rewrite <- app_assoc. exact Hw. }
  assert (Hrun : crun maxc sp0 ops' = (p', cdelivered maxc sp0 ops ++ s_dest s, cemitted maxc sp0 ops ++ [])).
  { unfold ops'. rewrite crun_snoc. cbn [cstep]. rewrite Hres. reflexivity. }
  destruct (C02_delivery rp r sp0 rs t ops' u Hok Hst E0 Hrs Hw' Hleg') as (_ & _ & _ & _ & _ & Hall & Hend).
  unfold cfinal, cdelivered in Hall, Hend. rewrite Hrun in Hall, Hend. cbn [fst snd] in Hall, Hend.
  fold role id sg whole in Hall, Hend.
  destruct (into_stream_parser_inv rp r Hok Hst) as (p0 & E0' & Hsp & _ & Hs0 & _).
  rewrite E0 in E0'. injection E0' as <-.
  destruct (concrete_schedule maxc ops sp0 Hsp Hleg) as (_ & Ipf & Hs & _).
  assert (Hse : s_end s = stream_at_end p').
  { destruct (sparse_call maxc _ new dest Ipf Hcall) as [(p2 & s2 & E2 & Hp & He)|(p2 & e2 & s2 & E2 & _)];
      rewrite Hres in E2; [|discriminate E2].
    injection E2 as <- <-. destruct Hp as (_ & Hs' & Hq' & _).
    rewrite He. unfold stream_at_end. rewrite Hs', Hq'.
    destruct (stream (cfinal maxc sp0 ops)) as [x|] eqn:Ex; [reflexivity|].
    exfalso. apply Hsg. unfold sg, role. rewrite <- Hs0, <- Hs. reflexivity. }
  split; [exact Hse|]. intros Ht. rewrite Hse in Ht.
  split; [|apply Hend; exact Ht].
  rewrite app_assoc. apply Hall. right. exact Ht.
Qed.

(* ... and it IS reported: once the whole wire has been fed (nothing left outside the buffer) and the
   stream has ended in the record list, a parse call without dest returns Ok, reports stream_end, stands
   at the terminator, and the stream buffer completes the content: nothing is withheld. *)
Theorem C02_end_reported rp r sp0 rs t ops new :
  parser_ok rp -> st rp = Done r -> into_stream_parser rp = inl sp0 ->
  Forall rcd_ok rs -> held rp ++ cfed ops ++ new = enc_rcds rs ++ t ->
  csched_legal maxc sp0 ops -> call_legal (cfinal maxc sp0 ops) new None ->
  let role := r_role r in let id := r_id r in
  let sg := next_input_stream role None in
  ended_rcds role id sg rs = true ->
  exists p' s, sparse maxc (cfinal maxc sp0 ops) new None = StOk p' s /\
    s_end s = true /\ stream_at_end p' = true /\ s_dest s = [] /\
    cdelivered maxc sp0 ops ++ stream_buffer p' = content_rcds role id sg rs.
Proof.
  intros Hok Hst E0 Hrs Hw Hleg Hcall role id sg Hended.
  set (pf := cfinal maxc sp0 ops) in *.
  destruct (into_stream_parser_inv rp r Hok Hst) as (p0 & E0' & Hsp & Hq0 & Hs0 & _ & _ & _ & _ & _ & _ & Habs).
  rewrite E0 in E0'. injection E0' as <-.
  destruct (concrete_schedule maxc ops sp0 Hsp Hleg) as (_ & Ipf & Hs & Hq & _). fold pf in Ipf, Hs, Hq.
  assert (Hsel : sel_ok sg) by apply next_input_none_ok.
  assert (Hw0 : held rp ++ cfed ops ++ new ++ [] = enc_rcds rs ++ t) by (rewrite app_nil_r; exact Hw).
  (* the terminator lies in what the parser has in front of it *)
  assert (HE : E (abs pf) (new ++ []) = true).
  { unfold pf. rewrite <- (csched_E maxc ops sp0 Hsp Hleg (new ++ [])). unfold E. rewrite Habs.
    cbn [a_B a_space a_parsed a_raw a_out a_req a_stream a_prem a_pad a_st].
    rewrite Hw0. etransitivity; [apply EF_rcds; assumption|].
    change (ended_rcds role id sg rs || (content_open role id sg rs && EF role id sg 0 0 t) = true).
    rewrite Hended. reflexivity. }
  pose proof Ipf as [HRIf _].
  destruct (sparse_refines maxc pf new None HRIf) as [Ga _].
  destruct (sparse_call maxc pf new None Ipf Hcall) as [(p' & s & Eres & Hp & He)|(p' & e & s & Eres & _)].
  - rewrite Eres in Ga. cbn [absres] in Ga.
    assert (Hat : stream_at_end p' = true).
    { destruct (progress_law maxc (abs pf) new None (abs p') s) as [Hprog _].
      destruct (Hprog Ga eq_refl) as [H|H]; [exact H|].
      rewrite <- (ends_law maxc (abs pf) new None (abs p') s (or_introl Ga) []) in H. congruence. }
    exists p', s. split; [exact Eres|].
    destruct Hp as (_ & Hs' & Hq' & _ & _ & _ & _ & _ & Hnone & _).
    destruct (Hnone eq_refl) as [Hd _].
    assert (Hse : s_end s = true).
    { rewrite He. destruct (stream pf); [|reflexivity].
      unfold stream_at_end in Hat. rewrite Hs', Hq' in Hat. exact Hat. }
    split; [exact Hse|]. split; [exact Hat|]. split; [exact Hd|].
    set (ops' := ops ++ [CParse new None]).
    assert (Hleg' : csched_legal maxc sp0 ops') by (apply csched_legal_snoc; split; assumption).
    assert (Hw' : held rp ++ cfed ops' ++ [] = enc_rcds rs ++ t).
    { unfold ops'. rewrite cfed_snoc. cbn [cfed_of]. rewrite <- app_assoc. exact Hw0. }
    assert (Hrun : crun maxc sp0 ops' = (p', cdelivered maxc sp0 ops ++ s_dest s, cemitted maxc sp0 ops ++ [])).
    { unfold ops'. rewrite crun_snoc. fold pf. cbn [cstep]. rewrite Eres. reflexivity. }
    destruct (C02_delivery rp r sp0 rs t ops' [] Hok Hst E0 Hrs Hw' Hleg') as (_ & _ & _ & _ & _ & Hall & _).
    unfold cfinal, cdelivered in Hall. rewrite Hrun in Hall. cbn [fst snd] in Hall.
    fold role id sg in Hall. rewrite Hd in Hall. rewrite (app_nil_r (cdelivered maxc sp0 ops)) in Hall.
    rewrite (Hall (or_intror Hat)).
    rewrite (ended_not_open role id sg rs Hended). apply app_nil_r.
  - exfalso. rewrite Eres in Ga. cbn [absres] in Ga.
    destruct (progress_law maxc (abs pf) new None (abs p') s) as [_ Herr].
    pose proof (Herr e Ga []) as H.
    rewrite <- (ends_law maxc (abs pf) new None (abs p') s (or_intror (ex_intro _ e Ga)) []) in H. congruence.
Qed.

(* ------------------------------------------------------------------------------------------------ *)
(* C18: only the active stream is delivered; later streams are neither consumed nor lost             *)
(* ------------------------------------------------------------------------------------------------ *)

(* First epoch: any legal schedule ops1 while an earlier stream is active.  Then set_stream(Some sg) for a
   later stream sg — it is always accepted.  Second epoch: any legal schedule ops2.  What the second epoch
   hands to the caller, then its stream buffer, then what is still to come, is exactly the content of
   stream sg counted from the ORIGINAL position: no byte of sg was consumed or lost during the first epoch,
   and no byte of any other stream is delivered in the second.  The reply channel is unaffected by the
   switch. *)
Theorem C18_only_active p0 sg ops1 ops2 u : sp_inv p0 -> later_stream (abs p0) sg ->
  csched_legal maxc p0 ops1 ->
  exists p1, set_stream (cfinal maxc p0 ops1) (Some sg) = SetOk p1 /\
    (csched_legal maxc p1 ops2 ->
     let pf := cfinal maxc p1 ops2 in
     cno_panic maxc p0 ops1 /\ cno_panic maxc p1 ops2 /\ sp_inv pf /\ stream pf = Some sg /\ sreq pf = sreq p0 /\
     cdelivered maxc p1 ops2 ++ stream_buffer pf ++ coming pf u
       = F (Some sg) (abs p0) (cfed ops1 ++ cfed ops2 ++ u) /\
     cemitted maxc p0 ops1 ++ cemitted maxc p1 ops2 ++ output_buffer pf ++ replies_coming maxc pf u
       = output_buffer p0 ++ replies_coming maxc p0 (cfed ops1 ++ cfed ops2 ++ u)).
Proof.
  intros Hsp Hl Hleg1.
  destruct (concrete_schedule maxc ops1 p0 Hsp Hleg1) as (Np1 & I1 & S1 & Q1 & _ & _ & L1).
  assert (Hl1 : later_stream (abs (cfinal maxc p0 ops1)) sg).
  { unfold later_stream in *. change (a_stream (abs ?p)) with (stream p) in *.
    change (a_req (abs ?p)) with (sreq p) in *. rewrite S1, Q1. exact Hl. }
  destruct (set_stream_later (cfinal maxc p0 ops1) sg I1 Hl1) as (p1 & Eset & Hne).
  exists p1. split; [exact Eset|]. intros Hleg2 pf.
  destruct (set_stream_call maxc _ _ p1 I1 Eset) as (I2 & Q2 & _ & _ & _ & HR & HF & _ & Hdiff).
  destruct (Hdiff Hne) as (S2 & _ & HK).
  destruct (concrete_schedule maxc ops2 p1 I2 Hleg2) as (Np2 & I3 & S3 & Q3 & _ & _ & L2). fold pf in I3, S3, Q3, L2.
  split; [exact Np1|]. split; [exact Np2|]. split; [exact I3|]. split; [congruence|]. split; [congruence|].
  destruct (L1 (cfed ops2 ++ u)) as (_ & R1 & F1). destruct (L2 u) as (K2 & R2 & _).
  split.
  - rewrite <- K_abs, <- K2, HK. symmetry. apply F1. exact Hl.
  - rewrite <- !R_abs. rewrite R1, <- HR, R2. reflexivity.
Qed.

(* ... and for a record list: after a finished preamble of a request whose role has a second input stream,
   the second epoch delivers exactly [content_rcds role id (Some sg) rs] — all of sg's records in the wire,
   including those that arrived while the first stream was still active. *)
Theorem C18_only_active_rcds rp r sp0 sg rs t ops1 ops2 u :
  parser_ok rp -> st rp = Done r -> into_stream_parser rp = inl sp0 ->
  later_stream (abs sp0) sg ->
  Forall rcd_ok rs -> held rp ++ cfed ops1 ++ cfed ops2 ++ u = enc_rcds rs ++ t ->
  csched_legal maxc sp0 ops1 ->
  exists p1, set_stream (cfinal maxc sp0 ops1) (Some sg) = SetOk p1 /\
    (csched_legal maxc p1 ops2 ->
     let pf := cfinal maxc p1 ops2 in
     let role := r_role r in let id := r_id r in
     let whole := content_rcds role id (Some sg) rs ++
                  (if content_open role id (Some sg) rs then CF role id (Some sg) false 0 0 t else []) in
     cno_panic maxc p1 ops2 /\ sp_inv pf /\ stream pf = Some sg /\
     cdelivered maxc p1 ops2 ++ stream_buffer pf ++ coming pf u = whole /\
     (raw_bytes pf ++ u = [] \/ stream_at_end pf = true -> cdelivered maxc p1 ops2 ++ stream_buffer pf = whole)).
Proof.
  intros Hok Hst E0 Hl Hrs Hw Hleg1.
  destruct (into_stream_parser_inv rp r Hok Hst) as (p0 & E0' & Hsp & _ & _ & _ & _ & _ & _ & _ & _ & Habs).
  rewrite E0 in E0'. injection E0' as <-.
  destruct (C18_only_active sp0 sg ops1 ops2 u Hsp Hl Hleg1) as (p1 & Eset & H).
  exists p1. split; [exact Eset|]. intros Hleg2 pf role id whole.
  destruct (H Hleg2) as (_ & Np2 & I3 & S3 & _ & HK & _). fold pf in I3, S3, HK.
  assert (Hsel : sel_ok (Some sg)).
  { unfold later_stream in Hl. destruct (a_stream (abs sp0)) as [c|]; [|contradiction].
    apply (cmp_gt_input _ _ _ Hl). }
  assert (HF : F (Some sg) (abs sp0) (cfed ops1 ++ cfed ops2 ++ u) = whole).
  { unfold F. rewrite Habs. cbn [a_B a_space a_parsed a_raw a_out a_req a_stream a_prem a_pad a_st].
    change (content_from (r_role r) (r_id r) (content_fuel ?w) ?s false 0 0 ?w) with (CF role id s false 0 0 w).
    rewrite Hw. apply CF_rcds; assumption. }
  rewrite HF in HK.
  split; [exact Np2|]. split; [exact I3|]. split; [exact S3|]. split; [exact HK|].
  intros [Hex|Hend].
  - rewrite (coming_exhausted pf u Hex), app_nil_r in HK. exact HK.
  - destruct (coming_at_end pf u Hend) as [Hc _]. rewrite Hc, app_nil_r in HK. exact HK.
Qed.
End Final.


(* ---- the wire ends with the record list (or with an incomplete header): exact forms ---- *)
Lemma short_tail maxc role id sg t : len t < HEADER_LEN ->
  CF role id sg false 0 0 t = [] /\ EF role id sg 0 0 t = false /\ RA maxc id SSkip 0 0 t = [].
Proof. intros H. split; [apply CF_short; exact H|]. split; [apply EF_short; exact H|apply RA_short; exact H]. Qed.

Section FinalExact.
Variable maxc : N.

Theorem C02_delivery_exact rp r sp0 rs t ops u :
  parser_ok rp -> st rp = Done r -> into_stream_parser rp = inl sp0 ->
  Forall rcd_ok rs -> len t < HEADER_LEN -> held rp ++ cfed ops ++ u = enc_rcds rs ++ t ->
  csched_legal maxc sp0 ops ->
  let role := r_role r in let id := r_id r in
  let sg := next_input_stream role None in
  let pf := cfinal maxc sp0 ops in
  cno_panic maxc sp0 ops /\ sp_inv pf /\
  cdelivered maxc sp0 ops ++ stream_buffer pf ++ coming pf u = content_rcds role id sg rs /\
  (raw_bytes pf ++ u = [] \/ stream_at_end pf = true ->
     cdelivered maxc sp0 ops ++ stream_buffer pf = content_rcds role id sg rs) /\
  (stream_at_end pf = true -> ended_rcds role id sg rs = true).
Proof.
  intros Hok Hst E0 Hrs Ht Hw Hleg role id sg pf.
  destruct (C02_delivery maxc rp r sp0 rs t ops u Hok Hst E0 Hrs Hw Hleg) as (Np & I & _ & _ & HK & Hall & Hend).
  fold role id sg pf in HK, Hall, Hend.
  destruct (short_tail maxc role id sg t Ht) as (Hc & He & _).
  assert (Hwhole : content_rcds role id sg rs ++ (if content_open role id sg rs then CF role id sg false 0 0 t else [])
                   = content_rcds role id sg rs).
  { rewrite Hc. destruct (content_open role id sg rs); apply app_nil_r. }
  rewrite Hwhole in HK, Hall.
  split; [exact Np|]. split; [exact I|]. split; [exact HK|]. split; [exact Hall|].
  intros Hat. destruct (Hend Hat) as [H|[_ H]]; [exact H|]. rewrite He in H. discriminate H.
Qed.

Theorem C04_stream_rcds_exact rp r sp0 rs t ops u :
  parser_ok rp -> st rp = Done r -> into_stream_parser rp = inl sp0 ->
  Forall rcd_ok rs -> len t < HEADER_LEN -> held rp ++ cfed ops ++ u = enc_rcds rs ++ t ->
  csched_legal maxc sp0 ops ->
  let pf := cfinal maxc sp0 ops in
  cemitted maxc sp0 ops ++ output_buffer pf ++ replies_coming maxc pf u = replies_rcds maxc (r_id r) rs /\
  (raw_bytes pf ++ u = [] -> cemitted maxc sp0 ops ++ output_buffer pf = replies_rcds maxc (r_id r) rs).
Proof.
  intros Hok Hst E0 Hrs Ht Hw Hleg pf.
  destruct (C04_stream_rcds maxc rp r sp0 rs t ops u Hok Hst E0 Hrs Hw Hleg) as (H1 & H2). fold pf in H1, H2.
  destruct (short_tail maxc 0 (r_id r) None t Ht) as (_ & _ & Hr).
  assert (Howed : replies_rcds maxc (r_id r) rs ++ (if replies_open maxc (r_id r) rs then RA maxc (r_id r) SSkip 0 0 t else [])
                  = replies_rcds maxc (r_id r) rs).
  { rewrite Hr. destruct (replies_open maxc (r_id r) rs); apply app_nil_r. }
  rewrite Howed in H1, H2. split; assumption.
Qed.
End FinalExact.

(* ================================================================================================ *)
(* The hypotheses are satisfiable: a Filter request (streams Stdin then Data), 9 records, 2 epochs    *)
(* ================================================================================================ *)
Definition exf_r : req := mkReq 1 ROLE_Filter 0 [].
Definition exf_rs : list rcd :=
  [ mkRcd RT_Stdin 1 [97; 98; 99] [0];                                                     (* Stdin "abc" + 1 pad *)
    mkRcd RT_GetValues 0 [14; 0; 70; 67; 71; 73; 95; 77; 65; 88; 95; 67; 79; 78; 78; 83] [];  (* FCGI_MAX_CONNS? *)
    mkRcd RT_Data 1 [120; 121] [];                        (* Data "xy": later stream, ends Stdin, held back *)
    mkRcd 77 3 [1] [];                                    (* unknown type *)
    mkRcd RT_BeginRequest 2 (begin_encode 1 0) [];        (* foreign BeginRequest *)
    mkRcd RT_Stdin 1 [100] [];                            (* stale Stdin: skipped in the Data epoch *)
    mkRcd RT_Stdin 1 [] [];
    mkRcd RT_Data 1 [122] [];                             (* Data "z" *)
    mkRcd RT_Data 1 [] [] ].                              (* end of Data *)
Definition exf_wire : bytes := enc_rcds exf_rs.
(* the request parser finished with the first 5 bytes of the stream phase already in its buffer *)
Definition exf_rp : parser := mkParser 128 (take 5 exf_wire) (Done exf_r).
Definition exf_sp0 : sp := match into_stream_parser exf_rp with inl p => p | inr _ => new_sparser 0 exf_r end.
Definition exf_ops1 : list cop :=
  [ CParse (slice 5 30 exf_wire) None; CConsumeStream 2; CCompress;
    CParse (slice 30 70 exf_wire) None; CConsumeOutput 7; CConsumeStream 100;
    CParse (drop 70 exf_wire) (Some 10) ].
Definition exf_ops2 : list cop := [ CParse [] None; CConsumeStream 1; CParse [] None ].

Example exf_parser_ok : parser_ok exf_rp /\ st exf_rp = Done exf_r /\ into_stream_parser exf_rp = inl exf_sp0.
Proof.
  split; [|split; reflexivity].
  unfold parser_ok. split; [exact I|]. split; [exact I|].
  split; [apply bytes_okb_ok; vm_compute; reflexivity|].
  split; [vm_compute; discriminate|]. split; vm_compute; [discriminate|reflexivity].
Qed.

Example exf_rcds_ok : Forall rcd_ok exf_rs.
Proof. unfold exf_rs. repeat constructor; try (vm_compute; reflexivity). Qed.

Example exf_legal1 : csched_legal 10 exf_sp0 exf_ops1.
Proof.
  vm_compute. repeat split; try discriminate; try (repeat constructor);
    try (intros H; exfalso; apply H; reflexivity).
Qed.

Example exf_wire_eq : held exf_rp ++ cfed exf_ops1 ++ [] = enc_rcds exf_rs ++ [].
Proof. vm_compute. reflexivity. Qed.

Example exf_later : later_stream (abs exf_sp0) RT_Data.
Proof. vm_compute. reflexivity. Qed.

(* the record-level specification on this wire *)
Example exf_spec_values :
  content_rcds ROLE_Filter 1 (Some RT_Stdin) exf_rs = [97; 98; 99] /\
  ended_rcds ROLE_Filter 1 (Some RT_Stdin) exf_rs = true /\
  content_rcds ROLE_Filter 1 (Some RT_Data) exf_rs = [120; 121; 122] /\
  ended_rcds ROLE_Filter 1 (Some RT_Data) exf_rs = true /\
  len (replies_rcds 10 1 exf_rs) = 64.
Proof. vm_compute. repeat split; reflexivity. Qed.

(* what the model does on it (first epoch; then set_stream(Data) and the second epoch) *)
Example exf_run_values :
  (let '(p, d, e) := crun 10 exf_sp0 exf_ops1 in
   (d, len e, stream_buffer p, len (output_buffer p), len (raw_bytes p), stream_at_end p))
  = ([97; 98; 99], 7, [], 25, 69, true) /\
  match set_stream (cfinal 10 exf_sp0 exf_ops1) (Some RT_Data) with
  | SetOk p1 => let '(p, d, e) := crun 10 p1 exf_ops2 in
                (d, stream_buffer p, len (output_buffer p), len (raw_bytes p), stream_at_end p)
                = ([120], [121; 122], 57, 8, true)
  | _ => False
  end.
Proof. vm_compute. split; reflexivity. Qed.

(* the final theorems apply to it (derived from the theorems, not computed) *)
Example exf_C02 :
  cdelivered 10 exf_sp0 exf_ops1 ++ stream_buffer (cfinal 10 exf_sp0 exf_ops1) = [97; 98; 99] /\
  ended_rcds ROLE_Filter 1 (Some RT_Stdin) exf_rs = true.
Proof.
  destruct exf_parser_ok as (Hok & Hst & E0).
  destruct (C02_delivery_exact 10 exf_rp exf_r exf_sp0 exf_rs [] exf_ops1 [] Hok Hst E0 exf_rcds_ok
              ltac:(vm_compute; reflexivity) exf_wire_eq exf_legal1) as (_ & _ & _ & Hall & Hend).
  assert (Hat : stream_at_end (cfinal 10 exf_sp0 exf_ops1) = true) by (vm_compute; reflexivity).
  split.
  - rewrite (Hall (or_intror Hat)). vm_compute. reflexivity.
  - exact (Hend Hat).
Qed.

Definition exf_p1 : sp :=
  match set_stream (cfinal 10 exf_sp0 exf_ops1) (Some RT_Data) with SetOk p => p | _ => exf_sp0 end.

Example exf_set : set_stream (cfinal 10 exf_sp0 exf_ops1) (Some RT_Data) = SetOk exf_p1.
Proof. vm_compute. reflexivity. Qed.

Example exf_legal2 : csched_legal 10 exf_p1 exf_ops2.
Proof.
  vm_compute. repeat split; try discriminate; try (repeat constructor);
    try (intros H; exfalso; apply H; reflexivity).
Qed.

Example exf_C18 :
  cdelivered 10 exf_p1 exf_ops2 ++ stream_buffer (cfinal 10 exf_p1 exf_ops2) = [120; 121; 122].
Proof.
  destruct exf_parser_ok as (Hok & Hst & E0).
  assert (Hw : held exf_rp ++ cfed exf_ops1 ++ cfed exf_ops2 ++ [] = enc_rcds exf_rs ++ [])
    by (vm_compute; reflexivity).
  destruct (C18_only_active_rcds 10 exf_rp exf_r exf_sp0 RT_Data exf_rs [] exf_ops1 exf_ops2 [] Hok Hst E0
              exf_later exf_rcds_ok Hw exf_legal1) as (p1 & Eset & H).
  rewrite exf_set in Eset.
  pose proof (f_equal (fun r => match r with SetOk p => p | _ => exf_sp0 end) Eset) as Hp.
  cbv beta iota in Hp. subst p1.
  destruct (H exf_legal2) as (_ & _ & _ & _ & Hall).
  rewrite Hall; [vm_compute; reflexivity|]. right. vm_compute. reflexivity.
Qed.

Print Assumptions sparse_call.
Print Assumptions concrete_schedule_law.
Print Assumptions concrete_schedule.
Print Assumptions set_stream_call.
Print Assumptions set_stream_no_panic.
Print Assumptions set_stream_later.
Print Assumptions into_stream_parser_inv.
Print Assumptions into_stream_parser_targets.
Print Assumptions CF_rcds.
Print Assumptions RA_rcds.
Print Assumptions EF_rcds.
Print Assumptions ends_law.
Print Assumptions csched_E.
Print Assumptions reach_inv.
Print Assumptions C02_delivery.
Print Assumptions C02_stream_end.
Print Assumptions C03_stream.
Print Assumptions C04_stream.
Print Assumptions C04_stream_rcds.
Print Assumptions C05_stream.
Print Assumptions C18_only_active.
Print Assumptions C18_only_active_rcds.
Print Assumptions C02_delivery_exact.
Print Assumptions C04_stream_rcds_exact.
Print Assumptions progress_law.
Print Assumptions C02_end_reported.
