(* Parser/StreamFinal.v — the user-level theorems about the INDEX-LEVEL model of stream::Parser
   (Parser/StreamModel.v, the one that mirrors src/parser/stream.rs), obtained from the data refinement
   (StreamRefine.v) and the laws of the abstract machine (StreamInv.v).
     Part A  concrete caller schedules on [sp]; per-call and per-schedule laws; set_stream; initial state
     Part B  record-level meaning of the specification functions (content_rcds, ended_rcds, replies_rcds)
     Part C  the final theorems C02_delivery, C03_stream, C04_stream, C05_stream, C18_only_active
   Everything is closed under the global context. *)
From Coq Require Import ZArith ZifyBool ZifyNat ZifyN.
From FV Require Import Base.Bytes Base.BytesLemmas Gen.Generated Codec.Varint Codec.VarintProofs
  Codec.NV Codec.NVProofs Codec.Header Codec.Bodies Codec.Vars Codec.ProtoProofs
  Parser.ReqModel Parser.ReqParamsSpec Parser.ReqWire Parser.ReqTargets Parser.ReqDrive Parser.ReqRecords
  Parser.StreamModel Parser.StreamSeqProofs Parser.AbsStream Parser.StreamRefine Parser.StreamSpec Parser.StreamInv.
Ltac Zify.zify_post_hook ::= Z.div_mod_to_equations.

(* ================================================================================================ *)
(* Part A: concrete schedules                                                                        *)
(* ================================================================================================ *)

(* what a caller can do with a stream::Parser between two set_stream calls *)
Inductive cop :=
| CParse (new : bytes) (dest : option N)   (* write [new] into input_buffer(), then parse(len new, dest) *)
| CConsumeStream (k : N)                   (* consume_stream(k) *)
| CCompress                                (* compress() *)
| CConsumeOutput (k : N).                  (* consume_output(k) *)

(* the state invariant: the debug_assert_invars! inequalities + the protocol-level invariant *)
Definition sp_inv (p : sp) : Prop := RI p /\ a_inv (abs p).

(* the caller contract of Parser::parse *)
Definition call_legal (p : sp) (new : bytes) (dest : option N) : Prop :=
  bytes_ok new /\ len new <= sinput_space p /\ (dest <> None -> stream_buffer p = []).

Definition cop_legal (p : sp) (op : cop) : Prop :=
  match op with CParse new dest => call_legal p new dest | _ => True end.

Definition cfed_of (op : cop) : bytes := match op with CParse new _ => new | _ => [] end.

Section Concrete.
Variable maxc : N.

(* one operation: the parser afterwards, the stream bytes handed to the caller (written to [dest] by
   parse, or released from the stream buffer by consume_stream), the output bytes taken by the caller
   (consume_output).  A panicking call would leave the state alone; [cno_panic] says there is none. *)
Definition cstep (p : sp) (op : cop) : sp * bytes * bytes :=
  match op with
  | CParse new dest =>
    match sparse maxc p new dest with
    | StOk p' s | StErr p' _ s => (p', s_dest s, [])
    | StPanic _ => (p, [], [])
    end
  | CConsumeStream k => (consume_stream p k, take (N.min k (len (stream_buffer p))) (stream_buffer p), [])
  | CCompress => (compress p, [], [])
  | CConsumeOutput k => (consume_output p k, [], take (N.min k (len (output_buffer p))) (output_buffer p))
  end.

Fixpoint crun (p : sp) (ops : list cop) : sp * bytes * bytes :=
  match ops with
  | [] => (p, [], [])
  | op :: r =>
    let '(p1, d1, e1) := cstep p op in
    let '(p2, d2, e2) := crun p1 r in
    (p2, d1 ++ d2, e1 ++ e2)
  end.

Definition cfinal (p : sp) (ops : list cop) : sp := fst (fst (crun p ops)).
Definition cdelivered (p : sp) (ops : list cop) : bytes := snd (fst (crun p ops)).
Definition cemitted (p : sp) (ops : list cop) : bytes := snd (crun p ops).

Fixpoint csched_legal (p : sp) (ops : list cop) : Prop :=
  match ops with
  | [] => True
  | op :: r => cop_legal p op /\ csched_legal (fst (fst (cstep p op))) r
  end.

Definition cfed (ops : list cop) : bytes := flat_map cfed_of ops.

(* no parse call of the schedule panics *)
Fixpoint cno_panic (p : sp) (ops : list cop) : Prop :=
  match ops with
  | [] => True
  | op :: r =>
    match op with CParse new dest => forall n, sparse maxc p new dest <> StPanic n | _ => True end /\
    cno_panic (fst (fst (cstep p op))) r
  end.

(* ---- basic facts ---- *)
Lemma sp_inv_stream_ok p : sp_inv p -> stream_ok p.
Proof. intros [_ (_ & _ & _ & _ & _ & H)]. exact H. Qed.

Lemma sp_inv_RI p : sp_inv p -> RI p.
Proof. intros [H _]. exact H. Qed.

(* the five debug_assert_invars! inequalities *)
Lemma sp_inv_invars p : sp_inv p ->
  parsed_start p <= gap_start p /\ gap_start p <= raw_start p /\ raw_start p <= free_start p /\
  free_start p <= len (buffer p) /\ output_start p <= len (output p).
Proof. intros [(H1 & H2 & H3 & H4 & H5 & _) _]. repeat split; assumption. Qed.

Lemma call_legal_abs p new dest : call_legal p new dest <-> legal (abs p) new dest.
Proof. split; intros H; exact H. Qed.

Lemma step_law_refl a : a_inv a -> step_law maxc a [] a [] [].
Proof.
  intros H. split; [exact H|]. split; [reflexivity|]. split; [reflexivity|].
  intros u. split; [reflexivity|]. split; [reflexivity|]. intros sg _. reflexivity.
Qed.

Lemma step_law_trans a n1 a1 d1 e1 n2 a2 d2 e2 :
  step_law maxc a n1 a1 d1 e1 -> step_law maxc a1 n2 a2 d2 e2 ->
  step_law maxc a (n1 ++ n2) a2 (d1 ++ d2) (e1 ++ e2).
Proof.
  intros (I1 & S1 & Q1 & L1) (I2 & S2 & Q2 & L2).
  split; [exact I2|]. split; [congruence|]. split; [congruence|].
  intros u. rewrite <- !app_assoc.
  destruct (L1 (n2 ++ u)) as (K1 & R1 & F1). destruct (L2 u) as (K2 & R2 & F2).
  split; [rewrite K1, K2; reflexivity|]. split; [rewrite R1, R2; reflexivity|].
  intros sg Hl. rewrite (F1 sg Hl). apply F2. unfold later_stream in *. rewrite S1, Q1. exact Hl.
Qed.

(* ---- one parse call, seen from the index-level model ---- *)

(* what every legal call guarantees, whether it returns Ok or Err *)
Definition call_post (p : sp) (new : bytes) (dest : option N) (p' : sp) (s : status) : Prop :=
  sp_inv p' /\ stream p' = stream p /\ sreq p' = sreq p /\ len (buffer p') = len (buffer p) /\
  (* C02: the bytes written to dest, followed by what is still owed, are what was owed before *)
  (forall u, K (abs p) (new ++ u) = s_dest s ++ K (abs p') u) /\
  (* C04: the replies owed (pending output ++ future replies) are unchanged ... *)
  (forall u, R maxc (abs p) (new ++ u) = R maxc (abs p') u) /\
  (* C18: the content of every later stream is untouched *)
  (forall sg u, later_stream (abs p) sg -> F (Some sg) (abs p) (new ++ u) = F (Some sg) (abs p') u) /\
  (* ... Status.output = number of bytes appended to the output buffer *)
  (exists o, output_buffer p' = output_buffer p ++ o /\ s_output s = len o) /\
  (* Status.stream = number of stream bytes delivered by this call *)
  (dest = None -> s_dest s = [] /\ exists d, stream_buffer p' = stream_buffer p ++ d /\ s_stream s = len d) /\
  (forall c, dest = Some c -> stream_buffer p' = [] /\ s_stream s = len (s_dest s) /\ len (s_dest s) <= c) /\
  (* C05: the unparsed bytes are a suffix of (previously unparsed ++ new) *)
  suffix (raw_bytes p') (raw_bytes p ++ new).

Lemma call_post_of_abs p new dest p' s : sp_inv p -> call_legal p new dest -> RI p' ->
  (aparse maxc (abs p) new dest = AOk (abs p') s \/ exists e, aparse maxc (abs p) new dest = AFail (abs p') e s) ->
  call_post p new dest p' s.
Proof.
  intros [HRI Hinv] Hleg HRI' Hres.
  destruct (aparse_pres maxc (abs p) new dest (abs p') s Hinv Hleg Hres) as [l' [Ea [Es [P I]]]].
  destruct (content_law maxc (abs p) new dest [] (abs p') s Hinv Hleg Hres) as (_ & Hst & Hrq & Hn & Hc).
  destruct (replies_law maxc (abs p) new dest [] (abs p') s Hinv Hleg Hres) as (_ & Ho).
  unfold call_post.
  split. { split; [exact HRI'|]. rewrite <- Ea. apply I. }
  split; [exact Hst|]. split; [exact Hrq|].
  split. { pose proof (p_B _ _ _ P) as HB. rewrite Ea in HB. exact HB. }
  split. { intros u. apply (content_law maxc (abs p) new dest u (abs p') s Hinv Hleg Hres). }
  split. { intros u. apply (replies_law maxc (abs p) new dest u (abs p') s Hinv Hleg Hres). }
  split. { intros sg u Hl. apply (later_law maxc (abs p) new dest u (abs p') s sg Hinv Hleg Hl Hres). }
  split; [exact Ho|]. split; [exact Hn|]. split; [exact Hc|].
  pose proof (p_raw _ _ _ P) as Hr. rewrite Ea in Hr. exact Hr.
Qed.

Definition first_status (p : sp) : status :=
  mkStatus 0 (match stream p with None => true | Some _ => false end) 0 [].

(* Every legal call from a state satisfying the invariant returns Ok or Err (never panics), and: *)
Theorem sparse_call p new dest : sp_inv p -> call_legal p new dest ->
  (exists p' s, sparse maxc p new dest = StOk p' s /\ call_post p new dest p' s /\
     (* stream_end is reported iff no stream is active or the parser stands at the terminating header *)
     s_end s = match stream p with
               | None => true
               | Some _ => at_terminator (r_role (sreq p)) (r_id (sreq p)) (stream p)
                                         (payload_rem p') (padding_rem p') (raw_bytes p')
               end) \/
  (exists p' e s, sparse maxc p new dest = StErr p' e s /\ call_post p new dest p' s /\
     (e = EAbortRequest \/ exists v, e = EUnknownVersion v) /\
     (* errors are sticky: every later legal call reports the same error, delivers and emits nothing *)
     forall new' dest', call_legal p' new' dest' ->
       exists p'', sparse maxc p' new' dest' = StErr p'' e (first_status p') /\
                   stream_buffer p'' = stream_buffer p' /\ output_buffer p'' = output_buffer p' /\
                   raw_bytes p'' = raw_bytes p' ++ new').
Proof.
  intros Hsp Hleg. pose proof Hsp as [HRI Hinv].
  destruct (sparse_refines maxc p new dest HRI) as [Ga Gb].
  destruct (T_total maxc (abs p) new dest Hinv Hleg) as [(a' & s' & E & I')|(a' & e' & s' & E & I' & Hk)].
  - rewrite E in Ga. destruct (sparse maxc p new dest) as [p' s|p' e s|n]; cbn [absres] in Ga; try discriminate Ga.
    injection Ga as -> ->. cbn [sparse_post] in Gb. destruct Gb as [HRI' _].
    left. exists p', s. split; [reflexivity|].
    split; [apply call_post_of_abs; try assumption; left; exact E|].
    apply (T_end maxc (abs p) new dest (abs p') s Hinv Hleg E).
  - rewrite E in Ga. destruct (sparse maxc p new dest) as [p' s|p' e s|n]; cbn [absres] in Ga; try discriminate Ga.
    injection Ga as -> -> ->. cbn [sparse_post] in Gb. destruct Gb as [HRI' _].
    right. exists p', e, s. split; [reflexivity|].
    split; [apply call_post_of_abs; try assumption; right; exists e; exact E|].
    split; [exact Hk|].
    intros new' dest' Hleg'.
    destruct (T_sticky maxc (abs p) new dest (abs p') e s new' dest' Hinv Hleg E Hleg') as (a'' & E2 & Hp & Ho & Hr).
    destruct (sparse_refines maxc p' new' dest' HRI') as [Ga2 _]. rewrite E2 in Ga2.
    destruct (sparse maxc p' new' dest') as [p2 s2|p2 e2 s2|n2]; cbn [absres] in Ga2; try discriminate Ga2.
    injection Ga2 as Ha2 He2 Hs2. subst a'' e2 s2. exists p2. split; [reflexivity|].
    split; [exact Hp|]. split; [exact Ho|exact Hr].
Qed.

Corollary sparse_call_no_panic p new dest : sp_inv p -> call_legal p new dest ->
  forall n, sparse maxc p new dest <> StPanic n.
Proof.
  intros Hsp Hleg n E.
  destruct (sparse_call p new dest Hsp Hleg) as [(p' & s & E' & _)|(p' & e & s & E' & _)]; congruence.
Qed.

(* ---- one operation ---- *)
Lemma cstep_law p op : sp_inv p -> cop_legal p op ->
  sp_inv (fst (fst (cstep p op))) /\
  match op with CParse new dest => forall n, sparse maxc p new dest <> StPanic n | _ => True end /\
  len (buffer (fst (fst (cstep p op)))) = len (buffer p) /\
  suffix (raw_bytes (fst (fst (cstep p op)))) (raw_bytes p ++ cfed_of op) /\
  step_law maxc (abs p) (cfed_of op) (abs (fst (fst (cstep p op)))) (snd (fst (cstep p op))) (snd (cstep p op)).
Proof.
  intros Hsp Hleg. pose proof Hsp as [HRI Hinv].
  destruct op as [new dest|k| |k]; cbn [cop_legal cfed_of] in *.
  - pose proof (sparse_call_no_panic p new dest Hsp Hleg) as Hnp.
    assert (H : exists p' s, cstep p (CParse new dest) = (p', s_dest s, []) /\ call_post p new dest p' s).
    { destruct (sparse_call p new dest Hsp Hleg) as [(p' & s & E & Hp & _)|(p' & e & s & E & Hp & _)];
        exists p', s; (split; [cbn [cstep]; rewrite E; reflexivity|exact Hp]). }
    destruct H as (p' & s & Ec & Hp). rewrite Ec. cbn [fst snd].
    destruct Hp as (I' & Hst & Hrq & HB & HK & HR & HF & _ & _ & _ & Hsuf).
    split; [exact I'|]. split; [exact Hnp|]. split; [exact HB|]. split; [exact Hsuf|].
    split; [apply I'|]. split; [exact Hst|]. split; [exact Hrq|].
    intros u. split; [apply HK|]. split; [apply HR|]. intros sg Hl. apply HF. exact Hl.
  - cbn [cstep fst snd]. rewrite app_nil_r.
    pose proof (consume_stream_abs p k HRI) as Ea.
    split. { split; [apply consume_stream_RI; exact HRI|]. rewrite Ea. apply consume_stream_inv. exact Hinv. }
    split; [exact I|]. split; [reflexivity|]. split; [apply suffix_refl|].
    rewrite Ea. change (stream_buffer p) with (a_parsed (abs p)).
    apply (sstep_law maxc (abs p) (OConsumeStream k) Hinv I).
  - cbn [cstep fst snd]. rewrite app_nil_r.
    pose proof (compress_abs p HRI) as Ea.
    split. { split; [apply compress_RI; exact HRI|]. rewrite Ea. apply compress_inv. exact Hinv. }
    split; [exact I|].
    split. { apply (f_equal a_B) in Ea. exact Ea. }
    split. { apply (f_equal a_raw) in Ea. cbn [abs acompress a_raw] in Ea. rewrite Ea. apply suffix_refl. }
    rewrite Ea. apply (sstep_law maxc (abs p) OCompress Hinv I).
  - cbn [cstep fst snd]. rewrite app_nil_r.
    pose proof (consume_output_abs p k HRI) as Ea.
    split. { split; [apply consume_output_RI; exact HRI|]. rewrite Ea. exact Hinv. }
    split; [exact I|].
    split. { apply (f_equal a_B) in Ea. exact Ea. }
    split. { apply (f_equal a_raw) in Ea. cbn [abs aconsume_output a_raw] in Ea. rewrite Ea. apply suffix_refl. }
    rewrite Ea. change (output_buffer p) with (a_out (abs p)).
    apply (sstep_law maxc (abs p) (OConsumeOutput k) Hinv I).
Qed.

(* ---- every legal schedule ---- *)
Theorem concrete_schedule_law ops : forall p0, sp_inv p0 -> csched_legal p0 ops ->
  cno_panic p0 ops /\
  sp_inv (cfinal p0 ops) /\
  len (buffer (cfinal p0 ops)) = len (buffer p0) /\
  suffix (raw_bytes (cfinal p0 ops)) (raw_bytes p0 ++ cfed ops) /\
  step_law maxc (abs p0) (cfed ops) (abs (cfinal p0 ops)) (cdelivered p0 ops) (cemitted p0 ops).
Proof.
  unfold cfinal, cdelivered, cemitted.
  induction ops as [|op r IH]; intros p0 Hsp Hleg.
  - cbn [crun cno_panic cfed flat_map fst snd]. rewrite app_nil_r.
    split; [exact I|]. split; [exact Hsp|]. split; [reflexivity|]. split; [apply suffix_refl|].
    apply step_law_refl. apply Hsp.
  - destruct Hleg as [Hop Hr]. cbn [crun cno_panic cfed flat_map].
    destruct (cstep_law p0 op Hsp Hop) as (I1 & Np1 & B1 & S1 & L1).
    destruct (cstep p0 op) as [[p1 d1] e1]. cbn [fst snd] in *.
    destruct (IH p1 I1 Hr) as (Np2 & I2 & B2 & S2 & L2).
    destruct (crun p1 r) as [[p2 d2] e2]. cbn [fst snd] in *.
    split; [split; assumption|]. split; [exact I2|]. split; [congruence|].
    split.
    { rewrite app_assoc. apply (suffix_trans _ _ _ S2). apply suffix_app. exact S1. }
    apply (step_law_trans _ _ _ _ _ _ _ _ _ L1 L2).
Qed.

(* the same, spelled out (this is the form quoted by the property files) *)
Theorem concrete_schedule ops p0 : sp_inv p0 -> csched_legal p0 ops ->
  let pf := cfinal p0 ops in
  cno_panic p0 ops /\ sp_inv pf /\ stream pf = stream p0 /\ sreq pf = sreq p0 /\
  len (buffer pf) = len (buffer p0) /\
  (exists consumed, raw_bytes p0 ++ cfed ops = consumed ++ raw_bytes pf) /\
  forall u,
    K (abs p0) (cfed ops ++ u) = cdelivered p0 ops ++ K (abs pf) u /\
    R maxc (abs p0) (cfed ops ++ u) = cemitted p0 ops ++ R maxc (abs pf) u /\
    forall sg, later_stream (abs p0) sg -> F (Some sg) (abs p0) (cfed ops ++ u) = F (Some sg) (abs pf) u.
Proof.
  intros Hsp Hleg pf.
  destruct (concrete_schedule_law ops p0 Hsp Hleg) as (Np & I & B & S & (_ & Hs & Hq & L)).
  split; [exact Np|]. split; [exact I|]. split; [exact Hs|]. split; [exact Hq|]. split; [exact B|].
  split; [exact S|]. exact L.
Qed.

End Concrete.

(* ---- set_stream ---- *)
Section SetStream.
Variable maxc : N.

Lemma aset_stream_B a s a' : aset_stream a s = ASetOk a' -> a_B a' = a_B a.
Proof.
  unfold aset_stream. destruct (accepts (r_role (a_req a)) (a_stream a) s) as [[|]|]; try discriminate.
  destruct (optN_eqb s (a_stream a)); intros H; inversion H; reflexivity.
Qed.

(* an accepted set_stream: invariant kept, replies and the content of every stream untouched; when the
   selection changes, the stream buffer is dropped and the new epoch will deliver exactly the not yet
   consumed content of the newly selected stream *)
Theorem set_stream_call p s p' : sp_inv p -> set_stream p s = SetOk p' ->
  sp_inv p' /\ sreq p' = sreq p /\ len (buffer p') = len (buffer p) /\
  output_buffer p' = output_buffer p /\ raw_bytes p' = raw_bytes p /\
  (forall u, R maxc (abs p') u = R maxc (abs p) u) /\
  (forall sg u, F sg (abs p') u = F sg (abs p) u) /\
  (optN_eqb s (stream p) = true -> p' = p) /\
  (optN_eqb s (stream p) = false ->
     stream p' = s /\ stream_buffer p' = [] /\ forall u, K (abs p') u = F s (abs p) u).
Proof.
  intros [HRI Hinv] E. pose proof (set_stream_refines p s HRI) as Href. rewrite E in Href.
  destruct (aset_stream (abs p) s) as [a'| |] eqn:Ea; try contradiction.
  destruct Href as [HRI' Habs]. subst a'.
  pose proof (aset_stream_B _ _ _ Ea) as HB.
  destruct (set_stream_law maxc (abs p) s (abs p') [] Hinv Ea) as (Hsame & Hdiff & _ & _ & Hinv').
  split; [split; assumption|].
  assert (Hfields : sreq p' = sreq p /\ output_buffer p' = output_buffer p /\ raw_bytes p' = raw_bytes p).
  { destruct (optN_eqb s (stream p)) eqn:Eq.
    - specialize (Hsame Eq).
      split; [exact (f_equal a_req Hsame)|]. split; [exact (f_equal a_out Hsame)|exact (f_equal a_raw Hsame)].
    - destruct (Hdiff Eq) as (_ & _ & Hq & Ho & Hr & _).
      split; [exact Hq|]. split; [exact Ho|exact Hr]. }
  destruct Hfields as (Hq & Ho & Hr).
  split; [exact Hq|]. split; [exact HB|]. split; [exact Ho|]. split; [exact Hr|].
  split. { intros u. apply (set_stream_law maxc (abs p) s (abs p') u Hinv Ea). }
  split. { intros sg u. apply (set_stream_law maxc (abs p) s (abs p') u Hinv Ea). }
  split.
  { intros Eq. unfold set_stream in E.
    destruct (match s with
              | Some x => match cmp_input_streams (r_role (sreq p)) x (stream p) with
                          | None => None | Some Lt => Some false | Some _ => Some true end
              | None => Some true end) as [[|]|]; try discriminate E.
    rewrite Eq in E. injection E as E. symmetry. exact E. }
  intros Eq. destruct (Hdiff Eq) as (Hs & Hp & _).
  split; [exact Hs|]. split; [exact Hp|].
  intros u. apply (set_stream_law maxc (abs p) s (abs p') u Hinv Ea). exact Eq.
Qed.

(* set_stream never panics when asked for an input stream (Option<Stream> in the Rust signature) *)
Theorem set_stream_no_panic p s : sp_inv p ->
  match s with Some x => is_input_stream x = true | None => True end ->
  set_stream p s <> SetPanic.
Proof.
  intros Hsp Hs E. pose proof (sp_inv_stream_ok p Hsp) as Hok. unfold stream_ok in Hok.
  unfold set_stream in E. destruct s as [x|].
  - destruct (cmp_input_streams (r_role (sreq p)) x (stream p)) as [[| |]|] eqn:Ec.
    + discriminate E.
    + destruct (optN_eqb (Some x) (stream p)); discriminate E.
    + destruct (optN_eqb (Some x) (stream p)); discriminate E.
    + destruct (stream p) as [c|].
      * apply (cmp_some _ _ _ Hs Hok Ec).
      * discriminate Ec.
  - destruct (optN_eqb None (stream p)); discriminate E.
Qed.

(* selecting a later stream is always accepted *)
Theorem set_stream_later p sg : sp_inv p -> later_stream (abs p) sg ->
  exists p', set_stream p (Some sg) = SetOk p' /\ optN_eqb (Some sg) (stream p) = false.
Proof.
  intros Hsp Hl. unfold later_stream in Hl. change (a_stream (abs p)) with (stream p) in Hl.
  change (a_req (abs p)) with (sreq p) in Hl.
  destruct (stream p) as [c|] eqn:Es; [|contradiction].
  assert (Hne : optN_eqb (Some sg) (Some c) = false).
  { cbn [optN_eqb]. destruct (N.eqb_spec sg c) as [E|_]; [|reflexivity].
    subst c. unfold cmp_input_streams in Hl.
    destruct (negb (is_input_stream sg) || negb (is_input_stream sg)); [discriminate Hl|].
    rewrite N.eqb_refl in Hl. discriminate Hl. }
  unfold set_stream. rewrite Es, Hl, Hne. eexists. split; reflexivity.
Qed.
End SetStream.

(* ---- the initial state: request::Parser::into_stream_parser ---- *)
Lemma next_input_none_ok role :
  match next_input_stream role None with Some e => is_input_stream e = true | None => True end.
Proof.
  unfold next_input_stream, NEXT_INPUT_STREAM. cbn [find fst snd optN_eqb].
  rewrite andb_true_r, andb_false_r.
  destruct (memN role [1; 3]); [reflexivity|exact I].
Qed.

Theorem into_stream_parser_inv rp r : parser_ok rp -> st rp = Done r ->
  exists sp0, into_stream_parser rp = inl sp0 /\ sp_inv sp0 /\
    sreq sp0 = r /\ stream sp0 = next_input_stream (r_role r) None /\ len (buffer sp0) = cap rp /\
    stream_buffer sp0 = [] /\ output_buffer sp0 = [] /\ raw_bytes sp0 = held rp /\
    payload_rem sp0 = 0 /\ padding_rem sp0 = 0 /\
    abs sp0 = mkA (cap rp) (cap rp - len (held rp)) [] (held rp) [] r (next_input_stream (r_role r) None) 0 0 SSkip.
Proof.
  intros (_ & _ & Hb & Hl & Hc) Hst.
  destruct (into_stream_parser_init rp r Hst Hl) as (p0 & E & HRI & Habs).
  exists p0. split; [exact E|].
  split.
  { split; [exact HRI|]. rewrite Habs. unfold a_inv, a_ok.
    cbn [a_B a_space a_parsed a_raw a_out a_req a_stream a_prem a_pad a_st].
    change (len (@nil N)) with 0.
    split; [lia|]. split; [lia|]. split; [lia|]. split; [exact Hb|]. split; [discriminate|].
    apply next_input_none_ok. }
  split; [exact (f_equal a_req Habs)|]. split; [exact (f_equal a_stream Habs)|].
  split; [exact (f_equal a_B Habs)|]. split; [exact (f_equal a_parsed Habs)|].
  split; [exact (f_equal a_out Habs)|]. split; [exact (f_equal a_raw Habs)|].
  split; [exact (f_equal a_prem Habs)|]. split; [exact (f_equal a_pad Habs)|exact Habs].
Qed.

(* what the fresh stream parser owes: the content of the role's first input stream / the replies /
   the content of any stream, all counted from the first byte after the preamble *)
Theorem into_stream_parser_targets maxc rp r sp0 : parser_ok rp -> st rp = Done r ->
  into_stream_parser rp = inl sp0 ->
  forall u,
    K (abs sp0) u = content_from (r_role r) (r_id r) (content_fuel (held rp ++ u))
                                 (next_input_stream (r_role r) None) false 0 0 (held rp ++ u) /\
    R maxc (abs sp0) u = replies_all maxc (r_id r) (content_fuel (held rp ++ u)) SSkip 0 0 (held rp ++ u) /\
    forall sg, F sg (abs sp0) u = content_from (r_role r) (r_id r) (content_fuel (held rp ++ u)) sg false 0 0 (held rp ++ u).
Proof.
  intros Hok Hst E u.
  destruct (into_stream_parser_inv rp r Hok Hst) as (p0 & E' & _ & _ & _ & _ & _ & _ & _ & _ & _ & Habs).
  rewrite E in E'. injection E' as <-.
  unfold K, R, F, cur_of. rewrite Habs.
  cbn [a_B a_space a_parsed a_raw a_out a_req a_stream a_prem a_pad a_st app].
  split; [reflexivity|]. split; [reflexivity|]. intros sg. reflexivity.
Qed.


(* ================================================================================================ *)
(* Part B: record-level meaning of the specification functions                                       *)
(* ================================================================================================ *)

(* ---- the record-level specification (over [rcd], [enc_rcds] of Parser/ReqWire.v) ---- *)

(* what one record means for the stream [sg] of request [id] when the request has role [role].
   [spec_cmp role t sg] (StreamSeqProofs.v) places a received input-stream type t relative to sg:
   Eq = it is sg; Gt = it comes later in the role's order; Lt = it comes earlier, or is not a stream of
   the role, or no stream is selected. *)
Inductive rcd_effect :=
| EBody (b : bytes)    (* contributes its body to the stream *)
| ESkip                (* ignored as far as this stream is concerned *)
| ETerminator          (* ends the stream: its empty record, or the first record of a later stream *)
| EAbort.              (* AbortRequest of this request: the stream is cut off *)

Definition rcd_effect_on (role id : N) (sg : option N) (r : rcd) : rcd_effect :=
  if is_input_stream (rt r) && (rid r =? id) then
    match spec_cmp role (rt r) sg with
    | Eq => if len (rbody r) =? 0 then ETerminator else EBody (rbody r)
    | Lt => ESkip
    | Gt => ETerminator              (* held back for the next epoch *)
    end
  else if (rt r =? RT_AbortRequest) && (rid r =? id) then EAbort
  else ESkip.                        (* management, unknown type, foreign id, stale Params, BeginRequest, ... *)

(* (bytes of stream sg in the record list, whether the walk reached the end of the list without ending) *)
Fixpoint content_walk (role id : N) (sg : option N) (rs : list rcd) : bytes * bool :=
  match rs with
  | [] => ([], true)
  | r :: t =>
    match rcd_effect_on role id sg r with
    | EBody b => (b ++ fst (content_walk role id sg t), snd (content_walk role id sg t))
    | ESkip => content_walk role id sg t
    | ETerminator | EAbort => ([], false)
    end
  end.

Definition content_rcds (role id : N) (sg : option N) (rs : list rcd) : bytes := fst (content_walk role id sg rs).
Definition content_open (role id : N) (sg : option N) (rs : list rcd) : bool := snd (content_walk role id sg rs).

(* a terminator of sg occurs before any AbortRequest of this request *)
Fixpoint ended_rcds (role id : N) (sg : option N) (rs : list rcd) : bool :=
  match rs with
  | [] => false
  | r :: t =>
    match rcd_effect_on role id sg r with
    | EBody _ | ESkip => ended_rcds role id sg t
    | ETerminator => true
    | EAbort => false
    end
  end.

(* (replies owed for the records up to the first AbortRequest of this request, whether none was met) *)
Fixpoint replies_walk (maxc id : N) (rs : list rcd) : bytes * bool :=
  match rs with
  | [] => ([], true)
  | r :: t =>
    if (rt r =? RT_AbortRequest) && (rid r =? id) then ([], false)
    else (reply_for maxc (InStream id) r ++ fst (replies_walk maxc id t), snd (replies_walk maxc id t))
  end.

Definition replies_rcds (maxc id : N) (rs : list rcd) : bytes := fst (replies_walk maxc id rs).
Definition replies_open (maxc id : N) (rs : list rcd) : bool := snd (replies_walk maxc id rs).

(* a selection is either nothing or an input-stream type (Option<Stream>) *)
Definition sel_ok (sg : option N) : Prop :=
  match sg with Some s => is_input_stream s = true | None => True end.

(* ---- cmp_input_streams is spec_cmp, for EVERY role value ---- *)
Lemma cmp_spec_all role t sg : is_input_stream t = true -> sel_ok sg ->
  cmp_input_streams role t sg = Some (spec_cmp role t sg).
Proof.
  intros Ht Hs. destruct sg as [s|]; [|reflexivity]. cbn [sel_ok] in Hs.
  apply is_input_cases in Ht. apply is_input_cases in Hs.
  unfold cmp_input_streams, spec_cmp.
  destruct (role_streams_cases role) as [Hr|[Hr|Hr]]; rewrite Hr;
    destruct Ht as [-> | ->]; destruct Hs as [-> | ->]; vm_compute; reflexivity.
Qed.

Lemma unknown_not_special t : known_type t = false ->
  is_input_stream t = false /\ (t =? RT_AbortRequest) = false /\ (t =? RT_BeginRequest) = false /\
  (t =? RT_GetValues) = false.
Proof.
  intros H.
  split. { destruct (is_input_stream t) eqn:E; [|reflexivity].
           apply is_input_cases in E. destruct E as [-> | ->]; discriminate H. }
  split. { destruct (N.eqb_spec t RT_AbortRequest) as [->|_]; [discriminate H|reflexivity]. }
  split. { destruct (N.eqb_spec t RT_BeginRequest) as [->|_]; [discriminate H|reflexivity]. }
  destruct (N.eqb_spec t RT_GetValues) as [->|_]; [discriminate H|reflexivity].
Qed.

Lemma enc_rcds_cons r rs : enc_rcds (r :: rs) = enc_rcd r ++ enc_rcds rs.
Proof. reflexivity. Qed.

Lemma enc_rcd_app r w : enc_rcd r ++ w = hdr8 r ++ rbody r ++ rpad r ++ w.
Proof. rewrite enc_rcd_eq, <- !app_assoc. reflexivity. Qed.

Lemma len_hdr8_app r w : HEADER_LEN <= len (hdr8 r ++ w).
Proof. rewrite len_app, len_hdr8. unfold HEADER_LEN. lia. Qed.

Section RecordLevel.
Variable maxc : N.
Variable role id : N.
Notation CF := (CF role id).
Notation RA := (RA maxc id).

(* a whole record body + padding lying in front *)
Lemma CF_body sg cur b q w :
  CF sg cur (len b) (len q) (b ++ q ++ w) = (if cur then b else []) ++ CF sg false 0 0 w.
Proof.
  rewrite (CF_adv role id sg cur (len b) (len q) (b ++ q ++ w) (len b)) by (rewrite ?len_app; lia).
  rewrite take_len_app, drop_len_app, N.sub_diag.
  rewrite (CF_pad_adv role id sg cur (len q) (q ++ w) (len q)) by (rewrite ?len_app; lia).
  rewrite drop_len_app, N.sub_diag, (CF_cur0 role id sg cur). reflexivity.
Qed.

Lemma RA_body0 st q w : RA st 0 (len q) (q ++ w) = RA SSkip 0 0 w.
Proof.
  rewrite (RA_pad_adv maxc id st (len q) (q ++ w) (len q)) by (rewrite ?len_app; lia).
  rewrite drop_len_app, N.sub_diag. apply RA_st0.
Qed.

Lemma RA_body st b q w : 0 < len b ->
  RA st (len b) (len q) (b ++ q ++ w) = resp maxc st b ++ RA SSkip 0 0 w.
Proof.
  intros Hb.
  rewrite (RA_adv_full maxc id st SSkip (len b) (len q) (b ++ q ++ w)) by (rewrite ?len_app; lia).
  rewrite take_len_app, drop_len_app, RA_body0. reflexivity.
Qed.

Lemma RA_body_nv st b q w : not_values st ->
  RA st (len b) (len q) (b ++ q ++ w) = RA SSkip 0 0 w.
Proof.
  intros Hst. destruct (N.eq_dec (len b) 0) as [Hz|Hz].
  - rewrite Hz. rewrite (len_zero_nil b Hz). cbn [app]. apply RA_body0.
  - rewrite RA_body by lia. rewrite (resp_not_values maxc st b Hst). reflexivity.
Qed.

(* ---- one record ---- *)
Lemma CF_record sg r w : rcd_ok r -> sel_ok sg ->
  CF sg false 0 0 (enc_rcd r ++ w) =
  match rcd_effect_on role id sg r with
  | EBody b => b ++ CF sg false 0 0 w
  | ESkip => CF sg false 0 0 w
  | ETerminator | EAbort => []
  end.
Proof.
  intros Hr Hs. rewrite enc_rcd_app.
  rewrite CF_head by apply len_hdr8_app. rewrite take8_hdr8, drop8_hdr8.
  unfold cf_hd. rewrite (hdr_decode_hdr8 r Hr). unfold rcd_effect_on.
  destruct (known_type (rt r)) eqn:Hk.
  - destruct (is_input_stream (rt r) && (rid r =? id)) eqn:Hin.
    + apply andb_true_iff in Hin. destruct Hin as [Hin _].
      rewrite (cmp_spec_all role (rt r) sg Hin Hs).
      destruct (spec_cmp role (rt r) sg).
      * rewrite CF_body. reflexivity.
      * destruct (len (rbody r) =? 0); [reflexivity|]. rewrite CF_body. reflexivity.
      * reflexivity.
    + destruct ((rt r =? RT_AbortRequest) && (rid r =? id)); [reflexivity|].
      rewrite CF_body. reflexivity.
  - destruct (unknown_not_special _ Hk) as (-> & -> & _ & _). cbn [andb].
    destruct (hdr8_fields r Hr) as (_ & -> & ->). rewrite CF_body. reflexivity.
Qed.

Lemma RA_record st r w : rcd_ok r ->
  RA st 0 0 (enc_rcd r ++ w) =
  if (rt r =? RT_AbortRequest) && (rid r =? id) then []
  else reply_for maxc (InStream id) r ++ RA SSkip 0 0 w.
Proof.
  intros Hr. rewrite enc_rcd_app.
  rewrite RA_head by apply len_hdr8_app. rewrite take8_hdr8, drop8_hdr8.
  unfold ra_hd. rewrite (hdr_decode_hdr8 r Hr). unfold reply_for.
  destruct (known_type (rt r)) eqn:Hk; cbn [negb].
  - destruct ((rt r =? RT_AbortRequest) && (rid r =? id)) eqn:Hab; [reflexivity|].
    rewrite gv_cond.
    destruct (N.eqb_spec (rt r) RT_BeginRequest) as [Hb|Hb].
    + rewrite Hb. change (RT_BeginRequest =? RT_GetValues) with false. cbn [andb].
      destruct (negb (rid r =? id)).
      * rewrite RA_body_nv by exact I. reflexivity.
      * rewrite RA_body_nv by exact I. reflexivity.
    + cbn [andb]. destruct ((rt r =? RT_GetValues) && (rid r =? 0)) eqn:Hgv.
      * destruct (N.eqb_spec (len (rbody r)) 0) as [Hz|Hz].
        -- rewrite Hz. rewrite (len_zero_nil _ Hz). cbn [app]. rewrite RA_body0. reflexivity.
        -- rewrite RA_body by lia. reflexivity.
      * rewrite RA_body_nv by exact I. reflexivity.
  - destruct (unknown_not_special _ Hk) as (_ & -> & _ & _). cbn [andb].
    destruct (hdr8_fields r Hr) as (-> & -> & ->). rewrite RA_body_nv by exact I. reflexivity.
Qed.

(* ---- a record list followed by arbitrary bytes ---- *)
Theorem CF_rcds sg rs t : Forall rcd_ok rs -> sel_ok sg ->
  CF sg false 0 0 (enc_rcds rs ++ t) =
  content_rcds role id sg rs ++ (if content_open role id sg rs then CF sg false 0 0 t else []).
Proof.
  intros Hrs Hs. unfold content_rcds, content_open.
  induction Hrs as [|r rs Hr Hrs IH].
  - reflexivity.
  - rewrite enc_rcds_cons, <- app_assoc. rewrite (CF_record sg r _ Hr Hs). cbn [content_walk].
    destruct (rcd_effect_on role id sg r); cbn [fst snd].
    + rewrite IH, app_assoc. reflexivity.
    + exact IH.
    + reflexivity.
    + reflexivity.
Qed.

Theorem RA_rcds st rs t : Forall rcd_ok rs ->
  RA st 0 0 (enc_rcds rs ++ t) =
  replies_rcds maxc id rs ++ (if replies_open maxc id rs then RA SSkip 0 0 t else []).
Proof.
  intros Hrs. unfold replies_rcds, replies_open. revert st.
  induction Hrs as [|r rs Hr Hrs IH]; intros st.
  - cbn [enc_rcds flat_map replies_walk fst snd app]. apply RA_st0.
  - rewrite enc_rcds_cons, <- app_assoc. rewrite (RA_record st r _ Hr). cbn [replies_walk].
    destruct ((rt r =? RT_AbortRequest) && (rid r =? id)); cbn [fst snd]; [reflexivity|].
    rewrite IH, app_assoc. reflexivity.
Qed.
End RecordLevel.

(* the replies named in the task, record by record (reading aid for [reply_for _ (InStream id)]) *)
Lemma reply_for_stream_cases maxc id r : rcd_ok r ->
  (known_type (rt r) = false -> reply_for maxc (InStream id) r = unk_record (rt r) (rid r)) /\
  (rt r = RT_GetValues -> rid r = 0 -> rbody r <> [] ->
     reply_for maxc (InStream id) r = write_response (vars_of_pairs 0 (fst (nv_run (rbody r)))) maxc) /\
  (rt r = RT_GetValues -> rid r = 0 -> rbody r = [] -> reply_for maxc (InStream id) r = []) /\
  (rt r = RT_BeginRequest -> rid r <> id -> reply_for maxc (InStream id) r = end_record 0 PS_CantMpxConn (rid r)).
Proof.
  intros Hr. unfold reply_for, gv_reply.
  split. { intros ->. reflexivity. }
  split. { intros -> -> Hne. change (known_type RT_GetValues) with true. cbn [negb].
           rewrite !N.eqb_refl. cbn [andb].
           destruct (N.eqb_spec (len (rbody r)) 0) as [Hz|_]; [|reflexivity].
           exfalso. apply Hne. apply len_zero_nil. exact Hz. }
  split. { intros -> -> ->. reflexivity. }
  intros -> Hne. change (known_type RT_BeginRequest) with true. cbn [negb].
  change (RT_BeginRequest =? RT_GetValues) with false. cbn [andb].
  rewrite N.eqb_refl. destruct (N.eqb_spec (rid r) id) as [E|_]; [contradiction|reflexivity].
Qed.

Print Assumptions sparse_call.
Print Assumptions concrete_schedule_law.
Print Assumptions concrete_schedule.
Print Assumptions set_stream_call.
Print Assumptions set_stream_no_panic.
Print Assumptions set_stream_later.
Print Assumptions into_stream_parser_inv.
Print Assumptions into_stream_parser_targets.
Print Assumptions CF_rcds.
Print Assumptions RA_rcds.
