(* Parser/EnvCanon.v — canonical presentation of an environment log: last value wins, sorted by key.
   Used only to print observations (the HashMap's iteration order is unspecified). *)
From FV Require Import Base.Bytes.

(* canonical environment: last value wins, sorted by key *)
Fixpoint bytes_ltb (a b : bytes) : bool :=
  match a, b with
  | [], [] => false
  | [], _ => true
  | _, [] => false
  | x :: a', y :: b' => if x <? y then true else if y <? x then false else bytes_ltb a' b'
  end.
Fixpoint env_put (k v : bytes) (l : list (bytes * bytes)) : list (bytes * bytes) :=
  match l with
  | [] => [(k, v)]
  | (k', v') :: t => if beq k k' then (k, v) :: t
                     else if bytes_ltb k k' then (k, v) :: l else (k', v') :: env_put k v t
  end.
Definition canon_env (log : list (bytes * bytes)) : list (bytes * bytes) :=
  fold_left (fun acc p => env_put (fst p) (snd p) acc) log [].

