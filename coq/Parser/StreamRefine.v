(* Parser/StreamRefine.v — data refinement between the index-level model of stream::Parser
   (StreamModel.v: shared buffer + four cursors, copy_within, compress) and the list-level abstract
   machine (AbsStream.v), under the representation invariant [RI] (= debug_assert_invars!).

   Every operation [op] of the index-level model preserves [RI] and commutes with [abs]:
   [abs (op p) = aop (abs p)].  In particular [sparse] (= Parser::parse) never reaches the
   debug_assert_invars! panic sites (20/21/31/3), the debug_assert sites 30/40 or the fuel site 99. *)
From Coq Require Import ZArith.
From FV Require Import Base.Bytes Base.BytesLemmas Gen.Generated Codec.Varint Codec.NV Codec.Header Codec.Bodies Codec.Vars
  Parser.ReqModel Parser.StreamModel Parser.AbsStream.
From Coq Require Import ZifyBool ZifyNat ZifyN.
Ltac Zify.zify_post_hook ::= Z.div_mod_to_equations.

(* ------------------------------------------------------------------------------------------ *)
(* Part 0: list surgery — slice / copy_within / write_at                                       *)
(* ------------------------------------------------------------------------------------------ *)

Lemma rf_drop_take {A} a b (X : list A) : drop a (take b X) = take (b - a) (drop a X).
Proof. unfold drop, take. rewrite skipn_firstn_comm. f_equal. lia. Qed.

Lemma len_slice {A} a b (l : list A) : len (slice a b l) = N.min (b - a) (len l - a).
Proof. unfold slice. rewrite len_take, len_drop. reflexivity. Qed.

Lemma len_slice_le {A} a b (l : list A) : b <= len l -> len (slice a b l) = b - a.
Proof. intros H. rewrite len_slice. lia. Qed.

Lemma slice_nil {A} a b (l : list A) : b <= a -> slice a b l = [].
Proof. unfold slice. intros H. replace (b - a) with 0 by lia. reflexivity. Qed.

Lemma slice_0 {A} n (l : list A) : slice 0 n l = take n l.
Proof. unfold slice. rewrite drop_0. f_equal. lia. Qed.

Lemma drop_eq_mono {A} d x (l l' : list A) : d <= x -> drop d l = drop d l' -> drop x l = drop x l'.
Proof.
  intros H E. replace x with (d + (x - d)) by lia. rewrite <- !drop_drop. rewrite E. reflexivity.
Qed.

Lemma take_eq_mono {A} d x (l l' : list A) : x <= d -> take d l = take d l' -> take x l = take x l'.
Proof.
  intros H E. replace x with (N.min x d) by lia. rewrite <- !take_take. rewrite E. reflexivity.
Qed.

Lemma slice_take {A} d a b (l : list A) : b <= d -> slice a b (take d l) = slice a b l.
Proof.
  intros H. unfold slice. rewrite rf_drop_take, take_take. f_equal. lia.
Qed.

Lemma slice_drop {A} d a b (l : list A) : slice a b (drop d l) = slice (d + a) (d + b) l.
Proof. unfold slice. rewrite drop_drop. f_equal. lia. Qed.

(* a slice only depends on the bytes from [d] on, for any d <= a ... *)
Lemma slice_eq_drop {A} d a b (l l' : list A) : d <= a -> drop d l = drop d l' -> slice a b l = slice a b l'.
Proof. intros H E. unfold slice. rewrite (drop_eq_mono d a l l' H E). reflexivity. Qed.

(* ... and only on the bytes before [d], for any b <= d *)
Lemma slice_eq_take {A} d a b (l l' : list A) : b <= d -> take d l = take d l' -> slice a b l = slice a b l'.
Proof. intros H E. rewrite <- (slice_take d a b l H), <- (slice_take d a b l' H), E. reflexivity. Qed.

Lemma slice_split {A} a m b (l : list A) : a <= m -> m <= b -> slice a b l = slice a m l ++ slice m b l.
Proof.
  intros H1 H2. unfold slice. replace (b - a) with ((m - a) + (b - m)) by lia.
  rewrite take_add, drop_drop. replace (a + (m - a)) with m by lia. reflexivity.
Qed.

Lemma take_slice {A} n a b (l : list A) : a + n <= b -> take n (slice a b l) = slice a (a + n) l.
Proof. intros H. unfold slice. rewrite take_take. f_equal. lia. Qed.

Lemma drop_slice {A} n a b (l : list A) : drop n (slice a b l) = slice (a + n) b l.
Proof. unfold slice. rewrite rf_drop_take, drop_drop. f_equal. lia. Qed.

Lemma slice_app3 {A} a b (X Y Z : list A) : len X = a -> len Y = b - a -> slice a b (X ++ Y ++ Z) = Y.
Proof.
  intros HX HY. unfold slice. rewrite drop_app_ge by lia. replace (a - len X) with 0 by lia.
  rewrite drop_0, <- HY. apply take_len_app.
Qed.

Lemma slice_all_take {A} a b (l : list A) : a <= b -> b <= len l -> take a l ++ slice a b l ++ drop b l = l.
Proof.
  intros H1 H2. unfold slice. rewrite <- (take_drop a l) at 4. f_equal.
  rewrite <- (take_drop (b - a) (drop a l)) at 2. f_equal. rewrite drop_drop. f_equal. lia.
Qed.

(* copy_within: length, the three regions *)
Section CopyWithin.
Context (buf : bytes) (a b dst : N).
Hypothesis Hab : a <= b.
Hypothesis Hb : b <= len buf.
Hypothesis Hdst : dst + (b - a) <= len buf.

Lemma len_copy_within : len (copy_within buf a b dst) = len buf.
Proof.
  unfold copy_within. rewrite !len_app, len_take, len_slice_le, len_drop by exact Hb. lia.
Qed.

Lemma take_copy_within : take dst (copy_within buf a b dst) = take dst buf.
Proof.
  unfold copy_within. rewrite take_app_le by (rewrite len_take; lia).
  rewrite take_take. f_equal. lia.
Qed.

Lemma drop_copy_within : drop (dst + (b - a)) (copy_within buf a b dst) = drop (dst + (b - a)) buf.
Proof.
  unfold copy_within. rewrite app_assoc.
  rewrite drop_app_ge by (rewrite len_app, len_take, len_slice_le by exact Hb; lia).
  rewrite len_app, len_take, len_slice_le by exact Hb.
  replace (dst + (b - a) - (N.min dst (len buf) + (b - a))) with 0 by lia. apply drop_0.
Qed.

Lemma slice_copy_within : slice dst (dst + (b - a)) (copy_within buf a b dst) = slice a b buf.
Proof.
  unfold copy_within. apply slice_app3.
  - rewrite len_take. lia.
  - rewrite len_slice_le by exact Hb. lia.
Qed.
End CopyWithin.

(* write_at: length, the three regions *)
Section WriteAt.
Context (buf new : bytes) (pos : N).
Hypothesis Hfit : pos + len new <= len buf.

Lemma len_write_at : len (write_at buf pos new) = len buf.
Proof. unfold write_at. rewrite !len_app, len_take, len_drop. lia. Qed.

Lemma take_write_at : take pos (write_at buf pos new) = take pos buf.
Proof.
  unfold write_at. rewrite take_app_le by (rewrite len_take; lia).
  rewrite take_take. f_equal. lia.
Qed.

Lemma slice_write_at : slice pos (pos + len new) (write_at buf pos new) = new.
Proof. unfold write_at. apply slice_app3; [rewrite len_take; lia | lia]. Qed.
End WriteAt.

(* ------------------------------------------------------------------------------------------ *)
(* Part 1: RI / abs basics, compress, consume_stream, consume_output, discard_stream            *)
(* ------------------------------------------------------------------------------------------ *)

Lemma HEADER_LEN_val : HEADER_LEN = 8.
Proof. reflexivity. Qed.

Lemma RI_invars_ok p : RI p -> invars_ok p = true.
Proof. unfold RI, invars_ok. intros H. lia. Qed.

Lemma invars_ok_RI p : invars_ok p = true -> (output_start p = len (output p) -> output p = []) -> RI p.
Proof. unfold RI, invars_ok. intros H1 H2. repeat split; try lia. exact H2. Qed.

Lemma RI_len_parsed p : RI p -> len (stream_buffer p) = gap_start p - parsed_start p.
Proof. unfold RI, stream_buffer. intros H. rewrite len_slice_le; lia. Qed.

Lemma RI_len_raw p : RI p -> len (raw_bytes p) = free_start p - raw_start p.
Proof. unfold RI, raw_bytes. intros H. rewrite len_slice_le; lia. Qed.

Lemma RI_len_out p : RI p -> len (output_buffer p) = len (output p) - output_start p.
Proof. unfold output_buffer. intros _. apply len_drop. Qed.

Lemma RI_a_ok p : RI p -> a_ok (abs p).
Proof.
  intros H. unfold a_ok, abs. cbn [a_parsed a_raw a_space a_B].
  rewrite RI_len_parsed, RI_len_raw by exact H. unfold RI in H. lia.
Qed.

(* the buffer after compress, characterised by its three observable parts *)
Lemma compress_spec p : RI p ->
  let gs' := gap_start p - parsed_start p in
  exists b2, compress p = upd_idx p b2 0 gs' gs' (gs' + (free_start p - raw_start p)) /\
             len b2 = len (buffer p) /\
             take gs' b2 = stream_buffer p /\
             slice gs' (gs' + (free_start p - raw_start p)) b2 = raw_bytes p.
Proof.
  intros (H1 & H2 & H3 & H4 & _). cbn zeta.
  set (gs' := gap_start p - parsed_start p).
  set (b1 := if (0 <? parsed_start p) && (parsed_start p <? gap_start p)
             then copy_within (buffer p) (parsed_start p) (gap_start p) 0 else buffer p).
  assert (B1 : len b1 = len (buffer p) /\ take gs' b1 = stream_buffer p /\ drop gs' b1 = drop gs' (buffer p)).
  { subst b1. unfold stream_buffer.
    destruct (N.ltb_spec 0 (parsed_start p)) as [Ha|Ha]; cbn [andb].
    - destruct (N.ltb_spec (parsed_start p) (gap_start p)) as [Hb|Hb].
      + split; [apply len_copy_within; lia|]. split.
        * rewrite <- slice_0. replace gs' with (0 + (gap_start p - parsed_start p)) by (subst gs'; lia).
          apply slice_copy_within; lia.
        * replace gs' with (0 + (gap_start p - parsed_start p)) by (subst gs'; lia).
          apply drop_copy_within; lia.
      + split; [reflexivity|]. split; [|reflexivity].
        rewrite slice_nil by lia. replace gs' with 0 by (subst gs'; lia). reflexivity.
    - split; [reflexivity|]. split; [|reflexivity].
      replace (parsed_start p) with 0 by lia. rewrite slice_0. f_equal. subst gs'. lia. }
  destruct B1 as (L1 & T1 & D1).
  set (b2 := if (gs' <? raw_start p) && (raw_start p <? free_start p)
             then copy_within b1 (raw_start p) (free_start p) gs' else b1).
  exists b2. split; [|split; [|split]].
  - unfold compress. fold gs'. fold b1. fold b2. f_equal. subst gs'. lia.
  - subst b2. destruct ((gs' <? raw_start p) && (raw_start p <? free_start p)); [|exact L1].
    rewrite len_copy_within; [exact L1| |rewrite L1|rewrite L1]; subst gs'; lia.
  - rewrite <- T1. subst b2.
    destruct ((gs' <? raw_start p) && (raw_start p <? free_start p)); [|reflexivity].
    apply take_copy_within; rewrite ?L1; subst gs'; lia.
  - assert (R1 : slice (raw_start p) (free_start p) b1 = raw_bytes p).
    { unfold raw_bytes. apply (slice_eq_drop gs'); [subst gs'; lia|exact D1]. }
    rewrite <- R1. subst b2.
    destruct (N.ltb_spec gs' (raw_start p)) as [Ha|Ha]; cbn [andb].
    + destruct (N.ltb_spec (raw_start p) (free_start p)) as [Hb|Hb].
      * apply slice_copy_within; rewrite ?L1; subst gs'; lia.
      * rewrite !slice_nil by lia. reflexivity.
    + replace gs' with (raw_start p) by (subst gs'; lia). f_equal. lia.
Qed.

Lemma RI_upd_idx p b ps gs rs fs :
  ps <= gs -> gs <= rs -> rs <= fs -> fs <= len b -> RI p -> RI (upd_idx p b ps gs rs fs).
Proof.
  unfold RI, upd_idx. cbn [buffer parsed_start gap_start raw_start free_start output output_start].
  intros ? ? ? ? H. repeat split; try lia; apply H.
Qed.

Lemma abs_upd_idx p b ps gs rs fs :
  abs (upd_idx p b ps gs rs fs) =
  mkA (len b) (len b - fs) (slice ps gs b) (slice rs fs b) (output_buffer p) (sreq p) (stream p)
      (payload_rem p) (padding_rem p) (sst p).
Proof. reflexivity. Qed.

(* item 1 *)
Theorem compress_RI p : RI p -> RI (compress p).
Proof.
  intros H. destruct (compress_spec p H) as (b2 & E & L & _ & _). rewrite E.
  pose proof H as (H1 & H2 & H3 & H4 & H5). apply RI_upd_idx; try lia. exact H.
Qed.

Theorem compress_abs p : RI p -> abs (compress p) = acompress (abs p).
Proof.
  intros H. destruct (compress_spec p H) as (b2 & E & L & T & R). rewrite E, abs_upd_idx.
  unfold acompress, abs. cbn [a_B a_space a_parsed a_raw a_out a_req a_stream a_prem a_pad a_st].
  rewrite RI_len_parsed, RI_len_raw by exact H. rewrite slice_0, T, R, L.
  destruct H as (H1 & H2 & H3 & H4 & H5). f_equal; lia.
Qed.

(* item 2 *)
Theorem consume_stream_RI p k : RI p -> RI (consume_stream p k).
Proof.
  intros H. unfold consume_stream. pose proof H as (H1 & H2 & H3 & H4 & H5).
  apply RI_upd_idx; try lia. exact H.
Qed.

Theorem consume_stream_abs p k : RI p -> abs (consume_stream p k) = aconsume_stream (abs p) k.
Proof.
  intros H. unfold consume_stream. rewrite abs_upd_idx. unfold aconsume_stream, abs.
  cbn [a_B a_space a_parsed a_raw a_out a_req a_stream a_prem a_pad a_st].
  rewrite RI_len_parsed by exact H. unfold stream_buffer, raw_bytes. rewrite drop_slice. reflexivity.
Qed.

(* item 3 *)
Theorem consume_output_RI p k : RI p -> RI (consume_output p k).
Proof.
  intros (H1 & H2 & H3 & H4 & H5 & H6). unfold consume_output.
  destruct (N.leb_spec (len (output p) - output_start p) k) as [Hk|Hk]; unfold RI;
    cbn [buffer parsed_start gap_start raw_start free_start output output_start].
  - repeat split; try reflexivity; try lia; apply N.le_0_l.
  - repeat split; lia.
Qed.

Theorem consume_output_abs p k : RI p -> abs (consume_output p k) = aconsume_output (abs p) k.
Proof.
  intros H. unfold aconsume_output, abs. cbn [a_B a_space a_parsed a_raw a_out a_req a_stream a_prem a_pad a_st].
  rewrite RI_len_out by exact H. unfold consume_output.
  destruct (N.leb_spec (len (output p) - output_start p) k) as [Hk|Hk]; [reflexivity|].
  unfold stream_buffer, raw_bytes, output_buffer.
  cbn [buffer parsed_start gap_start raw_start free_start output output_start sreq stream payload_rem padding_rem sst].
  rewrite drop_drop. reflexivity.
Qed.

(* discard_stream = forget the stream buffer, then compress *)
Definition adiscard (a : ast) : ast :=
  mkA (a_B a) (a_B a - len (a_raw a)) [] (a_raw a) (a_out a) (a_req a) (a_stream a) (a_prem a) (a_pad a) (a_st a).

Lemma discard_stream_RI p : RI p -> RI (discard_stream p).
Proof.
  intros H. unfold discard_stream. apply compress_RI.
  pose proof H as (H1 & H2 & H3 & H4 & H5). apply RI_upd_idx; try lia. exact H.
Qed.

Lemma discard_stream_abs p : RI p -> abs (discard_stream p) = adiscard (abs p).
Proof.
  intros H. unfold discard_stream. rewrite compress_abs.
  - rewrite abs_upd_idx. unfold acompress, adiscard, abs.
    cbn [a_B a_space a_parsed a_raw a_out a_req a_stream a_prem a_pad a_st].
    rewrite slice_nil by lia. rewrite len_nil. f_equal; lia.
  - pose proof H as (H1 & H2 & H3 & H4 & H5). apply RI_upd_idx; try lia. exact H.
Qed.

Lemma discard_stream_fields p :
  output (discard_stream p) = output p /\ output_start (discard_stream p) = output_start p /\
  sreq (discard_stream p) = sreq p /\ stream (discard_stream p) = stream p /\
  payload_rem (discard_stream p) = payload_rem p /\ padding_rem (discard_stream p) = padding_rem p /\
  sst (discard_stream p) = sst p /\ parsed_start (discard_stream p) = 0 /\ gap_start (discard_stream p) = 0 /\
  raw_start (discard_stream p) = 0.
Proof. unfold discard_stream, compress, upd_idx. cbn [output output_start sreq stream payload_rem padding_rem sst parsed_start gap_start raw_start]. repeat split. Qed.
