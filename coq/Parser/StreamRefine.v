(* Parser/StreamRefine.v — data refinement between the index-level model of stream::Parser
   (StreamModel.v: shared buffer + four cursors, copy_within, compress) and the list-level abstract
   machine (AbsStream.v), under the representation invariant [RI] (= debug_assert_invars!).

   Every operation [op] of the index-level model preserves [RI] and commutes with [abs]:
   [abs (op p) = aop (abs p)].  In particular [sparse] (= Parser::parse) never reaches the
   debug_assert_invars! panic sites (20/21/31/3), the debug_assert sites 30/40 or the fuel site 99. *)
From Coq Require Import ZArith.
From FV Require Import Base.Bytes Base.BytesLemmas Gen.Generated Codec.Varint Codec.NV Codec.Header Codec.Bodies Codec.Vars
  Parser.ReqModel Parser.StreamModel Parser.AbsStream.
From Coq Require Import ZifyBool ZifyNat ZifyN.
Ltac Zify.zify_post_hook ::= Z.div_mod_to_equations.

(* ------------------------------------------------------------------------------------------ *)
(* Part 0: list surgery — slice / copy_within / write_at                                       *)
(* ------------------------------------------------------------------------------------------ *)

Lemma rf_drop_take {A} a b (X : list A) : drop a (take b X) = take (b - a) (drop a X).
Proof. unfold drop, take. rewrite skipn_firstn_comm. f_equal. lia. Qed.

Lemma len_slice {A} a b (l : list A) : len (slice a b l) = N.min (b - a) (len l - a).
Proof. unfold slice. rewrite len_take, len_drop. reflexivity. Qed.

Lemma len_slice_le {A} a b (l : list A) : b <= len l -> len (slice a b l) = b - a.
Proof. intros H. rewrite len_slice. lia. Qed.

Lemma slice_nil {A} a b (l : list A) : b <= a -> slice a b l = [].
Proof. unfold slice. intros H. replace (b - a) with 0 by lia. reflexivity. Qed.

Lemma slice_0 {A} n (l : list A) : slice 0 n l = take n l.
Proof. unfold slice. rewrite drop_0. f_equal. lia. Qed.

Lemma drop_eq_mono {A} d x (l l' : list A) : d <= x -> drop d l = drop d l' -> drop x l = drop x l'.
Proof.
  intros H E. replace x with (d + (x - d)) by lia. rewrite <- !drop_drop. rewrite E. reflexivity.
Qed.

Lemma take_eq_mono {A} d x (l l' : list A) : x <= d -> take d l = take d l' -> take x l = take x l'.
Proof.
  intros H E. replace x with (N.min x d) by lia. rewrite <- !take_take. rewrite E. reflexivity.
Qed.

Lemma slice_take {A} d a b (l : list A) : b <= d -> slice a b (take d l) = slice a b l.
Proof.
  intros H. unfold slice. rewrite rf_drop_take, take_take. f_equal. lia.
Qed.

Lemma slice_drop {A} d a b (l : list A) : slice a b (drop d l) = slice (d + a) (d + b) l.
Proof. unfold slice. rewrite drop_drop. f_equal. lia. Qed.

(* a slice only depends on the bytes from [d] on, for any d <= a ... *)
Lemma slice_eq_drop {A} d a b (l l' : list A) : d <= a -> drop d l = drop d l' -> slice a b l = slice a b l'.
Proof. intros H E. unfold slice. rewrite (drop_eq_mono d a l l' H E). reflexivity. Qed.

(* ... and only on the bytes before [d], for any b <= d *)
Lemma slice_eq_take {A} d a b (l l' : list A) : b <= d -> take d l = take d l' -> slice a b l = slice a b l'.
Proof. intros H E. rewrite <- (slice_take d a b l H), <- (slice_take d a b l' H), E. reflexivity. Qed.

Lemma slice_split {A} a m b (l : list A) : a <= m -> m <= b -> slice a b l = slice a m l ++ slice m b l.
Proof.
  intros H1 H2. unfold slice. replace (b - a) with ((m - a) + (b - m)) by lia.
  rewrite take_add, drop_drop. replace (a + (m - a)) with m by lia. reflexivity.
Qed.

Lemma take_slice {A} n a b (l : list A) : a + n <= b -> take n (slice a b l) = slice a (a + n) l.
Proof. intros H. unfold slice. rewrite take_take. f_equal. lia. Qed.

Lemma drop_slice {A} n a b (l : list A) : drop n (slice a b l) = slice (a + n) b l.
Proof. unfold slice. rewrite rf_drop_take, drop_drop. f_equal. lia. Qed.

Lemma slice_app3 {A} a b (X Y Z : list A) : len X = a -> len Y = b - a -> slice a b (X ++ Y ++ Z) = Y.
Proof.
  intros HX HY. unfold slice. rewrite drop_app_ge by lia. replace (a - len X) with 0 by lia.
  rewrite drop_0, <- HY. apply take_len_app.
Qed.

Lemma slice_all_take {A} a b (l : list A) : a <= b -> b <= len l -> take a l ++ slice a b l ++ drop b l = l.
Proof.
  intros H1 H2. unfold slice. rewrite <- (take_drop a l) at 4. f_equal.
  rewrite <- (take_drop (b - a) (drop a l)) at 2. f_equal. rewrite drop_drop. f_equal. lia.
Qed.

(* copy_within: length, the three regions *)
Section CopyWithin.
Context (buf : bytes) (a b dst : N).
Hypothesis Hab : a <= b.
Hypothesis Hb : b <= len buf.
Hypothesis Hdst : dst + (b - a) <= len buf.

Lemma len_copy_within : len (copy_within buf a b dst) = len buf.
Proof.
  unfold copy_within. rewrite !len_app, len_take, len_slice_le, len_drop by exact Hb. lia.
Qed.

Lemma take_copy_within : take dst (copy_within buf a b dst) = take dst buf.
Proof.
  unfold copy_within. rewrite take_app_le by (rewrite len_take; lia).
  rewrite take_take. f_equal. lia.
Qed.

Lemma drop_copy_within : drop (dst + (b - a)) (copy_within buf a b dst) = drop (dst + (b - a)) buf.
Proof.
  unfold copy_within. rewrite app_assoc.
  rewrite drop_app_ge by (rewrite len_app, len_take, len_slice_le by exact Hb; lia).
  rewrite len_app, len_take, len_slice_le by exact Hb.
  replace (dst + (b - a) - (N.min dst (len buf) + (b - a))) with 0 by lia. apply drop_0.
Qed.

Lemma slice_copy_within : slice dst (dst + (b - a)) (copy_within buf a b dst) = slice a b buf.
Proof.
  unfold copy_within. apply slice_app3.
  - rewrite len_take. lia.
  - rewrite len_slice_le by exact Hb. lia.
Qed.
End CopyWithin.

(* write_at: length, the three regions *)
Section WriteAt.
Context (buf new : bytes) (pos : N).
Hypothesis Hfit : pos + len new <= len buf.

Lemma len_write_at : len (write_at buf pos new) = len buf.
Proof. unfold write_at. rewrite !len_app, len_take, len_drop. lia. Qed.

Lemma take_write_at : take pos (write_at buf pos new) = take pos buf.
Proof.
  unfold write_at. rewrite take_app_le by (rewrite len_take; lia).
  rewrite take_take. f_equal. lia.
Qed.

Lemma slice_write_at : slice pos (pos + len new) (write_at buf pos new) = new.
Proof. unfold write_at. apply slice_app3; [rewrite len_take; lia | lia]. Qed.
End WriteAt.

(* ------------------------------------------------------------------------------------------ *)
(* Part 1: RI / abs basics, compress, consume_stream, consume_output, discard_stream            *)
(* ------------------------------------------------------------------------------------------ *)

Lemma HEADER_LEN_val : HEADER_LEN = 8.
Proof. reflexivity. Qed.

Lemma RI_invars_ok p : RI p -> invars_ok p = true.
Proof. unfold RI, invars_ok. intros H. lia. Qed.

Lemma invars_ok_RI p : invars_ok p = true -> (output_start p = len (output p) -> output p = []) -> RI p.
Proof. unfold RI, invars_ok. intros H1 H2. repeat split; try lia. exact H2. Qed.

Lemma RI_len_parsed p : RI p -> len (stream_buffer p) = gap_start p - parsed_start p.
Proof. unfold RI, stream_buffer. intros H. rewrite len_slice_le; lia. Qed.

Lemma RI_len_raw p : RI p -> len (raw_bytes p) = free_start p - raw_start p.
Proof. unfold RI, raw_bytes. intros H. rewrite len_slice_le; lia. Qed.

Lemma RI_len_out p : RI p -> len (output_buffer p) = len (output p) - output_start p.
Proof. unfold output_buffer. intros _. apply len_drop. Qed.

Lemma RI_a_ok p : RI p -> a_ok (abs p).
Proof.
  intros H. unfold a_ok, abs. cbn [a_parsed a_raw a_space a_B].
  rewrite RI_len_parsed, RI_len_raw by exact H. unfold RI in H. lia.
Qed.

(* the buffer after compress, characterised by its three observable parts *)
Lemma compress_spec p : RI p ->
  let gs' := gap_start p - parsed_start p in
  exists b2, compress p = upd_idx p b2 0 gs' gs' (gs' + (free_start p - raw_start p)) /\
             len b2 = len (buffer p) /\
             take gs' b2 = stream_buffer p /\
             slice gs' (gs' + (free_start p - raw_start p)) b2 = raw_bytes p.
Proof.
  intros (H1 & H2 & H3 & H4 & _). cbn zeta.
  set (gs' := gap_start p - parsed_start p).
  set (b1 := if (0 <? parsed_start p) && (parsed_start p <? gap_start p)
             then copy_within (buffer p) (parsed_start p) (gap_start p) 0 else buffer p).
  assert (B1 : len b1 = len (buffer p) /\ take gs' b1 = stream_buffer p /\ drop gs' b1 = drop gs' (buffer p)).
  { subst b1. unfold stream_buffer.
    destruct (N.ltb_spec 0 (parsed_start p)) as [Ha|Ha]; cbn [andb].
    - destruct (N.ltb_spec (parsed_start p) (gap_start p)) as [Hb|Hb].
      + split; [apply len_copy_within; lia|]. split.
        * rewrite <- slice_0. replace gs' with (0 + (gap_start p - parsed_start p)) by (subst gs'; lia).
          apply slice_copy_within; lia.
        * replace gs' with (0 + (gap_start p - parsed_start p)) by (subst gs'; lia).
          apply drop_copy_within; lia.
      + split; [reflexivity|]. split; [|reflexivity].
        rewrite slice_nil by lia. replace gs' with 0 by (subst gs'; lia). reflexivity.
    - split; [reflexivity|]. split; [|reflexivity].
      replace (parsed_start p) with 0 by lia. rewrite slice_0. f_equal. subst gs'. lia. }
  destruct B1 as (L1 & T1 & D1).
  set (b2 := if (gs' <? raw_start p) && (raw_start p <? free_start p)
             then copy_within b1 (raw_start p) (free_start p) gs' else b1).
  exists b2. split; [|split; [|split]].
  - unfold compress. fold gs'. fold b1. fold b2. f_equal. subst gs'. lia.
  - subst b2. destruct ((gs' <? raw_start p) && (raw_start p <? free_start p)); [|exact L1].
    rewrite len_copy_within; [exact L1| |rewrite L1|rewrite L1]; subst gs'; lia.
  - rewrite <- T1. subst b2.
    destruct ((gs' <? raw_start p) && (raw_start p <? free_start p)); [|reflexivity].
    apply take_copy_within; rewrite ?L1; subst gs'; lia.
  - assert (R1 : slice (raw_start p) (free_start p) b1 = raw_bytes p).
    { unfold raw_bytes. apply (slice_eq_drop gs'); [subst gs'; lia|exact D1]. }
    rewrite <- R1. subst b2.
    destruct (N.ltb_spec gs' (raw_start p)) as [Ha|Ha]; cbn [andb].
    + destruct (N.ltb_spec (raw_start p) (free_start p)) as [Hb|Hb].
      * apply slice_copy_within; rewrite ?L1; subst gs'; lia.
      * rewrite !slice_nil by lia. reflexivity.
    + replace gs' with (raw_start p) by (subst gs'; lia). f_equal. lia.
Qed.

Lemma RI_upd_idx p b ps gs rs fs :
  ps <= gs -> gs <= rs -> rs <= fs -> fs <= len b -> RI p -> RI (upd_idx p b ps gs rs fs).
Proof.
  unfold RI, upd_idx. cbn [buffer parsed_start gap_start raw_start free_start output output_start].
  intros ? ? ? ? H. repeat split; try lia; apply H.
Qed.

Lemma abs_upd_idx p b ps gs rs fs :
  abs (upd_idx p b ps gs rs fs) =
  mkA (len b) (len b - fs) (slice ps gs b) (slice rs fs b) (output_buffer p) (sreq p) (stream p)
      (payload_rem p) (padding_rem p) (sst p).
Proof. reflexivity. Qed.

(* item 1 *)
Theorem compress_RI p : RI p -> RI (compress p).
Proof.
  intros H. destruct (compress_spec p H) as (b2 & E & L & _ & _). rewrite E.
  pose proof H as (H1 & H2 & H3 & H4 & H5). apply RI_upd_idx; try lia. exact H.
Qed.

Theorem compress_abs p : RI p -> abs (compress p) = acompress (abs p).
Proof.
  intros H. destruct (compress_spec p H) as (b2 & E & L & T & R). rewrite E, abs_upd_idx.
  unfold acompress, abs. cbn [a_B a_space a_parsed a_raw a_out a_req a_stream a_prem a_pad a_st].
  rewrite RI_len_parsed, RI_len_raw by exact H. rewrite slice_0, T, R, L.
  destruct H as (H1 & H2 & H3 & H4 & H5). f_equal; lia.
Qed.

(* item 2 *)
Theorem consume_stream_RI p k : RI p -> RI (consume_stream p k).
Proof.
  intros H. unfold consume_stream. pose proof H as (H1 & H2 & H3 & H4 & H5).
  apply RI_upd_idx; try lia. exact H.
Qed.

Theorem consume_stream_abs p k : RI p -> abs (consume_stream p k) = aconsume_stream (abs p) k.
Proof.
  intros H. unfold consume_stream. rewrite abs_upd_idx. unfold aconsume_stream, abs.
  cbn [a_B a_space a_parsed a_raw a_out a_req a_stream a_prem a_pad a_st].
  rewrite RI_len_parsed by exact H. unfold stream_buffer, raw_bytes. rewrite drop_slice. reflexivity.
Qed.

(* item 3 *)
Theorem consume_output_RI p k : RI p -> RI (consume_output p k).
Proof.
  intros (H1 & H2 & H3 & H4 & H5 & H6). unfold consume_output.
  destruct (N.leb_spec (len (output p) - output_start p) k) as [Hk|Hk]; unfold RI;
    cbn [buffer parsed_start gap_start raw_start free_start output output_start].
  - repeat split; try reflexivity; try lia; apply N.le_0_l.
  - repeat split; lia.
Qed.

Theorem consume_output_abs p k : RI p -> abs (consume_output p k) = aconsume_output (abs p) k.
Proof.
  intros H. unfold aconsume_output, abs. cbn [a_B a_space a_parsed a_raw a_out a_req a_stream a_prem a_pad a_st].
  rewrite RI_len_out by exact H. unfold consume_output.
  destruct (N.leb_spec (len (output p) - output_start p) k) as [Hk|Hk]; [reflexivity|].
  unfold stream_buffer, raw_bytes, output_buffer.
  cbn [buffer parsed_start gap_start raw_start free_start output output_start sreq stream payload_rem padding_rem sst].
  rewrite drop_drop. reflexivity.
Qed.

(* discard_stream = forget the stream buffer, then compress *)
Definition adiscard (a : ast) : ast :=
  mkA (a_B a) (a_B a - len (a_raw a)) [] (a_raw a) (a_out a) (a_req a) (a_stream a) (a_prem a) (a_pad a) (a_st a).

Lemma discard_stream_RI p : RI p -> RI (discard_stream p).
Proof.
  intros H. unfold discard_stream. apply compress_RI.
  pose proof H as (H1 & H2 & H3 & H4 & H5). apply RI_upd_idx; try lia. exact H.
Qed.

Lemma discard_stream_abs p : RI p -> abs (discard_stream p) = adiscard (abs p).
Proof.
  intros H. unfold discard_stream. rewrite compress_abs.
  - rewrite abs_upd_idx. unfold acompress, adiscard, abs.
    cbn [a_B a_space a_parsed a_raw a_out a_req a_stream a_prem a_pad a_st].
    rewrite slice_nil by lia. rewrite len_nil. f_equal; lia.
  - pose proof H as (H1 & H2 & H3 & H4 & H5). apply RI_upd_idx; try lia. exact H.
Qed.

Lemma discard_stream_fields p :
  output (discard_stream p) = output p /\ output_start (discard_stream p) = output_start p /\
  sreq (discard_stream p) = sreq p /\ stream (discard_stream p) = stream p /\
  payload_rem (discard_stream p) = payload_rem p /\ padding_rem (discard_stream p) = padding_rem p /\
  sst (discard_stream p) = sst p /\ parsed_start (discard_stream p) = 0 /\ gap_start (discard_stream p) = 0 /\
  raw_start (discard_stream p) = 0.
Proof. unfold discard_stream, compress, upd_idx. cbn [output output_start sreq stream payload_rem padding_rem sst parsed_start gap_start raw_start]. repeat split. Qed.

(* ------------------------------------------------------------------------------------------ *)
(* Part 2: the loop-local simulation (parse_payload, parse_head, parse_iter, parse_loop)        *)
(* ------------------------------------------------------------------------------------------ *)

Definition raw_len (p : sp) : N := free_start p - raw_start p.

(* no active stream, or an input-stream type: then cmp_input_streams never hits its debug_assert *)
Definition stream_ok (p : sp) : Prop :=
  match stream p with None => True | Some e => is_input_stream e = true end.

Section Sim.
Variable maxc : N.

Definition absl (l : lstate) : alstate := mkAL (abs (lp l)) (lres l) (lcap l).
Definition absflow (f : cflow) : aflow :=
  match f with
  | CContinue l => AContinue (absl l)
  | CBreak l => ABreak (absl l)
  | CErr l e => AErr (absl l) e
  | CPanic n => APanic n
  end.

(* the local closure [fin] of parse_payload / aparse_payload, as top-level functions *)
Definition pfin (p p' : sp) (res : status) (cap' : option N) (consumed : N) : cflow :=
  let raw_len := free_start p - raw_start p in
  let payload_len := N.min (payload_rem p) raw_len in
  if payload_len <? consumed then CPanic 20 else
  let p'' := set_core p' (raw_start p + consumed) (payload_rem p - consumed) (padding_rem p') (sst p')
                      (output p') (gap_start p') (buffer p') in
  if negb (invars_ok p'') then CPanic 21 else
  let l' := mkL p'' res cap' in
  if (payload_rem p'' =? 0) && (consumed <? raw_len) then CContinue l' else CBreak l'.

Definition apfin (a a' : ast) (res : status) (cap' : option N) (consumed : N) : aflow :=
  let raw_len := len (a_raw a) in
  let payload_len := N.min (a_prem a) raw_len in
  if payload_len <? consumed then APanic 20 else
  let a'' := a_set a' (a_parsed a') (drop consumed (a_raw a)) (a_out a') (a_prem a - consumed) (a_pad a') (a_st a') in
  let l' := mkAL a'' res cap' in
  if (a_prem a'' =? 0) && (consumed <? raw_len) then AContinue l' else ABreak l'.

Lemma parse_payload_unfold l :
  parse_payload maxc l =
  let p := lp l in
  let raw_len := free_start p - raw_start p in
  let payload_len := N.min (payload_rem p) raw_len in
  let payload := slice (raw_start p) (raw_start p + payload_len) (buffer p) in
  match sst p with
  | SStream =>
    match lcap l with
    | Some c =>
      let n := N.min c payload_len in
      pfin p p (mkStatus (s_stream (lres l) + n) (s_end (lres l)) (s_output (lres l)) (s_dest (lres l) ++ take n payload))
          (Some (c - n)) n
    | None =>
      let b' := copy_within (buffer p) (raw_start p) (raw_start p + payload_len) (gap_start p) in
      let p' := set_core p (raw_start p) (payload_rem p) (padding_rem p) (sst p) (output p)
                         (gap_start p + payload_len) b' in
      pfin p p' (mkStatus (s_stream (lres l) + payload_len) (s_end (lres l)) (s_output (lres l)) (s_dest (lres l)))
          None payload_len
    end
  | SSkip => pfin p p (lres l) (lcap l) payload_len
  | SValues vars =>
    let '(ps, rest) := nv_run payload in
    let vars' := vars_of_pairs vars ps in
    if raw_len <? payload_rem p then
      pfin p (set_core p (raw_start p) (payload_rem p) (padding_rem p) (SValues vars') (output p) (gap_start p) (buffer p))
          (lres l) (lcap l) (payload_len - len rest)
    else
      let w := write_response vars' maxc in
      pfin p (set_core p (raw_start p) (payload_rem p) (padding_rem p) (SValues vars') (output p ++ w) (gap_start p) (buffer p))
          (mkStatus (s_stream (lres l)) (s_end (lres l)) (s_output (lres l) + len w) (s_dest (lres l)))
          (lcap l) payload_len
  end.
Proof. reflexivity. Qed.

Lemma aparse_payload_unfold l :
  aparse_payload maxc l =
  let a := al l in
  let raw_len := len (a_raw a) in
  let payload_len := N.min (a_prem a) raw_len in
  let payload := take payload_len (a_raw a) in
  match a_st a with
  | SStream =>
    match acap l with
    | Some c => let n := N.min c payload_len in apfin a a (add_stream (ares l) n (take n payload)) (Some (c - n)) n
    | None => apfin a (a_set a (a_parsed a ++ payload) (a_raw a) (a_out a) (a_prem a) (a_pad a) (a_st a))
                  (add_stream (ares l) payload_len []) None payload_len
    end
  | SSkip => apfin a a (ares l) (acap l) payload_len
  | SValues vars =>
    let '(ps, rest) := nv_run payload in
    let vars' := vars_of_pairs vars ps in
    if raw_len <? a_prem a then
      apfin a (a_set a (a_parsed a) (a_raw a) (a_out a) (a_prem a) (a_pad a) (SValues vars')) (ares l) (acap l) (payload_len - len rest)
    else
      let w := write_response vars' maxc in
      apfin a (a_set a (a_parsed a) (a_raw a) (a_out a ++ w) (a_prem a) (a_pad a) (SValues vars'))
          (add_output (ares l) (len w)) (acap l) payload_len
  end.
Proof. reflexivity. Qed.

(* how the intermediate parser [p'] handed to [fin] may differ from the parser [p] at entry *)
Record pframe (p p' : sp) (consumed : N) : Prop := mkPframe {
  pf_ps : parsed_start p' = parsed_start p;
  pf_fs : free_start p' = free_start p;
  pf_gs1 : parsed_start p' <= gap_start p';
  pf_gs2 : gap_start p' <= raw_start p + consumed;
  pf_len : len (buffer p') = len (buffer p);
  pf_os : output_start p' = output_start p;
  pf_out : exists w, output p' = output p ++ w;
  pf_stream : stream p' = stream p;
  pf_raw : slice (raw_start p + consumed) (free_start p) (buffer p') =
           slice (raw_start p + consumed) (free_start p) (buffer p)
}.

(* [a'] describes [p'] in everything but the raw bytes and payload_rem (which fin overwrites) *)
Record absim (a' : ast) (p' : sp) : Prop := mkAbsim {
  as_B : a_B a' = len (buffer p');
  as_space : a_space a' = len (buffer p') - free_start p';
  as_parsed : a_parsed a' = stream_buffer p';
  as_out : a_out a' = output_buffer p';
  as_req : a_req a' = sreq p';
  as_stream : a_stream a' = stream p';
  as_pad : a_pad a' = padding_rem p';
  as_st : a_st a' = sst p'
}.

Lemma absim_abs p : absim (abs p) p.
Proof. constructor; reflexivity. Qed.

Lemma pframe_refl p consumed : RI p -> pframe p p consumed.
Proof.
  intros (H1 & H2 & H3 & H4 & H5). constructor; try reflexivity; try lia.
  exists []. symmetry. apply app_nil_r.
Qed.

Lemma RI_output_app (out w : bytes) os :
  os <= len out -> (os = len out -> out = []) ->
  os <= len (out ++ w) /\ (os = len (out ++ w) -> out ++ w = []).
Proof.
  intros H1 H2. rewrite len_app. split; [lia|]. intros E.
  assert (Hw : len w = 0) by lia. apply len_zero_nil in Hw. subst w.
  rewrite app_nil_r. apply H2. lia.
Qed.

(* what parse_payload guarantees besides the simulation *)
Definition payload_post (p : sp) (f : cflow) : Prop :=
  match f with
  | CContinue l' => RI (lp l') /\ raw_len (lp l') <= raw_len p /\ stream (lp l') = stream p /\
                    payload_rem (lp l') = 0
  | CBreak l' => RI (lp l') /\ stream (lp l') = stream p
  | _ => False
  end.

Lemma pfin_sim p p' a' res cap consumed :
  RI p -> consumed <= N.min (payload_rem p) (free_start p - raw_start p) ->
  pframe p p' consumed -> absim a' p' ->
  apfin (abs p) a' res cap consumed = absflow (pfin p p' res cap consumed) /\
  payload_post p (pfin p p' res cap consumed).
Proof.
  intros HRI Hc F S. pose proof HRI as (H1 & H2 & H3 & H4 & H5 & H6).
  destruct F as [F1 F2 F3 F4 F5 F6 [w F7] F8 F9]. destruct S as [S1 S2 S3 S4 S5 S6 S7 S8].
  unfold pfin, apfin. cbn [abs a_prem a_raw]. rewrite (RI_len_raw p HRI).
  destruct (N.ltb_spec (N.min (payload_rem p) (free_start p - raw_start p)) consumed) as [Hx|_]; [lia|].
  set (p'' := set_core p' (raw_start p + consumed) (payload_rem p - consumed) (padding_rem p') (sst p')
                       (output p') (gap_start p') (buffer p')).
  assert (R'' : RI p'').
  { subst p''. unfold RI, set_core.
    cbn [buffer parsed_start gap_start raw_start free_start output output_start].
    rewrite F6, F7. destruct (RI_output_app (output p) w (output_start p) H5 H6) as [O1 O2].
    repeat split; try lia. exact O2. }
  rewrite (RI_invars_ok p'' R''). cbn [negb].
  assert (A'' : abs p'' = a_set a' (a_parsed a') (drop consumed (slice (raw_start p) (free_start p) (buffer p)))
                            (a_out a') (payload_rem p - consumed) (a_pad a') (a_st a')).
  { subst p''. unfold abs, a_set, set_core, stream_buffer, raw_bytes, output_buffer.
    cbn [buffer parsed_start gap_start raw_start free_start output output_start sreq stream payload_rem padding_rem sst].
    rewrite S1, S2, S3, S4, S5, S6, S7, S8, F2, drop_slice, F9. reflexivity. }
  unfold raw_bytes.
  replace (payload_rem p'') with (payload_rem p - consumed) by reflexivity.
  unfold a_set at 1. cbn [a_prem].
  destruct ((payload_rem p - consumed =? 0) && (consumed <? free_start p - raw_start p)) eqn:Econd;
    unfold absflow, absl; cbn [lp lres lcap]; rewrite A''; (split; [reflexivity|]); unfold payload_post; cbn [lp].
  - split; [exact R''|]. split; [|split].
    + subst p''. unfold raw_len, set_core. cbn [free_start raw_start]. lia.
    + subst p''. unfold set_core. cbn [stream]. exact F8.
    + subst p''. unfold set_core. cbn [payload_rem]. lia.
  - split; [exact R''|]. subst p''. unfold set_core. cbn [stream]. exact F8.
Qed.

(* p' = p with another sst and an extended output: frame and abstraction *)
Lemma pframe_core p consumed st out' w : RI p -> out' = output p ++ w ->
  pframe p (set_core p (raw_start p) (payload_rem p) (padding_rem p) st out' (gap_start p) (buffer p)) consumed.
Proof.
  intros (H1 & H2 & H3 & H4 & H5) E. unfold set_core.
  constructor; cbn [buffer parsed_start gap_start raw_start free_start output output_start stream];
    try reflexivity; try lia.
  exists w. exact E.
Qed.

Lemma absim_core p st out' w : RI p -> out' = output p ++ w ->
  absim (a_set (abs p) (a_parsed (abs p)) (a_raw (abs p)) (a_out (abs p) ++ w) (a_prem (abs p)) (a_pad (abs p)) st)
        (set_core p (raw_start p) (payload_rem p) (padding_rem p) st out' (gap_start p) (buffer p)).
Proof.
  intros (H1 & H2 & H3 & H4 & H5 & H6) E. unfold set_core, a_set, abs.
  constructor; cbn [a_B a_space a_parsed a_raw a_out a_req a_stream a_prem a_pad a_st]; try reflexivity.
  unfold output_buffer. cbn [output output_start]. rewrite E, drop_app_le by lia. reflexivity.
Qed.

(* the internal-buffer case: payload copied from [raw_start, raw_start+n) to gap_start (may overlap) *)
Lemma pframe_copy p n : RI p -> n <= free_start p - raw_start p ->
  pframe p (set_core p (raw_start p) (payload_rem p) (padding_rem p) (sst p) (output p) (gap_start p + n)
                     (copy_within (buffer p) (raw_start p) (raw_start p + n) (gap_start p))) n.
Proof.
  intros (H1 & H2 & H3 & H4 & H5) Hn. unfold set_core.
  constructor; cbn [buffer parsed_start gap_start raw_start free_start output output_start stream];
    try reflexivity; try lia.
  - apply len_copy_within; lia.
  - exists []. symmetry. apply app_nil_r.
  - apply (slice_eq_drop (gap_start p + (raw_start p + n - raw_start p))); [lia|].
    apply drop_copy_within; lia.
Qed.

Lemma absim_copy p n : RI p -> n <= free_start p - raw_start p ->
  absim (a_set (abs p) (a_parsed (abs p) ++ slice (raw_start p) (raw_start p + n) (buffer p)) (a_raw (abs p))
               (a_out (abs p)) (a_prem (abs p)) (a_pad (abs p)) (a_st (abs p)))
        (set_core p (raw_start p) (payload_rem p) (padding_rem p) (sst p) (output p) (gap_start p + n)
                  (copy_within (buffer p) (raw_start p) (raw_start p + n) (gap_start p))).
Proof.
  intros (H1 & H2 & H3 & H4 & H5) Hn. unfold set_core, a_set, abs.
  assert (L : len (copy_within (buffer p) (raw_start p) (raw_start p + n) (gap_start p)) = len (buffer p))
    by (apply len_copy_within; lia).
  constructor; cbn [a_B a_space a_parsed a_raw a_out a_req a_stream a_prem a_pad a_st];
    cbn [buffer free_start]; rewrite ?L; try reflexivity.
  unfold stream_buffer. cbn [buffer parsed_start gap_start].
  rewrite (slice_split (parsed_start p) (gap_start p) (gap_start p + n)) by lia. f_equal.
  - apply (slice_eq_take (gap_start p)); [lia|]. symmetry. apply take_copy_within; lia.
  - symmetry. replace (gap_start p + n) with (gap_start p + (raw_start p + n - raw_start p)) by lia.
    apply slice_copy_within; lia.
Qed.

Lemma parse_payload_sim l : RI (lp l) ->
  aparse_payload maxc (absl l) = absflow (parse_payload maxc l) /\ payload_post (lp l) (parse_payload maxc l).
Proof.
  intros HRI. rewrite parse_payload_unfold, aparse_payload_unfold.
  unfold absl. cbn [al ares acap]. set (p := lp l) in *. cbn zeta.
  pose proof HRI as (H1 & H2 & H3 & H4 & H5 & H6).
  change (a_st (abs p)) with (sst p). change (a_prem (abs p)) with (payload_rem p).
  change (a_raw (abs p)) with (raw_bytes p). rewrite (RI_len_raw p HRI).
  set (pl := N.min (payload_rem p) (free_start p - raw_start p)).
  assert (EP : take pl (raw_bytes p) = slice (raw_start p) (raw_start p + pl) (buffer p)).
  { unfold raw_bytes. apply take_slice. subst pl. lia. }
  rewrite EP.
  destruct (sst p) eqn:Est.
  - destruct (lcap l) as [c|].
    + unfold add_stream. apply pfin_sim; [exact HRI|fold pl; lia|apply pframe_refl; exact HRI|apply absim_abs].
    + unfold add_stream. rewrite app_nil_r. rewrite <- Est.
      apply pfin_sim; [exact HRI|fold pl; lia| |].
      * apply pframe_copy; [exact HRI|subst pl; lia].
      * apply absim_copy; [exact HRI|subst pl; lia].
  - apply pfin_sim; [exact HRI|fold pl; lia|apply pframe_refl; exact HRI|apply absim_abs].
  - destruct (nv_run (slice (raw_start p) (raw_start p + pl) (buffer p))) as [ps rest].
    destruct (free_start p - raw_start p <? payload_rem p).
    + apply pfin_sim; [exact HRI|fold pl; lia| |].
      * apply (pframe_core p _ _ _ []); [exact HRI|symmetry; apply app_nil_r].
      * rewrite <- (app_nil_r (a_out (abs p))).
        apply (absim_core p _ _ []); [exact HRI|symmetry; apply app_nil_r].
    + unfold add_output. apply pfin_sim; [exact HRI|fold pl; lia| |].
      * apply (pframe_core p _ _ _ (write_response (vars_of_pairs vars ps) maxc)); [exact HRI|reflexivity].
      * apply (absim_core p _ _ (write_response (vars_of_pairs vars ps) maxc)); [exact HRI|reflexivity].
Qed.

(* ---- parse_head ---- *)
Definition hgo (l : lstate) (st : sstate) (cl pl : N) (out : bytes) (added : N) : cflow :=
  let p := lp l in
  let p' := set_core p (raw_start p + HEADER_LEN) cl pl st out (gap_start p) (buffer p) in
  if negb (invars_ok p') then CPanic 31 else
  CContinue (mkL p' (mkStatus (s_stream (lres l)) (s_end (lres l)) (s_output (lres l) + added) (s_dest (lres l))) (lcap l)).

Definition ahgo (l : alstate) (st : sstate) (cl pl : N) (out : bytes) (added : N) : aflow :=
  let a := al l in
  AContinue (mkAL (a_set a (a_parsed a) (drop HEADER_LEN (a_raw a)) out cl pl st) (add_output (ares l) added) (acap l)).

Lemma parse_head_unfold l :
  parse_head l =
  let p := lp l in
  if negb (is_record_boundary p) then CPanic 30 else
  let past_head := raw_start p + HEADER_LEN in
  if free_start p <? past_head then CBreak l else
  let head := slice (raw_start p) past_head (buffer p) in
  match hdr_decode head with
  | HBadType t =>
    let id := be16 (nthN head 2) (nthN head 3) in
    hgo l SSkip (be16 (nthN head 4) (nthN head 5)) (nthN head 6) (output p ++ unk_record t id) 16
  | HBadVersion v => CErr l (EUnknownVersion v)
  | HOk t id cl pl =>
    let rid := r_id (sreq p) in
    if is_input_stream t && (id =? rid) then
      match cmp_input_streams (r_role (sreq p)) t (stream p) with
      | None => CPanic 32
      | Some Eq => if negb (cl =? 0) then hgo l SStream cl pl (output p) 0
                   else CBreak (mkL p (mkStatus (s_stream (lres l)) true (s_output (lres l)) (s_dest (lres l))) (lcap l))
      | Some Lt => hgo l SSkip cl pl (output p) 0
      | Some Gt => CBreak (mkL p (mkStatus (s_stream (lres l)) true (s_output (lres l)) (s_dest (lres l))) (lcap l))
      end
    else if (t =? RT_AbortRequest) && (id =? rid) then CErr l EAbortRequest
    else if (t =? RT_BeginRequest) && negb (id =? rid) then
      hgo l SSkip cl pl (output p ++ end_record 0 PS_CantMpxConn id) 16
    else if (t =? RT_GetValues) && hdr_is_management t id then hgo l (SValues 0) cl pl (output p) 0
    else hgo l SSkip cl pl (output p) 0
  end.
Proof. reflexivity. Qed.

Lemma aparse_head_unfold l :
  aparse_head l =
  let a := al l in
  if negb (a_boundary a) then APanic 30 else
  if len (a_raw a) <? HEADER_LEN then ABreak l else
  let head := take HEADER_LEN (a_raw a) in
  match hdr_decode head with
  | HBadType t =>
    let id := be16 (nthN head 2) (nthN head 3) in
    ahgo l SSkip (be16 (nthN head 4) (nthN head 5)) (nthN head 6) (a_out a ++ unk_record t id) 16
  | HBadVersion v => AErr l (EUnknownVersion v)
  | HOk t id cl pl =>
    let rid := r_id (a_req a) in
    if is_input_stream t && (id =? rid) then
      match cmp_input_streams (r_role (a_req a)) t (a_stream a) with
      | None => APanic 32
      | Some Eq => if negb (cl =? 0) then ahgo l SStream cl pl (a_out a) 0
                   else ABreak (mkAL a (set_end (ares l)) (acap l))
      | Some Lt => ahgo l SSkip cl pl (a_out a) 0
      | Some Gt => ABreak (mkAL a (set_end (ares l)) (acap l))
      end
    else if (t =? RT_AbortRequest) && (id =? rid) then AErr l EAbortRequest
    else if (t =? RT_BeginRequest) && negb (id =? rid) then
      ahgo l SSkip cl pl (a_out a ++ end_record 0 PS_CantMpxConn id) 16
    else if (t =? RT_GetValues) && hdr_is_management t id then ahgo l (SValues 0) cl pl (a_out a) 0
    else ahgo l SSkip cl pl (a_out a) 0
  end.
Proof. reflexivity. Qed.

(* what parse_head guarantees besides the simulation (k = bytes consumed by a continuing step) *)
Definition head_post (k : N) (p : sp) (f : cflow) : Prop :=
  match f with
  | CContinue l' => RI (lp l') /\ raw_len (lp l') + k <= raw_len p /\ stream (lp l') = stream p
  | CBreak l' | CErr l' _ => RI (lp l') /\ stream (lp l') = stream p
  | CPanic n => n = 32 /\ ~ stream_ok p
  end.

Lemma hgo_sim l st cl pl out w added :
  RI (lp l) -> HEADER_LEN <= raw_len (lp l) -> out = output (lp l) ++ w ->
  ahgo (absl l) st cl pl (a_out (abs (lp l)) ++ w) added = absflow (hgo l st cl pl out added) /\
  head_post HEADER_LEN (lp l) (hgo l st cl pl out added).
Proof.
  intros HRI Hlen E. pose proof HRI as (H1 & H2 & H3 & H4 & H5 & H6).
  unfold hgo, ahgo, raw_len in *. unfold absl at 1 2 3. cbn [al ares acap]. set (p := lp l) in *.
  set (p' := set_core p (raw_start p + HEADER_LEN) cl pl st out (gap_start p) (buffer p)).
  assert (R' : RI p').
  { subst p'. unfold RI, set_core.
    cbn [buffer parsed_start gap_start raw_start free_start output output_start].
    rewrite E. destruct (RI_output_app (output p) w (output_start p) H5 H6) as [O1 O2].
    repeat split; try lia. exact O2. }
  rewrite (RI_invars_ok p' R'). cbn [negb].
  assert (A' : abs p' = a_set (abs p) (a_parsed (abs p)) (drop HEADER_LEN (a_raw (abs p))) (a_out (abs p) ++ w) cl pl st).
  { subst p'. unfold abs, a_set, set_core, stream_buffer, raw_bytes, output_buffer.
    cbn [buffer parsed_start gap_start raw_start free_start output output_start sreq stream payload_rem padding_rem sst].
    cbn [a_B a_space a_parsed a_raw a_out a_req a_stream a_prem a_pad a_st].
    rewrite drop_slice, E, drop_app_le by lia. reflexivity. }
  unfold absflow, absl. cbn [lp lres lcap]. rewrite A'. split; [reflexivity|].
  unfold head_post. cbn [lp]. split; [exact R'|]. subst p'. unfold raw_len, set_core.
  cbn [free_start raw_start stream]. split; [lia|reflexivity].
Qed.

Lemma hgo_sim0 l st cl pl added :
  RI (lp l) -> HEADER_LEN <= raw_len (lp l) ->
  ahgo (absl l) st cl pl (a_out (abs (lp l))) added = absflow (hgo l st cl pl (output (lp l)) added) /\
  head_post HEADER_LEN (lp l) (hgo l st cl pl (output (lp l)) added).
Proof.
  intros HRI Hlen. rewrite <- (app_nil_r (a_out (abs (lp l)))).
  apply hgo_sim; [exact HRI|exact Hlen|symmetry; apply app_nil_r].
Qed.

Lemma cmp_none_not_ok role t e :
  is_input_stream t = true -> cmp_input_streams role t e = None ->
  match e with None => False | Some x => is_input_stream x <> true end.
Proof.
  intros Ht. unfold cmp_input_streams. destruct e as [x|]; [|discriminate].
  rewrite Ht. cbn [negb orb]. destruct (is_input_stream x); cbn [negb]; [|intros _; discriminate].
  destruct (t =? x); discriminate.
Qed.

Lemma parse_head_sim l : RI (lp l) ->
  aparse_head (absl l) = absflow (parse_head l) /\
  (is_record_boundary (lp l) = true -> head_post HEADER_LEN (lp l) (parse_head l)).
Proof.
  intros HRI. rewrite parse_head_unfold, aparse_head_unfold.
  pose proof (hgo_sim0 l) as G0. pose proof (hgo_sim l) as Gw.
  unfold absl in *. cbn [al ares acap] in *. unfold raw_len in *. set (p := lp l) in *. cbn zeta.
  pose proof HRI as (H1 & H2 & H3 & H4 & H5 & H6).
  change (a_boundary (abs p)) with (is_record_boundary p).
  change (a_raw (abs p)) with (raw_bytes p). change (a_req (abs p)) with (sreq p).
  change (a_stream (abs p)) with (stream p).
  destruct (is_record_boundary p); cbn [negb]; [|split; [reflexivity|discriminate]].
  rewrite (RI_len_raw p HRI).
  assert (SELF : RI p /\ stream p = stream p) by (split; [exact HRI|reflexivity]).
  destruct (N.ltb_spec (free_start p) (raw_start p + HEADER_LEN)) as [Hs|Hs];
    destruct (N.ltb_spec (free_start p - raw_start p) HEADER_LEN) as [Hs'|Hs']; try lia.
  { split; [reflexivity|intros _; exact SELF]. }
  unfold raw_bytes. rewrite take_slice by lia.
  set (head := slice (raw_start p) (raw_start p + HEADER_LEN) (buffer p)).
  destruct (hdr_decode head) as [t id cl pl|v|t].
  - destruct (is_input_stream t && (id =? r_id (sreq p))) eqn:E1.
    + destruct (cmp_input_streams (r_role (sreq p)) t (stream p)) as [[| |]|] eqn:Ec.
      * destruct (G0 SSkip cl pl 0 HRI Hs') as [Ga Gb]. split; [exact Ga|intros _; exact Gb].
      * destruct (negb (cl =? 0)).
        -- destruct (G0 SStream cl pl 0 HRI Hs') as [Ga Gb]. split; [exact Ga|intros _; exact Gb].
        -- split; [reflexivity|intros _; exact SELF].
      * split; [reflexivity|intros _; exact SELF].
      * split; [reflexivity|intros _]. split; [reflexivity|].
        apply andb_true_iff in E1 as [E1 _].
        pose proof (cmp_none_not_ok _ _ _ E1 Ec) as Hn. unfold stream_ok.
        destruct (stream p); [exact Hn|intros _; exact Hn].
    + destruct ((t =? RT_AbortRequest) && (id =? r_id (sreq p))).
      { split; [reflexivity|intros _; exact SELF]. }
      destruct ((t =? RT_BeginRequest) && negb (id =? r_id (sreq p))).
      { destruct (Gw SSkip cl pl _ (end_record 0 PS_CantMpxConn id) 16 HRI Hs' eq_refl) as [Ga Gb].
        split; [exact Ga|intros _; exact Gb]. }
      destruct ((t =? RT_GetValues) && hdr_is_management t id).
      { destruct (G0 (SValues 0) cl pl 0 HRI Hs') as [Ga Gb]. split; [exact Ga|intros _; exact Gb]. }
      destruct (G0 SSkip cl pl 0 HRI Hs') as [Ga Gb]. split; [exact Ga|intros _; exact Gb].
  - split; [reflexivity|intros _; exact SELF].
  - destruct (Gw SSkip (be16 (nthN head 4) (nthN head 5)) (nthN head 6) _
                 (unk_record t (be16 (nthN head 2) (nthN head 3))) 16 HRI Hs' eq_refl) as [Ga Gb].
    split; [exact Ga|intros _; exact Gb].
Qed.

(* ---- parse_iter ---- *)
Definition after_pl (l : lstate) : cflow :=
  let p := lp l in
  if 0 <? padding_rem p then
    if negb (payload_rem p =? 0) then CPanic 40 else
    let raw_len := free_start p - raw_start p in
    if raw_len <=? padding_rem p then
      CBreak (mkL (set_core p (free_start p) (payload_rem p) (padding_rem p - raw_len) (sst p) (output p) (gap_start p) (buffer p))
                  (lres l) (lcap l))
    else
      parse_head (mkL (set_core p (raw_start p + padding_rem p) (payload_rem p) 0 (sst p) (output p) (gap_start p) (buffer p))
                      (lres l) (lcap l))
  else parse_head l.

Definition aafter_pl (l : alstate) : aflow :=
  let a := al l in
  if 0 <? a_pad a then
    if negb (a_prem a =? 0) then APanic 40 else
    let raw_len := len (a_raw a) in
    if raw_len <=? a_pad a then
      ABreak (mkAL (a_set a (a_parsed a) [] (a_out a) (a_prem a) (a_pad a - raw_len) (a_st a)) (ares l) (acap l))
    else
      aparse_head (mkAL (a_set a (a_parsed a) (drop (a_pad a) (a_raw a)) (a_out a) (a_prem a) 0 (a_st a)) (ares l) (acap l))
  else aparse_head l.

Lemma parse_iter_unfold l :
  parse_iter maxc l =
  if 0 <? payload_rem (lp l) then
    match parse_payload maxc l with
    | CContinue l' => after_pl l'
    | x => x
    end
  else after_pl l.
Proof. reflexivity. Qed.

Lemma aparse_iter_unfold l :
  aparse_iter maxc l =
  if 0 <? a_prem (al l) then
    match aparse_payload maxc l with
    | AContinue l' => aafter_pl l'
    | x => x
    end
  else aafter_pl l.
Proof. reflexivity. Qed.

Lemma stream_ok_eq p p' : stream p' = stream p -> stream_ok p' <-> stream_ok p.
Proof. unfold stream_ok. intros ->. reflexivity. Qed.

Lemma head_post_trans k p p2 f :
  raw_len p2 <= raw_len p -> stream p2 = stream p -> head_post k p2 f -> head_post k p f.
Proof.
  intros Hl Hs. unfold head_post. destruct f as [l'|l'|l' e|n].
  - intros (A & B & C). split; [exact A|]. split; [lia|congruence].
  - intros (A & C). split; [exact A|congruence].
  - intros (A & C). split; [exact A|congruence].
  - intros (A & C). split; [exact A|]. intros D. apply C. apply (stream_ok_eq p p2 Hs). exact D.
Qed.

Lemma after_pl_sim l : RI (lp l) ->
  aafter_pl (absl l) = absflow (after_pl l) /\
  (payload_rem (lp l) = 0 -> head_post HEADER_LEN (lp l) (after_pl l)).
Proof.
  intros HRI. unfold after_pl, aafter_pl. unfold absl. cbn [al ares acap].
  set (p := lp l) in *. cbn zeta.
  pose proof HRI as (H1 & H2 & H3 & H4 & H5 & H6).
  change (a_pad (abs p)) with (padding_rem p). change (a_prem (abs p)) with (payload_rem p).
  change (a_raw (abs p)) with (raw_bytes p). change (a_st (abs p)) with (sst p).
  rewrite (RI_len_raw p HRI).
  destruct (N.ltb_spec 0 (padding_rem p)) as [Hp|Hp].
  - destruct (N.eqb_spec (payload_rem p) 0) as [Hz|Hz]; cbn [negb];
      [|split; [reflexivity|intros E; exfalso; exact (Hz E)]].
    destruct (N.leb_spec (free_start p - raw_start p) (padding_rem p)) as [Hr|Hr].
    + set (p' := set_core p (free_start p) (payload_rem p) (padding_rem p - (free_start p - raw_start p))
                          (sst p) (output p) (gap_start p) (buffer p)).
      assert (R' : RI p').
      { subst p'. unfold RI, set_core.
        cbn [buffer parsed_start gap_start raw_start free_start output output_start]. repeat split; try lia. exact H6. }
      assert (A' : abs p' = a_set (abs p) (a_parsed (abs p)) [] (a_out (abs p)) (payload_rem p)
                                  (padding_rem p - (free_start p - raw_start p)) (sst p)).
      { subst p'. unfold abs, a_set, set_core, stream_buffer, raw_bytes, output_buffer.
        cbn [buffer parsed_start gap_start raw_start free_start output output_start sreq stream payload_rem padding_rem sst].
        cbn [a_B a_space a_parsed a_raw a_out a_req a_stream a_prem a_pad a_st].
        rewrite (slice_nil (free_start p) (free_start p)) by lia. reflexivity. }
      unfold absflow, absl. cbn [lp lres lcap]. rewrite A'. split; [reflexivity|].
      intros _. unfold head_post. cbn [lp]. split; [exact R'|reflexivity].
    + set (p2 := set_core p (raw_start p + padding_rem p) (payload_rem p) 0 (sst p) (output p) (gap_start p) (buffer p)).
      assert (R2 : RI p2).
      { subst p2. unfold RI, set_core.
        cbn [buffer parsed_start gap_start raw_start free_start output output_start]. repeat split; try lia. exact H6. }
      assert (A2 : a_set (abs p) (a_parsed (abs p)) (drop (padding_rem p) (raw_bytes p)) (a_out (abs p)) (payload_rem p) 0 (sst p)
                   = abs p2).
      { subst p2. unfold abs, a_set, set_core, stream_buffer, raw_bytes, output_buffer.
        cbn [buffer parsed_start gap_start raw_start free_start output output_start sreq stream payload_rem padding_rem sst].
        cbn [a_B a_space a_parsed a_raw a_out a_req a_stream a_prem a_pad a_st].
        rewrite drop_slice. reflexivity. }
      rewrite A2.
      destruct (parse_head_sim (mkL p2 (lres l) (lcap l)) R2) as [Ga Gb].
      unfold absl at 1 in Ga. cbn [lp lres lcap] in Ga, Gb. split; [exact Ga|].
      intros _. apply (head_post_trans _ p p2).
      * subst p2. unfold raw_len, set_core. cbn [free_start raw_start]. lia.
      * reflexivity.
      * apply Gb. subst p2. unfold is_record_boundary, set_core. cbn [payload_rem padding_rem]. rewrite Hz. reflexivity.
  - destruct (parse_head_sim l HRI) as [Ga Gb]. fold p in Ga, Gb. unfold absl in Ga. split; [exact Ga|].
    intros Hz. apply Gb. unfold is_record_boundary. rewrite Hz. replace (padding_rem p) with 0 by lia. reflexivity.
Qed.

Lemma parse_iter_sim l : RI (lp l) ->
  aparse_iter maxc (absl l) = absflow (parse_iter maxc l) /\ head_post HEADER_LEN (lp l) (parse_iter maxc l).
Proof.
  intros HRI. rewrite parse_iter_unfold, aparse_iter_unfold.
  change (a_prem (al (absl l))) with (payload_rem (lp l)).
  destruct (N.ltb_spec 0 (payload_rem (lp l))) as [Hp|Hp].
  - destruct (parse_payload_sim l HRI) as [Ga Gb]. rewrite Ga.
    destruct (parse_payload maxc l) as [l'|l'|l' e|n]; unfold payload_post in Gb; cbn [absflow].
    + destruct Gb as (R' & L' & S' & Z').
      destruct (after_pl_sim l' R') as [Ha Hb]. split; [exact Ha|].
      apply (head_post_trans _ (lp l) (lp l')); [exact L'|exact S'|apply Hb; exact Z'].
    + split; [reflexivity|exact Gb].
    + contradiction.
    + contradiction.
  - destruct (after_pl_sim l HRI) as [Ha Hb]. split; [exact Ha|apply Hb; lia].
Qed.

(* ---- the loop ---- *)
Definition loop_post (fuel : nat) (p : sp) (f : cflow) : Prop :=
  match f with
  | CContinue _ => False
  | CBreak l' | CErr l' _ => RI (lp l') /\ stream (lp l') = stream p
  | CPanic n => (n = 32 /\ ~ stream_ok p) \/ (n = 99 /\ N.of_nat fuel <= raw_len p)
  end.

Lemma parse_loop_sim fuel : forall l, RI (lp l) ->
  aparse_loop maxc fuel (absl l) = absflow (parse_loop maxc fuel l) /\
  loop_post fuel (lp l) (parse_loop maxc fuel l).
Proof.
  induction fuel as [|f IH]; intros l HRI.
  - cbn [aparse_loop parse_loop absflow loop_post]. split; [reflexivity|]. right. split; [reflexivity|lia].
  - cbn [aparse_loop parse_loop]. change (a_raw (al (absl l))) with (raw_bytes (lp l)).
    pose proof (RI_len_raw (lp l) HRI) as EL.
    destruct (N.ltb_spec (raw_start (lp l)) (free_start (lp l))) as [Hlt|Hge].
    + destruct (raw_bytes (lp l)) as [|x tl] eqn:Er; [rewrite len_nil in EL; lia|].
      destruct (parse_iter_sim l HRI) as [Ga Gb]. rewrite Ga.
      destruct (parse_iter maxc l) as [l'|l'|l' e|n]; unfold head_post in Gb; cbn [absflow].
      * destruct Gb as (R' & L' & S'). destruct (IH l' R') as [Ha Hb]. split; [exact Ha|].
        rewrite HEADER_LEN_val in L'. unfold loop_post in *.
        destruct (parse_loop maxc f l') as [l''|l''|l'' e|n]; try exact Hb.
        -- split; [apply Hb|]. rewrite <- S'. apply Hb.
        -- split; [apply Hb|]. rewrite <- S'. apply Hb.
        -- destruct Hb as [(Hn & Hs)|(Hn & Hf)].
           ++ left. split; [exact Hn|]. intros D. apply Hs. apply (stream_ok_eq (lp l) (lp l') S'). exact D.
           ++ right. split; [exact Hn|]. lia.
      * split; [reflexivity|exact Gb].
      * split; [reflexivity|exact Gb].
      * split; [reflexivity|]. left. exact Gb.
    + destruct (raw_bytes (lp l)) as [|x tl] eqn:Er; [|rewrite len_cons in EL; lia].
      split; [reflexivity|]. cbn [loop_post]. split; [exact HRI|reflexivity].
Qed.
End Sim.

(* ------------------------------------------------------------------------------------------ *)
(* Part 3: Parser::parse                                                                        *)
(* ------------------------------------------------------------------------------------------ *)

Definition absres (r : spres) : ares_t :=
  match r with
  | StOk p s => AOk (abs p) s
  | StErr p e s => AFail (abs p) e s
  | StPanic n => APanicked n
  end.

(* which outcomes are possible: the only reachable panic sites are the two caller-contract asserts
   (1: dest given while the stream buffer is non-empty; 2: more bytes than input_buffer() holds) and
   the cmp_input_streams debug_assert (32), the latter only if the active stream is not an input stream *)
Definition sparse_post (p : sp) (new : bytes) (dest : option N) (r : spres) : Prop :=
  match r with
  | StOk p' _ | StErr p' _ _ => RI p' /\ stream p' = stream p
  | StPanic n => (n = 1 /\ dest <> None /\ stream_buffer p <> []) \/
                 (n = 2 /\ sinput_space p < len new) \/
                 (n = 32 /\ ~ stream_ok p)
  end.

Lemma feed_RI p new : RI p -> len new <= len (buffer p) - free_start p ->
  RI (upd_idx p (write_at (buffer p) (free_start p) new) (parsed_start p) (gap_start p) (raw_start p)
              (free_start p + len new)).
Proof.
  intros HRI Hn. pose proof HRI as (H1 & H2 & H3 & H4 & H5).
  apply RI_upd_idx; try lia; [|exact HRI]. rewrite len_write_at; lia.
Qed.

Lemma feed_abs p new : RI p -> len new <= len (buffer p) - free_start p ->
  abs (upd_idx p (write_at (buffer p) (free_start p) new) (parsed_start p) (gap_start p) (raw_start p)
               (free_start p + len new)) =
  mkA (a_B (abs p)) (a_space (abs p) - len new) (a_parsed (abs p)) (a_raw (abs p) ++ new) (a_out (abs p))
      (a_req (abs p)) (a_stream (abs p)) (a_prem (abs p)) (a_pad (abs p)) (a_st (abs p)).
Proof.
  intros HRI Hn. pose proof HRI as (H1 & H2 & H3 & H4 & H5).
  rewrite abs_upd_idx. unfold abs. cbn [a_B a_space a_parsed a_raw a_out a_req a_stream a_prem a_pad a_st].
  assert (T : take (free_start p) (write_at (buffer p) (free_start p) new) = take (free_start p) (buffer p))
    by (apply take_write_at; lia).
  rewrite len_write_at by lia. f_equal.
  - lia.
  - unfold stream_buffer. apply (slice_eq_take (free_start p)); [lia|exact T].
  - unfold raw_bytes. rewrite (slice_split (raw_start p) (free_start p) (free_start p + len new)) by lia. f_equal.
    + apply (slice_eq_take (free_start p)); [lia|exact T].
    + apply slice_write_at. lia.
Qed.

(* item 5 *)
Theorem sparse_refines maxc p new dest : RI p ->
  aparse maxc (abs p) new dest = absres (sparse maxc p new dest) /\
  sparse_post p new dest (sparse maxc p new dest).
Proof.
  intros HRI. pose proof HRI as (H1 & H2 & H3 & H4 & H5 & H6).
  unfold sparse, aparse.
  assert (C1 : (match dest with Some _ => negb (len (a_parsed (abs p)) =? 0) | None => false end)
             = (match dest with Some _ => negb (parsed_start p =? gap_start p) | None => false end)).
  { destruct dest as [c|]; [|reflexivity]. change (a_parsed (abs p)) with (stream_buffer p).
    rewrite (RI_len_parsed p HRI). f_equal. lia. }
  rewrite C1. clear C1.
  destruct (match dest with Some _ => negb (parsed_start p =? gap_start p) | None => false end) eqn:E1.
  { split; [reflexivity|]. left. split; [reflexivity|]. destruct dest as [c|]; [|discriminate].
    split; [discriminate|]. intros Hnil. pose proof (RI_len_parsed p HRI) as L. rewrite Hnil, len_nil in L. lia. }
  change (a_space (abs p)) with (len (buffer p) - free_start p).
  destruct (N.ltb_spec (len (buffer p) - free_start p) (len new)) as [Hn|Hn].
  { split; [reflexivity|]. right. left. split; [reflexivity|exact Hn]. }
  set (p1 := upd_idx p (write_at (buffer p) (free_start p) new) (parsed_start p) (gap_start p) (raw_start p)
                     (free_start p + len new)).
  pose proof (feed_RI p new HRI Hn) as R1. pose proof (feed_abs p new HRI Hn) as A1. fold p1 in R1, A1.
  change (len (buffer p) - free_start p - len new) with (a_space (abs p) - len new).
  rewrite <- A1. change (a_stream (abs p)) with (stream p).
  set (res0 := mkStatus 0 (match stream p with None => true | Some _ => false end) 0 []).
  replace (2 * N.to_nat (a_B (abs p)) + 8)%nat with (2 * length (buffer p) + 8)%nat
    by (change (a_B (abs p)) with (len (buffer p)); unfold len; lia).
  destruct (parse_loop_sim maxc (2 * length (buffer p) + 8) (mkL p1 res0 dest) R1) as [Ga Gb].
  unfold absl in Ga. cbn [lp lres lcap] in Ga, Gb. rewrite Ga.
  assert (S1 : stream p1 = stream p) by reflexivity.
  destruct (parse_loop maxc (2 * length (buffer p) + 8) (mkL p1 res0 dest)) as [l'|l'|l' e|n];
    unfold loop_post in Gb; cbn [absflow].
  - contradiction.
  - destruct Gb as [R' S']. rewrite (RI_invars_ok (lp l') R'). split; [reflexivity|].
    split; [exact R'|congruence].
  - destruct Gb as [R' S']. split; [reflexivity|]. split; [exact R'|congruence].
  - split; [reflexivity|]. destruct Gb as [(Hn' & Hs)|(Hn' & Hf)].
    + right. right. split; [exact Hn'|]. intros D. apply Hs. apply (stream_ok_eq p p1 S1). exact D.
    + exfalso. unfold raw_len in Hf. subst p1. unfold upd_idx in Hf. cbn [free_start raw_start] in Hf.
      unfold len in *. lia.
Qed.

(* item 5, in the matching form: same outcome class, related states, identical Status *)
Corollary sparse_refines_match maxc p new dest : RI p ->
  match sparse maxc p new dest, aparse maxc (abs p) new dest with
  | StOk p' s, AOk a' s' => RI p' /\ abs p' = a' /\ s = s'
  | StErr p' e s, AFail a' e' s' => RI p' /\ abs p' = a' /\ e = e' /\ s = s'
  | StPanic n, APanicked m => n = m
  | _, _ => False
  end.
Proof.
  intros HRI. destruct (sparse_refines maxc p new dest HRI) as [Ga Gb]. rewrite Ga.
  destruct (sparse maxc p new dest) as [p' s|p' e s|n]; cbn [absres sparse_post] in *.
  - split; [apply Gb|]. split; reflexivity.
  - split; [apply Gb|]. repeat split; reflexivity.
  - reflexivity.
Qed.

(* the panic sites of Parser::parse: 3/20/21/31 (debug_assert_invars!), 30/40 (debug_assert! on the record
   position) and 99 (model fuel) are unreachable from any state satisfying RI, whatever the input *)
Corollary sparse_panic_sites maxc p new dest n : RI p ->
  sparse maxc p new dest = StPanic n -> n = 1 \/ n = 2 \/ n = 32.
Proof.
  intros HRI E. destruct (sparse_refines maxc p new dest HRI) as [_ Gb]. rewrite E in Gb.
  cbn [sparse_post] in Gb. destruct Gb as [(A & _)|[(A & _)|(A & _)]]; auto.
Qed.

Corollary sparse_invars_never_fail maxc p new dest n : RI p ->
  In n [3; 20; 21; 30; 31; 40; 99] -> sparse maxc p new dest <> StPanic n.
Proof.
  intros HRI Hin E. pose proof (sparse_panic_sites maxc p new dest n HRI E) as Hn.
  cbn [In] in Hin. lia.
Qed.

(* a call that respects the caller contract never panics, except through the cmp_input_streams
   debug_assert when the active stream is not an input-stream type *)
Corollary sparse_legal_no_panic maxc p new dest n : RI p ->
  len new <= sinput_space p -> (dest <> None -> stream_buffer p = []) ->
  sparse maxc p new dest = StPanic n -> n = 32 /\ ~ stream_ok p.
Proof.
  intros HRI Hn Hd E. destruct (sparse_refines maxc p new dest HRI) as [_ Gb]. rewrite E in Gb.
  cbn [sparse_post] in Gb. destruct Gb as [(A & B & C)|[(A & B)|(A & B)]].
  - exfalso. apply C. apply Hd. exact B.
  - exfalso. lia.
  - split; assumption.
Qed.

Corollary sparse_no_panic maxc p new dest : RI p -> stream_ok p ->
  len new <= sinput_space p -> (dest <> None -> stream_buffer p = []) ->
  forall n, sparse maxc p new dest <> StPanic n.
Proof.
  intros HRI Hok Hn Hd n E. destruct (sparse_legal_no_panic maxc p new dest n HRI Hn Hd E) as [_ C].
  exact (C Hok).
Qed.

(* if the caller contract is violated both machines panic (at the same site) *)
Corollary sparse_contract_panic maxc p new dest : RI p ->
  (sinput_space p < len new \/ (dest <> None /\ stream_buffer p <> [])) ->
  exists n, sparse maxc p new dest = StPanic n /\ aparse maxc (abs p) new dest = APanicked n /\ (n = 1 \/ n = 2).
Proof.
  intros HRI Hv. destruct (sparse_refines maxc p new dest HRI) as [Ga _]. rewrite Ga. clear Ga.
  unfold sparse.
  destruct (match dest with Some _ => negb (parsed_start p =? gap_start p) | None => false end) eqn:E1.
  { exists 1. repeat split. left; reflexivity. }
  unfold sinput_space in Hv.
  destruct (N.ltb_spec (len (buffer p) - free_start p) (len new)) as [Hn|Hn].
  { exists 2. repeat split. right; reflexivity. }
  exfalso. destruct Hv as [Hv|[Hd Hs]]; [lia|]. destruct dest as [c|]; [|apply Hd; reflexivity].
  apply Hs. apply len_zero_nil. rewrite (RI_len_parsed p HRI).
  destruct (N.eqb_spec (parsed_start p) (gap_start p)) as [Heq|Hne]; [lia|discriminate].
Qed.

(* ------------------------------------------------------------------------------------------ *)
(* Part 4: set_stream, into_input, into_request_parser, initial states                          *)
(* ------------------------------------------------------------------------------------------ *)

(* item 4 *)
Theorem set_stream_refines p s : RI p ->
  match set_stream p s, aset_stream (abs p) s with
  | SetOk p', ASetOk a' => RI p' /\ abs p' = a'
  | SetErr, ASetErr => True
  | SetPanic, ASetPanic => True
  | _, _ => False
  end.
Proof.
  intros HRI. unfold set_stream, aset_stream.
  change (a_req (abs p)) with (sreq p). change (a_stream (abs p)) with (stream p).
  change (match s with
          | Some x => match cmp_input_streams (r_role (sreq p)) x (stream p) with
                      | None => None | Some Lt => Some false | Some _ => Some true end
          | None => Some true end) with (accepts (r_role (sreq p)) (stream p) s).
  destruct (accepts (r_role (sreq p)) (stream p) s) as [[|]|]; [|exact I|exact I].
  destruct (optN_eqb s (stream p)); [split; [exact HRI|reflexivity]|].
  set (st' := match sst p with SStream => SSkip | x => x end).
  set (p1 := mkSp (buffer p) (parsed_start p) (gap_start p) (raw_start p) (free_start p) (output p)
                  (output_start p) (sreq p) (stream p) (payload_rem p) (padding_rem p) st').
  assert (R1 : RI p1) by exact HRI.
  pose proof (discard_stream_RI p1 R1) as R2. pose proof (discard_stream_abs p1 R1) as A2.
  set (p2 := discard_stream p1) in *.
  split; [exact R2|].
  change (abs (mkSp (buffer p2) (parsed_start p2) (gap_start p2) (raw_start p2) (free_start p2) (output p2)
                    (output_start p2) (sreq p2) s (payload_rem p2) (padding_rem p2) (sst p2)))
    with (mkA (a_B (abs p2)) (a_space (abs p2)) (a_parsed (abs p2)) (a_raw (abs p2)) (a_out (abs p2))
              (a_req (abs p2)) s (a_prem (abs p2)) (a_pad (abs p2)) (a_st (abs p2))).
  rewrite A2. reflexivity.
Qed.

(* item 6 *)
Lemma discard_take_raw p : RI p ->
  take (free_start (discard_stream p)) (buffer (discard_stream p)) = raw_bytes p.
Proof.
  intros HRI. pose proof (discard_stream_abs p HRI) as A. apply (f_equal a_raw) in A.
  cbn [abs adiscard a_raw] in A. rewrite <- A. unfold raw_bytes.
  destruct (discard_stream_fields p) as (_ & _ & _ & _ & _ & _ & _ & _ & _ & E). rewrite E. symmetry. apply slice_0.
Qed.

Theorem into_input_refines p : RI p -> into_input p = ainto_input (abs p).
Proof.
  intros HRI. unfold into_input, ainto_input. change (a_boundary (abs p)) with (is_record_boundary p).
  destruct (is_record_boundary p); [|reflexivity]. cbn zeta. rewrite (discard_take_raw p HRI). reflexivity.
Qed.

Definition absconv (c : conv_res) : aconv_res :=
  match c with ConvOk rp => AConvOk rp | ConvInterrupted => AConvInterrupted | ConvPanic => AConvPanic end.

Theorem into_request_parser_refines p : RI p ->
  ainto_request_parser (abs p) = absconv (into_request_parser p).
Proof.
  intros HRI. pose proof HRI as (H1 & H2 & H3 & H4 & H5 & H6).
  unfold into_request_parser, ainto_request_parser. change (a_boundary (abs p)) with (is_record_boundary p).
  destruct (is_record_boundary p); cbn [negb]; [|reflexivity].
  change (a_out (abs p)) with (output_buffer p). rewrite (RI_len_out p HRI).
  destruct (N.eqb_spec (len (output p)) 0) as [Hz|Hz]; cbn [negb].
  - rewrite Hz. cbn [absconv]. rewrite (discard_take_raw p HRI).
    pose proof (discard_stream_abs p HRI) as A. apply (f_equal a_B) in A. cbn [abs adiscard a_B] in A.
    rewrite A. reflexivity.
  - destruct (N.eqb_spec (len (output p) - output_start p) 0) as [Hy|Hy]; [|reflexivity].
    exfalso. apply Hz. rewrite H6 by lia. reflexivity.
Qed.

Corollary into_request_parser_ok p : RI p -> is_record_boundary p = true -> output_buffer p = [] ->
  exists rp, into_request_parser p = ConvOk rp /\
             held rp = a_raw (abs p) /\ cap rp = a_B (abs p) /\ st rp = Header.
Proof.
  intros HRI Hb Ho. pose proof (into_request_parser_refines p HRI) as E.
  unfold ainto_request_parser in E. change (a_boundary (abs p)) with (is_record_boundary p) in E.
  change (a_out (abs p)) with (output_buffer p) in E. rewrite Hb, Ho in E. cbn [negb] in E.
  change (len (@nil N) =? 0) with true in E. cbn [negb] in E.
  destruct (into_request_parser p) as [rp| |]; cbn [absconv] in E; try discriminate.
  exists rp. split; [reflexivity|]. injection E as E. subst rp. repeat split.
Qed.

(* item 7: the initial states *)
Theorem into_stream_parser_init rp r : st rp = Done r -> len (held rp) <= cap rp ->
  exists p0, into_stream_parser rp = inl p0 /\ RI p0 /\
             abs p0 = mkA (cap rp) (cap rp - len (held rp)) [] (held rp) [] r
                          (next_input_stream (r_role r) None) 0 0 SSkip.
Proof.
  intros Hst Hl. unfold into_stream_parser. rewrite Hst. eexists. split; [reflexivity|].
  assert (L : len (held rp ++ zeros (cap rp - len (held rp))) = cap rp)
    by (rewrite len_app, len_zeros; lia).
  split.
  - unfold RI. cbn [buffer parsed_start gap_start raw_start free_start output output_start].
    rewrite L. repeat split; try lia; apply N.le_0_l.
  - unfold abs, stream_buffer, raw_bytes, output_buffer.
    cbn [buffer parsed_start gap_start raw_start free_start output output_start sreq stream payload_rem padding_rem sst].
    rewrite L. f_equal. rewrite slice_0. apply take_len_app.
Qed.

Theorem new_sparser_init bs r :
  RI (new_sparser bs r) /\
  abs (new_sparser bs r) = mkA (aligned_bufsize bs) (aligned_bufsize bs) [] [] [] r
                               (next_input_stream (r_role r) None) 0 0 SSkip.
Proof.
  unfold new_sparser. split.
  - unfold RI. cbn [buffer parsed_start gap_start raw_start free_start output output_start].
    repeat split; try lia; apply N.le_0_l.
  - unfold abs, stream_buffer, raw_bytes, output_buffer.
    cbn [buffer parsed_start gap_start raw_start free_start output output_start sreq stream payload_rem padding_rem sst].
    rewrite len_zeros. f_equal. lia.
Qed.

Lemma init_stream_ok_check :
  forallb (fun role => match next_input_stream role None with None => true | Some e => is_input_stream e end)
          ROLE_VALUES = true.
Proof. vm_compute. reflexivity. Qed.

Lemma init_stream_ok role : In role ROLE_VALUES ->
  match next_input_stream role None with None => True | Some e => is_input_stream e = true end.
Proof.
  intros H. pose proof init_stream_ok_check as C. rewrite forallb_forall in C. specialize (C role H).
  destruct (next_input_stream role None); [exact C|exact I].
Qed.

(* the initial states satisfy stream_ok for every role of the protocol, and parse keeps [stream] *)
Lemma new_sparser_stream_ok bs r : In (r_role r) ROLE_VALUES -> stream_ok (new_sparser bs r).
Proof. intros H. unfold stream_ok, new_sparser. cbn [stream]. apply init_stream_ok. exact H. Qed.

Lemma sparse_stream_ok maxc p new dest : RI p -> stream_ok p ->
  match sparse maxc p new dest with
  | StOk p' _ | StErr p' _ _ => stream_ok p'
  | StPanic _ => True
  end.
Proof.
  intros HRI Hok. destruct (sparse_refines maxc p new dest HRI) as [_ Gb].
  destruct (sparse maxc p new dest) as [p' s|p' e s|n]; cbn [sparse_post] in Gb; [| |exact I];
    destruct Gb as [_ S]; apply (stream_ok_eq p p' S); exact Hok.
Qed.

(* site 32 is genuinely reachable from an RI state whose active stream is NOT an input-stream type
   (here: stream = Some 1 = BeginRequest, fed a Stdin header of the request's id): both machines panic at 32.
   Such a state cannot be produced through the crate's API (set_stream takes Option<Stream>, and
   into_stream_parser / new start at the role's first input stream, see [init_stream_ok]). *)
Example site32_reachable :
  let p := mkSp (zeros 16) 0 0 0 0 [] 0 (mkReq 1 1 0 []) (Some 1) 0 0 SSkip in
  RI p /\ ~ stream_ok p /\
  sparse 10 p [1; 5; 0; 1; 0; 0; 0; 0] None = StPanic 32 /\
  aparse 10 (abs p) [1; 5; 0; 1; 0; 0; 0; 0] None = APanicked 32.
Proof.
  cbn zeta. split; [|split; [|split]].
  - unfold RI. cbn [buffer parsed_start gap_start raw_start free_start output output_start].
    repeat split; try lia; apply N.le_0_l.
  - unfold stream_ok. cbn [stream]. vm_compute. discriminate.
  - vm_compute. reflexivity.
  - vm_compute. reflexivity.
Qed.

Print Assumptions compress_RI.
Print Assumptions compress_abs.
Print Assumptions consume_stream_RI.
Print Assumptions consume_stream_abs.
Print Assumptions consume_output_RI.
Print Assumptions consume_output_abs.
Print Assumptions set_stream_refines.
Print Assumptions sparse_refines.
Print Assumptions sparse_refines_match.
Print Assumptions sparse_panic_sites.
Print Assumptions sparse_invars_never_fail.
Print Assumptions sparse_legal_no_panic.
Print Assumptions sparse_no_panic.
Print Assumptions sparse_contract_panic.
Print Assumptions into_input_refines.
Print Assumptions into_request_parser_refines.
Print Assumptions into_request_parser_ok.
Print Assumptions into_stream_parser_init.
Print Assumptions new_sparser_init.
Print Assumptions sparse_stream_ok.
