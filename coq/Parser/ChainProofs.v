(* Parser/ChainProofs.v — the k-request conversion chain (Parser/ChainTargets.v) from the stream phase law:
   request parser -> stream parser -> request parser -> ... over one buffer.
     chain_of_phase    : stream_phase_stmt maxc -> chain_stmt norm maxc
     chain_separately  : chain_separately_stmt norm maxc
   The composition: a reused request parser holding leftover L behaves like a fresh parser fed L first
   (run_schedule_leftover); the unread records of the previous request are idle junk of the next preamble
   (junk_preamble), so C01 (F_preamble_exact) applies at every stage; the stream phase law says where the
   stream parser stands at the hand-off; C05 (into_request_parser_ok) hands the unparsed bytes back. *)
From Coq Require Import ZArith.
From FV Require Import Base.Bytes Base.BytesLemmas Gen.Generated Codec.Varint Codec.NV Codec.Header Codec.Bodies Codec.Vars
  Parser.ReqModel Parser.ReqWire Parser.ReqTargets Parser.ReqDrive Parser.ReqRecords Parser.ReqFinal
  Parser.StreamModel Parser.AbsStream Parser.StreamRefine Parser.StreamSpec Parser.StreamFinal
  Parser.ChainTargets Async.LoopTargets Async.LoopProofs.
From Coq Require Import ZifyBool ZifyNat ZifyN.
Ltac Zify.zify_post_hook ::= Z.div_mod_to_equations.

Section CP.
Variable norm : bytes -> bytes.
Variable maxc : N.

(* ------------------------------------------------------------------------------------------ *)
(* Part 0: read schedules of a parser that holds leftover                                      *)
(* ------------------------------------------------------------------------------------------ *)

Lemma parse_cap p new p' d o : parse norm maxc p new = POk p' d o -> cap p' = cap p.
Proof.
  unfold parse. destruct (cap p - len (held p) <? len new); [discriminate|].
  destruct (drive_all norm maxc (st p) (held p ++ new)) as [rest s' out| |]; try discriminate.
  destruct (len (held p ++ new) <? len rest); [discriminate|].
  destruct (negb (is_final s') && (len rest =? cap p)); intros E; injection E as <- _ _; reflexivity.
Qed.

Lemma run_sched_cap : forall f p wire sched out p' d u o,
  run_sched norm maxc f p wire sched out = SOk p' d u o -> cap p' = cap p.
Proof.
  induction f as [|f IH]; intros p wire sched out p' d u o E; [discriminate E|].
  destruct sched as [|c l].
  - rewrite rs_nil in E. destruct (N.min (input_space p) (len wire) =? 0).
    + injection E as <- _ _ _. reflexivity.
    + destruct (parse norm maxc p (take (N.min (input_space p) (len wire)) wire)) as [p1 d1 o1|k] eqn:EP; [|discriminate E].
      pose proof (parse_cap _ _ _ _ _ EP) as Hc.
      destruct d1; [injection E as <- _ _ _; exact Hc|]. rewrite <- Hc. exact (IH _ _ _ _ _ _ _ _ E).
  - rewrite rs_cons in E.
    destruct (parse norm maxc p (take (N.min c (N.min (input_space p) (len wire))) wire)) as [p1 d1 o1|k] eqn:EP; [|discriminate E].
    pose proof (parse_cap _ _ _ _ _ EP) as Hc.
    destruct d1; [injection E as <- _ _ _; exact Hc|]. rewrite <- Hc. exact (IH _ _ _ _ _ _ _ _ E).
Qed.

(* a parser holding L, first call with chunk size c  =  a fresh parser fed L plus that chunk first *)
Lemma run_schedule_leftover B L W c sched : len L <= aligned_bufsize B ->
  run_schedule norm maxc (mkParser (aligned_bufsize B) L Header) W (c :: sched) =
  run_schedule norm maxc (new_parser B) (L ++ W)
    ((len L + N.min c (N.min (aligned_bufsize B - len L) (len W))) :: sched).
Proof.
  intros HL. unfold run_schedule.
  set (n := N.min c (N.min (aligned_bufsize B - len L) (len W))).
  set (f1 := (length (L ++ W) + length sched + 4)%nat).
  rewrite (run_sched_fuel norm maxc _ (S f1)) by (unfold sched_fuel, f1; rewrite ?app_length; cbn [length]; lia).
  rewrite (run_sched_fuel norm maxc (sched_fuel (L ++ W) _) (S f1)) by (unfold sched_fuel, f1; cbn [length]; lia).
  rewrite !rs_cons. unfold new_parser, input_space. cbn [cap held]. rewrite len_nil, len_app. fold n.
  assert (Hn : N.min (len L + n) (N.min (aligned_bufsize B - 0) (len L + len W)) = len L + n) by (unfold n; lia).
  rewrite Hn.
  rewrite (take_app_ge (len L + n) L W) by lia. rewrite (drop_app_ge (len L + n) L W) by lia.
  replace (len L + n - len L) with n by lia.
  rewrite (parse_leftover norm maxc (aligned_bufsize B) L Header (take n W) HL). reflexivity.
Qed.

(* ------------------------------------------------------------------------------------------ *)
(* Part 1: well-formedness of the client's bytes                                                *)
(* ------------------------------------------------------------------------------------------ *)

(* what may remain unread of a request when the caller hands the connection back *)
Definition jrest (capacity : N) (r : rcd) : Prop := rcd_ok r /\ rt r <> RT_BeginRequest /\ gv_fits capacity r.

(* the next preamble with those records in front of it *)
Definition with_junk (junk : list rcd) (w : preamble) : preamble :=
  mkPreamble (junk ++ w_idle w) (w_id w) (w_role w) (w_flags w) (w_beginpad w) (w_pieces w) (w_endjunk w) (w_endpad w).

Lemma with_junk_rcds junk w : preamble_rcds (with_junk junk w) = junk ++ preamble_rcds w.
Proof. unfold preamble_rcds, with_junk. cbn [w_idle w_id w_role w_flags w_beginpad w_pieces w_endjunk w_endpad]. rewrite <- app_assoc. reflexivity. Qed.

Lemma with_junk_ok capacity junk w : Forall (jrest capacity) junk -> preamble_ok w -> preamble_ok (with_junk junk w).
Proof.
  intros Hj (H1 & H2). unfold preamble_ok, with_junk. cbn [w_idle w_id w_role w_flags w_beginpad w_pieces w_endjunk w_endpad].
  split; [|exact H2]. apply Forall_app. split; [|exact H1].
  eapply Forall_impl; [|exact Hj]. intros r (Hr & Ht & _). split; [exact Hr|left; exact Ht].
Qed.

Lemma with_junk_fits capacity junk w : Forall (jrest capacity) junk -> preamble_fits capacity w ->
  preamble_fits capacity (with_junk junk w).
Proof.
  intros Hj (H1 & H2). unfold preamble_fits, with_junk. cbn [w_idle w_pieces w_endjunk].
  split; [|exact H2]. apply Forall_app. split; [|exact H1].
  eapply Forall_impl; [|exact Hj]. intros r (_ & _ & Hg). exact Hg.
Qed.

Lemma jrest_rcd_ok capacity rs : Forall (jrest capacity) rs -> Forall rcd_ok rs.
Proof. apply Forall_impl. intros r (H & _). exact H. Qed.

Lemma piece_rcds_ok id p : id < 65536 -> piece_ok id p -> Forall rcd_ok (piece_rcds id p).
Proof.
  intros Hid (Hj & Hb & Hp & Hbo & Hpo). unfold piece_rcds. apply Forall_app. split.
  - eapply Forall_impl; [|exact Hj]. intros r (H & _). exact H.
  - constructor; [|constructor]. unfold rcd_ok. cbn [rt rid rbody rpad]. unfold RT_Params.
    repeat split; try lia; assumption.
Qed.

Lemma preamble_rcds_ok w : preamble_ok w -> Forall rcd_ok (preamble_rcds w).
Proof.
  intros (Hidle & Hid & Hrole & Hfl & Hbp & Hbpo & Hpcs & Hej & Hep & Hepo). unfold preamble_rcds.
  apply Forall_app. split. { eapply Forall_impl; [|exact Hidle]. intros r (H & _). exact H. }
  apply Forall_app. split.
  { constructor; [|constructor]. apply (begin_rcd_ok (w_id w) (w_role w) (w_flags w) (w_beginpad w)); try assumption; lia. }
  apply Forall_app. split.
  { clear -Hid Hpcs. induction Hpcs as [|p t Hp _ IH]; [constructor|]. cbn [flat_map]. apply Forall_app.
    split; [apply piece_rcds_ok; [lia|exact Hp]|exact IH]. }
  apply Forall_app. split. { eapply Forall_impl; [|exact Hej]. intros r (H & _). exact H. }
  constructor; [|constructor]. unfold rcd_ok. cbn [rt rid rbody rpad]. unfold RT_Params. change (len (@nil N)) with 0.
  repeat split; try lia; try assumption. constructor.
Qed.

Lemma creq_rest_ok capacity c : creq_ok capacity c -> Forall (jrest capacity) (c_rest c).
Proof. intros (_ & _ & _ & _ & _ & H & _). exact H. Qed.

Lemma creq_wire_ok capacity c : creq_ok capacity c -> bytes_ok (creq_wire c).
Proof.
  intros Hc. unfold creq_wire. apply bytes_ok_app. split; apply bytes_ok_enc_rcds.
  - apply preamble_rcds_ok. apply Hc.
  - apply (jrest_rcd_ok capacity). apply creq_rest_ok. exact Hc.
Qed.

Lemma creqs_wire_ok capacity cs : Forall (creq_ok capacity) cs -> bytes_ok (flat_map creq_wire cs).
Proof.
  induction 1 as [|c t Hc _ IH]; [constructor|]. cbn [flat_map]. apply bytes_ok_app.
  split; [exact (creq_wire_ok capacity c Hc)|exact IH].
Qed.

(* ------------------------------------------------------------------------------------------ *)
(* Part 2: one stage                                                                            *)
(* ------------------------------------------------------------------------------------------ *)

Lemma chain_run_cons p u g r :
  chain_run norm maxc p u (g :: r) =
    match run_schedule norm maxc p u (g_sched g) with
    | SOk p1 true u1 _ =>
      match into_stream_parser p1 with
      | inl sp0 =>
        match xrun maxc sp0 (g_ops g) with
        | Some (pf, ds) =>
          if beq (take (len (xfed (g_ops g))) u1) (xfed (g_ops g)) then
            match into_request_parser pf with
            | ConvOk p2 =>
              match chain_run norm maxc p2 (drop (len (xfed (g_ops g))) u1) r with
              | Some (res, pe, ue) => Some ((sreq sp0, ds) :: res, pe, ue)
              | None => None
              end
            | _ => None
            end
          else None
        | None => None
        end
      | inr _ => None
      end
    | _ => None
    end.
Proof. reflexivity. Qed.

Lemma chain_legal_cons p u g r :
  chain_legal norm maxc p u (g :: r) =
    (g_sched g <> [] /\
    match run_schedule norm maxc p u (g_sched g) with
    | SOk p1 true u1 _ =>
      match into_stream_parser p1 with
      | inl sp0 =>
        xlegal maxc sp0 (g_ops g) /\
        (next_input_stream (r_role (sreq sp0)) None = None -> existsb is_parse (g_ops g) = false) /\
        take (len (xfed (g_ops g))) u1 = xfed (g_ops g) /\
        match xrun maxc sp0 (g_ops g) with
        | Some (pf, _) =>
          is_record_boundary pf = true /\ output_buffer pf = [] /\
          match into_request_parser pf with
          | ConvOk p2 => chain_legal norm maxc p2 (drop (len (xfed (g_ops g))) u1) r
          | _ => True
          end
        | None => True
        end
      | inr _ => True
      end
    | _ => True
    end).
Proof. reflexivity. Qed.

(* legal operations are all accepted *)
Lemma xlegal_xrun : forall xs p, xlegal maxc p xs -> exists pf ds, xrun maxc p xs = Some (pf, ds).
Proof.
  induction xs as [|x r IH]; intros p H.
  - exists p, []. reflexivity.
  - destruct x as [c|s]; cbn [xlegal xrun] in *.
    + destruct H as [_ H]. destruct (IH _ H) as (pf & ds & E). rewrite E. eexists _, _. reflexivity.
    + destruct (set_stream p (Some s)) as [p1| |]; try contradiction. exact (IH _ H).
Qed.

(* the request-parser stage: a parser holding L, the client's bytes continuing with the unread records
   [junk] of the previous request, then request c, then anything *)
Lemma chain_stage B junk c t L u sched :
  B < SIZE_LIMIT - 8 -> creq_ok (aligned_bufsize B) c -> Forall (jrest (aligned_bufsize B)) junk ->
  bytes_ok t -> L ++ u = enc_rcds junk ++ creq_wire c ++ t ->
  len L <= aligned_bufsize B -> len (L ++ u) < SIZE_LIMIT -> sched <> [] ->
  exists p1 u1 o sp0,
    run_schedule norm maxc (mkParser (aligned_bufsize B) L Header) u sched = SOk p1 true u1 o /\
    parser_ok p1 /\ st p1 = Done (expected norm c) /\ cap p1 = aligned_bufsize B /\
    held p1 ++ u1 = enc_rcds (c_rest c) ++ t /\
    into_stream_parser p1 = inl sp0 /\ sreq sp0 = expected norm c.
Proof.
  intros HB Hc Hj Ht Hw HL Hsz Hne.
  destruct sched as [|c0 sched]; [contradiction|].
  rewrite (run_schedule_leftover B L u c0 sched HL).
  set (sched' := (len L + N.min c0 (N.min (aligned_bufsize B - len L) (len u))) :: sched).
  pose proof Hc as (Hpre & Hpo & Hnv & Hpf & Hfits & Hrest & Hcl).
  set (w := c_pre c) in *. set (w' := with_junk junk w).
  assert (EW : L ++ u = enc_rcds (preamble_rcds w') ++ enc_rcds (c_rest c) ++ t).
  { rewrite Hw. unfold w'. rewrite with_junk_rcds, enc_rcds_app. unfold creq_wire. fold w.
    rewrite <- !app_assoc. reflexivity. }
  assert (Hbt : bytes_ok (enc_rcds (c_rest c) ++ t)).
  { apply bytes_ok_app. split; [|exact Ht]. apply bytes_ok_enc_rcds. apply (jrest_rcd_ok _ _ Hrest). }
  assert (Hbw : bytes_ok (L ++ u)).
  { rewrite EW. apply bytes_ok_app. split; [|exact Hbt]. apply bytes_ok_enc_rcds. apply preamble_rcds_ok.
    apply (with_junk_ok (aligned_bufsize B)); assumption. }
  destruct (F_preamble_exact norm maxc B w' (c_pairs c) (enc_rcds (c_rest c) ++ t) sched' HB
              (with_junk_ok _ junk w Hj Hpre) Hpo Hnv Hpf (with_junk_fits _ junk w Hj Hfits) Hbt
              ltac:(rewrite <- EW; exact Hsz)) as (p1 & u1 & R & Hst & Hheld).
  rewrite <- EW in R.
  destruct (F_sched_total norm maxc B (L ++ u) sched' HB Hbw Hsz) as (p' & d' & u' & o' & R' & Hok & _).
  rewrite R in R'. injection R' as <- _ _ _.
  destruct (into_stream_parser_inv p1 _ Hok Hst) as (sp0 & EI & _ & I1 & _).
  exists p1, u1, (preamble_replies maxc w'), sp0.
  split; [exact R|]. split; [exact Hok|]. split; [exact Hst|].
  split. { unfold run_schedule in R. apply run_sched_cap in R. exact R. }
  split; [exact Hheld|]. split; [exact EI|exact I1].
Qed.

(* ------------------------------------------------------------------------------------------ *)
(* Part 3: the chain                                                                            *)
(* ------------------------------------------------------------------------------------------ *)

Definition creq_dummy : creq := mkCReq (mkPreamble [] 0 0 0 [] [] [] []) [] [].

Definition chain_post (capacity : N) (cs : list creq) (trailing : bytes) (res : list (req * list (option N * bytes)))
  (pe : parser) (ue : bytes) : Prop :=
  map fst res = map (expected norm) cs /\
  Forall2 (fun c r => forall sg, In sg (role_input_streams (w_role (c_pre c))) ->
             exists more, content_rcds (w_role (c_pre c)) (w_id (c_pre c)) (Some sg) (c_rest c)
                          = delivered (Some sg) (snd r) ++ more) cs res /\
  (cs <> [] -> exists done todo, c_rest (last cs creq_dummy) = done ++ todo /\
                                 held pe ++ ue = enc_rcds todo ++ trailing) /\
  st pe = Header /\ cap pe = capacity.

Lemma chain_gen (HP : stream_phase_stmt maxc) B trailing :
  B < SIZE_LIMIT - 8 -> bytes_ok trailing ->
  forall cs gs junk L u,
  Forall (creq_ok (aligned_bufsize B)) cs -> length gs = length cs ->
  Forall (jrest (aligned_bufsize B)) junk ->
  L ++ u = enc_rcds junk ++ flat_map creq_wire cs ++ trailing ->
  len L <= aligned_bufsize B -> len (L ++ u) < SIZE_LIMIT ->
  chain_legal norm maxc (mkParser (aligned_bufsize B) L Header) u gs ->
  exists res pe ue,
    chain_run norm maxc (mkParser (aligned_bufsize B) L Header) u gs = Some (res, pe, ue) /\
    chain_post (aligned_bufsize B) cs trailing res pe ue.
Proof.
  intros HB Htr.
  induction cs as [|c cs' IH]; intros gs junk L u Hcs Hlen Hj Hw HL Hsz Hleg.
  - destruct gs as [|g gs']; [|discriminate Hlen].
    exists [], (mkParser (aligned_bufsize B) L Header), u. split; [reflexivity|].
    split; [reflexivity|]. split; [constructor|]. split; [intros H; contradiction|]. split; reflexivity.
  - destruct gs as [|g gs']; [discriminate Hlen|]. cbn [length] in Hlen.
    inversion Hcs as [|c_ cs_ Hc Hcs']; subst c_ cs_.
    cbn [flat_map] in Hw. rewrite <- app_assoc in Hw.
    set (t := flat_map creq_wire cs' ++ trailing) in *.
    assert (Ht : bytes_ok t).
    { apply bytes_ok_app. split; [exact (creqs_wire_ok (aligned_bufsize B) cs' Hcs')|exact Htr]. }
    rewrite chain_legal_cons in Hleg. destruct Hleg as [Hne Hleg].
    destruct (chain_stage B junk c t L u (g_sched g) HB Hc Hj Ht Hw HL Hsz Hne)
      as (p1 & u1 & o & sp0 & R & Hok & Hst & Hcap & Hheld & EI & Hsreq).
    rewrite chain_run_cons. rewrite R in *. rewrite EI in *.
    set (fed := xfed (g_ops g)) in *.
    destruct Hleg as (Hxl & Hnp & Hfed & Hleg).
    destruct (xlegal_xrun (g_ops g) sp0 Hxl) as (pf & ds & EX). rewrite EX in *.
    destruct Hleg as (Hbd & Hout & Hleg).
    pose proof Hc as (_ & _ & _ & _ & _ & Hrest & Hcl).
    assert (Hu1 : u1 = fed ++ drop (len fed) u1).
    { rewrite <- Hfed at 1. symmetry. apply take_drop. }
    destruct (HP p1 (expected norm c) sp0 (c_rest c) t (g_ops g) pf ds (drop (len fed) u1) Hok Hst EI
                (jrest_rcd_ok _ _ Hrest) Hcl
                ltac:(rewrite Hsreq in Hnp; exact Hnp)
                ltac:(fold fed; rewrite <- Hu1; exact Hheld) Hxl EX)
      as (Hinv & Hsr & Hbl & Hdel & Hbnd).
    destruct (Hbnd Hbd) as (dn & todo & Hsplit & Hraw).
    destruct (into_request_parser_ok pf (proj1 Hinv) Hbd Hout) as (p2 & EC & Hh & Hc2 & Hs2).
    change (a_raw (abs pf)) with (raw_bytes pf) in Hh. change (a_B (abs pf)) with (len (buffer pf)) in Hc2.
    rewrite EC in *.
    assert (Ep2 : p2 = mkParser (aligned_bufsize B) (raw_bytes pf) Header).
    { destruct p2 as [c2 h2 s2]. cbn [cap held st] in *. subst. rewrite Hbl, Hcap. reflexivity. }
    rewrite Ep2 in *. clear Ep2 Hh Hc2 Hs2.
    assert (Hjt : Forall (jrest (aligned_bufsize B)) todo).
    { rewrite Hsplit in Hrest. apply Forall_app in Hrest. apply Hrest. }
    assert (HL2 : len (raw_bytes pf) <= (aligned_bufsize B)).
    { destruct Hinv as [_ (Hao & _)]. unfold a_ok in Hao. cbn [abs a_parsed a_raw a_space a_B] in Hao.
      rewrite Hbl, Hcap in Hao. lia. }
    assert (Hsz2 : len (raw_bytes pf ++ drop (len fed) u1) < SIZE_LIMIT).
    { rewrite Hraw. apply (f_equal len) in Hw. rewrite Hw in Hsz. unfold creq_wire in Hsz.
      rewrite Hsplit, enc_rcds_app in Hsz. rewrite !len_app in *. lia. }
    destruct (IH gs' todo (raw_bytes pf) (drop (len fed) u1) Hcs' ltac:(lia) Hjt Hraw HL2 Hsz2 Hleg)
      as (res & pe & ue & ER & Hm & Hf2 & Hlast & Hste & Hcape).
    rewrite Hfed. assert (Eb : beq fed fed = true) by (apply beq_eq; reflexivity). rewrite Eb, ER.
    exists ((sreq sp0, ds) :: res), pe, ue. split; [reflexivity|].
    split. { cbn [map fst]. rewrite Hsreq, Hm. reflexivity. }
    split. { constructor; [|exact Hf2]. cbn [snd]. exact Hdel. }
    split; [|split; [exact Hste|exact Hcape]].
    intros _. destruct cs' as [|c' cs''].
    + cbn [last]. exists dn, todo. split; [exact Hsplit|].
      destruct gs' as [|? ?]; [|discriminate Hlen]. cbn [chain_run] in ER. injection ER as _ <- <-.
      cbn [held]. rewrite Hraw. reflexivity.
    + change (last (c :: c' :: cs'') creq_dummy) with (last (c' :: cs'') creq_dummy).
      apply Hlast. discriminate.
Qed.

Theorem chain_of_phase_proof : stream_phase_stmt maxc -> chain_stmt norm maxc.
Proof.
  intros HP B cs gs trailing HB Hcs Hlen Htr Hsz Hleg.
  destruct (chain_gen HP B trailing HB Htr cs gs [] [] (flat_map creq_wire cs ++ trailing) Hcs Hlen
              ltac:(constructor) ltac:(reflexivity) ltac:(rewrite len_nil; lia) Hsz Hleg)
    as (res & pe & ue & ER & Hm & Hf & Hlast & Hst & Hcap).
  exists res, pe, ue. split; [exact ER|]. split; [exact Hm|]. split; [exact Hf|].
  split; [exact Hlast|]. split; [exact Hst|exact Hcap].
Qed.

Theorem chain_separately_proof : chain_separately_stmt norm maxc.
Proof.
  intros B c sched HB Hc Hsz.
  pose proof Hc as (Hpre & Hpo & Hnv & Hpf & Hfits & Hrest & _).
  assert (Hbt : bytes_ok (enc_rcds (c_rest c))).
  { apply bytes_ok_enc_rcds. apply (jrest_rcd_ok _ _ Hrest). }
  destruct (F_preamble_exact norm maxc B (c_pre c) (c_pairs c) (enc_rcds (c_rest c)) sched HB
              Hpre Hpo Hnv Hpf Hfits Hbt Hsz) as (p & u & R & Hst & _).
  exists p, u, (preamble_replies maxc (c_pre c)). split; [exact R|exact Hst].
Qed.

End CP.

Theorem chain_of_phase : forall norm maxc, stream_phase_stmt maxc -> chain_stmt norm maxc.
Proof. exact chain_of_phase_proof. Qed.

Theorem chain_separately : forall norm maxc, chain_separately_stmt norm maxc.
Proof. exact chain_separately_proof. Qed.


(* ------------------------------------------------------------------------------------------ *)
(* Non-vacuity: the hypotheses of chain_of_phase hold for a concrete connection with TWO requests *)
(* ------------------------------------------------------------------------------------------ *)
(* B = 256.  Request 1: Responder, id 1, two variables, Stdin "hello" (padded), a GetValues query in the
   middle of the stream, Stdin terminator.  Request 2: Filter, id 1 again, Stdin [1;2;3] + terminator,
   Data [7;8] + terminator.  Then three stray bytes.  Stage 1 reads everything the client sent in one
   1000-byte read (so requests 1 AND 2 are in the buffer at the first conversion), takes the stream in
   pieces of 3 and 10 bytes and the GetValues reply; stage 2 starts with a 0-byte call on the reused parser,
   reads Stdin into the stream buffer, selects Data, reads it and hands back with the Data terminator
   still unread. *)
Definition ch_norm (b : bytes) := b.
Definition ch_pairs : list (bytes*bytes) := [([65;66],[99]); ([67],[])].
Definition ch_payload := match nv_write_all ch_pairs with Some b => b | None => [] end.
Definition ch_pre (id role : N) : preamble := mkPreamble [] id role 1 [1;2] [mkPiece [] ch_payload [0]] [] [].
Definition ch_gv : rcd := mkRcd RT_GetValues 0 [] [].
Definition ch_c1 : creq := mkCReq (ch_pre 1 ROLE_Responder) ch_pairs [mkRcd RT_Stdin 1 [104;101;108;108;111] [0;0;0]; ch_gv; mkRcd RT_Stdin 1 [] []].
Definition ch_c2 : creq := mkCReq (ch_pre 1 ROLE_Filter) ch_pairs [mkRcd RT_Stdin 1 [1;2;3] []; mkRcd RT_Stdin 1 [] []; mkRcd RT_Data 1 [7;8] []; mkRcd RT_Data 1 [] []].
Definition ch_trailing : bytes := [9;9;9].
Definition ch_wire := flat_map creq_wire [ch_c1;ch_c2] ++ ch_trailing.
Definition ch_g1 := mkStage [1000] [XC (CParse [] (Some 3)); XC (CParse [] (Some 10)); XC (CConsumeOutput 100)].
Definition ch_g2 := mkStage [0] [XC (CParse [] None); XC (CConsumeStream 2); XSel RT_Data; XC (CParse [] (Some 10));XC (CConsumeOutput 100)].

Ltac ch_dec :=
  first [ apply bytes_okb_ok; vm_compute; reflexivity
        | vm_compute; reflexivity
        | vm_compute; discriminate ].

Lemma ch_rcd_jrest t id body pad :
  rcd_ok (mkRcd t id body pad) -> t <> RT_BeginRequest -> (t = RT_GetValues -> body = []) ->
  jrest (aligned_bufsize 256) (mkRcd t id body pad).
Proof.
  intros Hok Ht Hb. split; [exact Hok|]. split; [exact Ht|].
  intros E _ k. cbn [rt rbody] in *. rewrite (Hb E), take_nil. vm_compute. reflexivity.
Qed.

Ltac ch_rcd := apply ch_rcd_jrest;
  [ unfold rcd_ok; cbn [rt rid rbody rpad]; repeat split; ch_dec
  | vm_compute; discriminate
  | intros E; first [reflexivity | vm_compute in E; discriminate E] ].

Lemma ch_creq_ok id role rest :
  0 < id < 65536 -> known_role role = true ->
  Forall (jrest (aligned_bufsize 256)) rest -> closes_streams role id rest ->
  creq_ok (aligned_bufsize 256) (mkCReq (ch_pre id role) ch_pairs rest).
Proof.
  intros Hid Hrole Hrest Hcl. unfold creq_ok. cbn [c_pre c_pairs c_rest].
  split.
  { unfold preamble_ok, ch_pre. cbn [w_idle w_id w_role w_flags w_beginpad w_pieces w_endjunk w_endpad].
    split; [constructor|]. split; [exact Hid|]. split; [exact Hrole|]. split; [ch_dec|]. split; [ch_dec|].
    split; [ch_dec|]. split.
    { constructor; [|constructor]. unfold piece_ok. cbn [pjunk pbody ppad].
      split; [constructor|]. split; [split; ch_dec|]. split; [ch_dec|]. split; ch_dec. }
    split; [constructor|]. split; ch_dec. }
  split. { constructor; [split; ch_dec|]. constructor; [split; ch_dec|constructor]. }
  split; [ch_dec|].
  split. { constructor; [ch_dec|]. constructor; [ch_dec|constructor]. }
  split.
  { unfold preamble_fits, ch_pre. cbn [w_idle w_pieces w_endjunk]. split; [constructor|]. split; [|constructor].
    constructor; [|constructor]. cbn [pjunk]. constructor. }
  split; [exact Hrest|exact Hcl].
Qed.

Ltac ch_closes := unfold closes_streams; apply Forall_forall; intros sg Hin; vm_compute in Hin;
  repeat (destruct Hin as [<-|Hin]; [vm_compute; reflexivity|]); contradiction.

Example chain_nonvacuous :
  256 < SIZE_LIMIT - 8 /\ Forall (creq_ok (aligned_bufsize 256)) [ch_c1; ch_c2] /\
  length [ch_g1; ch_g2] = length [ch_c1; ch_c2] /\ bytes_ok ch_trailing /\
  len (flat_map creq_wire [ch_c1; ch_c2] ++ ch_trailing) < SIZE_LIMIT /\
  chain_legal ch_norm 10 (new_parser 256) (flat_map creq_wire [ch_c1; ch_c2] ++ ch_trailing) [ch_g1; ch_g2].
Proof.
  split; [ch_dec|]. split.
  { constructor; [|constructor; [|constructor]].
    - apply ch_creq_ok; [split; ch_dec|ch_dec| |ch_closes].
      constructor; [ch_rcd|]. constructor; [ch_rcd|]. constructor; [ch_rcd|constructor].
    - apply ch_creq_ok; [split; ch_dec|ch_dec| |ch_closes].
      constructor; [ch_rcd|]. constructor; [ch_rcd|]. constructor; [ch_rcd|]. constructor; [ch_rcd|constructor]. }
  split; [reflexivity|]. split; [ch_dec|]. split; [ch_dec|].
  vm_compute.
  repeat split; first [ exact I | reflexivity | constructor | (intros Hx; first [discriminate Hx | reflexivity]) ].
Qed.

(* what the chain does on it (computed): both requests come out as sent, the unread Data terminator and the
   stray bytes are what the last parser holds *)
Example chain_instance_run :
  exists res pe ue,
    chain_run ch_norm 10 (new_parser 256) (flat_map creq_wire [ch_c1; ch_c2] ++ ch_trailing) [ch_g1; ch_g2]
      = Some (res, pe, ue) /\
    map fst res = map (expected ch_norm) [ch_c1; ch_c2] /\
    map snd res = [ [(Some 5, [104; 101; 108]); (Some 5, [108; 111]); (Some 5, [])];
                    [(Some 5, []); (Some 5, [1; 2]); (Some 8, [7; 8]); (Some 8, [])] ] /\
    held pe ++ ue = enc_rcds [mkRcd RT_Data 1 [] []] ++ ch_trailing /\ st pe = Header.
Proof.
  assert (H : match chain_run ch_norm 10 (new_parser 256) (flat_map creq_wire [ch_c1; ch_c2] ++ ch_trailing) [ch_g1; ch_g2] with
              | Some (res, pe, ue) =>
                map fst res = map (expected ch_norm) [ch_c1; ch_c2] /\
                map snd res = [ [(Some 5, [104; 101; 108]); (Some 5, [108; 111]); (Some 5, [])];
                                [(Some 5, []); (Some 5, [1; 2]); (Some 8, [7; 8]); (Some 8, [])] ] /\
                held pe ++ ue = enc_rcds [mkRcd RT_Data 1 [] []] ++ ch_trailing /\ st pe = Header
              | None => False
              end) by (vm_compute; repeat split).
  destruct (chain_run ch_norm 10 (new_parser 256) (flat_map creq_wire [ch_c1; ch_c2] ++ ch_trailing) [ch_g1; ch_g2])
    as [[[res pe] ue]|]; [|contradiction].
  exists res, pe, ue. split; [reflexivity|exact H].
Qed.

(* ... and the theorem applies to it *)
Example chain_instance : stream_phase_stmt 10 ->
  exists res pe ue,
    chain_run ch_norm 10 (new_parser 256) (flat_map creq_wire [ch_c1; ch_c2] ++ ch_trailing) [ch_g1; ch_g2]
      = Some (res, pe, ue) /\
    map fst res = map (expected ch_norm) [ch_c1; ch_c2] /\ st pe = Header /\ cap pe = aligned_bufsize 256.
Proof.
  intros HP. destruct chain_nonvacuous as (H1 & H2 & H3 & H4 & H5 & H6).
  destruct (chain_of_phase ch_norm 10 HP 256 [ch_c1; ch_c2] [ch_g1; ch_g2] ch_trailing H1 H2 H3 H4 H5 H6)
    as (res & pe & ue & E & Hm & _ & _ & Hs & Hc).
  exists res, pe, ue. split; [exact E|]. split; [exact Hm|]. split; [exact Hs|exact Hc].
Qed.
Print Assumptions chain_nonvacuous.
Print Assumptions chain_instance_run.

Print Assumptions chain_separately.
Print Assumptions chain_of_phase.
