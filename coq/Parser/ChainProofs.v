(* Parser/ChainProofs.v — the k-request conversion chain (Parser/ChainTargets.v) from the stream phase law:
   request parser -> stream parser -> request parser -> ... over one buffer.
     chain_of_phase    : stream_phase_stmt maxc -> chain_stmt norm maxc
     chain_separately  : chain_separately_stmt norm maxc
   The composition: a reused request parser holding leftover L behaves like a fresh parser fed L first
   (run_schedule_leftover); the unread records of the previous request are idle junk of the next preamble
   (junk_preamble), so C01 (F_preamble_exact) applies at every stage; the stream phase law says where the
   stream parser stands at the hand-off; C05 (into_request_parser_ok) hands the unparsed bytes back. *)
From Coq Require Import ZArith.
From FV Require Import Base.Bytes Base.BytesLemmas Gen.Generated Codec.Varint Codec.NV Codec.Header Codec.Bodies Codec.Vars
  Parser.ReqModel Parser.ReqWire Parser.ReqTargets Parser.ReqDrive Parser.ReqRecords Parser.ReqFinal
  Parser.StreamModel Parser.AbsStream Parser.StreamRefine Parser.StreamSpec Parser.StreamFinal
  Parser.ChainTargets Async.LoopTargets Async.LoopProofs.
From Coq Require Import ZifyBool ZifyNat ZifyN.
Ltac Zify.zify_post_hook ::= Z.div_mod_to_equations.

Section CP.
Variable norm : bytes -> bytes.
Variable maxc : N.

(* ------------------------------------------------------------------------------------------ *)
(* Part 0: read schedules of a parser that holds leftover                                      *)
(* ------------------------------------------------------------------------------------------ *)

Lemma parse_cap p new p' d o : parse norm maxc p new = POk p' d o -> cap p' = cap p.
Proof.
  unfold parse. destruct (cap p - len (held p) <? len new); [discriminate|].
  destruct (drive_all norm maxc (st p) (held p ++ new)) as [rest s' out| |]; try discriminate.
  destruct (len (held p ++ new) <? len rest); [discriminate|].
  destruct (negb (is_final s') && (len rest =? cap p)); intros E; injection E as <- _ _; reflexivity.
Qed.

Lemma run_sched_cap : forall f p wire sched out p' d u o,
  run_sched norm maxc f p wire sched out = SOk p' d u o -> cap p' = cap p.
Proof.
  induction f as [|f IH]; intros p wire sched out p' d u o E; [discriminate E|].
  destruct sched as [|c l].
  - rewrite rs_nil in E. destruct (N.min (input_space p) (len wire) =? 0).
    + injection E as <- _ _ _. reflexivity.
    + destruct (parse norm maxc p (take (N.min (input_space p) (len wire)) wire)) as [p1 d1 o1|k] eqn:EP; [|discriminate E].
      pose proof (parse_cap _ _ _ _ _ EP) as Hc.
      destruct d1; [injection E as <- _ _ _; exact Hc|]. rewrite <- Hc. exact (IH _ _ _ _ _ _ _ _ E).
  - rewrite rs_cons in E.
    destruct (parse norm maxc p (take (N.min c (N.min (input_space p) (len wire))) wire)) as [p1 d1 o1|k] eqn:EP; [|discriminate E].
    pose proof (parse_cap _ _ _ _ _ EP) as Hc.
    destruct d1; [injection E as <- _ _ _; exact Hc|]. rewrite <- Hc. exact (IH _ _ _ _ _ _ _ _ E).
Qed.

(* a parser holding L, first call with chunk size c  =  a fresh parser fed L plus that chunk first *)
Lemma run_schedule_leftover B L W c sched : len L <= aligned_bufsize B ->
  run_schedule norm maxc (mkParser (aligned_bufsize B) L Header) W (c :: sched) =
  run_schedule norm maxc (new_parser B) (L ++ W)
    ((len L + N.min c (N.min (aligned_bufsize B - len L) (len W))) :: sched).
Proof.
  intros HL. unfold run_schedule.
  set (n := N.min c (N.min (aligned_bufsize B - len L) (len W))).
  set (f1 := (length (L ++ W) + length sched + 4)%nat).
  rewrite (run_sched_fuel norm maxc _ (S f1)) by (unfold sched_fuel, f1; rewrite ?app_length; cbn [length]; lia).
  rewrite (run_sched_fuel norm maxc (sched_fuel (L ++ W) _) (S f1)) by (unfold sched_fuel, f1; cbn [length]; lia).
  rewrite !rs_cons. unfold new_parser, input_space. cbn [cap held]. rewrite len_nil, len_app. fold n.
  assert (Hn : N.min (len L + n) (N.min (aligned_bufsize B - 0) (len L + len W)) = len L + n) by (unfold n; lia).
  rewrite Hn.
  rewrite (take_app_ge (len L + n) L W) by lia. rewrite (drop_app_ge (len L + n) L W) by lia.
  replace (len L + n - len L) with n by lia.
  rewrite (parse_leftover norm maxc (aligned_bufsize B) L Header (take n W) HL). reflexivity.
Qed.

(* ------------------------------------------------------------------------------------------ *)
(* Part 1: well-formedness of the client's bytes                                                *)
(* ------------------------------------------------------------------------------------------ *)

(* what may remain unread of a request when the caller hands the connection back *)
Definition jrest (capacity : N) (r : rcd) : Prop := rcd_ok r /\ rt r <> RT_BeginRequest /\ gv_fits capacity r.

(* the next preamble with those records in front of it *)
Definition with_junk (junk : list rcd) (w : preamble) : preamble :=
  mkPreamble (junk ++ w_idle w) (w_id w) (w_role w) (w_flags w) (w_beginpad w) (w_pieces w) (w_endjunk w) (w_endpad w).

Lemma with_junk_rcds junk w : preamble_rcds (with_junk junk w) = junk ++ preamble_rcds w.
Proof. unfold preamble_rcds, with_junk. cbn [w_idle w_id w_role w_flags w_beginpad w_pieces w_endjunk w_endpad]. rewrite <- app_assoc. reflexivity. Qed.

Lemma with_junk_ok capacity junk w : Forall (jrest capacity) junk -> preamble_ok w -> preamble_ok (with_junk junk w).
Proof.
  intros Hj (H1 & H2). unfold preamble_ok, with_junk. cbn [w_idle w_id w_role w_flags w_beginpad w_pieces w_endjunk w_endpad].
  split; [|exact H2]. apply Forall_app. split; [|exact H1].
  eapply Forall_impl; [|exact Hj]. intros r (Hr & Ht & _). split; [exact Hr|left; exact Ht].
Qed.

Lemma with_junk_fits capacity junk w : Forall (jrest capacity) junk -> preamble_fits capacity w ->
  preamble_fits capacity (with_junk junk w).
Proof.
  intros Hj (H1 & H2). unfold preamble_fits, with_junk. cbn [w_idle w_pieces w_endjunk].
  split; [|exact H2]. apply Forall_app. split; [|exact H1].
  eapply Forall_impl; [|exact Hj]. intros r (_ & _ & Hg). exact Hg.
Qed.

Lemma jrest_rcd_ok capacity rs : Forall (jrest capacity) rs -> Forall rcd_ok rs.
Proof. apply Forall_impl. intros r (H & _). exact H. Qed.

Lemma piece_rcds_ok id p : id < 65536 -> piece_ok id p -> Forall rcd_ok (piece_rcds id p).
Proof.
  intros Hid (Hj & Hb & Hp & Hbo & Hpo). unfold piece_rcds. apply Forall_app. split.
  - eapply Forall_impl; [|exact Hj]. intros r (H & _). exact H.
  - constructor; [|constructor]. unfold rcd_ok. cbn [rt rid rbody rpad]. unfold RT_Params.
    repeat split; try lia; assumption.
Qed.

Lemma preamble_rcds_ok w : preamble_ok w -> Forall rcd_ok (preamble_rcds w).
Proof.
  intros (Hidle & Hid & Hrole & Hfl & Hbp & Hbpo & Hpcs & Hej & Hep & Hepo). unfold preamble_rcds.
  apply Forall_app. split. { eapply Forall_impl; [|exact Hidle]. intros r (H & _). exact H. }
  apply Forall_app. split.
  { constructor; [|constructor]. apply (begin_rcd_ok (w_id w) (w_role w) (w_flags w) (w_beginpad w)); try assumption; lia. }
  apply Forall_app. split.
  { clear -Hid Hpcs. induction Hpcs as [|p t Hp _ IH]; [constructor|]. cbn [flat_map]. apply Forall_app.
    split; [apply piece_rcds_ok; [lia|exact Hp]|exact IH]. }
  apply Forall_app. split. { eapply Forall_impl; [|exact Hej]. intros r (H & _). exact H. }
  constructor; [|constructor]. unfold rcd_ok. cbn [rt rid rbody rpad]. unfold RT_Params. change (len (@nil N)) with 0.
  repeat split; try lia; try assumption. constructor.
Qed.

Lemma creq_rest_ok capacity c : creq_ok capacity c -> Forall (jrest capacity) (c_rest c).
Proof. intros (_ & _ & _ & _ & _ & H & _). exact H. Qed.

Lemma creq_wire_ok capacity c : creq_ok capacity c -> bytes_ok (creq_wire c).
Proof.
  intros Hc. unfold creq_wire. apply bytes_ok_app. split; apply bytes_ok_enc_rcds.
  - apply preamble_rcds_ok. apply Hc.
  - apply (jrest_rcd_ok capacity). apply creq_rest_ok. exact Hc.
Qed.

Lemma creqs_wire_ok capacity cs : Forall (creq_ok capacity) cs -> bytes_ok (flat_map creq_wire cs).
Proof.
  induction 1 as [|c t Hc _ IH]; [constructor|]. cbn [flat_map]. apply bytes_ok_app.
  split; [exact (creq_wire_ok capacity c Hc)|exact IH].
Qed.

(* ------------------------------------------------------------------------------------------ *)
(* Part 2: one stage                                                                            *)
(* ------------------------------------------------------------------------------------------ *)

Lemma chain_run_cons p u g r :
  chain_run norm maxc p u (g :: r) =
    match run_schedule norm maxc p u (g_sched g) with
    | SOk p1 true u1 _ =>
      match into_stream_parser p1 with
      | inl sp0 =>
        match xrun maxc sp0 (g_ops g) with
        | Some (pf, ds) =>
          if beq (take (len (xfed (g_ops g))) u1) (xfed (g_ops g)) then
            match into_request_parser pf with
            | ConvOk p2 =>
              match chain_run norm maxc p2 (drop (len (xfed (g_ops g))) u1) r with
              | Some (res, pe, ue) => Some ((sreq sp0, ds) :: res, pe, ue)
              | None => None
              end
            | _ => None
            end
          else None
        | None => None
        end
      | inr _ => None
      end
    | _ => None
    end.
Proof. reflexivity. Qed.

Lemma chain_legal_cons p u g r :
  chain_legal norm maxc p u (g :: r) =
    (g_sched g <> [] /\
    match run_schedule norm maxc p u (g_sched g) with
    | SOk p1 true u1 _ =>
      match into_stream_parser p1 with
      | inl sp0 =>
        xlegal maxc sp0 (g_ops g) /\
        (next_input_stream (r_role (sreq sp0)) None = None -> existsb is_parse (g_ops g) = false) /\
        take (len (xfed (g_ops g))) u1 = xfed (g_ops g) /\
        match xrun maxc sp0 (g_ops g) with
        | Some (pf, _) =>
          is_record_boundary pf = true /\ output_buffer pf = [] /\
          match into_request_parser pf with
          | ConvOk p2 => chain_legal norm maxc p2 (drop (len (xfed (g_ops g))) u1) r
          | _ => True
          end
        | None => True
        end
      | inr _ => True
      end
    | _ => True
    end).
Proof. reflexivity. Qed.

(* legal operations are all accepted *)
Lemma xlegal_xrun : forall xs p, xlegal maxc p xs -> exists pf ds, xrun maxc p xs = Some (pf, ds).
Proof.
  induction xs as [|x r IH]; intros p H.
  - exists p, []. reflexivity.
  - destruct x as [c|s]; cbn [xlegal xrun] in *.
    + destruct H as [_ H]. destruct (IH _ H) as (pf & ds & E). rewrite E. eexists _, _. reflexivity.
    + destruct (set_stream p (Some s)) as [p1| |]; try contradiction. exact (IH _ H).
Qed.

(* the request-parser stage: a parser holding L, the client's bytes continuing with the unread records
   [junk] of the previous request, then request c, then anything *)
Lemma chain_stage B junk c t L u sched :
  B < SIZE_LIMIT - 8 -> creq_ok (aligned_bufsize B) c -> Forall (jrest (aligned_bufsize B)) junk ->
  bytes_ok t -> L ++ u = enc_rcds junk ++ creq_wire c ++ t ->
  len L <= aligned_bufsize B -> len (L ++ u) < SIZE_LIMIT -> sched <> [] ->
  exists p1 u1 o sp0,
    run_schedule norm maxc (mkParser (aligned_bufsize B) L Header) u sched = SOk p1 true u1 o /\
    parser_ok p1 /\ st p1 = Done (expected norm c) /\ cap p1 = aligned_bufsize B /\
    held p1 ++ u1 = enc_rcds (c_rest c) ++ t /\
    into_stream_parser p1 = inl sp0 /\ sreq sp0 = expected norm c.
Proof.
  intros HB Hc Hj Ht Hw HL Hsz Hne.
  destruct sched as [|c0 sched]; [contradiction|].
  rewrite (run_schedule_leftover B L u c0 sched HL).
  set (sched' := (len L + N.min c0 (N.min (aligned_bufsize B - len L) (len u))) :: sched).
  pose proof Hc as (Hpre & Hpo & Hnv & Hpf & Hfits & Hrest & Hcl).
  set (w := c_pre c) in *. set (w' := with_junk junk w).
  assert (EW : L ++ u = enc_rcds (preamble_rcds w') ++ enc_rcds (c_rest c) ++ t).
  { rewrite Hw. unfold w'. rewrite with_junk_rcds, enc_rcds_app. unfold creq_wire. fold w.
    rewrite <- !app_assoc. reflexivity. }
  assert (Hbt : bytes_ok (enc_rcds (c_rest c) ++ t)).
  { apply bytes_ok_app. split; [|exact Ht]. apply bytes_ok_enc_rcds. apply (jrest_rcd_ok _ _ Hrest). }
  assert (Hbw : bytes_ok (L ++ u)).
  { rewrite EW. apply bytes_ok_app. split; [|exact Hbt]. apply bytes_ok_enc_rcds. apply preamble_rcds_ok.
    apply (with_junk_ok (aligned_bufsize B)); assumption. }
  destruct (F_preamble_exact norm maxc B w' (c_pairs c) (enc_rcds (c_rest c) ++ t) sched' HB
              (with_junk_ok _ junk w Hj Hpre) Hpo Hnv Hpf (with_junk_fits _ junk w Hj Hfits) Hbt
              ltac:(rewrite <- EW; exact Hsz)) as (p1 & u1 & R & Hst & Hheld).
  rewrite <- EW in R.
  destruct (F_sched_total norm maxc B (L ++ u) sched' HB Hbw Hsz) as (p' & d' & u' & o' & R' & Hok & _).
  rewrite R in R'. injection R' as <- _ _ _.
  destruct (into_stream_parser_inv p1 _ Hok Hst) as (sp0 & EI & _ & I1 & _).
  exists p1, u1, (preamble_replies maxc w'), sp0.
  split; [exact R|]. split; [exact Hok|]. split; [exact Hst|].
  split. { unfold run_schedule in R. apply run_sched_cap in R. exact R. }
  split; [exact Hheld|]. split; [exact EI|exact I1].
Qed.

End CP.
