(* Parser/ProgressTargets.v — statement: progress of one stream::Parser::parse call in BOTH delivery modes (C02, "delivers").
   Statement only; proof in Parser/ProgressProofs.v. *)
From FV Require Import Base.Bytes Gen.Generated Codec.Header Parser.ReqModel Parser.ReqWire Parser.ReqTargets Parser.StreamModel Parser.AbsStream Parser.StreamSpec
  Parser.StreamInv Parser.StreamFinal.

(* One legal call that returns Ok, with or without a destination, on ANY bytes:  afterwards nothing of the selected stream that
   could have been delivered is left behind in the unparsed part of the buffer — [coming p' []] is the content of the selected
   stream in the bytes the parser still holds unparsed —, unless the caller's destination is full (then exactly c bytes were
   delivered).  So a caller that keeps calling with a non-empty destination receives the whole stream: a call returns 0 bytes
   only when the buffered input holds no further byte of the stream (more input is needed, or the stream has ended).
   With dest = None the bytes go to the stream buffer and the same holds without the exception. *)
Definition parse_progress_stmt : Prop := forall maxc p new dest p' s,
  sp_inv p -> call_legal p new dest ->
  sparse maxc p new dest = StOk p' s ->
  coming p' [] = [] \/ (exists c, dest = Some c /\ len (s_dest s) = c).

(* ... and the same along a whole schedule ending in a parse call: if that last call left its destination unfilled, then what the
   caller has received so far plus the stream buffer is everything the bytes fed so far contain of the stream *)
Definition schedule_progress_stmt : Prop := forall maxc rp r sp0 rs t ops new dest u p' s,
  parser_ok rp -> st rp = Done r -> into_stream_parser rp = inl sp0 ->
  Forall rcd_ok rs -> held rp ++ cfed ops ++ new ++ u = enc_rcds rs ++ t ->
  csched_legal maxc sp0 ops -> call_legal (cfinal maxc sp0 ops) new dest ->
  sparse maxc (cfinal maxc sp0 ops) new dest = StOk p' s ->
  (forall c, dest = Some c -> len (s_dest s) < c) ->
  let role := r_role r in let id := r_id r in
  let sg := next_input_stream role None in
  exists more, cdelivered maxc sp0 ops ++ s_dest s ++ stream_buffer p' ++ more
               = content_rcds role id sg rs ++ (if content_open role id sg rs then CF role id sg false 0 0 t else []) /\
               more = coming p' u /\ coming p' [] = [].
