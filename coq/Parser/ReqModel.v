(* Parser/ReqModel.v — model of src/parser/request.rs (request::Parser and its State machine)
   and of parser::Request (src/parser/mod.rs).  No proofs here.

   Conventions (DESIGN.md 4): debug-profile semantics — every Rust panic site (slice index out of
   range, `expect`, `debug_assert*!`, integer overflow) is an explicit PANIC result.  The request's
   environment (a HashMap) is an insertion log, newest last; `norm` is the key normalisation
   performed by make_cgivar (request.rs:333-343): upper-casing of the lossy UTF-8 decoding.
   `maxc` is Config::max_conns. *)
From FV Require Import Base.Bytes Gen.Generated Codec.Varint Codec.NV Codec.Header Codec.Bodies Codec.Vars.

Record req := mkReq { r_id : N; r_role : N; r_flags : N; r_env : list (bytes * bytes) }.
Record inner := mkInner { ireq : req; ibuf : bytes }.

(* parser::Error, parser/mod.rs:18-75 *)
Inductive perr :=
| EPaniced | EStuckOnInput | EInterrupted | EUnknownVersion (v : N) | EInvalidRequestLen (l : N)
| ENullRequest | EAbortRequest | EProtocol.

(* request.rs:497-508 *)
Inductive state :=
| Header
| HeaderSkip (p q : N)
| HeaderValues (vars p q : N)
| Params (i : inner) (p q : N)
| ParamsSkip (i : inner) (p q : N)
| ParamsValues (i : inner) (vars p q : N)
| DoneSkip (r : req) (p q : N)
| Done (r : req)
| Fatal (e : perr).

Inductive flow :=
| Break (rest : bytes) (s : state)
| Continue (rest : bytes) (s : state)
| PANIC (site : N).

Section Req.
Variable norm : bytes -> bytes.
Variable maxc : N.

Definition env_insert (r : req) (name value : bytes) : req :=
  mkReq (r_id r) (r_role r) (r_flags r) (r_env r ++ [(norm name, value)]).
Definition env_extend (r : req) (ps : list (bytes * bytes)) : req :=
  fold_left (fun r p => env_insert r (fst p) (snd p)) ps r.

(* StateBuilder::into_skip, request.rs:22-29, with `wrap` = wrap_skip and `nxt` = into_state() *)
Definition into_skip (wrap : N -> N -> state) (nxt : state) (p q : N) : state :=
  if (p =? 0) && (q =? 0) then nxt else wrap p q.

(* SkipState::drive, request.rs:40-59 *)
Definition skip_drive (wrap : N -> N -> state) (nxt : state) (p q : N) (data : bytes) : flow :=
  let l := len data in
  if l <? p then Break [] (wrap (p - l) q)
  else if l <? p + q then Break [] (wrap 0 (q - (l - p)))
  else Continue (drop (p + q) data) nxt.

(* GetValuesState::drive, request.rs:76-110.  Returns the flow and the bytes appended to `out`. *)
Definition values_drive (wrap : N -> N -> N -> state) (nxt : state) (vars p q : N) (data : bytes)
  : flow * bytes :=
  let finish (vars : N) (data : bytes) (o : bytes) :=
    if len data <? q then (Break [] (wrap vars 0 (q - len data)), o)
    else (Continue (drop q data) nxt, o) in
  if 0 <? p then
    let l := N.min (len data) p in
    let '(ps, rest) := nv_run (take l data) in
    let vars' := vars_of_pairs vars ps in
    if len data <? p then
      let consumed := l - len rest in
      (Break (drop consumed data) (wrap vars' (p - consumed) q), [])
    else finish vars' (drop p data) (write_response vars' maxc)
  else finish vars data [].

(* try_head!, request.rs:128-154: either a decoded header, or an early return *)
Inductive head_res :=
| HeadOk (rtype id clen plen : N)
| HeadRet (f : flow) (o : bytes).

Definition try_head (self_state : state) (skip_to : N -> N -> state) (data : bytes) : head_res :=
  if len data <? HEADER_LEN then HeadRet (Break data self_state) []
  else
    let head := take HEADER_LEN data in
    match hdr_decode head with
    | HOk t id cl pl => HeadOk t id cl pl
    | HBadType t =>
      let id := be16 (nthN head 2) (nthN head 3) in
      let payload := be16 (nthN head 4) (nthN head 5) in
      let padding := nthN head 6 in
      HeadRet (Continue (drop HEADER_LEN data) (skip_to payload padding)) (unk_record t id)
    | HBadVersion v => HeadRet (Break data (Fatal (EUnknownVersion v))) []
    end.

Definition header_skip_to : N -> N -> state := into_skip HeaderSkip Header.

(* HeaderState::drive, request.rs:160-209 *)
Definition header_drive (data : bytes) : flow * bytes :=
  match try_head Header header_skip_to data with
  | HeadRet f o => (f, o)
  | HeadOk t id cl pl =>
    if t =? RT_BeginRequest then
      if negb (BeginRequest_LEN =? cl) then (Break data (Fatal (EInvalidRequestLen cl)), [])
      else if len data <? HEADER_LEN + BeginRequest_LEN then (Break data Header, [])
      else
        let body := slice HEADER_LEN (HEADER_LEN + BeginRequest_LEN) data in
        let data' := drop (HEADER_LEN + BeginRequest_LEN) data in
        match begin_decode body with
        | (role, None) =>
          (Continue data' (header_skip_to 0 pl), end_record 0 PS_UnknownRole id)
        | (_, Some (role, flags)) =>
          if id =? 0 then (Break data' (Fatal ENullRequest), [])
          else (Continue data' (Params (mkInner (mkReq id role flags []) []) 0 pl), [])
        end
    else if (t =? RT_GetValues) && hdr_is_management t id then
      (Continue (drop HEADER_LEN data) (HeaderValues 0 cl pl), [])
    else (Continue (drop HEADER_LEN data) (header_skip_to cl pl), [])
  end.

(* try_fill!, request.rs:230-245: (vec', data', status) with status 0 = go on,
   1 = everything moved, caller returns [] ; 2 = nothing moved, caller returns data *)
Definition try_fill (buf data : bytes) (want : N) (must_move : bool) : bytes * bytes * N :=
  if len buf <? want then
    let needed := want - len buf in
    if needed <=? len data then (buf ++ take needed data, drop needed data, 0)
    else if must_move then (buf ++ data, [], 1)
    else (buf, data, 2)
  else (buf, data, 0).

(* ParamsStateInner::parse_buffered, request.rs:260-326.  None = a Rust panic. *)
Definition parse_buffered (i : inner) (data : bytes) (rec_end : bool) : option (inner * bytes) :=
  let mk b := mkInner (ireq i) b in
  match ibuf i with
  | [] => None                                            (* self.buffer[0] *)
  | b0 :: _ =>
    let head_len := 2 + (b0 / 128) * 3 in
    let '(buf1, data1, st1) := try_fill (ibuf i) data head_len rec_end in
    if negb (st1 =? 0) then Some (mk buf1, data1) else
    let head_len2 := head_len + (nthN buf1 (head_len - 1) / 128) * 3 in
    let '(buf2, data2, st2) := try_fill buf1 data1 head_len2 rec_end in
    if negb (st2 =? 0) then Some (mk buf2, data2) else
    match vi_read buf2 with
    | None => None                                        (* expect("both VarInts ...") *)
    | Some (name_len, c1) =>
      match vi_read c1 with
      | None => None
      | Some (val_len, c2) =>
        let body_buffered := len c2 in
        let hl := len buf2 - body_buffered in
        if negb (hl =? head_len2) then None               (* debug_assert_eq! *)
        else
          let val_start := hl + name_len in
          let body_len := name_len + val_len in
          if body_buffered + len data2 <? body_len then
            (if rec_end then Some (mk (buf2 ++ data2), []) else Some (mk buf2, data2))
          else
            (* name: from data if nothing of the body is buffered, else completed inside the buffer *)
            let '(name, buf3, data3, st3) :=
              if body_buffered =? 0 then (take name_len data2, buf2, drop name_len data2, 0)
              else let '(b3, d3, s3) := try_fill buf2 data2 val_start rec_end in
                   (slice hl val_start b3, b3, d3, s3) in
            if negb (st3 =? 0) then Some (mk buf3, data3) else
            let val0 := drop val_start buf3 in
            let missing := val_len - len val0 in
            if len data3 <? missing then None             (* split_at_mut out of range *)
            else
              Some (mkInner (env_insert (ireq i) name (val0 ++ take missing data3)) [],
                    drop missing data3)
      end
    end
  end.

(* ParamsStateInner::parse_stream, request.rs:346-374: (inner', consumed); None = panic *)
Definition parse_stream (i : inner) (data : bytes) (rec_end : bool) : option (inner * N) :=
  let l := len data in
  let iter (i : inner) (data : bytes) : option (inner * N) :=
    let '(ps, rest) := nv_run data in
    let r' := env_extend (ireq i) ps in
    if rec_end && negb (len rest =? 0) then Some (mkInner r' (ibuf i ++ rest), l)
    else Some (mkInner r' (ibuf i), l - len rest) in
  match ibuf i with
  | [] => iter i data
  | _ =>
    match parse_buffered i data rec_end with
    | None => None
    | Some (i', data') =>
      match ibuf i' with
      | [] => iter i' data'
      | _ => Some (i', l - len data')
      end
    end
  end.

Definition params_skip_to (i : inner) : N -> N -> state := into_skip (ParamsSkip i) (Params i 0 0).

(* ParamsState::drive, request.rs:385-462 *)
Definition params_drive (i : inner) (p q : N) (data : bytes) : flow * bytes :=
  (* stage 3: record header *)
  let stage_head (i : inner) (data : bytes) : flow * bytes :=
    match try_head (Params i 0 0) (params_skip_to i) data with
    | HeadRet f o => (f, o)
    | HeadOk t id cl pl =>
      let data' := drop HEADER_LEN data in
      let rid := r_id (ireq i) in
      if (t =? RT_Params) && (id =? rid) then
        if cl =? 0 then (Continue data' (into_skip (DoneSkip (ireq i)) (Done (ireq i)) 0 pl), [])
        else (Continue data' (Params i cl pl), [])
      else if (t =? RT_AbortRequest) && (id =? rid) then
        (Continue data' (header_skip_to cl pl), end_record 0 PS_RequestComplete rid)
      else if (t =? RT_BeginRequest) && negb (id =? rid) then
        (Continue data' (params_skip_to i cl pl), end_record 0 PS_CantMpxConn id)
      else if (t =? RT_GetValues) && hdr_is_management t id then
        (Continue data' (ParamsValues i 0 cl pl), [])
      else (Continue data' (params_skip_to i cl pl), [])
    end in
  (* stage 2: padding *)
  let stage_pad (i : inner) (q : N) (data : bytes) : flow * bytes :=
    if 0 <? q then
      if len data <=? q then (Break [] (Params i 0 (q - len data)), [])
      else stage_head i (drop q data)
    else stage_head i data in
  (* stage 1: payload *)
  if 0 <? p then
    if len data <? p then
      match parse_stream i data false with
      | None => (PANIC 1, [])
      | Some (i', consumed) =>
        if p <? consumed then (PANIC 2, [])                (* `-=` overflow *)
        else if len data <? consumed then (PANIC 3, [])     (* slice index *)
        else (Break (drop consumed data) (Params i' (p - consumed) q), [])
      end
    else
      match parse_stream i (take p data) true with
      | None => (PANIC 1, [])
      | Some (i', consumed) =>
        if negb (consumed =? p) then (PANIC 4, [])          (* debug_assert_eq! *)
        else stage_pad i' q (drop p data)
      end
  else stage_pad i q data.

(* one sub-state drive: dispatch of State::drive's match, request.rs:520-530 *)
Definition drive1 (s : state) (data : bytes) : flow * bytes :=
  match s with
  | Done _ | Fatal _ => (Break data s, [])
  | Header => header_drive data
  | HeaderSkip p q => (skip_drive HeaderSkip Header p q data, [])
  | HeaderValues vars p q => values_drive HeaderValues Header vars p q data
  | Params i p q => params_drive i p q data
  | ParamsSkip i p q => (skip_drive (ParamsSkip i) (Params i 0 0) p q data, [])
  | ParamsValues i vars p q => values_drive (ParamsValues i) (Params i 0 0) vars p q data
  | DoneSkip r p q => (skip_drive (DoneSkip r) (Done r) p q data, [])
  end.

Inductive dres :=
| DOk (rest : bytes) (s : state) (out : bytes)
| DPanic (site : N)
| DFuel.

Definition is_final (s : state) : bool :=
  match s with Done _ | Fatal _ => true | _ => false end.

(* State::drive, request.rs:511-542 *)
Fixpoint drive (fuel : nat) (s : state) (data out : bytes) : dres :=
  match fuel with
  | O => DFuel
  | S f =>
    if is_final s then DOk data s out
    else
      match drive1 s data with
      | (PANIC n, _) => DPanic n
      | (Break r s', o) => DOk r s' (out ++ o)
      | (Continue r s', o) =>
        match r with
        | [] => DOk r s' (out ++ o)
        | _ => drive f s' r (out ++ o)
        end
      end
  end.

Definition drive_fuel (data : bytes) : nat := (2 * length data + 4)%nat.
Definition drive_all (s : state) (data : bytes) : dres := drive (drive_fuel data) s data [].

(* request::Parser: `cap` = input.len(), `held` = input[..input_len] *)
Record parser := mkParser { cap : N; held : bytes; st : state }.

Inductive pres :=
| POk (p : parser) (done : bool) (output : bytes)
| PPanic (site : N).

(* Parser::parse, request.rs:655-674; `new` are the bytes the caller wrote into input_buffer() *)
Definition parse (p : parser) (new : bytes) : pres :=
  if cap p - len (held p) <? len new then PPanic 10      (* assert!(new_input <= ...) *)
  else
    let data := held p ++ new in
    match drive_all (st p) data with
    | DPanic n => PPanic n
    | DFuel => PPanic 99
    | DOk rest s' out =>
      if len data <? len rest then PPanic 11             (* move_input expect *)
      else
        let done := is_final s' in
        if negb done && (len rest =? cap p)
        then POk (mkParser (cap p) rest (Fatal EStuckOnInput)) true out
        else POk (mkParser (cap p) rest s') done out
    end.

(* Parser::input_buffer().len() *)
Definition input_space (p : parser) : N := cap p - len (held p).

(* Parser::into_request, request.rs:683-692 *)
Definition into_request (p : parser) : req * bytes + perr :=
  match st p with
  | Done r => inl (r, held p)
  | Fatal e => inr e
  | _ => inr EInterrupted
  end.

End Req.

(* Config::aligned_bufsize, lib.rs:136-149 (usize = 64 bit) *)
Definition USIZE_MAX64 : N := 18446744073709551615.
Definition aligned_bufsize (b : N) : N :=
  if b <=? MIN_BUF_SIZE then MIN_BUF_SIZE
  else if USIZE_MAX64 <? b + ALIGN_ADD then USIZE_MAX64
  else (b + ALIGN_ADD) - (b + ALIGN_ADD) mod (ALIGN_MASK + 1).   (* r & !7 *)

Definition new_parser (buffer_size : N) : parser := mkParser (aligned_bufsize buffer_size) [] Header.
