(* Parser/ReqWire.v — specification-side vocabulary for the request-parser theorems:
   records and wires, what a well-formed preamble is, the replies the FastCGI specification
   prescribes (C04), read schedules.  Definitions only (this is what the theorems are stated
   against, so it is meant to be read). *)
From FV Require Import Base.Bytes Gen.Generated Codec.Varint Codec.NV Codec.Header Codec.Bodies Codec.Vars
  Parser.ReqModel.

(* ---- records on the wire ---- *)
Record rcd := mkRcd { rt : N; rid : N; rbody : bytes; rpad : bytes }.

Definition rcd_ok (r : rcd) : Prop :=
  rt r < 256 /\ rid r < 65536 /\ len (rbody r) < 65536 /\ len (rpad r) < 256 /\
  bytes_ok (rbody r) /\ bytes_ok (rpad r).

(* version 1 header, reserved byte arbitrary *)
Definition enc_rcd_rsv (rsv : N) (r : rcd) : bytes :=
  [1; rt r] ++ to_be16 (rid r) ++ to_be16 (len (rbody r)) ++ [len (rpad r); rsv] ++ rbody r ++ rpad r.
Definition enc_rcd (r : rcd) : bytes := enc_rcd_rsv 0 r.
Definition enc_rcds (rs : list rcd) : bytes := flat_map enc_rcd rs.

(* ---- C04: the reply owed for one record, by phase ---- *)
Inductive phase := Idle | InParams (id : N) | InStream (id : N).

Definition gv_reply (maxc : N) (body : bytes) : bytes :=
  write_response (vars_of_pairs 0 (fst (nv_run body))) maxc.

Definition reply_for (maxc : N) (ph : phase) (r : rcd) : bytes :=
  if negb (known_type (rt r)) then unk_record (rt r) (rid r)
  else if (rt r =? RT_GetValues) && (rid r =? 0) then
    (if len (rbody r) =? 0 then [] else gv_reply maxc (rbody r))
  else match ph with
       | Idle =>
         if (rt r =? RT_BeginRequest) && (len (rbody r) =? 8) && negb (known_role (be16 (nthN (rbody r) 0) (nthN (rbody r) 1)))
         then end_record 0 PS_UnknownRole (rid r) else []
       | InParams id =>
         if (rt r =? RT_BeginRequest) && negb (rid r =? id) then end_record 0 PS_CantMpxConn (rid r)
         else if (rt r =? RT_AbortRequest) && (rid r =? id) then end_record 0 PS_RequestComplete id
         else []
       | InStream id =>
         if (rt r =? RT_BeginRequest) && negb (rid r =? id) then end_record 0 PS_CantMpxConn (rid r) else []
       end.

(* records that may appear while no request is active without starting one or being fatal:
   anything but a BeginRequest, or a BeginRequest (of the right length) with an unknown role *)
Definition idle_junk_ok (r : rcd) : Prop :=
  rcd_ok r /\ (rt r <> RT_BeginRequest \/
               (len (rbody r) = 8 /\ known_role (be16 (nthN (rbody r) 0) (nthN (rbody r) 1)) = false)).

(* records that may appear inside the Params phase of request [id] without touching it:
   everything except Params and AbortRequest records carrying this id.  This covers the
   management records (GetValues / GetValuesResult / Unknown with id 0), unknown types with any id,
   every record with a foreign id (incl. a foreign BeginRequest, answered CantMpxConn) and a
   duplicate BeginRequest of the same id. *)
Definition params_junk_ok (id : N) (r : rcd) : Prop :=
  rcd_ok r /\ ~ (rid r = id /\ (rt r = RT_Params \/ rt r = RT_AbortRequest)).

(* ---- a well-formed preamble ---- *)
(* the Params payload cut into non-empty pieces, each piece preceded by junk *)
Record piece := mkPiece { pjunk : list rcd; pbody : bytes; ppad : bytes }.

Definition piece_ok (id : N) (p : piece) : Prop :=
  Forall (params_junk_ok id) (pjunk p) /\ 0 < len (pbody p) < 65536 /\ len (ppad p) < 256 /\
  bytes_ok (pbody p) /\ bytes_ok (ppad p).

Definition piece_rcds (id : N) (p : piece) : list rcd :=
  pjunk p ++ [mkRcd RT_Params id (pbody p) (ppad p)].

Record preamble := mkPreamble {
  w_idle : list rcd;            (* before BeginRequest *)
  w_id : N; w_role : N; w_flags : N; w_beginpad : bytes;
  w_pieces : list piece;        (* Params records carrying the payload *)
  w_endjunk : list rcd;         (* junk before the terminating empty Params record *)
  w_endpad : bytes
}.

Definition preamble_payload (w : preamble) : bytes := flat_map pbody (w_pieces w).

Definition preamble_rcds (w : preamble) : list rcd :=
  w_idle w ++ [mkRcd RT_BeginRequest (w_id w) (begin_encode (w_role w) (w_flags w)) (w_beginpad w)]
  ++ flat_map (piece_rcds (w_id w)) (w_pieces w)
  ++ w_endjunk w ++ [mkRcd RT_Params (w_id w) [] (w_endpad w)].

Definition preamble_ok (w : preamble) : Prop :=
  Forall idle_junk_ok (w_idle w) /\
  0 < w_id w < 65536 /\ known_role (w_role w) = true /\ w_flags w < 256 /\
  len (w_beginpad w) < 256 /\ bytes_ok (w_beginpad w) /\
  Forall (piece_ok (w_id w)) (w_pieces w) /\
  Forall (params_junk_ok (w_id w)) (w_endjunk w) /\ len (w_endpad w) < 256 /\ bytes_ok (w_endpad w).

(* the replies owed for the whole preamble, in arrival order *)
Definition preamble_replies (maxc : N) (w : preamble) : bytes :=
  flat_map (reply_for maxc Idle) (w_idle w)
  ++ flat_map (fun p => flat_map (reply_for maxc (InParams (w_id w))) (pjunk p)) (w_pieces w)
  ++ flat_map (reply_for maxc (InParams (w_id w))) (w_endjunk w).

(* the environment a list of transmitted pairs denotes: insertion log (last value wins on lookup) *)
Definition env_log (norm : bytes -> bytes) (pairs : list (bytes * bytes)) : list (bytes * bytes) :=
  map (fun p => (norm (fst p), snd p)) pairs.

Fixpoint env_lookup (k : bytes) (log : list (bytes * bytes)) : option bytes :=
  match log with
  | [] => None
  | (k', v) :: t => match env_lookup k t with Some x => Some x | None => if beq k k' then Some v else None end
  end.

(* ---- read schedules ---- *)
Section Sched.
Variable norm : bytes -> bytes.
Variable maxc : N.

Inductive sres :=
| SOk (p : parser) (done : bool) (unfed : bytes) (out : bytes)
| SPanic
| SFuel.

(* While the schedule lists a chunk size c: one parse call with min(c, space, remaining) new
   bytes (a 0-byte call is legal); afterwards greedy calls with min(space, remaining) bytes until
   the wire is exhausted.  Stops as soon as a call reports done. *)
Fixpoint run_sched (fuel : nat) (p : parser) (wire : bytes) (sched : list N) (out : bytes) : sres :=
  match fuel with
  | O => SFuel
  | S f =>
    let space := input_space p in
    let avail := N.min space (len wire) in
    let n := match sched with c :: _ => N.min c avail | [] => avail end in
    match sched, n with
    | [], 0 => SOk p false wire out
    | _, _ =>
      match parse norm maxc p (take n wire) with
      | PPanic _ => SPanic
      | POk p' done o =>
        if done then SOk p' true (drop n wire) (out ++ o)
        else run_sched f p' (drop n wire) (tl sched) (out ++ o)
      end
    end
  end.

Definition sched_fuel (wire : bytes) (sched : list N) : nat := (length wire + length sched + 4)%nat.
Definition run_schedule (p : parser) (wire : bytes) (sched : list N) : sres :=
  run_sched (sched_fuel wire sched) p wire sched [].
End Sched.
