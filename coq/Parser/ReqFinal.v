(* Parser/ReqFinal.v — closes the request-parser development: instantiates the Section hypotheses
   of ReqDrive.v / ReqRecords.v with the lemmas proved in ReqParams.v / ReqDrive.v, for every
   normalisation function [norm] and every [maxc]. *)
From FV Require Import Base.Bytes Gen.Generated Codec.Varint Codec.NV Codec.Header Codec.Bodies Codec.Vars
  Parser.ReqModel Parser.ReqParamsSpec Parser.ReqWire Parser.ReqTargets Parser.ReqParams Parser.ReqDrive Parser.ReqRecords.

Section Final.
Variable norm : bytes -> bytes.
Variable maxc : N.

Lemma F_S1 : S1_stmt norm. Proof. exact (S1 norm). Qed.
Lemma F_S2 : S2_stmt norm. Proof. exact (S2 norm). Qed.
Lemma F_S3 : S3_stmt norm. Proof. exact (S3 norm). Qed.

Lemma F_drive_total : drive_total_stmt norm maxc.
Proof. exact (drive_total norm maxc F_S1). Qed.

Lemma F_A_ne : A_ne_stmt norm maxc.
Proof.
  intros s d1 d2 Hs _ H1 H2 Hne Hl. apply (drive_additive' norm maxc F_S1 F_S3); assumption.
Qed.

Lemma F_parse_total : parse_total_stmt norm maxc.
Proof. exact (parse_total norm maxc F_S1). Qed.
Lemma F_parse_reported : parse_reported_stmt norm maxc.
Proof. exact (parse_reported norm maxc F_S1). Qed.
Lemma F_parse_stuck : parse_stuck_stmt norm maxc.
Proof. exact (parse_stuck norm maxc F_S1). Qed.
Lemma F_parse_sticky : parse_sticky_stmt norm maxc.
Proof. exact (parse_sticky norm maxc F_S1). Qed.
Lemma F_sched_total : sched_total_stmt norm maxc.
Proof. exact (sched_total norm maxc F_S1 F_S2 F_S3). Qed.

Lemma settle_same s : ReqDrive.settle s = ReqRecords.settle s.
Proof. reflexivity. Qed.

Lemma F_sched_invariant : sched_invariant_settle_stmt norm maxc.
Proof.
  intros B wire s1 s2 p1 d1 u1 o1 p2 d2 u2 o2 HB Hw Hl R1 R2.
  pose proof (sched_invariant' norm maxc F_S1 F_S2 F_S3 B wire s1 s2 p1 d1 u1 o1 p2 d2 u2 o2 HB Hw Hl R1 R2) as H.
  exact H.
Qed.

Lemma F_preamble_exact : preamble_exact_stmt norm maxc.
Proof.
  exact (preamble_exact norm maxc F_S1 F_S2 F_A_ne F_drive_total F_parse_total F_sched_total F_sched_invariant).
Qed.
End Final.
