(* Parser/BufsizeProofs.v — Config::aligned_bufsize (lib.rs:136-149): C06's effective-buffer clause. *)
From Coq Require Import ZArith.
From FV Require Import Base.Bytes Gen.Generated Parser.ReqModel.
From Coq Require Import ZifyBool ZifyNat ZifyN.
Ltac Zify.zify_post_hook ::= Z.div_mod_to_equations.

(* for every configurable size that does not overflow the alignment addition *)
Lemma bufsize_spec b : b + 7 <= USIZE_MAX64 ->
  b <= aligned_bufsize b /\ 24 <= aligned_bufsize b /\ aligned_bufsize b mod 8 = 0 /\
  aligned_bufsize b < N.max 25 (b + 8) /\
  (forall c, b <= c -> 24 <= c -> c mod 8 = 0 -> aligned_bufsize b <= c).     (* the least such size *)
Proof.
  unfold aligned_bufsize, MIN_BUF_SIZE, ALIGN_ADD, ALIGN_MASK, USIZE_MAX64. intros H.
  destruct (N.leb_spec b 24).
  - repeat split; try lia; intros c; lia.
  - destruct (N.ltb_spec 18446744073709551615 (b + 7)); [lia|].
    repeat split; try lia; intros c Hb Hc Hm; lia.
Qed.

(* the overflow arm, kept visible: outside the documented domain the result is usize::MAX *)
Lemma bufsize_overflow_arm b : USIZE_MAX64 < b + 7 -> b <= USIZE_MAX64 -> aligned_bufsize b = USIZE_MAX64.
Proof.
  unfold aligned_bufsize, MIN_BUF_SIZE, ALIGN_ADD, ALIGN_MASK, USIZE_MAX64. intros H1 H2.
  destruct (N.leb_spec b 24); [lia|]. destruct (N.ltb_spec 18446744073709551615 (b + 7)); [reflexivity|lia].
Qed.

Lemma bufsize_default : aligned_bufsize DEFAULT_BUF_SIZE = DEFAULT_BUF_SIZE /\ aligned_bufsize 0 = 24.
Proof. split; reflexivity. Qed.

(* a fresh parser offers the whole effective buffer *)
Lemma new_parser_space b : input_space (new_parser b) = aligned_bufsize b.
Proof. unfold input_space, new_parser. cbn [cap held]. unfold len. cbn [length]. lia. Qed.
