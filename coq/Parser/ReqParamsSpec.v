(* Parser/ReqParamsSpec.v — the interface between the proofs about ParamsStateInner
   (Parser/ReqParams.v proves these statements) and the proofs about the state machine
   (Parser/ReqDrive.v uses them).  Statements only. *)
From FV Require Import Base.Bytes Gen.Generated Codec.Varint Codec.NV Parser.ReqModel.

Section Spec.
Variable norm : bytes -> bytes.

(* invariant of ParamsStateInner.buffer: empty, or a proper prefix of one encoded pair *)
Definition buf_ok (b : bytes) : Prop := bytes_ok b /\ nv_next b = None.

Definition inner_ok (i : inner) : Prop := buf_ok (ibuf i).

(* S1: parse_stream never panics, preserves the invariant, and reports a sane byte count *)
Definition S1_stmt : Prop := forall i q e, inner_ok i -> bytes_ok q -> len (ibuf i ++ q) <= USIZE_MAX ->
  exists i' c, parse_stream norm i q e = Some (i', c) /\ inner_ok i' /\ c <= len q /\
               (e = true -> c = len q) /\ r_id (ireq i') = r_id (ireq i) /\ r_role (ireq i') = r_role (ireq i)
               /\ r_flags (ireq i') = r_flags (ireq i).

(* S2 (B'): what parse_stream computes, against plain name-value decoding of buffer ++ data *)
Definition S2_stmt : Prop := forall i q e i' c, inner_ok i -> bytes_ok q -> len (ibuf i ++ q) <= USIZE_MAX ->
  parse_stream norm i q e = Some (i', c) ->
  let '(ps, rest) := nv_run (ibuf i ++ q) in
  ireq i' = env_extend norm (ireq i) ps /\ ibuf i' ++ drop c q = rest.

(* S3: exact additivity: feeding q1 (record not finished) and then the unconsumed rest of q1
   followed by q2 is the same as feeding q1 ++ q2 at once *)
Definition S3_stmt : Prop := forall i q1 q2 e, inner_ok i -> bytes_ok q1 -> bytes_ok q2 ->
  len (ibuf i ++ q1 ++ q2) <= USIZE_MAX ->
  parse_stream norm i (q1 ++ q2) e =
    match parse_stream norm i q1 false with
    | Some (i1, c1) =>
      match parse_stream norm i1 (drop c1 q1 ++ q2) e with
      | Some (i2, c2) => Some (i2, c1 + c2)
      | None => None
      end
    | None => None
    end.

(* S4: what stays unconsumed in a record that has not ended is short: a proper prefix of the
   pair being assembled (used for the buffer bound, C06).  [pending] is everything of the current
   pair seen so far. *)
Definition S4_stmt : Prop := forall i q i' c, inner_ok i -> bytes_ok q -> len (ibuf i ++ q) <= USIZE_MAX ->
  parse_stream norm i q false = Some (i', c) ->
  nv_next (ibuf i' ++ drop c q) = None.
End Spec.
