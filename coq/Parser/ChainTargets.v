(* Parser/ChainTargets.v — statement of the k-request conversion chain (C05, "Consequently ..." clause):
   request parser -> stream parser -> request parser -> ... over ONE shared buffer, the client's bytes for
   k sequential requests arriving with any amount of look-ahead (all k requests may already be in the buffer).
   Statements and executable definitions only; proofs go to Parser/ChainStream.v (stream phase) and
   Parser/ChainProofs.v (composition). *)
From FV Require Import Base.Bytes Gen.Generated Codec.NV Codec.Header Parser.ReqModel Parser.ReqWire Parser.ReqTargets
  Parser.StreamModel Parser.AbsStream Parser.StreamSpec Parser.StreamFinal.

Section Chain.
Variable norm : bytes -> bytes.
Variable maxc : N.

(* ---------------------------------------------------------------------------------------------- *)
(* the caller's operations during the stream phase of one request                                  *)
(* ---------------------------------------------------------------------------------------------- *)
Inductive xop := XC (c : cop) | XSel (s : N).     (* XSel s = set_stream(Some s) *)

Definition xfed_of (x : xop) : bytes := match x with XC c => cfed_of c | XSel _ => [] end.
Definition xfed (xs : list xop) : bytes := flat_map xfed_of xs.

(* the run: final parser and the stream bytes handed to the caller, each piece tagged with the stream that
   was selected when it was handed out; None when a set_stream call is refused *)
Fixpoint xrun (p : sp) (xs : list xop) : option (sp * list (option N * bytes)) :=
  match xs with
  | [] => Some (p, [])
  | XC c :: r =>
    match xrun (fst (fst (cstep maxc p c))) r with
    | Some (pf, ds) => Some (pf, (stream p, snd (fst (cstep maxc p c))) :: ds)
    | None => None
    end
  | XSel s :: r => match set_stream p (Some s) with SetOk p1 => xrun p1 r | _ => None end
  end.

(* the caller contract: every parse call is legal (C03's contract), every selection is accepted *)
Fixpoint xlegal (p : sp) (xs : list xop) : Prop :=
  match xs with
  | [] => True
  | XC c :: r => cop_legal p c /\ xlegal (fst (fst (cstep maxc p c))) r
  | XSel s :: r => match set_stream p (Some s) with SetOk p1 => xlegal p1 r | _ => False end
  end.

Definition delivered (sg : option N) (ds : list (option N * bytes)) : bytes :=
  flat_map (fun x => if optN_eqb (fst x) sg then snd x else []) ds.

Definition is_parse (x : xop) : bool := match x with XC (CParse _ _) => true | _ => false end.

(* ---------------------------------------------------------------------------------------------- *)
(* (A) the stream phase of one request                                                             *)
(* ---------------------------------------------------------------------------------------------- *)

(* the records of the request close every input stream of its role: walking them for stream sg stops at a
   terminator (or at an AbortRequest of this request) *)
Definition closes_streams (role id : N) (rs : list rcd) : Prop :=
  Forall (fun sg => content_open role id (Some sg) rs = false) (role_input_streams role).

(* A request parser finished a preamble (Done r, look-ahead [held rp]) and is converted.  The wire continues with
   the records rs of this request, which close all its input streams, and then ANY bytes t (later requests).  The caller
   runs any legal operations (parse calls with any chunking and destination sizes, consume_stream, compress,
   consume_output, selection of later streams); for a role without input streams it does not call parse.  Then
   - for every input stream of the role, what the caller was handed while that stream was selected is a prefix
     of the stream's content in rs (nothing from another stream, nothing from t);
   - the parser never reads past this request's records: whenever it stands at a record boundary, the bytes it
     has not interpreted, followed by the bytes not yet fed, are exactly a suffix of the record list rs followed by t. *)
Definition stream_phase_stmt : Prop := forall rp r sp0 rs t xs pf ds u,
  parser_ok rp -> st rp = Done r -> into_stream_parser rp = inl sp0 ->
  Forall rcd_ok rs -> closes_streams (r_role r) (r_id r) rs ->
  (next_input_stream (r_role r) None = None -> existsb is_parse xs = false) ->
  held rp ++ xfed xs ++ u = enc_rcds rs ++ t ->
  xlegal sp0 xs -> xrun sp0 xs = Some (pf, ds) ->
  sp_inv pf /\ sreq pf = r /\ len (buffer pf) = cap rp /\
  (forall sg, In sg (role_input_streams (r_role r)) ->
     exists more, content_rcds (r_role r) (r_id r) (Some sg) rs = delivered (Some sg) ds ++ more) /\
  (is_record_boundary pf = true ->
     exists done todo, rs = done ++ todo /\ raw_bytes pf ++ u = enc_rcds todo ++ t).

(* ---------------------------------------------------------------------------------------------- *)
(* (B) the chain                                                                                   *)
(* ---------------------------------------------------------------------------------------------- *)

(* what the client sends for one request: a preamble (C01's family: junk, cuts, padding), then records that
   close the request's streams *)
Record creq := mkCReq { c_pre : preamble; c_pairs : list (bytes * bytes); c_rest : list rcd }.

Definition creq_wire (c : creq) : bytes := enc_rcds (preamble_rcds (c_pre c)) ++ enc_rcds (c_rest c).

Definition expected (c : creq) : req :=
  mkReq (w_id (c_pre c)) (w_role (c_pre c)) (w_flags (c_pre c)) (env_log norm (c_pairs c)).

Definition creq_ok (capacity : N) (c : creq) : Prop :=
  let w := c_pre c in
  preamble_ok w /\ Forall pair_ok (c_pairs c) /\ nv_write_all (c_pairs c) = Some (preamble_payload w) /\
  Forall (pair_fits capacity) (c_pairs c) /\ preamble_fits capacity w /\
  Forall (fun r => rcd_ok r /\ rt r <> RT_BeginRequest /\ gv_fits capacity r) (c_rest c) /\
  closes_streams (w_role w) (w_id w) (c_rest c).

(* what the caller does for one request: the read schedule of the request parser (C01), then the stream phase *)
Record stage := mkStage { g_sched : list N; g_ops : list xop }.

Definition chain_out : Type := list (req * list (option N * bytes)) * parser * bytes.

(* the chain: parse a preamble, convert, run the stream phase, convert back at a record boundary, repeat.
   None: a preamble was not completed, a conversion was refused, or the caller fed bytes that are not the wire's. *)
Fixpoint chain_run (p : parser) (u : bytes) (gs : list stage) : option chain_out :=
  match gs with
  | [] => Some ([], p, u)
  | g :: r =>
    match run_schedule norm maxc p u (g_sched g) with
    | SOk p1 true u1 _ =>
      match into_stream_parser p1 with
      | inl sp0 =>
        match xrun sp0 (g_ops g) with
        | Some (pf, ds) =>
          let fed := xfed (g_ops g) in
          if beq (take (len fed) u1) fed then
            match into_request_parser pf with
            | ConvOk p2 =>
              match chain_run p2 (drop (len fed) u1) r with
              | Some (res, pe, ue) => Some ((sreq sp0, ds) :: res, pe, ue)
              | None => None
              end
            | _ => None
            end
          else None
        | None => None
        end
      | inr _ => None
      end
    | _ => None
    end
  end.

(* the caller's obligations along the chain, and nothing else: the request-parser schedule starts with at least
   one call (the reused parser must look at its leftover before anything is read: /repo fd29a7b), the stream-phase
   operations are legal and feed the wire's own bytes, a role without input streams is not parsed, and the hand-off
   happens at a record boundary with the parser's output taken. *)
Fixpoint chain_legal (p : parser) (u : bytes) (gs : list stage) : Prop :=
  match gs with
  | [] => True
  | g :: r =>
    g_sched g <> [] /\
    match run_schedule norm maxc p u (g_sched g) with
    | SOk p1 true u1 _ =>
      match into_stream_parser p1 with
      | inl sp0 =>
        xlegal sp0 (g_ops g) /\
        (next_input_stream (r_role (sreq sp0)) None = None -> existsb is_parse (g_ops g) = false) /\
        let fed := xfed (g_ops g) in
        take (len fed) u1 = fed /\
        match xrun sp0 (g_ops g) with
        | Some (pf, _) =>
          is_record_boundary pf = true /\ output_buffer pf = [] /\
          match into_request_parser pf with
          | ConvOk p2 => chain_legal p2 (drop (len fed) u1) r
          | _ => True
          end
        | None => True
        end
      | inr _ => True
      end
    | _ => True
    end
  end.

(* THE CHAIN THEOREM.  The client sends k requests back to back (each: preamble with any junk / cuts / padding,
   then records closing its streams, pairs and GetValues records within the documented buffer bound), followed by
   any bytes.  For EVERY read schedule of every request parser, every legal stream-phase behaviour of the caller
   (reading nothing, part, or all of each stream, any chunking, any look-ahead at each hand-off: up to the whole
   rest of the connection may already be in the buffer) the chain completes all k stages and
   - the i-th request is exactly the i-th transmitted one (id, role, flags, environment) — the same as that
     request parsed alone on a fresh connection (C01_exact);
   - the stream bytes handed out in stage i are, per stream, a prefix of the i-th request's content;
   - afterwards the bytes still held plus the bytes not yet fed are a suffix of the last request's records
     followed by the trailing bytes: nothing lost, duplicated or reordered across any of the 2k conversions. *)
Definition chain_stmt : Prop := forall B cs gs trailing,
  B < SIZE_LIMIT - 8 -> Forall (creq_ok (aligned_bufsize B)) cs -> length gs = length cs ->
  bytes_ok trailing -> len (flat_map creq_wire cs ++ trailing) < SIZE_LIMIT ->
  chain_legal (new_parser B) (flat_map creq_wire cs ++ trailing) gs ->
  exists res pe ue,
    chain_run (new_parser B) (flat_map creq_wire cs ++ trailing) gs = Some (res, pe, ue) /\
    map fst res = map expected cs /\
    Forall2 (fun c r => forall sg, In sg (role_input_streams (w_role (c_pre c))) ->
               exists more, content_rcds (w_role (c_pre c)) (w_id (c_pre c)) (Some sg) (c_rest c)
                            = delivered (Some sg) (snd r) ++ more) cs res /\
    (cs <> [] -> exists done todo, c_rest (last cs (mkCReq (mkPreamble [] 0 0 0 [] [] [] []) [] [])) = done ++ todo /\
                                   held pe ++ ue = enc_rcds todo ++ trailing) /\
    st pe = Header /\ cap pe = aligned_bufsize B.

(* the same k requests, each on its own fresh connection: stage i alone yields the same request *)
Definition chain_separately_stmt : Prop := forall B c sched,
  B < SIZE_LIMIT - 8 -> creq_ok (aligned_bufsize B) c -> len (creq_wire c) < SIZE_LIMIT ->
  exists p u o, run_schedule norm maxc (new_parser B) (creq_wire c) sched = SOk p true u o /\ st p = Done (expected c).

End Chain.
