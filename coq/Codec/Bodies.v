(* Codec/Bodies.v — model of src/protocol/body.rs: UnknownType, BeginRequest, EndRequest bodies,
   their whole-record encoders, ExitStatus -> EndRequest, make_request_epilogue.  No proofs here. *)
From FV Require Import Base.Bytes Gen.Generated Codec.Header.

(* UnknownType (body.rs:9-49) *)
Definition unk_decode (d : bytes) : N := nthN d 0.
Definition unk_encode (rtype : N) : bytes := rtype :: zeros 7.
Definition unk_record (rtype id : N) : bytes := hdr_encode RT_Unknown id UnknownType_LEN 0 ++ unk_encode rtype.

(* BeginRequest (body.rs:53-99): None = ProtocolError::UnknownRole(role); flags are retained as is *)
Definition begin_decode (d : bytes) : N (*role*) * option (N * N) :=
  let role := be16 (nthN d 0) (nthN d 1) in
  (role, if known_role role then Some (role, nthN d 2) else None).
Definition begin_encode (role flags : N) : bytes := to_be16 role ++ [flags] ++ zeros 5.
Definition begin_record (role flags id : N) : bytes :=
  hdr_encode RT_BeginRequest id BeginRequest_LEN 0 ++ begin_encode role flags.

(* EndRequest (body.rs:103-151): None = ProtocolError::UnknownStatus *)
Definition end_decode (d : bytes) : option (N * N) :=
  let app := be32 (nthN d 0) (nthN d 1) (nthN d 2) (nthN d 3) in
  if known_status (nthN d 4) then Some (app, nthN d 4) else None.
Definition end_encode (app pstatus : N) : bytes := to_be32 app ++ [pstatus] ++ zeros 3.
Definition end_record (app pstatus id : N) : bytes :=
  hdr_encode RT_EndRequest id EndRequest_LEN 0 ++ end_encode app pstatus.

(* ExitStatus: (discriminant, payload); From<ExitStatus> for EndRequest (body.rs:153-163).
   Returns (app_status, protocol_status). *)
Definition exit_to_end (disc code : N) : option (N * N) :=
  match find (fun e => fst (fst e) =? disc) EXIT_MAP with
  | Some (_, ps, None) => Some (code, ps)
  | Some (_, ps, Some k) => Some (k, ps)
  | None => None
  end.
Definition EXIT_ABORT_CODE : N :=
  be32 (nthN EXIT_ABORT_BYTES 0) (nthN EXIT_ABORT_BYTES 1) (nthN EXIT_ABORT_BYTES 2) (nthN EXIT_ABORT_BYTES 3).

(* make_request_epilogue (body.rs:173-187) *)
Definition epilogue (id disc code : N) (streams : list N) : option bytes :=
  match exit_to_end disc code with
  | None => None
  | Some (app, ps) =>
    Some (flat_map (fun s => hdr_encode s id 0 0) streams ++ end_record app ps id)
  end.
