(* Codec/Header.v — model of RecordHeader (src/protocol/mod.rs:56-143) and of the enum
   conversions it uses (src/protocol/fields.rs).  No proofs here. *)
From FV Require Import Base.Bytes Gen.Generated.

Definition memN (x : N) (l : list N) : bool := existsb (N.eqb x) l.

(* RecordType::is_management / is_input_stream / is_output_stream (fields.rs:300-322) *)
Definition is_management (t : N) : bool := memN t IS_MANAGEMENT.
Definition is_input_stream (t : N) : bool := memN t IS_INPUT_STREAM.
Definition is_output_stream (t : N) : bool := memN t IS_OUTPUT_STREAM.
Definition known_type (t : N) : bool := memN t RTYPE_VALUES.       (* RecordType::try_from succeeds *)
Definition known_version (v : N) : bool := memN v VERSION_VALUES.  (* Version::try_from succeeds *)
Definition known_role (r : N) : bool := memN r ROLE_VALUES.        (* Role::try_from succeeds *)
Definition known_status (s : N) : bool := memN s PSTATUS_VALUES.   (* ProtocolStatus::try_from succeeds *)

(* Role::input_streams / next_input_stream / output_streams (fields.rs:108-170) *)
Definition role_input_streams (role : N) : list N :=
  match find (fun p => fst p =? role) ROLE_INPUT_STREAMS with Some p => snd p | None => [] end.
Definition optN_eqb (a b : option N) : bool :=
  match a, b with None, None => true | Some x, Some y => x =? y | _, _ => false end.
Definition next_input_stream (role : N) (cur : option N) : option N :=
  match find (fun e => memN role (fst (fst e)) && optN_eqb (snd (fst e)) cur) NEXT_INPUT_STREAM with
  | Some e => Some (snd e)
  | None => None
  end.

(* RecordHeader::from_bytes (mod.rs:121-129): version is checked first, then the type *)
Inductive hdr_res :=
| HOk (rtype id clen plen : N)
| HBadVersion (v : N)
| HBadType (t : N).

Definition hdr_decode (d : bytes) : hdr_res :=
  let b := nthN d in
  if negb (known_version (b 0)) then HBadVersion (b 0)
  else if negb (known_type (b 1)) then HBadType (b 1)
  else HOk (b 1) (be16 (b 2) (b 3)) (be16 (b 4) (b 5)) (b 6).

(* RecordHeader::to_bytes (mod.rs:134-142); the only Version is V1 *)
Definition hdr_encode (rtype id clen plen : N) : bytes :=
  [VERSION_V1; rtype] ++ to_be16 id ++ to_be16 clen ++ [plen; 0].

(* RecordHeader::set_lengths (mod.rs:90-97): automatic padding *)
Definition auto_padding (clen : N) : N :=
  let p := clen mod 8 in if 0 <? p then 8 - p else p.

(* RecordHeader::is_management (mod.rs:102-104) *)
Definition hdr_is_management (rtype id : N) : bool := is_management rtype && (id =? FCGI_NULL_REQUEST_ID).
